(* LIVENESS of the v1 priority discipline model (Prio1.v), the port of Prio2Live.v:
     "if handlers eventually release every item they receive, every item written to the input channel of a registered priority is
      eventually delivered", for executions in which nobody stops the discipline or changes its inputs (static_op environment).
   Infinite executions are functions tr : nat -> st with a label per step; the oracle of every scheduler step is arbitrary (the
   theorems cover every resolution of the selects).  Fairness hypotheses F_sched / F_take / F_rel / F_tick (and the weaker
   F_tick_w).  No classical axiom is used.
   Sections:
     0  generic tools            1  moves and quiet steps            1b safety facts (no Drain/Done, reads tagged by chan_of,
        delivered = the settled reads, the per-channel split  delivered ++ limbo ++ input = written)
     2  an execution: safety facts at every index (sreachable, Inv, Inv2, ...); the pc always moves again
     3  the cycle rank, by_moves, Calc infinitely often
     4  one priority p (channel ch) with undelivered data: in-flight items of p flow back, p is eventually under its share at Calc
     5  a round in which p has an allowance delivers an item of ch       6  the count grows      7  every item
     8  the closed theorems: prio1_calc_infinitely_often, prio1_every_item_delivered (+ _partial, _chan, _w, _new, _new_fair),
        prio1_head_delivered, prio1_some_item_delivered, execution_sreachable
     9  lasso executions; 9a prio1_liveness_needs_distinct_channels (chan_inj cannot be dropped);
        9b prio1_liveness_does_not_need_fblimit (the v2 counterexample does NOT port: `1 <= fblimit s0` is not needed in v1)
    10  non-vacuity: a fair infinite execution from New() with the Fair divider
    11  sched_enabled_stable: F_sched is ordinary weak fairness                                                         *)
From Coq Require Import List NArith Lia Bool Arith.
From Cqos Require Import Base Divider DividerP Sched Prio1 Prio1P Prio1C Prio1L.
Import ListNotations.
Open Scope N_scope.

Inductive label := LSched (o : nat) | LEnv (op : env_op) | LStutter.
Definition is_step (fixed : bool) (dv : nat -> Divider) (s : st) (l : label) (s' : st) : Prop :=
  match l with
  | LSched o => sched_step fixed dv o s = Some s'
  | LEnv op => static_op op /\ env_step s op = Some s'
  | LStutter => s' = s
  end.
Record execution (fixed : bool) (dv : nat -> Divider) (s0 : st) (tr : nat -> st) (lb : nat -> label) : Prop := {
  ex_init : tr 0%nat = s0;
  ex_step : forall i, is_step fixed dv (tr i) (lb i) (tr (S i)) }.

(* fairness / environment hypotheses *)
Definition is_sched (l : label) : Prop := exists o, l = LSched o.
Definition F_sched (fixed : bool) (dv : nat -> Divider) (tr : nat -> st) (lb : nat -> label) : Prop :=
  forall i, (exists o s', sched_step fixed dv o (tr i) = Some s') -> exists j, (i <= j)%nat /\ is_sched (lb j).
Definition F_take (tr : nat -> st) (lb : nat -> label) : Prop :=
  forall i, outq (tr i) <> [] -> exists j, (i <= j)%nat /\ lb j = LEnv Take.
Definition F_rel (tr : nat -> st) (lb : nat -> label) : Prop :=
  forall i p x, In (p, x) (held (tr i)) -> exists j, (i <= j)%nat /\ lb j = LEnv (Release p).
Definition F_tick (lb : nat -> label) : Prop :=
  forall i, exists j, (i <= j)%nat /\ lb j = LEnv Tick.

(* ================= 0. generic tools ================= *)
Lemma first_such (Q : nat -> Prop) (Qdec : forall m, {Q m} + {~ Q m}) :
  forall d k, Q (k + d)%nat -> exists m, (k <= m <= k + d)%nat /\ Q m /\ forall m', (k <= m' < m)%nat -> ~ Q m'.
Proof.
  induction d as [|d IH]; intros k Hq.
  - exists k. rewrite Nat.add_0_r in *. split; [lia|]. split; [exact Hq|]. intros m' Hm'. lia.
  - destruct (Qdec k) as [Hk|Hk].
    + exists k. split; [lia|]. split; [exact Hk|]. intros m' Hm'. lia.
    + replace (k + S d)%nat with (S k + d)%nat in Hq by lia.
      destruct (IH (S k) Hq) as (m & Hm & HQ & Hmin). exists m. split; [lia|]. split; [exact HQ|].
      intros m' Hm'. destruct (Nat.eq_dec m' k) as [->|Hne]; [exact Hk|]. apply Hmin. lia.
Qed.

Lemma first_from (Q : nat -> Prop) (Qdec : forall m, {Q m} + {~ Q m}) k j :
  (k <= j)%nat -> Q j -> exists m, (k <= m <= j)%nat /\ Q m /\ forall m', (k <= m' < m)%nat -> ~ Q m'.
Proof.
  intros Hle Hq. replace j with (k + (j - k))%nat in Hq by lia.
  destruct (first_such Q Qdec (j - k) k Hq) as (m & Hm & HQ & Hmin). exists m. split; [lia|]. split; assumption.
Qed.

Lemma along (P : nat -> Prop) k : forall j, (k <= j)%nat ->
  (forall m, (k <= m < j)%nat -> P m -> P (S m)) -> P k -> P j.
Proof.
  induction j as [|j IH]; intros Hle Hst Hk.
  - replace 0%nat with k by lia. exact Hk.
  - destruct (Nat.eq_dec k (S j)) as [<-|Hne]; [exact Hk|].
    apply Hst; [lia|]. apply IH; [lia| |exact Hk]. intros m Hm. apply Hst. lia.
Qed.

(* ranked progress: if from every P-state a later state is in the target or in P with a smaller rank, the target is reached *)
Lemma ranked (P : nat -> Prop) (rk : nat -> nat) (T : nat -> Prop) :
  (forall k, P k -> exists k', (k <= k')%nat /\ (T k' \/ (P k' /\ (rk k' < rk k)%nat))) ->
  forall n k, (rk k <= n)%nat -> P k -> exists j, (k <= j)%nat /\ T j.
Proof.
  intros Hprog. induction n as [|n IH]; intros k Hn HP.
  - destruct (Hprog k HP) as (k' & Hle & [HT|[_ Hlt]]); [exists k'; auto|lia].
  - destruct (Hprog k HP) as (k' & Hle & [HT|[HP' Hlt]]); [exists k'; auto|].
    destruct (IH k' ltac:(lia) HP') as (j & Hj & HT). exists j. split; [lia|exact HT].
Qed.

Lemma env_op_eq_dec (a b : env_op) : {a = b} + {a <> b}.
Proof. decide equality; try apply N.eq_dec; try apply Nat.eq_dec; apply Bool.bool_dec. Qed.
Lemma label_eq_dec (a b : label) : {a = b} + {a <> b}.
Proof. decide equality; [apply Nat.eq_dec|apply env_op_eq_dec]. Qed.
Lemma is_sched_dec l : {is_sched l} + {~ is_sched l}.
Proof. destruct l as [o|op|]; [left; exists o; reflexivity|right; intros [o E]; discriminate|right; intros [o E]; discriminate]. Qed.

(* ================= 1. moves and quiet steps ================= *)
(* a clock tick moves the scheduler's pc exactly when it sleeps (Idle) or is blocked in iou on an empty, open, unbuffered input *)
Definition read_blocked (s : st) (p : N) : bool :=
  match chan_of s p with
  | Some ch => negb (get (tactic s) p =? 0) && negb (buffered s ch) && negb (closed s ch) &&
               match inq s ch with [] => true | _ => false end
  | None => false
  end.
Definition tick_moves (s : st) : bool :=
  match pcs s with Idle => true | Read _ p _ _ _ => read_blocked s p | _ => false end.
Definition is_move (s : st) (l : label) : Prop := is_sched l \/ (l = LEnv Tick /\ tick_moves s = true).
Lemma is_move_dec s l : {is_move s l} + {~ is_move s l}.
Proof.
  unfold is_move. destruct (is_sched_dec l) as [E|E]; [left; left; exact E|].
  destruct (label_eq_dec l (LEnv Tick)) as [E2|E2].
  - destruct (tick_moves s) eqn:Et; [left; right; split; auto|right; intros [?|[_ ?]]; [contradiction|congruence]].
  - right; intros [?|[? _]]; [contradiction|congruence].
Qed.

(* the clock only has to advance when the scheduler actually waits for it *)
Definition F_tick_w (tr : nat -> st) (lb : nat -> label) : Prop :=
  forall i, tick_moves (tr i) = true -> exists j, (i <= j)%nat /\ lb j = LEnv Tick.
Lemma F_tick_weaken tr lb : F_tick lb -> F_tick_w tr lb.
Proof. intros F i _. apply F. Qed.

(* what a tick does *)
Lemma tick_step s : env_step s Tick = Some (if tick_moves s then
    match pcs s with
    | Idle => with_pc s (LimFb (fblimit s))
    | Read ph p r proc intr => with_pc s (if intr then Prio ph r proc else Read ph p r proc true)
    | _ => s end else s).
Proof.
  cbn [env_step]. unfold tick_moves, read_blocked, chan_state. destruct (pcs s) eqn:Epc; try reflexivity.
  destruct (chan_of s p) as [ch|]; [|reflexivity].
  destruct (inq s ch); [|rewrite !andb_false_r; reflexivity].
  destruct (closed s ch); [rewrite !andb_false_r; reflexivity|].
  destruct (buffered s ch); [rewrite !andb_false_r; reflexivity|].
  destruct (get (tactic s) p =? 0); reflexivity.
Qed.

Lemma tick_move_step s s' : env_step s Tick = Some s' -> tick_moves s = true ->
  (pcs s = Idle /\ s' = with_pc s (LimFb (fblimit s))) \/
  (exists ph p r proc intr, pcs s = Read ph p r proc intr /\ read_blocked s p = true /\
     s' = with_pc s (if intr then Prio ph r proc else Read ph p r proc true)).
Proof.
  intros Hs Ht. rewrite tick_step, Ht in Hs. unfold tick_moves in Ht. destruct (pcs s) eqn:Epc; try discriminate.
  - right. inversion Hs; subst s'. exists ph, p, rest, proc, intr. auto.
  - left. inversion Hs; subst s'. auto.
Qed.
Lemma tick_quiet_step s s' : env_step s Tick = Some s' -> tick_moves s = false -> s' = s.
Proof. intros Hs Ht. rewrite tick_step, Ht in Hs. inversion Hs; reflexivity. Qed.

Record quiet_rel (s s' : st) : Prop := {
  q_static : static s s';
  q_pc : pcs s' = pcs s; q_tactic : tactic s' = tactic s; q_actual : actual s' = actual s;
  q_delivered : delivered s' = delivered s; q_drained : drained s' = drained s; q_reads : reads s' = reads s;
  q_inq : forall c, exists l, inq s' c = inq s c ++ l;
  q_fbq : exists l, fbq s' = fbq s ++ l;
  q_closed : forall c, closed s c = true -> closed s' c = true;
  q_written : forall c, exists w, written s' c = written s c ++ w }.

Lemma quiet_rel_refl s : quiet_rel s s.
Proof.
  constructor; auto; try reflexivity.
  - apply static_refl.
  - intros q; exists []; rewrite app_nil_r; reflexivity.
  - exists []; rewrite app_nil_r; reflexivity.
  - intros q; exists []; rewrite app_nil_r; reflexivity.
Qed.

Lemma updn_app_nil (f : nat -> list N) k v c : exists l, updn f k (f k ++ v) c = f c ++ l.
Proof. unfold updn. destruct (Nat.eqb_spec c k) as [->|_]; [exists v; reflexivity|exists []; rewrite app_nil_r; reflexivity]. Qed.

Lemma not_move_tick s : ~ is_move s (LEnv Tick) -> tick_moves s = false.
Proof. intros Hnm. destruct (tick_moves s) eqn:E; [|reflexivity]. exfalso; apply Hnm; right; split; auto. Qed.

Lemma quiet_step fixed dv s l s' : is_step fixed dv s l s' -> ~ is_move s l -> quiet_rel s s'.
Proof.
  intros Hs Hnm. destruct l as [o|op|]; cbn [is_step] in Hs.
  - exfalso; apply Hnm; left; exists o; reflexivity.
  - destruct Hs as [Hop Hs]. destruct op as [c x|c| |p| | | |c p bf|p]; cbn [static_op] in Hop; try contradiction.
    + cbn [env_step] in Hs. destruct (closed s c); [discriminate|]. inversion Hs; subst s'; clear Hs.
      constructor; proj; auto; try reflexivity.
      * repeat split; reflexivity.
      * intros q. apply updn_app_nil.
      * exists []; rewrite app_nil_r; reflexivity.
      * intros q. apply updn_app_nil.
    + cbn [env_step] in Hs. inversion Hs; subst s'; clear Hs. constructor; proj; auto; try reflexivity.
      * repeat split; reflexivity.
      * intros q; exists []; rewrite app_nil_r; reflexivity.
      * exists []; rewrite app_nil_r; reflexivity.
      * intros q Hq. unfold updn. destruct (Nat.eqb q c); auto.
      * intros q; exists []; rewrite app_nil_r; reflexivity.
    + cbn [env_step] in Hs. destruct (outq s) as [|px q]; [discriminate|]. inversion Hs; subst s'; clear Hs.
      constructor; proj; auto; try reflexivity.
      * repeat split; reflexivity.
      * intros q0; exists []; rewrite app_nil_r; reflexivity.
      * exists []; rewrite app_nil_r; reflexivity.
      * intros q0; exists []; rewrite app_nil_r; reflexivity.
    + cbn [env_step] in Hs. destruct (remove1 p (held s)) as [h|]; [|discriminate]. inversion Hs; subst s'; clear Hs.
      constructor; proj; auto; try reflexivity.
      * repeat split; reflexivity.
      * intros q0; exists []; rewrite app_nil_r; reflexivity.
      * exists [p]; reflexivity.
      * intros q0; exists []; rewrite app_nil_r; reflexivity.
    + rewrite (tick_quiet_step s s' Hs (not_move_tick s Hnm)). apply quiet_rel_refl.
  - subst s'. apply quiet_rel_refl.
Qed.

(* a move is a step of the oracle-free scheduler `sstep` (in a Quiet state) or a tick that changes the pc *)
Lemma move_cases fixed dv s l s' : Quiet s -> is_step fixed dv s l s' -> is_move s l ->
  sstep dv s = Some s' \/ (l = LEnv Tick /\ tick_moves s = true /\ env_step s Tick = Some s').
Proof.
  intros HQ Hs [[o ->]|[-> Ht]]; cbn [is_step] in Hs.
  - left. rewrite <- (sched_step_sstep fixed dv o s HQ). exact Hs.
  - right. destruct Hs as [_ Hs]. auto.
Qed.

(* every step only appends to the ghost logs `delivered` and `written` *)
Lemma sstep_mono dv s s' : sstep dv s = Some s' ->
  (exists d, delivered s' = delivered s ++ d) /\ written s' = written s.
Proof.
  intros Hs. unfold sstep, step_calc, calc_base, step_recalc in Hs.
  destruct_matches Hs; try discriminate; inversion Hs; subst s'; proj;
    (split; [first [exists []; rewrite app_nil_r; reflexivity | eexists; reflexivity]|reflexivity]).
Qed.

Lemma step_mono fixed dv s l s' : Quiet s -> is_step fixed dv s l s' ->
  (exists d, delivered s' = delivered s ++ d) /\ (forall c, exists w, written s' c = written s c ++ w).
Proof.
  intros HQ Hs. destruct (is_move_dec s l) as [Hm|Hm].
  - assert (Hw : written s' = written s -> forall c, exists w, written s' c = written s c ++ w).
    { intros E c. rewrite E. exists []; rewrite app_nil_r; reflexivity. }
    destruct (move_cases _ _ _ _ _ HQ Hs Hm) as [Hss|(-> & Ht & Hss)].
    + destruct (sstep_mono _ _ _ Hss) as [Hd Hwr]. split; [exact Hd|apply Hw; exact Hwr].
    + destruct (tick_move_step _ _ Hss Ht) as [[_ ->]|(ph & p & r & proc & intr & _ & _ & ->)]; proj;
        (split; [exists []; rewrite app_nil_r; reflexivity|apply Hw; reflexivity]).
  - destruct (quiet_step _ _ _ _ _ Hs Hm) as [_ _ _ _ Hd _ _ _ _ _ Hw]. split; [|exact Hw].
    exists []. rewrite app_nil_r. exact Hd.
Qed.

(* what a quiet step does to the three channels *)
Lemma quiet_chan fixed dv s l s' : is_step fixed dv s l s' -> ~ is_move s l ->
  (l = LEnv Take /\ exists px q, outq s = px :: q /\ outq s' = q /\ held s' = px :: held s /\ fbq s' = fbq s) \/
  (exists p h, l = LEnv (Release p) /\ remove1 p (held s) = Some h /\ held s' = h /\ fbq s' = fbq s ++ [p] /\ outq s' = outq s) \/
  (outq s' = outq s /\ held s' = held s /\ fbq s' = fbq s /\ l <> LEnv Take /\ forall p, l <> LEnv (Release p)).
Proof.
  intros Hs Hnm. destruct l as [o|op|]; cbn [is_step] in Hs.
  - exfalso; apply Hnm; left; exists o; reflexivity.
  - destruct Hs as [Hop Hs]. destruct op as [c x|c| |p| | | |c p bf|p]; cbn [static_op] in Hop; try contradiction.
    + cbn [env_step] in Hs. destruct (closed s c); [discriminate|]. inversion Hs; subst s'. right; right. proj. repeat split; try discriminate.
    + cbn [env_step] in Hs. inversion Hs; subst s'. right; right. proj. repeat split; try discriminate.
    + cbn [env_step] in Hs. destruct (outq s) as [|px q]; [discriminate|]. inversion Hs; subst s'. left. split; [reflexivity|]. exists px, q. proj. auto.
    + cbn [env_step] in Hs. destruct (remove1 p (held s)) as [h|] eqn:E; [|discriminate]. inversion Hs; subst s'. right; left. exists p, h. proj. auto.
    + rewrite (tick_quiet_step s s' Hs (not_move_tick s Hnm)). right; right. repeat split; try discriminate.
  - subst s'. right; right. repeat split; try discriminate.
Qed.

(* ================= 1b. safety facts used below ================= *)
(* no Drain / Done: along a static execution (no Stop, no GracefulStop) with a divider obeying the sum rule the discipline never
   terminates and never fails *)
Definition live_pc (c : pc) : Prop := forall e, c <> Drain e /\ c <> Done e.
Ltac livetriv := let e0 := fresh "e0" in intros e0; split; discriminate.

Lemma step_calc_chan dv s : same_chan s (step_calc dv s).
Proof. unfold step_calc, calc_base. destruct_goal; repeat split; reflexivity. Qed.

Section Safety.
Variable dv : nat -> Divider.
Hypothesis dv_wf : forall k ps n d, NoDup (keys d) -> NoDup (keys (dv k ps n d)).
Hypothesis sumrule : forall k ps n d, NoDup (keys d) -> sum (dv k ps n d) = sum d + n \/ sum (dv k ps n d) = sum d.

Lemma calc_base_live s v : Inv s -> H s < two64 -> v <= H s -> live_pc (pcs (calc_base dv s v)).
Proof.
  intros Hinv Hlt Hv. unfold calc_base. rewrite (safe_divide_ok dv sumrule) by (try apply (i_ndt s Hinv); lia).
  proj. destruct (filled _ _); livetriv.
Qed.

Lemma step_calc_live s : Inv s -> H s < two64 -> live_pc (pcs (step_calc dv s)).
Proof.
  intros Hinv Hlt. pose proof (i_cap s Hinv) as Hcap. unfold step_calc.
  destruct (N.ltb_spec (H s) (sum (actual s))) as [Hx|_]; [lia|].
  destruct (H s - sum (actual s) =? 0); [proj; livetriv|].
  destruct (add_up _ _ _ _ _) as [[t picked]|]; [destruct (picked =? _); [proj; livetriv|]|]; apply calc_base_live; auto; lia.
Qed.

Lemma step_recalc_live s proc : Inv s -> H s < two64 -> pcs s = Recalc proc -> live_pc (pcs (step_recalc dv s proc)).
Proof.
  intros Hinv Hlt Epc.
  assert (Hr : sum (actual s) + sum (tactic s) <= H s) by (apply (i_round s Hinv); rewrite Epc; reflexivity).
  destruct (step_recalc_noerr dv dv_wf sumrule s proc Hinv Hlt Hr) as [E|E]; rewrite E; livetriv.
Qed.

Lemma sstep_live s s' : Inv s -> H s < two64 -> live_pc (pcs s) -> sstep dv s = Some s' -> live_pc (pcs s').
Proof.
  intros Hinv Hlt Hn Hs. unfold sstep in Hs. destruct (pcs s) eqn:Epc.
  - destruct_matches Hs; try discriminate; inversion Hs; subst; proj; livetriv.
  - inversion Hs; subst. apply step_calc_live; auto.
  - destruct_matches Hs; try discriminate; inversion Hs; subst; proj; livetriv.
  - destruct_matches Hs; try discriminate; inversion Hs; subst; proj; livetriv.
  - destruct_matches Hs; try discriminate; inversion Hs; subst; proj; livetriv.
  - destruct_matches Hs; try discriminate; inversion Hs; subst; proj; livetriv.
  - inversion Hs; subst. apply step_recalc_live; auto.
  - destruct_matches Hs; try discriminate; inversion Hs; subst; proj; livetriv.
  - discriminate.
  - destruct_matches Hs; try discriminate; inversion Hs; subst; proj; livetriv.
  - exfalso. destruct (Hn e) as [Hx _]. apply Hx; reflexivity.
  - discriminate.
Qed.
End Safety.

(* reads are tagged with the channel registered for the priority *)
Definition ReadsOk (co : N -> option nat) (s : st) : Prop := forall c q x, In (c, q, x) (reads s) -> co q = Some c.

Lemma sstep_reads dv s s' : sstep dv s = Some s' ->
  reads s' = reads s \/ exists c q x, reads s' = (c, q, x) :: reads s /\ chan_of s q = Some c.
Proof.
  intros Hs. unfold sstep, step_calc, calc_base, step_recalc in Hs.
  destruct_matches Hs; try discriminate; inversion Hs; subst s'; proj; auto.
  right. eauto.
Qed.

Lemma sublist_eq {A} (a b : list A) : sublist a b -> length a = length b -> a = b.
Proof.
  induction 1 as [|x l1 l2 Hs IH|x l1 l2 Hs IH]; cbn [length]; intros Hl.
  - reflexivity.
  - pose proof (sublist_length _ _ Hs). lia.
  - f_equal. apply IH. lia.
Qed.

Lemma delivered_reads s : Inv2 s -> stopped s = false -> delivered s = rev (map tag (settled s)).
Proof.
  intros Hi2 Hst. apply sublist_eq; [apply (j_sub s Hi2)|].
  rewrite rev_length, map_length. pose proof (j_len s Hi2) as Hl. rewrite (j_nodrop s Hi2 Hst) in Hl. cbn [length] in Hl.
  unfold settled, in_send in *. destruct (pcs s) eqn:Epc; try lia.
  destruct (j_limbo s Hi2 _ _ _ _ _ Epc) as (c & rs & Er). rewrite Er in *. cbn [tl length] in *. lia.
Qed.

(* the items of channel ch: delivered (under any priority registered on ch), in the scheduler's hand, still in the input *)
Definition on_chan (co : N -> option nat) (ch : nat) (q : N) : bool :=
  match co q with Some c => Nat.eqb c ch | None => false end.
Definition of_chan (co : N -> option nat) (ch : nat) (l : list (N * N)) : list N :=
  map snd (filter (fun px => on_chan co ch (fst px)) l).
Definition limbo (co : N -> option nat) (ch : nat) (s : st) : list N :=
  match pcs s with Send _ q x _ _ => if on_chan co ch q then [x] else [] | _ => [] end.

Lemma of_chan_app co ch l d : of_chan co ch (l ++ d) = of_chan co ch l ++ of_chan co ch d.
Proof. unfold of_chan. rewrite filter_app, map_app. reflexivity. Qed.
Lemma of_chan_snoc co ch l q x : of_chan co ch (l ++ [(q, x)]) = of_chan co ch l ++ (if on_chan co ch q then [x] else []).
Proof. rewrite of_chan_app. unfold of_chan. cbn [filter fst]. destruct (on_chan co ch q); reflexivity. Qed.
Lemma of_chan_in co ch x l : In x (of_chan co ch l) -> exists q, co q = Some ch /\ In (q, x) l.
Proof.
  unfold of_chan. intros Hin. apply in_map_iff in Hin. destruct Hin as ([q y] & E & Hin). cbn [snd] in E. subst y.
  apply filter_In in Hin. destruct Hin as [Hin Hq]. cbn [fst] in Hq. exists q. split; [|exact Hin].
  unfold on_chan in Hq. destruct (co q) as [c|]; [|discriminate]. apply Nat.eqb_eq in Hq. subst c. reflexivity.
Qed.

Lemma of_chan_reads co ch l : (forall c q x, In (c, q, x) l -> co q = Some c) ->
  of_chan co ch (rev (map tag l)) = rev (map snd (filter (fun r => Nat.eqb (fst (fst r)) ch) l)).
Proof.
  induction l as [|[[c q] x] l IH]; intros Hok; [reflexivity|].
  cbn [map rev]. rewrite of_chan_app, IH by (intros c0 q0 x0 Hin; apply (Hok c0 q0 x0); right; exact Hin).
  unfold of_chan. cbn [filter fst snd tag map]. unfold on_chan. rewrite (Hok c q x (or_introl eq_refl)).
  destruct (Nat.eqb c ch); cbn [map rev snd]; [reflexivity|rewrite app_nil_r; reflexivity].
Qed.

Lemma split_ch co ch s : Inv2 s -> stopped s = false -> ReadsOk co s ->
  of_chan co ch (delivered s) ++ limbo co ch s ++ inq s ch = written s ch.
Proof.
  intros Hi2 Hst Hok. rewrite <- (j_prefix s Hi2 ch), app_assoc. f_equal.
  rewrite (delivered_reads s Hi2 Hst). unfold read_items, limbo, settled.
  destruct (pcs s) eqn:Epc; try (rewrite app_nil_r; apply of_chan_reads; exact Hok).
  destruct (j_limbo s Hi2 _ _ _ _ _ Epc) as (c & rs & Er). unfold ReadsOk in Hok. rewrite Er in *. cbn [tl].
  rewrite of_chan_reads by (intros c0 q0 x0 Hin; apply (Hok c0 q0 x0); right; exact Hin).
  cbn [filter fst snd]. unfold on_chan. rewrite (Hok c p x (or_introl eq_refl)).
  destruct (Nat.eqb c ch); cbn [map rev snd]; [reflexivity|rewrite app_nil_r; reflexivity].
Qed.

(* ================= 2. an execution ================= *)
Section Live.
Variable fixed : bool.
Variable dv : nat -> Divider.
Hypothesis dv_wf : forall k ps n d, NoDup (keys d) -> NoDup (keys (dv k ps n d)).
Hypothesis sumrule : forall k ps n d, NoDup (keys d) -> sum (dv k ps n d) = sum d + n \/ sum (dv k ps n d) = sum d.
Variable s0 : st.
Variable tr : nat -> st.
Variable lb : nat -> label.
Hypothesis HI : InitL1 s0.
Hypothesis HH : H s0 < two64.
Hypothesis Hex : execution fixed dv s0 tr lb.
Hypothesis Fsched : F_sched fixed dv tr lb.
Hypothesis Ftake : F_take tr lb.
Hypothesis Frel : F_rel tr lb.
Hypothesis Ftick : F_tick_w tr lb.

Lemma tr_step i : is_step fixed dv (tr i) (lb i) (tr (S i)).
Proof. apply (ex_step _ _ _ _ _ Hex). Qed.

(* (d) of the task: an execution only visits states reachable without Stop / GracefulStop / AddInput / RemoveInput *)
Lemma tr_sreach i : sreachable fixed dv s0 (tr i).
Proof.
  induction i as [|i IH].
  - rewrite (ex_init _ _ _ _ _ Hex). apply sr_init.
  - pose proof (tr_step i) as Hs. destruct (lb i) as [o|op|]; cbn [is_step] in Hs.
    + eapply sr_sched; eauto.
    + destruct Hs as [Hop Hs]. eapply sr_env; eauto.
    + rewrite Hs. exact IH.
Qed.
Lemma tr_reach i : reachable fixed dv s0 (tr i).
Proof. apply sreachable_reachable. apply tr_sreach. Qed.
Lemma tr_Q i : Quiet (tr i).
Proof. eapply sreachable_Quiet; [exact HI|apply tr_sreach]. Qed.
Lemma tr_inv i : Inv (tr i).
Proof. eapply (sreachable_Inv fixed dv dv_wf); [exact HI|apply tr_sreach]. Qed.
Lemma tr_inv2 i : Inv2 (tr i).
Proof. eapply (reachable_inv2 fixed dv); [apply (il_init s0 HI)|apply tr_reach]. Qed.
Lemma tr_shares i : Shares (tr i).
Proof. eapply sreachable_Shares; [exact HI|apply tr_sreach]. Qed.
Lemma tr_rest i : rest_ok (tr i).
Proof. eapply (reachable_rest fixed dv); [apply (il_init s0 HI)|apply tr_reach]. Qed.
Lemma tr_ainv i : pcs (tr i) = WaitFb -> 0 < sum (actual (tr i)).
Proof. apply (prio1_no_wait_when_idle fixed dv dv_wf s0 (tr i) HI (tr_sreach i)). Qed.
Lemma tr_static i : static s0 (tr i).
Proof. apply (sreachable_static fixed dv s0 (tr i) (Init1_Quiet s0 (il_init s0 HI)) (tr_sreach i)). Qed.
Lemma tr_prios i : prios (tr i) = prios s0.
Proof. destruct (tr_static i) as (_ & E & _). exact E. Qed.
Lemma tr_H i : H (tr i) = H s0.
Proof. destruct (tr_static i) as (E & _). exact E. Qed.
Lemma tr_strategic i : strategic (tr i) = strategic s0.
Proof. destruct (tr_static i) as (_ & _ & E & _). exact E. Qed.
Lemma tr_chan i : chan_of (tr i) = chan_of s0.
Proof. destruct (tr_static i) as (_ & _ & _ & _ & _ & _ & E & _). exact E. Qed.
Lemma tr_fbl i : fblimit (tr i) = fblimit s0.
Proof. destruct (tr_static i) as (_ & _ & _ & _ & E & _). exact E. Qed.
Lemma tr_stopped i : stopped (tr i) = false.
Proof. apply (tr_Q i). Qed.
Lemma tr_H64 i : H (tr i) < two64.
Proof. rewrite tr_H. exact HH. Qed.

(* a step is a step of the oracle-free scheduler, a tick that moves the pc, or a quiet step *)
Lemma step_cases i :
  sstep dv (tr i) = Some (tr (S i)) \/
  (lb i = LEnv Tick /\ tick_moves (tr i) = true /\ env_step (tr i) Tick = Some (tr (S i))) \/
  (~ is_move (tr i) (lb i) /\ quiet_rel (tr i) (tr (S i))).
Proof.
  destruct (is_move_dec (tr i) (lb i)) as [Hm|Hm].
  - destruct (move_cases _ _ _ _ _ (tr_Q i) (tr_step i) Hm) as [E|E]; auto.
  - right; right. split; [exact Hm|]. eapply quiet_step; [apply tr_step|exact Hm].
Qed.

Lemma tr_live i : live_pc (pcs (tr i)).
Proof.
  induction i as [|i IH].
  - rewrite (ex_init _ _ _ _ _ Hex), (in_pc s0 (il_init s0 HI)). livetriv.
  - destruct (step_cases i) as [Hs|[(_ & Ht & Hs)|[_ Hq]]].
    + apply (sstep_live dv dv_wf sumrule (tr i)); auto; [apply tr_inv|apply tr_H64].
    + destruct (tick_move_step _ _ Hs Ht) as [[_ ->]|(ph & p & r & proc & intr & _ & _ & ->)]; proj; [livetriv|].
      destruct intr; livetriv.
    + rewrite (q_pc _ _ Hq). exact IH.
Qed.
Lemma tr_not_drain i e : pcs (tr i) <> Drain e.
Proof. apply (tr_live i e). Qed.
Lemma tr_not_done i e : pcs (tr i) <> Done e.
Proof. apply (tr_live i e). Qed.

Lemma tr_readsok i : ReadsOk (chan_of s0) (tr i).
Proof.
  induction i as [|i IH]; unfold ReadsOk.
  - rewrite (ex_init _ _ _ _ _ Hex), (in_reads s0 (il_init s0 HI)). intros c q x [].
  - destruct (step_cases i) as [Hs|[(_ & Ht & Hs)|[_ Hq]]].
    + destruct (sstep_reads _ _ _ Hs) as [E|(c & q & x & E & Hc)]; rewrite E; [exact IH|].
      intros c0 q0 x0 [Ein|Hin]; [|apply (IH c0 q0 x0 Hin)]. inversion Ein; subst. rewrite <- (tr_chan i). exact Hc.
    + destruct (tick_move_step _ _ Hs Ht) as [[_ ->]|(ph & p & r & proc & intr & _ & _ & ->)]; proj; exact IH.
    + rewrite (q_reads _ _ Hq). exact IH.
Qed.

(* the v1 form of Prio2P.j_split, per channel *)
Lemma tr_split i ch :
  of_chan (chan_of s0) ch (delivered (tr i)) ++ limbo (chan_of s0) ch (tr i) ++ inq (tr i) ch = written (tr i) ch.
Proof. apply split_ch; [apply tr_inv2|apply tr_stopped|apply tr_readsok]. Qed.

Definition moves (m : nat) : Prop := is_move (tr m) (lb m).
Definition ev_move (k : nat) : Prop := exists j, (k <= j)%nat /\ moves j.
Lemma ev_move_le k k' : (k <= k')%nat -> ev_move k' -> ev_move k.
Proof. intros Hle (j & Hj & Hm). exists j. split; [lia|exact Hm]. Qed.
Lemma moves_dec m : {moves m} + {~ moves m}.
Proof. apply is_move_dec. Qed.

Lemma tr_quiet m : ~ moves m -> quiet_rel (tr m) (tr (S m)).
Proof. intros Hn. eapply quiet_step; [apply tr_step|exact Hn]. Qed.

(* what a move is *)
Lemma tr_move m : moves m ->
  sstep dv (tr m) = Some (tr (S m)) \/ (tick_moves (tr m) = true /\ env_step (tr m) Tick = Some (tr (S m))).
Proof.
  intros Hm. destruct (move_cases _ _ _ _ _ (tr_Q m) (tr_step m) Hm) as [E|(_ & Ht & E)]; auto.
Qed.

Lemma enabled_ev k : (exists s', sstep dv (tr k) = Some s') -> ev_move k.
Proof.
  intros [s' He]. destruct (Fsched k) as (j & Hj & Hl).
  { exists 0%nat, s'. rewrite (sched_step_sstep fixed dv 0 (tr k) (tr_Q k)). exact He. }
  exists j. split; [exact Hj|]. left. exact Hl.
Qed.

(* wait for a label of class L while a property P is kept by the quiet steps that are not in L *)
Lemma wait_for (L : label -> Prop) (Ldec : forall l, {L l} + {~ L l}) (P : st -> Prop) k j :
  (k <= j)%nat -> L (lb j) -> P (tr k) ->
  (forall m, P (tr m) -> ~ moves m -> ~ L (lb m) -> P (tr (S m))) ->
  ev_move k \/ exists m, (k <= m)%nat /\ L (lb m) /\ ~ moves m /\ P (tr m).
Proof.
  intros Hle HL HP Hkeep.
  destruct (first_from (fun m => moves m \/ L (lb m))) with (k := k) (j := j) as (m & Hm & HQ & Hmin); auto.
  { intros m. destruct (moves_dec m); [left; left; assumption|]. destruct (Ldec (lb m)); [left; right; assumption|]. right; tauto. }
  destruct (moves_dec m) as [Hmv|Hnm]; [left; exists m; split; [lia|exact Hmv]|].
  right. exists m. split; [lia|]. split; [tauto|]. split; [exact Hnm|].
  apply (along (fun i => P (tr i)) k m); [lia| |exact HP].
  intros i Hi HPi. specialize (Hmin i Hi). apply Hkeep; tauto.
Qed.

Lemma take_dec l : {l = LEnv Take} + {l <> LEnv Take}.
Proof. apply label_eq_dec. Qed.
Lemma tick_dec l : {l = LEnv Tick} + {l <> LEnv Tick}.
Proof. apply label_eq_dec. Qed.
Definition is_release (l : label) : Prop := exists p, l = LEnv (Release p).
Lemma release_dec l : {is_release l} + {~ is_release l}.
Proof.
  unfold is_release. destruct l as [o|op|]; try (right; intros [p E]; discriminate).
  destruct op; try (right; intros [p0 E]; discriminate). left; eexists; reflexivity.
Qed.

(* --- Idle and blocked Read: the clock *)
Lemma read_enabled s ph p r proc intr : pcs s = Read ph p r proc intr -> read_blocked s p = false ->
  exists s', sstep dv s = Some s'.
Proof.
  intros Epc Hb. unfold sstep. rewrite Epc. unfold read_blocked in Hb.
  destruct (get (tactic s) p =? 0); [eexists; reflexivity|].
  destruct (chan_of s p) as [ch|]; [|eexists; reflexivity].
  destruct (inq s ch); [|eexists; reflexivity].
  destruct (closed s ch); [eexists; reflexivity|]. destruct (buffered s ch); [eexists; reflexivity|]. discriminate.
Qed.

Lemma clock_moves k : (pcs (tr k) = Idle \/ exists ph p r proc intr, pcs (tr k) = Read ph p r proc intr) -> ev_move k.
Proof.
  intros Hpc.
  destruct (tick_moves (tr k)) eqn:Etk.
  2:{ unfold tick_moves in Etk. destruct Hpc as [Epc|(ph & p & r & proc & intr & Epc)]; rewrite Epc in Etk; [discriminate|].
      apply enabled_ev. eapply read_enabled; eauto. }
  destruct (Ftick k Etk) as (j & Hj & Hl).
  destruct (wait_for (fun l => l = LEnv Tick) tick_dec (fun s => pcs s = pcs (tr k)) k j Hj Hl eq_refl) as [Hev|(m & Hm & HL & Hnm & HP)].
  - intros m HP Hnm _. rewrite (q_pc _ _ (tr_quiet m Hnm)). exact HP.
  - exact Hev.
  - assert (Hnt : tick_moves (tr m) = false).
    { destruct (tick_moves (tr m)) eqn:E; [|reflexivity]. exfalso; apply Hnm; right; split; auto. }
    unfold tick_moves in Hnt. rewrite HP in Hnt. destruct Hpc as [Epc|(ph & p & r & proc & intr & Epc)]; rewrite Epc in Hnt; [discriminate|].
    apply (ev_move_le k m Hm). apply enabled_ev. rewrite <- HP in Epc. eapply read_enabled; eauto.
Qed.

(* --- Send: the consumers *)
Lemma send_moves : forall n k, length (outq (tr k)) = n -> (exists ph p x r pr, pcs (tr k) = Send ph p x r pr) -> ev_move k.
Proof.
  induction n as [n IH] using lt_wf_ind. intros k Hn (ph & p & x & r & pr & Epc).
  destruct (N.of_nat (length (outq (tr k))) <? outcap (tr k)) eqn:El.
  - apply enabled_ev. unfold sstep. rewrite Epc, El. eexists; reflexivity.
  - apply N.ltb_ge in El. pose proof (sh_cap _ (tr_shares k)) as Hc.
    assert (Hne : outq (tr k) <> []) by (intros E; rewrite E in El; cbn [length N.of_nat] in El; lia).
    destruct (Ftake k Hne) as (j & Hj & Hl).
    destruct (wait_for (fun l => l = LEnv Take) take_dec (fun s => pcs s = pcs (tr k) /\ outq s = outq (tr k)) k j Hj Hl (conj eq_refl eq_refl))
      as [Hev|(m & Hm & HL & Hnm & HP1 & HP2)].
    + intros m [HP1 HP2] Hnm HnL. split; [rewrite (q_pc _ _ (tr_quiet m Hnm)); exact HP1|].
      destruct (quiet_chan _ _ _ _ _ (tr_step m) Hnm) as [[E _]|[(p0 & h & _ & _ & _ & _ & E)|(E & _)]]; [contradiction|congruence|congruence].
    + exact Hev.
    + destruct (quiet_chan _ _ _ _ _ (tr_step m) Hnm) as [(_ & px & q & Eo & Eo' & _)|[(p0 & h & E & _)|(_ & _ & _ & E & _)]]; [|congruence|contradiction].
      apply (ev_move_le k (S m)); [lia|]. apply (IH (length q)).
      * rewrite <- Hn, <- HP2, Eo. cbn [length]. lia.
      * rewrite Eo'. reflexivity.
      * rewrite (q_pc _ _ (tr_quiet m Hnm)), HP1, Epc. eauto 10.
Qed.

(* --- WaitFb: the handlers *)
Lemma fb_enabled s : pcs s = WaitFb -> fbq s <> [] -> exists s', sstep dv s = Some s'.
Proof. intros Epc Hf; unfold sstep; rewrite Epc. destruct (fbq s); [contradiction|eexists; reflexivity]. Qed.

Lemma fb_held_moves k : pcs (tr k) = WaitFb -> held (tr k) <> [] -> ev_move k.
Proof.
  intros Hpc Hh. destruct (held (tr k)) as [|[q x] hh] eqn:Eh; [contradiction|].
  destruct (Frel k q x) as (j & Hj & Hl); [rewrite Eh; left; reflexivity|].
  destruct (wait_for is_release release_dec (fun s => pcs s = pcs (tr k)) k j Hj) as [Hev|(m & Hm & HL & Hnm & HP)]; auto.
  - exists q; exact Hl.
  - intros m HP Hnm _. rewrite (q_pc _ _ (tr_quiet m Hnm)). exact HP.
  - destruct HL as [p0 HL].
    destruct (quiet_chan _ _ _ _ _ (tr_step m) Hnm) as [(E & _)|[(p1 & h & _ & _ & _ & Ef & _)|(_ & _ & _ & _ & E)]];
      [congruence| |exfalso; eapply E; eauto].
    apply (ev_move_le k (S m)); [lia|]. apply enabled_ev. apply fb_enabled.
    + rewrite (q_pc _ _ (tr_quiet m Hnm)), HP. exact Hpc.
    + rewrite Ef. destruct (fbq (tr m)); discriminate.
Qed.

Lemma fb_moves k : pcs (tr k) = WaitFb -> ev_move k.
Proof.
  intros Hpc.
  destruct (fbq (tr k)) as [|q f] eqn:Ef; [|apply enabled_ev; apply fb_enabled; [exact Hpc|rewrite Ef; discriminate]].
  pose proof (tr_ainv k Hpc) as Hpos.
  pose proof (i_sum _ (tr_inv k)) as Hs. unfold inflight in Hs. rewrite Ef in Hs. cbn [length N.of_nat] in Hs.
  destruct (held (tr k)) as [|hx hh] eqn:Eh.
  - cbn [length N.of_nat] in Hs.
    assert (Hne : outq (tr k) <> []) by (intros E; rewrite E in Hs; cbn [length N.of_nat] in Hs; lia).
    destruct (Ftake k Hne) as (j & Hj & Hl).
    destruct (wait_for (fun l => l = LEnv Take) take_dec (fun s => pcs s = pcs (tr k)) k j Hj Hl eq_refl) as [Hev|(m & Hm & HL & Hnm & HP)].
    + intros m HP Hnm _. rewrite (q_pc _ _ (tr_quiet m Hnm)). exact HP.
    + exact Hev.
    + destruct (quiet_chan _ _ _ _ _ (tr_step m) Hnm) as [(_ & px & q & _ & _ & Eh' & _)|[(p0 & h & E & _)|(_ & _ & _ & E & _)]]; [|congruence|contradiction].
      apply (ev_move_le k (S m)); [lia|]. apply fb_held_moves.
      * rewrite (q_pc _ _ (tr_quiet m Hnm)), HP. exact Hpc.
      * rewrite Eh'. discriminate.
  - apply fb_held_moves; [exact Hpc|rewrite Eh; discriminate].
Qed.

(* the scheduler's pc always moves again (the discipline never terminates in these executions) *)
Lemma eventually_moves k : ev_move k.
Proof.
  destruct (pcs (tr k)) eqn:Epc.
  - apply enabled_ev. unfold sstep. rewrite Epc. destruct (fbq (tr k)); eexists; reflexivity.
  - apply enabled_ev. unfold sstep. rewrite Epc. eexists; reflexivity.
  - apply fb_moves. exact Epc.
  - apply enabled_ev. unfold sstep. rewrite Epc. destruct rest; eexists; reflexivity.
  - apply clock_moves. right. rewrite Epc. eauto 10.
  - apply (send_moves _ k eq_refl). rewrite Epc. eauto 10.
  - apply enabled_ev. unfold sstep. rewrite Epc. eexists; reflexivity.
  - apply enabled_ev. unfold sstep. rewrite Epc. destruct (proc =? 0); eexists; reflexivity.
  - apply clock_moves. left. exact Epc.
  - apply enabled_ev. unfold sstep. rewrite Epc. destruct k0; [|destruct (fbq (tr k))]; eexists; reflexivity.
  - exfalso. eapply tr_not_drain; eauto.
  - exfalso. eapply tr_not_done; eauto.
Qed.

Lemma next_move k : exists j, (k <= j)%nat /\ moves j /\ forall m, (k <= m < j)%nat -> ~ moves m.
Proof.
  destruct (eventually_moves k) as (j & Hj & Hm).
  destruct (first_from moves moves_dec k j Hj Hm) as (m & Hm1 & Hm2 & Hmin). exists m. split; [lia|]. split; assumption.
Qed.

(* ================= 3. the cycle rank: every move strictly decreases it until the pc is back at Calc ================= *)
Definition tw (s : st) : nat := (3 * N.to_nat (sum (tactic s)))%nat.
Definition ph_off (L K : nat) (ph : phase) : nat := match ph with P1 => 3 * L + 2 + (K + 5) | P2 => K + 5 end%nat.
Definition crankLK (L K : nat) (s : st) : nat :=
  match pcs s with
  | Calc => 0 | Done _ => 0 | Drain _ => 0
  | WaitFb => 1 | Top => 1
  | LimFb k => k + 2
  | Idle => K + 3
  | EndBase _ => K + 4
  | Prio ph rest _ => tw s + 3 * length rest + ph_off L K ph
  | Read ph _ rest _ intr => tw s + 3 * length rest + (if intr then 1 else 2) + ph_off L K ph
  | Send ph _ _ rest _ => tw s + 3 * length rest + ph_off L K ph
  | Recalc _ => tw s + 3 * L + 1 + (K + 5)
  end%nat.
Lemma is_calc_dec (c : pc) : {c = Calc} + {c <> Calc}.
Proof. destruct c; auto; right; discriminate. Qed.

Lemma step_recalc_sum s proc : Inv s -> sum (tactic (step_recalc dv s proc)) <= sum (tactic s).
Proof.
  intros Hinv. unfold step_recalc. cbv zeta.
  destruct (safe_divide (dv (ncalls s)) (useful s) (H s) (reset (tactic s))) as [t1|e1] eqn:E1.
  - destruct (safe_divide_wf dv dv_wf _ _ _ _ _ (i_ndt s Hinv) E1) as [W1 _].
    destruct (safe_divide (dv (S (ncalls s))) (useful_like s t1) (sum (tactic s)) (reset t1)) as [t2|e2] eqn:E2.
    + destruct (safe_divide_wf dv dv_wf _ _ _ _ _ W1 E2) as [W2 Hs2]. proj. lia.
    + proj. rewrite sum_reset. lia.
  - proj. rewrite sum_reset. lia.
Qed.

Lemma crank_sched L K s s' : Inv s -> live_pc (pcs s) -> sstep dv s = Some s' -> length (prios s) = L -> fblimit s = K ->
  pcs s <> Calc -> (crankLK L K s' < crankLK L K s)%nat.
Proof.
  intros Hinv Hlv Hs HL HK Hpc. unfold sstep in Hs. destruct (pcs s) eqn:Epc; try congruence.
  - (* Top *) destruct (fbq s); inversion Hs; subst s'; unfold crankLK; proj; rewrite Epc; lia.
  - (* WaitFb *) destruct (fbq s); [discriminate|]. inversion Hs; subst s'. unfold crankLK; proj; rewrite Epc. lia.
  - (* Prio *) destruct rest as [|p r]; inversion Hs; subst s'; unfold crankLK, tw, ph_off; proj; rewrite Epc.
    + destruct ph; lia.
    + destruct (drained s p); cbn [length]; lia.
  - (* Read *)
    destruct (get (tactic s) p =? 0).
    { inversion Hs; subst s'; unfold crankLK, tw; proj; rewrite Epc. destruct intr; lia. }
    destruct (chan_of s p) as [ch|].
    2:{ inversion Hs; subst s'; unfold crankLK, tw; proj; rewrite Epc. destruct intr; lia. }
    destruct (inq s ch).
    + destruct (closed s ch); [|destruct (buffered s ch); [|discriminate]];
        inversion Hs; subst s'; unfold crankLK, tw; proj; rewrite Epc; destruct intr; lia.
    + inversion Hs; subst s'; unfold crankLK, tw; proj; rewrite Epc; destruct intr; lia.
  - (* Send *)
    destruct (N.of_nat (length (outq s)) <? outcap s); [|discriminate]. inversion Hs; subst s'.
    pose proof (sum_dec (tactic s) p (i_ndt s Hinv) (i_send s Hinv _ _ _ _ _ Epc)) as Hd.
    unfold crankLK, tw; proj; rewrite Epc. lia.
  - (* Recalc *)
    inversion Hs; subst s'. pose proof (step_recalc_sum s proc Hinv) as Hsum.
    destruct (step_recalc_shape dv s proc) as [(Epr & _) Hsh]. unfold crankLK, tw, ph_off. rewrite Epc.
    destruct Hsh as [E|[E|[e E]]]; rewrite E; cbv iota; rewrite ?HL; lia.
  - (* EndBase *)
    destruct (proc =? 0); inversion Hs; subst s'; unfold crankLK; proj; rewrite Epc; lia.
  - (* LimFb *)
    destruct k as [|k]; [|destruct (fbq s)]; inversion Hs; subst s'; unfold crankLK; proj; rewrite Epc; lia.
  - exfalso. destruct (Hlv e) as [Hx _]. apply Hx; reflexivity.
Qed.

Lemma crank_tick L K s s' : env_step s Tick = Some s' -> tick_moves s = true -> fblimit s = K ->
  (crankLK L K s' < crankLK L K s)%nat.
Proof.
  intros Hs Ht HK. destruct (tick_move_step _ _ Hs Ht) as [[Epc ->]|(ph & p & r & proc & intr & Epc & _ & ->)];
    unfold crankLK, tw; proj; rewrite Epc; [lia|]. destruct intr; lia.
Qed.

Definition crank (s : st) : nat := crankLK (length (prios s0)) (fblimit s0) s.

Lemma crank_quiet m : ~ moves m -> crank (tr (S m)) = crank (tr m).
Proof.
  intros Hnm. pose proof (tr_quiet m Hnm) as Hq. unfold crank, crankLK, tw.
  rewrite (q_pc _ _ Hq), (q_tactic _ _ Hq). reflexivity.
Qed.

Lemma crank_move m : moves m -> pcs (tr m) <> Calc -> (crank (tr (S m)) < crank (tr m))%nat.
Proof.
  intros Hmv Hnt. destruct (tr_move m Hmv) as [Hs|[Ht Hs]].
  - apply (crank_sched _ _ (tr m)); auto; [apply tr_inv|apply tr_live|rewrite tr_prios; reflexivity|apply tr_fbl].
  - apply (crank_tick _ _ (tr m)); auto. apply tr_fbl.
Qed.

(* generic: from a P-state the pc moves on; P is kept by quiet steps; a move from a P-state reaches the target T or a P-state.
   Since moves decrease the cycle rank while the pc is not Calc, T is reached. *)
Lemma by_moves (P : nat -> Prop) (T : nat -> Prop) :
  (forall m, P m -> pcs (tr m) <> Calc) ->
  (forall m, P m -> ~ moves m -> P (S m)) ->
  (forall m, P m -> moves m -> T (S m) \/ P (S m)) ->
  forall k, P k -> exists j, (k <= j)%nat /\ T j.
Proof.
  intros Hnt Hq Hmv k HP.
  apply (ranked P (fun m => crank (tr m)) T) with (n := crank (tr k)); [|lia|exact HP].
  clear k HP. intros k HP.
  destruct (next_move k) as (j & Hj & Hm & Hmin).
  assert (HPj : P j /\ crank (tr j) = crank (tr k)).
  { apply (along (fun i => P i /\ crank (tr i) = crank (tr k)) k j Hj); [|split; [exact HP|reflexivity]].
    intros i Hi [HPi Hc]. split; [apply Hq; [exact HPi|apply Hmin; exact Hi]|]. rewrite crank_quiet; [exact Hc|apply Hmin; exact Hi]. }
  destruct HPj as [HPj Hc]. exists (S j). split; [lia|].
  destruct (Hmv j HPj Hm) as [HT|HP']; [left; exact HT|right]. split; [exact HP'|].
  rewrite <- Hc. apply crank_move; [exact Hm|apply Hnt; exact HPj].
Qed.

(* the pc returns to the top of the loop, again and again *)
Theorem calc_infinitely_often_sec : forall i, exists j, (i <= j)%nat /\ pcs (tr j) = Calc.
Proof.
  intros k. destruct (is_calc_dec (pcs (tr k))) as [Ht|Hn]; [exists k; split; [lia|exact Ht]|].
  apply (by_moves (fun m => pcs (tr m) <> Calc) (fun m => pcs (tr m) = Calc)) with (k := k); auto.
  - intros m HP Hnm. rewrite (q_pc _ _ (tr_quiet m Hnm)). exact HP.
  - intros m _ _. destruct (is_calc_dec (pcs (tr (S m)))); auto.
Qed.

(* ================= 4. one priority p, registered on channel ch, with undelivered data ================= *)
(* NB: unlike v2 no hypothesis on the feedback limit is needed: in v1 the top of the loop (pc Top: select with default) consumes a
   pending release on every turn, even when getLimitedFeedback() reads nothing (fblimit = 0). *)
Section Target.
Variable p : N.
Variable ch : nat.
Hypothesis Hch : chan_of s0 p = Some ch.
Variable c0 : nat.

Lemma Hp : In p (prios s0).
Proof. apply (in_chan s0 (il_init s0 HI)). rewrite Hch. discriminate. Qed.
Lemma on_p : on_chan (chan_of s0) ch p = true.
Proof. unfold on_chan. rewrite Hch. apply Nat.eqb_refl. Qed.

(* the number of items of channel ch delivered so far (under whatever priority registered on ch) *)
Definition cntd (s : st) : nat := length (of_chan (chan_of s0) ch (delivered s)).
Definition Pend (s : st) : Prop := cntd s = c0 /\ (c0 < length (written s ch))%nat.
Definition Gl (m : nat) : Prop := (c0 < cntd (tr m))%nat.

Lemma cntd_step m : (cntd (tr m) <= cntd (tr (S m)))%nat.
Proof.
  destruct (step_mono _ _ _ _ _ (tr_Q m) (tr_step m)) as [[d Hd] _]. unfold cntd. rewrite Hd, of_chan_app, app_length. lia.
Qed.
Lemma cntd_mono k j : (k <= j)%nat -> (cntd (tr k) <= cntd (tr j))%nat.
Proof.
  intros Hle. apply (along (fun i => (cntd (tr k) <= cntd (tr i))%nat) k j Hle); [|lia].
  intros m _ Hm. pose proof (cntd_step m). lia.
Qed.
Lemma written_step m : (length (written (tr m) ch) <= length (written (tr (S m)) ch))%nat.
Proof.
  destruct (step_mono _ _ _ _ _ (tr_Q m) (tr_step m)) as [_ Hw]. destruct (Hw ch) as [w E]. rewrite E, app_length. lia.
Qed.

Lemma pend_next m : Pend (tr m) -> Gl (S m) \/ Pend (tr (S m)).
Proof.
  intros [Hc Hw]. pose proof (cntd_step m) as H1. pose proof (written_step m) as H2. unfold Gl, Pend.
  destruct (Nat.eq_dec (cntd (tr (S m))) c0) as [E|E]; [right; split; [exact E|lia]|left; lia].
Qed.
Lemma pend_quiet m : Pend (tr m) -> ~ moves m -> Pend (tr (S m)).
Proof.
  intros HP Hnm. destruct (pend_next m HP) as [Hg|HP']; [|exact HP'].
  unfold Gl, cntd in Hg. rewrite (q_delivered _ _ (tr_quiet m Hnm)) in Hg. destruct HP as [Hc _]. unfold cntd in Hc. lia.
Qed.

(* pending: some item of ch is in the input or in the scheduler's hand *)
Lemma pend_pending m : Pend (tr m) -> limbo (chan_of s0) ch (tr m) ++ inq (tr m) ch <> [].
Proof.
  intros [Hc Hw] E. pose proof (tr_split m ch) as Hs. rewrite E, app_nil_r in Hs. unfold cntd in Hc. rewrite Hs in Hc. lia.
Qed.
Lemma pend_inq m : Pend (tr m) -> (forall ph q x r pr, pcs (tr m) <> Send ph q x r pr) ->
  inq (tr m) ch <> [] /\ drained (tr m) p = false.
Proof.
  intros HP Hns. pose proof (pend_pending m HP) as Hne.
  assert (Hl : limbo (chan_of s0) ch (tr m) = []).
  { unfold limbo. destruct (pcs (tr m)) eqn:Epc; auto. exfalso. eapply Hns; reflexivity. }
  rewrite Hl in Hne. cbn [app] in Hne. split; [exact Hne|].
  destruct (drained (tr m) p) eqn:Ed; [|reflexivity].
  destruct (j_drained _ (tr_inv2 m) p Ed) as (c & Hc & _ & Hi). rewrite tr_chan, Hch in Hc. inversion Hc; subst c. contradiction.
Qed.

(* a move of the scheduler *)
Definition mstep (s s' : st) : Prop :=
  sstep dv s = Some s' \/ (tick_moves s = true /\ env_step s Tick = Some s').

(* while nothing of ch is delivered, the number of in-flight items of p does not grow *)
Lemma mstep_actual_p s s' : mstep s s' -> cntd s' = cntd s -> get (actual s') p <= get (actual s) p.
Proof.
  intros [Hs|[Ht Hs]] Hc.
  - unfold sstep in Hs. destruct (pcs s) eqn:Epc.
    + destruct (fbq s); inversion Hs; subst s'; proj; [lia|]. rewrite get_dec. destruct (N.eqb_spec p n) as [<-|_]; lia.
    + inversion Hs; subst s'. destruct (step_calc_chan dv s) as (_ & _ & _ & E & _). rewrite E. lia.
    + destruct (fbq s); [discriminate|]. inversion Hs; subst s'. proj. rewrite get_dec. destruct (N.eqb_spec p n) as [<-|_]; lia.
    + destruct rest; inversion Hs; subst s'; proj; lia.
    + destruct_matches Hs; try discriminate; inversion Hs; subst s'; proj; lia.
    + destruct (N.of_nat (length (outq s)) <? outcap s); [|discriminate]. inversion Hs; subst s'. proj.
      rewrite get_inc. destruct (N.eqb_spec p p0) as [<-|Hne]; [|lia]. exfalso. revert Hc. unfold cntd; proj.
      rewrite of_chan_snoc, on_p, app_length. cbn [length]. lia.
    + inversion Hs; subst s'. destruct (step_recalc_chan dv s proc) as (_ & _ & _ & E & _). rewrite E. lia.
    + destruct_matches Hs; try discriminate; inversion Hs; subst s'; proj; lia.
    + discriminate.
    + destruct k as [|k]; [|destruct (fbq s)]; inversion Hs; subst s'; proj; try lia.
      rewrite get_dec. destruct (N.eqb_spec p n) as [<-|_]; lia.
    + destruct (sum (actual s) =? 0); [|destruct (fbq s); [discriminate|]]; inversion Hs; subst s'; proj; try lia.
      rewrite get_dec. destruct (N.eqb_spec p n) as [<-|_]; lia.
    + discriminate.
  - destruct (tick_move_step _ _ Hs Ht) as [[_ ->]|(ph & q & r & proc & intr & _ & _ & ->)]; proj; lia.
Qed.

Lemma step_actual_p m : cntd (tr (S m)) = cntd (tr m) -> get (actual (tr (S m))) p <= get (actual (tr m)) p.
Proof.
  intros Hc. destruct (moves_dec m) as [Hm|Hm]; [|rewrite (q_actual _ _ (tr_quiet m Hm)); lia].
  apply mstep_actual_p; [apply tr_move; exact Hm|exact Hc].
Qed.

Lemma actual_p_mono k j : (k <= j)%nat -> cntd (tr j) = cntd (tr k) -> get (actual (tr j)) p <= get (actual (tr k)) p.
Proof.
  intros Hle Hc.
  apply (along (fun i => (i <= j)%nat -> get (actual (tr i)) p <= get (actual (tr k)) p) k j Hle); [|intros; lia|lia].
  intros m Hm IH HS. specialize (IH ltac:(lia)).
  pose proof (cntd_mono k m ltac:(lia)). pose proof (cntd_step m). pose proof (cntd_mono (S m) j ltac:(lia)).
  pose proof (step_actual_p m ltac:(lia)). lia.
Qed.

Lemma Gl_dec m : {Gl m} + {~ Gl m}.
Proof. unfold Gl. destruct (lt_dec c0 (cntd (tr m))); auto. Qed.

Lemma written_mono k j : (k <= j)%nat -> (length (written (tr k) ch) <= length (written (tr j) ch))%nat.
Proof.
  intros Hle. apply (along (fun i => (length (written (tr k) ch) <= length (written (tr i) ch))%nat) k j Hle); [|lia].
  intros m _ Hm. pose proof (written_step m). lia.
Qed.

Lemma pend_later k j : (k <= j)%nat -> Pend (tr k) -> Gl j \/ (Pend (tr j) /\ get (actual (tr j)) p <= get (actual (tr k)) p).
Proof.
  intros Hle [Hc Hw]. destruct (Gl_dec j) as [Hg|Hg]; [left; exact Hg|right].
  pose proof (cntd_mono k j Hle) as H1. pose proof (written_mono k j Hle) as H2. unfold Gl in Hg.
  assert (E : cntd (tr j) = c0) by lia. split; [split; [exact E|lia]|]. apply actual_p_mono; [exact Hle|lia].
Qed.

(* --- from anywhere back to Calc *)
Lemma pend_reach_calc k : Pend (tr k) -> exists j, (k <= j)%nat /\ (Gl j \/ (Pend (tr j) /\ pcs (tr j) = Calc)).
Proof.
  intros HP. destruct (is_calc_dec (pcs (tr k))) as [Ec|Hnc]; [exists k; split; [lia|right; auto]|].
  apply (by_moves (fun m => Pend (tr m) /\ pcs (tr m) <> Calc)) with (k := k); [| | |auto].
  - intros m [HPm Hn]. exact Hn.
  - intros m [HPm Hn] Hnm. split; [apply pend_quiet; assumption|]. rewrite (q_pc _ _ (tr_quiet m Hnm)). exact Hn.
  - intros m [HPm Hn] _. destruct (pend_next m HPm) as [Hg|HP']; [left; left; exact Hg|].
    destruct (is_calc_dec (pcs (tr (S m)))); [left; right; auto|right; auto].
Qed.

(* --- effect of a move on the channels *)
Lemma move_chan s s' : mstep s s' ->
  held s' = held s /\ (outq s' = outq s \/ exists q x, outq s' = outq s ++ [(q, x)]).
Proof.
  intros [Hs|[Ht Hs]].
  - unfold sstep in Hs. destruct (pcs s) eqn:Epc.
    + destruct_matches Hs; try discriminate; inversion Hs; subst s'; proj; auto.
    + inversion Hs; subst s'. destruct (step_calc_chan dv s) as (E1 & E2 & _). rewrite E1, E2. auto.
    + destruct_matches Hs; try discriminate; inversion Hs; subst s'; proj; auto.
    + destruct_matches Hs; try discriminate; inversion Hs; subst s'; proj; auto.
    + destruct_matches Hs; try discriminate; inversion Hs; subst s'; proj; auto.
    + destruct_matches Hs; try discriminate; inversion Hs; subst s'; proj. split; [reflexivity|right; eauto].
    + inversion Hs; subst s'. destruct (step_recalc_chan dv s proc) as (E1 & E2 & _). rewrite E1, E2. auto.
    + destruct_matches Hs; try discriminate; inversion Hs; subst s'; proj; auto.
    + discriminate.
    + destruct_matches Hs; try discriminate; inversion Hs; subst s'; proj; auto.
    + destruct_matches Hs; try discriminate; inversion Hs; subst s'; proj; auto.
    + discriminate.
  - destruct (tick_move_step _ _ Hs Ht) as [[_ ->]|(ph & q & r & proc & intr & _ & _ & ->)]; proj; auto.
Qed.

Lemma move_fbq s s' : mstep s s' ->
  (exists q r c, fbq s = q :: r /\ s' = pop_fb s q r c) \/ fbq s' = fbq s.
Proof.
  intros [Hs|[Ht Hs]].
  - unfold sstep in Hs. destruct (pcs s) eqn:Epc.
    + destruct_matches Hs; try discriminate; inversion Hs; subst s'; proj; first [right; reflexivity|right; congruence|left; eauto 10].
    + inversion Hs; subst s'. destruct (step_calc_chan dv s) as (_ & _ & E & _). right; exact E.
    + destruct_matches Hs; try discriminate; inversion Hs; subst s'; proj; first [right; reflexivity|right; congruence|left; eauto 10].
    + destruct_matches Hs; try discriminate; inversion Hs; subst s'; proj; first [right; reflexivity|right; congruence|left; eauto 10].
    + destruct_matches Hs; try discriminate; inversion Hs; subst s'; proj; first [right; reflexivity|right; congruence|left; eauto 10].
    + destruct_matches Hs; try discriminate; inversion Hs; subst s'; proj; first [right; reflexivity|right; congruence|left; eauto 10].
    + inversion Hs; subst s'. destruct (step_recalc_chan dv s proc) as (_ & _ & E & _). right; exact E.
    + destruct_matches Hs; try discriminate; inversion Hs; subst s'; proj; first [right; reflexivity|right; congruence|left; eauto 10].
    + discriminate.
    + destruct_matches Hs; try discriminate; inversion Hs; subst s'; proj; first [right; reflexivity|right; congruence|left; eauto 10].
    + destruct_matches Hs; try discriminate; inversion Hs; subst s'; proj; first [right; reflexivity|right; congruence|left; eauto 10].
    + discriminate.
  - right. destruct (tick_move_step _ _ Hs Ht) as [[_ ->]|(ph & q & r & proc & intr & _ & _ & ->)]; reflexivity.
Qed.

(* a move that is not a pop does not bring the scheduler back to Calc while a release is pending: every path from the end of
   a round to Calc goes through Top (or WaitFb), which consumes a pending release *)
Definition pre_pop (s : st) : Prop := pcs s <> Calc.
Lemma move_pre_pop s s' : mstep s s' -> pre_pop s -> fbq s' = fbq s -> fbq s <> [] -> pre_pop s'.
Proof.
  intros Hm Hpp Hf Hne. unfold pre_pop in *. destruct Hm as [Hs|[Ht Hs]].
  - unfold sstep in Hs. destruct (pcs s) eqn:Epc.
    + destruct (fbq s) as [|q r] eqn:Ef; [contradiction|]. inversion Hs; subst s'. revert Hf. proj. intros Hf. exfalso. eapply list_neq_cons; eauto.
    + contradiction.
    + destruct (fbq s) as [|q r] eqn:Ef; [discriminate|]. inversion Hs; subst s'. revert Hf. proj. intros Hf. exfalso. eapply list_neq_cons; eauto.
    + destruct_matches Hs; try discriminate; inversion Hs; subst s'; proj; discriminate.
    + destruct_matches Hs; try discriminate; inversion Hs; subst s'; proj; discriminate.
    + destruct_matches Hs; try discriminate; inversion Hs; subst s'; proj; discriminate.
    + inversion Hs; subst s'. destruct (step_recalc_shape dv s proc) as [_ [E|[E|[e E]]]]; rewrite E; discriminate.
    + destruct_matches Hs; try discriminate; inversion Hs; subst s'; proj; discriminate.
    + discriminate.
    + destruct k as [|k]; [inversion Hs; subst s'; proj; discriminate|].
      destruct (fbq s) as [|q r] eqn:Ef; [contradiction|]. inversion Hs; subst s'. revert Hf. proj.
      intros Hf. exfalso. eapply list_neq_cons; eauto.
    + destruct (sum (actual s) =? 0); [inversion Hs; subst s'; proj; discriminate|].
      destruct (fbq s) as [|q r] eqn:Ef; [contradiction|]. inversion Hs; subst s'. revert Hf. proj.
      intros Hf. exfalso. eapply list_neq_cons; eauto.
    + discriminate.
  - destruct (tick_move_step _ _ Hs Ht) as [[_ ->]|(ph & q & r & proc & intr & _ & _ & ->)]; proj; [discriminate|]. destruct intr; discriminate.
Qed.

(* --- position of the first entry of p in a FIFO *)
Fixpoint fidx (l : list N) : nat := match l with [] => 0%nat | q :: r => if N.eqb q p then 0%nat else S (fidx r) end.
Lemma fidx_app l l' : In p l -> fidx (l ++ l') = fidx l.
Proof.
  induction l as [|q r IH]; cbn [fidx app]; intros Hin; [destruct Hin|].
  destruct (N.eqb_spec q p) as [E|Hne]; [reflexivity|]. destruct Hin as [E'|Hin]; [contradiction|]. rewrite IH; auto.
Qed.
Lemma count_pos_in l : 1 <= count p l -> In p l.
Proof.
  induction l as [|q r IH]; cbn [count]; intros Hc; [lia|].
  destruct (N.eqb_spec p q) as [E|Hne]; [left; auto|right; apply IH; lia].
Qed.
Lemma in_count_pos l : In p l -> 1 <= count p l.
Proof.
  induction l as [|q r IH]; cbn [count]; intros Hin; [destruct Hin|].
  destruct (N.eqb_spec p q) as [E|Hne]; [lia|]. destruct Hin as [E'|Hin]; [congruence|]. specialize (IH Hin). lia.
Qed.

Lemma pop_effect s q r c n a : Inv s -> fbq s = q :: r -> In p (fbq s) -> fidx (fbq s) = n -> get (actual s) p <= a ->
  get (actual (pop_fb s q r c)) p < a \/ (In p r /\ (fidx r < n)%nat).
Proof.
  intros Hinv Ef Hin Hn Ha. proj. rewrite Ef in Hin, Hn. cbn [fidx] in Hn.
  destruct (N.eqb_spec q p) as [->|Hne].
  - left. rewrite get_dec, N.eqb_refl.
    assert (1 <= get (actual s) p); [|lia].
    rewrite (i_acc s Hinv). unfold cnt. rewrite Ef. cbn [count]. rewrite N.eqb_refl. lia.
  - right. destruct Hin as [E|Hin]; [contradiction|]. split; [exact Hin|lia].
Qed.

Lemma remove1_other q l h : remove1 q l = Some h -> q <> p -> In p (map fst l) -> In p (map fst h).
Proof.
  revert h. induction l as [|[a x] r IH]; cbn [remove1 map fst]; intros h Hr Hne Hin; [discriminate|].
  destruct (N.eqb_spec q a) as [->|Hqa].
  - inversion Hr; subst h. destruct Hin as [E|Hin]; [congruence|exact Hin].
  - destruct (remove1 q r) as [h'|] eqn:E; cbn [option_map] in Hr; [|discriminate]. inversion Hr; subst h. cbn [map fst].
    destruct Hin as [E'|Hin]; [left; exact E'|right; apply (IH h' eq_refl Hne Hin)].
Qed.

Lemma held_keep m : lb m <> LEnv (Release p) -> In p (map fst (held (tr m))) -> In p (map fst (held (tr (S m)))).
Proof.
  intros Hl Hin. destruct (moves_dec m) as [Hm|Hm].
  - destruct (move_chan _ _ (tr_move m Hm)) as [E _]. rewrite E. exact Hin.
  - destruct (quiet_chan _ _ _ _ _ (tr_step m) Hm) as [(_ & px & q & _ & _ & E & _)|[(q & h & El & Er & E & _)|(_ & E & _)]].
    + rewrite E. right. exact Hin.
    + rewrite E. eapply remove1_other; eauto. intros ->. contradiction.
    + rewrite E. exact Hin.
Qed.

(* --- a release of p that waits in the feedback channel is eventually consumed *)
Definition FB (n : nat) (a : N) (m : nat) : Prop :=
  Pend (tr m) /\ In p (fbq (tr m)) /\ fidx (fbq (tr m)) = n /\ get (actual (tr m)) p <= a.
Definition FBT (n : nat) (a : N) (m : nat) : Prop :=
  Gl m \/ get (actual (tr m)) p < a \/ (Pend (tr m) /\ In p (fbq (tr m)) /\ (fidx (fbq (tr m)) < n)%nat).

Lemma FB_quiet n a m : FB n a m -> ~ moves m -> FB n a (S m).
Proof.
  intros (HP & Hin & Hn & Ha) Hnm. pose proof (tr_quiet m Hnm) as Hq. destruct (q_fbq _ _ Hq) as [l El].
  split; [apply pend_quiet; assumption|]. rewrite El, (q_actual _ _ Hq). split; [apply in_or_app; left; exact Hin|].
  split; [rewrite fidx_app; assumption|exact Ha].
Qed.

Lemma FB_move n a m : FB n a m -> moves m -> FBT n a (S m) \/ (FB n a (S m) /\ fbq (tr (S m)) = fbq (tr m)).
Proof.
  intros (HP & Hin & Hn & Ha) Hmv. destruct (pend_next m HP) as [Hg|HP']; [left; left; exact Hg|].
  assert (Ha' : get (actual (tr (S m))) p <= a).
  { pose proof (step_actual_p m) as Hx. destruct HP as [E1 _]. destruct HP' as [E2 _]. specialize (Hx ltac:(lia)). lia. }
  destruct (move_fbq _ _ (tr_move m Hmv)) as [(q & r & c & Ef & Es)|Ef].
  - left. destruct (pop_effect (tr m) q r c n a (tr_inv m) Ef Hin Hn Ha) as [Hlt|[Hin' Hlt]].
    + right; left. rewrite Es. exact Hlt.
    + right; right. rewrite Es. proj. rewrite Es in HP'. auto.
  - right. split; [|exact Ef]. split; [exact HP'|]. rewrite Ef. auto.
Qed.

Lemma fb_reach_calc n a k : FB n a k -> exists j, (k <= j)%nat /\ (FBT n a j \/ (FB n a j /\ pcs (tr j) = Calc)).
Proof.
  intros HF. destruct (is_calc_dec (pcs (tr k))) as [Ec|Hnc]; [exists k; split; [lia|right; auto]|].
  apply (by_moves (fun m => FB n a m /\ pcs (tr m) <> Calc)) with (k := k); [| | |auto].
  - intros m [_ Hn]. exact Hn.
  - intros m [HFm Hn] Hnm. split; [apply FB_quiet; assumption|]. rewrite (q_pc _ _ (tr_quiet m Hnm)). exact Hn.
  - intros m [HFm Hn] Hmv. destruct (FB_move n a m HFm Hmv) as [HT|[HF' _]]; [left; left; exact HT|].
    destruct (is_calc_dec (pcs (tr (S m)))); [left; right; auto|right; auto].
Qed.

Lemma fb_from_calc n a k : FB n a k -> pcs (tr k) = Calc -> exists j, (k <= j)%nat /\ FBT n a j.
Proof.
  intros HF Epc. destruct (next_move k) as (j & Hj & Hm & Hmin).
  assert (Hj' : FB n a j /\ pcs (tr j) = Calc).
  { apply (along (fun i => FB n a i /\ pcs (tr i) = Calc) k j Hj); [|auto].
    intros i Hi [H1 H2]. split; [apply FB_quiet; [exact H1|apply Hmin; exact Hi]|].
    rewrite (q_pc _ _ (tr_quiet i (Hmin i Hi))). exact H2. }
  destruct Hj' as [HFj Epj].
  destruct (FB_move n a j HFj Hm) as [HT|[HF' Ef]]; [exists (S j); split; [lia|exact HT]|].
  assert (Hpp : pre_pop (tr (S j))).
  { destruct (tr_move j Hm) as [Hs|[Ht _]]; [|unfold tick_moves in Ht; rewrite Epj in Ht; discriminate].
    unfold sstep in Hs. rewrite Epj in Hs. inversion Hs as [Hs'].
    unfold pre_pop. destruct (step_calc_shape dv (tr j)) as [_ [E|[E|[e E]]]]; rewrite E; discriminate. }
  destruct (by_moves (fun m => FB n a m /\ pre_pop (tr m)) (FBT n a)) with (k := S j) as (j' & Hj' & HT); [| | |auto|].
  - intros m [_ Hpp']. exact Hpp'.
  - intros m [HFm Hpp'] Hnm. split; [apply FB_quiet; assumption|]. pose proof (tr_quiet m Hnm) as Hq.
    unfold pre_pop in *. rewrite (q_pc _ _ Hq). exact Hpp'.
  - intros m [HFm Hpp'] Hmv. destruct (FB_move n a m HFm Hmv) as [HT|[HF'' Ef']]; [left; exact HT|right].
    split; [exact HF''|]. apply (move_pre_pop _ _ (tr_move m Hmv) Hpp' Ef').
    destruct HFm as (_ & Hin & _). intros E. rewrite E in Hin. destruct Hin.
  - exists j'. split; [lia|exact HT].
Qed.

Lemma flow_fbq : forall n a k, FB n a k -> exists j, (k <= j)%nat /\ (Gl j \/ get (actual (tr j)) p < a).
Proof.
  induction n as [n IH] using lt_wf_ind. intros a k HF.
  assert (HT : exists j, (k <= j)%nat /\ FBT n a j).
  { destruct (fb_reach_calc n a k HF) as (j & Hj & [HT|[HF' Ec]]); [exists j; auto|].
    destruct (fb_from_calc n a j HF' Ec) as (j' & Hj' & HT). exists j'. split; [lia|exact HT]. }
  destruct HT as (j & Hj & [Hg|[Hlt|(HP' & Hin' & Hlt)]]); [exists j; auto|exists j; auto|].
  destruct HF as (HP & _ & _ & Ha).
  assert (Ha' : get (actual (tr j)) p <= a).
  { pose proof (actual_p_mono k j Hj) as Hx. destruct HP as [E1 _]. destruct HP' as [E2 _]. specialize (Hx ltac:(lia)). lia. }
  destruct (IH (fidx (fbq (tr j))) Hlt a j) as (j' & Hj' & Hr); [repeat split; auto; apply HP'|].
  exists j'. split; [lia|exact Hr].
Qed.

(* --- an item of p held by a handler is eventually released *)
Lemma flow_held k : In p (map fst (held (tr k))) -> exists j, (k <= j)%nat /\ In p (fbq (tr j)).
Proof.
  intros Hin. pose proof Hin as Hin0. apply in_map_iff in Hin. destruct Hin as ([q x] & Eq & Hin). cbn [fst] in Eq. subst q.
  destruct (Frel k p x Hin) as (j & Hj & Hl).
  destruct (first_from (fun m => lb m = LEnv (Release p)) (fun m => label_eq_dec _ _) k j Hj Hl) as (m & Hm & HL & Hmin).
  assert (Hinm : In p (map fst (held (tr m)))).
  { apply (along (fun i => In p (map fst (held (tr i)))) k m); [lia| |exact Hin0].
    intros i Hi Hh. apply held_keep; [apply Hmin; exact Hi|exact Hh]. }
  exists (S m). split; [lia|]. pose proof (tr_step m) as Hs. rewrite HL in Hs. cbn [is_step env_step] in Hs. destruct Hs as [_ Hs].
  destruct (remove1 p (held (tr m))); [|discriminate]. inversion Hs as [Hs']. proj. apply in_or_app. right. left. reflexivity.
Qed.

(* --- an item of p in the output is eventually taken *)
Lemma outq_keep m : lb m <> LEnv Take -> In p (map fst (outq (tr m))) ->
  In p (map fst (outq (tr (S m)))) /\ fidx (map fst (outq (tr (S m)))) = fidx (map fst (outq (tr m))).
Proof.
  intros Hl Hin. destruct (moves_dec m) as [Hm|Hm].
  - destruct (move_chan _ _ (tr_move m Hm)) as [_ [E|(q & x & E)]]; rewrite E; [auto|].
    rewrite map_app. split; [apply in_or_app; left; exact Hin|apply fidx_app; exact Hin].
  - destruct (quiet_chan _ _ _ _ _ (tr_step m) Hm) as [(E & _)|[(q & h & _ & _ & _ & _ & E)|(E & _)]]; [contradiction|rewrite E; auto|rewrite E; auto].
Qed.

Lemma flow_outq : forall n k, In p (map fst (outq (tr k))) -> fidx (map fst (outq (tr k))) = n ->
  exists j, (k <= j)%nat /\ In p (map fst (held (tr j))).
Proof.
  induction n as [n IH] using lt_wf_ind. intros k Hin Hn.
  assert (Hne : outq (tr k) <> []) by (intros E; rewrite E in Hin; destruct Hin).
  destruct (Ftake k Hne) as (j & Hj & Hl).
  destruct (first_from (fun m => lb m = LEnv Take) (fun m => label_eq_dec _ _) k j Hj Hl) as (m & Hm & HL & Hmin).
  assert (Hm' : In p (map fst (outq (tr m))) /\ fidx (map fst (outq (tr m))) = n).
  { apply (along (fun i => In p (map fst (outq (tr i))) /\ fidx (map fst (outq (tr i))) = n) k m); [lia| |auto].
    intros i Hi [H1 H2]. destruct (outq_keep i (Hmin i Hi) H1) as [H3 H4]. split; [exact H3|congruence]. }
  destruct Hm' as [Hinm Hnm]. pose proof (tr_step m) as Hs. rewrite HL in Hs. cbn [is_step env_step] in Hs. destruct Hs as [_ Hs].
  destruct (outq (tr m)) as [|[q x] o] eqn:Eo; [discriminate|]. inversion Hs as [Hs']. cbn [map fst fidx] in Hinm, Hnm.
  destruct (N.eqb_spec q p) as [->|Hne'].
  - exists (S m). split; [lia|]. rewrite <- Hs'. proj. left. reflexivity.
  - destruct Hinm as [E|Hinm]; [contradiction|].
    destruct (IH (fidx (map fst o)) ltac:(lia) (S m)) as (j' & Hj' & Hr).
    + rewrite <- Hs'. proj. exact Hinm.
    + rewrite <- Hs'. reflexivity.
    + exists j'. split; [lia|exact Hr].
Qed.

(* --- hence, while p has something in flight and nothing of ch is delivered, its in-flight count eventually drops *)
Lemma actual_decreases k : Pend (tr k) -> 1 <= get (actual (tr k)) p ->
  exists j, (k <= j)%nat /\ (Gl j \/ get (actual (tr j)) p < get (actual (tr k)) p).
Proof.
  intros HP Hge. set (a := get (actual (tr k)) p) in *.
  assert (Hfb : forall k', (k <= k')%nat -> In p (fbq (tr k')) -> exists j, (k' <= j)%nat /\ (Gl j \/ get (actual (tr j)) p < a)).
  { intros k' Hk' Hin. destruct (pend_later k k' Hk' HP) as [Hg|[HP' Ha']]; [exists k'; auto|].
    apply (flow_fbq (fidx (fbq (tr k'))) a k'). repeat split; auto; apply HP'. }
  assert (Hhd : forall k', (k <= k')%nat -> In p (map fst (held (tr k'))) -> exists j, (k' <= j)%nat /\ (Gl j \/ get (actual (tr j)) p < a)).
  { intros k' Hk' Hin. destruct (flow_held k' Hin) as (j & Hj & Hin').
    destruct (Hfb j ltac:(lia) Hin') as (j' & Hj' & Hr). exists j'. split; [lia|exact Hr]. }
  pose proof (i_acc _ (tr_inv k) p) as Hacc. fold a in Hacc. unfold cnt in Hacc.
  destruct (N.eq_dec (count p (fbq (tr k))) 0) as [E1|E1]; [|apply (Hfb k (le_n _)); apply count_pos_in; lia].
  destruct (N.eq_dec (count p (map fst (held (tr k)))) 0) as [E2|E2]; [|apply (Hhd k (le_n _)); apply count_pos_in; lia].
  assert (Hin : In p (map fst (outq (tr k)))) by (apply count_pos_in; lia).
  destruct (flow_outq _ k Hin eq_refl) as (j & Hj & Hin'). destruct (Hhd j Hj Hin') as (j' & Hj' & Hr). exists j'. split; [lia|exact Hr].
Qed.

(* --- so the scheduler is eventually at Calc with p under its share *)
Lemma reach_uncrowded_calc : forall n k, N.to_nat (get (actual (tr k)) p) = n -> Pend (tr k) ->
  exists j, (k <= j)%nat /\ (Gl j \/ (Pend (tr j) /\ pcs (tr j) = Calc /\ get (actual (tr j)) p < get (strategic (tr j)) p)).
Proof.
  induction n as [n IH] using lt_wf_ind. intros k Hn HP.
  destruct (N.ltb_spec (get (actual (tr k)) p) (get (strategic (tr k)) p)) as [Hlt|Hge].
  - destruct (pend_reach_calc k HP) as (j & Hj & [Hg|[HP' Ec]]); [exists j; auto|].
    exists j. split; [exact Hj|right]. split; [exact HP'|]. split; [exact Ec|].
    pose proof (actual_p_mono k j Hj) as Hx. destruct HP as [E1 _]. destruct HP' as [E2 _]. specialize (Hx ltac:(lia)).
    rewrite tr_strategic. rewrite tr_strategic in Hlt. lia.
  - pose proof (sh_pos _ (tr_shares k) p) as Hpos. rewrite tr_prios in Hpos. specialize (Hpos Hp).
    destruct (actual_decreases k HP ltac:(lia)) as (j & Hj & [Hg|Hlt]); [exists j; auto|].
    destruct (pend_later k j Hj HP) as [Hg|[HP' _]]; [exists j; auto|].
    destruct (IH (N.to_nat (get (actual (tr j)) p)) ltac:(lia) j eq_refl HP') as (j' & Hj' & Hr). exists j'. split; [lia|exact Hr].
Qed.

(* ================= 5. a round in which p has an allowance delivers an item of ch ================= *)
Definition RP (s : st) : Prop :=
  1 <= get (tactic s) p /\
  match pcs s with
  | Prio P1 rest _ => In p rest
  | Read P1 q rest _ _ => q = p \/ In p rest
  | Send P1 q _ rest _ => q = p \/ In p rest
  | _ => False
  end.

Lemma RP_mstep s s' : mstep s s' -> RP s -> chan_of s p = Some ch ->
  ((forall ph q x r pr, pcs s <> Send ph q x r pr) -> inq s ch <> [] /\ drained s p = false) ->
  cntd s' = cntd s -> RP s'.
Proof.
  intros Hm [Ht Hpc] Hcp Hpi Hc. unfold RP. destruct Hm as [Hs|[Htk Hs]].
  - unfold sstep in Hs. destruct (pcs s) eqn:Epc; try contradiction.
    + (* Prio *) destruct ph; [|contradiction]. destruct rest as [|q r]; [destruct Hpc|].
      destruct Hpi as [Hne Hdr]; [intros; discriminate|].
      inversion Hs; subst s'; proj. split; [exact Ht|].
      destruct (drained s q) eqn:Ed.
      * destruct Hpc as [->|Hin]; [congruence|exact Hin].
      * destruct Hpc as [->|Hin]; auto.
    + (* Read *) destruct ph; [|contradiction].
      destruct Hpi as [Hne Hdr]; [intros; discriminate|].
      assert (Hskip : p0 <> p -> In p rest) by (intros Hx; destruct Hpc as [E|Hin]; [contradiction|exact Hin]).
      destruct (N.eqb_spec (get (tactic s) p0) 0) as [Ez|Hnz].
      { inversion Hs; subst s'; proj. split; [exact Ht|]. apply Hskip. intros ->. lia. }
      destruct (chan_of s p0) as [c|] eqn:Ec.
      2:{ inversion Hs; subst s'; proj. split; [exact Ht|]. apply Hskip. intros ->. congruence. }
      destruct (inq s c) as [|x qq] eqn:Eq.
      * assert (Hne' : p0 <> p). { intros ->. rewrite Hcp in Ec. inversion Ec; subst c. contradiction. }
        destruct (closed s c); [|destruct (buffered s c); [|discriminate]]; inversion Hs; subst s'; proj; split; auto.
      * inversion Hs; subst s'; proj. split; [exact Ht|exact Hpc].
    + (* Send *) destruct ph; [|contradiction].
      destruct (N.of_nat (length (outq s)) <? outcap s); [|discriminate]. inversion Hs; subst s'. revert Hc. unfold cntd. proj.
      rewrite of_chan_snoc, app_length. intros Hc.
      destruct (N.eqb_spec p0 p) as [->|Hne]; [rewrite on_p in Hc; cbn [length] in Hc; lia|].
      split; [|exact Hpc]. rewrite get_dec. destruct (N.eqb_spec p p0); [congruence|exact Ht].
  - destruct (tick_move_step _ _ Hs Htk) as [[Epc ->]|(ph & q & r & proc & intr & Epc & Hb & ->)]; rewrite Epc in Hpc; [contradiction|].
    destruct ph; [|contradiction]. destruct Hpi as [Hne Hdr]; [intros; congruence|].
    assert (Hqp : q <> p).
    { intros ->. unfold read_blocked in Hb. rewrite Hcp in Hb. destruct (inq s ch); [contradiction|]. rewrite !andb_false_r in Hb. discriminate. }
    proj. split; [exact Ht|]. destruct Hpc as [E|Hin]; [contradiction|]. destruct intr; auto.
Qed.

Lemma round_delivers k : Pend (tr k) -> RP (tr k) -> exists j, (k <= j)%nat /\ Gl j.
Proof.
  intros HP HR. apply (by_moves (fun m => Pend (tr m) /\ RP (tr m)) Gl) with (k := k); [| | |auto].
  - intros m [_ [_ Hpc]] Ht. rewrite Ht in Hpc. exact Hpc.
  - intros m [HPm HRm] Hnm. split; [apply pend_quiet; assumption|]. pose proof (tr_quiet m Hnm) as Hq.
    unfold RP. rewrite (q_pc _ _ Hq), (q_tactic _ _ Hq). exact HRm.
  - intros m [HPm HRm] Hmv. destruct (pend_next m HPm) as [Hg|HP']; [left; exact Hg|right]. split; [exact HP'|].
    apply (RP_mstep (tr m) (tr (S m)) (tr_move m Hmv) HRm).
    + rewrite tr_chan. exact Hch.
    + apply pend_inq. exact HPm.
    + destruct HPm as [E1 _]. destruct HP' as [E2 _]. lia.
Qed.

(* calcTactic with p under its share: either the scheduler waits for one more release, or the round starts and p has an allowance *)
Lemma step_calc_cases s : Inv s -> In p (prios s) -> get (actual s) p < get (strategic s) p ->
  (forall e, pcs (step_calc dv s) <> Drain e) ->
  pcs (step_calc dv s) = WaitFb \/ (pcs (step_calc dv s) = Prio P1 (prios s) 0 /\ 1 <= get (tactic (step_calc dv s)) p).
Proof.
  intros Hinv Hin Hlt Hne.
  assert (Hbase : forall v, step_calc dv s = calc_base dv s v ->
            pcs (step_calc dv s) = WaitFb \/ (pcs (step_calc dv s) = Prio P1 (prios s) 0 /\ 1 <= get (tactic (step_calc dv s)) p)).
  { intros v E. rewrite E in *. unfold calc_base in *.
    destruct (safe_divide (dv (ncalls s)) (uncrowded s) v (reset (tactic s))) as [t|e] eqn:Es.
    - revert Hne. proj. destruct (filled t (uncrowded s)) eqn:Ef; intros Hne; [right|left; reflexivity]. split; [reflexivity|].
      unfold filled in Ef. rewrite forallb_forall in Ef. specialize (Ef p).
      assert (Hu : In p (uncrowded s)). { unfold uncrowded. apply filter_In. split; [exact Hin|]. apply N.ltb_lt. exact Hlt. }
      specialize (Ef Hu). apply negb_true_iff in Ef. apply N.eqb_neq in Ef. lia.
    - exfalso. apply (Hne (Some (EDiv e))). reflexivity. }
  unfold step_calc in *.
  destruct (H s <? sum (actual s)); [exfalso; apply (Hne (Some EQuantityExceeded)); reflexivity|].
  destruct (H s - sum (actual s) =? 0); [left; reflexivity|].
  destruct (add_up (prios s) (actual s) (strategic s) (reset (tactic s)) 0) as [[t picked]|] eqn:Ea; [|eapply Hbase; reflexivity].
  destruct (picked =? H s - sum (actual s)); [|eapply Hbase; reflexivity].
  right. proj. split; [reflexivity|]. destruct (add_up_get _ _ _ _ _ _ _ (i_ndp s Hinv) Ea) as [Hg _]. rewrite (Hg p Hin). lia.
Qed.

(* quiet steps up to the next move keep what the scheduler looks at *)
Lemma next_move_same k :
  exists j, (k <= j)%nat /\ moves j /\ pcs (tr j) = pcs (tr k) /\ actual (tr j) = actual (tr k) /\ tactic (tr j) = tactic (tr k) /\
    (Pend (tr k) -> Pend (tr j)).
Proof.
  destruct (next_move k) as (j & Hj & Hm & Hmin). exists j. split; [exact Hj|]. split; [exact Hm|].
  apply (along (fun i => pcs (tr i) = pcs (tr k) /\ actual (tr i) = actual (tr k) /\ tactic (tr i) = tactic (tr k) /\
                         (Pend (tr k) -> Pend (tr i))) k j Hj); [|auto].
  intros i Hi (H1 & H2 & H3 & H4). pose proof (tr_quiet i (Hmin i Hi)) as Hq.
  rewrite (q_pc _ _ Hq), (q_actual _ _ Hq), (q_tactic _ _ Hq). split; [exact H1|]. split; [exact H2|]. split; [exact H3|].
  intros HP. apply pend_quiet; [apply H4; exact HP|apply Hmin; exact Hi].
Qed.

Lemma calc_delivers : forall n k, N.to_nat (sum (actual (tr k))) = n -> Pend (tr k) -> pcs (tr k) = Calc ->
  get (actual (tr k)) p < get (strategic (tr k)) p -> exists j, (k <= j)%nat /\ Gl j.
Proof.
  induction n as [n IH] using lt_wf_ind. intros k Hn HP Epc Hlt.
  destruct (next_move_same k) as (j & Hj & Hm & Epj & Eaj & _ & HPj). specialize (HPj HP).
  rewrite Epc in Epj.
  destruct (tr_move j Hm) as [Hs|[Ht _]]; [|unfold tick_moves in Ht; rewrite Epj in Ht; discriminate].
  unfold sstep in Hs. rewrite Epj in Hs. inversion Hs as [Hs'].
  destruct (pend_next j HPj) as [Hg|HP1]; [exists (S j); split; [lia|exact Hg]|].
  destruct (step_calc_cases (tr j) (tr_inv j)) as [Ew|[Er Ht]].
  { rewrite tr_prios. exact Hp. }
  { rewrite Eaj, tr_strategic. rewrite tr_strategic in Hlt. exact Hlt. }
  { intros e. rewrite Hs'. apply tr_not_drain. }
  - (* waits for one release, then calcTactic again with one item less in flight *)
    rewrite Hs' in Ew. destruct (step_calc_chan dv (tr j)) as (_ & _ & _ & Ea1 & _). rewrite Hs' in Ea1.
    destruct (next_move_same (S j)) as (j2 & Hj2 & Hm2 & Epj2 & Eaj2 & _ & HPj2). specialize (HPj2 HP1).
    rewrite Ew in Epj2.
    destruct (tr_move j2 Hm2) as [Hs2|[Ht2 _]]; [|unfold tick_moves in Ht2; rewrite Epj2 in Ht2; discriminate].
    unfold sstep in Hs2. rewrite Epj2 in Hs2.
    destruct (fbq (tr j2)) as [|q r] eqn:Ef; [discriminate|]. inversion Hs2 as [Hs2'].
    destruct (pend_next j2 HPj2) as [Hg|HP3]; [exists (S j2); split; [lia|exact Hg]|].
    pose proof (tr_inv j2) as Hinv2.
    assert (Hge : 1 <= get (actual (tr j2)) q).
    { rewrite (i_acc _ Hinv2). unfold cnt. rewrite Ef. cbn [count]. rewrite N.eqb_refl. lia. }
    pose proof (sum_dec (actual (tr j2)) q (i_nda _ Hinv2) Hge) as Hd.
    destruct (IH (N.to_nat (sum (actual (tr (S j2)))))) with (k := S j2) as (j3 & Hj3 & Hg); auto.
    + rewrite <- Hs2'. proj. rewrite <- Hn, <- Eaj, <- Ea1, <- Eaj2. lia.
    + rewrite <- Hs2'. reflexivity.
    + rewrite tr_strategic. rewrite tr_strategic in Hlt. rewrite <- Hs2'. proj. rewrite get_dec.
      rewrite Eaj2, Ea1, Eaj. destruct (N.eqb_spec p q) as [<-|_]; lia.
    + exists j3. split; [lia|exact Hg].
  - (* the round starts *)
    rewrite Hs' in Er, Ht. destruct (round_delivers (S j) HP1) as (j' & Hj' & Hg).
    + split; [exact Ht|]. rewrite Er. rewrite tr_prios. exact Hp.
    + exists j'. split; [lia|exact Hg].
Qed.

(* ================= 6. the next item of ch is eventually delivered ================= *)
Lemma p_count_grows k : Pend (tr k) -> exists j, (k <= j)%nat /\ Gl j.
Proof.
  intros HP. destruct (reach_uncrowded_calc _ k eq_refl HP) as (j & Hj & [Hg|(HP' & Ec & Hlt)]); [exists j; auto|].
  destruct (calc_delivers _ j eq_refl HP' Ec Hlt) as (j' & Hj' & Hg). exists j'. split; [lia|exact Hg].
Qed.

(* ==ENDT== *)
End Target.

(* ================= 7. every item ================= *)
Lemma count_reaches p ch : chan_of s0 p = Some ch ->
  forall d n i, (n < length (written (tr i) ch))%nat -> (S n - cntd ch (tr i) = d)%nat ->
  exists j, (i <= j)%nat /\ (n < cntd ch (tr j))%nat.
Proof.
  intros Hch. induction d as [d IH] using lt_wf_ind. intros n i Hn Hd.
  destruct (lt_dec n (cntd ch (tr i))) as [Hlt|Hge]; [exists i; split; [lia|exact Hlt]|].
  destruct (p_count_grows p ch Hch (cntd ch (tr i)) i) as (j & Hj & Hg); [split; [reflexivity|lia]|]. unfold Gl in Hg.
  pose proof (written_mono ch i j Hj) as Hw.
  destruct (IH (S n - cntd ch (tr j))%nat ltac:(lia) n j ltac:(lia) eq_refl) as (j' & Hj' & Hr). exists j'. split; [lia|exact Hr].
Qed.

Lemma written_prefix ch i j : (i <= j)%nat -> exists w, written (tr j) ch = written (tr i) ch ++ w.
Proof.
  intros Hle. apply (along (fun m => exists w, written (tr m) ch = written (tr i) ch ++ w) i j Hle).
  - intros m _ [w Hw]. destruct (step_mono _ _ _ _ _ (tr_Q m) (tr_step m)) as [_ Hs]. destruct (Hs ch) as [w' Hw'].
    exists (w ++ w'). rewrite Hw', Hw, app_assoc. reflexivity.
  - exists []. rewrite app_nil_r. reflexivity.
Qed.
Lemma delivered_prefix i j : (i <= j)%nat -> exists d, delivered (tr j) = delivered (tr i) ++ d.
Proof.
  intros Hle. apply (along (fun m => exists d, delivered (tr m) = delivered (tr i) ++ d) i j Hle).
  - intros m _ [d Hd]. destruct (step_mono _ _ _ _ _ (tr_Q m) (tr_step m)) as [[d' Hd'] _].
    exists (d ++ d'). rewrite Hd', Hd, app_assoc. reflexivity.
  - exists []. rewrite app_nil_r. reflexivity.
Qed.

Lemma prefix_in {A} (x : A) : forall pre l1 l2 post, l1 ++ l2 = pre ++ x :: post -> (length pre < length l1)%nat -> In x l1.
Proof.
  induction pre as [|a pre IH]; intros l1 l2 post E Hlen.
  - destruct l1 as [|y l1]; [cbn [length] in Hlen; lia|]. cbn [app] in E. inversion E; subst. left; reflexivity.
  - destruct l1 as [|y l1]; [cbn [length] in Hlen; lia|]. cbn [app] in E. inversion E; subst. right.
    eapply IH; [eassumption|]. cbn [length] in Hlen. lia.
Qed.

(* the general form: channels may be shared by several priorities; the item is delivered under one of the priorities registered
   on its channel *)
Theorem every_item_chan_sec : forall i p ch x, chan_of s0 p = Some ch -> In x (inq (tr i) ch) ->
  exists j q, (i <= j)%nat /\ chan_of s0 q = Some ch /\ In (q, x) (delivered (tr j)).
Proof.
  intros i p ch x Hch Hin. destruct (in_split x _ Hin) as (I1 & I2 & EI).
  pose proof (tr_split i ch) as Hsp. rewrite EI in Hsp.
  set (A := of_chan (chan_of s0) ch (delivered (tr i)) ++ limbo (chan_of s0) ch (tr i) ++ I1).
  assert (HA : written (tr i) ch = A ++ x :: I2) by (unfold A; rewrite <- Hsp, <- !app_assoc; reflexivity).
  destruct (count_reaches p ch Hch (S (length A) - cntd ch (tr i))%nat (length A) i) as (j & Hj & Hc).
  { rewrite HA, app_length. cbn [length]. lia. }
  { reflexivity. }
  destruct (written_prefix ch i j Hj) as [w Hw]. pose proof (tr_split j ch) as Hsj.
  rewrite Hw, HA, <- app_assoc in Hsj. cbn [app] in Hsj.
  assert (Hx : In x (of_chan (chan_of s0) ch (delivered (tr j)))) by (eapply prefix_in; [exact Hsj|exact Hc]).
  destruct (of_chan_in _ _ _ _ Hx) as (q & Hq & Hin'). exists j, q. auto.
Qed.

(* distinct priorities have distinct channels (here: nobody else is registered on ch): the item is delivered under p *)
Theorem every_item_delivered_sec : forall i p ch x, chan_of s0 p = Some ch -> (forall q, chan_of s0 q = Some ch -> q = p) ->
  In x (inq (tr i) ch) -> exists j, (i <= j)%nat /\ In (p, x) (delivered (tr j)).
Proof.
  intros i p ch x Hch Hinj Hin. destruct (every_item_chan_sec i p ch x Hch Hin) as (j & q & Hj & Hq & Hd).
  exists j. split; [exact Hj|]. rewrite <- (Hinj q Hq). exact Hd.
Qed.

Theorem head_delivered_sec : forall i p ch x q, chan_of s0 p = Some ch -> (forall q, chan_of s0 q = Some ch -> q = p) ->
  inq (tr i) ch = x :: q -> exists j, (i <= j)%nat /\ In (p, x) (delivered (tr j)).
Proof. intros i p ch x q Hch Hinj E. apply (every_item_delivered_sec i p ch x Hch Hinj). rewrite E; left; reflexivity. Qed.

Theorem some_item_delivered_sec : forall i, (exists p ch, chan_of s0 p = Some ch /\ inq (tr i) ch <> []) ->
  exists j, (i <= j)%nat /\ (length (delivered (tr i)) < length (delivered (tr j)))%nat.
Proof.
  intros i (p & ch & Hch & Hne).
  destruct (p_count_grows p ch Hch (cntd ch (tr i)) i) as (j & Hj & Hg).
  { split; [reflexivity|]. pose proof (tr_split i ch) as Hsp. unfold cntd. rewrite <- Hsp, !app_length.
    destruct (inq (tr i) ch); [contradiction|]. cbn [length]. lia. }
  exists j. split; [exact Hj|]. destruct (delivered_prefix i j Hj) as [d Hd]. unfold Gl, cntd in Hg.
  rewrite Hd, of_chan_app, app_length in Hg. rewrite Hd, app_length.
  destruct d; [cbn in Hg; lia|cbn [length]; lia].
Qed.

(* ==END== *)
End Live.

(* ================= 8. the theorems, closed ================= *)
(* hypotheses on the divider: it returns maps (unique keys) and obeys the (generalised) sum rule *)
Definition dv_ok (dv : nat -> Divider) : Prop :=
  (forall k ps n d, NoDup (keys d) -> NoDup (keys (dv k ps n d))) /\
  (forall k ps n d, NoDup (keys d) -> sum (dv k ps n d) = sum d + n \/ sum (dv k ps n d) = sum d).

(* distinct priorities are registered on distinct channels *)
Definition chan_inj (s0 : st) : Prop := forall p q ch, chan_of s0 p = Some ch -> chan_of s0 q = Some ch -> p = q.

(* (d) of the task *)
Theorem execution_sreachable : forall fixed dv s0 tr lb, execution fixed dv s0 tr lb -> forall i, sreachable fixed dv s0 (tr i).
Proof. intros fixed dv s0 tr lb Hex i. exact (tr_sreach fixed dv s0 tr lb Hex i). Qed.

(* --- strongest versions: the clock only has to tick when the scheduler waits for it (F_tick_w); NO hypothesis on fblimit *)
Theorem prio1_calc_infinitely_often_w : forall fixed dv s0 tr lb, dv_ok dv -> InitL1 s0 -> H s0 < two64 -> execution fixed dv s0 tr lb ->
  F_sched fixed dv tr lb -> F_take tr lb -> F_rel tr lb -> F_tick_w tr lb ->
  forall i, exists j, (i <= j)%nat /\ pcs (tr j) = Calc.
Proof.
  intros fixed dv s0 tr lb [Hwf Hsr] HI HH Hex F1 F2 F3 F4. exact (calc_infinitely_often_sec fixed dv Hwf Hsr s0 tr lb HI HH Hex F1 F2 F3 F4).
Qed.

(* channels may be shared: the item is delivered under one of the priorities registered on its channel *)
Theorem prio1_every_item_delivered_chan_w : forall fixed dv s0 tr lb, dv_ok dv -> InitL1 s0 -> H s0 < two64 ->
  execution fixed dv s0 tr lb -> F_sched fixed dv tr lb -> F_take tr lb -> F_rel tr lb -> F_tick_w tr lb ->
  forall i p ch x, chan_of s0 p = Some ch -> In x (inq (tr i) ch) ->
  exists j q, (i <= j)%nat /\ chan_of s0 q = Some ch /\ In (q, x) (delivered (tr j)).
Proof.
  intros fixed dv s0 tr lb [Hwf Hsr] HI HH Hex F1 F2 F3 F4. exact (every_item_chan_sec fixed dv Hwf Hsr s0 tr lb HI HH Hex F1 F2 F3 F4).
Qed.

(* nobody else is registered on the channel of p: the item is delivered under p *)
Theorem prio1_every_item_delivered_w : forall fixed dv s0 tr lb, dv_ok dv -> InitL1 s0 -> H s0 < two64 ->
  execution fixed dv s0 tr lb -> F_sched fixed dv tr lb -> F_take tr lb -> F_rel tr lb -> F_tick_w tr lb ->
  forall i p ch x, chan_of s0 p = Some ch -> (forall q, chan_of s0 q = Some ch -> q = p) -> In x (inq (tr i) ch) ->
  exists j, (i <= j)%nat /\ In (p, x) (delivered (tr j)).
Proof.
  intros fixed dv s0 tr lb [Hwf Hsr] HI HH Hex F1 F2 F3 F4. exact (every_item_delivered_sec fixed dv Hwf Hsr s0 tr lb HI HH Hex F1 F2 F3 F4).
Qed.

Theorem prio1_head_delivered_w : forall fixed dv s0 tr lb, dv_ok dv -> InitL1 s0 -> H s0 < two64 ->
  execution fixed dv s0 tr lb -> F_sched fixed dv tr lb -> F_take tr lb -> F_rel tr lb -> F_tick_w tr lb ->
  forall i p ch x q, chan_of s0 p = Some ch -> (forall q, chan_of s0 q = Some ch -> q = p) -> inq (tr i) ch = x :: q ->
  exists j, (i <= j)%nat /\ In (p, x) (delivered (tr j)).
Proof.
  intros fixed dv s0 tr lb [Hwf Hsr] HI HH Hex F1 F2 F3 F4. exact (head_delivered_sec fixed dv Hwf Hsr s0 tr lb HI HH Hex F1 F2 F3 F4).
Qed.

Theorem prio1_some_item_delivered_w : forall fixed dv s0 tr lb, dv_ok dv -> InitL1 s0 -> H s0 < two64 ->
  execution fixed dv s0 tr lb -> F_sched fixed dv tr lb -> F_take tr lb -> F_rel tr lb -> F_tick_w tr lb ->
  forall i, (exists p ch, chan_of s0 p = Some ch /\ inq (tr i) ch <> []) ->
  exists j, (i <= j)%nat /\ (length (delivered (tr i)) < length (delivered (tr j)))%nat.
Proof.
  intros fixed dv s0 tr lb [Hwf Hsr] HI HH Hex F1 F2 F3 F4. exact (some_item_delivered_sec fixed dv Hwf Hsr s0 tr lb HI HH Hex F1 F2 F3 F4).
Qed.
Print Assumptions prio1_calc_infinitely_often_w.
Print Assumptions prio1_every_item_delivered_chan_w.
Print Assumptions prio1_every_item_delivered_w.
Print Assumptions prio1_head_delivered_w.
Print Assumptions prio1_some_item_delivered_w.

(* --- the statements of the task (time passes: F_tick; `1 <= fblimit s0` is kept in the statement although v1 does not need it,
       see section 9; the hypothesis chan_inj is needed, see prio1_liveness_needs_distinct_channels) *)
Theorem prio1_calc_infinitely_often : forall fixed dv s0 tr lb, dv_ok dv -> InitL1 s0 -> H s0 < two64 -> execution fixed dv s0 tr lb ->
  F_sched fixed dv tr lb -> F_take tr lb -> F_rel tr lb -> F_tick lb ->
  forall i, exists j, (i <= j)%nat /\ pcs (tr j) = Calc.
Proof. intros fixed dv s0 tr lb Hd HI HH Hex F1 F2 F3 F4. eapply prio1_calc_infinitely_often_w; eauto using F_tick_weaken. Qed.
Print Assumptions prio1_calc_infinitely_often.

Theorem prio1_every_item_delivered : forall fixed dv s0 tr lb, dv_ok dv -> InitL1 s0 -> H s0 < two64 -> (1 <= fblimit s0)%nat ->
  chan_inj s0 ->
  execution fixed dv s0 tr lb -> F_sched fixed dv tr lb -> F_take tr lb -> F_rel tr lb -> F_tick lb ->
  forall i p ch x, In p (prios s0) -> chan_of s0 p = Some ch -> In x (inq (tr i) ch) ->
  exists j, (i <= j)%nat /\ In (p, x) (delivered (tr j)).
Proof.
  intros fixed dv s0 tr lb Hd HI HH _ Hinj Hex F1 F2 F3 F4 i p ch x _ Hch Hin.
  apply (prio1_every_item_delivered_w fixed dv s0 tr lb Hd HI HH Hex F1 F2 F3 (F_tick_weaken tr lb F4) i p ch x Hch); [|exact Hin].
  intros q Hq. exact (Hinj q p ch Hq Hch).
Qed.
Print Assumptions prio1_every_item_delivered.

(* the literal statement of the task has no hypothesis about the channels; it is FALSE when two priorities share a channel
   (prio1_liveness_needs_distinct_channels below).  Following the convention for statements that need an extra hypothesis: *)
Theorem prio1_every_item_delivered_partial : forall fixed dv s0 tr lb, dv_ok dv -> InitL1 s0 -> H s0 < two64 -> (1 <= fblimit s0)%nat ->
  chan_inj s0 ->
  execution fixed dv s0 tr lb -> F_sched fixed dv tr lb -> F_take tr lb -> F_rel tr lb -> F_tick lb ->
  forall i p ch x, In p (prios s0) -> chan_of s0 p = Some ch -> In x (inq (tr i) ch) ->
  exists j, (i <= j)%nat /\ In (p, x) (delivered (tr j)).
Proof. exact prio1_every_item_delivered. Qed.
Print Assumptions prio1_every_item_delivered_partial.

(* without any hypothesis about the channels (and without the one about fblimit): delivered under SOME priority of the channel *)
Theorem prio1_every_item_delivered_chan : forall fixed dv s0 tr lb, dv_ok dv -> InitL1 s0 -> H s0 < two64 ->
  execution fixed dv s0 tr lb -> F_sched fixed dv tr lb -> F_take tr lb -> F_rel tr lb -> F_tick lb ->
  forall i p ch x, In p (prios s0) -> chan_of s0 p = Some ch -> In x (inq (tr i) ch) ->
  exists j q, (i <= j)%nat /\ In q (prios s0) /\ chan_of s0 q = Some ch /\ In (q, x) (delivered (tr j)).
Proof.
  intros fixed dv s0 tr lb Hd HI HH Hex F1 F2 F3 F4 i p ch x _ Hch Hin.
  destruct (prio1_every_item_delivered_chan_w fixed dv s0 tr lb Hd HI HH Hex F1 F2 F3 (F_tick_weaken tr lb F4) i p ch x Hch Hin)
    as (j & q & Hj & Hq & Hdl).
  exists j, q. split; [exact Hj|]. split; [|split; [exact Hq|exact Hdl]].
  apply (in_chan s0 (il_init s0 HI)). rewrite Hq. discriminate.
Qed.
Print Assumptions prio1_every_item_delivered_chan.

Theorem prio1_head_delivered : forall fixed dv s0 tr lb, dv_ok dv -> InitL1 s0 -> H s0 < two64 -> (1 <= fblimit s0)%nat ->
  chan_inj s0 ->
  execution fixed dv s0 tr lb -> F_sched fixed dv tr lb -> F_take tr lb -> F_rel tr lb -> F_tick lb ->
  forall i p ch x q, In p (prios s0) -> chan_of s0 p = Some ch -> inq (tr i) ch = x :: q ->
  exists j, (i <= j)%nat /\ In (p, x) (delivered (tr j)).
Proof.
  intros fixed dv s0 tr lb Hd HI HH Hfl Hinj Hex F1 F2 F3 F4 i p ch x q Hp Hch E.
  apply (prio1_every_item_delivered fixed dv s0 tr lb Hd HI HH Hfl Hinj Hex F1 F2 F3 F4 i p ch x Hp Hch). rewrite E. left; reflexivity.
Qed.
Print Assumptions prio1_head_delivered.

Theorem prio1_some_item_delivered : forall fixed dv s0 tr lb, dv_ok dv -> InitL1 s0 -> H s0 < two64 -> (1 <= fblimit s0)%nat ->
  execution fixed dv s0 tr lb -> F_sched fixed dv tr lb -> F_take tr lb -> F_rel tr lb -> F_tick lb ->
  forall i, (exists p ch, In p (prios s0) /\ chan_of s0 p = Some ch /\ inq (tr i) ch <> []) ->
  exists j, (i <= j)%nat /\ (length (delivered (tr i)) < length (delivered (tr j)))%nat.
Proof.
  intros fixed dv s0 tr lb Hd HI HH _ Hex F1 F2 F3 F4 i (p & ch & _ & Hch & Hne).
  apply (prio1_some_item_delivered_w fixed dv s0 tr lb Hd HI HH Hex F1 F2 F3 (F_tick_weaken tr lb F4) i). exists p, ch. auto.
Qed.
Print Assumptions prio1_some_item_delivered.

(* --- for the states built by New() (init_state): the hypotheses about s0 follow from properties of cfg / h / ocap and of the
       strategic distribution the divider returns in New(); the channel ids of cfg are distinct *)
Lemma init_chans_notin cfg : forall co p, ~ In p (map fst cfg) -> init_chans cfg co p = co p.
Proof.
  induction cfg as [|[q c] r IH]; intros co p Hn; cbn [init_chans]; [reflexivity|].
  cbn [map fst In] in Hn. rewrite IH by tauto. unfold upd. destruct (N.eqb_spec p q) as [->|_]; [tauto|reflexivity].
Qed.
Lemma init_chans_some cfg : forall co p ch, init_chans cfg co p = Some ch -> In (p, ch) cfg \/ co p = Some ch.
Proof.
  induction cfg as [|[q c] r IH]; intros co p ch E; cbn [init_chans] in E; [right; exact E|].
  destruct (IH _ _ _ E) as [Hin|Hu]; [left; right; exact Hin|].
  unfold upd in Hu. destruct (N.eqb_spec p q) as [->|_]; [inversion Hu; subst; left; left; reflexivity|right; exact Hu].
Qed.
Lemma init_chans_in cfg : forall co p ch, NoDup (map fst cfg) -> In (p, ch) cfg -> init_chans cfg co p = Some ch.
Proof.
  induction cfg as [|[q c] r IH]; intros co p ch ND Hin; [destruct Hin|].
  cbn [map fst] in ND. inversion ND as [|? ? Hn NDr]; subst. cbn [init_chans]. destruct Hin as [E|Hin].
  - inversion E; subst. rewrite init_chans_notin by exact Hn. unfold upd. rewrite N.eqb_refl. reflexivity.
  - apply IH; assumption.
Qed.
Lemma nodup_snd_inj (cfg : list (N * nat)) : NoDup (map snd cfg) -> forall p q ch, In (p, ch) cfg -> In (q, ch) cfg -> p = q.
Proof.
  induction cfg as [|[a c] r IH]; intros ND p q ch Hp Hq; [destruct Hp|].
  cbn [map snd] in ND. inversion ND as [|? ? Hn NDr]; subst.
  assert (Hout : forall z, In (z, c) r -> False).
  { intros z Hz. apply Hn. change c with (snd (z, c)). apply in_map. exact Hz. }
  destruct Hp as [Ep|Hp]; destruct Hq as [Eq|Hq].
  - congruence.
  - inversion Ep; subst. exfalso. eapply Hout; eauto.
  - inversion Eq; subst. exfalso. eapply Hout; eauto.
  - eapply IH; eauto.
Qed.
Lemma init_state_chan_inj dv cfg h bufs ocap : NoDup (map snd cfg) -> chan_inj (init_state dv cfg h bufs ocap).
Proof.
  intros ND p q ch Hp Hq. cbn [init_state chan_of] in Hp, Hq.
  destruct (init_chans_some _ _ _ _ Hp) as [Hp'|Hp']; [|discriminate].
  destruct (init_chans_some _ _ _ _ Hq) as [Hq'|Hq']; [|discriminate].
  eapply nodup_snd_inj; eauto.
Qed.
Lemma init_state_fblimit dv cfg h bufs ocap : (1 <= fblimit (init_state dv cfg h bufs ocap))%nat.
Proof.
  cbn [init_state fblimit]. unfold divide_with_min. cbn [N.eqb].
  destruct (N.ltb_spec (h / 10) 1) as [Hlt|Hge]; [cbn; lia|]. lia.
Qed.

(* what New() needs of the strategic distribution: shares sum to H and none is zero (v1 does not check this) *)
Definition strat_ok (dv : nat -> Divider) (cfg : list (N * nat)) (h : N) : Prop :=
  let sorted := sort_desc (map fst cfg) in
  sum_list (map (get (dv O sorted h [])) sorted) = h /\ forall p, In p sorted -> 1 <= get (dv O sorted h []) p.

Lemma init_state_InitL1 dv cfg h bufs ocap : dv_ok dv -> NoDup (map fst cfg) -> 1 <= h -> 1 <= ocap -> strat_ok dv cfg h ->
  InitL1 (init_state dv cfg h bufs ocap).
Proof.
  intros [Hwf _] ND Hh Hc [Hs Hpos]. constructor; [apply (init_state_Init1 dv Hwf); exact ND|exact Hh|exact Hs|exact Hpos|exact Hc].
Qed.

Theorem prio1_every_item_delivered_new : forall fixed dv cfg h bufs ocap tr lb,
  dv_ok dv -> NoDup (map fst cfg) -> NoDup (map snd cfg) -> 1 <= h -> h < two64 -> 1 <= ocap -> strat_ok dv cfg h ->
  execution fixed dv (init_state dv cfg h bufs ocap) tr lb ->
  F_sched fixed dv tr lb -> F_take tr lb -> F_rel tr lb -> F_tick lb ->
  forall i p ch x, In (p, ch) cfg -> In x (inq (tr i) ch) -> exists j, (i <= j)%nat /\ In (p, x) (delivered (tr j)).
Proof.
  intros fixed dv cfg h bufs ocap tr lb Hd ND1 ND2 Hh H64 Hc Hst Hex F1 F2 F3 F4 i p ch x Hin Hx.
  pose proof (init_state_InitL1 dv cfg h bufs ocap Hd ND1 Hh Hc Hst) as HI.
  assert (Hch : chan_of (init_state dv cfg h bufs ocap) p = Some ch) by (cbn [init_state chan_of]; apply init_chans_in; assumption).
  apply (prio1_every_item_delivered fixed dv _ tr lb Hd HI H64 (init_state_fblimit _ _ _ _ _) (init_state_chan_inj dv cfg h bufs ocap ND2)
           Hex F1 F2 F3 F4 i p ch x); auto.
  apply (in_chan _ (il_init _ HI)). rewrite Hch. discriminate.
Qed.
Print Assumptions prio1_every_item_delivered_new.

(* ... and with the built-in Fair divider nothing about the divider is left: at most h inputs, distinct priorities and channels *)
Lemma dv_example_ok : dv_ok dv_example.
Proof. split; [exact dv_example_wf|exact fair_sumrule]. Qed.
Lemma sort_desc_length l : length (sort_desc l) = length l.
Proof.
  assert (Hi : forall x l, length (insert_desc x l) = S (length l)).
  { intros x l0. induction l0 as [|y r IH]; cbn [insert_desc length]; [reflexivity|]. destruct (y <? x); cbn [length]; lia. }
  induction l as [|x r IH]; cbn [sort_desc length]; [reflexivity|]. rewrite Hi, IH. reflexivity.
Qed.
Theorem prio1_every_item_delivered_new_fair : forall fixed cfg h bufs ocap tr lb,
  NoDup (map fst cfg) -> NoDup (map snd cfg) -> cfg <> [] -> N.of_nat (length cfg) <= h -> h < two64 -> 1 <= ocap ->
  execution fixed dv_example (init_state dv_example cfg h bufs ocap) tr lb ->
  F_sched fixed dv_example tr lb -> F_take tr lb -> F_rel tr lb -> F_tick lb ->
  forall i p ch x, In (p, ch) cfg -> In x (inq (tr i) ch) -> exists j, (i <= j)%nat /\ In (p, x) (delivered (tr j)).
Proof.
  intros fixed cfg h bufs ocap tr lb ND1 ND2 Hne Hlen H64 Hc.
  assert (Hh : 1 <= h). { destruct cfg; [congruence|]. cbn [length] in Hlen. lia. }
  apply (prio1_every_item_delivered_new fixed dv_example cfg h bufs ocap tr lb dv_example_ok ND1 ND2 Hh H64 Hc).
  unfold strat_ok, dv_example. apply fair_shares.
  - apply nodup_sort_desc. exact ND1.
  - intros E. apply (f_equal (@length N)) in E. rewrite sort_desc_length, map_length in E. destruct cfg; [congruence|discriminate].
  - rewrite sort_desc_length, map_length. exact Hlen.
Qed.
Print Assumptions prio1_every_item_delivered_new_fair.

(* ================= 9. lasso executions (for the counterexample and the non-vacuity instances) ================= *)
(* The infinite execution is a lasso: a prefix, then a cycle that returns to the same state up to the ghost fields
   ncalls / calls; the divider ignores the call index. *)
Definition core (s : st) : st :=
  mkSt (H s) (prios s) (strategic s) (actual s) (tactic s) (chan_of s) (drained s) (inq s) (closed s) (buffered s)
       (outq s) (outcap s) (held s) (fbq s) (fblimit s) (stopped s) (graceful s) (cmds s) (pcs s) 0%nat
       (delivered s) [] (reads s) (dropped s) (written s).
Definition static_opb (op : env_op) : bool :=
  match op with StopCall | GracefulCall | AddCall _ _ _ | RmvCall _ => false | _ => true end.
Lemma static_opb_op op : static_opb op = true -> static_op op.
Proof. destruct op; cbn; intros E; try exact I; discriminate. Qed.
Definition step_opt (fixed : bool) (dv : nat -> Divider) (l : label) (s : st) : option st :=
  match l with
  | LSched o => sched_step fixed dv o s
  | LEnv op => if static_opb op then env_step s op else None
  | LStutter => Some s
  end.
Lemma step_opt_is_step fixed dv l s s' : step_opt fixed dv l s = Some s' -> is_step fixed dv s l s'.
Proof.
  destruct l as [o|op|]; cbn [step_opt is_step]; auto.
  - destruct (static_opb op) eqn:E; [|discriminate]. intros Hs. split; [apply static_opb_op; exact E|exact Hs].
  - intros E; inversion E; reflexivity.
Qed.

Section Lasso.
Variable fixed : bool.
Variable advd : Divider.
Definition cdv : nat -> Divider := fun _ => advd.

Lemma sim_step l s t s' : core s = core t -> step_opt fixed cdv l s = Some s' ->
  exists t', step_opt fixed cdv l t = Some t' /\ core s' = core t'.
Proof.
  intros Hc Hs. destruct s, t. unfold core in Hc. cbn in Hc. injection Hc; intros; subst. destruct l as [o|op|]; cbn [step_opt] in *.
  - unfold sched_step, step_calc, calc_base, step_recalc, do_cmd, strategic_of, chan_state, cdv in *. cbn in *.
    destruct_matches Hs; try discriminate; inversion Hs; subst; clear Hs; eexists; (split; [reflexivity|reflexivity]).
  - unfold env_step, chan_state in *. cbn in *.
    destruct_matches Hs; try discriminate; inversion Hs; subst; clear Hs; eexists; (split; [reflexivity|reflexivity]).
  - inversion Hs; subst. eexists; split; reflexivity.
Qed.

Variable s0 X : st.
Variable pre cyc : list label.
Variable bad : N * N.

(* obligations of a state w.r.t. the labels still ahead in the current segment *)
Definition Ok (s : st) (rest : list label) : Prop :=
  (outq s <> [] -> In (LEnv Take) rest) /\ (forall p x, In (p, x) (held s) -> In (LEnv (Release p)) rest) /\ ~ In bad (delivered s).
Lemma Ok_core s t rest : core s = core t -> Ok s rest -> Ok t rest.
Proof.
  intros Hc. unfold Ok.
  assert (E1 : outq s = outq t) by (apply (f_equal outq) in Hc; exact Hc).
  assert (E2 : held s = held t) by (apply (f_equal held) in Hc; exact Hc).
  assert (E3 : delivered s = delivered t) by (apply (f_equal delivered) in Hc; exact Hc).
  rewrite E1, E2, E3. auto.
Qed.

Fixpoint chain (rest : list label) (s : st) : Prop :=
  Ok s rest /\ match rest with [] => core s = core X | a :: r => exists s', step_opt fixed cdv a s = Some s' /\ chain r s' end.
Lemma chain_ok rest s : chain rest s -> Ok s rest.
Proof. destruct rest; cbn [chain]; tauto. Qed.
Lemma chain_cons a r s s' : Ok s (a :: r) -> step_opt fixed cdv a s = Some s' -> chain r s' -> chain (a :: r) s.
Proof. intros H1 H2 H3. cbn [chain]. split; [exact H1|]. exists s'. auto. Qed.
Lemma chain_nil s : Ok s [] -> core s = core X -> chain [] s.
Proof. intros H1 H2. cbn [chain]. auto. Qed.
Lemma chain_sim : forall rest s t, core s = core t -> chain rest s -> chain rest t.
Proof.
  induction rest as [|a r IH]; cbn [chain]; intros s t Hc [Hok Hr].
  - split; [eapply Ok_core; eauto|congruence].
  - split; [eapply Ok_core; eauto|]. destruct Hr as (s' & Hs & Hch). destruct (sim_step _ _ _ _ Hc Hs) as (t' & Ht & Hc').
    exists t'. split; [exact Ht|eapply IH; eauto].
Qed.

Hypothesis Hpre : chain pre s0.
Hypothesis Hcyc : chain cyc X.
Hypothesis Hsched : exists o, In (LSched o) cyc.
Hypothesis Htick : In (LEnv Tick) cyc.

Definition cfg := (st * list label)%type.
Definition eff (c : cfg) : list label := match snd c with [] => cyc | l => l end.
Definition lab (c : cfg) : label := hd LStutter (eff c).
Definition nxt (c : cfg) : cfg :=
  (match step_opt fixed cdv (lab c) (fst c) with Some s' => s' | None => fst c end, tl (eff c)).
Fixpoint conf (n : nat) : cfg := match n with O => (s0, pre) | S n' => nxt (conf n') end.
Definition ltr (n : nat) : st := fst (conf n).
Definition llb (n : nat) : label := lab (conf n).

Lemma cyc_nonempty : cyc <> [].
Proof. intros E. rewrite E in Hsched. destruct Hsched as [o []]. Qed.

Lemma chain_head rest s : chain rest s -> rest <> [] -> exists s', step_opt fixed cdv (hd LStutter rest) s = Some s' /\ chain (tl rest) s'.
Proof. destruct rest as [|a r]; cbn [chain hd tl]; intros [_ Hc] Hne; [contradiction|exact Hc]. Qed.
Lemma chain_boundary s : chain [] s -> chain cyc s.
Proof. cbn [chain]. intros [_ Hc]. apply (chain_sim _ X s); [symmetry; exact Hc|exact Hcyc]. Qed.
Lemma eff_nonempty c : eff c <> [].
Proof. unfold eff. destruct (snd c); [apply cyc_nonempty|discriminate]. Qed.
Lemma eff_chain c : chain (snd c) (fst c) -> chain (eff c) (fst c).
Proof. unfold eff. destruct (snd c) eqn:E; [apply chain_boundary|auto]. Qed.

Lemma conf_chain n : chain (snd (conf n)) (fst (conf n)) /\ exists s', step_opt fixed cdv (llb n) (ltr n) = Some s' /\ chain (tl (eff (conf n))) s'.
Proof.
  induction n as [|n [IH (s' & Hs & Hch)]].
  - split; [exact Hpre|]. apply chain_head; [apply eff_chain; exact Hpre|apply eff_nonempty].
  - assert (E : conf (S n) = (s', tl (eff (conf n)))).
    { cbn [conf]. unfold nxt. unfold llb, ltr in Hs. rewrite Hs. reflexivity. }
    assert (Hc : chain (snd (conf (S n))) (fst (conf (S n)))) by (rewrite E; exact Hch).
    split; [exact Hc|]. apply chain_head; [apply eff_chain; exact Hc|apply eff_nonempty].
Qed.

Lemma lasso_execution : execution fixed cdv s0 ltr llb.
Proof.
  constructor; [reflexivity|]. intros i. destruct (conf_chain i) as [_ (s' & Hs & _)].
  apply step_opt_is_step. rewrite Hs. unfold ltr. cbn [conf]. unfold nxt. unfold llb, ltr in Hs. rewrite Hs. reflexivity.
Qed.

Lemma conf_S_snd n : snd (conf (S n)) = tl (eff (conf n)).
Proof. reflexivity. Qed.

(* the labels ahead *)
Lemma ahead : forall k n, (k < length (eff (conf n)))%nat -> llb (n + k) = nth k (eff (conf n)) LStutter.
Proof.
  induction k as [|k IH]; intros n Hk.
  - rewrite Nat.add_0_r. unfold llb, lab. destruct (eff (conf n)); reflexivity.
  - destruct (eff (conf n)) as [|a r] eqn:Ee; [cbn [length] in Hk; lia|]. cbn [length] in Hk. cbn [nth].
    replace (n + S k)%nat with (S n + k)%nat by lia.
    assert (Er : eff (conf (S n)) = r).
    { unfold eff at 1. rewrite conf_S_snd, Ee. cbn [tl]. destruct r; [cbn [length] in Hk; lia|reflexivity]. }
    rewrite IH; rewrite Er; [reflexivity|lia].
Qed.
Lemma ahead_in l n : In l (eff (conf n)) -> exists j, (n <= j)%nat /\ llb j = l.
Proof.
  intros Hin. destruct (In_nth _ _ LStutter Hin) as (k & Hk & En). exists (n + k)%nat. split; [lia|]. rewrite ahead; auto.
Qed.
Lemma boundary : forall m n, length (snd (conf n)) = m -> exists j, (n <= j)%nat /\ snd (conf j) = [].
Proof.
  induction m as [|m IH]; intros n Hm.
  - exists n. split; [lia|]. destruct (snd (conf n)); [reflexivity|discriminate].
  - destruct (IH (S n)) as (j & Hj & E).
    + rewrite conf_S_snd. unfold eff. destruct (snd (conf n)) as [|a r]; [discriminate|]. cbn [tl]. cbn [length] in Hm. lia.
    + exists j. split; [lia|exact E].
Qed.
Lemma cyc_label l i : In l cyc -> exists j, (i <= j)%nat /\ llb j = l.
Proof.
  intros Hin. destruct (boundary _ i eq_refl) as (m & Hm & E).
  destruct (ahead_in l m) as (j & Hj & El); [unfold eff; rewrite E; exact Hin|]. exists j. split; [lia|exact El].
Qed.

Lemma lasso_ok n : Ok (ltr n) (snd (conf n)).
Proof. destruct (conf_chain n) as [Hc _]. apply chain_ok. exact Hc. Qed.

Lemma lasso_F_sched : F_sched fixed cdv ltr llb.
Proof. intros i _. destruct Hsched as [o Ho]. destruct (cyc_label _ i Ho) as (j & Hj & El). exists j. split; [exact Hj|exists o; exact El]. Qed.
Lemma lasso_F_tick : F_tick llb.
Proof. intros i. apply cyc_label. exact Htick. Qed.
Lemma lasso_F_take : F_take ltr llb.
Proof.
  intros i Hne. destruct (lasso_ok i) as (Ht & _). specialize (Ht Hne). apply ahead_in. unfold eff.
  destruct (snd (conf i)); [destruct Ht|exact Ht].
Qed.
Lemma lasso_F_rel : F_rel ltr llb.
Proof.
  intros i p x Hin. destruct (lasso_ok i) as (_ & Hr & _). specialize (Hr p x Hin). apply ahead_in. unfold eff.
  destruct (snd (conf i)); [destruct Hr|exact Hr].
Qed.
Lemma lasso_never j : ~ In bad (delivered (ltr j)).
Proof. destruct (lasso_ok j) as (_ & _ & Hb). exact Hb. Qed.
End Lasso.

Fixpoint run_l (fixed : bool) (dv : nat -> Divider) (l : list label) (s : st) : option st :=
  match l with [] => Some s | a :: r => match step_opt fixed dv a s with Some s' => run_l fixed dv r s' | None => None end end.
(* a greedy fair environment: the scheduler moves (oracle 0) when it can; otherwise take what is offered, release what is held, let
   the clock tick *)
Definition gpick (fixed : bool) (dv : nat -> Divider) (s : st) : label :=
  match sched_step fixed dv 0 s with Some _ => LSched 0 | None =>
  match outq s with _ :: _ => LEnv Take | [] => match held s with (p, _) :: _ => LEnv (Release p) | [] => LEnv Tick end end end.
Fixpoint drive (fixed : bool) (dv : nat -> Divider) (n : nat) (s : st) : list label :=
  match n with O => [] | S n' => let l := gpick fixed dv s in
    l :: match step_opt fixed dv l s with Some s' => drive fixed dv n' s' | None => [] end end.

Ltac in_tac := repeat (first [left; reflexivity | right]).
Ltac ok_tac :=
  split; [ first [ (intros _; solve [in_tac]) | (let Hc := fresh in intros Hc; exfalso; apply Hc; reflexivity) ]
  | split; [ let p := fresh in let x := fresh in let Hin := fresh in intros p x Hin; vm_compute in Hin;
             repeat (destruct Hin as [Hin|Hin]; [inversion Hin; subst; solve [in_tac] | ]); destruct Hin
           | vm_compute; let Hin := fresh in intros Hin; repeat (destruct Hin as [Hin|Hin]; [discriminate|]); exact Hin ] ].
Ltac chain_tac :=
  lazymatch goal with
  | |- chain ?f ?d ?X ?b (?a :: ?r) ?s =>
      let res := eval vm_compute in (step_opt f (cdv d) a s) in
      lazymatch res with
      | Some ?s1 => apply (chain_cons f d X b a r s s1); [ok_tac|vm_compute; reflexivity|chain_tac]
      end
  | |- chain ?f ?d ?X ?b [] ?s => apply (chain_nil f d X b s); [ok_tac|vm_compute; reflexivity]
  end.

(* ================= 9a. the hypothesis chan_inj cannot be dropped ================= *)
(* New() with priorities 2 and 1 both registered on channel 0 (v1 does not forbid it), Fair divider, H = 2: the only item written to
   channel 0 is read under priority 2 and so is never delivered under priority 1, although it sits in "the input of priority 1".
   Every other hypothesis of prio1_every_item_delivered holds (the execution is fair in every sense required). *)
Definition sh_s0 : st := init_state dv_example [(2, 0%nat); (1, 0%nat)] 2 (fun _ => true) 2.
Lemma sh_initL1 : InitL1 sh_s0.
Proof.
  constructor.
  - apply (init_state_Init1 dv_example dv_example_wf). cbn [map fst].
    repeat constructor; cbn [In]; intros Hx; repeat (destruct Hx as [Hx|Hx]; try discriminate); auto.
  - vm_compute; discriminate.
  - vm_compute; reflexivity.
  - intros p Hp. vm_compute in Hp. destruct Hp as [<-|[<-|[]]]; vm_compute; discriminate.
  - vm_compute; discriminate.
Qed.
Definition sh_s1 : st := Eval vm_compute in match run_l true dv_example [LEnv (Put 0 7)] sh_s0 with Some s => s | None => sh_s0 end.
Definition sh_pre : list label := Eval vm_compute in LEnv (Put 0 7) :: drive true dv_example 53 sh_s1.
Definition sh_X : st := Eval vm_compute in match run_l true dv_example sh_pre sh_s0 with Some s => s | None => sh_s0 end.
Definition sh_cyc : list label := Eval vm_compute in drive true dv_example 16 sh_X.
Example sh_X_view : pcs sh_X = Calc /\ actual sh_X = [(2, 0)] /\ fbq sh_X = [] /\ outq sh_X = [] /\ held sh_X = [] /\
  inq sh_X 0%nat = [] /\ delivered sh_X = [(2, 7)] /\ chan_of sh_s0 2 = Some 0%nat /\ chan_of sh_s0 1 = Some 0%nat.
Proof. vm_compute. repeat split; reflexivity. Qed.
Lemma sh_chain_pre fixed : chain fixed fair sh_X (1, 7) sh_pre sh_s0.
Proof. unfold sh_pre. chain_tac. Qed.
Lemma sh_chain_cyc fixed : chain fixed fair sh_X (1, 7) sh_cyc sh_X.
Proof. unfold sh_cyc. chain_tac. Qed.
Lemma sh_sched_in : exists o, In (LSched o) sh_cyc.
Proof. exists 0%nat. left; reflexivity. Qed.
Lemma sh_tick_in : In (LEnv Tick) sh_cyc.
Proof. unfold sh_cyc. in_tac. Qed.
Definition sh_tr (fixed : bool) : nat -> st := ltr fixed fair sh_s0 sh_pre sh_cyc.
Definition sh_lb (fixed : bool) : nat -> label := llb fixed fair sh_s0 sh_pre sh_cyc.

Theorem prio1_liveness_needs_distinct_channels : forall fixed, exists dv s0 tr lb,
  dv_ok dv /\ InitL1 s0 /\ H s0 < two64 /\ (1 <= fblimit s0)%nat /\ execution fixed dv s0 tr lb /\
  F_sched fixed dv tr lb /\ F_take tr lb /\ F_rel tr lb /\ F_tick lb /\
  exists i p ch x, In p (prios s0) /\ chan_of s0 p = Some ch /\ In x (inq (tr i) ch) /\ forall j, ~ In (p, x) (delivered (tr j)).
Proof.
  intros fixed. exists (cdv fair), sh_s0, (sh_tr fixed), (sh_lb fixed).
  split; [exact dv_example_ok|]. split; [exact sh_initL1|]. split; [reflexivity|]. split; [vm_compute; lia|].
  split; [exact (lasso_execution _ _ _ _ _ _ _ (sh_chain_pre fixed) (sh_chain_cyc fixed) sh_sched_in)|].
  split; [exact (lasso_F_sched _ _ _ _ _ sh_sched_in)|].
  split; [exact (lasso_F_take _ _ _ _ _ _ _ (sh_chain_pre fixed) (sh_chain_cyc fixed) sh_sched_in)|].
  split; [exact (lasso_F_rel _ _ _ _ _ _ _ (sh_chain_pre fixed) (sh_chain_cyc fixed) sh_sched_in)|].
  split; [exact (lasso_F_tick _ _ _ _ _ sh_tick_in)|].
  exists 1%nat, 1, 0%nat, 7. split; [right; left; reflexivity|]. split; [reflexivity|]. split; [vm_compute; auto|].
  exact (lasso_never _ _ _ _ _ _ _ (sh_chain_pre fixed) (sh_chain_cyc fixed) sh_sched_in).
Qed.
Print Assumptions prio1_liveness_needs_distinct_channels.

(* the same execution read positively: the general theorem applies, the item is delivered under the other priority of the channel *)
Example sh_delivered_under_other : forall fixed, exists j q, chan_of sh_s0 q = Some 0%nat /\ In (q, 7) (delivered (sh_tr fixed j)).
Proof.
  intros fixed.
  destruct (prio1_every_item_delivered_chan fixed (cdv fair) sh_s0 (sh_tr fixed) (sh_lb fixed) dv_example_ok sh_initL1) with
    (i := 1%nat) (p := 1) (ch := 0%nat) (x := 7) as (j & q & _ & _ & Hq & Hd).
  - reflexivity.
  - exact (lasso_execution _ _ _ _ _ _ _ (sh_chain_pre fixed) (sh_chain_cyc fixed) sh_sched_in).
  - exact (lasso_F_sched _ _ _ _ _ sh_sched_in).
  - exact (lasso_F_take _ _ _ _ _ _ _ (sh_chain_pre fixed) (sh_chain_cyc fixed) sh_sched_in).
  - exact (lasso_F_rel _ _ _ _ _ _ _ (sh_chain_pre fixed) (sh_chain_cyc fixed) sh_sched_in).
  - exact (lasso_F_tick _ _ _ _ _ sh_tick_in).
  - right; left; reflexivity.
  - reflexivity.
  - vm_compute; auto.
  - exists j, q. auto.
Qed.

(* ================= 9b. the hypothesis `1 <= fblimit s0` is NOT needed in v1 ================= *)
(* The v2 counterexample (Prio2Live.prio2_liveness_needs_fblimit) does not port: with a feedback limit of 0 getLimitedFeedback()
   reads nothing, but the top of the v1 loop (pc Top, the select with default of `loop`) consumes one pending release on every turn,
   so a release cannot stay in the feedback channel for ever.  Theorems prio1_*_w above have no hypothesis on fblimit.
   The scenario of the v2 counterexample, replayed on v1 (feedback limit 0, the divider gives every dividend to priority 2, two items
   for priority 1 which has one handler): item 8 IS delivered. *)
Definition adv_d : Divider := fun _ n d => add d 2 n.
Lemma adv_ok : dv_ok (cdv adv_d).
Proof.
  split; intros k ps n d ND; unfold cdv, adv_d.
  - apply nodup_keys_add; exact ND.
  - left. apply sum_add; exact ND.
Qed.
Definition z_co : N -> option nat := fun p => if p =? 2 then Some 0%nat else if p =? 1 then Some 1%nat else None.
Definition z_s0 : st :=
  mkSt 2 [2; 1] [(2, 1); (1, 1)] [] [] z_co (fun _ => false) (fun _ => []) (fun _ => false) (fun _ => true)
       [] 1 [] [] 0%nat false false [] Top 1%nat [] [([2; 1], 2)] [] [] (fun _ => []).
Lemma z_initL1 : InitL1 z_s0.
Proof.
  constructor; [|vm_compute; discriminate|reflexivity| |vm_compute; discriminate].
  - constructor; cbn; auto.
    + repeat constructor; cbn [In]; intros Hx; repeat (destruct Hx as [Hx|Hx]; try discriminate); auto.
    + repeat constructor; cbn [In]; intros Hx; repeat (destruct Hx as [Hx|Hx]; try discriminate); auto.
    + intros p. unfold z_co. destruct (N.eqb_spec p 2) as [->|H2]; [split; [discriminate|auto]|].
      destruct (N.eqb_spec p 1) as [->|H1]; [split; [discriminate|auto]|].
      split; [intros [E|[E|[]]]; congruence|congruence].
  - intros p Hp. cbn in Hp. destruct Hp as [<-|[<-|[]]]; vm_compute; discriminate.
Qed.
Lemma z_chan_inj : chan_inj z_s0.
Proof.
  intros p q ch. cbn [z_s0 chan_of]. unfold z_co.
  destruct (N.eqb_spec p 2) as [->|]; destruct (N.eqb_spec q 2) as [->|]; try destruct (N.eqb_spec p 1) as [->|];
    try destruct (N.eqb_spec q 1) as [->|]; intros E1 E2; congruence.
Qed.
Definition z_puts : list label := [LEnv (Put 1 7); LEnv (Put 1 8)].
Definition z_s2 : st := Eval vm_compute in match run_l true (cdv adv_d) z_puts z_s0 with Some s => s | None => z_s0 end.
Definition z_pre : list label := Eval vm_compute in z_puts ++ drive true (cdv adv_d) 87 z_s2.
Definition z_X : st := Eval vm_compute in match run_l true (cdv adv_d) z_pre z_s0 with Some s => s | None => z_s0 end.
Definition z_cyc : list label := Eval vm_compute in drive true (cdv adv_d) 16 z_X.
Lemma z_chain_pre fixed : chain fixed adv_d z_X (99, 99) z_pre z_s0.
Proof. unfold z_pre. chain_tac. Qed.
Lemma z_chain_cyc fixed : chain fixed adv_d z_X (99, 99) z_cyc z_X.
Proof. unfold z_cyc. chain_tac. Qed.
Lemma z_sched_in : exists o, In (LSched o) z_cyc.
Proof. exists 0%nat. left; reflexivity. Qed.
Lemma z_tick_in : In (LEnv Tick) z_cyc.
Proof. unfold z_cyc. in_tac. Qed.
Definition z_tr (fixed : bool) : nat -> st := ltr fixed adv_d z_s0 z_pre z_cyc.
Definition z_lb (fixed : bool) : nat -> label := llb fixed adv_d z_s0 z_pre z_cyc.

Theorem prio1_liveness_does_not_need_fblimit : forall fixed,
  dv_ok (cdv adv_d) /\ InitL1 z_s0 /\ H z_s0 < two64 /\ fblimit z_s0 = 0%nat /\ chan_inj z_s0 /\
  execution fixed (cdv adv_d) z_s0 (z_tr fixed) (z_lb fixed) /\
  F_sched fixed (cdv adv_d) (z_tr fixed) (z_lb fixed) /\ F_take (z_tr fixed) (z_lb fixed) /\ F_rel (z_tr fixed) (z_lb fixed) /\
  F_tick (z_lb fixed) /\
  (forall i p ch x, chan_of z_s0 p = Some ch -> In x (inq (z_tr fixed i) ch) ->
     exists j, (i <= j)%nat /\ In (p, x) (delivered (z_tr fixed j))) /\
  inq (z_tr fixed 2) 1%nat = [7; 8] /\ delivered (z_tr fixed 60) = [(1, 7); (1, 8)].
Proof.
  intros fixed.
  pose proof (lasso_execution _ _ _ _ _ _ _ (z_chain_pre fixed) (z_chain_cyc fixed) z_sched_in) as Hex.
  pose proof (lasso_F_sched fixed adv_d z_s0 z_pre z_cyc z_sched_in) as F1.
  pose proof (lasso_F_take _ _ _ _ _ _ _ (z_chain_pre fixed) (z_chain_cyc fixed) z_sched_in) as F2.
  pose proof (lasso_F_rel _ _ _ _ _ _ _ (z_chain_pre fixed) (z_chain_cyc fixed) z_sched_in) as F3.
  pose proof (lasso_F_tick fixed adv_d z_s0 z_pre z_cyc z_tick_in) as F4.
  split; [exact adv_ok|]. split; [exact z_initL1|]. split; [reflexivity|]. split; [reflexivity|]. split; [exact z_chan_inj|].
  split; [exact Hex|]. split; [exact F1|]. split; [exact F2|]. split; [exact F3|]. split; [exact F4|]. split.
  - intros i p ch x Hch Hin.
    apply (prio1_every_item_delivered_w fixed (cdv adv_d) z_s0 (z_tr fixed) (z_lb fixed) adv_ok z_initL1 eq_refl Hex F1 F2 F3
             (F_tick_weaken _ _ F4) i p ch x Hch); [|exact Hin].
    intros q Hq. exact (z_chan_inj q p ch Hq Hch).
  - split; vm_compute; reflexivity.
Qed.
Print Assumptions prio1_liveness_does_not_need_fblimit.

(* ================= 10. non-vacuity: a fair infinite execution from New() with the Fair divider ================= *)
(* H = 2, priorities 2 > 1 on channels 0 and 1, unbuffered inputs (the scheduler blocks in iou on an empty input until the
   interrupter fires: two ticks): one item for priority 2, two for priority 1; a greedy fair environment; after everything is
   delivered and released the discipline idles for ever. *)
Definition pos_cfg : list (N * nat) := [(2, 0%nat); (1, 1%nat)].
Definition pos_s0 : st := init_state dv_example pos_cfg 2 (fun _ => false) 2.
Definition pos_puts : list label := [LEnv (Put 0 7); LEnv (Put 1 8); LEnv (Put 1 9)].
Definition pos_s2 : st := Eval vm_compute in match run_l true dv_example pos_puts pos_s0 with Some s => s | None => pos_s0 end.
Definition pos_pre : list label := Eval vm_compute in pos_puts ++ drive true dv_example 84 pos_s2.
Definition pos_X : st := Eval vm_compute in match run_l true dv_example pos_pre pos_s0 with Some s => s | None => pos_s0 end.
Definition pos_cyc : list label := Eval vm_compute in drive true dv_example 18 pos_X.
Example pos_X_view : pcs pos_X = Calc /\ actual pos_X = [(2, 0); (1, 0)] /\ fbq pos_X = [] /\ outq pos_X = [] /\ held pos_X = [] /\
  delivered pos_X = [(2, 7); (1, 8); (1, 9)].
Proof. vm_compute. repeat split; reflexivity. Qed.
Lemma pos_chain_pre fixed : chain fixed fair pos_X (99, 99) pos_pre pos_s0.
Proof. unfold pos_pre. chain_tac. Qed.
Lemma pos_chain_cyc fixed : chain fixed fair pos_X (99, 99) pos_cyc pos_X.
Proof. unfold pos_cyc. chain_tac. Qed.
Lemma pos_sched_in : exists o, In (LSched o) pos_cyc.
Proof. exists 0%nat. left; reflexivity. Qed.
Lemma pos_tick_in : In (LEnv Tick) pos_cyc.
Proof. unfold pos_cyc. in_tac. Qed.
Definition pos_tr (fixed : bool) : nat -> st := ltr fixed fair pos_s0 pos_pre pos_cyc.
Definition pos_lb (fixed : bool) : nat -> label := llb fixed fair pos_s0 pos_pre pos_cyc.

(* the liveness theorem (the `_new_fair` form: every hypothesis about s0 discharged) instantiated on this execution *)
Example pos_every_item : forall fixed i p ch x, In (p, ch) pos_cfg -> In x (inq (pos_tr fixed i) ch) ->
  exists j, (i <= j)%nat /\ In (p, x) (delivered (pos_tr fixed j)).
Proof.
  intros fixed.
  apply (prio1_every_item_delivered_new_fair fixed pos_cfg 2 (fun _ => false) 2 (pos_tr fixed) (pos_lb fixed)).
  - repeat constructor; cbn [In]; intros Hx; repeat (destruct Hx as [Hx|Hx]; try discriminate); auto.
  - repeat constructor; cbn [In]; intros Hx; repeat (destruct Hx as [Hx|Hx]; try discriminate); auto.
  - discriminate.
  - vm_compute; discriminate.
  - reflexivity.
  - vm_compute; discriminate.
  - exact (lasso_execution _ _ _ _ _ _ _ (pos_chain_pre fixed) (pos_chain_cyc fixed) pos_sched_in).
  - exact (lasso_F_sched _ _ _ _ _ pos_sched_in).
  - exact (lasso_F_take _ _ _ _ _ _ _ (pos_chain_pre fixed) (pos_chain_cyc fixed) pos_sched_in).
  - exact (lasso_F_rel _ _ _ _ _ _ _ (pos_chain_pre fixed) (pos_chain_cyc fixed) pos_sched_in).
  - exact (lasso_F_tick _ _ _ _ _ pos_tick_in).
Qed.
Example pos_items : forall fixed, inq (pos_tr fixed 3) 0%nat = [7] /\ inq (pos_tr fixed 3) 1%nat = [8; 9] /\
  (exists j, In (2, 7) (delivered (pos_tr fixed j))) /\ (exists j, In (1, 9) (delivered (pos_tr fixed j))) /\
  delivered (pos_tr fixed 50) = [(2, 7); (1, 8); (1, 9)].
Proof.
  intros fixed. split; [vm_compute; reflexivity|]. split; [vm_compute; reflexivity|]. split; [|split].
  - destruct (pos_every_item fixed 3%nat 2 0%nat 7) as (j & _ & Hd); [left; reflexivity|vm_compute; auto|]. exists j; exact Hd.
  - destruct (pos_every_item fixed 3%nat 1 1%nat 9) as (j & _ & Hd); [right; left; reflexivity|vm_compute; auto|]. exists j; exact Hd.
  - vm_compute. reflexivity.
Qed.
Print Assumptions pos_every_item.
Example pos_calc_infinitely_often : forall fixed i, exists j, (i <= j)%nat /\ pcs (pos_tr fixed j) = Calc.
Proof.
  intros fixed.
  apply (prio1_calc_infinitely_often fixed (cdv fair) pos_s0 (pos_tr fixed) (pos_lb fixed) dv_example_ok).
  - apply (init_state_InitL1 dv_example pos_cfg 2 (fun _ => false) 2 dv_example_ok).
    + repeat constructor; cbn [In]; intros Hx; repeat (destruct Hx as [Hx|Hx]; try discriminate); auto.
    + vm_compute; discriminate.
    + vm_compute; discriminate.
    + split; [vm_compute; reflexivity|]. intros p Hp. vm_compute in Hp. destruct Hp as [<-|[<-|[]]]; vm_compute; discriminate.
  - reflexivity.
  - exact (lasso_execution _ _ _ _ _ _ _ (pos_chain_pre fixed) (pos_chain_cyc fixed) pos_sched_in).
  - exact (lasso_F_sched _ _ _ _ _ pos_sched_in).
  - exact (lasso_F_take _ _ _ _ _ _ _ (pos_chain_pre fixed) (pos_chain_cyc fixed) pos_sched_in).
  - exact (lasso_F_rel _ _ _ _ _ _ _ (pos_chain_pre fixed) (pos_chain_cyc fixed) pos_sched_in).
  - exact (lasso_F_tick _ _ _ _ _ pos_tick_in).
Qed.

(* ================= 11. about the formulation of F_sched ================= *)
(* An enabled scheduler stays enabled under every (static) environment step: the environment only adds items, closes inputs, takes
   from the output, appends to the feedback channel; a clock tick changes the pc only when the scheduler is NOT enabled.  Hence
   F_sched ("enabled now => a scheduler step now or later") is ordinary weak fairness.  In the Quiet states of these executions the
   oracle does not matter (sched_step_sstep), so "some oracle enables a step" = "every oracle enables a step". *)
Lemma sstep_enabled_stable dv s op s' : (exists s1, sstep dv s = Some s1) -> static_op op -> env_step s op = Some s' ->
  exists s2, sstep dv s' = Some s2.
Proof.
  intros [s1 He] Hop Hs.
  assert (Hq : ~ is_move s (LEnv op)).
  { intros [[o E]|[E Ht]]; [discriminate|]. inversion E; subst op. unfold tick_moves in Ht. unfold sstep in He.
    destruct (pcs s) eqn:Epc; try discriminate. unfold read_blocked in Ht.
    destruct (get (tactic s) p =? 0); [destruct (chan_of s p); discriminate|]. destruct (chan_of s p) as [c|]; [|discriminate].
    destruct (inq s c); [|rewrite !andb_false_r in Ht; discriminate].
    destruct (closed s c); [rewrite !andb_false_r in Ht; discriminate|]. destruct (buffered s c); discriminate. }
  assert (Hst : is_step true dv s (LEnv op) s') by (cbn [is_step]; auto).
  pose proof (quiet_step true dv s (LEnv op) s' Hst Hq) as Hqr. pose proof (quiet_chan true dv s (LEnv op) s' Hst Hq) as Hch.
  destruct Hqr as [Hstat Epc Et Ea _ Edr _ Hinq [l Hf] Hcl _]. destruct Hstat as (_ & _ & _ & Ecap & _ & Ebuf & Eco & _).
  unfold sstep in *. rewrite Epc. destruct (pcs s) eqn:Epc0.
  - destruct (fbq s'); eexists; reflexivity.
  - eexists; reflexivity.
  - destruct (fbq s) as [|q r] eqn:Ef; [discriminate|]. rewrite Hf. cbn [app]. eexists; reflexivity.
  - destruct rest; eexists; reflexivity.
  - rewrite Et, Eco. destruct (get (tactic s) p =? 0); [eexists; reflexivity|]. destruct (chan_of s p) as [c|]; [|eexists; reflexivity].
    destruct (Hinq c) as [l' El]. rewrite El. destruct (inq s c) as [|x qq] eqn:Ei; [|cbn [app]; eexists; reflexivity].
    cbn [app]. destruct l'; [|eexists; reflexivity].
    destruct (closed s c) eqn:Ec; [rewrite (Hcl c Ec); eexists; reflexivity|].
    rewrite Ebuf. destruct (buffered s c); [|discriminate]. destruct (closed s' c); eexists; reflexivity.
  - rewrite Ecap. destruct (N.ltb_spec (N.of_nat (length (outq s))) (outcap s)) as [Hlt|]; [|discriminate].
    assert (Hle : (length (outq s') <= length (outq s))%nat).
    { destruct Hch as [(_ & px & q & E1 & E2 & _)|[(p0 & h & _ & _ & _ & _ & E)|(E & _)]]; [rewrite E1, E2; cbn [length]; lia|rewrite E; lia|rewrite E; lia]. }
    destruct (N.ltb_spec (N.of_nat (length (outq s'))) (outcap s)); [eexists; reflexivity|lia].
  - eexists; reflexivity.
  - destruct (proc =? 0); eexists; reflexivity.
  - discriminate.
  - destruct k; [|destruct (fbq s')]; eexists; reflexivity.
  - rewrite Ea. destruct (sum (actual s) =? 0); [eexists; reflexivity|].
    destruct (fbq s) as [|q r] eqn:Ef; [discriminate|]. rewrite Hf. cbn [app]. eexists; reflexivity.
  - discriminate.
Qed.

Lemma sched_enabled_stable fixed dv s op s' : Quiet s -> (exists o s1, sched_step fixed dv o s = Some s1) -> static_op op ->
  env_step s op = Some s' -> forall o, exists s2, sched_step fixed dv o s' = Some s2.
Proof.
  intros HQ (o1 & s1 & He) Hop Hs o. rewrite (sched_step_sstep fixed dv o1 s HQ) in He.
  assert (HQ' : Quiet s') by (eapply static_Quiet; [eapply env_step_static; eauto|exact HQ]).
  rewrite (sched_step_sstep fixed dv o s' HQ'). eapply sstep_enabled_stable; eauto.
Qed.
Print Assumptions execution_sreachable.
Print Assumptions sched_enabled_stable.
Print Assumptions sh_delivered_under_other.
Print Assumptions pos_calc_infinitely_often.
