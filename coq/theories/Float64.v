(* IEEE-754 binary64 as used by the Rate divider and the suitability helpers:
   float64(uint), /, *, -, math.Abs, math.Round, uint(float64), comparison.  Flocq 4.x BinarySingleNaN.
   Everything here (already the definitions) depends on the standard-library axioms that Flocq's use of
   Reals brings in: ClassicalDedekindReals.sig_forall_dec, sig_not_dec, functional_extensionality_dep,
   Classical_Prop.classic.  They are confined to theorems about the float instances. *)
From Coq Require Import ZArith NArith Lia.
From Flocq Require Import Core BinarySingleNaN.
Open Scope Z_scope.

Definition prec := 53%Z.
Definition emax := 1024%Z.
#[global] Instance Hprec : Prec_gt_0 prec.           Proof. unfold Prec_gt_0, prec; lia. Qed.
#[global] Instance Hmax  : Prec_lt_emax prec emax.   Proof. unfold Prec_lt_emax, prec, emax; lia. Qed.
Definition b64 := binary_float prec emax.

Definition of_Z (z : Z) : b64 := binary_normalize prec emax Hprec Hmax mode_NE z 0 false. (* float64(uint) *)
Definition fdiv (x y : b64) : b64 := Bdiv mode_NE x y.
Definition fmul (x y : b64) : b64 := Bmult mode_NE x y.
Definition fsub (x y : b64) : b64 := Bminus mode_NE x y.
Definition fabs (x : b64) : b64 := Babs x.
Definition round_away (x : b64) : b64 := Bnearbyint mode_NA x.                              (* math.Round *)
Definition fgt (x y : b64) : bool := Bltb y x.                                             (* x > y, false on NaN *)

(* uint(f) for finite f (truncation toward zero); NaN/Inf are outside the modelled domain (returns 0) *)
Definition to_Z (x : b64) : Z :=
  match x with
  | B754_finite s m e _ =>
      let mag := if (0 <=? e)%Z then Zpos m * 2 ^ e else Zpos m / 2 ^ (- e) in
      if s then - mag else mag
  | _ => 0
  end.

(* the rounded proportional part of Rate: uint(math.Round(float64(dividend)/float64(divider) * float64(priority))) *)
Definition part_f (d S p : N) : N :=
  Z.to_N (to_Z (round_away (fmul (fdiv (of_Z (Z.of_N d)) (of_Z (Z.of_N S))) (of_Z (Z.of_N p))))).
