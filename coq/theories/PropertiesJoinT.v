(* Property theorems for the join / unite disciplines, timed part (C09 C10). *)
From Coq Require Import List ZArith Bool. From Cqos Require Import Join JoinTP. Import ListNotations. Open Scope Z_scope.
Theorem C09_short_not_early :
  forall (c : jcfg) (t0 : Z) (evs : list jev) (s : jst) (o : list emission),
         wf_cfg c ->
         0 < timeout c ->
         no_stop evs ->
         jrun c (jinit t0) t0 evs = Some (s, o) ->
         forall (pre : list (Z * list elem * bool * cause)) (t : Z) (b : list elem) 
           (own : bool) (post : list (Z * list elem * bool * cause)),
         o = pre ++ (t, b, own, Timeout) :: post ->
         t0 + timeout c <= t /\
         (forall (t' : Z) (b' : list elem) (own' : bool) (why' : cause),
          List.In (t', b', own', why') pre -> t' + timeout c <= t).
Proof. exact @short_not_early. Qed.
Print Assumptions C09_short_not_early.

Theorem C10_residence_bound :
  forall (c : jcfg) (t0 : Z) (evs : list jev) (s : jst) (o : list emission),
         wf_cfg c ->
         0 < interval c ->
         interval c <= timeout c ->
         no_stop evs ->
         stamped evs ->
         prompt evs ->
         ideal c t0 evs ->
         jrun c (jinit t0) t0 evs = Some (s, o) ->
         forall (t : Z) (b : list elem) (own : bool) (why : cause) (x a : Z),
         List.In (t, b, own, why) o -> List.In (x, a) b -> t - a <= timeout c + interval c.
Proof. exact @residence_bound. Qed.
Print Assumptions C10_residence_bound.

Theorem C10_interval_bound :
  forall tmo inacc i : Z,
         calc_interval false tmo inacc = inl i ->
         0 < tmo -> 1 <= inacc <= 100 -> 0 < i /\ i * (100 / inacc) <= tmo /\ 1 <= 100 / inacc.
Proof. exact @interval_bound. Qed.
Print Assumptions C10_interval_bound.

Theorem C10_interval_bound_sum :
  forall tmo inacc i : Z,
         calc_interval false tmo inacc = inl i ->
         0 < tmo -> 1 <= inacc <= 100 -> (tmo + i) * (100 / inacc) <= tmo * (100 / inacc + 1).
Proof. exact @interval_bound_sum. Qed.
Print Assumptions C10_interval_bound_sum.

Theorem C10_interval_bound_v1 :
  forall tmo inacc i : Z,
         calc_interval true tmo inacc = inl i ->
         0 < tmo ->
         1 <= inacc <= 100 -> reliably_measurable <= i /\ i * (100 / inacc) <= tmo /\ 1 <= 100 / inacc.
Proof. exact @interval_bound_v1. Qed.
Print Assumptions C10_interval_bound_v1.

Theorem C10_error_inaccuracy_zero :
  forall (v1 : bool) (tmo inacc : Z), 0 < tmo -> calc_interval v1 tmo inacc = inr 1 <-> inacc = 0.
Proof. exact @calc_interval_error1. Qed.
Print Assumptions C10_error_inaccuracy_zero.

Theorem C10_error_inaccuracy_too_big :
  forall (v1 : bool) (tmo inacc : Z), 0 < tmo -> calc_interval v1 tmo inacc = inr 2 <-> 100 < inacc.
Proof. exact @calc_interval_error2. Qed.
Print Assumptions C10_error_inaccuracy_too_big.

Theorem C10_error_timeout_too_small_v2 :
  forall tmo inacc : Z,
         0 < tmo -> 1 <= inacc <= 100 -> calc_interval false tmo inacc = inr 3 <-> tmo / (100 / inacc) = 0.
Proof. exact @calc_interval_error3_v2. Qed.
Print Assumptions C10_error_timeout_too_small_v2.

Theorem C10_error_timeout_too_small_v1 :
  forall tmo inacc : Z,
         0 < tmo ->
         1 <= inacc <= 100 ->
         calc_interval true tmo inacc = inr 3 <-> tmo / (100 / inacc) < reliably_measurable.
Proof. exact @calc_interval_error3_v1. Qed.
Print Assumptions C10_error_timeout_too_small_v1.

Theorem C10_no_timeout :
  forall (v1 : bool) (tmo inacc : Z), tmo <= 0 -> calc_interval v1 tmo inacc = inl 0.
Proof. exact @calc_interval_no_timeout. Qed.
Print Assumptions C10_no_timeout.

