(* The constants the models use are the constants of the current Go sources: SrcConsts.v is regenerated from /repo on every run
   (tools/srcconsts evaluates the constant declarations from the AST), and every lemma below is closed by computation.  A changed
   constant breaks the lemma that ties it, i.e. a proof obligation of the properties that depend on it.  One file per discipline,
   so that a changed constant of one discipline does not touch the obligations of another. *)
From Coq Require Import List ZArith NArith Bool.
From Cqos Require Import Base Divider Sched Prio2 SrcConsts.
From Cqos Require Prio1 Run.
Import ListNotations.

(* ---- priority, v2: output/feedback capacity and the feedback limit of New() ---- *)
Lemma tie_prio2_capacity : forall ps h sorted strat buf,
  Prio2.outcap (Prio2.init_state ps h sorted strat buf) = divide_with_min h (Z.to_N v2_prio_capacity_divider) (N.of_nat (length ps)).
Proof. reflexivity. Qed.
Lemma tie_prio2_feedback_limit : forall ps h sorted strat buf,
  Prio2.fblimit (Prio2.init_state ps h sorted strat buf) =
  N.to_nat (divide_with_min h (Z.to_N v2_prio_feedback_limit_divider) (N.of_nat (length ps))).
Proof. reflexivity. Qed.

(* ---- priority, v1: the feedback limit of New(); the channel capacity of NewSimple() ---- *)
Lemma tie_prio1_feedback_limit : forall dv cfg h bufs ocap,
  Prio1.fblimit (Prio1.init_state dv cfg h bufs ocap) = N.to_nat (divide_with_min h (Z.to_N v1_prio_feedback_limit_divider) 1).
Proof. reflexivity. Qed.
Lemma tie_simple1_capacity : forall h n, Run.simple1_capacity h n = divide_with_min h (Z.to_N v1_prio_capacity_divider) n.
Proof. reflexivity. Qed.

(* the scheduler's idle delay and interrupter period are far below the 200 fake nanoseconds the correspondence driver waits
   after an operation ("settle"), in both versions: an assumption of the harness, checked against the sources *)
Lemma tie_prio_delays_small :
  (0 < v1_prio_idle_delay <= 50 /\ 0 < v1_prio_interrupt_timeout <= 50 /\ 0 < v2_prio_idle_delay <= 50 /\ 0 < v2_prio_interrupt_timeout <= 50)%Z.
Proof. cbv. repeat split; discriminate. Qed.

