(* Property theorems for the simplified disciplines: a free handler exists whenever an item is offered (so the liveness theorems of the priority models apply with 'every Handle call returns' as the only obligation of the user), and never more Handle calls than handlers. *)
From Coq Require Import List NArith. From Cqos Require Import Base Divider SimpleLive. From Cqos Require Prio2 Prio2P Prio1 Prio1P. Import ListNotations. Open Scope N_scope.
Theorem C06_simple2_free_handler_when_offered :
  forall dv : nat -> Divider,
         (forall (k : nat) (ps : list N) (n : N) (d : dist), NoDup (keys d) -> NoDup (keys (dv k ps n d))) ->
         forall s0 s : Prio2.st,
         Prio2P.Init s0 ->
         Prio2.reachable dv s0 s -> Prio2.outq s <> [] -> N.of_nat (length (Prio2.held s)) < Prio2.H s.
Proof. exact @simple2_free_handler_when_offered. Qed.
Print Assumptions C06_simple2_free_handler_when_offered.

Theorem C06_simple1_free_handler_when_offered :
  forall (fixed : bool) (dv : nat -> Divider),
         (forall (k : nat) (ps : list N) (n : N) (d : dist), NoDup (keys d) -> NoDup (keys (dv k ps n d))) ->
         forall s0 s : Prio1.st,
         Prio1P.Init1 s0 ->
         Prio1.reachable fixed dv s0 s -> Prio1.outq s <> [] -> N.of_nat (length (Prio1.held s)) < Prio1.H s.
Proof. exact @simple1_free_handler_when_offered. Qed.
Print Assumptions C06_simple1_free_handler_when_offered.

Theorem C01_simple2_handles_le_H :
  forall dv : nat -> Divider,
         (forall (k : nat) (ps : list N) (n : N) (d : dist), NoDup (keys d) -> NoDup (keys (dv k ps n d))) ->
         forall s0 s : Prio2.st,
         Prio2P.Init s0 -> Prio2.reachable dv s0 s -> N.of_nat (length (Prio2.held s)) <= Prio2.H s.
Proof. exact @simple2_handles_le_H. Qed.
Print Assumptions C01_simple2_handles_le_H.

Theorem C01_simple1_handles_le_H :
  forall (fixed : bool) (dv : nat -> Divider),
         (forall (k : nat) (ps : list N) (n : N) (d : dist), NoDup (keys d) -> NoDup (keys (dv k ps n d))) ->
         forall s0 s : Prio1.st,
         Prio1P.Init1 s0 -> Prio1.reachable fixed dv s0 s -> N.of_nat (length (Prio1.held s)) <= Prio1.H s.
Proof. exact @simple1_handles_le_H. Qed.
Print Assumptions C01_simple1_handles_le_H.

