(* Proofs about the divider models (C14).  Conservation holds for ANY rounding function `part`, so it
   never depends on float64 behaviour; order and closeness are proved from two hypotheses on `part`
   (monotone in the priority; within 1/2 of the exact share) which are then discharged for the exact
   rational rounding part_q. *)
From Coq Require Import List NArith Lia Bool ZArith.
From Cqos Require Import Base Divider.
Import ListNotations.
Open Scope N_scope.

(* ---------- add *)
Lemma get_add_same d k v : get (add d k v) k = get d k + v.
Proof. unfold add. apply get_set_same. Qed.
Lemma get_add_other d k k' v : k <> k' -> get (add d k v) k' = get d k'.
Proof. unfold add. apply get_set_other. Qed.
Lemma nodup_keys_add d k v : NoDup (keys d) -> NoDup (keys (add d k v)).
Proof. unfold add. apply nodup_keys_set. Qed.
Lemma sum_add d k v : NoDup (keys d) -> sum (add d k v) = sum d + v.
Proof. unfold add. intros ND. pose proof (sum_set d k (get d k + v) ND). lia. Qed.

(* position of a priority in the list *)
Fixpoint index_of (p : N) (l : list N) : option nat :=
  match l with
  | [] => None
  | x :: r => if N.eqb p x then Some O else option_map S (index_of p r)
  end.
Lemma index_of_none p l : index_of p l = None <-> ~ In p l.
Proof. induction l as [|x r IH]; simpl; [tauto|].
  destruct (N.eqb_spec p x) as [->|Hne].
  - split; [discriminate|]. intros H; exfalso; apply H; auto.
  - destruct (index_of p r) eqn:E; simpl.
    + split; [discriminate|]. intros H. exfalso. apply H. right.
      destruct (in_dec N.eq_dec p r) as [Hi|Hni]; auto. apply IH in Hni. discriminate.
    + split; [|auto]. intros _ [Hx|Hi]; [congruence|]. apply (proj1 IH); auto.
Qed.
Lemma index_of_nth p l i : index_of p l = Some i -> nth i l 0 = p /\ (i < length l)%nat.
Proof. revert i. induction l as [|x r IH]; simpl; intros i; [discriminate|].
  destruct (N.eqb_spec p x) as [->|Hne].
  - intros H; inversion H; subst. split; [auto|lia].
  - destruct (index_of p r) eqn:E; simpl; [|discriminate]. intros H; inversion H; subst.
    destruct (IH n eq_refl). split; [auto|lia]. Qed.
Lemma index_of_nth_nodup l i : NoDup l -> (i < length l)%nat -> index_of (nth i l 0) l = Some i.
Proof. revert i. induction l as [|x r IH]; simpl; intros i ND Hi; [lia|].
  inversion ND as [|? ? Hn ND']; subst. destruct i as [|i].
  - now rewrite N.eqb_refl.
  - destruct (N.eqb_spec (nth i r 0) x) as [E|_].
    + exfalso. apply Hn. rewrite <- E. apply nth_In. lia.
    + rewrite IH; auto. lia. Qed.

(* ---------- Fair *)
Definition fair_inc (base rem : N) (i : nat) : N := base + (if N.of_nat i <? rem then 1 else 0).

Lemma fair_loop_keys ps base rem d : NoDup (keys d) -> NoDup (keys (fair_loop ps base rem d)).
Proof. revert rem d. induction ps as [|p r IH]; simpl; intros rem d ND; auto.
  destruct (rem =? 0); apply IH; repeat apply nodup_keys_add; auto. Qed.

Lemma fair_loop_sum ps base rem d : NoDup (keys d) ->
  sum (fair_loop ps base rem d) = sum d + base * N.of_nat (length ps) + N.min rem (N.of_nat (length ps)).
Proof. revert rem d. induction ps as [|p r IH]; intros rem d ND.
  - simpl. lia.
  - cbn [fair_loop length]. destruct (N.eqb_spec rem 0) as [->|Hr].
    + rewrite IH by (apply nodup_keys_add; auto). rewrite sum_add by auto. lia.
    + rewrite IH by (repeat apply nodup_keys_add; auto).
      rewrite !sum_add by (try apply nodup_keys_add; auto). lia. Qed.

Lemma fair_loop_get ps base rem d q : NoDup ps ->
  get (fair_loop ps base rem d) q =
  get d q + match index_of q ps with Some i => fair_inc base rem i | None => 0 end.
Proof. revert rem d. induction ps as [|p r IH]; intros rem d ND.
  - simpl. lia.
  - inversion ND as [|? ? Hn ND']; subst. cbn [fair_loop index_of].
    destruct (N.eqb_spec q p) as [->|Hne].
    + assert (Hi : index_of p r = None) by (apply index_of_none; auto).
      destruct (N.eqb_spec rem 0) as [->|Hr]; rewrite IH by auto; rewrite Hi; unfold fair_inc; simpl.
      * rewrite get_add_same. lia.
      * rewrite !get_add_same. destruct (N.ltb_spec 0 rem); lia.
    + destruct (N.eqb_spec rem 0) as [->|Hr]; rewrite IH by auto;
        rewrite ?get_add_other by congruence; destruct (index_of q r) as [i|]; cbn [option_map]; auto;
        unfold fair_inc; rewrite Nat2N.inj_succ.
      * destruct (N.ltb_spec (N.of_nat i) 0); destruct (N.ltb_spec (N.succ (N.of_nat i)) 0); lia.
      * destruct (N.ltb_spec (N.of_nat i) (rem - 1)); destruct (N.ltb_spec (N.succ (N.of_nat i)) rem); lia.
Qed.

Definition fair_base (ps : list N) (dividend : N) := dividend / N.of_nat (length ps).
Definition fair_rem (ps : list N) (dividend : N) := dividend - fair_base ps dividend * N.of_nat (length ps).

Lemma fair_rem_lt ps dividend : ps <> [] -> fair_rem ps dividend < N.of_nat (length ps).
Proof. intros Hne. unfold fair_rem, fair_base.
  assert (Hn : N.of_nat (length ps) <> 0) by (destruct ps; [congruence|simpl; lia]).
  pose proof (N.div_mod dividend _ Hn). pose proof (N.mod_lt dividend _ Hn).
  generalize dependent (dividend / N.of_nat (length ps)). generalize dependent (dividend mod N.of_nat (length ps)). intros; nia. Qed.
Lemma fair_split ps dividend : ps <> [] ->
  fair_base ps dividend * N.of_nat (length ps) + fair_rem ps dividend = dividend.
Proof. intros Hne. unfold fair_rem, fair_base.
  assert (Hn : N.of_nat (length ps) <> 0) by (destruct ps; [congruence|simpl; lia]).
  pose proof (N.div_mod dividend _ Hn). pose proof (N.mod_lt dividend _ Hn).
  generalize dependent (dividend / N.of_nat (length ps)). generalize dependent (dividend mod N.of_nat (length ps)). intros; nia. Qed.

Lemma fair_unfold ps dividend d : ps <> [] ->
  fair ps dividend d = fair_loop ps (fair_base ps dividend) (fair_rem ps dividend) d.
Proof. destruct ps; [congruence|reflexivity]. Qed.

Lemma fair_conserves ps dividend d : ps <> [] -> NoDup (keys d) ->
  sum (fair ps dividend d) = sum d + dividend.
Proof. intros Hne ND. rewrite fair_unfold by auto. rewrite fair_loop_sum by auto.
  pose proof (fair_rem_lt ps dividend Hne). pose proof (fair_split ps dividend Hne). lia. Qed.

Lemma fair_outside ps dividend d q : NoDup ps -> ~ In q ps -> get (fair ps dividend d) q = get d q.
Proof. intros ND Hn. destruct ps as [|p r]; [reflexivity|]. rewrite fair_unfold by congruence.
  rewrite fair_loop_get by auto. apply index_of_none in Hn. rewrite Hn. lia. Qed.

Lemma fair_increment ps dividend d i : NoDup ps -> (i < length ps)%nat ->
  get (fair ps dividend d) (nth i ps 0) =
  get d (nth i ps 0) + fair_inc (fair_base ps dividend) (fair_rem ps dividend) i.
Proof. intros ND Hi. assert (ps <> []) by (destruct ps; simpl in *; [lia|congruence]).
  rewrite fair_unfold by auto. rewrite fair_loop_get by auto. now rewrite index_of_nth_nodup. Qed.

(* increments differ by at most one, the extra units on a prefix (the highest priorities) *)
Lemma fair_shape base rem i j : (i <= j)%nat ->
  fair_inc base rem j <= fair_inc base rem i <= fair_inc base rem j + 1.
Proof. intros Hij. unfold fair_inc.
  destruct (N.ltb_spec (N.of_nat i) rem); destruct (N.ltb_spec (N.of_nat j) rem); lia. Qed.

(* ---------- Rate *)
Section RateP.
Variable part : N -> N -> N -> N.

(* the per-position increments of the loop; None after the early return *)
Fixpoint rate_incs_loop (d0 S : N) (ps : list N) (rem : N) : list N * option N :=
  match ps with
  | [] => ([], Some rem)
  | p :: r =>
      let pt := part d0 S p in
      if rem <? pt then (rem :: map (fun _ => 0) r, None)
      else let '(l, o) := rate_incs_loop d0 S r (rem - pt) in (pt :: l, o)
  end.
Definition rate_incs (ps : list N) (dividend : N) : list N :=
  match rate_incs_loop dividend (sum_list ps) ps dividend with
  | (x :: l, Some rem) => (x + rem) :: l
  | (l, _) => l
  end.

Lemma rate_incs_loop_length d0 S ps rem : length (fst (rate_incs_loop d0 S ps rem)) = length ps.
Proof. revert rem. induction ps as [|p r IH]; intros rem; simpl; auto.
  destruct (rem <? part d0 S p); simpl; [now rewrite map_length|].
  specialize (IH (rem - part d0 S p)). destruct (rate_incs_loop d0 S r (rem - part d0 S p)). simpl in *. lia. Qed.
Lemma rate_incs_length ps dividend : length (rate_incs ps dividend) = length ps.
Proof. unfold rate_incs. pose proof (rate_incs_loop_length dividend (sum_list ps) ps dividend) as H.
  destruct (rate_incs_loop dividend (sum_list ps) ps dividend) as [[|x l] [rem|]]; simpl in *; auto. Qed.

Lemma sum_list_zeros {A} (r : list A) : sum_list (map (fun _ => 0) r) = 0.
Proof. induction r; simpl; auto. Qed.

Lemma rate_incs_loop_sum d0 S ps rem :
  sum_list (fst (rate_incs_loop d0 S ps rem)) + match snd (rate_incs_loop d0 S ps rem) with Some x => x | None => 0 end = rem.
Proof. revert rem. induction ps as [|p r IH]; intros rem; simpl; [lia|].
  destruct (N.ltb_spec rem (part d0 S p)); simpl.
  - rewrite sum_list_zeros. lia.
  - specialize (IH (rem - part d0 S p)). destruct (rate_incs_loop d0 S r (rem - part d0 S p)) as [l o]. simpl in *. lia. Qed.

Lemma rate_incs_sum ps dividend : ps <> [] -> sum_list (rate_incs ps dividend) = dividend.
Proof. intros Hne. unfold rate_incs.
  pose proof (rate_incs_loop_sum dividend (sum_list ps) ps dividend) as H.
  pose proof (rate_incs_loop_length dividend (sum_list ps) ps dividend) as HL.
  destruct (rate_incs_loop dividend (sum_list ps) ps dividend) as [[|x l] [rem|]]; simpl in *; try lia.
  destruct ps; [congruence|discriminate]. Qed.

(* the loop on distributions adds exactly these increments *)
Lemma rate_loop_keys d0 S ps rem d : NoDup (keys d) -> NoDup (keys (fst (rate_loop part d0 S ps rem d))).
Proof. revert rem d. induction ps as [|p r IH]; simpl; intros rem d ND; auto.
  destruct (rem <? part d0 S p); simpl; [apply nodup_keys_add; auto|]. apply IH. apply nodup_keys_add; auto. Qed.

Lemma rate_loop_snd d0 S ps rem d : snd (rate_loop part d0 S ps rem d) = snd (rate_incs_loop d0 S ps rem).
Proof. revert rem d. induction ps as [|p r IH]; simpl; intros rem d; auto.
  destruct (rem <? part d0 S p); simpl; auto. rewrite IH.
  destruct (rate_incs_loop d0 S r (rem - part d0 S p)); reflexivity. Qed.

Lemma nth_zeros {A} (r : list A) i : nth i (map (fun _ => 0) r) 0 = 0.
Proof. revert i. induction r; destruct i; simpl; auto. Qed.

Lemma rate_loop_get d0 S ps rem d q : NoDup ps ->
  get (fst (rate_loop part d0 S ps rem d)) q =
  get d q + match index_of q ps with Some i => nth i (fst (rate_incs_loop d0 S ps rem)) 0 | None => 0 end.
Proof. revert rem d. induction ps as [|p r IH]; intros rem d ND.
  - simpl. lia.
  - inversion ND as [|? ? Hn ND']; subst. cbn [rate_loop rate_incs_loop index_of].
    destruct (N.eqb_spec q p) as [->|Hne].
    + destruct (rem <? part d0 S p); cbn [fst].
      * rewrite get_add_same. reflexivity.
      * rewrite IH by auto. rewrite (proj2 (index_of_none p r) Hn). rewrite get_add_same.
        destruct (rate_incs_loop d0 S r (rem - part d0 S p)); simpl. lia.
    + destruct (rem <? part d0 S p); cbn [fst].
      * rewrite get_add_other by congruence. destruct (index_of q r) as [i|]; simpl; [|lia].
        rewrite nth_zeros. lia.
      * rewrite IH by auto. rewrite get_add_other by congruence.
        destruct (rate_incs_loop d0 S r (rem - part d0 S p)) as [l o]; simpl.
        destruct (index_of q r); simpl; lia.
Qed.

Lemma rate_get ps dividend d q : NoDup ps ->
  get (rate part ps dividend d) q =
  get d q + match index_of q ps with Some i => nth i (rate_incs ps dividend) 0 | None => 0 end.
Proof. intros ND. destruct ps as [|p0 r]; [simpl; lia|].
  unfold rate, rate_incs.
  pose proof (rate_loop_get dividend (sum_list (p0 :: r)) (p0 :: r) dividend d q ND) as HG.
  pose proof (rate_loop_snd dividend (sum_list (p0 :: r)) (p0 :: r) dividend d) as HS.
  pose proof (rate_incs_loop_length dividend (sum_list (p0 :: r)) (p0 :: r) dividend) as HL.
  destruct (rate_loop part dividend (sum_list (p0 :: r)) (p0 :: r) dividend d) as [d' o'].
  destruct (rate_incs_loop dividend (sum_list (p0 :: r)) (p0 :: r) dividend) as [l o].
  cbn [fst snd] in *. subst o'. destruct o as [rem|].
  - destruct l as [|x l]; [simpl in HL; discriminate|].
    cbn [index_of] in *. destruct (N.eqb_spec q p0) as [->|Hne].
    + rewrite get_add_same, HG. simpl. lia.
    + rewrite get_add_other by congruence. rewrite HG. destruct (index_of q r); simpl; auto.
  - rewrite HG. destruct l; reflexivity.
Qed.

Lemma rate_keys ps dividend d : NoDup (keys d) -> NoDup (keys (rate part ps dividend d)).
Proof. intros ND. destruct ps as [|p0 r]; auto. unfold rate.
  pose proof (rate_loop_keys dividend (sum_list (p0 :: r)) (p0 :: r) dividend d ND).
  destruct (rate_loop part dividend (sum_list (p0 :: r)) (p0 :: r) dividend d) as [d' [rem|]]; simpl in *; auto.
  apply nodup_keys_add; auto. Qed.

Lemma rate_loop_sum d0 S ps rem d : NoDup (keys d) ->
  sum (fst (rate_loop part d0 S ps rem d)) + match snd (rate_loop part d0 S ps rem d) with Some x => x | None => 0 end = sum d + rem.
Proof. revert rem d. induction ps as [|p r IH]; intros rem d ND; simpl; [lia|].
  destruct (N.ltb_spec rem (part d0 S p)); simpl.
  - rewrite sum_add by auto. lia.
  - rewrite IH by (apply nodup_keys_add; auto). rewrite sum_add by auto. lia. Qed.

(* conservation: for ANY rounding function, no NoDup on the priorities needed *)
Lemma rate_conserves ps dividend d : ps <> [] -> NoDup (keys d) ->
  sum (rate part ps dividend d) = sum d + dividend.
Proof. intros Hne ND. destruct ps as [|p0 r]; [congruence|]. unfold rate.
  pose proof (rate_loop_sum dividend (sum_list (p0 :: r)) (p0 :: r) dividend d ND) as HS.
  pose proof (rate_loop_keys dividend (sum_list (p0 :: r)) (p0 :: r) dividend d ND) as HK.
  destruct (rate_loop part dividend (sum_list (p0 :: r)) (p0 :: r) dividend d) as [d' [rem|]]; simpl in *.
  - rewrite sum_add by auto. lia.
  - lia. Qed.

Lemma rate_outside ps dividend d q : NoDup ps -> ~ In q ps -> get (rate part ps dividend d) q = get d q.
Proof. intros ND Hn. rewrite rate_get by auto. apply index_of_none in Hn. rewrite Hn. lia. Qed.

Lemma rate_increment ps dividend d i : NoDup ps -> (i < length ps)%nat ->
  get (rate part ps dividend d) (nth i ps 0) = get d (nth i ps 0) + nth i (rate_incs ps dividend) 0.
Proof. intros ND Hi. rewrite rate_get by auto. now rewrite index_of_nth_nodup. Qed.

(* ----- order: increments are non-increasing along a list sorted from highest to lowest *)
Inductive nonincreasing : list N -> Prop :=
| ni_nil : nonincreasing []
| ni_one x : nonincreasing [x]
| ni_cons x y l : y <= x -> nonincreasing (y :: l) -> nonincreasing (x :: y :: l).

Lemma nonincreasing_zeros {A} x (r : list A) : nonincreasing (x :: map (fun _ => 0) r).
Proof. revert x. induction r as [|a r IH]; intros x; simpl; constructor; [lia|apply IH]. Qed.
Lemma nonincreasing_raise x y l : nonincreasing (x :: l) -> x <= y -> nonincreasing (y :: l).
Proof. intros H Hxy. inversion H; subst; constructor; auto; lia. Qed.

Hypothesis part_mono : forall d0 S p q, q <= p -> part d0 S q <= part d0 S p.

Lemma rate_incs_loop_mono d0 S ps rem bound : nonincreasing ps ->
  (forall p, In p ps -> part d0 S p <= bound) ->
  nonincreasing (fst (rate_incs_loop d0 S ps rem)) /\
  (forall x, In x (fst (rate_incs_loop d0 S ps rem)) -> x <= bound).
Proof. revert rem bound. induction ps as [|p r IH]; intros rem bound Hs Hb; simpl.
  - split; [constructor|intros x []].
  - destruct (N.ltb_spec rem (part d0 S p)) as [Hlt|Hge]; cbn [fst].
    + split; [apply nonincreasing_zeros|]. intros x [<-|Hx].
      * specialize (Hb p (or_introl eq_refl)). lia.
      * apply in_map_iff in Hx. destruct Hx as [_ [<- _]]. lia.
    + assert (Hs' : nonincreasing r) by (inversion Hs; subst; auto; constructor).
      assert (Hb' : forall q, In q r -> part d0 S q <= part d0 S p).
      { intros q Hq. apply part_mono. clear -Hs Hq. revert p Hs. induction r as [|y r IHr]; intros p Hs; [destruct Hq|].
        inversion Hs; subst. destruct Hq as [<-|Hq]; auto. specialize (IHr Hq y H3). lia. }
      destruct (IH (rem - part d0 S p) (part d0 S p) Hs' Hb') as [IH1 IH2].
      destruct (rate_incs_loop d0 S r (rem - part d0 S p)) as [l o]; cbn [fst] in *.
      split.
      * destruct l as [|y l]; constructor; auto. apply IH2. left; auto.
      * intros x [<-|Hx]; [apply Hb; left; auto|]. specialize (IH2 x Hx). specialize (Hb p (or_introl eq_refl)). lia.
Qed.

Lemma rate_incs_nonincreasing ps dividend : nonincreasing ps -> nonincreasing (rate_incs ps dividend).
Proof. intros Hs. unfold rate_incs.
  assert (Hb : forall p, In p ps -> part dividend (sum_list ps) p <= part dividend (sum_list ps) (hd 0 ps)).
  { intros p Hp. apply part_mono. destruct ps as [|p0 r]; [destruct Hp|]. simpl. destruct Hp as [<-|Hp]; [lia|].
    clear -Hs Hp. revert p0 Hs. induction r as [|y r IHr]; intros p0 Hs; [destruct Hp|].
    inversion Hs; subst. destruct Hp as [<-|Hp]; auto. specialize (IHr Hp y H3). lia. }
  destruct (rate_incs_loop_mono dividend (sum_list ps) ps dividend _ Hs Hb) as [H1 _].
  destruct (rate_incs_loop dividend (sum_list ps) ps dividend) as [[|x l] [rem|]]; cbn [fst] in *; auto.
  eapply nonincreasing_raise; eauto. lia. Qed.

End RateP.

(* ---------- the exact rational rounding satisfies the monotonicity hypothesis *)
Lemma part_q_mono d0 S p q : q <= p -> part_q d0 S q <= part_q d0 S p.
Proof. intros H. unfold part_q. destruct (N.eq_dec S 0) as [->|HS].
  - replace (2 * 0) with 0 by lia. destruct (2 * d0 * q + 0), (2 * d0 * p + 0); cbv; congruence.
  - apply N.div_le_mono; [lia|]. nia. Qed.

(* ---------- v1 and v2 produce the same distribution whenever v2 has one to fill *)
Lemma v1_eq_v2 dv ps dividend d : ps <> [] -> v1_call dv ps dividend (Some d) = v2_call dv ps dividend (Some d).
Proof. destruct ps; [congruence|reflexivity]. Qed.
Lemma v1_nil_allocates dv ps dividend : ps <> [] -> v1_call dv ps dividend None = Some (dv ps dividend []).
Proof. destruct ps; [congruence|reflexivity]. Qed.
