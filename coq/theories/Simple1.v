(* Process structure of the v1 simplified discipline (priority/simple.go): Simple.main with its deferred calls, the handler
   goroutines, the context they share.  The inner priority discipline appears only through `inner_done` (it has terminated:
   C16/C07 of the priority discipline say when).  `fixed` distinguishes the pinned main (false: the inner GracefulStop() is
   awaited synchronously) from the repaired one (true: awaited together with the breaker and the context).

   main:  MSelect -> [MGraceful ->] MInnerStop -> MCancel -> MWgWait -> MCloseFeedback -> MCloseOutput -> MCloseErr
          -> MCompleteGraceful -> MCompleteBreaker -> MExited        (the deferred calls in LIFO order)
   Stop() returns at MCompleteBreaker's completion (pc MExited), GracefulStop() at MCompleteGraceful's (pc >= MCompleteBreaker). *)
From Coq Require Import List Bool Lia Arith.
Import ListNotations.

Inductive mpc := MSelect | MGraceful | MInnerStop | MCancel | MWgWait | MCloseFeedback | MCloseOutput | MCloseErr
               | MCompleteGraceful | MCompleteBreaker | MExited.
Inductive hstate := HIdle | HHandling | HReleasing | HExited.

Record sst := {
  main : mpc;
  handlers : list hstate;
  ctx_done : bool;       (* the context passed to the handlers and to Handle is cancelled *)
  stop_req : bool;       (* Stop() called or SimpleOpts.Ctx cancelled *)
  graceful_req : bool;   (* GracefulStop() called *)
  inner_done : bool;     (* the inner priority discipline has terminated *)
  inner_err : bool       (* the inner discipline reported an error *)
}.

Definition set_main (s : sst) (m : mpc) : sst :=
  {| main := m; handlers := handlers s; ctx_done := ctx_done s; stop_req := stop_req s; graceful_req := graceful_req s;
     inner_done := inner_done s; inner_err := inner_err s |}.

Definition all_exited (s : sst) : bool := forallb (fun h => match h with HExited => true | _ => false end) (handlers s).

Section Step.
Variable fixed : bool.

(* a step of Simple.main; None = blocked *)
Definition main_step (s : sst) : option sst :=
  match main s with
  | MSelect =>
      if stop_req s then Some (set_main s MInnerStop)
      else if graceful_req s then Some (set_main s MGraceful)
      else if inner_err s then Some (set_main s MInnerStop)
      else None
  | MGraceful =>
      (* smpl.priority.GracefulStop(): returns when the inner discipline has terminated gracefully *)
      if inner_done s then Some (set_main s MInnerStop)
      else if fixed && stop_req s then Some (set_main s MInnerStop)
      else None
  | MInnerStop => if inner_done s then Some (set_main s MCancel) else None   (* deferred smpl.priority.Stop() *)
  | MCancel => Some {| main := MWgWait; handlers := handlers s; ctx_done := true; stop_req := stop_req s;
                       graceful_req := graceful_req s; inner_done := inner_done s; inner_err := inner_err s |}
  | MWgWait => if all_exited s then Some (set_main s MCloseFeedback) else None
  | MCloseFeedback => Some (set_main s MCloseOutput)
  | MCloseOutput => Some (set_main s MCloseErr)
  | MCloseErr => Some (set_main s MCompleteGraceful)
  | MCompleteGraceful => Some (set_main s MCompleteBreaker)
  | MCompleteBreaker => Some (set_main s MExited)
  | MExited => None
  end.

(* the environment and the handler goroutines *)
Inductive ev :=
| EStop | EGraceful | EInnerDone | EInnerErr
| EHTake (i : nat)          (* handler i receives an item from the output and calls Handle *)
| EHReturn (i : nat)        (* Handle returns *)
| EHRelease (i : nat)       (* the feedback write completes *)
| EHCtx (i : nat).          (* handler i, in one of its two selects, takes ctx.Done() and returns *)

Fixpoint set_nth (l : list hstate) (i : nat) (h : hstate) : list hstate :=
  match l, i with
  | [], _ => []
  | _ :: r, O => h :: r
  | x :: r, S j => x :: set_nth r j h
  end.
Definition set_h (s : sst) (i : nat) (h : hstate) : sst :=
  {| main := main s; handlers := set_nth (handlers s) i h; ctx_done := ctx_done s; stop_req := stop_req s;
     graceful_req := graceful_req s; inner_done := inner_done s; inner_err := inner_err s |}.

Definition before_close_output (m : mpc) : bool :=
  match m with MSelect | MGraceful | MInnerStop | MCancel | MWgWait | MCloseFeedback | MCloseOutput => true | _ => false end.

Definition env_step (s : sst) (e : ev) : option sst :=
  match e with
  | EStop => Some {| main := main s; handlers := handlers s; ctx_done := ctx_done s; stop_req := true; graceful_req := graceful_req s;
                     inner_done := inner_done s; inner_err := inner_err s |}
  | EGraceful => Some {| main := main s; handlers := handlers s; ctx_done := ctx_done s; stop_req := stop_req s; graceful_req := true;
                         inner_done := inner_done s; inner_err := inner_err s |}
  | EInnerDone => Some {| main := main s; handlers := handlers s; ctx_done := ctx_done s; stop_req := stop_req s;
                          graceful_req := graceful_req s; inner_done := true; inner_err := inner_err s |}
  | EInnerErr => Some {| main := main s; handlers := handlers s; ctx_done := ctx_done s; stop_req := stop_req s;
                         graceful_req := graceful_req s; inner_done := inner_done s; inner_err := true |}
  | EHTake i => match nth_error (handlers s) i with Some HIdle => if before_close_output (main s) then Some (set_h s i HHandling) else None | _ => None end
  | EHReturn i => match nth_error (handlers s) i with Some HHandling => Some (set_h s i HReleasing) | _ => None end
  | EHRelease i => match nth_error (handlers s) i with Some HReleasing => Some (set_h s i HIdle) | _ => None end
  | EHCtx i => if ctx_done s then
                 match nth_error (handlers s) i with
                 | Some HIdle | Some HReleasing => Some (set_h s i HExited)
                 | _ => None
                 end
               else None
  end.

Inductive reachable (s0 : sst) : sst -> Prop :=
| r0 : reachable s0 s0
| rm s s' : reachable s0 s -> main_step s = Some s' -> reachable s0 s'
| re s e s' : reachable s0 s -> env_step s e = Some s' -> reachable s0 s'.

Definition init (h : nat) : sst :=
  {| main := MSelect; handlers := repeat HIdle h; ctx_done := false; stop_req := false; graceful_req := false;
     inner_done := false; inner_err := false |}.

Definition past_wait (m : mpc) : bool :=
  match m with MCloseFeedback | MCloseOutput | MCloseErr | MCompleteGraceful | MCompleteBreaker | MExited => true | _ => false end.

(* once main is past wg.Wait() every handler goroutine has exited -- in particular no Handle call is running -- and stays so *)
Definition pre_cancel (m : mpc) : bool := match m with MSelect | MGraceful | MInnerStop | MCancel => true | _ => false end.
Definition Inv (s : sst) : Prop :=
  (past_wait (main s) = true -> all_exited s = true) /\
  (ctx_done s = false -> pre_cancel (main s) = true).

Lemma all_exited_set_nth l i h : forallb (fun x => match x with HExited => true | _ => false end) l = true ->
  nth_error l i = Some h -> h = HExited.
Proof. revert i. induction l as [|x r IH]; intros i Ha Hn; [destruct i; discriminate|].
  simpl in Ha. apply andb_true_iff in Ha. destruct Ha as [Hx Hr]. destruct i; simpl in Hn.
  - inversion Hn; subst. destruct h; try discriminate; reflexivity.
  - eapply IH; eauto. Qed.

Lemma inv_main s s' : Inv s -> main_step s = Some s' -> Inv s'.
Proof.
  intros [I1 I2] Hs. unfold main_step in Hs.
  destruct (main s) eqn:E; simpl in *;
    repeat match type of Hs with context [if ?b then _ else _] => destruct b eqn:? end; try discriminate;
    inversion Hs; subst; unfold Inv, all_exited, set_main in *; simpl; split; intros; try discriminate; auto;
    try (destruct (ctx_done s) eqn:C; [discriminate|specialize (I2 eq_refl); discriminate]).
Qed.

Lemma inv_env s e s' : Inv s -> env_step s e = Some s' -> Inv s'.
Proof.
  intros [I1 I2] Hs. destruct e; simpl in Hs;
    try (inversion Hs; subst; unfold Inv, all_exited in *; simpl; split; auto; fail).
  - destruct (nth_error (handlers s) i) as [[| | |]|] eqn:En; try discriminate.
    destruct (before_close_output (main s)) eqn:B; [|discriminate]. inversion Hs; subst. unfold Inv, all_exited, set_h in *; simpl.
    split; auto. intros Hp. exfalso. specialize (I1 Hp). pose proof (all_exited_set_nth _ _ _ I1 En). discriminate.
  - destruct (nth_error (handlers s) i) as [[| | |]|] eqn:En; try discriminate. inversion Hs; subst. unfold Inv, all_exited, set_h in *; simpl.
    split; auto. intros Hp. exfalso. specialize (I1 Hp). pose proof (all_exited_set_nth _ _ _ I1 En). discriminate.
  - destruct (nth_error (handlers s) i) as [[| | |]|] eqn:En; try discriminate. inversion Hs; subst. unfold Inv, all_exited, set_h in *; simpl.
    split; auto. intros Hp. exfalso. specialize (I1 Hp). pose proof (all_exited_set_nth _ _ _ I1 En). discriminate.
  - destruct (ctx_done s) eqn:C; [|discriminate].
    destruct (nth_error (handlers s) i) as [[| | |]|] eqn:En; try discriminate; inversion Hs; subst; unfold Inv, all_exited, set_h in *; simpl;
      (split; [|rewrite C; discriminate]); intros Hp; exfalso; specialize (I1 Hp); pose proof (all_exited_set_nth _ _ _ I1 En); discriminate.
Qed.

Theorem simple1_inv h s : reachable (init h) s -> Inv s.
Proof.
  induction 1.
  - unfold Inv, init; simpl. split; [discriminate|auto].
  - eapply inv_main; eauto.
  - eapply inv_env; eauto.
Qed.

(* C16 / C07 / C19 for the simplified discipline: when Stop() or GracefulStop() has returned every handler goroutine has exited, so
   no Handle call is running and none will start *)
Theorem simple1_stop_returned_all_exited h s :
  reachable (init h) s -> (main s = MExited \/ main s = MCompleteBreaker) -> all_exited s = true.
Proof. intros Hr Hm. destruct (simple1_inv h s Hr) as [I1 _]. apply I1. destruct Hm as [->| ->]; reflexivity. Qed.

Theorem simple1_no_take_after_close s i :
  before_close_output (main s) = false -> env_step s (EHTake i) = None.
Proof. intros Hb. simpl. destruct (nth_error (handlers s) i) as [[| | |]|]; auto. rewrite Hb. reflexivity. Qed.

(* C16 liveness of main: with a stop requested, main is blocked only while it waits for the inner discipline to terminate (the
   priority discipline's own C16) or for the handlers to leave (they do once their Handle returns: it honours the cancelled context) *)
Theorem simple1_stop_not_deaf s :
  fixed = true -> stop_req s = true -> main_step s = None ->
  (main s = MInnerStop /\ inner_done s = false) \/ (main s = MWgWait /\ all_exited s = false) \/ main s = MExited.
Proof.
  intros Hf Hs Hn. unfold main_step in Hn. rewrite Hf, Hs in Hn. destruct (main s); simpl in Hn; try discriminate; auto.
  - destruct (inner_done s); discriminate.
  - destruct (inner_done s) eqn:E; [discriminate|auto].
  - destruct (all_exited s) eqn:E; [discriminate|auto].
Qed.
End Step.

(* the pinned main was deaf to Stop() while the inner GracefulStop() was pending *)
Definition deaf_s1 : sst :=
  {| main := MSelect; handlers := [HIdle; HIdle]; ctx_done := false; stop_req := false; graceful_req := true; inner_done := false; inner_err := false |}.
Definition deaf_s2 : sst := set_main deaf_s1 MGraceful.
Definition deaf_s3 : sst :=
  {| main := MGraceful; handlers := [HIdle; HIdle]; ctx_done := false; stop_req := true; graceful_req := true; inner_done := false; inner_err := false |}.
Theorem simple1_stop_deaf_old : reachable false (init 2) deaf_s3 /\ stop_req deaf_s3 = true /\ main deaf_s3 = MGraceful /\ main_step false deaf_s3 = None.
Proof.
  split; [|repeat split].
  apply (re false (init 2) deaf_s2 EStop deaf_s3); [|reflexivity].
  apply (rm false (init 2) deaf_s1 deaf_s2); [|reflexivity].
  apply (re false (init 2) (init 2) EGraceful deaf_s1); [apply r0|reflexivity].
Qed.
(* ... the repaired one is not: *)
Theorem simple1_stop_heard_new : main_step true deaf_s3 = Some (set_main deaf_s3 MInnerStop).
Proof. reflexivity. Qed.
