(* Model of v2/limit/rate.go: Rate.IsValid, Rate.Recalculate (hence Optimize, Flatten).
   Interval and minimum are Go int64 (time.Duration), Quantity is uint64; all are Z here with the
   ranges as explicit hypotheses of the theorems.  big.Int arithmetic is exact, Z arithmetic is exact,
   so recalculateQuantity is modelled literally, IsUint64 being the comparison with 2^64-1. *)
From Coq Require Import ZArith Bool List.
Import ListNotations.
Open Scope Z_scope.

Definition max_i64 := 9223372036854775807.       (* 2^63-1 *)
Definition max_u64 := 18446744073709551615.      (* 2^64-1 *)
Definition optimization_interval := 10000000.    (* consts.go: 10 * time.Millisecond *)

Record rate := { ivl : Z; qty : Z }.
Inductive err :=
| IntervalNegative | IntervalZero | QuantityZero | MinimumNegative
| ConvertedIntervalZero | QuantityUnrepresentable.

Definition is_valid (r : rate) : option err :=
  if ivl r <? 0 then Some IntervalNegative else if ivl r =? 0 then Some IntervalZero
  else if qty r =? 0 then Some QuantityZero else None.

(* The code as it was at the pinned commit (branch condition `interval > minimum`).  Kept for the
   regression theorem C13_refuted_old. *)
Definition recalculate_old (r : rate) (m : Z) : rate + err :=
  match is_valid r with Some e => inr e | None =>
  if m <? 0 then inr MinimumNegative else
  let i := ivl r / qty r in
  if m <? i then inl {| ivl := i; qty := 1 |}
  else if m =? 0 then inr ConvertedIntervalZero
  else let q := (qty r * m) / ivl r in
       if q <=? max_u64 then inl {| ivl := m; qty := q |} else inr QuantityUnrepresentable
  end.

(* The current code (after the fix: commit): `interval != 0 && interval >= minimum`. *)
Definition recalculate (r : rate) (m : Z) : rate + err :=
  match is_valid r with Some e => inr e | None =>
  if m <? 0 then inr MinimumNegative else
  let i := ivl r / qty r in
  if negb (i =? 0) && (m <=? i) then inl {| ivl := i; qty := 1 |}
  else if m =? 0 then inr ConvertedIntervalZero
  else let q := (qty r * m) / ivl r in
       if q <=? max_u64 then inl {| ivl := m; qty := q |} else inr QuantityUnrepresentable
  end.

Definition optimize (r : rate) := recalculate r optimization_interval.
Definition flatten (r : rate) := recalculate r 0.

Definition in_range (r : rate) (m : Z) : Prop :=
  - max_i64 - 1 <= ivl r <= max_i64 /\ 0 <= qty r <= max_u64 /\ - max_i64 - 1 <= m <= max_i64.

(* executable interface for the correspondence check: [I; Q; m] -> [code; I'; Q'] *)
Definition err_code (e : err) : Z :=
  match e with
  | IntervalNegative => 1 | IntervalZero => 2 | QuantityZero => 3 | MinimumNegative => 4
  | ConvertedIntervalZero => 5 | QuantityUnrepresentable => 6
  end.
Definition enc_result (x : rate + err) : list Z :=
  match x with inl r => [0; ivl r; qty r] | inr e => [err_code e; 0; 0] end.
Definition run_rate (which : Z) (args : list Z) : list Z :=
  match args with
  | [i; q; m] =>
      let r := {| ivl := i; qty := q |} in
      if which =? 0 then enc_result (recalculate r m)
      else if which =? 1 then enc_result (optimize r)
      else if which =? 2 then enc_result (flatten r)
      else enc_result (recalculate_old r m)
  | _ => [-1]
  end.
