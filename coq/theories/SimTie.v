(* The tie between the deterministic simulators used by the correspondence check (Prio2Sim, Prio1Sim, JoinSim,
   LimitSim) and the labelled transition systems the theorems quantify over (Prio2, Prio1, Join, Limit):
   every discipline state a simulator visits is a state of the LTS. *)
From Coq Require Import List NArith ZArith Bool Lia Arith.
From Cqos Require Import Base Divider Sched.
From Cqos Require Prio2 Prio2P Prio2Sim Prio1 Prio1P Prio1Sim Join JoinSim Limit LimitSim.
Import ListNotations.

(* ------------------------------------------------------------------------------------------------------------ *)
(* 1. v2 priority                                                                                                *)
(* ------------------------------------------------------------------------------------------------------------ *)
Module TieP2.
Import Prio2 Prio2Sim.
Open Scope N_scope.

Lemma reachable_trans dv s0 s1 s2 : reachable dv s0 s1 -> reachable dv s1 s2 -> reachable dv s0 s2.
Proof.
  intros H01 H12. induction H12 as [|s s' Hr IH Hs|s o s' Hr IH Hs]; auto.
  - eapply r_sched; eauto.
  - eapply r_env; eauto.
Qed.

Theorem prio2_sched_run_reachable : forall dv fuel settle last s0 s,
  reachable dv s0 s -> reachable dv s0 (sched_run dv fuel settle last s).
Proof.
  intros dv fuel. induction fuel as [|f IH]; intros settle last s0 s Hr; [exact Hr|].
  cbn [sched_run]. destruct (sched_step dv s) as [s'|] eqn:Es.
  - apply IH. eapply r_sched; eauto.
  - destruct settle; cbn [negb]; [|exact Hr].
    destruct (pcs s) eqn:Epc; try exact Hr.
    + (* Read *)
      destruct (env_step s Tick) as [s'|] eqn:Ee; [|exact Hr].
      apply IH. eapply r_env; eauto.
    + (* Idle *)
      destruct (env_step s Tick) as [s'|] eqn:Ee.
      * assert (Hr' : reachable dv s0 s') by (eapply r_env; eauto).
        destruct last as [[l seen]|].
        -- destruct (list_eqb l (digest s)); [destruct seen; [exact Hr|]|]; apply IH; exact Hr'.
        -- apply IH; exact Hr'.
      * destruct last as [[l seen]|]; [destruct (list_eqb l (digest s)); [destruct seen|]|]; exact Hr.
Qed.
Print Assumptions prio2_sched_run_reachable.

(* the shape of one driver operation: at most one environment step, possibly (codes 5, 7) a fault armed at the current
   call index, then sched_run under the resulting divider family *)
Lemma apply_op_shape : forall base fuel sm code arg settle,
  exists s1 f1 held next,
    (s1 = ps_st sm \/ exists o, env_step (ps_st sm) o = Some s1) /\
    (((code <> 5 /\ code <> 7)%Z /\ f1 = ps_fault sm) \/
     ((code = 5 \/ code = 7)%Z /\ s1 = ps_st sm /\ exists outside, f1 = Some (ncalls (ps_st sm), arg, outside))) /\
    fst (apply_op base fuel sm code arg settle) =
      mkPsim (sched_run (sim_dv base (prios s1) f1) fuel settle None s1) held next f1.
Proof.
  intros base fuel sm code arg settle. unfold apply_op.
  destruct (code =? 1)%Z eqn:E1.
  { apply Z.eqb_eq in E1.
    destruct (env_step (ps_st sm) (Put (Z.to_N arg) (ps_next sm))) as [s'|] eqn:Ee; cbn [fst ps_st ps_held ps_next ps_fault].
    - exists s', (ps_fault sm), (ps_held sm), (ps_next sm + 1). split; [right; eauto|]. split; [left; split; [lia|reflexivity]|reflexivity].
    - exists (ps_st sm), (ps_fault sm), (ps_held sm), (ps_next sm). split; [left; auto|]. split; [left; split; [lia|reflexivity]|reflexivity]. }
  destruct (code =? 2)%Z eqn:E2.
  { apply Z.eqb_eq in E2.
    destruct (env_step (ps_st sm) (Close (Z.to_N arg))) as [s'|] eqn:Ee; cbn [fst].
    - exists s', (ps_fault sm), (ps_held sm), (ps_next sm). split; [right; eauto|]. split; [left; split; [lia|reflexivity]|reflexivity].
    - exists (ps_st sm), (ps_fault sm), (ps_held sm), (ps_next sm). split; [left; auto|]. split; [left; split; [lia|reflexivity]|reflexivity]. }
  destruct (code =? 3)%Z eqn:E3.
  { apply Z.eqb_eq in E3.
    destruct (outq (ps_st sm)) as [|[p x] q] eqn:Eo.
    - cbn [fst]. exists (ps_st sm), (ps_fault sm), (ps_held sm), (ps_next sm). split; [left; auto|]. split; [left; split; [lia|reflexivity]|reflexivity].
    - destruct (env_step (ps_st sm) Take) as [s'|] eqn:Ee; cbn [fst ps_st ps_held ps_next ps_fault].
      + exists s', (ps_fault sm), (ps_held sm ++ [p]), (ps_next sm). split; [right; eauto|]. split; [left; split; [lia|reflexivity]|reflexivity].
      + exists (ps_st sm), (ps_fault sm), (ps_held sm), (ps_next sm). split; [left; auto|]. split; [left; split; [lia|reflexivity]|reflexivity]. }
  destruct (code =? 4)%Z eqn:E4.
  { apply Z.eqb_eq in E4.
    destruct (nth_mod (Z.to_N arg) (ps_held sm)) as [[p rest]|] eqn:En.
    - destruct (env_step (ps_st sm) (Release p)) as [s'|] eqn:Ee; cbn [fst ps_st ps_held ps_next ps_fault].
      + exists s', (ps_fault sm), rest, (ps_next sm). split; [right; eauto|]. split; [left; split; [lia|reflexivity]|reflexivity].
      + exists (ps_st sm), (ps_fault sm), (ps_held sm), (ps_next sm). split; [left; auto|]. split; [left; split; [lia|reflexivity]|reflexivity].
    - cbn [fst]. exists (ps_st sm), (ps_fault sm), (ps_held sm), (ps_next sm). split; [left; auto|]. split; [left; split; [lia|reflexivity]|reflexivity]. }
  destruct (code =? 5)%Z eqn:E5.
  { apply Z.eqb_eq in E5. cbn [fst ps_st ps_held ps_next ps_fault].
    exists (ps_st sm), (Some (ncalls (ps_st sm), arg, false)), (ps_held sm), (ps_next sm).
    split; [left; auto|]. split; [right; split; [lia|split; [auto|eauto]]|reflexivity]. }
  destruct (code =? 7)%Z eqn:E7.
  { apply Z.eqb_eq in E7. cbn [fst ps_st ps_held ps_next ps_fault].
    exists (ps_st sm), (Some (ncalls (ps_st sm), arg, true)), (ps_held sm), (ps_next sm).
    split; [left; auto|]. split; [right; split; [lia|split; [auto|eauto]]|reflexivity]. }
  apply Z.eqb_neq in E5, E7. cbn [fst].
  exists (ps_st sm), (ps_fault sm), (ps_held sm), (ps_next sm). split; [left; auto|]. split; [left; split; [lia|reflexivity]|reflexivity].
Qed.

Lemma sim_dv_none base all : sim_dv base all None = fun _ => base.
Proof. reflexivity. Qed.

(* one driver operation other than arming a fault keeps the state reachable under the (unchanged) divider family;
   `all` is the list of configured priorities, constant along a run *)
Theorem prio2_apply_op_reachable_gen : forall base fuel sm code arg settle s0,
  (code <> 5 /\ code <> 7)%Z -> prios (ps_st sm) = prios s0 ->
  reachable (sim_dv base (prios s0) (ps_fault sm)) s0 (ps_st sm) ->
  reachable (sim_dv base (prios s0) (ps_fault sm)) s0 (ps_st (fst (apply_op base fuel sm code arg settle))) /\
  ps_fault (fst (apply_op base fuel sm code arg settle)) = ps_fault sm.
Proof.
  intros base fuel sm code arg settle s0 Hc Hp Hr.
  destruct (apply_op_shape base fuel sm code arg settle) as (s1 & f1 & held & next & Hs1 & Hf & ->).
  cbn [ps_st ps_fault].
  destruct Hf as [[_ ->]|[Hc' _]]; [|lia].
  assert (Hr1 : reachable (sim_dv base (prios s0) (ps_fault sm)) s0 s1).
  { destruct Hs1 as [->|[o Ho]]; [exact Hr|eapply r_env; eauto]. }
  split; [|reflexivity].
  assert (Hp1 : prios s1 = prios s0).
  { destruct Hs1 as [->|[o Ho]]; [exact Hp|]. apply Prio2P.env_step_const in Ho. destruct Ho; congruence. }
  rewrite Hp1. apply prio2_sched_run_reachable. exact Hr1.
Qed.

Theorem prio2_apply_op_reachable : forall base fuel sm code arg settle s0,
  ps_fault sm = None -> (code <> 5 /\ code <> 7)%Z ->
  reachable (fun _ => base) s0 (ps_st sm) ->
  reachable (fun _ => base) s0 (ps_st (fst (apply_op base fuel sm code arg settle))).
Proof.
  intros base fuel sm code arg settle s0 Hf Hc Hr.
  destruct (apply_op_shape base fuel sm code arg settle) as (s1 & f1 & held & next & Hs1 & Hf1 & ->).
  cbn [ps_st].
  destruct Hf1 as [[_ ->]|[Hc' _]]; [|lia]. rewrite Hf, sim_dv_none.
  apply prio2_sched_run_reachable.
  destruct Hs1 as [->|[o Ho]]; [exact Hr|eapply r_env; eauto].
Qed.
Print Assumptions prio2_apply_op_reachable.
Print Assumptions prio2_apply_op_reachable_gen.

(* ---- the fault extension ---- *)

Lemma calc_base_ncalls dv s v : ncalls (calc_base dv s v) = S (ncalls s).
Proof. unfold calc_base. destruct (safe_divide _ _ _ _); reflexivity. Qed.

Lemma step_calc_ncalls dv s : (ncalls s <= ncalls (step_calc dv s))%nat.
Proof.
  unfold step_calc. destruct (H s - sum (actual s) =? 0); [cbn; lia|].
  destruct (add_up _ _ _ _ _) as [[t picked]|]; [destruct (picked =? _); [cbn; lia|]|]; rewrite calc_base_ncalls; lia.
Qed.

Lemma step_recalc_ncalls dv s proc : (S (ncalls s) <= ncalls (step_recalc dv s proc))%nat.
Proof.
  unfold step_recalc. destruct (safe_divide (dv (ncalls s)) _ _ _); [|cbn; lia].
  destruct (safe_divide (dv (S (ncalls s))) _ _ _); cbn; lia.
Qed.

Lemma sched_step_ncalls dv s s' : sched_step dv s = Some s' -> (ncalls s <= ncalls s')%nat.
Proof.
  intros Hs. unfold sched_step in Hs.
  destruct (pcs s) eqn:Epc.
  - inversion Hs; subst. apply step_calc_ncalls.
  - destruct (fbq s); inversion Hs; subst; cbn; lia.
  - destruct rest; inversion Hs; subst; cbn; lia.
  - destruct (get (tactic s) p =? 0); [inversion Hs; subst; cbn; lia|].
    destruct (inq s p); [|inversion Hs; subst; cbn; lia].
    destruct (closed s p); [inversion Hs; subst; cbn; lia|].
    destruct (buffered s p); inversion Hs; subst; cbn; lia.
  - destruct (N.of_nat (length (outq s)) <? outcap s); inversion Hs; subst; cbn; lia.
  - inversion Hs; subst. pose proof (step_recalc_ncalls dv s proc). lia.
  - destruct (proc =? 0); [destruct (forallb (drained s) (prios s))|]; inversion Hs; subst; cbn; lia.
  - discriminate.
  - destruct k; [inversion Hs; subst; cbn; lia|]. destruct (fbq s); inversion Hs; subst; cbn; lia.
  - destruct (sum (actual s) =? 0); [inversion Hs; subst; cbn; lia|]. destruct (fbq s); inversion Hs; subst; cbn; lia.
  - discriminate.
Qed.

Lemma env_step_ncalls s o s' : env_step s o = Some s' -> ncalls s' = ncalls s.
Proof.
  intros Hs. unfold env_step in Hs. destruct o.
  - destruct (closed s p); inversion Hs; subst; reflexivity.
  - inversion Hs; subst; reflexivity.
  - destruct (outq s); inversion Hs; subst; reflexivity.
  - destruct (remove1 p (held s)); inversion Hs; subst; reflexivity.
  - destruct (pcs s); try (inversion Hs; subst; reflexivity).
    destruct (_ && _ && _ && _); inversion Hs; subst; reflexivity.
Qed.

Lemma reachable_ncalls dv s0 s : reachable dv s0 s -> (ncalls s0 <= ncalls s)%nat.
Proof.
  intros Hr. induction Hr as [|s s' Hr IH Hs|s o s' Hr IH Hs]; [lia| |].
  - apply sched_step_ncalls in Hs. lia.
  - apply env_step_ncalls in Hs. lia.
Qed.

Lemma calc_base_agree dv dv' s v : dv' (ncalls s) = dv (ncalls s) -> calc_base dv' s v = calc_base dv s v.
Proof. intros E. unfold calc_base. rewrite E. reflexivity. Qed.

Lemma step_calc_agree dv dv' s :
  (forall k, (ncalls s <= k < ncalls (step_calc dv s))%nat -> dv' k = dv k) -> step_calc dv' s = step_calc dv s.
Proof.
  unfold step_calc. intros Hag. destruct (H s - sum (actual s) =? 0); [reflexivity|].
  destruct (add_up _ _ _ _ _) as [[t picked]|]; [destruct (picked =? _); [reflexivity|]|];
    apply calc_base_agree; apply Hag; rewrite calc_base_ncalls; lia.
Qed.

Lemma step_recalc_agree dv dv' s proc :
  (forall k, (ncalls s <= k < ncalls (step_recalc dv s proc))%nat -> dv' k = dv k) ->
  step_recalc dv' s proc = step_recalc dv s proc.
Proof.
  intros Hag.
  assert (H1 : dv' (ncalls s) = dv (ncalls s)).
  { apply Hag. pose proof (step_recalc_ncalls dv s proc). lia. }
  unfold step_recalc in *. rewrite H1.
  destruct (safe_divide (dv (ncalls s)) (useful s) (H s) (reset (tactic s))) as [t1|e] eqn:E1; [|reflexivity].
  assert (H2 : dv' (S (ncalls s)) = dv (S (ncalls s))).
  { apply Hag. destruct (safe_divide (dv (S (ncalls s))) _ _ _); cbn; lia. }
  rewrite H2. reflexivity.
Qed.

Lemma sched_step_agree dv dv' s s' : sched_step dv s = Some s' ->
  (forall k, (ncalls s <= k < ncalls s')%nat -> dv' k = dv k) -> sched_step dv' s = Some s'.
Proof.
  intros Hs Hag. unfold sched_step in *.
  destruct (pcs s) eqn:Epc; try exact Hs.
  - inversion Hs; subst. f_equal. apply step_calc_agree. exact Hag.
  - inversion Hs; subst. f_equal. apply step_recalc_agree. exact Hag.
Qed.

(* a step at state x uses only dv (ncalls x) and dv (S (ncalls x)), and ncalls never decreases: the states reachable
   under dv are reachable under any family that agrees with dv on the indices between ncalls s0 and ncalls s *)
Theorem prio2_reachable_agree_gen : forall dv dv' s0 s, reachable dv s0 s ->
  (forall k, (ncalls s0 <= k < ncalls s)%nat -> dv' k = dv k) -> reachable dv' s0 s.
Proof.
  intros dv dv' s0 s Hr. induction Hr as [|s s' Hr IH Hs|s o s' Hr IH Hs]; intros Hag.
  - apply r_init.
  - pose proof (sched_step_ncalls _ _ _ Hs) as Hle. pose proof (reachable_ncalls _ _ _ Hr) as Hle0.
    eapply r_sched; [apply IH; intros k Hk; apply Hag; lia|].
    eapply sched_step_agree; [exact Hs|]. intros k Hk. apply Hag. lia.
  - pose proof (env_step_ncalls _ _ _ Hs) as He.
    eapply r_env; [apply IH; intros k Hk; apply Hag; lia|exact Hs].
Qed.

(* no premise on s0 is needed *)
Theorem prio2_reachable_agree : forall dv dv' s0 s, reachable dv s0 s ->
  (forall k, (k < ncalls s)%nat -> dv' k = dv k) -> reachable dv' s0 s.
Proof.
  intros dv dv' s0 s Hr Hag. eapply prio2_reachable_agree_gen; [exact Hr|]. intros k Hk. apply Hag. lia.
Qed.
Print Assumptions prio2_reachable_agree_gen.
Print Assumptions prio2_reachable_agree.

(* scripts *)
Definition op := (Z * Z * bool)%type.     (* code, argument, settle *)
Fixpoint run_script (base : Divider) (fuel : nat) (sm : psim) (sc : list op) : psim :=
  match sc with
  | [] => sm
  | (code, arg, settle) :: r => run_script base fuel (fst (apply_op base fuel sm code arg settle)) r
  end.

(* every member of the family is the base divider or one of the two faulty wrappers of it *)
Definition fam_ok (base : Divider) (dv : nat -> Divider) : Prop :=
  forall k, dv k = base \/ exists delta, dv k = faulty base delta \/ exists all, dv k = faulty_outside base delta all.

Lemma sim_dv_fam_ok base all f : fam_ok base (sim_dv base all f).
Proof.
  intros k. unfold sim_dv. destruct f as [[[n delta] outside]|]; [|left; reflexivity].
  destruct (Nat.eqb k n); [|left; reflexivity]. right. exists delta.
  destruct outside; [right; exists all; reflexivity|left; reflexivity].
Qed.

(* the tie for a simulator state: its discipline state is reachable from s0 under SOME family made of the base divider
   and faulty wrappers, which from the current call index on is the family the simulator will use *)
Definition tied (base : Divider) (s0 : st) (sm : psim) : Prop :=
  prios (ps_st sm) = prios s0 /\
  exists dv, reachable dv s0 (ps_st sm) /\ fam_ok base dv /\
             forall k, (ncalls (ps_st sm) <= k)%nat -> dv k = sim_dv base (prios s0) (ps_fault sm) k.

Lemma tied_init base sm : tied base (ps_st sm) sm.
Proof.
  split; [reflexivity|]. exists (sim_dv base (prios (ps_st sm)) (ps_fault sm)).
  split; [apply r_init|]. split; [apply sim_dv_fam_ok|reflexivity].
Qed.

Theorem prio2_apply_op_tied : forall base fuel sm code arg settle s0,
  tied base s0 sm -> tied base s0 (fst (apply_op base fuel sm code arg settle)).
Proof.
  intros base fuel sm code arg settle s0 [Hp (dv & Hr & Hok & Htail)].
  destruct (apply_op_shape base fuel sm code arg settle) as (s1 & f1 & held & next & Hs1 & _ & ->).
  unfold tied. cbn [ps_st ps_fault].
  assert (Hr1 : reachable dv s0 s1) by (destruct Hs1 as [->|[o Ho]]; [exact Hr|eapply r_env; eauto]).
  assert (Hp1 : prios s1 = prios s0) by (destruct (Prio2P.reachable_const dv _ _ Hr1); assumption).
  rewrite Hp1.
  set (sd := sim_dv base (prios s0) f1).
  set (s2 := sched_run sd fuel settle None s1).
  set (dv' := fun k => if (k <? ncalls s1)%nat then dv k else sd k).
  assert (Hr1' : reachable dv' s0 s1).
  { eapply prio2_reachable_agree; [exact Hr1|]. intros k Hk. unfold dv'.
    destruct (Nat.ltb_spec k (ncalls s1)); [reflexivity|lia]. }
  assert (Hr12 : reachable sd s1 s2) by (apply prio2_sched_run_reachable; apply r_init).
  assert (Hr12' : reachable dv' s1 s2).
  { eapply prio2_reachable_agree_gen; [exact Hr12|]. intros k Hk. unfold dv'.
    destruct (Nat.ltb_spec k (ncalls s1)); [lia|reflexivity]. }
  assert (Hr2 : reachable dv' s0 s2) by (eapply reachable_trans; eauto).
  split; [destruct (Prio2P.reachable_const dv' _ _ Hr2); assumption|].
  exists dv'. split; [exact Hr2|]. split.
  - intros k. unfold dv'. destruct (k <? ncalls s1)%nat; [apply Hok|apply sim_dv_fam_ok].
  - intros k Hk. pose proof (reachable_ncalls _ _ _ Hr12) as Hle. unfold dv'.
    destruct (Nat.ltb_spec k (ncalls s1)); [lia|reflexivity].
Qed.

(* the final state of a whole script, faults included, is a state of the LTS *)
Theorem prio2_script_tied : forall base fuel sc sm s0, tied base s0 sm -> tied base s0 (run_script base fuel sm sc).
Proof.
  intros base fuel sc. induction sc as [|[[code arg] settle] r IH]; intros sm s0 Ht; [exact Ht|].
  cbn [run_script]. apply IH. apply prio2_apply_op_tied. exact Ht.
Qed.

Corollary prio2_script_reachable : forall base fuel sc sm,
  exists dv, reachable dv (ps_st sm) (ps_st (run_script base fuel sm sc)) /\ fam_ok base dv /\
    forall k, (ncalls (ps_st (run_script base fuel sm sc)) <= k)%nat ->
              dv k = sim_dv base (prios (ps_st sm)) (ps_fault (run_script base fuel sm sc)) k.
Proof.
  intros base fuel sc sm. destruct (prio2_script_tied base fuel sc sm (ps_st sm) (tied_init base sm)) as [_ Hex]. exact Hex.
Qed.
Print Assumptions prio2_apply_op_tied.
Print Assumptions prio2_script_tied.
Print Assumptions prio2_script_reachable.

(* scripts that arm at most one fault: the final state is reachable under the final sim_dv itself *)
Definition is_arm (o : op) : bool := let '(code, _, _) := o in ((code =? 5) || (code =? 7))%Z.
Definition arms (sc : list op) : nat := length (filter is_arm sc).

Lemma apply_op_arm_reachable : forall base fuel sm code arg settle s0,
  (code = 5 \/ code = 7)%Z -> ps_fault sm = None -> prios (ps_st sm) = prios s0 ->
  reachable (fun _ => base) s0 (ps_st sm) ->
  reachable (sim_dv base (prios s0) (ps_fault (fst (apply_op base fuel sm code arg settle)))) s0
            (ps_st (fst (apply_op base fuel sm code arg settle))).
Proof.
  intros base fuel sm code arg settle s0 Hc Hf Hp Hr.
  destruct (apply_op_shape base fuel sm code arg settle) as (s1 & f1 & held & next & _ & Hf1 & ->).
  cbn [ps_st ps_fault]. destruct Hf1 as [[Hc' _]|(_ & -> & outside & ->)]; [lia|].
  rewrite Hp. apply prio2_sched_run_reachable.
  eapply prio2_reachable_agree; [exact Hr|]. intros k Hk. unfold sim_dv.
  destruct (Nat.eqb_spec k (ncalls (ps_st sm))); [lia|reflexivity].
Qed.

Lemma script_one_fault_aux : forall base fuel sc sm s0,
  prios (ps_st sm) = prios s0 ->
  reachable (sim_dv base (prios s0) (ps_fault sm)) s0 (ps_st sm) ->
  (ps_fault sm = None /\ (arms sc <= 1)%nat) \/ arms sc = 0%nat ->
  reachable (sim_dv base (prios s0) (ps_fault (run_script base fuel sm sc))) s0 (ps_st (run_script base fuel sm sc)).
Proof.
  intros base fuel sc. induction sc as [|[[code arg] settle] r IH]; intros sm s0 Hp Hr Hc; [exact Hr|].
  cbn [run_script]. unfold arms in Hc. cbn [filter is_arm] in Hc.
  destruct ((code =? 5) || (code =? 7))%Z eqn:Earm.
  - (* an arming operation: no fault armed so far *)
    cbn [length] in Hc. destruct Hc as [[Hf Hc]|Hc]; [|discriminate].
    assert (Hcode : (code = 5 \/ code = 7)%Z) by lia.
    rewrite Hf, sim_dv_none in Hr.
    pose proof (apply_op_arm_reachable base fuel sm code arg settle s0 Hcode Hf Hp Hr) as Hr'.
    apply IH; [|exact Hr'|right; unfold arms; lia].
    destruct (Prio2P.reachable_const _ _ _ Hr'); assumption.
  - assert (Hcode : (code <> 5 /\ code <> 7)%Z) by lia.
    destruct (prio2_apply_op_reachable_gen base fuel sm code arg settle s0 Hcode Hp Hr) as [Hr' Hf'].
    apply IH.
    + destruct (Prio2P.reachable_const _ _ _ Hr'); assumption.
    + rewrite Hf'. exact Hr'.
    + rewrite Hf'. exact Hc.
Qed.

Theorem prio2_script_reachable_one_fault : forall base fuel sc sm,
  ps_fault sm = None -> (arms sc <= 1)%nat ->
  reachable (sim_dv base (prios (ps_st sm)) (ps_fault (run_script base fuel sm sc))) (ps_st sm)
            (ps_st (run_script base fuel sm sc)).
Proof.
  intros base fuel sc sm Hf Ha. apply script_one_fault_aux; [reflexivity| |left; split; assumption].
  rewrite Hf. apply r_init.
Qed.
Print Assumptions prio2_script_reachable_one_fault.

(* The literal statement "the final state of a script is reachable under the final sim_dv" is FALSE as soon as a script
   arms a second fault after the first one has been consumed: the final sim_dv has forgotten the first fault.
   Witness: arm an outside fault of +1 (consumed by the first recalcTactic: ErrDividerBad, the discipline terminates),
   then arm any fault again.  Under the final sim_dv all the calls made so far are calls of Fair, and with Fair no
   error state is reachable (Prio2P.ex_no_error). *)
Definition cex_sm0 : psim := mkPsim Prio2P.ex_s0 [] 0 None.
Definition cex_script : list op := [(7, 1, false); (5, 0, false)]%Z.
Definition cex_final : psim := run_script fair 100 cex_sm0 cex_script.

Example cex_final_facts :
  pcs (ps_st cex_final) = Done (Some DividerBad) /\ ncalls (ps_st cex_final) = 2%nat /\
  ps_fault cex_final = Some (2%nat, 0%Z, false).
Proof. vm_compute. repeat split; reflexivity. Qed.

Theorem prio2_script_final_sim_dv_false :
  ~ reachable (sim_dv fair (prios (ps_st cex_sm0)) (ps_fault cex_final)) (ps_st cex_sm0) (ps_st cex_final).
Proof.
  intros Hr. destruct cex_final_facts as (Hpc & Hn & Hf).
  assert (Hr' : reachable Prio2P.fdv Prio2P.ex_s0 (ps_st cex_final)).
  { eapply prio2_reachable_agree; [exact Hr|]. intros k Hk. rewrite Hn in Hk. rewrite Hf.
    unfold sim_dv, Prio2P.fdv. destruct (Nat.eqb_spec k 2); [lia|reflexivity]. }
  destruct (Prio2P.ex_no_error _ Hr' DividerBad) as [_ Hnd]. apply Hnd. exact Hpc.
Qed.
Print Assumptions prio2_script_final_sim_dv_false.

End TieP2.

(* ------------------------------------------------------------------------------------------------------------ *)
(* 2. v1 priority                                                                                                *)
(* ------------------------------------------------------------------------------------------------------------ *)
Module TieP1.
Import Prio1 Prio1Sim.
Open Scope N_scope.

Lemma reachable_trans fixed dv s0 s1 s2 : reachable fixed dv s0 s1 -> reachable fixed dv s1 s2 -> reachable fixed dv s0 s2.
Proof.
  intros H01 H12. induction H12 as [|s o s' Hr IH Hs|s o s' Hr IH Hs]; auto.
  - eapply r_sched; eauto.
  - eapply r_env; eauto.
Qed.

Theorem prio1_sched_run_reachable : forall fixed dv fuel settle last amb s0 s,
  reachable fixed dv s0 s -> reachable fixed dv s0 (fst (sched_run fixed dv fuel settle last amb s)).
Proof.
  intros fixed dv fuel. induction fuel as [|f IH]; intros settle last amb s0 s Hr; [exact Hr|].
  cbn [sched_run]. destruct (sched_step fixed dv 0 s) as [s'|] eqn:Es.
  - apply IH. eapply r_sched; eauto.
  - destruct settle; cbn [negb]; [|exact Hr].
    destruct (pcs s) eqn:Epc; try exact Hr.
    + (* Read *)
      destruct (env_step s Tick) as [s'|] eqn:Ee; [|exact Hr].
      apply IH. eapply r_env; eauto.
    + (* Idle *)
      destruct (env_step s Tick) as [s'|] eqn:Ee.
      * assert (Hr' : reachable fixed dv s0 s') by (eapply r_env; eauto).
        destruct last as [[l seen]|].
        -- destruct (list_eqb l (digest s)); [destruct seen; [exact Hr|]|]; apply IH; exact Hr'.
        -- apply IH; exact Hr'.
      * destruct last as [[l seen]|]; [destruct (list_eqb l (digest s)); [destruct seen|]|]; exact Hr.
Qed.
Print Assumptions prio1_sched_run_reachable.

Lemma env_or_same_cases s op : env_or_same s op = s \/ exists o, env_step s o = Some (env_or_same s op).
Proof. unfold env_or_same. destruct (env_step s op) eqn:E; [right; eauto|left; reflexivity]. Qed.

(* the shape of one driver operation *)
Lemma apply_op_shape : forall fixed base fuel sm code a b settle,
  exists s1 f1 held next amb reg,
    (s1 = ps_st sm \/ exists o, env_step (ps_st sm) o = Some s1) /\
    (((code <> 5 /\ code <> 7)%Z /\ f1 = ps_fault sm) \/
     ((code = 5 \/ code = 7)%Z /\ s1 = ps_st sm /\ f1 = Some (ncalls (ps_st sm), a, (code =? 7)%Z))) /\
    fst (apply_op fixed base fuel sm code a b settle) =
      mkPsim (fst (sched_run fixed (sim_dv base (sort_desc reg) f1) fuel settle None amb s1)) held next f1
             (snd (sched_run fixed (sim_dv base (sort_desc reg) f1) fuel settle None amb s1)) reg.
Proof.
  intros fixed base fuel sm code a b settle. unfold apply_op.
  assert (Hfin : forall s1 sm1 res,
    (s1 = ps_st sm \/ exists o, env_step (ps_st sm) o = Some s1) ->
    (((code <> 5 /\ code <> 7)%Z /\ ps_fault sm1 = ps_fault sm) \/
     ((code = 5 \/ code = 7)%Z /\ s1 = ps_st sm /\ ps_fault sm1 = Some (ncalls (ps_st sm), a, (code =? 7)%Z))) ->
    exists s1' f1 held next amb reg,
    (s1' = ps_st sm \/ exists o, env_step (ps_st sm) o = Some s1') /\
    (((code <> 5 /\ code <> 7)%Z /\ f1 = ps_fault sm) \/
     ((code = 5 \/ code = 7)%Z /\ s1' = ps_st sm /\ f1 = Some (ncalls (ps_st sm), a, (code =? 7)%Z))) /\
    fst (let '(s2, amb0) := sched_run fixed (sim_dv base (sort_desc (ps_reg sm1)) (ps_fault sm1)) fuel settle None (ps_amb sm1) s1 in
         (mkPsim s2 (ps_held sm1) (ps_next sm1) (ps_fault sm1) amb0 (ps_reg sm1), (res : N * N))) =
      mkPsim (fst (sched_run fixed (sim_dv base (sort_desc reg) f1) fuel settle None amb s1')) held next f1
             (snd (sched_run fixed (sim_dv base (sort_desc reg) f1) fuel settle None amb s1')) reg).
  { intros s1 sm1 res H1 H2. exists s1, (ps_fault sm1), (ps_held sm1), (ps_next sm1), (ps_amb sm1), (ps_reg sm1).
    split; [exact H1|]. split; [exact H2|].
    destruct (sched_run fixed (sim_dv base (sort_desc (ps_reg sm1)) (ps_fault sm1)) fuel settle None (ps_amb sm1) s1); reflexivity. }
  destruct (code =? 1)%Z eqn:E1.
  { apply Z.eqb_eq in E1.
    destruct (env_step (ps_st sm) (Put (Z.to_nat a) (ps_next sm))) as [s'|] eqn:Ee;
      (apply Hfin; cbn [ps_fault]; [first [right; eexists; eassumption|left; reflexivity]|left; split; [lia|reflexivity]]). }
  destruct (code =? 2)%Z eqn:E2.
  { apply Z.eqb_eq in E2. apply Hfin; [apply env_or_same_cases|left; split; [lia|reflexivity]]. }
  destruct (code =? 3)%Z eqn:E3.
  { apply Z.eqb_eq in E3.
    destruct (outq (ps_st sm)) as [|[p x] q] eqn:Eo.
    - apply Hfin; [left; reflexivity|left; split; [lia|reflexivity]].
    - destruct (env_step (ps_st sm) Take) as [s'|] eqn:Ee;
        (apply Hfin; cbn [ps_fault]; [first [right; eexists; eassumption|left; reflexivity]|left; split; [lia|reflexivity]]). }
  destruct (code =? 4)%Z eqn:E4.
  { apply Z.eqb_eq in E4.
    destruct (nth_mod (Z.to_N a) (ps_held sm)) as [[p rest]|] eqn:En.
    - destruct (env_step (ps_st sm) (Release p)) as [s'|] eqn:Ee;
        (apply Hfin; cbn [ps_fault]; [first [right; eexists; eassumption|left; reflexivity]|left; split; [lia|reflexivity]]).
    - apply Hfin; [left; reflexivity|left; split; [lia|reflexivity]]. }
  destruct (code =? 5)%Z eqn:E5.
  { apply Z.eqb_eq in E5. subst code. apply Hfin; [left; reflexivity|]. cbn [ps_fault]. right. split; [lia|]. split; reflexivity. }
  destruct (code =? 7)%Z eqn:E7.
  { apply Z.eqb_eq in E7. subst code. apply Hfin; [left; reflexivity|]. cbn [ps_fault]. right. split; [lia|]. split; reflexivity. }
  apply Z.eqb_neq in E5, E7.
  destruct (code =? 8)%Z eqn:E8.
  { destruct (pcs (ps_st sm));
      (apply Hfin; cbn [ps_fault]; [first [apply env_or_same_cases|left; reflexivity]|left; split; [lia|reflexivity]]). }
  destruct (code =? 9)%Z eqn:E9.
  { destruct (pcs (ps_st sm));
      (apply Hfin; cbn [ps_fault]; [first [apply env_or_same_cases|left; reflexivity]|left; split; [lia|reflexivity]]). }
  destruct (code =? 10)%Z eqn:E10.
  { apply Hfin; [apply env_or_same_cases|left; split; [lia|reflexivity]]. }
  destruct ((code =? 11)%Z || (code =? 12)%Z) eqn:E11.
  { apply Hfin; [apply env_or_same_cases|left; split; [lia|reflexivity]]. }
  apply Hfin; [left; reflexivity|left; split; [lia|reflexivity]].
Qed.

Theorem prio1_apply_op_reachable : forall fixed base fuel sm code a b settle s0,
  ps_fault sm = None -> (code <> 5 /\ code <> 7)%Z ->
  reachable fixed (fun _ => base) s0 (ps_st sm) ->
  reachable fixed (fun _ => base) s0 (ps_st (fst (apply_op fixed base fuel sm code a b settle))) /\
  ps_fault (fst (apply_op fixed base fuel sm code a b settle)) = None.
Proof.
  intros fixed base fuel sm code a b settle s0 Hf Hc Hr.
  destruct (apply_op_shape fixed base fuel sm code a b settle) as (s1 & f1 & held & next & amb & reg & Hs1 & Hf1 & ->).
  cbn [ps_st ps_fault].
  destruct Hf1 as [[_ ->]|[Hc' _]]; [|lia]. rewrite Hf. split; [|reflexivity].
  change (sim_dv base (sort_desc reg) None) with (fun _ : nat => base).
  apply prio1_sched_run_reachable.
  destruct Hs1 as [->|[o Ho]]; [exact Hr|eapply r_env; eauto].
Qed.
Print Assumptions prio1_apply_op_reachable.

(* ---- the fault extension ---- *)

Lemma calc_base_ncalls dv s v : ncalls (calc_base dv s v) = S (ncalls s).
Proof. unfold calc_base. destruct (safe_divide _ _ _ _); reflexivity. Qed.

Lemma step_calc_ncalls dv s : (ncalls s <= ncalls (step_calc dv s))%nat.
Proof.
  unfold step_calc. destruct (H s <? sum (actual s)); [cbn; lia|].
  destruct (H s - sum (actual s) =? 0); [cbn; lia|].
  destruct (add_up _ _ _ _ _) as [[t picked]|]; [destruct (picked =? _); [cbn; lia|]|]; rewrite calc_base_ncalls; lia.
Qed.

Lemma step_recalc_ncalls dv s proc : (S (ncalls s) <= ncalls (step_recalc dv s proc))%nat.
Proof.
  unfold step_recalc. destruct (safe_divide (dv (ncalls s)) _ _ _); [|cbn; lia].
  destruct (safe_divide (dv (S (ncalls s))) _ _ _); cbn; lia.
Qed.

Lemma do_cmd_ncalls dv s c rest : ncalls (do_cmd dv s c rest) = S (ncalls s).
Proof. destruct c; reflexivity. Qed.

Ltac dm Hs := repeat match type of Hs with context [match ?x with _ => _ end] => destruct x eqn:? end.

Lemma sched_step_ncalls fixed dv o s s' : sched_step fixed dv o s = Some s' -> (ncalls s <= ncalls s')%nat.
Proof.
  intros Hs. unfold sched_step in Hs. cbv zeta in Hs.
  pose proof (step_calc_ncalls dv s) as Hc. pose proof (fun proc => step_recalc_ncalls dv s proc) as Hrc.
  destruct (pcs s) eqn:Epc; dm Hs; try discriminate; inversion Hs; subst;
    rewrite ?do_cmd_ncalls; try (cbn; lia); try exact Hc.
  specialize (Hrc proc). lia.
Qed.

Lemma env_step_ncalls s o s' : env_step s o = Some s' -> ncalls s' = ncalls s.
Proof.
  intros Hs. unfold env_step in Hs. destruct o; dm Hs; try discriminate; inversion Hs; subst; reflexivity.
Qed.

Lemma reachable_ncalls fixed dv s0 s : reachable fixed dv s0 s -> (ncalls s0 <= ncalls s)%nat.
Proof.
  intros Hr. induction Hr as [|s o s' Hr IH Hs|s o s' Hr IH Hs]; [lia| |].
  - apply sched_step_ncalls in Hs. lia.
  - apply env_step_ncalls in Hs. lia.
Qed.

Lemma calc_base_agree dv dv' s v : dv' (ncalls s) = dv (ncalls s) -> calc_base dv' s v = calc_base dv s v.
Proof. intros E. unfold calc_base. rewrite E. reflexivity. Qed.

Lemma do_cmd_agree dv dv' s c rest : dv' (ncalls s) = dv (ncalls s) -> do_cmd dv' s c rest = do_cmd dv s c rest.
Proof. intros E. unfold do_cmd, strategic_of. rewrite E. reflexivity. Qed.

Lemma step_calc_agree dv dv' s :
  (forall k, (ncalls s <= k < ncalls (step_calc dv s))%nat -> dv' k = dv k) -> step_calc dv' s = step_calc dv s.
Proof.
  unfold step_calc. intros Hag. destruct (H s <? sum (actual s)); [reflexivity|].
  destruct (H s - sum (actual s) =? 0); [reflexivity|].
  destruct (add_up _ _ _ _ _) as [[t picked]|]; [destruct (picked =? _); [reflexivity|]|];
    apply calc_base_agree; apply Hag; rewrite calc_base_ncalls; lia.
Qed.

Lemma step_recalc_agree dv dv' s proc :
  (forall k, (ncalls s <= k < ncalls (step_recalc dv s proc))%nat -> dv' k = dv k) ->
  step_recalc dv' s proc = step_recalc dv s proc.
Proof.
  intros Hag.
  assert (H1 : dv' (ncalls s) = dv (ncalls s)).
  { apply Hag. pose proof (step_recalc_ncalls dv s proc). lia. }
  unfold step_recalc in *. rewrite H1.
  destruct (safe_divide (dv (ncalls s)) (useful s) (H s) (reset (tactic s))) as [t1|e] eqn:E1; [|reflexivity].
  assert (H2 : dv' (S (ncalls s)) = dv (S (ncalls s))).
  { apply Hag. destruct (safe_divide (dv (S (ncalls s))) _ _ _); cbn; lia. }
  rewrite H2. reflexivity.
Qed.

Lemma sched_step_agree fixed dv dv' o s s' : sched_step fixed dv o s = Some s' ->
  (forall k, (ncalls s <= k < ncalls s')%nat -> dv' k = dv k) -> sched_step fixed dv' o s = Some s'.
Proof.
  intros Hs Hag. unfold sched_step in *. cbv zeta in *.
  destruct (pcs s) eqn:Epc; try exact Hs.
  - (* Top: the command case calls the divider *)
    revert Hs. destruct (pick o _) as [[]|]; intros Hs; try exact Hs.
    destruct (cmds s) as [|c rest]; [exact Hs|].
    inversion Hs; subst. f_equal. apply do_cmd_agree. apply Hag. rewrite do_cmd_ncalls. lia.
  - inversion Hs; subst. f_equal. apply step_calc_agree. exact Hag.
  - inversion Hs; subst. f_equal. apply step_recalc_agree. exact Hag.
Qed.

Theorem prio1_reachable_agree_gen : forall fixed dv dv' s0 s, reachable fixed dv s0 s ->
  (forall k, (ncalls s0 <= k < ncalls s)%nat -> dv' k = dv k) -> reachable fixed dv' s0 s.
Proof.
  intros fixed dv dv' s0 s Hr. induction Hr as [|s o s' Hr IH Hs|s o s' Hr IH Hs]; intros Hag.
  - apply r_init.
  - pose proof (sched_step_ncalls _ _ _ _ _ Hs) as Hle. pose proof (reachable_ncalls _ _ _ _ Hr) as Hle0.
    eapply r_sched; [apply IH; intros k Hk; apply Hag; lia|].
    eapply sched_step_agree; [exact Hs|]. intros k Hk. apply Hag. lia.
  - pose proof (env_step_ncalls _ _ _ Hs) as He.
    eapply r_env; [apply IH; intros k Hk; apply Hag; lia|exact Hs].
Qed.

Theorem prio1_reachable_agree : forall fixed dv dv' s0 s, reachable fixed dv s0 s ->
  (forall k, (k < ncalls s)%nat -> dv' k = dv k) -> reachable fixed dv' s0 s.
Proof.
  intros fixed dv dv' s0 s Hr Hag. eapply prio1_reachable_agree_gen; [exact Hr|]. intros k Hk. apply Hag. lia.
Qed.
Print Assumptions prio1_reachable_agree_gen.
Print Assumptions prio1_reachable_agree.

Definition op := (Z * Z * Z * bool)%type.     (* code, a, b, settle *)
Fixpoint run_script (fixed : bool) (base : Divider) (fuel : nat) (sm : psim) (sc : list op) : psim :=
  match sc with
  | [] => sm
  | (code, a, b, settle) :: r => run_script fixed base fuel (fst (apply_op fixed base fuel sm code a b settle)) r
  end.

Definition fam_ok (base : Divider) (dv : nat -> Divider) : Prop :=
  forall k, dv k = base \/ exists delta, dv k = faulty base delta \/ exists all, dv k = faulty_outside base delta all.

Lemma sim_dv_fam_ok base all f : fam_ok base (sim_dv base all f).
Proof.
  intros k. unfold sim_dv. destruct f as [[[n delta] outside]|]; [|left; reflexivity].
  destruct (Nat.eqb k n); [|left; reflexivity]. right. exists delta.
  destruct outside; [right; exists all; reflexivity|left; reflexivity].
Qed.

(* here the list `all` given to the outside fault is the driver's own view of the registered priorities, which changes
   with AddInput/RemoveInput: the family is described from the current call index on *)
Definition tied (fixed : bool) (base : Divider) (s0 : st) (sm : psim) : Prop :=
  exists dv, reachable fixed dv s0 (ps_st sm) /\ fam_ok base dv /\
             forall k, (ncalls (ps_st sm) <= k)%nat -> dv k = sim_dv base (sort_desc (ps_reg sm)) (ps_fault sm) k.

Lemma tied_init fixed base sm : tied fixed base (ps_st sm) sm.
Proof.
  exists (sim_dv base (sort_desc (ps_reg sm)) (ps_fault sm)).
  split; [apply r_init|]. split; [apply sim_dv_fam_ok|reflexivity].
Qed.

Theorem prio1_apply_op_tied : forall fixed base fuel sm code a b settle s0,
  tied fixed base s0 sm -> tied fixed base s0 (fst (apply_op fixed base fuel sm code a b settle)).
Proof.
  intros fixed base fuel sm code a b settle s0 (dv & Hr & Hok & Htail).
  destruct (apply_op_shape fixed base fuel sm code a b settle) as (s1 & f1 & held & next & amb & reg & Hs1 & _ & ->).
  unfold tied. cbn [ps_st ps_fault ps_reg].
  assert (Hr1 : reachable fixed dv s0 s1) by (destruct Hs1 as [->|[o Ho]]; [exact Hr|eapply r_env; eauto]).
  set (sd := sim_dv base (sort_desc reg) f1).
  set (s2 := fst (sched_run fixed sd fuel settle None amb s1)).
  set (dv' := fun k => if (k <? ncalls s1)%nat then dv k else sd k).
  assert (Hr1' : reachable fixed dv' s0 s1).
  { eapply prio1_reachable_agree; [exact Hr1|]. intros k Hk. unfold dv'.
    destruct (Nat.ltb_spec k (ncalls s1)); [reflexivity|lia]. }
  assert (Hr12 : reachable fixed sd s1 s2) by (apply prio1_sched_run_reachable; apply r_init).
  assert (Hr12' : reachable fixed dv' s1 s2).
  { eapply prio1_reachable_agree_gen; [exact Hr12|]. intros k Hk. unfold dv'.
    destruct (Nat.ltb_spec k (ncalls s1)); [lia|reflexivity]. }
  exists dv'. split; [eapply reachable_trans; eauto|]. split.
  - intros k. unfold dv'. destruct (k <? ncalls s1)%nat; [apply Hok|apply sim_dv_fam_ok].
  - intros k Hk. pose proof (reachable_ncalls _ _ _ _ Hr12) as Hle. unfold dv'.
    destruct (Nat.ltb_spec k (ncalls s1)); [lia|reflexivity].
Qed.

Theorem prio1_script_tied : forall fixed base fuel sc sm s0,
  tied fixed base s0 sm -> tied fixed base s0 (run_script fixed base fuel sm sc).
Proof.
  intros fixed base fuel sc. induction sc as [|[[[code a] b] settle] r IH]; intros sm s0 Ht; [exact Ht|].
  cbn [run_script]. apply IH. apply prio1_apply_op_tied. exact Ht.
Qed.

Corollary prio1_script_reachable : forall fixed base fuel sc sm,
  exists dv, reachable fixed dv (ps_st sm) (ps_st (run_script fixed base fuel sm sc)) /\ fam_ok base dv /\
    forall k, (ncalls (ps_st (run_script fixed base fuel sm sc)) <= k)%nat ->
              dv k = sim_dv base (sort_desc (ps_reg (run_script fixed base fuel sm sc)))
                            (ps_fault (run_script fixed base fuel sm sc)) k.
Proof. intros fixed base fuel sc sm. exact (prio1_script_tied fixed base fuel sc sm (ps_st sm) (tied_init fixed base sm)). Qed.
Print Assumptions prio1_apply_op_tied.
Print Assumptions prio1_script_tied.
Print Assumptions prio1_script_reachable.

(* scripts that arm at most one fault, of the "inside" kind (code 5): reachable under the final sim_dv, whose list
   argument is then irrelevant *)
Definition inside (f : option (nat * Z * bool)) : Prop := match f with Some (_, _, true) => False | _ => True end.
Lemma sim_dv_inside base all all' f : inside f -> sim_dv base all f = sim_dv base all' f.
Proof. destruct f as [[[n delta] [|]]|]; cbn; [tauto|reflexivity|reflexivity]. Qed.

Definition code_of (o : op) : Z := let '(code, _, _, _) := o in code.
Definition arms (sc : list op) : nat := length (filter (fun o => (code_of o =? 5)%Z) sc).

Lemma script_one_fault_aux : forall fixed base fuel sc sm s0 all,
  inside (ps_fault sm) ->
  reachable fixed (sim_dv base all (ps_fault sm)) s0 (ps_st sm) ->
  Forall (fun o => code_of o <> 7%Z) sc ->
  (ps_fault sm = None /\ (arms sc <= 1)%nat) \/ arms sc = 0%nat ->
  reachable fixed (sim_dv base all (ps_fault (run_script fixed base fuel sm sc))) s0 (ps_st (run_script fixed base fuel sm sc)).
Proof.
  intros fixed base fuel sc. induction sc as [|[[[code a] b] settle] r IH]; intros sm s0 all Hin Hr H7 Hc; [exact Hr|].
  cbn [run_script]. inversion H7 as [|? ? Hn7 H7']; subst. cbn [code_of] in Hn7.
  unfold arms in Hc. cbn [filter code_of] in Hc.
  destruct (apply_op_shape fixed base fuel sm code a b settle) as (s1 & f1 & held & next & amb & reg & Hs1 & Hf1 & Heq).
  assert (Hr1 : reachable fixed (sim_dv base all (ps_fault sm)) s0 s1)
    by (destruct Hs1 as [->|[o Ho]]; [exact Hr|eapply r_env; eauto]).
  destruct (code =? 5)%Z eqn:E5.
  - cbn [length] in Hc. destruct Hc as [[Hf Hc]|Hc]; [|discriminate].
    destruct Hf1 as [[Hc' _]|(_ & -> & ->)]; [lia|].
    destruct (Z.eqb_spec code 7); [lia|].
    apply IH; rewrite ?Heq; cbn [ps_st ps_fault]; [exact I| |exact H7'|right; unfold arms; lia].
    rewrite (sim_dv_inside base (sort_desc reg) all); [|exact I].
    apply prio1_sched_run_reachable. rewrite Hf in Hr.
    eapply prio1_reachable_agree; [exact Hr|]. intros k Hk. unfold sim_dv.
    destruct (Nat.eqb_spec k (ncalls (ps_st sm))); [lia|reflexivity].
  - destruct Hf1 as [[_ ->]|[Hc' _]]; [|lia].
    apply IH; rewrite ?Heq; cbn [ps_st ps_fault]; [exact Hin| |exact H7'|exact Hc].
    rewrite (sim_dv_inside base (sort_desc reg) all); [|exact Hin].
    apply prio1_sched_run_reachable. exact Hr1.
Qed.

Theorem prio1_script_reachable_one_fault : forall fixed base fuel sc sm all,
  ps_fault sm = None -> (arms sc <= 1)%nat -> Forall (fun o => code_of o <> 7%Z) sc ->
  reachable fixed (sim_dv base all (ps_fault (run_script fixed base fuel sm sc))) (ps_st sm)
            (ps_st (run_script fixed base fuel sm sc)).
Proof.
  intros fixed base fuel sc sm all Hf Ha H7. apply script_one_fault_aux; [rewrite Hf; exact I| |exact H7|left; split; assumption].
  apply r_init.
Qed.
Print Assumptions prio1_script_reachable_one_fault.

End TieP1.

(* ------------------------------------------------------------------------------------------------------------ *)
(* 3. join / unite                                                                                               *)
(* ------------------------------------------------------------------------------------------------------------ *)
Module TieJ.
Import Join JoinSim.
Import RecordSet RecordSetNotations.
Open Scope Z_scope.

Lemma jrun_snoc c e : forall evs s n s1 o1 s2 o2,
  jrun c s n evs = Some (s1, o1) ->
  Forall (fun e' => ev_time e' <= ev_time e) evs -> n <= ev_time e ->
  jstep c s1 e = Some (s2, o2) ->
  jrun c s n (evs ++ [e]) = Some (s2, o1 ++ o2).
Proof.
  induction evs as [|e0 r IH]; intros s n s1 o1 s2 o2 Hrun Hall Hn Hstep.
  - cbn [jrun] in Hrun. inversion Hrun; subst. cbn [app jrun].
    destruct (Z.leb_spec n (ev_time e)); [|lia]. rewrite Hstep. rewrite app_nil_r. reflexivity.
  - cbn [app jrun] in *. destruct (n <=? ev_time e0); [|discriminate].
    destruct (jstep c s e0) as [[sa oa]|]; [|discriminate].
    destruct (jrun c sa (ev_time e0) r) as [[sb ob]|] eqn:Er; [|discriminate].
    inversion Hrun; subst. inversion Hall as [|? ? He0 Hr']; subst.
    rewrite (IH sa (ev_time e0) s1 ob s2 o2 Er Hr' He0 Hstep). rewrite app_assoc. reflexivity.
Qed.

(* the tie, as a predicate on the discipline state and the clock *)
Definition jtied_dn (c : jcfg) (t0 : Z) (x : jst) (n : Z) : Prop :=
  t0 <= n /\ exists evs o, jrun c (jinit t0) t0 evs = Some (x, o) /\ Forall (fun e => ev_time e <= n) evs.
Definition jtied (c : jcfg) (t0 : Z) (s : jsim) : Prop :=
  exists evs o, jrun c (jinit t0) t0 evs = Some (d s, o) /\ Forall (fun e => ev_time e <= now s) evs.

Lemma jtied_dn_mono c t0 x n n' : jtied_dn c t0 x n -> n <= n' -> jtied_dn c t0 x n'.
Proof.
  intros [H0 (evs & o & Hr & Ha)] Hle. split; [lia|]. exists evs, o. split; [exact Hr|].
  eapply Forall_impl; [|exact Ha]. cbv beta. intros; lia.
Qed.

Lemma jtied_dn_step c t0 x n e x' o' :
  jtied_dn c t0 x n -> ev_time e = n -> jstep c x e = Some (x', o') -> jtied_dn c t0 x' n.
Proof.
  intros [H0 (evs & o & Hr & Ha)] He Hs. split; [exact H0|].
  exists (evs ++ [e]), (o ++ o'). split.
  - eapply jrun_snoc; eauto; [rewrite He; exact Ha|lia].
  - apply Forall_app. split; [exact Ha|]. constructor; [lia|constructor].
Qed.

(* what one step of the simulator does to (d, now) *)
Definition dn_step (c : jcfg) (s s' : jsim) : Prop :=
  (d s' = d s /\ now s <= now s') \/
  (now s' = now s /\ exists e o, ev_time e = now s /\ jstep c (d s) e = Some (d s', o)).

Lemma dn_same c s s' : d s' = d s -> now s' = now s -> dn_step c s s'.
Proof. intros Hd Hn. left. split; [exact Hd|lia]. Qed.

Lemma fire_dn c s e s1 : fire c s e = Some s1 -> ev_time e = now s ->
  now s1 = now s /\ exists e o, ev_time e = now s /\ jstep c (d s) e = Some (d s1, o).
Proof.
  unfold fire. intros Hf He. destruct (jstep c (d s) e) as [[x o]|] eqn:Es; [|discriminate].
  inversion Hf; subst. cbn. split; [reflexivity|]. exists e, o. split; [exact He|exact Es].
Qed.

(* a fire followed by updates of fields other than d and now *)
Lemma fire_map_dn c s e (g : jsim -> jsim) s' :
  (forall x, d (g x) = d x /\ now (g x) = now x) ->
  option_map g (fire c s e) = Some s' -> ev_time e = now s -> dn_step c s s'.
Proof.
  intros Hg Hf He. destruct (fire c s e) as [s1|] eqn:Ef; [|discriminate]. cbn in Hf. inversion Hf; subst.
  destruct (fire_dn c s e s1 Ef He) as [Hn (e' & o & He' & Hs)].
  destruct (Hg s1) as [Hd Hn']. right. split; [congruence|]. exists e', o. split; [exact He'|]. rewrite Hd. exact Hs.
Qed.

Ltac same_dn := apply dn_same; reflexivity.
Ltac fire_dn := eapply fire_map_dn; [|eassumption|reflexivity]; intros; split; reflexivity.

Lemma step_stop_dn c s s' : step_stop c s = Some s' -> dn_step c s s'.
Proof.
  unfold step_stop. intros Hs.
  destruct (negb (stop_called s) && (0 <=? stop_at s) && (stop_at s <=? now s)).
  - fire_dn.
  - destruct (stop_called s && (stop_ret s <? 0) && match pc (d s) with Closed => true | _ => false end); [|discriminate].
    destruct (cons_done s); inversion Hs; subst; same_dn.
Qed.

Lemma step_consumer_dn c s s' : step_consumer c s = Some s' -> dn_step c s s'.
Proof.
  unfold step_consumer. intros Hs.
  destruct (cons_done s); [discriminate|].
  destruct (holding s) as [[until pause]|].
  - destruct (until <=? now s); [|discriminate].
    destruct (nocopy c).
    + destruct (pc (d s)); try discriminate. fire_dn.
    + inversion Hs; subst; same_dn.
  - destruct (cons_at s <=? now s); [|discriminate].
    destruct (obuf s) as [|[sl own] rest].
    + destruct (pc (d s)); try discriminate. inversion Hs; subst; same_dn.
    + destruct (cons_script s) as [|[h p] r]; inversion Hs; subst; same_dn.
Qed.

Lemma step_disc_dn c s s' : step_disc c s = Some s' -> dn_step c s s'.
Proof.
  unfold step_disc. intros Hs.
  destruct (pop_oracle s) as [ob orest].
  destruct (pc (d s)) as [|b own why k|k|].
  - (* Loop *)
    destruct (is_v1 c && stopped (d s) && (ob || negb _)); [fire_dn|].
    destruct ((0 <? interval c) && (next_tick s =? now s)); [fire_dn|].
    destruct (ibuf s) as [|item rest]; [|fire_dn].
    destruct ((icap s =? 0)%nat && negb false && producer_offers s).
    + destruct (prod s) as [|[dl item] rest]; [discriminate|fire_dn].
    + destruct (iclosed s && negb false); [fire_dn|discriminate].
  - (* Sending *)
    destruct (is_v1 c && stopped (d s) && (negb _ || ob)); [fire_dn|].
    destruct (length (obuf s) <? ocap s)%nat; [fire_dn|discriminate].
  - (* AwaitRel *)
    destruct (is_v1 c && stopped (d s)); [|discriminate].
    cbv zeta in Hs. destruct (fire_dn c s (Abort (now s)) s' Hs eq_refl) as [Hn Hex]. right. split; assumption.
  - discriminate.
Qed.

Lemma step_producer_dn c s s' : step_producer s = Some s' -> dn_step c s s'.
Proof.
  unfold step_producer. intros Hs.
  destruct (negb (prod_done s) && (prod_at s <=? now s)); [|discriminate].
  destruct (prod s) as [|[dl item] rest].
  - inversion Hs; subst; same_dn.
  - destruct (length (ibuf s) <? icap s)%nat; [|discriminate]. inversion Hs; subst; same_dn.
Qed.

Lemma zmin_opt_gt n a b t : zmin_opt a b = Some t ->
  (forall x, a = Some x -> n < x) -> (forall x, b = Some x -> n < x) -> n < t.
Proof.
  unfold zmin_opt. intros Hm Ha Hb. destruct a as [x|]; [destruct b as [y|]|].
  - inversion Hm; subst. specialize (Ha x eq_refl). specialize (Hb y eq_refl). lia.
  - inversion Hm; subst. auto.
  - auto.
Qed.

Lemma later_gt s t en x : later s t en = Some x -> now s < x.
Proof.
  unfold later. destruct en; cbn [andb]; [|discriminate].
  destruct (Z.ltb_spec (now s) t); [|discriminate]. intros Hx; inversion Hx; subst; assumption.
Qed.

Lemma next_grid_gt n i : 0 < i -> n < (n / i + 1) * i.
Proof.
  intros Hi. pose proof (Z.div_mod n i ltac:(lia)) as Hdm. pose proof (Z.mod_pos_bound n i Hi) as Hb.
  generalize dependent (n / i). generalize dependent (n mod i). intros r Hr q Hq. nia.
Qed.

Lemma advance_dn c s s' : advance c s = Some s' -> dn_step c s s'.
Proof.
  unfold advance. intros Hs.
  match type of Hs with match ?cand with _ => _ end = _ => destruct cand as [t|] eqn:Ec end; [|discriminate].
  inversion Hs; subst. left. cbn. split; [reflexivity|].
  assert (Hlt : now s < t); [|lia].
  eapply zmin_opt_gt; [exact Ec| |]; [intros x Hx; eapply later_gt; exact Hx|].
  intros x1 Hx1. eapply zmin_opt_gt; [exact Hx1| |]; [intros x Hx; eapply later_gt; exact Hx|].
  intros x2 Hx2. eapply zmin_opt_gt; [exact Hx2| |].
  { intros x Hx. destruct (holding s) as [[u pz]|]; [eapply later_gt; exact Hx|discriminate]. }
  intros x3 Hx3. eapply zmin_opt_gt; [exact Hx3| |]; [intros x Hx; eapply later_gt; exact Hx|].
  intros x Hx. destruct (Z.ltb_spec 0 (interval c)); cbn [andb] in Hx; [|discriminate].
  destruct (pc (d s)); try discriminate. inversion Hx; subst. rewrite Z.sub_0_r. apply next_grid_gt. assumption.
Qed.

Lemma sim_step_dn c s s' : sim_step c s = Some s' -> dn_step c s s'.
Proof.
  unfold sim_step, orelse. intros Hs.
  destruct (step_stop c s) eqn:E1; [inversion Hs; subst; eapply step_stop_dn; eauto|].
  destruct (step_consumer c s) eqn:E2; [inversion Hs; subst; eapply step_consumer_dn; eauto|].
  destruct (step_disc c s) eqn:E3; [inversion Hs; subst; eapply step_disc_dn; eauto|].
  destruct (step_producer s) eqn:E4; [inversion Hs; subst; eapply step_producer_dn; eauto|].
  eapply advance_dn; eauto.
Qed.

Lemma dn_step_tied c t0 s s' : dn_step c s s' -> jtied_dn c t0 (d s) (now s) -> jtied_dn c t0 (d s') (now s').
Proof.
  intros [[Hd Hn]|[Hn (e & o & He & Hs)]] Ht.
  - rewrite Hd. eapply jtied_dn_mono; eauto.
  - rewrite Hn. eapply jtied_dn_step; eauto.
Qed.

(* the simulator states visited from s0 *)
Inductive sim_reach (c : jcfg) (s0 : jsim) : jsim -> Prop :=
| sr_init : sim_reach c s0 s0
| sr_step s s' : sim_reach c s0 s -> sim_step c s = Some s' -> sim_reach c s0 s'.

Lemma jtied_dn_init c t0 : jtied_dn c t0 (jinit t0) t0.
Proof. split; [lia|]. exists [], []. split; [reflexivity|constructor]. Qed.

Theorem joinsim_tied : forall c t0 s0 s, d s0 = jinit t0 -> now s0 = t0 -> sim_reach c s0 s ->
  jtied c t0 s /\ now s0 <= now s.
Proof.
  intros c t0 s0 s Hd Hn Hr.
  assert (Ht : jtied_dn c t0 (d s) (now s)).
  { induction Hr as [|s s' Hr IH Hs].
    - rewrite Hd, Hn. apply jtied_dn_init.
    - eapply dn_step_tied; [eapply sim_step_dn; exact Hs|exact IH]. }
  destruct Ht as [H0 Hex]. split; [exact Hex|lia].
Qed.
Print Assumptions joinsim_tied.

Lemma sim_run_reach c : forall fuel s0 s, sim_reach c s0 s -> sim_reach c s0 (fst (sim_run c fuel s)).
Proof.
  induction fuel as [|f IH]; intros s0 s Hr; [exact Hr|].
  cbn [sim_run]. destruct (sim_step c s) as [s'|] eqn:Es; [|exact Hr].
  apply IH. eapply sr_step; eauto.
Qed.

Theorem joinsim_run_tied : forall c t0 fuel s0, d s0 = jinit t0 -> now s0 = t0 ->
  jtied c t0 (fst (sim_run c fuel s0)).
Proof.
  intros c t0 fuel s0 Hd Hn. eapply joinsim_tied; eauto. apply sim_run_reach. constructor.
Qed.
Print Assumptions joinsim_run_tied.

(* the clock never goes back and every event fired carries the current clock value, hence the event times of the
   whole run are non-decreasing: this is what jrun checks *)
Theorem joinsim_now_mono : forall c s0 s, sim_reach c s0 s -> now s0 <= now s.
Proof.
  intros c s0 s Hr. induction Hr as [|s s' Hr IH Hs]; [lia|].
  apply sim_step_dn in Hs. destruct Hs as [[_ Hn]|[Hn _]]; lia.
Qed.
Print Assumptions joinsim_now_mono.

End TieJ.

(* ------------------------------------------------------------------------------------------------------------ *)
(* 4. limit                                                                                                      *)
(* ------------------------------------------------------------------------------------------------------------ *)
Module TieL.
Import Limit LimitSim.
Import RecordSet RecordSetNotations.
Open Scope Z_scope.

Lemma lrun_snoc c e : forall evs p n p1 o1 p2 o2,
  lrun c p n evs = Some (p1, o1) ->
  Forall (fun e' => lev_time e' <= lev_time e) evs -> n <= lev_time e ->
  lstep c p1 e = Some (p2, o2) ->
  lrun c p n (evs ++ [e]) = Some (p2, o1 ++ o2).
Proof.
  induction evs as [|e0 r IH]; intros p n p1 o1 p2 o2 Hrun Hall Hn Hstep.
  - cbn [lrun] in Hrun. inversion Hrun; subst. cbn [app lrun].
    destruct (Z.leb_spec n (lev_time e)); [|lia]. rewrite Hstep. rewrite app_nil_r. reflexivity.
  - cbn [app lrun] in *. destruct (n <=? lev_time e0); [|discriminate].
    destruct (lstep c p e0) as [[sa oa]|]; [|discriminate].
    destruct (lrun c sa (lev_time e0) r) as [[sb ob]|] eqn:Er; [|discriminate].
    inversion Hrun; subst. inversion Hall as [|? ? He0 Hr']; subst.
    rewrite (IH sa (lev_time e0) p1 ob p2 o2 Er Hr' He0 Hstep). rewrite app_assoc. reflexivity.
Qed.

Definition ltied_dn (c : lcfg) (t0 : Z) (x : lpc) (n : Z) : Prop :=
  t0 <= n /\ exists evs o, lrun c (linit t0) t0 evs = Some (x, o) /\ Forall (fun e => lev_time e <= n) evs.
Definition ltied (c : lcfg) (t0 : Z) (s : lsim) : Prop :=
  exists evs o, lrun c (linit t0) t0 evs = Some (ld s, o) /\ Forall (fun e => lev_time e <= lnow s) evs.

Lemma ltied_dn_mono c t0 x n n' : ltied_dn c t0 x n -> n <= n' -> ltied_dn c t0 x n'.
Proof.
  intros [H0 (evs & o & Hr & Ha)] Hle. split; [lia|]. exists evs, o. split; [exact Hr|].
  eapply Forall_impl; [|exact Ha]. cbv beta. intros; lia.
Qed.

Lemma ltied_dn_step c t0 x n e x' o' :
  ltied_dn c t0 x n -> lev_time e = n -> lstep c x e = Some (x', o') -> ltied_dn c t0 x' n.
Proof.
  intros [H0 (evs & o & Hr & Ha)] He Hs. split; [exact H0|].
  exists (evs ++ [e]), (o ++ o'). split.
  - eapply lrun_snoc; eauto; [rewrite He; exact Ha|lia].
  - apply Forall_app. split; [exact Ha|]. constructor; [lia|constructor].
Qed.

Definition ldn_step (c : lcfg) (s s' : lsim) : Prop :=
  (ld s' = ld s /\ lnow s <= lnow s') \/
  (lnow s' = lnow s /\ exists e o, lev_time e = lnow s /\ lstep c (ld s) e = Some (ld s', o)).

Lemma ldn_same c s s' : ld s' = ld s -> lnow s' = lnow s -> ldn_step c s s'.
Proof. intros Hd Hn. left. split; [exact Hd|lia]. Qed.

Lemma lfire_dn c s e s1 : lfire c s e = Some s1 -> lev_time e = lnow s ->
  lnow s1 = lnow s /\ exists e o, lev_time e = lnow s /\ lstep c (ld s) e = Some (ld s1, o).
Proof.
  unfold lfire. intros Hf He. destruct (lstep c (ld s) e) as [[x o]|] eqn:Es; [|discriminate].
  inversion Hf; subst. cbn. split; [reflexivity|]. exists e, o. split; [exact He|exact Es].
Qed.

Lemma lfire_map_dn c s e (g : lsim -> lsim) s' :
  (forall x, ld (g x) = ld x /\ lnow (g x) = lnow x) ->
  option_map g (lfire c s e) = Some s' -> lev_time e = lnow s -> ldn_step c s s'.
Proof.
  intros Hg Hf He. destruct (lfire c s e) as [s1|] eqn:Ef; [|discriminate]. cbn in Hf. inversion Hf; subst.
  destruct (lfire_dn c s e s1 Ef He) as [Hn (e' & o & He' & Hs)].
  destruct (Hg s1) as [Hd Hn']. right. split; [congruence|]. exists e', o. split; [exact He'|]. rewrite Hd. exact Hs.
Qed.

Lemma lfire_id_dn c s e s' : lfire c s e = Some s' -> lev_time e = lnow s -> ldn_step c s s'.
Proof. intros Hf He. destruct (lfire_dn c s e s' Hf He) as [Hn Hex]. right. split; assumption. Qed.

Ltac lsame_dn := apply ldn_same; reflexivity.
Ltac lfire_dn := eapply lfire_map_dn; [|eassumption|reflexivity]; intros; split; reflexivity.

Lemma lstep_consumer_dn c s s' : lstep_consumer s = Some s' -> ldn_step c s s'.
Proof.
  unfold lstep_consumer. intros Hs.
  destruct (lcons_done s || negb (lcons_at s <=? lnow s)); [discriminate|].
  destruct (lobuf s) as [|x rest].
  - destruct (ld s); try discriminate. inversion Hs; subst; lsame_dn.
  - destruct (lcons_script s) as [|[i p] r]; [inversion Hs; subst; lsame_dn|].
    destruct (i =? lcons_n s); inversion Hs; subst; lsame_dn.
Qed.

Lemma lstep_disc_dn c s s' : lstep_disc c s = Some s' -> ldn_step c s s'.
Proof.
  unfold lstep_disc. intros Hs. cbv zeta in Hs.
  destruct (ld s) as [k b|k b x|u|] eqn:Ed.
  - destruct (libuf s) as [|x rest]; [|lfire_dn].
    destruct ((licap s =? 0)%nat && negb (lprod_done s) && (lprod_at s <=? lnow s) && match lprod s with [] => false | _ => true end);
      [lfire_dn|].
    destruct (liclosed s); [|discriminate]. eapply lfire_id_dn; [exact Hs|reflexivity].
  - destruct (length (lobuf s) <? locap s)%nat; [lfire_dn|discriminate].
  - destruct (u <=? lnow s); [|discriminate]. eapply lfire_id_dn; [exact Hs|reflexivity].
  - discriminate.
Qed.

Lemma lstep_producer_dn c s s' : lstep_producer s = Some s' -> ldn_step c s s'.
Proof.
  unfold lstep_producer. intros Hs.
  destruct (negb (lprod_done s) && (lprod_at s <=? lnow s)); [|discriminate].
  destruct (lprod s) as [|dl rest].
  - inversion Hs; subst; lsame_dn.
  - destruct (length (libuf s) <? licap s)%nat; [|discriminate]. inversion Hs; subst; lsame_dn.
Qed.

Lemma lzmin_gt n a b t : lzmin a b = Some t ->
  (forall x, a = Some x -> n < x) -> (forall x, b = Some x -> n < x) -> n < t.
Proof.
  unfold lzmin. intros Hm Ha Hb. destruct a as [x|]; [destruct b as [y|]|].
  - inversion Hm; subst. specialize (Ha x eq_refl). specialize (Hb y eq_refl). lia.
  - inversion Hm; subst. auto.
  - auto.
Qed.

Lemma llater_gt s t en x : llater s t en = Some x -> lnow s < x.
Proof.
  unfold llater. destruct en; cbn [andb]; [|discriminate].
  destruct (Z.ltb_spec (lnow s) t); [|discriminate]. intros Hx; inversion Hx; subst; assumption.
Qed.

Lemma ladvance_dn c s s' : ladvance s = Some s' -> ldn_step c s s'.
Proof.
  unfold ladvance. intros Hs.
  match type of Hs with match ?cand with _ => _ end = _ => destruct cand as [t|] eqn:Ec end; [|discriminate].
  inversion Hs; subst. left. cbn. split; [reflexivity|].
  assert (Hlt : lnow s < t); [|lia].
  eapply lzmin_gt; [exact Ec| |]; [intros x Hx; eapply llater_gt; exact Hx|].
  intros x1 Hx1. eapply lzmin_gt; [exact Hx1| |]; [intros x Hx; eapply llater_gt; exact Hx|].
  intros x Hx. destruct (ld s); try discriminate. eapply llater_gt; exact Hx.
Qed.

Lemma lsim_step_dn c s s' : lsim_step c s = Some s' -> ldn_step c s s'.
Proof.
  unfold lsim_step, lorelse. intros Hs.
  destruct (lstep_consumer s) eqn:E2; [inversion Hs; subst; eapply lstep_consumer_dn; eauto|].
  destruct (lstep_disc c s) eqn:E3; [inversion Hs; subst; eapply lstep_disc_dn; eauto|].
  destruct (lstep_producer s) eqn:E4; [inversion Hs; subst; eapply lstep_producer_dn; eauto|].
  eapply ladvance_dn; eauto.
Qed.

Lemma ldn_step_tied c t0 s s' : ldn_step c s s' -> ltied_dn c t0 (ld s) (lnow s) -> ltied_dn c t0 (ld s') (lnow s').
Proof.
  intros [[Hd Hn]|[Hn (e & o & He & Hs)]] Ht.
  - rewrite Hd. eapply ltied_dn_mono; eauto.
  - rewrite Hn. eapply ltied_dn_step; eauto.
Qed.

Inductive lsim_reach (c : lcfg) (s0 : lsim) : lsim -> Prop :=
| lsr_init : lsim_reach c s0 s0
| lsr_step s s' : lsim_reach c s0 s -> lsim_step c s = Some s' -> lsim_reach c s0 s'.

Lemma ltied_dn_init c t0 : ltied_dn c t0 (linit t0) t0.
Proof. split; [lia|]. exists [], []. split; [reflexivity|constructor]. Qed.

Theorem limitsim_tied : forall c t0 s0 s, ld s0 = linit t0 -> lnow s0 = t0 -> lsim_reach c s0 s ->
  ltied c t0 s /\ lnow s0 <= lnow s.
Proof.
  intros c t0 s0 s Hd Hn Hr.
  assert (Ht : ltied_dn c t0 (ld s) (lnow s)).
  { induction Hr as [|s s' Hr IH Hs].
    - rewrite Hd, Hn. apply ltied_dn_init.
    - eapply ldn_step_tied; [eapply lsim_step_dn; exact Hs|exact IH]. }
  destruct Ht as [H0 Hex]. split; [exact Hex|lia].
Qed.
Print Assumptions limitsim_tied.

Lemma lsim_run_reach c : forall fuel s0 s, lsim_reach c s0 s -> lsim_reach c s0 (fst (lsim_run c fuel s)).
Proof.
  induction fuel as [|f IH]; intros s0 s Hr; [exact Hr|].
  cbn [lsim_run]. destruct (lsim_step c s) as [s'|] eqn:Es; [|exact Hr].
  apply IH. eapply lsr_step; eauto.
Qed.

Theorem limitsim_run_tied : forall c t0 fuel s0, ld s0 = linit t0 -> lnow s0 = t0 ->
  ltied c t0 (fst (lsim_run c fuel s0)).
Proof.
  intros c t0 fuel s0 Hd Hn. eapply limitsim_tied; eauto. apply lsim_run_reach. constructor.
Qed.
Print Assumptions limitsim_run_tied.

Theorem limitsim_now_mono : forall c s0 s, lsim_reach c s0 s -> lnow s0 <= lnow s.
Proof.
  intros c s0 s Hr. induction Hr as [|s s' Hr IH Hs]; [lia|].
  apply lsim_step_dn in Hs. destruct Hs as [[_ Hn]|[Hn _]]; lia.
Qed.
Print Assumptions limitsim_now_mono.

End TieL.
