(* Coherence of the two generated copies of Rate.IsValid (GenRate.v and GenLimit.v) -- the only facts that need both
   generated files; split off GenTieRate.v so that GenTieRate.v depends on GenRate.v only and GenTieLimit.v on
   GenLimit.v only. *)
From Coq Require Import List NArith ZArith Bool Lia.
From Cqos Require Import GoSem GenRate RateConv GenTieRate GenTieLimit.
From Cqos Require GenLimit.
Import ListNotations.
Open Scope Z_scope.

Definition rate_of_limit (g : GenLimit.Rate) : GenRate.Rate :=
  mk_Rate (GenLimit.Rate_Interval g) (GenLimit.Rate_Quantity g).
Lemma absrL_absr g : absrL g = absr (rate_of_limit g).
Proof. reflexivity. Qed.
(* the same error constant in the two generated units *)
Definition rate_err_of_limit (e : GenLimit.err_Limit) : option err_Rate :=
  match e with
  | GenLimit.ErrInputEmpty => None
  | GenLimit.ErrIntervalNegative => Some ErrIntervalNegative
  | GenLimit.ErrIntervalZero => Some ErrIntervalZero
  | GenLimit.ErrQuantityZero => Some ErrQuantityZero
  end.

Lemma Limit_IsValid_rate w g :
  GenLimit.gen_IsValid w g =
  (w, match snd (gen_IsValid w (rate_of_limit g)) with
      | None => None
      | Some ErrIntervalNegative => Some GenLimit.ErrIntervalNegative
      | Some ErrIntervalZero => Some GenLimit.ErrIntervalZero
      | Some _ => Some GenLimit.ErrQuantityZero
      end).
Proof.
  destruct g as [i q]. unfold GenLimit.gen_IsValid, gen_IsValid, rate_of_limit. cbn.
  destruct (i <? 0); cbn; [reflexivity|].
  destruct (i =? 0); cbn; [reflexivity|].
  destruct (q =? 0)%N; reflexivity.
Qed.

(* the two generated copies of the constants agree *)
Lemma imgL_conv r :
  match imgL (is_valid r) with None => None | Some e => rate_err_of_limit e end = option_map conv (is_valid r).
Proof.
  destruct (is_valid r) as [e|] eqn:Hv; [|reflexivity].
  destruct (GenTieRate.is_valid_errors r e Hv) as [ -> | [ -> | -> ] ]; reflexivity.
Qed.

Example ex_Limit_IsValid_rate :
  GenLimit.gen_IsValid 7 (GenLimit.mk_Rate 0 5) = (7%nat, Some GenLimit.ErrIntervalZero) /\
  gen_IsValid 7 (rate_of_limit (GenLimit.mk_Rate 0 5)) = (7%nat, Some ErrIntervalZero).
Proof. split; [rewrite Limit_IsValid_rate|]; vm_compute; reflexivity. Qed.

Print Assumptions Limit_IsValid_rate.
Print Assumptions imgL_conv.
