(* Tie between the generated program of the v2 priority goroutine (GenConcV2Prio.v, run by GoConc.v) and the hand-written
   program-counter machine Prio2.sched_step: every model pc is a program point (a continuation stack), and every case of
   sched_step is matched by internal steps of the generated program between the corresponding points, resp. by the
   request / answer at a blocking point. *)
From Coq Require Import List NArith ZArith Bool Lia.
From Cqos Require Import Base Divider Sched Prio2 Prio2P GoSem GoConc GenV2Prio GenConcV2Prio
                         GenTiePrio2Base GenTiePrio2Calc GenTiePrio2Term.
Import ListNotations.
Open Scope N_scope.

Definition stmtT := stmt cstate payload chan_id fname.
Definition frameT := frame cstate payload chan_id fname.
Definition cfgT := config cstate payload chan_id fname.

(* ---- n internal steps, relationally *)
Section Reach.
Variable prog : fname -> list stmtT.
Inductive reaches : cfgT -> cfgT -> Prop :=
| r_refl c : reaches c c
| r_step c c' c'' : step1 prog c = Step c' -> reaches c' c'' -> reaches c c''.
Lemma reaches_trans a b c : reaches a b -> reaches b c -> reaches a c.
Proof. induction 1; intros; [assumption|]. eapply r_step; eauto. Qed.
(* internal steps followed by a blocking point: that is what run_to_request returns, with any sufficient fuel *)
Lemma reaches_run a b rq : reaches a b -> step1 prog b = Block rq ->
  exists n, forall fuel, (n <= fuel)%nat -> run_to_request prog fuel a = Some (b, rq).
Proof.
  induction 1 as [c|c c' c'' E _ IH]; intros B.
  - exists 1%nat. intros [|f] L; [lia|]. simpl. now rewrite B.
  - destruct (IH B) as [n Hn]. exists (S n). intros [|f] L; [lia|]. simpl. rewrite E. apply Hn. lia.
Qed.
End Reach.

(* ---- reading the program points off the generated bodies *)
Definition wbody (s : stmtT) : list stmtT := match s with While _ b => b | _ => [] end.
Definition wcond (s : stmtT) : cstate -> bool := match s with While c _ => c | _ => fun _ => false end.
Definition if_then (s : stmtT) : list stmtT := match s with If _ t _ => t | _ => [] end.
Definition if_else (s : stmtT) : list stmtT := match s with If _ _ e => e | _ => [] end.
Definition dbody (s : stmtT) : list stmtT := match s with Defer b => b | _ => [] end.
Definition sel_alt (n : nat) (s : stmtT) : list stmtT :=
  match s with Select alts _ => match nth_error alts n with Some (_, b) => b | None => [] end | _ => [] end.
Definition at_ (n : nat) (l : list stmtT) : stmtT := nth n l Return.

Section Points.
Variable buf : N -> bool.                       (* which inputs are buffered *)
Definition cap_of : chan_id -> Z := fun c => match c with CInput p => if buf p then 1%Z else 0%Z | _ => 0%Z end.
Definition prog := table cap_of.

Definition mainK : list frameT :=
  [KSeq (skipn 5 body_main);
   KCall [dbody (at_ 3 body_main); dbody (at_ 2 body_main); dbody (at_ 1 body_main); dbody (at_ 0 body_main)]].
Definition loopW := at_ 1 body_loop.
Definition loopK (r : list stmtT) : list frameT :=
  KSeq r :: KLoop (wcond loopW) (wbody loopW) :: KSeq [] :: KCall [dbody (at_ 0 body_loop)] :: mainK.
Definition baseK (r : list stmtT) : list frameT := KSeq r :: KCall [] :: loopK (skipn 1 (wbody loopW)).
Definition wctW := at_ 0 body_waitCalcTactic.
Definition wctLoopK : list frameT :=
  KLoop (wcond wctW) (wbody wctW) :: KSeq [] :: KCall [] :: baseK (skipn 2 body_base).
Definition prW := at_ 2 (body_prioritize cap_of).
Definition after_prio (ph : phase) : list stmtT := match ph with P1 => skipn 5 body_base | P2 => skipn 10 body_base end.
Definition prioLoopK (ph : phase) : list frameT :=
  KLoop (wcond prW) (wbody prW) :: KSeq (skipn 3 (body_prioritize cap_of)) :: KCall [] :: baseK (after_prio ph).
Definition ifIO := at_ 2 (wbody prW).
Definition ioW := at_ 1 body_io.
Definition iouW := at_ 2 body_iou.
Definition ioLoopK (ph : phase) : list frameT :=
  KLoop (wcond ioW) (wbody ioW) :: KSeq (skipn 2 body_io) :: KCall [] :: KSeq (skipn 2 (if_then ifIO)) :: KSeq [] :: prioLoopK ph.
Definition iouLoopK (ph : phase) : list frameT :=
  KLoop (wcond iouW) (wbody iouW) :: KSeq (skipn 3 body_iou) :: KCall [] :: KSeq (skipn 2 (if_else ifIO)) :: KSeq [] :: prioLoopK ph.
Definition readK (ph : phase) (p : N) : list frameT := if buf p then ioLoopK ph else iouLoopK ph.
Definition sendK (ph : phase) (p : N) : list frameT :=
  KSeq (skipn 1 body_send) :: KCall [] ::
  (if buf p then KSeq (skipn 3 (sel_alt 0 (at_ 0 (wbody ioW)))) :: KSeq [] :: ioLoopK ph
   else KSeq (skipn 4 (sel_alt 0 (at_ 0 (wbody iouW)))) :: KSeq [] :: iouLoopK ph).
Definition ifZero := at_ 3 (wbody loopW).
Definition glfW := at_ 1 body_getLimitedFeedback.
Definition wzW := at_ 0 body_waitZeroActual.

(* the program point of a model pc *)
Definition stack (c : pc) : list frameT :=
  match c with
  | Calc => wctLoopK
  | WaitFb => KSeq body_getOneFeedback :: KCall [] :: KSeq [] :: wctLoopK
  | Prio ph _ _ => prioLoopK ph
  | Read ph p _ _ _ => readK ph p
  | Prio2.Send ph p _ _ _ => sendK ph p
  | Recalc _ => baseK (after_prio P1)
  | EndBase _ => loopK (skipn 1 (wbody loopW))
  | Idle => KSeq (skipn 2 (if_then ifZero)) :: loopK (skipn 4 (wbody loopW))
  | LimFb _ => KLoop (wcond glfW) (wbody glfW) :: KSeq [] :: KCall [] :: loopK []
  | Drain _ => KLoop (wcond wzW) (wbody wzW) :: KSeq [] :: KCall [] :: KSeq [] :: KCall [] :: mainK
  | Done _ => []
  end.
End Points.

(* ---- the state of a program point *)
Section Sim.
Variable dv : nat -> Divider.
Variable buf : N -> bool.
Notation prog := (prog buf).

(* dsc.tactic is the model's tactic up to entries that are zero or absent (tg: GenTiePrio2Calc.deq); after a divider
   error it is whatever the divider left (the model resets it), and nothing reads it any more *)
Definition sg (s : st) (tg : dist) : st := with_tac s tg (pcs s).
Definition cfg_of (s : st) (g : G) (tg : dist) (unc usf : list N) (ins : list (N * Input)) : cfgT :=
  ((conc dv (sg s tg) unc usf ins, g, ncalls s), stack buf (pcs s)).
Definition trel (c : pc) (tg t : dist) : Prop := match c with Drain _ | Done _ => True | _ => deq tg t end.

Definition conv_oerr (e : option derr) : option err_V2Prio := option_map conv_derr e.

(* what the model's pc data are in the locals of the goroutine (the other locals are dead at that point).
   `processed` is spread over base / prioritize / io|iou; the Go counters are 64-bit, the model's is unbounded. *)
Definition live (c : pc) (g : G) : Prop :=
  match c with
  | Calc | WaitFb => G_base_processed g = 0
  | Prio ph r proc =>
      G_prioritize_rest1 g = r /\ G_base_processed g + G_prioritize_processed g = proc /\ proc < u_modulus
  | Read ph p r proc intr =>
      G_prioritize_rest1 g = r /\ G_prioritize_priority g = p /\ proc < u_modulus /\
      if buf p then G_io_priority g = p /\ G_base_processed g + G_prioritize_processed g + G_io_processed g = proc
      else G_iou_priority g = p /\ G_iou_interrupt g = intr /\
           G_base_processed g + G_prioritize_processed g + G_iou_processed g = proc
  | Prio2.Send ph p x r proc =>
      G_prioritize_rest1 g = r /\ G_prioritize_priority g = p /\ proc < u_modulus /\
      G_send_priority g = p /\ G_send_item g = x /\ G_send_prioritized g = mk_Prioritized x p /\
      if buf p then G_io_priority g = p /\ G_base_processed g + G_prioritize_processed g + G_io_processed g = proc
      else G_iou_priority g = p /\ G_iou_interrupt g = false /\
           G_base_processed g + G_prioritize_processed g + G_iou_processed g = proc
  | Recalc proc => G_base_processed g + G_prioritize_ret0 g = proc /\ proc < u_modulus
  | EndBase proc => G_base_ret0 g = proc /\ G_base_ret1 g = None
  | Idle => True
  | LimFb k => G_getLimitedFeedback_i1 g + N.of_nat k = G_getLimitedFeedback_n2 g /\ G_getLimitedFeedback_n2 g < u_modulus
  | Drain e => G_loop_ret0 g = conv_oerr e
  | Done _ => True
  end.

(* the simulation relation *)
Definition R (s : st) (c : cfgT) : Prop :=
  exists g tg unc usf ins, c = cfg_of s g tg unc usf ins /\ live (pcs s) g /\ ins_rel s ins /\
                           NoDup (keys tg) /\ trel (pcs s) tg (tactic s).

Ltac istep := eapply r_step; [cbn; reflexivity|].
Ltac fin := apply r_refl.
Ltac mkR g unc usf ins := exists g, unc, usf, ins; split; [reflexivity|split; [cbn; try tauto|try assumption]].

(* ---- WaitFb: the blocking point is the receive in getOneFeedback *)
Lemma blocked_waitfb s g tg unc usf ins : pcs s = WaitFb ->
  step1 prog (cfg_of s g tg unc usf ins) = Block (RqRecv CFeedback).
Proof. intros E. unfold cfg_of. rewrite E. reflexivity. Qed.

Lemma sim_waitfb s c p q :
  Inv s -> H s < two64 -> R s c -> pcs s = WaitFb -> fbq s = p :: q ->
  exists c', reaches prog (resume c (AnsRecv (Some (PN p)))) c' /\ R (pop_fb s p q Calc) c'.
Proof.
  intros I HH (g & tg & unc & usf & ins & -> & L & IR & NDg & TR) Epc Efb. destruct (inv_fb_bounds s p q I HH Efb) as [B1 B2].
  unfold cfg_of. rewrite Epc in *. cbn [stack resume].
  eexists. split.
  - cbn. istep. rewrite (tie_decreaseActual dv _ (sg s tg) unc usf ins p q Calc B1 B2). do 3 istep. fin.
  - eexists _, tg, unc, usf, ins. split; [reflexivity|]. split; [exact L|split; [exact IR|split; [exact NDg|exact TR]]].
Qed.

(* ---- Send: the blocking point is the send on the output channel in send() *)
Lemma blocked_send s g tg unc usf ins ph p x r proc : pcs s = Prio2.Send ph p x r proc -> live (pcs s) g ->
  step1 prog (cfg_of s g tg unc usf ins) = Block (RqSend COutput (PPrioritized (mk_Prioritized x p))).
Proof.
  intros E L. unfold cfg_of. rewrite E in *. cbn in L. destruct L as (_ & _ & _ & _ & _ & Hp & _).
  cbn. unfold send_prioritized. cbn. now rewrite Hp.
Qed.

Lemma sim_send s c ph p x r proc :
  Inv s -> H s < two64 -> R s c -> pcs s = Prio2.Send ph p x r proc -> proc + 1 < u_modulus ->
  exists c', reaches prog (resume c AnsOk) c' /\ R (push_out s p x (Read ph p r (proc + 1) false)) c'.
Proof.
  intros I HH (g & tg & unc & usf & ins & -> & L & IR & NDg & TR) Epc Hb.
  destruct (inv_send_bounds s ph p x r proc I HH Epc) as (B1 & B2 & B3).
  assert (TRp : get tg p = get (tactic s) p) by (rewrite Epc in TR; apply TR).
  rewrite <- TRp in B1, B2.
  assert (ND' : NoDup (keys (dec tg p))) by (apply nodup_keys_set; exact NDg).
  assert (TR' : deq (dec tg p) (dec (tactic s) p)) by (apply deq_dec; rewrite Epc in TR; exact TR).
  unfold cfg_of. rewrite Epc in *. cbn in L. destruct L as (L1 & L2 & L3 & L4 & L5 & L6 & L7).
  cbn [stack resume sendK].
  destruct (buf p) eqn:Eb.
  - destruct L7 as [L7 L8]. eexists. split.
    + istep. cbn. rewrite L4. rewrite (tie_decreaseTactic dv _ (sg s tg) unc usf ins p B1 B2).
      istep. cbn. rewrite L4.
      rewrite (tie_increaseActual dv _ (sg s (dec tg p)) unc usf ins p B3).
      do 6 istep. fin.
    + eexists _, (dec tg p), unc, usf, ins.
      split; [unfold cfg_of; cbn [pcs push_out stack]; unfold readK; rewrite Eb; reflexivity|]. split; [|split; [exact IR|split; [exact ND'|exact TR']]].
      cbn. rewrite Eb. rewrite u_add_small by lia. repeat split; try assumption; lia.
  - destruct L7 as (L7 & L8 & L9). eexists. split.
    + istep. cbn. rewrite L4. rewrite (tie_decreaseTactic dv _ (sg s tg) unc usf ins p B1 B2).
      istep. cbn. rewrite L4.
      rewrite (tie_increaseActual dv _ (sg s (dec tg p)) unc usf ins p B3).
      do 6 istep. fin.
    + eexists _, (dec tg p), unc, usf, ins.
      split; [unfold cfg_of; cbn [pcs push_out stack]; unfold readK; rewrite Eb; reflexivity|]. split; [|split; [exact IR|split; [exact ND'|exact TR']]].
      cbn. rewrite Eb. rewrite u_add_small by lia. repeat split; try assumption; lia.
Qed.

Ltac step tac := eapply r_step; [cbn; try tac; reflexivity|].
(* run until the stack is the one of the target program point *)
Ltac runto tac := first [apply r_refl | step tac; runto tac].

Lemma drained_ins s ins p : ins_rel s ins -> In p (prios s) ->
  Input_Drained (aget zero_Input ins p) = drained s p.
Proof.
  intros (ND & Hk & Hd) Hp. apply (Hd p). apply aget_in. now apply Hk.
Qed.

(* ---- Prio: the head of the loop of prioritize() *)
Lemma sim_prio_nil_p1 s c proc :
  R s c -> pcs s = Prio P1 [] proc ->
  exists c', reaches prog c c' /\ R (with_pc s (Recalc proc)) c'.
Proof.
  intros (g & tg & unc & usf & ins & -> & L & IR & NDg & TR) Epc. unfold cfg_of. rewrite Epc in *. cbn in L. destruct L as (L1 & L2 & L3).
  eexists (_, stack buf (Recalc proc)). split.
  - cbn [stack prioLoopK]. runto ltac:(rewrite ?L1).
  - eexists _, tg, unc, usf, ins. split; [reflexivity|]. split; [|split; [exact IR|split; [exact NDg|exact TR]]]. cbn. split; assumption.
Qed.

Lemma sim_prio_nil_p2 s c proc :
  R s c -> pcs s = Prio P2 [] proc ->
  exists c', reaches prog c c' /\ R (with_pc s (EndBase proc)) c'.
Proof.
  intros (g & tg & unc & usf & ins & -> & L & IR & NDg & TR) Epc. unfold cfg_of. rewrite Epc in *. cbn in L. destruct L as (L1 & L2 & L3).
  eexists (_, stack buf (EndBase proc)). split.
  - cbn [stack prioLoopK]. runto ltac:(rewrite ?L1).
  - eexists _, tg, unc, usf, ins. split; [reflexivity|]. split; [|split; [exact IR|split; [exact NDg|exact TR]]]. cbn. rewrite u_add_small by lia. split; [assumption|reflexivity].
Qed.

Lemma sim_prio_drained s c ph p r proc :
  R s c -> pcs s = Prio ph (p :: r) proc -> In p (prios s) -> drained s p = true ->
  exists c', reaches prog c c' /\ R (with_pc s (Prio ph r proc)) c'.
Proof.
  intros (g & tg & unc & usf & ins & -> & L & IR & NDg & TR) Epc Hp Hd. unfold cfg_of. rewrite Epc in *. cbn in L. destruct L as (L1 & L2 & L3).
  eexists (_, stack buf (Prio ph r proc)). split.
  - cbn [stack prioLoopK]. step ltac:(rewrite ?L1).
    runto ltac:(rewrite ?L1; cbn; rewrite ?(drained_ins s ins p IR Hp), ?Hd).
  - eexists _, tg, unc, usf, ins. split; [reflexivity|]. split; [|split; [exact IR|split; [exact NDg|exact TR]]]. cbn. rewrite ?L1. cbn. repeat split; assumption.
Qed.

Lemma sim_prio_read s c ph p r proc :
  R s c -> pcs s = Prio ph (p :: r) proc -> In p (prios s) -> drained s p = false ->
  exists c', reaches prog c c' /\ R (with_pc s (Read ph p r proc false)) c'.
Proof.
  intros (g & tg & unc & usf & ins & -> & L & IR & NDg & TR) Epc Hp Hd. unfold cfg_of. rewrite Epc in *. cbn in L. destruct L as (L1 & L2 & L3).
  destruct (buf p) eqn:Eb.
  - eexists (_, stack buf (Read ph p r proc false)). split.
    + unfold stack, readK. rewrite Eb.
      runto ltac:(rewrite ?L1; cbn; rewrite ?(drained_ins s ins p IR Hp), ?Hd, ?Eb).
    + eexists _, tg, unc, usf, ins. split; [reflexivity|].
      split; [|split; [exact IR|split; [exact NDg|exact TR]]]. cbn. rewrite ?L1. cbn. rewrite Eb. repeat split; try assumption; lia.
  - eexists (_, stack buf (Read ph p r proc false)). split.
    + unfold stack, readK. rewrite Eb.
      runto ltac:(rewrite ?L1; cbn; rewrite ?(drained_ins s ins p IR Hp), ?Hd, ?Eb).
    + eexists _, tg, unc, usf, ins. split; [reflexivity|].
      split; [|split; [exact IR|split; [exact NDg|exact TR]]]. cbn. rewrite ?L1. cbn. rewrite Eb. repeat split; try assumption; lia.
Qed.

(* ---- Read: the head of the loop of io() (buffered input) resp. iou() (unbuffered input) *)
Lemma sim_read_zero s c ph p r proc intr :
  R s c -> pcs s = Read ph p r proc intr -> get (tactic s) p = 0 ->
  exists c', reaches prog c c' /\ R (with_pc s (Prio ph r proc)) c'.
Proof.
  intros (g & tg & unc & usf & ins & -> & L & IR & NDg & TR) Epc Ht. unfold cfg_of. rewrite Epc in *. cbn in L.
  assert (Ht' : get tg p = 0) by (rewrite (TR p); exact Ht).
  destruct L as (L1 & L2 & L3 & L4). destruct (buf p) eqn:Eb.
  - destruct L4 as (L4 & L5). eexists (_, stack buf (Prio ph r proc)). split.
    + unfold stack, readK. rewrite Eb. runto ltac:(rewrite ?L4, ?aget_get, ?Ht').
    + eexists _, tg, unc, usf, ins. split; [reflexivity|]. split; [|split; [exact IR|split; [exact NDg|exact TR]]]. cbn.
      rewrite u_add_small by lia. repeat split; try assumption; lia.
  - destruct L4 as (L4 & L5 & L6). eexists (_, stack buf (Prio ph r proc)). split.
    + unfold stack, readK. rewrite Eb. runto ltac:(rewrite ?L4, ?aget_get, ?Ht').
    + eexists _, tg, unc, usf, ins. split; [reflexivity|]. split; [|split; [exact IR|split; [exact NDg|exact TR]]]. cbn.
      rewrite u_add_small by lia. repeat split; try assumption; lia.
Qed.

(* the blocking point: the select; the request names the input (and the ticker for an unbuffered input) *)
Definition read_request (p : N) : request payload chan_id :=
  if buf p then RqSelect [(CInput p, None)] true else RqSelect [(CInput p, None); (CTick, None)] false.

Definition selK (ph : phase) (p : N) : list frameT :=
  if buf p then KSeq (wbody ioW) :: ioLoopK buf ph else KSeq (wbody iouW) :: iouLoopK buf ph.

Lemma blocked_read s g tg unc usf ins ph p r proc intr :
  pcs s = Read ph p r proc intr -> live (pcs s) g -> trel (pcs s) tg (tactic s) -> get (tactic s) p <> 0 ->
  reaches prog (cfg_of s g tg unc usf ins) ((conc dv (sg s tg) unc usf ins, g, ncalls s), selK ph p) /\
  step1 prog ((conc dv (sg s tg) unc usf ins, g, ncalls s), selK ph p) = Block (read_request p).
Proof.
  intros Epc L TR Ht. unfold cfg_of. rewrite Epc in *. cbn in L. destruct L as (L1 & L2 & L3 & L4).
  rewrite <- (TR p) in Ht. apply N.eqb_neq in Ht. unfold selK, read_request, stack, readK. destruct (buf p) eqn:Eb.
  - destruct L4 as (L4 & L5). split.
    + step ltac:(rewrite ?L4, ?aget_get, ?Ht). apply r_refl.
    + cbn. now rewrite L4.
  - destruct L4 as (L4 & L5 & L6). split.
    + step ltac:(rewrite ?L4, ?aget_get, ?Ht). apply r_refl.
    + cbn. now rewrite L4.
Qed.

(* an item arrives: on to the send *)
Lemma sim_read_item s g tg unc usf ins ph p r proc intr x q :
  pcs s = Read ph p r proc intr -> live (pcs s) g -> ins_rel s ins -> NoDup (keys tg) -> trel (pcs s) tg (tactic s) -> inq s p = x :: q ->
  exists c', reaches prog (resume ((conc dv (sg s tg) unc usf ins, g, ncalls s), selK ph p) (AnsSel 0 (Some (PN x)))) c' /\
             R (pop_in s p q (Prio2.Send ph p x r proc)) c'.
Proof.
  intros Epc L IR NDg TR Hq. rewrite Epc in *. cbn in L. destruct L as (L1 & L2 & L3 & L4). unfold selK.
  destruct (buf p) eqn:Eb.
  - destruct L4 as (L4 & L5). eexists (_, stack buf (Prio2.Send ph p x r proc)). split.
    + unfold stack, sendK. rewrite Eb. cbn [resume wbody ioW at_ nth body_io nth_error]. runto ltac:(rewrite ?L4).
    + eexists _, tg, unc, usf, ins. split; [reflexivity|]. split; [|split; [exact IR|split; [exact NDg|exact TR]]]. cbn. rewrite ?L4, Eb.
      repeat split; try assumption; lia.
  - destruct L4 as (L4 & L5 & L6). eexists (_, stack buf (Prio2.Send ph p x r proc)). split.
    + unfold stack, sendK. rewrite Eb. cbn [resume wbody iouW at_ nth body_iou nth_error]. runto ltac:(rewrite ?L4).
    + eexists _, tg, unc, usf, ins. split; [reflexivity|]. split; [|split; [exact IR|split; [exact NDg|exact TR]]]. cbn. rewrite ?L4, Eb.
      repeat split; try assumption; lia.
Qed.

(* the input is closed and empty: mark it drained, back to prioritize *)
Lemma sim_read_closed s g tg unc usf ins ph p r proc intr :
  pcs s = Read ph p r proc intr -> live (pcs s) g -> ins_rel s ins -> NoDup (keys tg) -> trel (pcs s) tg (tactic s) -> In p (prios s) ->
  exists c', reaches prog (resume ((conc dv (sg s tg) unc usf ins, g, ncalls s), selK ph p) (AnsSel 0 None)) c' /\
             R (mark_drained s p (Prio ph r proc)) c'.
Proof.
  intros Epc L IR NDg TR Hp. rewrite Epc in *. cbn in L. destruct L as (L1 & L2 & L3 & L4). unfold selK.
  destruct (tie_markInputAsDrained dv (ncalls s) (sg s tg) unc usf ins p (Prio ph r proc) IR Hp) as (ins' & Em & IR').
  destruct (buf p) eqn:Eb.
  - destruct L4 as (L4 & L5). eexists (_, stack buf (Prio ph r proc)). split.
    + unfold stack. cbn [resume wbody ioW at_ nth body_io nth_error]. runto ltac:(rewrite ?L4, ?Em).
    + eexists _, tg, unc, usf, ins'. split; [reflexivity|]. split; [|split; [exact IR'|split; [exact NDg|exact TR]]]. cbn.
      rewrite u_add_small by lia. repeat split; try assumption; lia.
  - destruct L4 as (L4 & L5 & L6). eexists (_, stack buf (Prio ph r proc)). split.
    + unfold stack. cbn [resume wbody iouW at_ nth body_iou nth_error]. runto ltac:(rewrite ?L4, ?Em).
    + eexists _, tg, unc, usf, ins'. split; [reflexivity|]. split; [|split; [exact IR'|split; [exact NDg|exact TR]]]. cbn.
      rewrite u_add_small by lia. repeat split; try assumption; lia.
Qed.

(* buffered input, nothing there: the default branch of io() *)
Lemma sim_read_default s g tg unc usf ins ph p r proc intr :
  pcs s = Read ph p r proc intr -> live (pcs s) g -> ins_rel s ins -> NoDup (keys tg) -> trel (pcs s) tg (tactic s) -> buf p = true ->
  exists c', reaches prog (resume ((conc dv (sg s tg) unc usf ins, g, ncalls s), selK ph p) AnsDefault) c' /\
             R (with_pc s (Prio ph r proc)) c'.
Proof.
  intros Epc L IR NDg TR Eb. rewrite Epc in *. cbn in L. destruct L as (L1 & L2 & L3 & L4). unfold selK. rewrite Eb in *.
  destruct L4 as (L4 & L5). eexists (_, stack buf (Prio ph r proc)). split.
  - unfold stack. cbn [resume wbody ioW at_ nth body_io nth_error]. runto idtac.
  - eexists _, tg, unc, usf, ins. split; [reflexivity|]. split; [|split; [exact IR|split; [exact NDg|exact TR]]]. cbn.
    rewrite u_add_small by lia. repeat split; try assumption; lia.
Qed.

(* unbuffered input, a tick of the interrupter: the first one is remembered, the second one ends the wait *)
Lemma sim_read_tick1 s g tg unc usf ins ph p r proc :
  pcs s = Read ph p r proc false -> live (pcs s) g -> ins_rel s ins -> NoDup (keys tg) -> trel (pcs s) tg (tactic s) -> buf p = false ->
  exists c', reaches prog (resume ((conc dv (sg s tg) unc usf ins, g, ncalls s), selK ph p) (AnsSel 1 None)) c' /\
             R (with_pc s (Read ph p r proc true)) c'.
Proof.
  intros Epc L IR NDg TR Eb. rewrite Epc in *. cbn in L. destruct L as (L1 & L2 & L3 & L4). unfold selK. rewrite Eb in *.
  destruct L4 as (L4 & L5 & L6). eexists (_, stack buf (Read ph p r proc true)). split.
  - unfold stack, readK. rewrite Eb. cbn [resume wbody iouW at_ nth body_iou nth_error].
    step ltac:(rewrite ?L5). runto ltac:(rewrite ?L5).
  - eexists _, tg, unc, usf, ins. split; [reflexivity|]. split; [|split; [exact IR|split; [exact NDg|exact TR]]]. cbn. rewrite Eb.
    repeat split; try assumption; lia.
Qed.

Lemma sim_read_tick2 s g tg unc usf ins ph p r proc :
  pcs s = Read ph p r proc true -> live (pcs s) g -> ins_rel s ins -> NoDup (keys tg) -> trel (pcs s) tg (tactic s) -> buf p = false ->
  exists c', reaches prog (resume ((conc dv (sg s tg) unc usf ins, g, ncalls s), selK ph p) (AnsSel 1 None)) c' /\
             R (with_pc s (Prio ph r proc)) c'.
Proof.
  intros Epc L IR NDg TR Eb. rewrite Epc in *. cbn in L. destruct L as (L1 & L2 & L3 & L4). unfold selK. rewrite Eb in *.
  destruct L4 as (L4 & L5 & L6). eexists (_, stack buf (Prio ph r proc)). split.
  - unfold stack. cbn [resume wbody iouW at_ nth body_iou nth_error]. runto ltac:(rewrite ?L5).
  - eexists _, tg, unc, usf, ins. split; [reflexivity|]. split; [|split; [exact IR|split; [exact NDg|exact TR]]]. cbn.
    rewrite u_add_small by lia. repeat split; try assumption; lia.
Qed.

(* ---- EndBase: base() has returned (processed, nil) into loop() *)
Lemma sim_endbase_more s c proc :
  R s c -> pcs s = EndBase proc -> proc <> 0 -> N.of_nat (fblimit s) < u_modulus ->
  exists c', reaches prog c c' /\ R (with_pc s (LimFb (fblimit s))) c'.
Proof.
  intros (g & tg & unc & usf & ins & -> & L & IR & NDg & TR) Epc Hp Hl. unfold cfg_of. rewrite Epc in *. cbn in L. destruct L as (L1 & L2).
  apply N.eqb_neq in Hp. eexists (_, stack buf (LimFb (fblimit s))). split.
  - unfold stack. runto ltac:(rewrite ?L1, ?L2, ?Hp).
  - eexists _, tg, unc, usf, ins. split; [reflexivity|]. split; [|split; [exact IR|split; [exact NDg|exact TR]]]. cbn. split; [reflexivity|exact Hl].
Qed.

Lemma sim_endbase_drained s c :
  R s c -> pcs s = EndBase 0 -> forallb (drained s) (prios s) = true ->
  exists c', reaches prog c c' /\ R (with_pc s (Drain None)) c'.
Proof.
  intros (g & tg & unc & usf & ins & -> & L & IR & NDg & TR) Epc Hd. unfold cfg_of. rewrite Epc in *. cbn in L. destruct L as (L1 & L2).
  eexists (_, stack buf (Drain None)). split.
  - unfold stack. runto ltac:(rewrite ?L1, ?L2, ?(tie_isDrainedInputs dv _ (sg s tg) unc usf ins IR), ?Hd).
  - eexists _, tg, unc, usf, ins. split; [reflexivity|]. split; [|split; [exact IR|split; [exact NDg|exact Logic.I]]]. reflexivity.
Qed.

Lemma sim_endbase_idle s c :
  R s c -> pcs s = EndBase 0 -> forallb (drained s) (prios s) = false ->
  exists c', reaches prog c c' /\ R (with_pc s Idle) c' /\ step1 prog c' = Block (RqSleep 1%Z).
Proof.
  intros (g & tg & unc & usf & ins & -> & L & IR & NDg & TR) Epc Hd. unfold cfg_of. rewrite Epc in *. cbn in L. destruct L as (L1 & L2).
  eexists (_, stack buf Idle). split; [|split].
  - unfold stack. runto ltac:(rewrite ?L1, ?L2, ?(tie_isDrainedInputs dv _ (sg s tg) unc usf ins IR), ?Hd).
  - eexists _, tg, unc, usf, ins. split; [reflexivity|]. split; [exact I|split; [exact IR|split; [exact NDg|exact TR]]].
  - reflexivity.
Qed.

(* ---- Idle: the sleep has ended *)
Lemma sim_idle s c :
  R s c -> pcs s = Idle -> N.of_nat (fblimit s) < u_modulus ->
  exists c', reaches prog (resume c AnsOk) c' /\ R (with_pc s (LimFb (fblimit s))) c'.
Proof.
  intros (g & tg & unc & usf & ins & -> & L & IR & NDg & TR) Epc Hl. unfold cfg_of. rewrite Epc in *.
  eexists (_, stack buf (LimFb (fblimit s))). split.
  - unfold stack. cbn [resume ifZero if_then loopW wbody at_ nth body_loop skipn]. runto idtac.
  - eexists _, tg, unc, usf, ins. split; [reflexivity|]. split; [|split; [exact IR|split; [exact NDg|exact TR]]]. cbn. split; [reflexivity|exact Hl].
Qed.

(* ---- LimFb: the head of the loop of getLimitedFeedback() *)
Lemma sim_limfb_zero s c :
  R s c -> pcs s = LimFb 0 ->
  exists c', reaches prog c c' /\ R (with_pc s Calc) c'.
Proof.
  intros (g & tg & unc & usf & ins & -> & L & IR & NDg & TR) Epc. unfold cfg_of. rewrite Epc in *. cbn in L. destruct L as (L1 & L2).
  rewrite N.add_0_r in L1.
  eexists (_, stack buf Calc). split.
  - unfold stack. runto ltac:(rewrite ?L1, ?N.ltb_irrefl).
  - eexists _, tg, unc, usf, ins. split; [reflexivity|]. split; [|split; [exact IR|split; [exact NDg|exact TR]]]. reflexivity.
Qed.

Definition glfSelK : list frameT := KSeq (skipn 1 (wbody glfW)) :: stack buf (LimFb 0).

Lemma blocked_limfb s g tg unc usf ins k :
  pcs s = LimFb (S k) -> live (pcs s) g ->
  exists g', reaches prog (cfg_of s g tg unc usf ins) ((conc dv (sg s tg) unc usf ins, g', ncalls s), glfSelK) /\
             step1 prog ((conc dv (sg s tg) unc usf ins, g', ncalls s), glfSelK) = Block (RqSelect [(CFeedback, None)] true) /\
             live (LimFb k) g'.
Proof.
  intros Epc L. unfold cfg_of. rewrite Epc in *. cbn in L. destruct L as (L1 & L2).
  assert (Hlt : (G_getLimitedFeedback_i1 g <? G_getLimitedFeedback_n2 g) = true) by (apply N.ltb_lt; lia).
  eexists. split; [|split].
  - unfold stack, glfSelK. step ltac:(rewrite ?Hlt). step idtac. apply r_refl.
  - reflexivity.
  - cbn. rewrite u_add_small by lia. split; [lia|exact L2].
Qed.

Lemma sim_limfb_recv s g tg unc usf ins k p q :
  Inv s -> H s < two64 -> pcs s = LimFb (S k) -> live (LimFb k) g -> ins_rel s ins -> NoDup (keys tg) -> deq tg (tactic s) ->
  fbq s = p :: q ->
  exists c', reaches prog (resume ((conc dv (sg s tg) unc usf ins, g, ncalls s), glfSelK) (AnsSel 0 (Some (PN p)))) c' /\
             R (pop_fb s p q (LimFb k)) c'.
Proof.
  intros I HH Epc L IR NDg TR Efb. destruct (inv_fb_bounds s p q I HH Efb) as [B1 B2].
  eexists (_, stack buf (LimFb k)). split.
  - unfold glfSelK, stack. cbn [resume glfW wbody at_ nth body_getLimitedFeedback skipn nth_error].
    step idtac. runto ltac:(rewrite ?(tie_decreaseActual dv _ (sg s tg) unc usf ins p q (LimFb k) B1 B2)).
  - eexists _, tg, unc, usf, ins. split; [reflexivity|]. split; [exact L|split; [exact IR|split; [exact NDg|exact TR]]].
Qed.

Lemma sim_limfb_default s g tg unc usf ins k :
  pcs s = LimFb (S k) -> ins_rel s ins -> NoDup (keys tg) -> deq tg (tactic s) ->
  exists c', reaches prog (resume ((conc dv (sg s tg) unc usf ins, g, ncalls s), glfSelK) AnsDefault) c' /\ R (with_pc s Calc) c'.
Proof.
  intros Epc IR NDg TR.
  eexists (_, stack buf Calc). split.
  - unfold glfSelK, stack. cbn [resume glfW wbody at_ nth body_getLimitedFeedback skipn nth_error]. runto idtac.
  - eexists _, tg, unc, usf, ins. split; [reflexivity|]. split; [|split; [exact IR|split; [exact NDg|exact TR]]]. reflexivity.
Qed.

(* ---- Drain: the head of the loop of the deferred waitZeroActual() *)
Definition wzRecvK (e : option derr) : list frameT := KSeq (skipn 2 (wbody wzW)) :: stack buf (Drain e).

(* actual is not all zero: the blocking point is the receive of a feedback *)
Lemma blocked_drain s c e :
  R s c -> pcs s = Drain e -> sum (actual s) <> 0 ->
  exists v, reaches prog c (v, wzRecvK e) /\ step1 prog (v, wzRecvK e) = Block (RqRecv CFeedback) /\
            R s (v, stack buf (pcs s)).
Proof.
  intros (g & tg & unc & usf & ins & -> & L & IR & NDg & TR) Epc Hs. unfold cfg_of. rewrite Epc in *. apply N.eqb_neq in Hs.
  eexists. split; [|split].
  - unfold stack, wzRecvK. step idtac.
    step ltac:(rewrite ?(tie_isZeroActual dv _ (sg s tg) unc usf ins); cbn; rewrite ?Hs).
    step ltac:(rewrite ?(tie_isZeroActual dv _ (sg s tg) unc usf ins); cbn; rewrite ?Hs).
    step idtac. apply r_refl.
  - reflexivity.
  - unfold R, cfg_of. rewrite Epc. eexists _, tg, unc, usf, ins. split; [reflexivity|]. split; [exact L|split; [exact IR|split; [exact NDg|exact TR]]].
Qed.

Lemma sim_drain_recv s v e p q :
  Inv s -> H s < two64 -> R s (v, stack buf (pcs s)) -> pcs s = Drain e -> fbq s = p :: q ->
  exists c', reaches prog (resume (v, wzRecvK e) (AnsRecv (Some (PN p)))) c' /\ R (pop_fb s p q (Drain e)) c'.
Proof.
  intros I HH (g & tg & unc & usf & ins & E & L & IR & NDg & TR) Epc Efb. unfold cfg_of in E. rewrite Epc in *. injection E as ->.
  destruct (inv_fb_bounds s p q I HH Efb) as [B1 B2].
  eexists (_, stack buf (Drain e)). split.
  - unfold stack, wzRecvK. cbn [resume wzW wbody at_ nth body_waitZeroActual skipn].
    step ltac:(rewrite ?(tie_decreaseActual dv _ (sg s tg) unc usf ins p q (Drain e) B1 B2)).
    runto idtac.
  - eexists _, tg, unc, usf, ins. split; [reflexivity|]. split; [exact L|split; [exact IR|split; [exact NDg|exact Logic.I]]].
Qed.

(* actual is all zero: the goroutine ends.  The requests that follow: the error (if any) is sent on err, then the deferred
   statements of main() in reverse order: the ticker is stopped, feedback, output and err are closed; then it is done.
   (The model does all of this in the one step Drain e -> Done e.) *)
Fixpoint trace (fuel : nat) (c : cfgT) (n : nat) : list (request payload chan_id) :=
  match n with
  | O => []
  | S m => match run_to_request prog fuel c with
           | Some (c', rq) => rq :: trace fuel (resume c' AnsOk) m
           | None => []
           end
  end.

Definition end_trace (e : option derr) : list (request payload chan_id) :=
  match e with
  | Some x => [RqSend CErr (PErr (Some (conv_derr x))); RqTickerStop; RqClose CFeedback; RqClose COutput; RqClose CErr; RqDone]
  | None => [RqTickerStop; RqClose CFeedback; RqClose COutput; RqClose CErr; RqDone; RqDone]
  end.

Lemma sim_drain_end s c e :
  R s c -> pcs s = Drain e -> sum (actual s) = 0 -> trace 100 c 6 = end_trace e.
Proof.
  intros (g & tg & unc & usf & ins & -> & L & IR & NDg & TR) Epc Hs. unfold cfg_of. rewrite Epc in *. cbn in L. apply N.eqb_eq in Hs.
  destruct e as [x|]; cbn in L.
  - unfold trace, stack, end_trace. cbn [run_to_request].
    cbn. rewrite (tie_isZeroActual dv _ (sg s tg) unc usf ins). cbn. rewrite Hs. cbn.
    rewrite L. reflexivity.
  - unfold trace, stack, end_trace. cbn [run_to_request].
    cbn. rewrite (tie_isZeroActual dv _ (sg s tg) unc usf ins). cbn. rewrite Hs. cbn.
    rewrite L. reflexivity.
Qed.

(* ---- Calc: the head of the loop of waitCalcTactic(), all three exits (the third one: a divider error, through the
   returns of waitCalcTactic / base / loop into the deferred waitZeroActual) *)
Section Dividers.
Hypothesis dv_wf : forall k ps n d, NoDup (keys d) -> NoDup (keys (dv k ps n d)).
Hypothesis dv_ext : forall k ps n d d', NoDup (keys d) -> NoDup (keys d') -> deq d d' -> deq (dv k ps n d) (dv k ps n d').

Lemma step_calc_shape s :
  let s' := step_calc dv s in
  prios s' = prios s /\ drained s' = drained s /\
  (pcs s' = WaitFb \/ pcs s' = Prio P1 (prios s) 0 \/ exists e, pcs s' = Drain (Some e)).
Proof.
  unfold step_calc, calc_base.
  destruct (H s - sum (actual s) =? 0); [cbn; auto|].
  destruct (add_up _ _ _ _ _) as [[t pk]|].
  - destruct (pk =? _); [cbn; auto|].
    destruct (safe_divide _ _ _ _); cbn; [|repeat split; eauto]. destruct (filled _ _); auto.
  - destruct (safe_divide _ _ _ _); cbn; [|repeat split; eauto]. destruct (filled _ _); auto.
Qed.

Lemma sim_calc s c :
  R s c -> pcs s = Calc -> Inv s -> H s < two64 -> sum (strategic s) < two64 ->
  exists c', reaches prog c c' /\ R (step_calc dv s) c'.
Proof.
  intros (g & tg & unc & usf & ins & -> & L & IR & NDg & TR) Epc I HH Hstr.
  assert (TRd : deq tg (tactic s)) by (rewrite Epc in TR; exact TR).
  destruct (tie_calcTactic_sim dv s tg unc usf ins dv_wf dv_ext NDg TRd (i_ndt s I) (i_ndp s I) (i_cap s I) HH Hstr)
    as (tg' & T & NDg' & Hd'). cbn zeta in T.
  destruct (step_calc_shape s) as (Hp & Hdr & Hpc).
  assert (IR' : ins_rel (step_calc dv s) ins) by (unfold ins_rel in *; rewrite Hp, Hdr; exact IR).
  unfold cfg_of, sg. rewrite Epc in *. cbn in L.
  destruct Hpc as [E|[E|[e E]]].
  - eexists (_, stack buf WaitFb). split.
    + unfold stack. step idtac. runto ltac:(rewrite ?T, ?E; cbn).
    + eexists _, tg', _, usf, ins. split; [unfold cfg_of, sg; rewrite E; reflexivity|]. rewrite E.
      split; [exact L|split; [exact IR'|split; [exact NDg'|]]].
      apply Hd'. intros e0. rewrite E. discriminate.
  - eexists (_, stack buf (Prio P1 (prios s) 0)). split.
    + unfold stack. step idtac. runto ltac:(rewrite ?T, ?E; cbn; rewrite ?L).
    + eexists _, tg', _, usf, ins. split; [unfold cfg_of, sg; rewrite E; reflexivity|]. rewrite E.
      split; [|split; [exact IR'|split; [exact NDg'|]]].
      * cbn. rewrite ?L, ?Hp. repeat split; reflexivity.
      * apply Hd'. intros e0. rewrite E. discriminate.
  - eexists (_, stack buf (Drain (Some e))). split.
    + unfold stack. step idtac. runto ltac:(rewrite ?T, ?E; cbn; rewrite ?L).
    + eexists _, tg', _, usf, ins. split; [unfold cfg_of, sg; rewrite E; reflexivity|]. rewrite E.
      split; [reflexivity|split; [exact IR'|split; [exact NDg'|exact Logic.I]]].
Qed.

(* ---- Recalc: base() after the first prioritize(), all three exits *)
Lemma step_recalc_shape s proc :
  let s' := step_recalc dv s proc in
  prios s' = prios s /\ drained s' = drained s /\
  (pcs s' = Prio P2 (prios s) proc \/ pcs s' = EndBase proc \/ exists e, pcs s' = Drain (Some e)).
Proof.
  unfold step_recalc.
  destruct (safe_divide _ _ _ _); cbn; [|repeat split; eauto].
  destruct (safe_divide _ _ _ _); cbn; [|repeat split; eauto]. destruct (filled _ _); auto.
Qed.

Lemma sim_recalc s c proc :
  R s c -> pcs s = Recalc proc -> Inv s -> H s < two64 ->
  exists c', reaches prog c c' /\ R (step_recalc dv s proc) c'.
Proof.
  intros (g & tg & unc & usf & ins & -> & L & IR & NDg & TR) Epc I HH.
  assert (TRd : deq tg (tactic s)) by (rewrite Epc in TR; exact TR).
  assert (Hsum : sum (tactic s) < two64).
  { pose proof (i_round s I) as Hr. rewrite Epc in Hr. specialize (Hr eq_refl). lia. }
  destruct (tie_recalcTactic_sim dv s tg proc unc usf ins dv_wf dv_ext NDg TRd (i_ndt s I) Hsum) as (tg' & T & NDg' & Hd').
  cbn zeta in T.
  destruct (step_recalc_shape s proc) as (Hp & Hdr & Hpc).
  assert (IR' : ins_rel (step_recalc dv s proc) ins) by (unfold ins_rel in *; rewrite Hp, Hdr; exact IR).
  unfold cfg_of, sg. rewrite Epc in *. cbn in L. destruct L as (L1 & L2).
  destruct Hpc as [E|[E|[e E]]].
  - eexists (_, stack buf (Prio P2 (prios s) proc)). split.
    + unfold stack. runto ltac:(rewrite ?T, ?E; cbn).
    + eexists _, tg', unc, _, ins. split; [unfold cfg_of, sg; rewrite E; reflexivity|]. rewrite E.
      split; [|split; [exact IR'|split; [exact NDg'|]]].
      * cbn. rewrite ?Hp, u_add_small by lia. repeat split; try lia; reflexivity.
      * apply Hd'. intros e0. rewrite E. discriminate.
  - eexists (_, stack buf (EndBase proc)). split.
    + unfold stack. runto ltac:(rewrite ?T, ?E; cbn).
    + eexists _, tg', unc, _, ins. split; [unfold cfg_of, sg; rewrite E; reflexivity|]. rewrite E.
      split; [|split; [exact IR'|split; [exact NDg'|]]].
      * cbn. rewrite u_add_small by lia. split; [lia|reflexivity].
      * apply Hd'. intros e0. rewrite E. discriminate.
  - eexists (_, stack buf (Drain (Some e))). split.
    + unfold stack. runto ltac:(rewrite ?T, ?E; cbn).
    + eexists _, tg', unc, _, ins. split; [unfold cfg_of, sg; rewrite E; reflexivity|]. rewrite E.
      split; [reflexivity|split; [exact IR'|split; [exact NDg'|exact Logic.I]]].
Qed.

(* ---- Drain e with actual all zero -> Done e, as moves of the program: [send the error;] stop the ticker, close feedback,
   output, err (each request answered AnsOk); afterwards the program is done *)
Ltac runblock tac := first [eapply r_step; [cbn; try tac; reflexivity|]; runblock tac | apply r_refl].

(* the program goes from c to c': internal steps, and for every answer in the list a request that gets this answer *)
Fixpoint moves (l : list (answer payload)) (c c' : cfgT) : Prop :=
  match l with
  | [] => reaches prog c c'
  | a :: r => exists cb rq, reaches prog c cb /\ step1 prog cb = Block rq /\ moves r (resume cb a) c'
  end.

Lemma sim_drain_done s c e :
  R s c -> pcs s = Drain e -> sum (actual s) = 0 ->
  exists c', moves (match e with Some _ => [AnsOk; AnsOk; AnsOk; AnsOk; AnsOk] | None => [AnsOk; AnsOk; AnsOk; AnsOk] end) c c' /\
             R (with_pc s (Done e)) c' /\ step1 prog c' = Block RqDone.
Proof.
  intros (g & tg & unc & usf & ins & -> & L & IR & NDg & TR) Epc Hs. unfold cfg_of. rewrite Epc in *. cbn in L. apply N.eqb_eq in Hs.
  pose proof (tie_isZeroActual dv (ncalls s) (sg s tg) unc usf ins) as Z.
  destruct e as [x|]; cbn in L.
  - eexists (_, []). split; [|split].
    + unfold moves, stack.
      eexists _, _. split; [runblock ltac:(rewrite ?Z; cbn; rewrite ?Hs, ?L)|]. split; [reflexivity|].
      eexists _, _. split; [cbn [resume]; runblock idtac|]. split; [reflexivity|].
      eexists _, _. split; [cbn [resume]; runblock idtac|]. split; [reflexivity|].
      eexists _, _. split; [cbn [resume]; runblock idtac|]. split; [reflexivity|].
      eexists _, _. split; [cbn [resume]; runblock idtac|]. split; [reflexivity|].
      cbn [resume]. runblock idtac.
    + eexists _, tg, unc, usf, ins. split; [reflexivity|].
      split; [exact Logic.I|split; [exact IR|split; [exact NDg|exact Logic.I]]].
    + reflexivity.
  - eexists (_, []). split; [|split].
    + unfold moves, stack.
      eexists _, _. split; [runblock ltac:(rewrite ?Z; cbn; rewrite ?Hs, ?L)|]. split; [reflexivity|].
      eexists _, _. split; [cbn [resume]; runblock idtac|]. split; [reflexivity|].
      eexists _, _. split; [cbn [resume]; runblock idtac|]. split; [reflexivity|].
      eexists _, _. split; [cbn [resume]; runblock idtac|]. split; [reflexivity|].
      cbn [resume]. runblock idtac.
    + eexists _, tg, unc, usf, ins. split; [reflexivity|].
      split; [exact Logic.I|split; [exact IR|split; [exact NDg|exact Logic.I]]].
    + reflexivity.
Qed.

(* ---- the composition: every step of Prio2.sched_step is a move of the generated program *)

(* the answers of the environment that the model step at pc (pcs s) stands for *)
Definition answers (s : st) : list (answer payload) :=
  match pcs s with
  | WaitFb => match fbq s with p :: _ => [AnsRecv (Some (PN p))] | [] => [] end
  | Read _ p _ _ _ =>
      if get (tactic s) p =? 0 then [] else
      match inq s p with
      | x :: _ => [AnsSel 0 (Some (PN x))]
      | [] => if closed s p then [AnsSel 0 None] else if buffered s p then [AnsDefault] else []
      end
  | Prio2.Send _ _ _ _ _ => [AnsOk]
  | LimFb (S _) => match fbq s with p :: _ => [AnsSel 0 (Some (PN p))] | [] => [AnsDefault] end
  | Drain e =>
      if sum (actual s) =? 0
      then match e with Some _ => [AnsOk; AnsOk; AnsOk; AnsOk; AnsOk] | None => [AnsOk; AnsOk; AnsOk; AnsOk] end
      else match fbq s with p :: _ => [AnsRecv (Some (PN p))] | [] => [] end
  | _ => []
  end.

(* what is assumed about the model state (all of it holds in the reachable states, see conc_simulates_reachable) *)
Record Hyp (s : st) : Prop := {
  h_inv : Inv s;
  h_inv2 : Inv2 s;
  h_H : H s < two64;
  h_str : sum (strategic s) < two64;
  h_lim : N.of_nat (fblimit s) < u_modulus;
  h_buf : forall p, buffered s p = buf p;                (* the capacities the program was given *)
  h_proc : forall ph p x r proc, pcs s = Prio2.Send ph p x r proc -> proc + 1 < u_modulus }.   (* Go's counter is 64-bit *)

Theorem conc_simulates_sched_step s s' c :
  Hyp s -> R s c -> sched_step dv s = Some s' ->
  exists c', moves (answers s) c c' /\ R s' c'.
Proof.
  intros [I I2 HH Hstr Hlim Hbuf Hproc] HR Hstep.
  pose proof (j_rest s I2) as Hrest.
  unfold sched_step in Hstep. unfold answers. destruct (pcs s) eqn:Epc.
  - (* Calc *) injection Hstep as <-. apply (sim_calc s c HR Epc I HH Hstr).
  - (* WaitFb *) destruct (fbq s) as [|p q] eqn:Efb; [discriminate|]. injection Hstep as <-.
    destruct (sim_waitfb s c p q I HH HR Epc Efb) as (c' & Hr & HR').
    destruct HR as (g & tg & unc & usf & ins & -> & _).
    exists c'. split; [|exact HR']. cbn. eexists _, _. split; [apply r_refl|]. split; [exact (blocked_waitfb s g tg unc usf ins Epc)|exact Hr].
  - (* Prio *) destruct rest as [|p r].
    + destruct ph; injection Hstep as <-; [apply (sim_prio_nil_p1 s c proc HR Epc)|apply (sim_prio_nil_p2 s c proc HR Epc)].
    + assert (Hp : In p (prios s)) by (cbn in Hrest; apply Hrest; now left).
      destruct (drained s p) eqn:Ed; injection Hstep as <-;
        [apply (sim_prio_drained s c ph p r proc HR Epc Hp Ed)|apply (sim_prio_read s c ph p r proc HR Epc Hp Ed)].
  - (* Read *) destruct (get (tactic s) p =? 0) eqn:Et.
    + injection Hstep as <-. apply N.eqb_eq in Et. apply (sim_read_zero s c ph p rest proc intr HR Epc Et).
    + apply N.eqb_neq in Et. cbn in Hrest. destruct Hrest as [Hp _].
      destruct HR as (g & tg & unc & usf & ins & -> & L & IR & NDg & TR).
      destruct (blocked_read s g tg unc usf ins ph p rest proc intr Epc L TR Et) as [Hb1 Hb2].
      destruct (inq s p) as [|x q] eqn:Eq.
      * destruct (closed s p) eqn:Ec.
        -- injection Hstep as <-.
           destruct (sim_read_closed s g tg unc usf ins ph p rest proc intr Epc L IR NDg TR Hp) as (c' & Hr & HR').
           exists c'. split; [|exact HR']. cbn. eexists _, _. split; [exact Hb1|]. split; [exact Hb2|exact Hr].
        -- destruct (buffered s p) eqn:Ebf; [|discriminate]. injection Hstep as <-. rewrite Hbuf in Ebf.
           destruct (sim_read_default s g tg unc usf ins ph p rest proc intr Epc L IR NDg TR Ebf) as (c' & Hr & HR').
           exists c'. split; [|exact HR']. cbn. eexists _, _. split; [exact Hb1|]. split; [exact Hb2|exact Hr].
      * injection Hstep as <-.
        destruct (sim_read_item s g tg unc usf ins ph p rest proc intr x q Epc L IR NDg TR Eq) as (c' & Hr & HR').
        exists c'. split; [|exact HR']. cbn. eexists _, _. split; [exact Hb1|]. split; [exact Hb2|exact Hr].
  - (* Send *) destruct (N.of_nat (length (outq s)) <? outcap s); [|discriminate]. injection Hstep as <-.
    destruct (sim_send s c ph p x rest proc I HH HR Epc (Hproc _ _ _ _ _ eq_refl)) as (c' & Hr & HR').
    destruct HR as (g & tg & unc & usf & ins & -> & L & _).
    exists c'. split; [|exact HR']. cbn. eexists _, _. split; [apply r_refl|]. split; [exact (blocked_send s g tg unc usf ins ph p x rest proc Epc L)|exact Hr].
  - (* Recalc *) injection Hstep as <-. apply (sim_recalc s c proc HR Epc I HH).
  - (* EndBase *) destruct (proc =? 0) eqn:Ep.
    + apply N.eqb_eq in Ep. subst proc. destruct (forallb (drained s) (prios s)) eqn:Ed; injection Hstep as <-.
      * apply (sim_endbase_drained s c HR Epc Ed).
      * destruct (sim_endbase_idle s c HR Epc Ed) as (c' & Hr & HR' & _). exists c'. split; assumption.
    + apply N.eqb_neq in Ep. injection Hstep as <-. apply (sim_endbase_more s c proc HR Epc Ep Hlim).
  - (* Idle *) discriminate.
  - (* LimFb *) destruct k as [|k].
    + injection Hstep as <-. apply (sim_limfb_zero s c HR Epc).
    + destruct HR as (g & tg & unc & usf & ins & -> & L & IR & NDg & TR).
      assert (TRd : deq tg (tactic s)) by (rewrite Epc in TR; exact TR).
      destruct (blocked_limfb s g tg unc usf ins k Epc L) as (g' & Hb1 & Hb2 & L').
      destruct (fbq s) as [|p q] eqn:Efb; injection Hstep as <-.
      * destruct (sim_limfb_default s g' tg unc usf ins k Epc IR NDg TRd) as (c' & Hr & HR').
        exists c'. split; [|exact HR']. cbn. eexists _, _. split; [exact Hb1|]. split; [exact Hb2|exact Hr].
      * destruct (sim_limfb_recv s g' tg unc usf ins k p q I HH Epc L' IR NDg TRd Efb) as (c' & Hr & HR').
        exists c'. split; [|exact HR']. cbn. eexists _, _. split; [exact Hb1|]. split; [exact Hb2|exact Hr].
  - (* Drain *) destruct (sum (actual s) =? 0) eqn:Es.
    + injection Hstep as <-. apply N.eqb_eq in Es.
      destruct (sim_drain_done s c e HR Epc Es) as (c' & Hm & HR' & _). exists c'. split; assumption.
    + apply N.eqb_neq in Es. destruct (fbq s) as [|p q] eqn:Efb; [discriminate|]. injection Hstep as <-.
      destruct (blocked_drain s c e HR Epc Es) as (v & Hb1 & Hb2 & HRv).
      destruct (sim_drain_recv s v e p q I HH HRv Epc Efb) as (c' & Hr & HR').
      exists c'. split; [|exact HR']. cbn. eexists _, _. split; [exact Hb1|]. split; [exact Hb2|exact Hr].
  - (* Done *) discriminate.
Qed.

(* ---- blocking: the request a pc stands for, and when the model's channel state cannot answer it *)
Definition pc_request (s : st) : option (request payload chan_id) :=
  match pcs s with
  | WaitFb => Some (RqRecv CFeedback)
  | Read _ p _ _ _ => if get (tactic s) p =? 0 then None else Some (read_request p)
  | Prio2.Send _ p x _ _ => Some (RqSend COutput (PPrioritized (mk_Prioritized x p)))
  | Idle => Some (RqSleep 1%Z)
  | LimFb (S _) => Some (RqSelect [(CFeedback, None)] true)
  | Drain _ => if sum (actual s) =? 0 then None else Some (RqRecv CFeedback)
  | Done _ => Some RqDone
  | _ => None
  end.

Definition unanswerable (s : st) (rq : request payload chan_id) : Prop :=
  match rq with
  | RqRecv CFeedback => fbq s = []                                           (* nothing released *)
  | RqSend COutput _ => (N.of_nat (length (outq s)) <? outcap s) = false     (* the output is full *)
  | RqSelect [(CInput p, None); (CTick, None)] false =>                      (* unbuffered input: an item or a tick *)
      inq s p = [] /\ closed s p = false
  | RqSleep _ => True                                                        (* the clock *)
  | RqDone => True                                                           (* the goroutine has ended *)
  | _ => False
  end.

(* the program, from the point of the pc, arrives at exactly this request *)
Theorem conc_request s c rq :
  R s c -> pc_request s = Some rq -> exists cb, reaches prog c cb /\ step1 prog cb = Block rq.
Proof.
  intros HR Hrq. unfold pc_request in Hrq. destruct (pcs s) eqn:Epc; try discriminate.
  - injection Hrq as <-. destruct HR as (g & tg & unc & usf & ins & -> & _).
    eexists. split; [apply r_refl|exact (blocked_waitfb s g tg unc usf ins Epc)].
  - destruct (get (tactic s) p =? 0) eqn:Et; [discriminate|]. injection Hrq as <-. apply N.eqb_neq in Et.
    destruct HR as (g & tg & unc & usf & ins & -> & L & IR & NDg & TR).
    destruct (blocked_read s g tg unc usf ins ph p rest proc intr Epc L TR Et) as [Hb1 Hb2]. eauto.
  - injection Hrq as <-. destruct HR as (g & tg & unc & usf & ins & -> & L & _).
    eexists. split; [apply r_refl|exact (blocked_send s g tg unc usf ins ph p x rest proc Epc L)].
  - injection Hrq as <-. destruct HR as (g & tg & unc & usf & ins & -> & _).
    eexists. split; [apply r_refl|]. unfold cfg_of. rewrite Epc. reflexivity.
  - destruct k as [|k]; [discriminate|]. injection Hrq as <-.
    destruct HR as (g & tg & unc & usf & ins & -> & L & _).
    destruct (blocked_limfb s g tg unc usf ins k Epc L) as (g' & Hb1 & Hb2 & _). eauto.
  - destruct (sum (actual s) =? 0) eqn:Es; [discriminate|]. injection Hrq as <-. apply N.eqb_neq in Es.
    destruct (blocked_drain s c e HR Epc Es) as (v & Hb1 & Hb2 & _). eauto.
  - injection Hrq as <-. destruct HR as (g & tg & unc & usf & ins & -> & _).
    eexists. split; [apply r_refl|]. unfold cfg_of. rewrite Epc. reflexivity.
Qed.

(* the model is blocked exactly when its pc stands for a request that its channel state cannot answer *)
Theorem model_blocked_iff s :
  (forall p, buffered s p = buf p) ->
  sched_step dv s = None <-> exists rq, pc_request s = Some rq /\ unanswerable s rq.
Proof.
  intros Hbuf. unfold sched_step, pc_request. destruct (pcs s) eqn:Epc.
  - split; [discriminate|]. intros (rq & E & _). discriminate.
  - destruct (fbq s) eqn:Efb; split; intros Hx; try discriminate; try reflexivity.
    + exists (RqRecv CFeedback). split; [reflexivity|exact Efb].
    + destruct Hx as (rq & E & U). injection E as <-. cbn in U. congruence.
  - destruct rest; [destruct ph|destruct (drained s n)]; (split; [discriminate|]; intros (rq & E & _); discriminate).
  - destruct (get (tactic s) p =? 0); [split; [discriminate|]; intros (rq & E & _); discriminate|].
    unfold read_request. rewrite <- Hbuf.
    destruct (inq s p) eqn:Eq; [destruct (closed s p) eqn:Ec; [|destruct (buffered s p) eqn:Eb]|]; split; intros Hx; try discriminate; try reflexivity.
    + destruct Hx as (rq & E & U). injection E as <-. destruct (buffered s p); cbn in U; [destruct U|destruct U; congruence].
    + destruct Hx as (rq & E & U). injection E as <-. destruct U.
    + eexists. split; [reflexivity|]. cbn. auto.
    + destruct Hx as (rq & E & U). injection E as <-. destruct (buffered s p); cbn in U; [destruct U|destruct U; congruence].
  - destruct (N.of_nat (length (outq s)) <? outcap s) eqn:El; split; intros Hx; try discriminate; try reflexivity.
    + destruct Hx as (rq & E & U). injection E as <-. cbn in U. congruence.
    + eexists. split; [reflexivity|exact El].
  - split; [discriminate|]. intros (rq & E & _). discriminate.
  - destruct (proc =? 0); [destruct (forallb (drained s) (prios s))|]; (split; [discriminate|]; intros (rq & E & _); discriminate).
  - split; [|reflexivity]. intros _. eexists. split; [reflexivity|exact Logic.I].
  - destruct k; [split; [discriminate|]; intros (rq & E & _); discriminate|].
    destruct (fbq s); split; try discriminate; intros (rq & E & U); injection E as <-; destruct U.
  - destruct (sum (actual s) =? 0); [split; [discriminate|]; intros (rq & E & _); discriminate|].
    destruct (fbq s) eqn:Efb; split; intros Hx; try discriminate; try reflexivity.
    + eexists. split; [reflexivity|exact Efb].
    + destruct Hx as (rq & E & U). injection E as <-. cbn in U. congruence.
  - split; [|reflexivity]. intros _. eexists. split; [reflexivity|exact Logic.I].
Qed.

(* together: the model is blocked exactly when the program, from the point of the pc, is blocked on a request that the
   model's channel state cannot answer *)
Theorem conc_blocked_iff s c :
  (forall p, buffered s p = buf p) -> R s c ->
  sched_step dv s = None <->
  exists cb rq, pc_request s = Some rq /\ reaches prog c cb /\ step1 prog cb = Block rq /\ unanswerable s rq.
Proof.
  intros Hbuf HR. rewrite (model_blocked_iff s Hbuf). split.
  - intros (rq & E & U). destruct (conc_request s c rq HR E) as (cb & H1 & H2). eauto 8.
  - intros (cb & rq & E & _ & _ & U). eauto.
Qed.

(* ---- the environment.  Put / Close / Take / Release change only what the channels can answer: the program state and
   its point stay the same.  A Tick of the model is an answer: the sleep is over (Idle), resp. the ticker alternative of
   the select of iou() is chosen (a Read that waits on an empty, open, unbuffered input). *)
Theorem env_step_R s o s' c :
  R s c -> env_step s o = Some s' -> o <> Tick -> R s' c.
Proof.
  intros (g & tg & unc & usf & ins & -> & L & IR & NDg & TR) Hs Ho.
  destruct o; cbn in Hs; try congruence.
  - destruct (closed s p); [discriminate|]. injection Hs as <-. exists g, tg, unc, usf, ins. repeat split; try assumption; apply IR.
  - injection Hs as <-. exists g, tg, unc, usf, ins. repeat split; try assumption; apply IR.
  - destruct (outq s); [discriminate|]. injection Hs as <-. exists g, tg, unc, usf, ins. repeat split; try assumption; apply IR.
  - destruct (remove1 p (held s)); [|discriminate]. injection Hs as <-. exists g, tg, unc, usf, ins. repeat split; try assumption; apply IR.
Qed.

Definition tick_answers (s : st) : list (answer payload) :=
  match pcs s with
  | Idle => [AnsOk]
  | Read _ p _ _ _ =>
      if negb (get (tactic s) p =? 0) && negb (buffered s p) && negb (closed s p) && match inq s p with [] => true | _ => false end
      then [AnsSel 1 None] else []
  | _ => []
  end.

Theorem env_tick_R s s' c :
  (forall p, buffered s p = buf p) -> N.of_nat (fblimit s) < u_modulus ->
  R s c -> env_step s Tick = Some s' ->
  exists c', moves (tick_answers s) c c' /\ R s' c'.
Proof.
  intros Hbuf Hlim HR Hs. cbn in Hs. unfold tick_answers. destruct (pcs s) eqn:Epc;
    try (injection Hs as <-; exists c; split; [apply r_refl|exact HR]).
  - (* Read *)
    destruct (negb (get (tactic s) p =? 0) && negb (buffered s p) && negb (closed s p) && match inq s p with [] => true | _ => false end) eqn:Ec.
    + apply andb_prop in Ec. destruct Ec as [Ec _]. apply andb_prop in Ec. destruct Ec as [Ec _].
      apply andb_prop in Ec. destruct Ec as [Et Eb]. apply negb_true_iff in Et, Eb. apply N.eqb_neq in Et. rewrite Hbuf in Eb.
      destruct HR as (g & tg & unc & usf & ins & -> & L & IR & NDg & TR).
      destruct (blocked_read s g tg unc usf ins ph p rest proc intr Epc L TR Et) as [Hb1 Hb2].
      destruct intr; injection Hs as <-.
      * destruct (sim_read_tick2 s g tg unc usf ins ph p rest proc Epc L IR NDg TR Eb) as (c' & Hr & HR').
        exists c'. split; [|exact HR']. cbn. eexists _, _. split; [exact Hb1|]. split; [exact Hb2|exact Hr].
      * destruct (sim_read_tick1 s g tg unc usf ins ph p rest proc Epc L IR NDg TR Eb) as (c' & Hr & HR').
        exists c'. split; [|exact HR']. cbn. eexists _, _. split; [exact Hb1|]. split; [exact Hb2|exact Hr].
    + injection Hs as <-. exists c. split; [apply r_refl|exact HR].
  - (* Idle *) injection Hs as <-.
    destruct (sim_idle s c HR Epc Hlim) as (c' & Hr & HR').
    destruct HR as (g & tg & unc & usf & ins & -> & _).
    exists c'. split; [|exact HR']. cbn. eexists _, _. split; [apply r_refl|]. split; [|exact Hr].
    unfold cfg_of. rewrite Epc. reflexivity.
Qed.

(* ---- the start: `go dsc.main()` on the value that New() has built runs (internal steps only: the four defers of main, the
   call of loop, its defer, base, waitCalcTactic) to the point of the model's initial pc Calc *)
Theorem conc_init s0 unc usf ins :
  pcs s0 = Calc -> ins_rel s0 ins -> NoDup (keys (tactic s0)) ->
  exists c', reaches prog (start prog (conc dv s0 unc usf ins, zero_G, ncalls s0) F_main) c' /\ R s0 c'.
Proof.
  intros Epc IR ND. eexists (_, stack buf Calc). split.
  - unfold start, stack. runto idtac.
  - eexists _, (tactic s0), unc, usf, ins. split; [unfold cfg_of, sg; rewrite with_tac_self, Epc; reflexivity|].
    rewrite Epc. split; [reflexivity|split; [exact IR|split; [exact ND|apply deq_refl]]].
Qed.

(* for the state that Prio2.init_state builds (New: tactic and actual empty, nothing drained): the inputs map of New() *)
Definition init_ins (ps : list N) : list (N * Input) := map (fun p => (p, mk_Input opaque_some false)) ps.
Lemma init_ins_rel s0 : NoDup (prios s0) -> (forall p, drained s0 p = false) -> ins_rel s0 (init_ins (prios s0)).
Proof.
  intros ND Hd. unfold ins_rel, init_ins. rewrite map_map. cbn. rewrite map_id. repeat split; try assumption; try tauto.
  intros p i Hin. apply in_map_iff in Hin. destruct Hin as (q & E & _). injection E as <- <-. cbn. now rewrite Hd.
Qed.

Corollary conc_init_state s0 :
  Init s0 ->
  exists c', reaches prog (start prog (conc dv s0 [] [] (init_ins (prios s0)), zero_G, ncalls s0) F_main) c' /\ R s0 c'.
Proof.
  intros I0. apply conc_init.
  - apply (in_pc s0 I0).
  - apply init_ins_rel; [apply (in_prios s0 I0)|apply (in_drained s0 I0)].
  - rewrite (in_tactic s0 I0). constructor.
Qed.

(* ---- the simulation along the reachable states of the model: the invariants come from Prio2P *)
Corollary conc_simulates_reachable s0 s s' c :
  Init s0 -> reachable dv s0 s ->
  H s < two64 -> sum (strategic s) < two64 -> N.of_nat (fblimit s) < u_modulus -> (forall p, buffered s p = buf p) ->
  (forall ph p x r proc, pcs s = Prio2.Send ph p x r proc -> proc + 1 < u_modulus) ->
  R s c -> sched_step dv s = Some s' ->
  exists c', moves (answers s) c c' /\ R s' c'.
Proof.
  intros I0 Hr HH Hstr Hlim Hbuf Hproc. apply conc_simulates_sched_step.
  constructor; try assumption; [exact (reachable_inv dv dv_wf s0 s I0 Hr)|first [exact (reachable_inv2 dv dv_wf s0 s I0 Hr) | exact (reachable_inv2 dv s0 s I0 Hr)]].
Qed.
End Dividers.
End Sim.

(* ==== main tie theorems ==== *)
(* conc_init / conc_init_state   : the goroutine at its start reaches the point of the model's initial pc (Calc)
   conc_simulates_sched_step     : every step of Prio2.sched_step is a move of the generated program (internal steps, and
                                   for a channel operation the request with the answer `answers s`), preserving R
   conc_simulates_reachable      : the same along the reachable states (Inv, Inv2 from Prio2P)
   conc_request, conc_blocked_iff: the request a pc stands for; the model is blocked iff the program is blocked on a
                                   request that the model's channel state cannot answer
   env_step_R, env_tick_R        : the environment steps *)
Print Assumptions conc_init_state.
Print Assumptions conc_simulates_sched_step.
Print Assumptions conc_simulates_reachable.
Print Assumptions conc_request.
Print Assumptions conc_blocked_iff.
Print Assumptions env_step_R.
Print Assumptions env_tick_R.
Print Assumptions sim_drain_end.
