(* Tie between the generated program of the v2 priority goroutine (GenConcV2Prio.v, run by GoConc.v) and the hand-written
   program-counter machine Prio2.sched_step: every model pc is a program point (a continuation stack), and every case of
   sched_step is matched by internal steps of the generated program between the corresponding points, resp. by the
   request / answer at a blocking point. *)
From Coq Require Import List NArith ZArith Bool Lia.
From Cqos Require Import Base Divider Sched Prio2 Prio2P GoSem GoConc GenV2Prio GenConcV2Prio
                         GenTiePrio2Base GenTiePrio2Calc GenTiePrio2Term.
Import ListNotations.
Open Scope N_scope.

Definition stmtT := stmt cstate payload chan_id fname.
Definition frameT := frame cstate payload chan_id fname.
Definition cfgT := config cstate payload chan_id fname.

(* ---- n internal steps, relationally *)
Section Reach.
Variable prog : fname -> list stmtT.
Inductive reaches : cfgT -> cfgT -> Prop :=
| r_refl c : reaches c c
| r_step c c' c'' : step1 prog c = Step c' -> reaches c' c'' -> reaches c c''.
Lemma reaches_trans a b c : reaches a b -> reaches b c -> reaches a c.
Proof. induction 1; intros; [assumption|]. eapply r_step; eauto. Qed.
(* internal steps followed by a blocking point: that is what run_to_request returns, with any sufficient fuel *)
Lemma reaches_run a b rq : reaches a b -> step1 prog b = Block rq ->
  exists n, forall fuel, (n <= fuel)%nat -> run_to_request prog fuel a = Some (b, rq).
Proof.
  induction 1 as [c|c c' c'' E _ IH]; intros B.
  - exists 1%nat. intros [|f] L; [lia|]. simpl. now rewrite B.
  - destruct (IH B) as [n Hn]. exists (S n). intros [|f] L; [lia|]. simpl. rewrite E. apply Hn. lia.
Qed.
End Reach.

(* ---- reading the program points off the generated bodies *)
Definition wbody (s : stmtT) : list stmtT := match s with While _ b => b | _ => [] end.
Definition wcond (s : stmtT) : cstate -> bool := match s with While c _ => c | _ => fun _ => false end.
Definition if_then (s : stmtT) : list stmtT := match s with If _ t _ => t | _ => [] end.
Definition if_else (s : stmtT) : list stmtT := match s with If _ _ e => e | _ => [] end.
Definition dbody (s : stmtT) : list stmtT := match s with Defer b => b | _ => [] end.
Definition sel_alt (n : nat) (s : stmtT) : list stmtT :=
  match s with Select alts _ => match nth_error alts n with Some (_, b) => b | None => [] end | _ => [] end.
Definition at_ (n : nat) (l : list stmtT) : stmtT := nth n l Return.

Section Points.
Variable buf : N -> bool.                       (* which inputs are buffered *)
Definition cap_of : chan_id -> Z := fun c => match c with CInput p => if buf p then 1%Z else 0%Z | _ => 0%Z end.
Definition prog := table cap_of.

Definition mainK : list frameT :=
  [KSeq (skipn 5 body_main);
   KCall [dbody (at_ 3 body_main); dbody (at_ 2 body_main); dbody (at_ 1 body_main); dbody (at_ 0 body_main)]].
Definition loopW := at_ 1 body_loop.
Definition loopK (r : list stmtT) : list frameT :=
  KSeq r :: KLoop (wcond loopW) (wbody loopW) :: KSeq [] :: KCall [dbody (at_ 0 body_loop)] :: mainK.
Definition baseK (r : list stmtT) : list frameT := KSeq r :: KCall [] :: loopK (skipn 1 (wbody loopW)).
Definition wctW := at_ 0 body_waitCalcTactic.
Definition wctLoopK : list frameT :=
  KLoop (wcond wctW) (wbody wctW) :: KSeq [] :: KCall [] :: baseK (skipn 2 body_base).
Definition prW := at_ 2 (body_prioritize cap_of).
Definition after_prio (ph : phase) : list stmtT := match ph with P1 => skipn 5 body_base | P2 => skipn 10 body_base end.
Definition prioLoopK (ph : phase) : list frameT :=
  KLoop (wcond prW) (wbody prW) :: KSeq (skipn 3 (body_prioritize cap_of)) :: KCall [] :: baseK (after_prio ph).
Definition ifIO := at_ 2 (wbody prW).
Definition ioW := at_ 1 body_io.
Definition iouW := at_ 2 body_iou.
Definition ioLoopK (ph : phase) : list frameT :=
  KLoop (wcond ioW) (wbody ioW) :: KSeq (skipn 2 body_io) :: KCall [] :: KSeq (skipn 2 (if_then ifIO)) :: KSeq [] :: prioLoopK ph.
Definition iouLoopK (ph : phase) : list frameT :=
  KLoop (wcond iouW) (wbody iouW) :: KSeq (skipn 3 body_iou) :: KCall [] :: KSeq (skipn 2 (if_else ifIO)) :: KSeq [] :: prioLoopK ph.
Definition readK (ph : phase) (p : N) : list frameT := if buf p then ioLoopK ph else iouLoopK ph.
Definition sendK (ph : phase) (p : N) : list frameT :=
  KSeq (skipn 1 body_send) :: KCall [] ::
  (if buf p then KSeq (skipn 3 (sel_alt 0 (at_ 0 (wbody ioW)))) :: KSeq [] :: ioLoopK ph
   else KSeq (skipn 4 (sel_alt 0 (at_ 0 (wbody iouW)))) :: KSeq [] :: iouLoopK ph).
Definition ifZero := at_ 3 (wbody loopW).
Definition glfW := at_ 1 body_getLimitedFeedback.
Definition wzW := at_ 0 body_waitZeroActual.

(* the program point of a model pc *)
Definition stack (c : pc) : list frameT :=
  match c with
  | Calc => wctLoopK
  | WaitFb => KSeq body_getOneFeedback :: KCall [] :: KSeq [] :: wctLoopK
  | Prio ph _ _ => prioLoopK ph
  | Read ph p _ _ _ => readK ph p
  | Prio2.Send ph p _ _ _ => sendK ph p
  | Recalc _ => baseK (after_prio P1)
  | EndBase _ => loopK (skipn 1 (wbody loopW))
  | Idle => KSeq (skipn 2 (if_then ifZero)) :: loopK (skipn 4 (wbody loopW))
  | LimFb _ => KLoop (wcond glfW) (wbody glfW) :: KSeq [] :: KCall [] :: loopK []
  | Drain _ => KLoop (wcond wzW) (wbody wzW) :: KSeq [] :: KCall [] :: KSeq [] :: KCall [] :: mainK
  | Done _ => []
  end.
End Points.

(* ---- the state of a program point *)
Section Sim.
Variable dv : nat -> Divider.
Variable buf : N -> bool.
Notation prog := (prog buf).

Definition cfg_of (s : st) (g : G) (unc usf : list N) (ins : list (N * Input)) : cfgT :=
  ((conc dv s unc usf ins, g, ncalls s), stack buf (pcs s)).

Definition conv_oerr (e : option derr) : option err_V2Prio := option_map conv_derr e.

(* what the model's pc data are in the locals of the goroutine (the other locals are dead at that point).
   `processed` is spread over base / prioritize / io|iou; the Go counters are 64-bit, the model's is unbounded. *)
Definition live (c : pc) (g : G) : Prop :=
  match c with
  | Calc | WaitFb => G_base_processed g = 0
  | Prio ph r proc =>
      G_prioritize_rest1 g = r /\ G_base_processed g + G_prioritize_processed g = proc /\ proc < u_modulus
  | Read ph p r proc intr =>
      G_prioritize_rest1 g = r /\ G_prioritize_priority g = p /\ proc < u_modulus /\
      if buf p then G_io_priority g = p /\ G_base_processed g + G_prioritize_processed g + G_io_processed g = proc
      else G_iou_priority g = p /\ G_iou_interrupt g = intr /\
           G_base_processed g + G_prioritize_processed g + G_iou_processed g = proc
  | Prio2.Send ph p x r proc =>
      G_prioritize_rest1 g = r /\ G_prioritize_priority g = p /\ proc < u_modulus /\
      G_send_priority g = p /\ G_send_item g = x /\ G_send_prioritized g = mk_Prioritized x p /\
      if buf p then G_io_priority g = p /\ G_base_processed g + G_prioritize_processed g + G_io_processed g = proc
      else G_iou_priority g = p /\ G_iou_interrupt g = false /\
           G_base_processed g + G_prioritize_processed g + G_iou_processed g = proc
  | Recalc proc => G_base_processed g + G_prioritize_ret0 g = proc /\ proc < u_modulus
  | EndBase proc => G_base_ret0 g = proc /\ G_base_ret1 g = None
  | Idle => True
  | LimFb k => G_getLimitedFeedback_i1 g + N.of_nat k = G_getLimitedFeedback_n2 g /\ G_getLimitedFeedback_n2 g < u_modulus
  | Drain e => G_loop_ret0 g = conv_oerr e
  | Done _ => True
  end.

(* the simulation relation *)
Definition R (s : st) (c : cfgT) : Prop :=
  exists g unc usf ins, c = cfg_of s g unc usf ins /\ live (pcs s) g /\ ins_rel s ins.

Ltac istep := eapply r_step; [cbn; reflexivity|].
Ltac fin := apply r_refl.
Ltac mkR g unc usf ins := exists g, unc, usf, ins; split; [reflexivity|split; [cbn; try tauto|try assumption]].

(* ---- WaitFb: the blocking point is the receive in getOneFeedback *)
Lemma blocked_waitfb s g unc usf ins : pcs s = WaitFb ->
  step1 prog (cfg_of s g unc usf ins) = Block (RqRecv CFeedback).
Proof. intros E. unfold cfg_of. rewrite E. reflexivity. Qed.

Lemma sim_waitfb s c p q :
  Inv s -> H s < two64 -> R s c -> pcs s = WaitFb -> fbq s = p :: q ->
  exists c', reaches prog (resume c (AnsRecv (Some (PN p)))) c' /\ R (pop_fb s p q Calc) c'.
Proof.
  intros I HH (g & unc & usf & ins & -> & L & IR) Epc Efb. destruct (inv_fb_bounds s p q I HH Efb) as [B1 B2].
  unfold cfg_of. rewrite Epc in *. cbn [stack resume].
  eexists. split.
  - cbn. istep. rewrite (tie_decreaseActual dv _ s unc usf ins p q Calc B1 B2). do 3 istep. fin.
  - eexists _, unc, usf, ins. split; [reflexivity|]. split; [exact L|exact IR].
Qed.

(* ---- Send: the blocking point is the send on the output channel in send() *)
Lemma blocked_send s g unc usf ins ph p x r proc : pcs s = Prio2.Send ph p x r proc -> live (pcs s) g ->
  step1 prog (cfg_of s g unc usf ins) = Block (RqSend COutput (PPrioritized (mk_Prioritized x p))).
Proof.
  intros E L. unfold cfg_of. rewrite E in *. cbn in L. destruct L as (_ & _ & _ & _ & _ & Hp & _).
  cbn. unfold send_prioritized. cbn. now rewrite Hp.
Qed.

Lemma sim_send s c ph p x r proc :
  Inv s -> H s < two64 -> R s c -> pcs s = Prio2.Send ph p x r proc -> proc + 1 < u_modulus ->
  exists c', reaches prog (resume c AnsOk) c' /\ R (push_out s p x (Read ph p r (proc + 1) false)) c'.
Proof.
  intros I HH (g & unc & usf & ins & -> & L & IR) Epc Hb.
  destruct (inv_send_bounds s ph p x r proc I HH Epc) as (B1 & B2 & B3).
  unfold cfg_of. rewrite Epc in *. cbn in L. destruct L as (L1 & L2 & L3 & L4 & L5 & L6 & L7).
  cbn [stack resume sendK].
  destruct (buf p) eqn:Eb.
  - destruct L7 as [L7 L8]. eexists. split.
    + istep. cbn. rewrite L4. rewrite (tie_decreaseTactic dv _ s unc usf ins p B1 B2).
      istep. cbn. rewrite L4.
      rewrite (tie_increaseActual dv _ (with_tac s (dec (tactic s) p) (pcs s)) unc usf ins p B3).
      do 6 istep. fin.
    + eexists _, unc, usf, ins.
      split; [unfold cfg_of; cbn [pcs push_out stack]; unfold readK; rewrite Eb; reflexivity|]. split; [|exact IR].
      cbn. rewrite Eb. rewrite u_add_small by lia. repeat split; try assumption; lia.
  - destruct L7 as (L7 & L8 & L9). eexists. split.
    + istep. cbn. rewrite L4. rewrite (tie_decreaseTactic dv _ s unc usf ins p B1 B2).
      istep. cbn. rewrite L4.
      rewrite (tie_increaseActual dv _ (with_tac s (dec (tactic s) p) (pcs s)) unc usf ins p B3).
      do 6 istep. fin.
    + eexists _, unc, usf, ins.
      split; [unfold cfg_of; cbn [pcs push_out stack]; unfold readK; rewrite Eb; reflexivity|]. split; [|exact IR].
      cbn. rewrite Eb. rewrite u_add_small by lia. repeat split; try assumption; lia.
Qed.

Ltac step tac := eapply r_step; [cbn; try tac; reflexivity|].
(* run until the stack is the one of the target program point *)
Ltac runto tac := first [apply r_refl | step tac; runto tac].

Lemma drained_ins s ins p : ins_rel s ins -> In p (prios s) ->
  Input_Drained (aget zero_Input ins p) = drained s p.
Proof.
  intros (ND & Hk & Hd) Hp. apply (Hd p). apply aget_in. now apply Hk.
Qed.

(* ---- Prio: the head of the loop of prioritize() *)
Lemma sim_prio_nil_p1 s c proc :
  R s c -> pcs s = Prio P1 [] proc ->
  exists c', reaches prog c c' /\ R (with_pc s (Recalc proc)) c'.
Proof.
  intros (g & unc & usf & ins & -> & L & IR) Epc. unfold cfg_of. rewrite Epc in *. cbn in L. destruct L as (L1 & L2 & L3).
  eexists (_, stack buf (Recalc proc)). split.
  - cbn [stack prioLoopK]. runto ltac:(rewrite ?L1).
  - eexists _, unc, usf, ins. split; [reflexivity|]. split; [|exact IR]. cbn. split; assumption.
Qed.

Lemma sim_prio_nil_p2 s c proc :
  R s c -> pcs s = Prio P2 [] proc ->
  exists c', reaches prog c c' /\ R (with_pc s (EndBase proc)) c'.
Proof.
  intros (g & unc & usf & ins & -> & L & IR) Epc. unfold cfg_of. rewrite Epc in *. cbn in L. destruct L as (L1 & L2 & L3).
  eexists (_, stack buf (EndBase proc)). split.
  - cbn [stack prioLoopK]. runto ltac:(rewrite ?L1).
  - eexists _, unc, usf, ins. split; [reflexivity|]. split; [|exact IR]. cbn. rewrite u_add_small by lia. split; [assumption|reflexivity].
Qed.

Lemma sim_prio_drained s c ph p r proc :
  R s c -> pcs s = Prio ph (p :: r) proc -> In p (prios s) -> drained s p = true ->
  exists c', reaches prog c c' /\ R (with_pc s (Prio ph r proc)) c'.
Proof.
  intros (g & unc & usf & ins & -> & L & IR) Epc Hp Hd. unfold cfg_of. rewrite Epc in *. cbn in L. destruct L as (L1 & L2 & L3).
  eexists (_, stack buf (Prio ph r proc)). split.
  - cbn [stack prioLoopK]. step ltac:(rewrite ?L1).
    runto ltac:(rewrite ?L1; cbn; rewrite ?(drained_ins s ins p IR Hp), ?Hd).
  - eexists _, unc, usf, ins. split; [reflexivity|]. split; [|exact IR]. cbn. rewrite ?L1. cbn. repeat split; assumption.
Qed.

Lemma sim_prio_read s c ph p r proc :
  R s c -> pcs s = Prio ph (p :: r) proc -> In p (prios s) -> drained s p = false ->
  exists c', reaches prog c c' /\ R (with_pc s (Read ph p r proc false)) c'.
Proof.
  intros (g & unc & usf & ins & -> & L & IR) Epc Hp Hd. unfold cfg_of. rewrite Epc in *. cbn in L. destruct L as (L1 & L2 & L3).
  destruct (buf p) eqn:Eb.
  - eexists (_, stack buf (Read ph p r proc false)). split.
    + unfold stack, readK. rewrite Eb.
      runto ltac:(rewrite ?L1; cbn; rewrite ?(drained_ins s ins p IR Hp), ?Hd, ?Eb).
    + eexists _, unc, usf, ins. split; [reflexivity|].
      split; [|exact IR]. cbn. rewrite ?L1. cbn. rewrite Eb. repeat split; try assumption; lia.
  - eexists (_, stack buf (Read ph p r proc false)). split.
    + unfold stack, readK. rewrite Eb.
      runto ltac:(rewrite ?L1; cbn; rewrite ?(drained_ins s ins p IR Hp), ?Hd, ?Eb).
    + eexists _, unc, usf, ins. split; [reflexivity|].
      split; [|exact IR]. cbn. rewrite ?L1. cbn. rewrite Eb. repeat split; try assumption; lia.
Qed.

(* ---- Read: the head of the loop of io() (buffered input) resp. iou() (unbuffered input) *)
Lemma sim_read_zero s c ph p r proc intr :
  R s c -> pcs s = Read ph p r proc intr -> get (tactic s) p = 0 ->
  exists c', reaches prog c c' /\ R (with_pc s (Prio ph r proc)) c'.
Proof.
  intros (g & unc & usf & ins & -> & L & IR) Epc Ht. unfold cfg_of. rewrite Epc in *. cbn in L.
  destruct L as (L1 & L2 & L3 & L4). destruct (buf p) eqn:Eb.
  - destruct L4 as (L4 & L5). eexists (_, stack buf (Prio ph r proc)). split.
    + unfold stack, readK. rewrite Eb. runto ltac:(rewrite ?L4, ?aget_get, ?Ht).
    + eexists _, unc, usf, ins. split; [reflexivity|]. split; [|exact IR]. cbn.
      rewrite u_add_small by lia. repeat split; try assumption; lia.
  - destruct L4 as (L4 & L5 & L6). eexists (_, stack buf (Prio ph r proc)). split.
    + unfold stack, readK. rewrite Eb. runto ltac:(rewrite ?L4, ?aget_get, ?Ht).
    + eexists _, unc, usf, ins. split; [reflexivity|]. split; [|exact IR]. cbn.
      rewrite u_add_small by lia. repeat split; try assumption; lia.
Qed.

(* the blocking point: the select; the request names the input (and the ticker for an unbuffered input) *)
Definition read_request (p : N) : request payload chan_id :=
  if buf p then RqSelect [(CInput p, None)] true else RqSelect [(CInput p, None); (CTick, None)] false.

Definition selK (ph : phase) (p : N) : list frameT :=
  if buf p then KSeq (wbody ioW) :: ioLoopK buf ph else KSeq (wbody iouW) :: iouLoopK buf ph.

Lemma blocked_read s g unc usf ins ph p r proc intr :
  pcs s = Read ph p r proc intr -> live (pcs s) g -> get (tactic s) p <> 0 ->
  reaches prog (cfg_of s g unc usf ins) ((conc dv s unc usf ins, g, ncalls s), selK ph p) /\
  step1 prog ((conc dv s unc usf ins, g, ncalls s), selK ph p) = Block (read_request p).
Proof.
  intros Epc L Ht. unfold cfg_of. rewrite Epc in *. cbn in L. destruct L as (L1 & L2 & L3 & L4).
  apply N.eqb_neq in Ht. unfold selK, read_request, stack, readK. destruct (buf p) eqn:Eb.
  - destruct L4 as (L4 & L5). split.
    + step ltac:(rewrite ?L4, ?aget_get, ?Ht). apply r_refl.
    + cbn. now rewrite L4.
  - destruct L4 as (L4 & L5 & L6). split.
    + step ltac:(rewrite ?L4, ?aget_get, ?Ht). apply r_refl.
    + cbn. now rewrite L4.
Qed.

(* an item arrives: on to the send *)
Lemma sim_read_item s g unc usf ins ph p r proc intr x q :
  pcs s = Read ph p r proc intr -> live (pcs s) g -> ins_rel s ins -> inq s p = x :: q ->
  exists c', reaches prog (resume ((conc dv s unc usf ins, g, ncalls s), selK ph p) (AnsSel 0 (Some (PN x)))) c' /\
             R (pop_in s p q (Prio2.Send ph p x r proc)) c'.
Proof.
  intros Epc L IR Hq. rewrite Epc in *. cbn in L. destruct L as (L1 & L2 & L3 & L4). unfold selK.
  destruct (buf p) eqn:Eb.
  - destruct L4 as (L4 & L5). eexists (_, stack buf (Prio2.Send ph p x r proc)). split.
    + unfold stack, sendK. rewrite Eb. cbn [resume wbody ioW at_ nth body_io nth_error]. runto ltac:(rewrite ?L4).
    + eexists _, unc, usf, ins. split; [reflexivity|]. split; [|exact IR]. cbn. rewrite ?L4, Eb.
      repeat split; try assumption; lia.
  - destruct L4 as (L4 & L5 & L6). eexists (_, stack buf (Prio2.Send ph p x r proc)). split.
    + unfold stack, sendK. rewrite Eb. cbn [resume wbody iouW at_ nth body_iou nth_error]. runto ltac:(rewrite ?L4).
    + eexists _, unc, usf, ins. split; [reflexivity|]. split; [|exact IR]. cbn. rewrite ?L4, Eb.
      repeat split; try assumption; lia.
Qed.

(* the input is closed and empty: mark it drained, back to prioritize *)
Lemma sim_read_closed s g unc usf ins ph p r proc intr :
  pcs s = Read ph p r proc intr -> live (pcs s) g -> ins_rel s ins -> In p (prios s) ->
  exists c', reaches prog (resume ((conc dv s unc usf ins, g, ncalls s), selK ph p) (AnsSel 0 None)) c' /\
             R (mark_drained s p (Prio ph r proc)) c'.
Proof.
  intros Epc L IR Hp. rewrite Epc in *. cbn in L. destruct L as (L1 & L2 & L3 & L4). unfold selK.
  destruct (tie_markInputAsDrained dv (ncalls s) s unc usf ins p (Prio ph r proc) IR Hp) as (ins' & Em & IR').
  destruct (buf p) eqn:Eb.
  - destruct L4 as (L4 & L5). eexists (_, stack buf (Prio ph r proc)). split.
    + unfold stack. cbn [resume wbody ioW at_ nth body_io nth_error]. runto ltac:(rewrite ?L4, ?Em).
    + eexists _, unc, usf, ins'. split; [reflexivity|]. split; [|exact IR']. cbn.
      rewrite u_add_small by lia. repeat split; try assumption; lia.
  - destruct L4 as (L4 & L5 & L6). eexists (_, stack buf (Prio ph r proc)). split.
    + unfold stack. cbn [resume wbody iouW at_ nth body_iou nth_error]. runto ltac:(rewrite ?L4, ?Em).
    + eexists _, unc, usf, ins'. split; [reflexivity|]. split; [|exact IR']. cbn.
      rewrite u_add_small by lia. repeat split; try assumption; lia.
Qed.

(* buffered input, nothing there: the default branch of io() *)
Lemma sim_read_default s g unc usf ins ph p r proc intr :
  pcs s = Read ph p r proc intr -> live (pcs s) g -> ins_rel s ins -> buf p = true ->
  exists c', reaches prog (resume ((conc dv s unc usf ins, g, ncalls s), selK ph p) AnsDefault) c' /\
             R (with_pc s (Prio ph r proc)) c'.
Proof.
  intros Epc L IR Eb. rewrite Epc in *. cbn in L. destruct L as (L1 & L2 & L3 & L4). unfold selK. rewrite Eb in *.
  destruct L4 as (L4 & L5). eexists (_, stack buf (Prio ph r proc)). split.
  - unfold stack. cbn [resume wbody ioW at_ nth body_io nth_error]. runto idtac.
  - eexists _, unc, usf, ins. split; [reflexivity|]. split; [|exact IR]. cbn.
    rewrite u_add_small by lia. repeat split; try assumption; lia.
Qed.

(* unbuffered input, a tick of the interrupter: the first one is remembered, the second one ends the wait *)
Lemma sim_read_tick1 s g unc usf ins ph p r proc :
  pcs s = Read ph p r proc false -> live (pcs s) g -> ins_rel s ins -> buf p = false ->
  exists c', reaches prog (resume ((conc dv s unc usf ins, g, ncalls s), selK ph p) (AnsSel 1 None)) c' /\
             R (with_pc s (Read ph p r proc true)) c'.
Proof.
  intros Epc L IR Eb. rewrite Epc in *. cbn in L. destruct L as (L1 & L2 & L3 & L4). unfold selK. rewrite Eb in *.
  destruct L4 as (L4 & L5 & L6). eexists (_, stack buf (Read ph p r proc true)). split.
  - unfold stack, readK. rewrite Eb. cbn [resume wbody iouW at_ nth body_iou nth_error].
    step ltac:(rewrite ?L5). runto ltac:(rewrite ?L5).
  - eexists _, unc, usf, ins. split; [reflexivity|]. split; [|exact IR]. cbn. rewrite Eb.
    repeat split; try assumption; lia.
Qed.

Lemma sim_read_tick2 s g unc usf ins ph p r proc :
  pcs s = Read ph p r proc true -> live (pcs s) g -> ins_rel s ins -> buf p = false ->
  exists c', reaches prog (resume ((conc dv s unc usf ins, g, ncalls s), selK ph p) (AnsSel 1 None)) c' /\
             R (with_pc s (Prio ph r proc)) c'.
Proof.
  intros Epc L IR Eb. rewrite Epc in *. cbn in L. destruct L as (L1 & L2 & L3 & L4). unfold selK. rewrite Eb in *.
  destruct L4 as (L4 & L5 & L6). eexists (_, stack buf (Prio ph r proc)). split.
  - unfold stack. cbn [resume wbody iouW at_ nth body_iou nth_error]. runto ltac:(rewrite ?L5).
  - eexists _, unc, usf, ins. split; [reflexivity|]. split; [|exact IR]. cbn.
    rewrite u_add_small by lia. repeat split; try assumption; lia.
Qed.

(* ---- EndBase: base() has returned (processed, nil) into loop() *)
Lemma sim_endbase_more s c proc :
  R s c -> pcs s = EndBase proc -> proc <> 0 -> N.of_nat (fblimit s) < u_modulus ->
  exists c', reaches prog c c' /\ R (with_pc s (LimFb (fblimit s))) c'.
Proof.
  intros (g & unc & usf & ins & -> & L & IR) Epc Hp Hl. unfold cfg_of. rewrite Epc in *. cbn in L. destruct L as (L1 & L2).
  apply N.eqb_neq in Hp. eexists (_, stack buf (LimFb (fblimit s))). split.
  - unfold stack. runto ltac:(rewrite ?L1, ?L2, ?Hp).
  - eexists _, unc, usf, ins. split; [reflexivity|]. split; [|exact IR]. cbn. split; [reflexivity|exact Hl].
Qed.

Lemma sim_endbase_drained s c :
  R s c -> pcs s = EndBase 0 -> forallb (drained s) (prios s) = true ->
  exists c', reaches prog c c' /\ R (with_pc s (Drain None)) c'.
Proof.
  intros (g & unc & usf & ins & -> & L & IR) Epc Hd. unfold cfg_of. rewrite Epc in *. cbn in L. destruct L as (L1 & L2).
  eexists (_, stack buf (Drain None)). split.
  - unfold stack. runto ltac:(rewrite ?L1, ?L2, ?(tie_isDrainedInputs dv _ s unc usf ins IR), ?Hd).
  - eexists _, unc, usf, ins. split; [reflexivity|]. split; [|exact IR]. reflexivity.
Qed.

Lemma sim_endbase_idle s c :
  R s c -> pcs s = EndBase 0 -> forallb (drained s) (prios s) = false ->
  exists c', reaches prog c c' /\ R (with_pc s Idle) c' /\ step1 prog c' = Block (RqSleep 1%Z).
Proof.
  intros (g & unc & usf & ins & -> & L & IR) Epc Hd. unfold cfg_of. rewrite Epc in *. cbn in L. destruct L as (L1 & L2).
  eexists (_, stack buf Idle). split; [|split].
  - unfold stack. runto ltac:(rewrite ?L1, ?L2, ?(tie_isDrainedInputs dv _ s unc usf ins IR), ?Hd).
  - eexists _, unc, usf, ins. split; [reflexivity|]. split; [exact I|exact IR].
  - reflexivity.
Qed.

(* ---- Idle: the sleep has ended *)
Lemma sim_idle s c :
  R s c -> pcs s = Idle -> N.of_nat (fblimit s) < u_modulus ->
  exists c', reaches prog (resume c AnsOk) c' /\ R (with_pc s (LimFb (fblimit s))) c'.
Proof.
  intros (g & unc & usf & ins & -> & L & IR) Epc Hl. unfold cfg_of. rewrite Epc in *.
  eexists (_, stack buf (LimFb (fblimit s))). split.
  - unfold stack. cbn [resume ifZero if_then loopW wbody at_ nth body_loop skipn]. runto idtac.
  - eexists _, unc, usf, ins. split; [reflexivity|]. split; [|exact IR]. cbn. split; [reflexivity|exact Hl].
Qed.

(* ---- LimFb: the head of the loop of getLimitedFeedback() *)
Lemma sim_limfb_zero s c :
  R s c -> pcs s = LimFb 0 ->
  exists c', reaches prog c c' /\ R (with_pc s Calc) c'.
Proof.
  intros (g & unc & usf & ins & -> & L & IR) Epc. unfold cfg_of. rewrite Epc in *. cbn in L. destruct L as (L1 & L2).
  rewrite N.add_0_r in L1.
  eexists (_, stack buf Calc). split.
  - unfold stack. runto ltac:(rewrite ?L1, ?N.ltb_irrefl).
  - eexists _, unc, usf, ins. split; [reflexivity|]. split; [|exact IR]. reflexivity.
Qed.

Definition glfSelK : list frameT := KSeq (skipn 1 (wbody glfW)) :: stack buf (LimFb 0).

Lemma blocked_limfb s g unc usf ins k :
  pcs s = LimFb (S k) -> live (pcs s) g ->
  exists g', reaches prog (cfg_of s g unc usf ins) ((conc dv s unc usf ins, g', ncalls s), glfSelK) /\
             step1 prog ((conc dv s unc usf ins, g', ncalls s), glfSelK) = Block (RqSelect [(CFeedback, None)] true) /\
             live (LimFb k) g'.
Proof.
  intros Epc L. unfold cfg_of. rewrite Epc in *. cbn in L. destruct L as (L1 & L2).
  assert (Hlt : (G_getLimitedFeedback_i1 g <? G_getLimitedFeedback_n2 g) = true) by (apply N.ltb_lt; lia).
  eexists. split; [|split].
  - unfold stack, glfSelK. step ltac:(rewrite ?Hlt). step idtac. apply r_refl.
  - reflexivity.
  - cbn. rewrite u_add_small by lia. split; [lia|exact L2].
Qed.

Lemma sim_limfb_recv s g unc usf ins k p q :
  Inv s -> H s < two64 -> pcs s = LimFb (S k) -> live (LimFb k) g -> ins_rel s ins -> fbq s = p :: q ->
  exists c', reaches prog (resume ((conc dv s unc usf ins, g, ncalls s), glfSelK) (AnsSel 0 (Some (PN p)))) c' /\
             R (pop_fb s p q (LimFb k)) c'.
Proof.
  intros I HH Epc L IR Efb. destruct (inv_fb_bounds s p q I HH Efb) as [B1 B2].
  eexists (_, stack buf (LimFb k)). split.
  - unfold glfSelK, stack. cbn [resume glfW wbody at_ nth body_getLimitedFeedback skipn nth_error].
    step idtac. runto ltac:(rewrite ?(tie_decreaseActual dv _ s unc usf ins p q (LimFb k) B1 B2)).
  - eexists _, unc, usf, ins. split; [reflexivity|]. split; [exact L|exact IR].
Qed.

Lemma sim_limfb_default s g unc usf ins k :
  pcs s = LimFb (S k) -> ins_rel s ins ->
  exists c', reaches prog (resume ((conc dv s unc usf ins, g, ncalls s), glfSelK) AnsDefault) c' /\ R (with_pc s Calc) c'.
Proof.
  intros Epc IR.
  eexists (_, stack buf Calc). split.
  - unfold glfSelK, stack. cbn [resume glfW wbody at_ nth body_getLimitedFeedback skipn nth_error]. runto idtac.
  - eexists _, unc, usf, ins. split; [reflexivity|]. split; [|exact IR]. reflexivity.
Qed.

(* ---- Drain: the head of the loop of the deferred waitZeroActual().  After a divider error dsc.tactic holds what the
   divider left while the model has reset it (GenTiePrio2Calc): from here on only dsc.actual matters, so the relation
   leaves the tactic open (tg). *)
Definition RD (s : st) (c : cfgT) : Prop :=
  exists g tg unc usf ins,
    c = ((conc dv (with_tac s tg (pcs s)) unc usf ins, g, ncalls s), stack buf (pcs s)) /\ live (pcs s) g.

Lemma R_RD s c : R s c -> RD s c.
Proof.
  intros (g & unc & usf & ins & -> & L & _). exists g, (tactic s), unc, usf, ins. split; [|exact L].
  unfold cfg_of. now rewrite with_tac_self.
Qed.

Definition wzRecvK (e : option derr) : list frameT := KSeq (skipn 2 (wbody wzW)) :: stack buf (Drain e).

(* actual is not all zero: the blocking point is the receive of a feedback *)
Lemma blocked_drain s c e :
  RD s c -> pcs s = Drain e -> sum (actual s) <> 0 ->
  exists v, reaches prog c (v, wzRecvK e) /\ step1 prog (v, wzRecvK e) = Block (RqRecv CFeedback) /\
            RD s (v, stack buf (pcs s)).
Proof.
  intros (g & tg & unc & usf & ins & -> & L) Epc Hs. rewrite Epc in *. apply N.eqb_neq in Hs.
  eexists. split; [|split].
  - unfold stack, wzRecvK. step idtac.
    step ltac:(rewrite ?(tie_isZeroActual dv _ (with_tac s tg (Drain e)) unc usf ins); cbn; rewrite ?Hs).
    step ltac:(rewrite ?(tie_isZeroActual dv _ (with_tac s tg (Drain e)) unc usf ins); cbn; rewrite ?Hs).
    step idtac. apply r_refl.
  - reflexivity.
  - unfold RD. rewrite Epc. eexists _, tg, unc, usf, ins. split; [reflexivity|exact L].
Qed.

Lemma sim_drain_recv s v e p q :
  Inv s -> H s < two64 -> RD s (v, stack buf (pcs s)) -> pcs s = Drain e -> fbq s = p :: q ->
  exists c', reaches prog (resume (v, wzRecvK e) (AnsRecv (Some (PN p)))) c' /\ RD (pop_fb s p q (Drain e)) c'.
Proof.
  intros I HH (g & tg & unc & usf & ins & E & L) Epc Efb. rewrite Epc in *. injection E as ->.
  destruct (inv_fb_bounds s p q I HH Efb) as [B1 B2].
  eexists (_, stack buf (Drain e)). split.
  - unfold stack, wzRecvK. cbn [resume wzW wbody at_ nth body_waitZeroActual skipn].
    step ltac:(rewrite ?(tie_decreaseActual dv _ (with_tac s tg (Drain e)) unc usf ins p q (Drain e) B1 B2)).
    runto idtac.
  - eexists _, tg, unc, usf, ins. split; [reflexivity|exact L].
Qed.

(* actual is all zero: the goroutine ends.  The requests that follow: the error (if any) is sent on err, then the deferred
   statements of main() in reverse order: the ticker is stopped, feedback, output and err are closed; then it is done.
   (The model does all of this in the one step Drain e -> Done e.) *)
Fixpoint trace (fuel : nat) (c : cfgT) (n : nat) : list (request payload chan_id) :=
  match n with
  | O => []
  | S m => match run_to_request prog fuel c with
           | Some (c', rq) => rq :: trace fuel (resume c' AnsOk) m
           | None => []
           end
  end.

Lemma sim_drain_end s c e :
  RD s c -> pcs s = Drain e -> sum (actual s) = 0 ->
  trace 100 c 6 =
  match e with
  | Some x => [RqSend CErr (PErr (Some (conv_derr x))); RqTickerStop; RqClose CFeedback; RqClose COutput; RqClose CErr; RqDone]
  | None => [RqTickerStop; RqClose CFeedback; RqClose COutput; RqClose CErr; RqDone; RqDone]
  end.
Proof.
  intros (g & tg & unc & usf & ins & -> & L) Epc Hs. rewrite Epc in *. cbn in L. apply N.eqb_eq in Hs.
  destruct e as [x|]; cbn in L.
  - unfold trace, stack. cbn [run_to_request].
    cbn. rewrite (tie_isZeroActual dv _ (with_tac s tg (Drain (Some x))) unc usf ins). cbn. rewrite Hs. cbn.
    rewrite L. reflexivity.
  - unfold trace, stack. cbn [run_to_request].
    cbn. rewrite (tie_isZeroActual dv _ (with_tac s tg (Drain None)) unc usf ins). cbn. rewrite Hs. cbn.
    rewrite L. reflexivity.
Qed.

(* ---- Calc: the head of the loop of waitCalcTactic(); the case without a divider error *)
Lemma step_calc_shape s :
  let s' := step_calc dv s in
  prios s' = prios s /\ drained s' = drained s /\
  (pcs s' = WaitFb \/ pcs s' = Prio P1 (prios s) 0 \/ exists e, pcs s' = Drain (Some e)).
Proof.
  unfold step_calc, calc_base.
  destruct (H s - sum (actual s) =? 0); [cbn; auto|].
  destruct (add_up _ _ _ _ _) as [[t pk]|].
  - destruct (pk =? _); [cbn; auto|].
    destruct (safe_divide _ _ _ _); cbn; [|repeat split; eauto]. destruct (filled _ _); auto.
  - destruct (safe_divide _ _ _ _); cbn; [|repeat split; eauto]. destruct (filled _ _); auto.
Qed.

Lemma sim_calc_ok s c :
  R s c -> pcs s = Calc ->
  NoDup (keys (tactic s)) -> NoDup (prios s) -> sum (actual s) <= H s -> H s < two64 -> sum (strategic s) < two64 ->
  (incl (prios s) (keys (tactic s)) \/ ncalls (step_calc dv s) = ncalls s) ->
  (forall e, pcs (step_calc dv s) <> Drain (Some e)) ->
  exists c', reaches prog c c' /\ R (step_calc dv s) c'.
Proof.
  intros (g & unc & usf & ins & -> & L & IR) Epc Hndt Hndp Hcap HH Hstr Hcov Hok.
  pose proof (tie_calcTactic_ok dv s unc usf ins Hndt Hndp Hcap HH Hstr Hcov Hok) as T. cbn zeta in T.
  destruct (step_calc_shape s) as (Hp & Hdr & Hpc).
  assert (IR' : ins_rel (step_calc dv s) ins) by (unfold ins_rel in *; rewrite Hp, Hdr; exact IR).
  unfold cfg_of. rewrite Epc in *. cbn in L.
  destruct Hpc as [E|[E|[e E]]]; [| |now destruct (Hok e)].
  - eexists (_, stack buf WaitFb). split.
    + unfold stack. step idtac. runto ltac:(rewrite ?T, ?E; cbn).
    + eexists _, _, usf, ins. split; [unfold cfg_of; rewrite E; reflexivity|]. rewrite E. split; [exact L|exact IR'].
  - eexists (_, stack buf (Prio P1 (prios s) 0)). split.
    + unfold stack. step idtac. runto ltac:(rewrite ?T, ?E; cbn; rewrite ?L).
    + eexists _, _, usf, ins. split; [unfold cfg_of; rewrite E; reflexivity|]. rewrite E. split; [|exact IR'].
      cbn. rewrite ?L, ?Hp. repeat split; reflexivity.
Qed.

(* ---- Recalc: base() after the first prioritize(); the case without a divider error *)
Lemma step_recalc_shape s proc :
  let s' := step_recalc dv s proc in
  prios s' = prios s /\ drained s' = drained s /\
  (pcs s' = Prio P2 (prios s) proc \/ pcs s' = EndBase proc \/ exists e, pcs s' = Drain (Some e)).
Proof.
  unfold step_recalc.
  destruct (safe_divide _ _ _ _); cbn; [|repeat split; eauto].
  destruct (safe_divide _ _ _ _); cbn; [|repeat split; eauto]. destruct (filled _ _); auto.
Qed.

Lemma sim_recalc_ok s c proc :
  R s c -> pcs s = Recalc proc ->
  (forall k ps n d, NoDup (keys d) -> NoDup (keys (dv k ps n d))) ->
  NoDup (keys (tactic s)) -> sum (tactic s) < two64 ->
  (forall e, pcs (step_recalc dv s proc) <> Drain (Some e)) ->
  exists c', reaches prog c c' /\ R (step_recalc dv s proc) c'.
Proof.
  intros (g & unc & usf & ins & -> & L & IR) Epc Hwf Hndt Hsum Hok.
  pose proof (tie_recalcTactic_ok dv s proc unc usf ins Hwf Hndt Hsum Hok) as T. cbn zeta in T.
  destruct (step_recalc_shape s proc) as (Hp & Hdr & Hpc).
  assert (IR' : ins_rel (step_recalc dv s proc) ins) by (unfold ins_rel in *; rewrite Hp, Hdr; exact IR).
  unfold cfg_of. rewrite Epc in *. cbn in L. destruct L as (L1 & L2).
  destruct Hpc as [E|[E|[e E]]]; [| |now destruct (Hok e)].
  - eexists (_, stack buf (Prio P2 (prios s) proc)). split.
    + unfold stack. runto ltac:(rewrite ?T, ?E; cbn).
    + eexists _, unc, _, ins. split; [unfold cfg_of; rewrite E; reflexivity|]. rewrite E. split; [|exact IR'].
      cbn. rewrite ?Hp, u_add_small by lia. repeat split; try lia; reflexivity.
  - eexists (_, stack buf (EndBase proc)). split.
    + unfold stack. runto ltac:(rewrite ?T, ?E; cbn).
    + eexists _, unc, _, ins. split; [unfold cfg_of; rewrite E; reflexivity|]. rewrite E. split; [|exact IR'].
      cbn. rewrite u_add_small by lia. split; [lia|reflexivity].
Qed.
End Sim.

Print Assumptions sim_waitfb.
Print Assumptions sim_send.
Print Assumptions sim_prio_read.
Print Assumptions sim_read_item.
Print Assumptions sim_read_closed.
Print Assumptions sim_read_tick2.
Print Assumptions sim_endbase_drained.
Print Assumptions sim_limfb_recv.
Print Assumptions sim_drain_recv.
Print Assumptions sim_drain_end.
Print Assumptions sim_calc_ok.
Print Assumptions sim_recalc_ok.
