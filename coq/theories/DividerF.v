(* Lifting of the float64 monotonicity (DividerC.part_f_mono_partial, valid on a domain only) to the order
   theorem of the Rate divider (C14).  DividerP.rate_incs_nonincreasing asks for a rounding that is monotone
   on ALL arguments; here the order theorem is re-proved from monotonicity on the arguments actually used
   (dividend, sum of the priorities, the listed priorities), and then instantiated with part_f. *)
From Coq Require Import List NArith Lia Bool ZArith.
From Cqos Require Import Base Divider DividerP DividerC Float64.
Import ListNotations.
Open Scope N_scope.

(* ---------- generic facts about nonincreasing lists *)
Lemma nonincreasing_tail x l : nonincreasing (x :: l) -> nonincreasing l.
Proof. intros H. inversion H; subst; [constructor|assumption]. Qed.

Lemma nonincreasing_head_ge x l q : nonincreasing (x :: l) -> In q l -> q <= x.
Proof. revert x. induction l as [|y r IH]; intros x Hs Hq; [destruct Hq|].
  inversion Hs as [| |x' y' l' Hyx Hs']; subst.
  destruct Hq as [<-|Hq]; [exact Hyx|]. specialize (IH y Hs' Hq). lia. Qed.

Lemma nonincreasing_nth l : nonincreasing l -> forall i j, (i <= j)%nat -> (j < length l)%nat -> nth j l 0 <= nth i l 0.
Proof. induction l as [|x r IH]; intros Hs i j Hij Hj; [simpl in Hj; lia|].
  destruct j as [|j].
  - assert (i = O) by lia. subst i. lia.
  - destruct i as [|i]; cbn [nth].
    + apply (nonincreasing_head_ge x r); [exact Hs|]. apply nth_In. simpl in Hj. lia.
    + apply IH; [eapply nonincreasing_tail; exact Hs|lia|simpl in Hj; lia]. Qed.

(* ---------- 1. the order theorem from monotonicity on the used arguments only *)
Lemma rate_incs_loop_mono_on (part : N -> N -> N -> N) d0 S ps rem bound :
  (forall p q, In p ps -> In q ps -> q <= p -> part d0 S q <= part d0 S p) ->
  nonincreasing ps ->
  (forall p, In p ps -> part d0 S p <= bound) ->
  nonincreasing (fst (rate_incs_loop part d0 S ps rem)) /\
  (forall x, In x (fst (rate_incs_loop part d0 S ps rem)) -> x <= bound).
Proof. revert rem bound. induction ps as [|p r IH]; intros rem bound Hm Hs Hb; cbn [rate_incs_loop].
  - cbn [fst]. split; [constructor|intros x []].
  - destruct (N.ltb_spec rem (part d0 S p)) as [Hlt|Hge]; cbn [fst].
    + split; [apply nonincreasing_zeros|]. intros x [<-|Hx].
      * specialize (Hb p (or_introl eq_refl)). lia.
      * apply in_map_iff in Hx. destruct Hx as [y [<- _]]. lia.
    + assert (Hs' : nonincreasing r) by (eapply nonincreasing_tail; exact Hs).
      assert (Hm' : forall a b, In a r -> In b r -> b <= a -> part d0 S b <= part d0 S a).
      { intros a b Ha Hb' Hab. apply Hm; [right; exact Ha|right; exact Hb'|exact Hab]. }
      assert (Hb' : forall q, In q r -> part d0 S q <= part d0 S p).
      { intros q Hq. apply Hm; [left; reflexivity|right; exact Hq|].
        eapply nonincreasing_head_ge; [exact Hs|exact Hq]. }
      destruct (IH (rem - part d0 S p) (part d0 S p) Hm' Hs' Hb') as [IH1 IH2].
      destruct (rate_incs_loop part d0 S r (rem - part d0 S p)) as [l o]; cbn [fst] in *.
      split.
      * destruct l as [|y l]; constructor; [|exact IH1]. apply IH2. left; reflexivity.
      * intros x [<-|Hx]; [apply Hb; left; reflexivity|].
        specialize (IH2 x Hx). specialize (Hb p (or_introl eq_refl)). lia.
Qed.

Theorem rate_incs_nonincreasing_on : forall (part : N -> N -> N -> N) ps dividend,
  (forall p q, In p ps -> In q ps -> q <= p -> part dividend (sum_list ps) q <= part dividend (sum_list ps) p) ->
  nonincreasing ps -> nonincreasing (rate_incs part ps dividend).
Proof. intros part ps dividend Hm Hs. unfold rate_incs.
  assert (Hb : forall p, In p ps -> part dividend (sum_list ps) p <= part dividend (sum_list ps) (hd 0 ps)).
  { intros p Hp. destruct ps as [|p0 r]; [destruct Hp|]. cbn [hd].
    apply Hm; [left; reflexivity|exact Hp|].
    destruct Hp as [<-|Hp]; [lia|]. eapply nonincreasing_head_ge; [exact Hs|exact Hp]. }
  destruct (rate_incs_loop_mono_on part dividend (sum_list ps) ps dividend _ Hm Hs Hb) as [H1 _].
  destruct (rate_incs_loop part dividend (sum_list ps) ps dividend) as [[|x l] [rem|]]; cbn [fst] in *; auto.
  eapply nonincreasing_raise; [exact H1|lia]. Qed.
Print Assumptions rate_incs_nonincreasing_on.

(* the theorem of DividerP follows from the new one (sanity: the new hypothesis is weaker) *)
Corollary rate_incs_nonincreasing_from_on : forall (part : N -> N -> N -> N),
  (forall d0 S p q, q <= p -> part d0 S q <= part d0 S p) ->
  forall ps dividend, nonincreasing ps -> nonincreasing (rate_incs part ps dividend).
Proof. intros part Hm ps dividend Hs. apply rate_incs_nonincreasing_on; [|exact Hs].
  intros p q _ _ Hqp. apply Hm. exact Hqp. Qed.

(* ---------- 2. the float64 instance *)
Theorem rate_f_monotone : forall ps dividend, 0 < sum_list ps -> dividend < 2 ^ 53 -> sum_list ps < 2 ^ 53 ->
  nonincreasing ps -> nonincreasing (rate_incs part_f ps dividend).
Proof. intros ps dividend HS0 Hd HS Hs. apply rate_incs_nonincreasing_on; [|exact Hs].
  intros p q Hp _ Hqp. apply part_f_mono_partial; try assumption.
  pose proof (in_le_sum_list p ps Hp). lia. Qed.
Print Assumptions rate_f_monotone.

(* the premise 0 < sum_list ps is not needed: with a zero sum every listed priority is 0, so q <= p forces q = p *)
Theorem rate_f_monotone_nosum : forall ps dividend, dividend < 2 ^ 53 -> sum_list ps < 2 ^ 53 ->
  nonincreasing ps -> nonincreasing (rate_incs part_f ps dividend).
Proof. intros ps dividend Hd HS Hs. destruct (N.eq_dec (sum_list ps) 0) as [E|NE].
  - apply rate_incs_nonincreasing_on; [|exact Hs]. intros p q Hp Hq _.
    pose proof (in_le_sum_list p ps Hp). pose proof (in_le_sum_list q ps Hq).
    assert (p = 0) by lia. assert (q = 0) by lia. subst p q. lia.
  - apply rate_f_monotone; try assumption. lia. Qed.
Print Assumptions rate_f_monotone_nosum.

(* ---------- 3. the same in terms of the distribution returned by the divider *)
(* what a listed priority receives = entry after - entry before (entries only grow: rate_get) *)
Definition received (part : N -> N -> N -> N) ps dividend (d : dist) (k : N) : N :=
  get (rate part ps dividend d) k - get d k.

Lemma received_nth part ps dividend d i : NoDup ps -> (i < length ps)%nat ->
  received part ps dividend d (nth i ps 0) = nth i (rate_incs part ps dividend) 0.
Proof. intros ND Hi. unfold received. rewrite rate_increment by assumption. lia. Qed.

(* positional form: along the list, higher positions (lower priorities) never receive more *)
Theorem rate_result_monotone_on : forall (part : N -> N -> N -> N) ps dividend d,
  (forall p q, In p ps -> In q ps -> q <= p -> part dividend (sum_list ps) q <= part dividend (sum_list ps) p) ->
  NoDup ps -> nonincreasing ps ->
  forall i j, (i <= j)%nat -> (j < length ps)%nat ->
    received part ps dividend d (nth j ps 0) <= received part ps dividend d (nth i ps 0).
Proof. intros part ps dividend d Hm ND Hs i j Hij Hj.
  rewrite !received_nth by (try assumption; lia).
  apply nonincreasing_nth; [apply rate_incs_nonincreasing_on; assumption|exact Hij|].
  rewrite rate_incs_length. exact Hj. Qed.
Print Assumptions rate_result_monotone_on.

(* position of a listed priority *)
Lemma in_index_of p l : In p l -> exists i, index_of p l = Some i.
Proof. intros H. destruct (index_of p l) as [i|] eqn:E; [exists i; reflexivity|].
  apply index_of_none in E. contradiction. Qed.

(* in a duplicate-free non-increasing list a strictly larger element stands earlier *)
Lemma nonincreasing_index_order l i j : nonincreasing l -> (i < length l)%nat -> (j < length l)%nat ->
  nth j l 0 < nth i l 0 -> (i < j)%nat.
Proof. intros Hs Hi Hj Hlt. destruct (Nat.lt_ge_cases i j) as [L|G]; [exact L|exfalso].
  pose proof (nonincreasing_nth l Hs j i G Hi). lia. Qed.

(* by-priority form: of two listed priorities, the lower one never receives more than the higher one *)
Theorem rate_result_monotone_by_priority_on : forall (part : N -> N -> N -> N) ps dividend d,
  (forall p q, In p ps -> In q ps -> q <= p -> part dividend (sum_list ps) q <= part dividend (sum_list ps) p) ->
  NoDup ps -> nonincreasing ps ->
  forall p q, In p ps -> In q ps -> q <= p ->
    received part ps dividend d q <= received part ps dividend d p.
Proof. intros part ps dividend d Hm ND Hs p q Hp Hq Hqp.
  destruct (N.eq_dec q p) as [->|Hne]; [lia|].
  destruct (in_index_of p ps Hp) as [i Ei]. destruct (in_index_of q ps Hq) as [j Ej].
  destruct (index_of_nth p ps i Ei) as [Ni Li]. destruct (index_of_nth q ps j Ej) as [Nj Lj].
  rewrite <- Ni, <- Nj.
  apply rate_result_monotone_on; try assumption.
  apply Nat.lt_le_incl. apply (nonincreasing_index_order ps i j Hs Li Lj). rewrite Ni, Nj. lia. Qed.
Print Assumptions rate_result_monotone_by_priority_on.

Lemma part_f_mono_on_list ps dividend : 0 < sum_list ps -> dividend < 2 ^ 53 -> sum_list ps < 2 ^ 53 ->
  forall p q, In p ps -> In q ps -> q <= p -> part_f dividend (sum_list ps) q <= part_f dividend (sum_list ps) p.
Proof. intros HS0 Hd HS p q Hp _ Hqp. apply part_f_mono_partial; try assumption.
  pose proof (in_le_sum_list p ps Hp). lia. Qed.

Theorem rate_f_result_monotone : forall ps dividend d,
  0 < sum_list ps -> dividend < 2 ^ 53 -> sum_list ps < 2 ^ 53 -> NoDup ps -> nonincreasing ps ->
  forall i j, (i <= j)%nat -> (j < length ps)%nat ->
    get (rate part_f ps dividend d) (nth j ps 0) - get d (nth j ps 0) <=
    get (rate part_f ps dividend d) (nth i ps 0) - get d (nth i ps 0).
Proof. intros ps dividend d HS0 Hd HS ND Hs i j Hij Hj.
  apply (rate_result_monotone_on part_f ps dividend d); try assumption.
  apply part_f_mono_on_list; assumption. Qed.
Print Assumptions rate_f_result_monotone.

Theorem rate_f_result_monotone_by_priority : forall ps dividend d,
  0 < sum_list ps -> dividend < 2 ^ 53 -> sum_list ps < 2 ^ 53 -> NoDup ps -> nonincreasing ps ->
  forall p q, In p ps -> In q ps -> q <= p ->
    get (rate part_f ps dividend d) q - get d q <= get (rate part_f ps dividend d) p - get d p.
Proof. intros ps dividend d HS0 Hd HS ND Hs p q Hp Hq Hqp.
  apply (rate_result_monotone_by_priority_on part_f ps dividend d); try assumption.
  apply part_f_mono_on_list; assumption. Qed.
Print Assumptions rate_f_result_monotone_by_priority.

(* the usual call: the distribution has nothing yet for the listed priorities (fresh / reset map) *)
Corollary rate_f_result_monotone_fresh : forall ps dividend d,
  0 < sum_list ps -> dividend < 2 ^ 53 -> sum_list ps < 2 ^ 53 -> NoDup ps -> nonincreasing ps ->
  (forall p, In p ps -> get d p = 0) ->
  forall p q, In p ps -> In q ps -> q <= p ->
    get (rate part_f ps dividend d) q <= get (rate part_f ps dividend d) p.
Proof. intros ps dividend d HS0 Hd HS ND Hs H0 p q Hp Hq Hqp.
  pose proof (rate_f_result_monotone_by_priority ps dividend d HS0 Hd HS ND Hs p q Hp Hq Hqp) as H.
  rewrite (H0 p Hp), (H0 q Hq) in H. lia. Qed.
Print Assumptions rate_f_result_monotone_fresh.

(* ---------- examples (kernel-computed with the real binary64 operations) *)
Example rate_f_ex : rate_incs part_f [9;7;5;3;1] 12 = [6;3;2;1;0].
Proof. vm_compute. reflexivity. Qed.
Example rate_f_result_ex : rate part_f [9;7;5;3;1] 12 [] = [(9,6);(7,3);(5,2);(3,1);(1,0)].
Proof. vm_compute. reflexivity. Qed.
