(* Proofs for C13 (v2/limit/rate.go). *)
From Coq Require Import ZArith Lia Bool ZifyBool.
From Cqos Require Import RateConv.
Open Scope Z_scope.

(* D1: the pinned code returns an invalid rate without an error *)
Lemma refuted_old : exists r m, in_range r m /\ is_valid r = None /\ 0 <= m /\
  exists r', recalculate_old r m = inl r' /\ is_valid r' <> None.
Proof.
  exists {| ivl := 20000001; qty := 2 |}, 10000000. unfold in_range, max_i64, max_u64; simpl.
  repeat split; try lia. eexists. split; [vm_compute; reflexivity|]. vm_compute. discriminate.
Qed.


Lemma recalculate_spec r m : in_range r m ->
  match recalculate r m with
  | inr e =>
      (* an error only for: invalid rate, negative minimum, converted interval zero (minimum 0), quantity does not fit *)
      is_valid r <> None \/ m < 0 \/ (m = 0 /\ ivl r / qty r = 0) \/ max_u64 < (qty r * m) / ivl r
  | inl r' =>
      is_valid r' = None /\ m <= ivl r' /\ (qty r' = 1 \/ ivl r' = m) /\
      0 <= ivl r' <= max_i64 /\ 0 <= qty r' <= max_u64 /\
      (* not faster by a whole nanosecond of interval:  I/Q - 1 < I'/Q'  i.e. (I - Q) * Q' < I' * Q   *)
      (ivl r - qty r) * qty r' < ivl r' * qty r /\
      (* not faster at all in units of elements per interval, and slower by less than one element per interval *)
      qty r' * ivl r <= qty r * ivl r' + (if qty r' =? 1 then qty r * ivl r' else 0) /\
      qty r * ivl r' < (qty r' + 1) * ivl r
  end.
Proof.
  unfold in_range, recalculate, is_valid, max_i64, max_u64. intros (Hi & Hq & Hm).
  destruct (ivl r <? 0) eqn:E1; [left; discriminate|].
  destruct (ivl r =? 0) eqn:E2; [left; discriminate|].
  destruct (qty r =? 0) eqn:E3; [left; discriminate|].
  destruct (m <? 0) eqn:E4; [right; left; lia|].
  apply Z.ltb_ge in E1, E4. apply Z.eqb_neq in E2, E3.
  destruct (negb (ivl r / qty r =? 0) && (m <=? ivl r / qty r)) eqn:E5.
  - apply andb_prop in E5. destruct E5 as [E5 E6]. apply negb_true_iff, Z.eqb_neq in E5. apply Z.leb_le in E6.
    cbn [ivl qty]. simpl (_ <? _). 
    assert (Hd : 0 < ivl r / qty r <= ivl r) by (split; [lia | apply Z.div_le_upper_bound; nia]).
    assert (Hmul : qty r * (ivl r / qty r) <= ivl r) by (apply Z.mul_div_le; lia).
    assert (Hmul2 : ivl r < qty r * (ivl r / qty r) + qty r).
    { pose proof (Z.mod_pos_bound (ivl r) (qty r) ltac:(lia)). pose proof (Z.div_mod (ivl r) (qty r) ltac:(lia)). lia. }
    destruct (ivl r / qty r <? 0) eqn:F1; [exfalso; lia|]. destruct (ivl r / qty r =? 0) eqn:F2; [exfalso; lia|].
    assert (Hqq : qty r <= qty r * (ivl r / qty r)) by nia.
    change (1 =? 0) with false; change (1 =? 1) with true; cbv iota.
    rewrite (Z.mul_comm (ivl r / qty r) (qty r)). repeat split; try reflexivity; try lia.
  - destruct (m =? 0) eqn:E6.
    + apply Z.eqb_eq in E6. right; right; left. split; auto.
      apply andb_false_iff in E5. destruct E5 as [E5|E5].
      * apply negb_false_iff, Z.eqb_eq in E5. auto.
      * apply Z.leb_gt in E5. pose proof (Z.div_pos (ivl r) (qty r)). lia.
    + apply Z.eqb_neq in E6.
      destruct (qty r * m / ivl r <=? 18446744073709551615) eqn:E7.
      * apply Z.leb_le in E7. cbn [ivl qty].
        assert (Hlt : ivl r / qty r < m).
        { apply andb_false_iff in E5. destruct E5 as [E5|E5].
          - apply negb_false_iff, Z.eqb_eq in E5. lia.
          - apply Z.leb_gt in E5. lia. }
        (* floor(I/Q) < m  ->  I < Q*m  ->  quantity >= 1 *)
        assert (HIQ : ivl r < qty r * m).
        { pose proof (Z.mod_pos_bound (ivl r) (qty r) ltac:(lia)). pose proof (Z.div_mod (ivl r) (qty r) ltac:(lia)). nia. }
        assert (Hq1 : 1 <= qty r * m / ivl r) by (apply Z.div_le_lower_bound; lia).
        assert (Hmul : ivl r * (qty r * m / ivl r) <= qty r * m) by (apply Z.mul_div_le; lia).
        assert (Hmul2 : qty r * m < ivl r * (qty r * m / ivl r) + ivl r).
        { pose proof (Z.mod_pos_bound (qty r * m) (ivl r) ltac:(lia)). pose proof (Z.div_mod (qty r * m) (ivl r) ltac:(lia)). lia. }
        destruct (m <? 0) eqn:F1; [exfalso; lia|]. destruct (m =? 0) eqn:F2; [exfalso; lia|].
        destruct (qty r * m / ivl r =? 0) eqn:F3; [exfalso; lia|].
        rewrite (Z.mul_comm (qty r * m / ivl r) (ivl r)).
        repeat split; try reflexivity; try lia.
        destruct (qty r * m / ivl r =? 1); lia.
      * apply Z.leb_gt in E7. right; right; right. lia.
Qed.

(* the statement shared by Recalculate / Optimize / Flatten *)
Definition rate_spec (r : rate) (m : Z) (res : rate + err) : Prop :=
  match res with
  | inr e =>
      is_valid r <> None \/ m < 0 \/ (m = 0 /\ ivl r / qty r = 0) \/ max_u64 < (qty r * m) / ivl r
  | inl r' =>
      is_valid r' = None /\ m <= ivl r' /\ (qty r' = 1 \/ ivl r' = m) /\
      0 <= ivl r' <= max_i64 /\ 0 <= qty r' <= max_u64 /\
      (ivl r - qty r) * qty r' < ivl r' * qty r /\
      qty r' * ivl r <= qty r * ivl r' + (if qty r' =? 1 then qty r * ivl r' else 0) /\
      qty r * ivl r' < (qty r' + 1) * ivl r
  end.

Lemma recalculate_meets_spec r m : in_range r m -> rate_spec r m (recalculate r m).
Proof. intros H. unfold rate_spec. exact (recalculate_spec r m H). Qed.

Lemma optimize_meets_spec r : in_range r 0 -> rate_spec r optimization_interval (optimize r).
Proof.
  intros H. apply recalculate_meets_spec. unfold in_range, optimization_interval, max_i64 in *. lia.
Qed.

Lemma flatten_meets_spec r : in_range r 0 -> rate_spec r 0 (flatten r).
Proof. intros H. apply recalculate_meets_spec. exact H. Qed.

(* the sharper reading of "faster by less than one nanosecond of its interval": lengthening the returned Interval by one
   nanosecond makes the returned rate strictly slower than the original,  Q'/(I'+1) < Q/I.  For Quantity' = 1 this is the
   clause of rate_spec; for Interval' = minimum it follows from "never faster" (found necessary by the seeded change C13d, whose
   double rounding in the second branch stays within one nanosecond *per element* but not within one nanosecond of the Interval) *)
Lemma spec_within_one_ns r m r' : in_range r m -> is_valid r = None -> rate_spec r m (inl r') ->
  qty r' * ivl r < qty r * (ivl r' + 1) /\ qty r * ivl r' < (qty r' + 1) * ivl r.
Proof.
  unfold in_range, rate_spec, is_valid. intros (Hi & Hq & Hm) Hv (_ & _ & _ & Hi' & Hq' & H1 & H2 & H3).
  destruct (ivl r <? 0) eqn:E1; [discriminate|]. destruct (ivl r =? 0) eqn:E2; [discriminate|].
  destruct (qty r =? 0) eqn:E3; [discriminate|]. split; [|exact H3].
  destruct (qty r' =? 1) eqn:E; [apply Z.eqb_eq in E; rewrite E in *; lia | nia].
Qed.
Lemma recalculate_within_one_ns r m r' : in_range r m -> is_valid r = None -> recalculate r m = inl r' ->
  qty r' * ivl r < qty r * (ivl r' + 1) /\ qty r * ivl r' < (qty r' + 1) * ivl r.
Proof. intros H Hv E. apply (spec_within_one_ns r m r' H Hv). rewrite <- E. apply recalculate_meets_spec, H. Qed.

(* the error value accompanies the zero Rate: in the model an error carries no rate at all (sum type),
   enc_result renders it as 0 0, which is what the harness compares with the Go return value *)
Lemma error_has_zero_rate r m e : recalculate r m = inr e -> enc_result (recalculate r m) = (err_code e :: 0 :: 0 :: nil)%list.
Proof. intros ->. reflexivity. Qed.

(* non-vacuity: both branches are reachable with in-range arguments *)
Example spec_branch1 : in_range {| ivl := 1000000000; qty := 3 |} 10000000 /\
  recalculate {| ivl := 1000000000; qty := 3 |} 10000000 = inl {| ivl := 333333333; qty := 1 |}.
Proof. split; [unfold in_range, max_i64, max_u64; simpl; lia | vm_compute; reflexivity]. Qed.
Example spec_branch2 : in_range {| ivl := 1000000000; qty := 1000 |} 10000000 /\
  recalculate {| ivl := 1000000000; qty := 1000 |} 10000000 = inl {| ivl := 10000000; qty := 10 |}.
Proof. split; [unfold in_range, max_i64, max_u64; simpl; lia | vm_compute; reflexivity]. Qed.
Example spec_witness_fixed :
  recalculate {| ivl := 20000001; qty := 2 |} 10000000 = inl {| ivl := 10000000; qty := 1 |}.
Proof. vm_compute; reflexivity. Qed.
