(* C16 for the v1 join discipline: once Stop() was called (or the context cancelled) the goroutine is never blocked -- every
   blocking point has the stop alternative -- and, resolving every select in favour of the stop alternative, it closes its output
   within six of its own steps, from ANY state; nothing is emitted on the way. *)
From Coq Require Import List ZArith Bool Lia.
From Cqos Require Import Join.
Import ListNotations.
Open Scope Z_scope.

(* the stop alternative of the select the machine is blocked in *)
Definition stop_event (s : jst) (t : Z) : jev :=
  match pc s with
  | Loop => TakeStop t
  | Sending _ _ _ _ => Abort t
  | AwaitRel _ => Abort t
  | Closed => TakeStop t
  end.

Fixpoint stop_run (c : jcfg) (n : nat) (s : jst) (t : Z) : option (jst * list emission) :=
  match n with
  | O => Some (s, [])
  | S m =>
      match pc s with
      | Closed => Some (s, [])
      | _ =>
          match jstep c s (stop_event s t) with
          | Some (s1, o1) =>
              match stop_run c m s1 t with
              | Some (s2, o2) => Some (s2, o1 ++ o2)
              | None => None
              end
          | None => None
          end
      end
  end.

Lemma stop_alternative_enabled c s t :
  is_v1 c = true -> stopped s = true -> pc s <> Closed -> exists s' o, jstep c s (stop_event s t) = Some (s', o) /\ o = [] /\ stopped s' = true.
Proof.
  intros Hv Hs Hpc. unfold stop_event, jstep. destruct (pc s) eqn:E; try congruence; rewrite Hv, Hs; cbn [andb].
  - destruct (unrel s); [eexists; eexists; split; [reflexivity|split; [reflexivity|simpl; rewrite ?Hs; auto]]|].
    unfold do_pass, resume. destruct (buf s); eexists; eexists; (split; [reflexivity|split; [reflexivity|simpl; auto]]).
  - unfold resume. destruct k; eexists; eexists; (split; [reflexivity|split; [reflexivity|simpl; auto]]).
  - destruct k; eexists; eexists; (split; [reflexivity|split; [reflexivity|simpl; auto]]).
Qed.

Theorem join_stop_terminates c s t :
  is_v1 c = true -> stopped s = true ->
  exists s', stop_run c 6 s t = Some (s', []) /\ pc s' = Closed.
Proof.
  intros Hv Hs.
  assert (V : forall x, (is_v1 c && x) = x) by (intros; rewrite Hv; reflexivity).
  destruct s as [b pa p u st]. simpl in Hs. subst st.
  destruct p as [|sl own why k|k|]; try destruct k as [|xs|xs|]; destruct u; try destruct b as [|x0 b0]; try destruct xs as [|y0 ys0];
    cbn; rewrite ?V; cbn; rewrite ?V; cbn; rewrite ?V; cbn; rewrite ?V; cbn; rewrite ?V; cbn; rewrite ?V; cbn;
    eexists; (split; [reflexivity|reflexivity]).
Qed.
