(* Tie lemmas, part 2 of 4: calcTacticBase, calcTactic, recalcTactic of the generated GenV2Prio.v versus
   Prio2.step_calc / Prio2.step_recalc.  Helper ties and the abstraction `conc`: GenTiePrio2Base.v. *)
From Coq Require Import List NArith ZArith Bool Lia.
From Cqos Require Import Base Divider Sched Prio2 Prio2P GoSem GenV2Prio GenTiePrio2Base.
Import ListNotations.
Open Scope N_scope.

(* ------------------------------------------------------------------ calcTacticBase *)

Definition base_res (r : dist + derr) (unc : list N) : bool * option err_V2Prio :=
  match r with inl t' => (filled t' unc, None) | inr e => (false, Some (conv_derr e)) end.

Lemma tie_calcTacticBase dv w dsc (act str t : dist) vac :
  Opts_Divider (Discipline_opts dsc) = Some (lift dv) ->
  Discipline_actual dsc = Some act -> Discipline_strategic dsc = Some str -> Discipline_tactic dsc = Some t ->
  NoDup (keys t) ->
  gen_calcTacticBase w dsc vac =
  (let unc := filter (fun p => get act p <? get str p) (Discipline_priorities dsc) in
   (S w, set_Discipline_tactic (Some (dv w unc vac (reset t))) (set_Discipline_uncrowded unc dsc),
    base_res (safe_divide (dv w) unc vac (reset t)) unc)).
Proof.
  destruct dsc as [[dvd hq oi] fb ins out ps a0 s0 t0 unc usf fl intr er]. cbn. intros -> -> -> -> ND.
  unfold gen_calcTacticBase. cbn.
  rewrite (tie_resetTactic w _ t) by (reflexivity || exact ND). cbn.
  rewrite (tie_updateUncrowded w _ act str) by reflexivity. cbn.
  rewrite tie_safeDivide_eq.
  set (u := filter (fun p => get act p <? get str p) ps).
  assert (Es : safe_sum (reset t) = Some 0).
  { unfold safe_sum. now rewrite sum_reset. }
  rewrite Es. cbn.
  destruct (safe_divide (dv w) u vac (reset t)) as [t'|e] eqn:E; cbn.
  - rewrite (tie_isTacticFilled (S w) _ (dv w u vac (reset t)) u) by reflexivity. cbn.
    apply safe_divide_inl in E. destruct E as [-> _]. reflexivity.
  - reflexivity.
Qed.

(* ------------------------------------------------------------------ calcTactic, exactly as the Go code computes it *)

(* calcTacticBase on the state the Go code has at that point; on an error dsc.tactic holds what the divider left *)
Definition go_calc_base (dv : nat -> Divider) (s : st) (v : N) : st :=
  let unc := uncrowded s in
  let s1 := log_call s unc v in
  match safe_divide (dv (ncalls s)) unc v (reset (tactic s)) with
  | inr e => with_tac s1 (dv (ncalls s) unc v (reset (tactic s))) (Drain (Some e))
  | inl t => with_tac s1 t (if filled t unc then Prio P1 (prios s) 0 else WaitFb)
  end.

Definition go_step_calc (dv : nat -> Divider) (s : st) : st :=
  let v := H s - sum (actual s) in
  if v =? 0 then with_pc s WaitFb else
  let '(t, pk, ok) := add_up_go (prios s) (actual s) (strategic s) (reset (tactic s)) 0 in
  if ok && (pk =? v) then with_tac s t (Prio P1 (prios s) 0)
  else go_calc_base dv (with_tac s t (pcs s)) v.   (* the partially added-up tactic is still there *)

Lemma tie_calcTactic_go dv s unc usf ins
  (Hndt : NoDup (keys (tactic s)))
  (Hcap : sum (actual s) <= H s) (HH : H s < two64)
  (Hstr : sum_list (map (get (strategic s)) (prios s)) < two64) :
  let s' := go_step_calc dv s in
  gen_calcTactic (ncalls s) (conc dv s unc usf ins) =
  (ncalls s', conc dv s' (scratch_after (ncalls s') (ncalls s) unc (uncrowded s)) usf ins, pc_res (pcs s')).
Proof.
  rewrite two64_u in *.
  unfold go_step_calc, gen_calcTactic, conc. cbn.
  rewrite (tie_calcVacants (ncalls s) _ (actual s)) by (reflexivity || assumption). cbn.
  destruct (H s - sum (actual s) =? 0) eqn:Ev; cbn.
  { rewrite scratch_same. reflexivity. }
  rewrite (tie_calcTacticByAddUpToStrategic (ncalls s) _ (actual s) (strategic s) (tactic s))
    by (reflexivity || assumption). cbn.
  pose proof (add_up_go_nodup (prios s) (actual s) (strategic s) (reset (tactic s)) 0 (nodup_keys_reset _ Hndt)) as NDt.
  destruct (add_up_go (prios s) (actual s) (strategic s) (reset (tactic s)) 0) as [[t' pk] ok]. cbn in NDt.
  destruct (ok && (pk =? H s - sum (actual s))) eqn:Eok; cbn.
  { rewrite scratch_same. reflexivity. }
  rewrite (tie_calcTacticBase dv (ncalls s) _ (actual s) (strategic s) t') by (reflexivity || assumption). cbn.
  unfold go_calc_base, uncrowded. cbn.
  fold (uncrowded s).
  destruct (safe_divide (dv (ncalls s)) (uncrowded s) (H s - sum (actual s)) (reset t')) as [t2|e] eqn:E; cbn;
    rewrite scratch_moved by lia.
  - apply safe_divide_inl in E. destruct E as [-> _].
    unfold filled. destruct (forallb _ (uncrowded s)); reflexivity.
  - reflexivity.
Qed.

(* the tactic the Go code leaves behind, in terms of the model: the model's, except that after a divider error the
   model resets the tactic while the Go code keeps what the divider produced *)
Definition calc_tactic_go (dv : nat -> Divider) (s : st) : dist :=
  match pcs (step_calc dv s) with
  | Drain (Some _) => dv (ncalls s) (uncrowded s) (H s - sum (actual s)) (reset (tactic s))
  | _ => tactic (step_calc dv s)
  end.

Lemma with_tac_with_tac s t c t' c' : with_tac (with_tac s t c) t' c' = with_tac s t' c'.
Proof. reflexivity. Qed.

(* if dsc.tactic has an entry for every priority, the Go computation is the model's step *)
Lemma go_step_calc_cov dv s :
  incl (prios s) (keys (tactic s)) ->
  go_step_calc dv s = with_tac (step_calc dv s) (calc_tactic_go dv s) (pcs (step_calc dv s)).
Proof.
  intros Hcov. unfold calc_tactic_go, go_step_calc, step_calc.
  destruct (H s - sum (actual s) =? 0) eqn:Ev.
  { now destruct s. }
  rewrite add_up_go_spec.
  pose proof (add_up_go_reset (prios s) (actual s) (strategic s) (reset (tactic s)) 0) as Er.
  rewrite keys_reset, reset_reset in Er. specialize (Er Hcov).
  destruct (add_up_go (prios s) (actual s) (strategic s) (reset (tactic s)) 0) as [[t pk] ok]. cbn in Er.
  assert (Eb : go_calc_base dv (with_tac s t (pcs s)) (H s - sum (actual s)) =
               with_tac (calc_base dv s (H s - sum (actual s)))
                 match pcs (calc_base dv s (H s - sum (actual s))) with
                 | Drain (Some _) => dv (ncalls s) (uncrowded s) (H s - sum (actual s)) (reset (tactic s))
                 | _ => tactic (calc_base dv s (H s - sum (actual s)))
                 end (pcs (calc_base dv s (H s - sum (actual s))))).
  { unfold go_calc_base, calc_base.
    change (uncrowded (with_tac s t (pcs s))) with (uncrowded s).
    change (ncalls (with_tac s t (pcs s))) with (ncalls s).
    change (tactic (with_tac s t (pcs s))) with t.
    change (prios (with_tac s t (pcs s))) with (prios s). rewrite Er.
    destruct (safe_divide (dv (ncalls s)) (uncrowded s) (H s - sum (actual s)) (reset (tactic s))) as [t2|e]; cbn.
    - destruct (filled t2 (uncrowded s)); reflexivity.
    - reflexivity. }
  destruct ok; cbn.
  - destruct (pk =? H s - sum (actual s)); [reflexivity|exact Eb].
  - exact Eb.
Qed.

(* ------------------------------------------------------------------ recalcTactic *)

(* dsc.tactic after recalcTactic: always what the last divider call left (the model resets it after an error) *)
Definition recalc_tactic_go (dv : nat -> Divider) (s : st) : dist :=
  let t1 := dv (ncalls s) (useful s) (H s) (reset (tactic s)) in
  match safe_divide (dv (ncalls s)) (useful s) (H s) (reset (tactic s)) with
  | inr _ => t1
  | inl _ => dv (S (ncalls s)) (useful_like s t1) (sum (tactic s)) (reset t1)
  end.
(* dsc.useful after recalcTactic *)
Definition recalc_useful (dv : nat -> Divider) (s : st) : list N :=
  match safe_divide (dv (ncalls s)) (useful s) (H s) (reset (tactic s)) with
  | inr _ => useful s
  | inl t1 => useful_like s t1
  end.

Lemma safe_sum_reset d : safe_sum (reset d) = Some 0.
Proof. unfold safe_sum. now rewrite sum_reset. Qed.

Lemma tie_recalcTactic_eq dv s proc unc usf ins
  (dv_wf : forall k ps n d, NoDup (keys d) -> NoDup (keys (dv k ps n d)))
  (Hndt : NoDup (keys (tactic s)))
  (Hsum : sum (tactic s) < two64) :
  let s' := step_recalc dv s proc in
  gen_recalcTactic (ncalls s) (conc dv s unc usf ins) =
  (ncalls s', conc dv (with_tac s' (recalc_tactic_go dv s) (pcs s')) unc (recalc_useful dv s) ins, pc_res (pcs s')).
Proof.
  rewrite two64_u in *.
  unfold recalc_tactic_go, recalc_useful, step_recalc, gen_recalcTactic, conc. cbn.
  rewrite tie_calcDistributionQuantity by assumption. cbn.
  rewrite (tie_updateUseful (ncalls s) _ (tactic s)) by reflexivity. cbn.
  rewrite (tie_resetTactic (ncalls s) _ (tactic s)) by (reflexivity || assumption). cbn.
  rewrite tie_safeDivide_eq, safe_sum_reset. cbn.
  fold (useful s).
  destruct (safe_divide (dv (ncalls s)) (useful s) (H s) (reset (tactic s))) as [t1|e1] eqn:E1; cbn; [|reflexivity].
  apply safe_divide_inl in E1. destruct E1 as [E1 _]. rewrite <- E1.
  assert (ND1 : NoDup (keys t1)) by (rewrite E1; apply dv_wf; now apply nodup_keys_reset).
  rewrite (tie_updateUsefulLikeUncrowded (S (ncalls s)) _ (actual s) t1) by reflexivity. cbn.
  rewrite (tie_resetTactic (S (ncalls s)) _ t1) by (reflexivity || assumption). cbn.
  rewrite tie_safeDivide_eq, safe_sum_reset. cbn.
  fold (useful_like s t1).
  destruct (safe_divide (dv (S (ncalls s))) (useful_like s t1) (sum (tactic s)) (reset t1)) as [t2|e2] eqn:E2; cbn; [|reflexivity].
  rewrite (tie_isTacticFilled (S (S (ncalls s))) _ (dv (S (ncalls s)) (useful_like s t1) (sum (tactic s)) (reset t1)))
    by reflexivity.
  apply safe_divide_inl in E2. destruct E2 as [<- _].
  unfold filled. destruct (forallb _ (useful_like s t1)); reflexivity.
Qed.

(* ------------------------------------------------------------------ the results as program counters; error-free runs *)

Lemma conv_derr_inj e e' : conv_derr e = conv_derr e' -> e = e'.
Proof. destruct e, e'; cbn; congruence. Qed.

(* calcTactic: (true, nil) <-> Prio P1 _ 0; (false, nil) <-> WaitFb; (false, err) <-> Drain (Some e) *)
Lemma pc_res_calc dv s :
  let c := pcs (step_calc dv s) in
  (c = Prio P1 (prios s) 0 <-> pc_res c = (true, None)) /\
  (c = WaitFb <-> pc_res c = (false, None)) /\
  (forall e, c = Drain (Some e) <-> pc_res c = (false, Some (conv_derr e))).
Proof.
  cbn zeta. destruct (step_calc_shape dv s) as [_ [E|[E|[e E]]]]; rewrite E; cbn; repeat split; try congruence; try discriminate.
  - intros E'. injection E' as E'. apply conv_derr_inj in E'. congruence.
Qed.

(* recalcTactic: (true, nil) <-> Prio P2 _ proc; (false, nil) <-> EndBase proc; (false, err) <-> Drain (Some e) *)
Lemma pc_res_recalc dv s proc :
  let c := pcs (step_recalc dv s proc) in
  (c = Prio P2 (prios s) proc <-> pc_res c = (true, None)) /\
  (c = EndBase proc <-> pc_res c = (false, None)) /\
  (forall e, c = Drain (Some e) <-> pc_res c = (false, Some (conv_derr e))).
Proof.
  cbn zeta. destruct (step_recalc_shape dv s proc) as [_ [E|[E|[e E]]]]; rewrite E; cbn; repeat split; try congruence; try discriminate.
  - intros E'. injection E' as E'. apply conv_derr_inj in E'. congruence.
Qed.

Lemma calc_tactic_go_ok dv s :
  (forall e, pcs (step_calc dv s) <> Drain (Some e)) -> calc_tactic_go dv s = tactic (step_calc dv s).
Proof.
  intros Hne. unfold calc_tactic_go. destruct (pcs (step_calc dv s)) as [| | | | | | | | |[e|]|]; try reflexivity.
  now destruct (Hne e).
Qed.

Lemma recalc_go_ok dv s proc :
  (forall e, pcs (step_recalc dv s proc) <> Drain (Some e)) ->
  recalc_tactic_go dv s = tactic (step_recalc dv s proc) /\
  recalc_useful dv s = useful_like s (dv (ncalls s) (useful s) (H s) (reset (tactic s))).
Proof.
  unfold recalc_tactic_go, recalc_useful, step_recalc.
  destruct (safe_divide (dv (ncalls s)) (useful s) (H s) (reset (tactic s))) as [t1|e1] eqn:E1; cbn.
  - apply safe_divide_inl in E1. destruct E1 as [<- _].
    destruct (safe_divide (dv (S (ncalls s))) (useful_like s t1) (sum (tactic s)) (reset t1)) as [t2|e2] eqn:E2; cbn.
    + apply safe_divide_inl in E2. destruct E2 as [<- _]. auto.
    + intros Hne. now destruct (Hne e2).
  - intros Hne. now destruct (Hne e1).
Qed.

(* ------------------------------------------------------------------ "dsc.tactic has an entry for every priority" is stable *)

Lemma keys_set_grow d k v : incl (keys d) (keys (set d k v)).
Proof. intros x Hx. apply in_keys_set. now left. Qed.

Lemma add_up_go_keys ps : forall act str tac picked,
  incl (keys tac) (keys (fst (fst (add_up_go ps act str tac picked)))).
Proof.
  induction ps as [|p r IH]; intros act str tac picked; cbn; [apply incl_refl|].
  destruct (get str p <? get act p); [apply incl_refl|].
  eapply incl_tran; [apply keys_set_grow|apply IH].
Qed.

(* the first calcTactic (nothing in flight) establishes it *)
Lemma add_up_covers ps : forall act str tac picked t pk,
  add_up ps act str tac picked = Some (t, pk) -> incl ps (keys t).
Proof.
  induction ps as [|p r IH]; intros act str tac picked t pk E; cbn in E; [intros x []|].
  destruct (get str p <? get act p); [discriminate|].
  intros x [<-|Hx]; [|eapply IH; eauto].
  rewrite add_up_go_spec in E.
  pose proof (add_up_go_keys r act str (set tac p (get str p - get act p)) (picked + (get str p - get act p))) as K.
  destruct (add_up_go r act str _ _) as [[t' pk'] ok]. destruct ok; [|discriminate]. injection E as <- <-.
  apply K. apply in_keys_set. now right.
Qed.

Section Coverage.
Variable dv : nat -> Divider.
(* the divider never deletes an entry of the map *)
Hypothesis dv_keeps : forall k ps n d, incl (keys d) (keys (dv k ps n d)).

Lemma cov_step_calc s : incl (prios s) (keys (tactic s)) -> incl (prios s) (keys (tactic (step_calc dv s))).
Proof.
  intros Hcov. unfold step_calc. destruct (H s - sum (actual s) =? 0); [exact Hcov|].
  assert (Hb : forall v, incl (prios s) (keys (tactic (calc_base dv s v)))).
  { intros v. unfold calc_base. destruct (safe_divide _ _ _ _) as [t|e] eqn:E; cbn.
    - apply safe_divide_inl in E. destruct E as [-> _].
      eapply incl_tran; [|apply dv_keeps]. now rewrite keys_reset.
    - now rewrite keys_reset. }
  destruct (add_up _ _ _ _ _) as [[t pk]|] eqn:E; [|apply Hb].
  destruct (pk =? _); [|apply Hb]. cbn. eapply add_up_covers; eauto.
Qed.

Lemma cov_step_recalc s proc : incl (prios s) (keys (tactic s)) -> incl (prios s) (keys (tactic (step_recalc dv s proc))).
Proof.
  intros Hcov. unfold step_recalc.
  destruct (safe_divide _ _ _ _) as [t1|e1] eqn:E1; cbn; [|now rewrite keys_reset].
  apply safe_divide_inl in E1. destruct E1 as [E1 _].
  assert (C1 : incl (prios s) (keys t1)).
  { rewrite E1. eapply incl_tran; [|apply dv_keeps]. now rewrite keys_reset. }
  destruct (safe_divide _ (useful_like s t1) _ _) as [t2|e2] eqn:E2; cbn; [|now rewrite keys_reset].
  apply safe_divide_inl in E2. destruct E2 as [-> _].
  eapply incl_tran; [|apply dv_keeps]. now rewrite keys_reset.
Qed.

Lemma cov_push_out s p x c : incl (prios s) (keys (tactic s)) -> incl (prios s) (keys (tactic (push_out s p x c))).
Proof. intros Hcov. cbn. unfold dec. eapply incl_tran; [exact Hcov|apply keys_set_grow]. Qed.
End Coverage.
(* ------------------------------------------------------------------ maps that differ in zero entries only *)

(* Go's dsc.tactic and the model's tactic can differ in entries with value 0 (and, as association lists, in order):
   calcTacticByAddUpToStrategic creates an entry for every priority it visits.  For a divider whose result depends
   only on the contents of the map it is given (dv_ext), the difference is invisible. *)
Definition deq (d d' : dist) : Prop := forall p, get d p = get d' p.

Lemma deq_refl d : deq d d.                                   Proof. intros p; reflexivity. Qed.
Lemma deq_sym d d' : deq d d' -> deq d' d.                    Proof. intros E p; symmetry; apply E. Qed.
Lemma deq_trans a b c : deq a b -> deq b c -> deq a c.        Proof. intros E1 E2 p; rewrite E1; apply E2. Qed.
Lemma deq_reset d d' : deq (reset d) (reset d').              Proof. intros p. now rewrite !get_reset. Qed.
Lemma deq_set d d' k v : deq d d' -> deq (set d k v) (set d' k v).
Proof.
  intros E p. destruct (N.eq_dec k p) as [->|Hne]; [now rewrite !get_set_same|].
  rewrite !get_set_other by assumption. apply E.
Qed.
Lemma deq_dec d d' p : deq d d' -> deq (dec d p) (dec d' p).
Proof. intros E. unfold dec. rewrite (E p). now apply deq_set. Qed.

Definition rm (k : N) (d : dist) : dist := filter (fun kv => negb (fst kv =? k)) d.
Lemma rm_cons k k' v r : rm k ((k', v) :: r) = if k' =? k then rm k r else (k', v) :: rm k r.
Proof. unfold rm. cbn. now destruct (k' =? k). Qed.
#[local] Arguments rm : simpl never.

Lemma keys_rm_in k d x : In x (keys (rm k d)) -> In x (keys d) /\ x <> k.
Proof.
  induction d as [|[k' v] r IH]; [cbn; tauto|]. rewrite rm_cons.
  destruct (N.eqb_spec k' k) as [->|Hne]; cbn.
  - intros Hin. destruct (IH Hin). split; auto.
  - intros [<-|Hin]; [split; auto|]. destruct (IH Hin). split; auto.
Qed.
Lemma nodup_rm k d : NoDup (keys d) -> NoDup (keys (rm k d)).
Proof.
  induction d as [|[k' v] r IH]; intros ND; [constructor|]. rewrite rm_cons.
  cbn in ND. inversion ND as [|? ? Hn ND']; subst.
  destruct (N.eqb_spec k' k); cbn; [auto|]. constructor; auto.
  intros Hin. apply keys_rm_in in Hin. tauto.
Qed.
Lemma get_rm k d x : get (rm k d) x = if x =? k then 0 else get d x.
Proof.
  induction d as [|[k' v] r IH]; [cbn; now destruct (x =? k)|]. rewrite rm_cons.
  destruct (N.eqb_spec k' k) as [->|Hne]; cbn.
  - rewrite IH. destruct (N.eqb_spec x k); reflexivity.
  - destruct (N.eqb_spec x k') as [->|Hx].
    + destruct (N.eqb_spec k' k); [contradiction|reflexivity].
    + apply IH.
Qed.
Lemma rm_notin k d : ~ In k (keys d) -> rm k d = d.
Proof.
  induction d as [|[k' v] r IH]; intros Hn; [reflexivity|]. rewrite rm_cons. cbn in Hn.
  destruct (N.eqb_spec k' k) as [->|Hne]; [tauto|]. rewrite IH; tauto.
Qed.
Lemma sum_rm k d : NoDup (keys d) -> sum d = get d k + sum (rm k d).
Proof.
  induction d as [|[k' v] r IH]; intros ND; [reflexivity|]. rewrite rm_cons.
  cbn in ND. inversion ND as [|? ? Hn ND']; subst. cbn [get sum]. rewrite (N.eqb_sym k k').
  destruct (N.eqb_spec k' k) as [->|Hne]; cbn [sum].
  - now rewrite rm_notin.
  - rewrite (IH ND'). lia.
Qed.
Lemma sum_zero_gets d : NoDup (keys d) -> (forall p, get d p = 0) -> sum d = 0.
Proof.
  induction d as [|[k v] r IH]; cbn; intros ND Hz; [reflexivity|].
  inversion ND as [|? ? Hn ND']; subst.
  pose proof (Hz k) as Hk. rewrite N.eqb_refl in Hk. subst v.
  assert (Hr : forall p, get r p = 0).
  { intros p. pose proof (Hz p) as Hp. cbn beta in Hp.
    destruct (N.eqb_spec p k) as [Epk|Hne]; [rewrite Epk; now apply get_notin|exact Hp]. }
  now rewrite (IH ND' Hr).
Qed.

Lemma sum_deq d : forall d', NoDup (keys d) -> NoDup (keys d') -> deq d d' -> sum d = sum d'.
Proof.
  induction d as [|[k v] r IH]; intros d' ND ND' E.
  - cbn. symmetry. apply sum_zero_gets; auto. intros p. symmetry. apply (E p).
  - inversion ND as [|? ? Hn NDr]; subst. cbn [sum].
    rewrite (sum_rm k d' ND'). rewrite <- (E k). cbn [get]. rewrite N.eqb_refl. f_equal.
    apply IH; auto using nodup_rm.
    intros p. rewrite get_rm. destruct (N.eqb_spec p k) as [->|Hne]; [now apply get_notin|].
    rewrite <- (E p). cbn [get]. destruct (N.eqb_spec p k); [contradiction|reflexivity].
Qed.

Lemma filled_deq t t' ps : deq t t' -> filled t ps = filled t' ps.
Proof. intros E. unfold filled. induction ps as [|p r IH]; cbn; [reflexivity|]. now rewrite (E p), IH. Qed.

Lemma filter_ext_all {A} (f g : A -> bool) l : (forall x, f x = g x) -> filter f l = filter g l.
Proof. intros E. induction l as [|x r IH]; cbn; [reflexivity|]. now rewrite E, IH. Qed.

Lemma add_up_go_deq ps : forall act str tac tac' picked,
  deq tac tac' ->
  deq (fst (fst (add_up_go ps act str tac picked))) (fst (fst (add_up_go ps act str tac' picked))) /\
  snd (fst (add_up_go ps act str tac picked)) = snd (fst (add_up_go ps act str tac' picked)) /\
  snd (add_up_go ps act str tac picked) = snd (add_up_go ps act str tac' picked).
Proof.
  induction ps as [|p r IH]; intros act str tac tac' picked E; cbn; [auto|].
  destruct (get str p <? get act p); cbn; [auto|]. apply IH. now apply deq_set.
Qed.

Section Extensional.
Variable dv : nat -> Divider.
Hypothesis dv_wf : forall k ps n d, NoDup (keys d) -> NoDup (keys (dv k ps n d)).
(* the result of the divider depends only on the contents of the map (an absent entry is a zero entry) *)
Hypothesis dv_ext : forall k ps n d d', NoDup (keys d) -> NoDup (keys d') -> deq d d' -> deq (dv k ps n d) (dv k ps n d').

Lemma safe_divide_deq k ps n t t' :
  NoDup (keys t) -> NoDup (keys t') -> deq t t' ->
  match safe_divide (dv k) ps n t, safe_divide (dv k) ps n t' with
  | inl r, inl r' => True
  | inr e, inr e' => e = e'
  | _, _ => False
  end.
Proof.
  intros ND ND' E. unfold safe_divide, safe_sum.
  rewrite <- (sum_deq t t' ND ND' E).
  destruct (sum t <? two64); [|reflexivity].
  rewrite <- (sum_deq (dv k ps n t) (dv k ps n t')) by auto.
  destruct (sum (dv k ps n t) <? two64); [|reflexivity].
  destruct (sum (dv k ps n t) =? 0); [exact I|].
  destruct (_ =? n); [exact I|reflexivity].
Qed.

(* the Go computation of calcTactic on a state whose tactic is tg, versus the model's step on an equivalent tactic *)
Lemma go_step_calc_deq s tg :
  NoDup (keys tg) -> NoDup (keys (tactic s)) -> deq tg (tactic s) ->
  exists tg', go_step_calc dv (with_tac s tg (pcs s)) = with_tac (step_calc dv s) tg' (pcs (step_calc dv s)) /\
              NoDup (keys tg') /\
              ((forall e, pcs (step_calc dv s) <> Drain (Some e)) -> deq tg' (tactic (step_calc dv s))).
Proof.
  intros NDg ND E. unfold go_step_calc, step_calc.
  change (H (with_tac s tg (pcs s))) with (H s). change (actual (with_tac s tg (pcs s))) with (actual s).
  change (prios (with_tac s tg (pcs s))) with (prios s). change (strategic (with_tac s tg (pcs s))) with (strategic s).
  change (tactic (with_tac s tg (pcs s))) with tg. change (pcs (with_tac s tg (pcs s))) with (pcs s).
  destruct (H s - sum (actual s) =? 0).
  { exists tg. repeat split; auto. }
  rewrite add_up_go_spec.
  destruct (add_up_go_deq (prios s) (actual s) (strategic s) (reset tg) (reset (tactic s)) 0 (deq_reset _ _)) as (Et & Ep & Eo).
  pose proof (add_up_go_nodup (prios s) (actual s) (strategic s) (reset tg) 0 (nodup_keys_reset _ NDg)) as NDt.
  pose proof (add_up_go_nodup (prios s) (actual s) (strategic s) (reset (tactic s)) 0 (nodup_keys_reset _ ND)) as NDt'.
  destruct (add_up_go (prios s) (actual s) (strategic s) (reset tg) 0) as [[t pk] ok].
  destruct (add_up_go (prios s) (actual s) (strategic s) (reset (tactic s)) 0) as [[t' pk'] ok'].
  cbn in Et, Ep, Eo, NDt, NDt'. subst pk' ok'.
  set (v := H s - sum (actual s)).
  assert (Hb : exists tg', go_calc_base dv (with_tac (with_tac s tg (pcs s)) t (pcs s)) v =
                             with_tac (calc_base dv s v) tg' (pcs (calc_base dv s v)) /\ NoDup (keys tg') /\
                           ((forall e, pcs (calc_base dv s v) <> Drain (Some e)) -> deq tg' (tactic (calc_base dv s v)))).
  { unfold go_calc_base, calc_base.
    change (uncrowded (with_tac (with_tac s tg (pcs s)) t (pcs s))) with (uncrowded s).
    change (ncalls (with_tac (with_tac s tg (pcs s)) t (pcs s))) with (ncalls s).
    change (tactic (with_tac (with_tac s tg (pcs s)) t (pcs s))) with t.
    change (prios (with_tac (with_tac s tg (pcs s)) t (pcs s))) with (prios s).
    pose proof (safe_divide_deq (ncalls s) (uncrowded s) v (reset t) (reset (tactic s))
                  (nodup_keys_reset _ NDt) (nodup_keys_reset _ ND) (deq_reset _ _)) as Hsd.
    destruct (safe_divide (dv (ncalls s)) (uncrowded s) v (reset t)) as [r|e] eqn:E1;
      destruct (safe_divide (dv (ncalls s)) (uncrowded s) v (reset (tactic s))) as [r'|e'] eqn:E2; try contradiction.
    - apply safe_divide_inl in E1. apply safe_divide_inl in E2. destruct E1 as [E1 _]. destruct E2 as [E2 _].
      assert (Er : deq r r').
      { rewrite E1, E2. apply dv_ext; auto using nodup_keys_reset, deq_reset. }
      exists r. rewrite (filled_deq r r' _ Er). repeat split.
      + rewrite E1. apply dv_wf. now apply nodup_keys_reset.
      + intros _. cbn. exact Er.
    - subst e'. exists (dv (ncalls s) (uncrowded s) v (reset t)). repeat split.
      + apply dv_wf. now apply nodup_keys_reset.
      + intros Hne. cbn in Hne. now destruct (Hne e). }
  destruct ok; cbn.
  - destruct (pk =? v); [|exact Hb]. exists t. repeat split; auto.
  - exact Hb.
Qed.

(* the model's recalc step does not see the difference at all *)
Lemma step_recalc_deq s tg proc :
  NoDup (keys tg) -> NoDup (keys (tactic s)) -> deq tg (tactic s) ->
  exists tg', step_recalc dv (with_tac s tg (pcs s)) proc = with_tac (step_recalc dv s proc) tg' (pcs (step_recalc dv s proc)) /\
              deq tg' (tactic (step_recalc dv s proc)) /\
              recalc_useful dv (with_tac s tg (pcs s)) = recalc_useful dv s /\
              ((forall e, pcs (step_recalc dv s proc) <> Drain (Some e)) ->
               deq (recalc_tactic_go dv (with_tac s tg (pcs s))) (tactic (step_recalc dv s proc))) /\
              NoDup (keys (recalc_tactic_go dv (with_tac s tg (pcs s)))).
Proof.
  intros NDg ND E. unfold step_recalc, recalc_useful, recalc_tactic_go.
  assert (Eu : useful (with_tac s tg (pcs s)) = useful s).
  { unfold useful. cbn. apply filter_ext_all. intros p. now rewrite (E p). }
  rewrite Eu.
  change (H (with_tac s tg (pcs s))) with (H s). change (ncalls (with_tac s tg (pcs s))) with (ncalls s).
  change (prios (with_tac s tg (pcs s))) with (prios s). change (tactic (with_tac s tg (pcs s))) with tg.
  rewrite (sum_deq tg (tactic s) NDg ND E).
  pose proof (safe_divide_deq (ncalls s) (useful s) (H s) (reset tg) (reset (tactic s))
                (nodup_keys_reset _ NDg) (nodup_keys_reset _ ND) (deq_reset _ _)) as Hsd.
  assert (W1 : NoDup (keys (dv (ncalls s) (useful s) (H s) (reset tg)))) by (apply dv_wf; now apply nodup_keys_reset).
  destruct (safe_divide (dv (ncalls s)) (useful s) (H s) (reset tg)) as [t1|e1] eqn:E1;
    destruct (safe_divide (dv (ncalls s)) (useful s) (H s) (reset (tactic s))) as [t1'|e1'] eqn:E1'; try contradiction.
  2:{ subst e1'. exists (reset tg). split; [reflexivity|]. split; [apply deq_reset|]. split; [reflexivity|].
      split; [|exact W1]. intros Hne. cbn in Hne. now destruct (Hne e1). }
  apply safe_divide_inl in E1. apply safe_divide_inl in E1'. destruct E1 as [E1 _]. destruct E1' as [E1' _].
  rewrite <- E1.
  assert (Et1 : deq t1 t1') by (rewrite E1, E1'; apply dv_ext; auto using nodup_keys_reset, deq_reset).
  assert (ND1 : NoDup (keys t1)) by (rewrite E1; apply dv_wf; now apply nodup_keys_reset).
  assert (ND1' : NoDup (keys t1')) by (rewrite E1'; apply dv_wf; now apply nodup_keys_reset).
  assert (Eul : useful_like (with_tac s tg (pcs s)) t1 = useful_like s t1').
  { unfold useful_like. cbn. apply filter_ext_all. intros p. now rewrite (Et1 p). }
  rewrite Eul.
  pose proof (safe_divide_deq (S (ncalls s)) (useful_like s t1') (sum (tactic s)) (reset t1) (reset t1')
                (nodup_keys_reset _ ND1) (nodup_keys_reset _ ND1') (deq_reset _ _)) as Hsd2.
  assert (W2 : NoDup (keys (dv (S (ncalls s)) (useful_like s t1') (sum (tactic s)) (reset t1))))
    by (apply dv_wf; now apply nodup_keys_reset).
  destruct (safe_divide (dv (S (ncalls s))) (useful_like s t1') (sum (tactic s)) (reset t1)) as [t2|e2] eqn:E2;
    destruct (safe_divide (dv (S (ncalls s))) (useful_like s t1') (sum (tactic s)) (reset t1')) as [t2'|e2'] eqn:E2'; try contradiction.
  2:{ subst e2'. exists (reset t1). split; [reflexivity|]. split; [apply deq_reset|]. split; [reflexivity|].
      split; [|exact W2]. intros Hne. cbn in Hne. now destruct (Hne e2). }
  apply safe_divide_inl in E2. apply safe_divide_inl in E2'. destruct E2 as [E2 _]. destruct E2' as [E2' _].
  assert (Et2 : deq t2 t2') by (rewrite E2, E2'; apply dv_ext; auto using nodup_keys_reset, deq_reset).
  exists t2. rewrite (filled_deq t2 t2' _ Et2). split; [reflexivity|]. split; [exact Et2|]. split; [reflexivity|].
  split; [|exact W2]. intros _. cbn. rewrite <- E2. exact Et2.
Qed.
End Extensional.

(* ==== main tie theorems ==== *)

(* calcTactic = Prio2.step_calc.  Hcov: dsc.tactic has an entry for every priority (stable from the first round on:
   add_up_covers, cov_step_calc, cov_step_recalc, cov_push_out), or calcTacticBase is not reached.  After a divider
   error the Go code keeps the divider's output in dsc.tactic (calc_tactic_go), the model resets it. *)
Theorem tie_calcTactic dv s unc usf ins
  (Hndt : NoDup (keys (tactic s))) (Hndp : NoDup (prios s))
  (Hcap : sum (actual s) <= H s) (HH : H s < two64) (Hstr : sum (strategic s) < two64)
  (Hcov : incl (prios s) (keys (tactic s)) \/ ncalls (step_calc dv s) = ncalls s) :
  let s' := step_calc dv s in
  gen_calcTactic (ncalls s) (conc dv s unc usf ins) =
  (ncalls s', conc dv (with_tac s' (calc_tactic_go dv s) (pcs s'))
                (scratch_after (ncalls s') (ncalls s) unc (uncrowded s)) usf ins, pc_res (pcs s')).
Proof.
  cbn zeta.
  assert (Hstr' : sum_list (map (get (strategic s)) (prios s)) < two64).
  { eapply N.le_lt_trans; [apply sum_gets_le; exact Hndp|exact Hstr]. }
  rewrite (tie_calcTactic_go dv s unc usf ins Hndt Hcap HH Hstr').
  assert (E : go_step_calc dv s = with_tac (step_calc dv s) (calc_tactic_go dv s) (pcs (step_calc dv s))).
  { destruct Hcov as [Hcov|Hn]; [now apply go_step_calc_cov|].
    revert Hn. unfold calc_tactic_go, go_step_calc, step_calc.
    destruct (H s - sum (actual s) =? 0) eqn:Ev; [now destruct s|].
    rewrite add_up_go_spec.
    destruct (add_up_go (prios s) (actual s) (strategic s) (reset (tactic s)) 0) as [[t pk] ok].
    assert (Hb : ncalls (calc_base dv s (H s - sum (actual s))) <> ncalls s).
    { unfold calc_base. destruct (safe_divide _ _ _ _); cbn; lia. }
    destruct ok; cbn; [destruct (pk =? H s - sum (actual s)); [reflexivity|]|]; intros Hn; now destruct Hb. }
  rewrite E. reflexivity.
Qed.

(* no error: exactly the model's next state *)
Corollary tie_calcTactic_ok dv s unc usf ins
  (Hndt : NoDup (keys (tactic s))) (Hndp : NoDup (prios s))
  (Hcap : sum (actual s) <= H s) (HH : H s < two64) (Hstr : sum (strategic s) < two64)
  (Hcov : incl (prios s) (keys (tactic s)) \/ ncalls (step_calc dv s) = ncalls s)
  (Hok : forall e, pcs (step_calc dv s) <> Drain (Some e)) :
  let s' := step_calc dv s in
  gen_calcTactic (ncalls s) (conc dv s unc usf ins) =
  (ncalls s', conc dv s' (scratch_after (ncalls s') (ncalls s) unc (uncrowded s)) usf ins, pc_res (pcs s')).
Proof.
  cbn zeta. rewrite tie_calcTactic by assumption. now rewrite calc_tactic_go_ok, with_tac_self.
Qed.

(* without Hcov: the Go computation itself (go_step_calc: the partially added-up tactic stays in the map) *)
Theorem tie_calcTactic_exact dv s unc usf ins
  (Hndt : NoDup (keys (tactic s))) (Hndp : NoDup (prios s))
  (Hcap : sum (actual s) <= H s) (HH : H s < two64) (Hstr : sum (strategic s) < two64) :
  let s' := go_step_calc dv s in
  gen_calcTactic (ncalls s) (conc dv s unc usf ins) =
  (ncalls s', conc dv s' (scratch_after (ncalls s') (ncalls s) unc (uncrowded s)) usf ins, pc_res (pcs s')).
Proof.
  apply tie_calcTactic_go; try assumption.
  eapply N.le_lt_trans; [apply sum_gets_le; exact Hndp|exact Hstr].
Qed.

(* recalcTactic = Prio2.step_recalc; dsc.tactic after an error: see recalc_tactic_go *)
Theorem tie_recalcTactic dv s proc unc usf ins
  (dv_wf : forall k ps n d, NoDup (keys d) -> NoDup (keys (dv k ps n d)))
  (Hndt : NoDup (keys (tactic s)))
  (Hsum : sum (tactic s) < two64) :
  let s' := step_recalc dv s proc in
  gen_recalcTactic (ncalls s) (conc dv s unc usf ins) =
  (ncalls s', conc dv (with_tac s' (recalc_tactic_go dv s) (pcs s')) unc (recalc_useful dv s) ins, pc_res (pcs s')).
Proof. now apply tie_recalcTactic_eq. Qed.

Corollary tie_recalcTactic_ok dv s proc unc usf ins
  (dv_wf : forall k ps n d, NoDup (keys d) -> NoDup (keys (dv k ps n d)))
  (Hndt : NoDup (keys (tactic s)))
  (Hsum : sum (tactic s) < two64)
  (Hok : forall e, pcs (step_recalc dv s proc) <> Drain (Some e)) :
  let s' := step_recalc dv s proc in
  gen_recalcTactic (ncalls s) (conc dv s unc usf ins) =
  (ncalls s', conc dv s' unc (useful_like s (dv (ncalls s) (useful s) (H s) (reset (tactic s)))) ins, pc_res (pcs s')).
Proof.
  cbn zeta. rewrite (tie_recalcTactic dv s proc) by assumption.
  destruct (recalc_go_ok dv s proc Hok) as [-> ->]. now rewrite with_tac_self.
Qed.

(* The general relation between the two: the Go state is the abstraction of the model state with its tactic replaced
   by a map `tg` with the same contents (deq: zero entries do not count).  It is preserved by calcTactic and
   recalcTactic for every divider that returns maps (dv_wf) and only looks at the contents of its map (dv_ext); no
   hypothesis on the entries of dsc.tactic is needed.  (The other functions do not touch dsc.tactic except
   decreaseTactic: deq_dec; the theorems above apply to `with_tac s tg (pcs s)` as they are.) *)
Theorem tie_calcTactic_sim dv s tg unc usf ins
  (dv_wf : forall k ps n d, NoDup (keys d) -> NoDup (keys (dv k ps n d)))
  (dv_ext : forall k ps n d d', NoDup (keys d) -> NoDup (keys d') -> deq d d' -> deq (dv k ps n d) (dv k ps n d'))
  (Hndg : NoDup (keys tg)) (Hdeq : deq tg (tactic s))
  (Hndt : NoDup (keys (tactic s))) (Hndp : NoDup (prios s))
  (Hcap : sum (actual s) <= H s) (HH : H s < two64) (Hstr : sum (strategic s) < two64) :
  let s' := step_calc dv s in
  exists tg',
    gen_calcTactic (ncalls s) (conc dv (with_tac s tg (pcs s)) unc usf ins) =
    (ncalls s', conc dv (with_tac s' tg' (pcs s')) (scratch_after (ncalls s') (ncalls s) unc (uncrowded s)) usf ins,
     pc_res (pcs s')) /\
    NoDup (keys tg') /\
    ((forall e, pcs s' <> Drain (Some e)) -> deq tg' (tactic s')).
Proof.
  cbn zeta.
  destruct (go_step_calc_deq dv dv_wf dv_ext s tg Hndg Hndt Hdeq) as (tg' & Eg & NDg' & Hd).
  exists tg'. split; [|split; assumption].
  pose proof (tie_calcTactic_exact dv (with_tac s tg (pcs s)) unc usf ins Hndg Hndp Hcap HH Hstr) as T.
  cbn zeta in T. rewrite Eg in T. exact T.
Qed.

Theorem tie_recalcTactic_sim dv s tg proc unc usf ins
  (dv_wf : forall k ps n d, NoDup (keys d) -> NoDup (keys (dv k ps n d)))
  (dv_ext : forall k ps n d d', NoDup (keys d) -> NoDup (keys d') -> deq d d' -> deq (dv k ps n d) (dv k ps n d'))
  (Hndg : NoDup (keys tg)) (Hdeq : deq tg (tactic s))
  (Hndt : NoDup (keys (tactic s))) (Hsum : sum (tactic s) < two64) :
  let s' := step_recalc dv s proc in
  exists tg',
    gen_recalcTactic (ncalls s) (conc dv (with_tac s tg (pcs s)) unc usf ins) =
    (ncalls s', conc dv (with_tac s' tg' (pcs s')) unc (recalc_useful dv s) ins, pc_res (pcs s')) /\
    NoDup (keys tg') /\
    ((forall e, pcs s' <> Drain (Some e)) -> deq tg' (tactic s')).
Proof.
  cbn zeta.
  destruct (step_recalc_deq dv dv_wf dv_ext s tg proc Hndg Hndt Hdeq) as (tm & Eg & _ & Eu & Hd & NDg').
  exists (recalc_tactic_go dv (with_tac s tg (pcs s))). split; [|split; assumption].
  assert (Hsum' : sum (tactic (with_tac s tg (pcs s))) < two64).
  { cbn. now rewrite (sum_deq tg (tactic s) Hndg Hndt Hdeq). }
  pose proof (tie_recalcTactic dv (with_tac s tg (pcs s)) proc unc usf ins dv_wf Hndg Hsum') as T.
  cbn zeta in T. rewrite Eg, Eu in T. exact T.
Qed.

(* ==== examples: every main theorem on a concrete, non-trivial input; the two disagreements ==== *)

Module Examples.
Import ExDefs.
(* -- calcTactic: add-up path (no divider call), base path, nothing vacant *)
Definition s_a : st := mkst 4 [3; 2; 1] str3 [(3, 1); (2, 0); (1, 0)] [(3, 0); (2, 0); (1, 0)] ex_dr Calc 1.
Definition s_b : st := mkst 5 [3; 2; 1] str3 [(3, 1); (2, 0); (1, 0)] [(3, 0); (2, 0); (1, 0)] ex_dr Calc 1.
Definition s_z : st := mkst 3 [3; 2; 1] str3 [(3, 1); (2, 1); (1, 1)] [(3, 0); (2, 0); (1, 0)] ex_dr Calc 1.

Ltac ex_calc_hyps := first [ex_nodup | ex_le | ex_lt | (left; intros x Hx; cbn in *; tauto) | (intros e; vm_compute; discriminate)].

Example ex_calcTactic_addup :
  obs (gen_calcTactic (ncalls s_a) (conc fdv s_a [9] [8] ex_ins)) =
    (1%nat, Some [(3, 1); (2, 0); (1, 0)], Some [(3, 1); (2, 1); (1, 1)], [9], [8], (true, None)) /\
  pcs (step_calc fdv s_a) = Prio P1 [3; 2; 1] 0.
Proof. split; [rewrite tie_calcTactic_ok by ex_calc_hyps|]; vm_compute; reflexivity. Qed.
Example ex_calcTactic_base :
  obs (gen_calcTactic (ncalls s_b) (conc fdv s_b [9] [8] ex_ins)) =
    (2%nat, Some [(3, 1); (2, 0); (1, 0)], Some [(3, 2); (2, 1); (1, 1)], [3; 2; 1], [8], (true, None)) /\
  pcs (step_calc fdv s_b) = Prio P1 [3; 2; 1] 0.
Proof. split; [rewrite tie_calcTactic_ok by ex_calc_hyps|]; vm_compute; reflexivity. Qed.
Example ex_calcTactic_wait :
  obs (gen_calcTactic (ncalls s_z) (conc fdv s_z [9] [8] ex_ins)) =
    (1%nat, Some [(3, 1); (2, 1); (1, 1)], Some [(3, 0); (2, 0); (1, 0)], [9], [8], (false, None)) /\
  pcs (step_calc fdv s_z) = WaitFb.
Proof. split; [rewrite tie_calcTactic_ok by ex_calc_hyps|]; vm_compute; reflexivity. Qed.
(* the very first call: dsc.tactic is empty, Hcov holds through its second disjunct *)
Definition s_0 : st := mkst 4 [3; 2; 1] str3 [] [] ex_dr Calc 1.
Example ex_calcTactic_first :
  obs (gen_calcTactic (ncalls s_0) (conc fdv s_0 [] [] ex_ins)) = (1%nat, Some [], Some str3, [], [], (true, None)) /\
  pcs (step_calc fdv s_0) = Prio P1 [3; 2; 1] 0.
Proof.
  split; [rewrite tie_calcTactic_ok by first [ex_nodup | ex_le | ex_lt | (right; reflexivity) | (intros e; vm_compute; discriminate)]|];
    vm_compute; reflexivity.
Qed.

(* DISAGREEMENT 1 (dsc.tactic after a divider error): the Go code keeps what the divider left, the model resets *)
Example ex_calcTactic_error :
  obs (gen_calcTactic (ncalls s_b) (conc bad_dv s_b [9] [8] ex_ins)) =
    (2%nat, Some [(3, 1); (2, 0); (1, 0)], Some [(3, 2); (2, 1); (1, 1); (99, 1)], [3; 2; 1], [8], (false, Some ErrDividerBad)) /\
  pcs (step_calc bad_dv s_b) = Drain (Some DividerBad) /\
  tactic (step_calc bad_dv s_b) = [(3, 0); (2, 0); (1, 0)] /\
  calc_tactic_go bad_dv s_b = [(3, 2); (2, 1); (1, 1); (99, 1)].
Proof. split; [rewrite tie_calcTactic by ex_calc_hyps|repeat split]; vm_compute; reflexivity. Qed.

(* DISAGREEMENT 2 (zero entries): dsc.tactic has no entry for priority 3, calcTacticByAddUpToStrategic creates it
   (3 is full: strategic = actual), calcTacticBase resets it to 0 and hands it to the divider; the model's tactic has no
   such entry.  Same values (Base.get), different maps. *)
Definition s_c : st := mkst 5 [3; 2; 1] str3 [(3, 2)] [] ex_dr Calc 1.
Example ex_calcTactic_uncovered :
  obs (gen_calcTactic (ncalls s_c) (conc fdv s_c [9] [8] ex_ins)) =
    (2%nat, Some [(3, 2)], Some [(3, 0); (2, 2); (1, 1)], [2; 1], [8], (true, None)) /\
  pcs (step_calc fdv s_c) = Prio P1 [3; 2; 1] 0 /\
  tactic (step_calc fdv s_c) = [(2, 2); (1, 1)] /\
  tactic (go_step_calc fdv s_c) = [(3, 0); (2, 2); (1, 1)].
Proof. split; [rewrite tie_calcTactic_exact by ex_calc_hyps|repeat split]; vm_compute; reflexivity. Qed.
(* ... and a divider that looks at the entries of the map it is given tells the two apart: the Go code waits for a
   feedback, the model starts the round *)
Definition picky : nat -> Divider := fun _ ps n d => if existsb (fun kv => snd kv =? 0) d then d else fair ps n d.
Example ex_calcTactic_picky :
  obs (gen_calcTactic (ncalls s_c) (conc picky s_c [9] [8] ex_ins)) =
    (2%nat, Some [(3, 2)], Some [(3, 0); (2, 0); (1, 0)], [2; 1], [8], (false, None)) /\
  pcs (go_step_calc picky s_c) = WaitFb /\
  pcs (step_calc picky s_c) = Prio P1 [3; 2; 1] 0 /\ tactic (step_calc picky s_c) = [(2, 2); (1, 1)].
Proof. split; [rewrite tie_calcTactic_exact by ex_calc_hyps|repeat split]; vm_compute; reflexivity. Qed.

(* ... while for the built-in dividers the difference is invisible: tie_calcTactic_sim applies (Go's tactic with the
   entry (3, 0), the model's without) *)
Lemma deq_add d d' k v : deq d d' -> deq (add d k v) (add d' k v).
Proof. intros E. unfold add. rewrite (E k). now apply deq_set. Qed.
Lemma fair_loop_deq ps : forall base rem d d', deq d d' -> deq (fair_loop ps base rem d) (fair_loop ps base rem d').
Proof.
  induction ps as [|p r IH]; intros base rem d d' E; cbn; [exact E|].
  destruct (rem =? 0); apply IH; repeat apply deq_add; exact E.
Qed.
Lemma fdv_ext : forall k ps n d d', NoDup (keys d) -> NoDup (keys d') -> deq d d' -> deq (fdv k ps n d) (fdv k ps n d').
Proof. intros k ps n d d' _ _ E. unfold fdv, fair. destruct ps; [exact E|]. now apply fair_loop_deq. Qed.

Definition s_c' : st := mkst 5 [3; 2; 1] str3 [(3, 2)] [(2, 0)] ex_dr Calc 1.
Example ex_calcTactic_sim :
  exists tg', obs (gen_calcTactic (ncalls s_c') (conc fdv (with_tac s_c' [(3, 0)] (pcs s_c')) [9] [8] ex_ins)) =
                (2%nat, Some [(3, 2)], Some tg', [2; 1], [8], (true, None)) /\
              deq tg' (tactic (step_calc fdv s_c')) /\ tg' = [(3, 0); (2, 2); (1, 1)] /\
              tactic (step_calc fdv s_c') = [(2, 2); (1, 1)].
Proof.
  destruct (tie_calcTactic_sim fdv s_c' [(3, 0)] [9] [8] ex_ins fdv_wf fdv_ext
              ltac:(ex_nodup) ltac:(intros p; cbn; now destruct (p =? 3), (p =? 2))
              ltac:(ex_nodup) ltac:(ex_nodup) ltac:(ex_le) ltac:(ex_lt) ltac:(ex_lt)) as (tg' & E & _ & Hd).
  exists tg'. pose proof E as E'. apply (f_equal obs) in E'.
  assert (Et : tg' = [(3, 0); (2, 2); (1, 1)]).
  { apply (f_equal (fun r => Discipline_tactic (snd (fst r)))) in E. vm_compute in E. now injection E as <-. }
  split; [rewrite E'; subst tg'; vm_compute; reflexivity|].
  split; [apply Hd; intros e; vm_compute; discriminate|]. split; [exact Et|reflexivity].
Qed.

(* -- recalcTactic *)
Definition s_r : st := mkst 5 [3; 2; 1] str3 [(3, 1); (2, 1); (1, 0)] [(3, 1); (2, 0); (1, 1)] ex_dr (Recalc 2) 2.
Example ex_recalcTactic :
  obs (gen_recalcTactic (ncalls s_r) (conc fdv s_r [9] [8] ex_ins)) =
    (4%nat, Some [(3, 1); (2, 1); (1, 0)], Some [(3, 0); (2, 2); (1, 0)], [9], [2], (true, None)) /\
  pcs (step_recalc fdv s_r 2) = Prio P2 [3; 2; 1] 2.
Proof.
  split; [rewrite (tie_recalcTactic_ok fdv s_r 2) by first [exact fdv_wf | ex_nodup | ex_lt | (intros e; vm_compute; discriminate)]|];
    vm_compute; reflexivity.
Qed.
Example ex_recalcTactic_error :
  obs (gen_recalcTactic (ncalls s_r) (conc bad_dv s_r [9] [8] ex_ins)) =
    (3%nat, Some [(3, 1); (2, 1); (1, 0)], Some [(3, 0); (2, 5); (1, 0); (99, 1)], [9], [2], (false, Some ErrDividerBad)) /\
  pcs (step_recalc bad_dv s_r 2) = Drain (Some DividerBad) /\
  tactic (step_recalc bad_dv s_r 2) = [(3, 0); (2, 0); (1, 0)].
Proof.
  split; [rewrite (tie_recalcTactic bad_dv s_r 2) by first [exact bad_dv_wf | ex_nodup | ex_lt]|split]; vm_compute; reflexivity.
Qed.

End Examples.

Print Assumptions tie_calcTactic.
Print Assumptions tie_calcTactic_ok.
Print Assumptions tie_calcTactic_exact.
Print Assumptions tie_recalcTactic.
Print Assumptions tie_recalcTactic_ok.
Print Assumptions tie_calcTactic_sim.
Print Assumptions tie_recalcTactic_sim.
Print Assumptions pc_res_calc.
Print Assumptions pc_res_recalc.
Print Assumptions add_up_covers.
Print Assumptions cov_step_calc.
Print Assumptions cov_step_recalc.
Print Assumptions cov_push_out.
