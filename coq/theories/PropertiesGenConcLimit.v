(* Property theorems: the goroutine body of the v2 limit discipline, translated from the CURRENT Go sources (GenConcLimit.v) and run by GoConc.v, simulates the hand-written timed machine Limit.lstep: same request at every pc (receive / send / sleep for exactly the rest of the interval / done), same successor after every event, same initial state. *)
From Coq Require Import List NArith ZArith Bool. From Cqos Require Import GoSem GoConc Limit GenLimit GenConcLimit GenTieConcLimit. Import ListNotations. Open Scope Z_scope.
Theorem C12_gen_conc_limit_request :
  forall (c : lcfg) (dsc : Discipline) (now : Z) (p : lpc) (cf : cfgT),
         R c dsc now p cf -> step1 table cf = Block (lrequest now p).
Proof. exact @blocked. Qed.
Print Assumptions C12_gen_conc_limit_request.

Theorem C12_gen_conc_limit_init :
  forall (c : lcfg) (dsc : Discipline),
         Z.of_N (Rate_Quantity (Opts_Limit (Discipline_opts dsc))) = quantity c ->
         0 < quantity c ->
         forall (t0 : Z) (w : nat),
         exists cf' : config cstate payload chan_id fname,
           movesL [AnsTime t0] (start table (dsc, zero_G, w) F_main) cf' /\ R c dsc t0 (linit t0) cf'.
Proof. exact @conc_init. Qed.
Print Assumptions C12_gen_conc_limit_init.

Theorem C12_gen_conc_limit_simulates :
  forall (c : lcfg) (dsc : Discipline),
         Z.of_N (Rate_Quantity (Opts_Limit (Discipline_opts dsc))) = quantity c ->
         Rate_Interval (Opts_Limit (Discipline_opts dsc)) = linterval c ->
         0 < quantity c ->
         quantity c < Z.of_N u_modulus ->
         forall (now : Z) (p : lpc) (e : lev) (p' : lpc) (out : list (Z * Z)) (cf : cfgT),
         R c dsc now p cf ->
         lstep c p e = Some (p', out) ->
         (forall t x : Z, e = LIn t x -> 0 <= x) ->
         (forall k s x t : Z,
          p = LSend k s x -> e = LOut t -> i_range (t - s) /\ i_range (linterval c - (t - s))) ->
         exists cf' : config cstate payload chan_id fname,
           movesL (lanswers c p e) cf cf' /\ R c dsc (lev_time e) p' cf'.
Proof. exact @conc_simulates_lstep. Qed.
Print Assumptions C12_gen_conc_limit_simulates.

