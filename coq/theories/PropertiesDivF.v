(* Property theorems: the order clause of the Rate divider for the float64 rounding the code uses (C14). *)
From Coq Require Import List NArith Bool. From Cqos Require Import Base Divider DividerP DividerC DividerF. Import ListNotations. Open Scope N_scope.
Theorem C14_rate_monotone_on :
  forall (part : N -> N -> N -> N) (ps : list N) (dividend : N),
         (forall p q : N,
          In p ps -> In q ps -> q <= p -> part dividend (sum_list ps) q <= part dividend (sum_list ps) p) ->
         nonincreasing ps -> nonincreasing (rate_incs part ps dividend).
Proof. exact @rate_incs_nonincreasing_on. Qed.
Print Assumptions C14_rate_monotone_on.

Theorem C14_rate_f_monotone :
  forall (ps : list N) (dividend : N),
         dividend < 2 ^ 53 ->
         sum_list ps < 2 ^ 53 -> nonincreasing ps -> nonincreasing (rate_incs Float64.part_f ps dividend).
Proof. exact @rate_f_monotone_nosum. Qed.
Print Assumptions C14_rate_f_monotone.

Theorem C14_rate_f_result_monotone :
  forall (ps : list N) (dividend : N) (d : dist),
         0 < sum_list ps ->
         dividend < 2 ^ 53 ->
         sum_list ps < 2 ^ 53 ->
         NoDup ps ->
         nonincreasing ps ->
         forall p q : N,
         In p ps ->
         In q ps ->
         q <= p ->
         get (rate Float64.part_f ps dividend d) q - get d q <=
         get (rate Float64.part_f ps dividend d) p - get d p.
Proof. exact @rate_f_result_monotone_by_priority. Qed.
Print Assumptions C14_rate_f_result_monotone.

