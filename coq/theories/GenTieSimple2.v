(* Tie lemma for GenV2Simple.v (v2/priority/simple/simple.go: Opts.isValid): a characterisation, the model has no
   counterpart.  Imports only this one generated file. *)
From Coq Require Import List NArith ZArith Bool Lia.
From Cqos Require Import GoSem.
From Cqos Require GenV2Simple.
Import ListNotations.

Module S2 := GenV2Simple.

(* ==== main tie theorems ==== *)

(* v2 simple Opts.isValid: only the nil Handle is rejected (an empty map of inputs is accepted here) *)
Theorem tie_simple_v2_isValid w opts :
  fst (S2.gen_isValid w opts) = w /\
  (snd (S2.gen_isValid w opts) = None <-> S2.Opts_Handle opts <> None) /\
  (snd (S2.gen_isValid w opts) = Some S2.ErrHandleEmpty <-> S2.Opts_Handle opts = None).
Proof.
  unfold S2.gen_isValid. cbn.
  destruct (S2.Opts_Handle opts) as [u|]; cbn; repeat split; try congruence; try discriminate.
Qed.

(* ---------------------------------------------------------------- examples: no theorem is vacuous --------------- *)

Example ex_simple_v2_isValid :
  snd (S2.gen_isValid 7 (S2.mk_Opts None (Some tt) 0 None)) = None /\
  snd (S2.gen_isValid 7 (S2.mk_Opts None None 6 (Some [(3%N, Some tt)]))) = Some S2.ErrHandleEmpty.
Proof.
  split.
  - apply (tie_simple_v2_isValid 7 (S2.mk_Opts None (Some tt) 0 None)). discriminate.
  - now apply (tie_simple_v2_isValid 7 (S2.mk_Opts None None 6 (Some [(3%N, Some tt)]))).
Qed.

(* ---------------------------------------------------------------- assumptions ------------------------------------ *)
Print Assumptions tie_simple_v2_isValid.
