(* Tie lemmas, part 4 of 4: Opts.isValid, prepare (and common.IsDistributionFilledFor as copied into this unit) of the
   generated GenV2Prio.v versus Sched.prepare_v2 / Sched.prepare_with.  Needs GenTiePrio2Base.v for `lift`, the error
   conversion and safeDivide; independent of GenTiePrio2Calc.v and GenTiePrio2Term.v. *)
From Coq Require Import List NArith ZArith Bool Lia.
From Cqos Require Import Base Divider Sched Prio2 Prio2P GoSem GenV2Prio GenTiePrio2Base.
Import ListNotations.
Open Scope N_scope.

(* ------------------------------------------------------------------ common.IsDistributionFilledFor (the copy in this unit) *)

Definition filled_for_obs (c : ctl IsDistributionFilledFor_vars bool) : option (nat * gmap N * option bool) :=
  match c with
  | Next v => Some (IsDistributionFilledFor_w v, IsDistributionFilledFor_distribution v, None)
  | Ret v r => Some (IsDistributionFilledFor_w v, IsDistributionFilledFor_distribution v, Some r)
  | _ => None
  end.
Lemma IsDistributionFilledFor_loop ps : forall ps0 (m : dist) p0 w,
  filled_for_obs (range_loop gen_IsDistributionFilledFor_loop1 ps (mk_IsDistributionFilledFor_vars ps0 (Some m) p0 w)) =
  Some (w, Some m, if is_filled_for ps m then None else Some false).
Proof.
  induction ps as [|p r IH]; intros ps0 m p0 w; cbn; [reflexivity|].
  rewrite aget_get. destruct (get m p =? 0); cbn; [reflexivity|]. apply IH.
Qed.
Lemma tie_IsDistributionFilledFor w ps (m : dist) :
  gen_IsDistributionFilledFor w ps (Some m) = (w, Some m, is_filled_for ps m).
Proof.
  unfold gen_IsDistributionFilledFor. cbn.
  pose proof (IsDistributionFilledFor_loop ps ps m 0 w) as L.
  destruct (range_loop _ _ _) as [v|v r|v|v|v]; cbn in *; try discriminate;
    destruct (is_filled_for ps m); now inversion L.
Qed.

(* ------------------------------------------------------------------ Opts.isValid, prepare *)

Definition conv_new (e : new_err) : err_V2Prio :=
  match e with
  | EHandlersZero => ErrHandlersQuantityZero
  | EInputEmpty => ErrInputEmpty
  | ETooSmall => ErrHandlersQuantityTooSmall
  | EDivider e => conv_derr e
  end.

Lemma tie_isValid_gen w dvd hq (inp : gmap opaque) :
  gen_isValid w (mk_Opts dvd hq inp) =
  (w, match dvd with
      | None => Some ErrDividerEmpty
      | Some _ => if hq =? 0 then Some ErrHandlersQuantityZero
                  else match mitems inp with [] => Some ErrInputEmpty | _ => None end
      end).
Proof.
  unfold gen_isValid. cbn. destruct dvd; cbn; [|reflexivity].
  destruct (hq =? 0); cbn; [reflexivity|].
  unfold mlen. destruct (mitems inp); reflexivity.
Qed.

(* the inputs map that prepare builds *)
Definition mk_inputs (l : list (N * opaque)) : list (N * Input) := map (fun kc => (fst kc, mk_Input (snd kc) false)) l.
Definition inputs_fold (l : list (N * opaque)) (cur : list (N * Input)) : list (N * Input) :=
  fold_left (fun m kc => aset m (fst kc) (mk_Input (snd kc) false)) l cur.

Lemma aset_notin {T : Type} (l : list (N * T)) k v : ~ In k (map fst l) -> aset l k v = l ++ [(k, v)].
Proof.
  induction l as [|[k' v'] r IH]; cbn; intros Hn; [reflexivity|].
  destruct (N.eqb_spec k k') as [->|Hne]; [tauto|]. rewrite IH; tauto.
Qed.

Lemma inputs_fold_map (l : list (N * opaque)) : forall pre,
  NoDup (map fst pre ++ map fst l) -> inputs_fold l pre = pre ++ mk_inputs l.
Proof.
  induction l as [|[k c] r IH]; intros pre ND; cbn.
  - now rewrite app_nil_r.
  - cbn in ND. rewrite aset_notin.
    + unfold inputs_fold in IH. rewrite IH.
      * now rewrite <- app_assoc.
      * rewrite map_app. cbn. rewrite <- app_assoc. exact ND.
    + apply NoDup_remove_2 in ND. intros Hin. apply ND. apply in_or_app. now left.
Qed.

Lemma prepare_loop (l : list (N * opaque)) : forall opts (inp : list (N * Input)) ps str p0 ch0 in0 e w,
  exists p' ch' in',
    range_loop gen_prepare_loop1 l (mk_prepare_vars opts (Some inp) ps str p0 ch0 in0 e w) =
    Next (mk_prepare_vars opts (Some (inputs_fold l inp)) (ps ++ map fst l) str p' ch' in' e w).
Proof.
  induction l as [|[k c] r IH]; intros opts inp ps str p0 ch0 in0 e w; cbn.
  - exists p0, ch0, in0. now rewrite app_nil_r.
  - destruct (IH opts (aset inp k (mk_Input c false)) (ps ++ [k]) str k c (mk_Input c false) e w) as (p' & ch' & in' & ->).
    exists p', ch', in'. now rewrite <- app_assoc.
Qed.

Lemma prepare_v2_valid dv ps hq : hq <> 0 -> ps <> [] ->
  prepare_v2 dv ps hq =
  match safe_divide dv (Sched.sort_desc ps) hq [] with
  | inr e => inr (EDivider e)
  | inl st => if is_filled_for (Sched.sort_desc ps) st then inl (Sched.sort_desc ps, st) else inr ETooSmall
  end.
Proof.
  intros Hhq Hps. unfold prepare_v2, prepare_with. apply N.eqb_neq in Hhq. rewrite Hhq.
  destruct ps; [contradiction|reflexivity].
Qed.

Lemma tie_prepare_eq dv w hq (l : list (N * opaque))
  (Hhq : hq <> 0) (Hl : l <> []) (Hnd : NoDup (map fst l)) :
  gen_prepare w (mk_Opts (Some (lift dv)) hq (Some l)) =
  (S w, match prepare_v2 (dv w) (map fst l) hq with
        | inl (sorted, strat) => (Some (mk_inputs l), sorted, Some strat, None)
        | inr e => (None, [], None, Some (conv_new e))
        end).
Proof.
  rewrite prepare_v2_valid; [|assumption|destruct l; [contradiction|discriminate]].
  pose proof (tie_safeDivide_eq dv w (Sched.sort_desc (map fst l)) hq []) as Esd.
  change (safe_sum []) with (Some 0) in Esd. cbv iota in Esd.
  remember (safe_divide (dv w) (Sched.sort_desc (map fst l)) hq []) as sd eqn:E. symmetry in E.
  change (@Some dist) with (@Some (list (N * N))) in Esd.
  unfold gen_prepare. cbn. unfold mmake.
  destruct (prepare_loop l (mk_Opts (Some (lift dv)) hq (Some l)) [] [] (Some []) 0 None zero_Input None w)
    as (p' & ch' & in' & ->). cbn.
  rewrite sort_desc_eq, Esd. clear Esd.
  destruct sd as [st|e]; cbn; [|reflexivity].
  rewrite tie_IsDistributionFilledFor. cbn.
  apply safe_divide_inl in E. destruct E as [<- _].
  destruct (is_filled_for (Sched.sort_desc (map fst l)) st); cbn; [|reflexivity].
  rewrite (inputs_fold_map l []) by exact Hnd. reflexivity.
Qed.

(* ==== main tie theorems ==== *)

(* Opts.isValid makes the two checks that Sched.prepare_with makes first (HandlersQuantity = 0, no inputs), whatever
   `filled` and the divider are; the nil-divider check (ErrDividerEmpty) has no counterpart in the model, whose divider
   is always a function *)
Theorem tie_isValid dv w hq (l : list (N * opaque)) filled :
  gen_isValid w (mk_Opts (Some (lift dv)) hq (Some l)) =
  (w, match prepare_with filled (dv w) (map fst l) hq with
      | inr EHandlersZero => Some ErrHandlersQuantityZero
      | inr EInputEmpty => Some ErrInputEmpty
      | _ => None
      end).
Proof.
  rewrite tie_isValid_gen. unfold prepare_with. cbn [mitems].
  destruct (hq =? 0); [reflexivity|]. destruct l as [|[k c] l]; [reflexivity|]. cbn [map fst].
  match goal with |- context [safe_divide ?a ?b ?c ?d] => destruct (safe_divide a b c d) as [st|e] end; [|reflexivity].
  match goal with |- context [filled ?a st] => destruct (filled a st) end; reflexivity.
Qed.

Theorem tie_isValid_nil w hq inp : gen_isValid w (mk_Opts None hq inp) = (w, Some ErrDividerEmpty).
Proof. now rewrite tie_isValid_gen. Qed.

(* prepare = Sched.prepare_v2 once isValid has passed (HandlersQuantity <> 0, some input); the keys of a Go map are
   distinct *)
Theorem tie_prepare dv w hq (l : list (N * opaque))
  (Hhq : hq <> 0) (Hl : l <> []) (Hnd : NoDup (map fst l)) :
  gen_prepare w (mk_Opts (Some (lift dv)) hq (Some l)) =
  (S w, match prepare_v2 (dv w) (map fst l) hq with
        | inl (sorted, strat) => (Some (mk_inputs l), sorted, Some strat, None)
        | inr e => (None, [], None, Some (conv_new e))
        end).
Proof. now apply tie_prepare_eq. Qed.

(* New() up to the construction of the Discipline: isValid, then prepare = the whole of Sched.prepare_v2 *)
Definition go_new (w : nat) (opts : Opts) : nat * (gmap Input * list N * gmap N * option err_V2Prio) :=
  let '(w1, e) := gen_isValid w opts in
  match e with Some _ => (w1, (None, [], None, e)) | None => gen_prepare w1 opts end.

Theorem tie_new dv w hq (l : list (N * opaque)) (Hnd : NoDup (map fst l)) :
  snd (go_new w (mk_Opts (Some (lift dv)) hq (Some l))) =
  match prepare_v2 (dv w) (map fst l) hq with
  | inl (sorted, strat) => (Some (mk_inputs l), sorted, Some strat, None)
  | inr e => (None, [], None, Some (conv_new e))
  end.
Proof.
  unfold go_new. rewrite tie_isValid_gen. cbn.
  destruct (N.eqb_spec hq 0) as [->|Hhq]; [reflexivity|].
  assert (Hd : l = [] \/ l <> []) by (destruct l; [now left|right; discriminate]).
  destruct Hd as [->|Hl].
  - unfold prepare_v2, prepare_with. apply N.eqb_neq in Hhq. now rewrite Hhq.
  - assert (Em : match l with [] => Some ErrInputEmpty | _ :: _ => @None err_V2Prio end = None)
      by (destruct l; [contradiction|reflexivity]).
    cbn [mitems]. rewrite Em. rewrite tie_prepare by assumption. reflexivity.
Qed.

(* ==== examples ==== *)

Module Examples.
Import ExDefs.
(* -- isValid, prepare, New *)
Definition ex_inputs : list (N * opaque) := [(1, opaque_some); (3, opaque_some); (2, None)].
Example ex_isValid : snd (gen_isValid 0 (mk_Opts (Some (lift fdv)) 4 (Some ex_inputs))) = None.
Proof. now rewrite (tie_isValid fdv 0 4 ex_inputs is_filled_for). Qed.
Example ex_isValid_zero : snd (gen_isValid 0 (mk_Opts (Some (lift fdv)) 0 (Some ex_inputs))) = Some ErrHandlersQuantityZero.
Proof. now rewrite (tie_isValid fdv 0 0 ex_inputs is_filled_for). Qed.
Example ex_isValid_empty : snd (gen_isValid 0 (mk_Opts (Some (lift fdv)) 4 (Some []))) = Some ErrInputEmpty.
Proof. now rewrite (tie_isValid fdv 0 4 [] is_filled_for). Qed.
Example ex_prepare :
  gen_prepare 0 (mk_Opts (Some (lift fdv)) 4 (Some ex_inputs)) =
  (1%nat, (Some [(1, mk_Input opaque_some false); (3, mk_Input opaque_some false); (2, mk_Input None false)],
           [3; 2; 1], Some [(3, 2); (2, 1); (1, 1)], None)).
Proof. rewrite tie_prepare by first [discriminate | ex_nodup]. reflexivity. Qed.
Example ex_prepare_too_small :
  gen_prepare 0 (mk_Opts (Some (lift fdv)) 2 (Some ex_inputs)) = (1%nat, (None, [], None, Some ErrHandlersQuantityTooSmall)) /\
  prepare_v2 (fdv 0) [1; 3; 2] 2 = inr ETooSmall.
Proof. split; [rewrite tie_prepare by first [discriminate | ex_nodup]|]; reflexivity. Qed.
Example ex_prepare_bad :
  gen_prepare 0 (mk_Opts (Some (lift bad_dv)) 4 (Some ex_inputs)) = (1%nat, (None, [], None, Some ErrDividerBad)) /\
  prepare_v2 (bad_dv 0) [1; 3; 2] 4 = inr (EDivider DividerBad).
Proof. split; [rewrite tie_prepare by first [discriminate | ex_nodup]|]; reflexivity. Qed.
Example ex_new : snd (go_new 0 (mk_Opts (Some (lift fdv)) 0 (Some ex_inputs))) = (None, [], None, Some ErrHandlersQuantityZero).
Proof. rewrite tie_new by ex_nodup. reflexivity. Qed.
End Examples.

Print Assumptions tie_IsDistributionFilledFor.
Print Assumptions tie_isValid.
Print Assumptions tie_isValid_nil.
Print Assumptions tie_prepare.
Print Assumptions tie_new.
