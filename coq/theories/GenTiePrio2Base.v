(* Tie lemmas, part 1 of 4 (GenTiePrio2Base / Calc / Term / New): the generated GenV2Prio.v (v2/priority/priority.go,
   assist.go as translated by tools/gotrans) versus the hand-written model of the v2 priority discipline (Prio2.v,
   Sched.v, Divider.v).

   This file: facts about association lists, the helper ties (calcDistributionQuantity, safeCalcDistributionQuantity,
   resetTactic, calcVacants, calcTacticByAddUpToStrategic, updateUncrowded, updateUseful, updateUsefulLikeUncrowded,
   isTacticFilled), the abstraction `conc dv s unc usf ins` of a model state, and safeDivide.

   Layout of all four files: one loop lemma per generated `*_loop<i>`, one tie per generated function stated for an
   arbitrary `Discipline` with equations on the projections it reads, at the end the main theorems on `conc`. *)
From Coq Require Import List NArith ZArith Bool Lia.
From Cqos Require Import Base Divider Sched Prio2 Prio2P GoSem GenV2Prio.
Import ListNotations.
Open Scope N_scope.

(* ------------------------------------------------------------------ arithmetic and association lists *)

Lemma two64_u : two64 = u_modulus.
Proof. reflexivity. Qed.

Lemma sort_desc_eq l : GoSem.sort_desc l = Sched.sort_desc l.
Proof.
  assert (Hi : forall x r, GoSem.insert_desc x r = Sched.insert_desc x r).
  { intros x r. induction r as [|y r IH]; cbn; [reflexivity|]. now rewrite IH. }
  induction l as [|x r IH]; cbn; [reflexivity|]. now rewrite IH, Hi.
Qed.

Lemma set_app_notin (pre : dist) k v x r :
  ~ In k (keys pre) -> set (pre ++ (k, v) :: r) k x = pre ++ (k, x) :: r.
Proof.
  induction pre as [|[k' v'] pre IH]; cbn; intros Hn.
  - now rewrite N.eqb_refl.
  - destruct (N.eqb_spec k k') as [->|Hne]; [tauto|]. rewrite IH; tauto.
Qed.

Lemma keys_app (a b : dist) : keys (a ++ b) = keys a ++ keys b.
Proof. induction a as [|[k v] a IH]; cbn; congruence. Qed.

(* resetTactic: `for priority := range tactic { tactic[priority] = 0 }` over a snapshot of the items *)
Definition zero_fold (l cur : dist) : dist := fold_left (fun m kv => set m (fst kv) 0) l cur.

Lemma zero_fold_reset_gen (l : dist) : forall pre,
  NoDup (keys (pre ++ l)) -> zero_fold l (pre ++ l) = pre ++ reset l.
Proof.
  induction l as [|[k v] r IH]; intros pre ND; cbn; [reflexivity|].
  rewrite set_app_notin.
  - change (pre ++ (k, 0) :: r) with (pre ++ [(k, 0)] ++ r). rewrite app_assoc.
    unfold zero_fold in IH. rewrite IH.
    + now rewrite <- app_assoc.
    + rewrite <- app_assoc. cbn. rewrite keys_app in *. cbn in *. exact ND.
  - rewrite keys_app in ND. cbn in ND. apply NoDup_remove_2 in ND. intros Hin. apply ND. apply in_or_app. now left.
Qed.

Lemma zero_fold_reset (t : dist) : NoDup (keys t) -> zero_fold t t = reset t.
Proof. intros ND. apply (zero_fold_reset_gen t []). exact ND. Qed.

Lemma reset_reset d : reset (reset d) = reset d.
Proof. induction d as [|[k v] r IH]; cbn; congruence. Qed.

Lemma keys_set_in d k v : In k (keys d) -> keys (set d k v) = keys d.
Proof.
  induction d as [|[k' v'] r IH]; cbn; [tauto|].
  destruct (N.eqb_spec k k') as [->|Hne]; cbn; [reflexivity|].
  intros [E|Hin]; [congruence|]. now rewrite IH.
Qed.

Lemma reset_set_in d k v : In k (keys d) -> reset (set d k v) = reset d.
Proof.
  induction d as [|[k' v'] r IH]; cbn; [tauto|].
  destruct (N.eqb_spec k k') as [->|Hne]; cbn; [reflexivity|].
  intros [E|Hin]; [congruence|]. now rewrite IH.
Qed.

Lemma sum_zero_forallb (d : dist) : forallb (fun kv => snd kv =? 0) d = (sum d =? 0).
Proof.
  induction d as [|[k v] r IH]; cbn; [reflexivity|]. rewrite IH.
  destruct (N.eqb_spec v 0) as [->|Hv]; cbn; [reflexivity|].
  symmetry. apply N.eqb_neq. lia.
Qed.

(* the shares of distinct priorities add up to at most the total *)
Lemma sum_gets_le (d : dist) : forall ps, NoDup ps -> sum_list (map (get d) ps) <= sum d.
Proof.
  induction d as [|[k v] r IH]; intros ps ND.
  - cbn. induction ps; cbn; [lia|]. inversion ND; subst. auto.
  - assert (G : forall ps, NoDup ps ->
              sum_list (map (get ((k, v) :: r)) ps) <= (if existsb (N.eqb k) ps then v else 0) + sum_list (map (get r) ps)).
    { clear ND ps. induction ps as [|p ps IHp]; intros ND; [reflexivity|].
      inversion ND as [|? ? Hn ND']; subst. cbn [map sum_list existsb]. specialize (IHp ND').
      replace (get ((k, v) :: r) p) with (if p =? k then v else get r p) by reflexivity.
      rewrite (N.eqb_sym k p). destruct (N.eqb_spec p k) as [->|Hne]; cbn [orb].
      - assert (E : existsb (N.eqb k) ps = false).
        { apply not_true_is_false. intros E. apply existsb_exists in E. destruct E as [x [Hx E]].
          apply N.eqb_eq in E. subst. contradiction. }
        rewrite E in IHp. lia.
      - lia. }
    specialize (G ps ND). cbn [sum]. specialize (IH ps ND). destruct (existsb (N.eqb k) ps); lia.
Qed.

(* ------------------------------------------------------------------ calcDistributionQuantity = Base.sum *)

Lemma calcDistributionQuantity_loop (l : dist) : forall d0 q a w,
  q + sum l < u_modulus ->
  exists a', range_loop gen_calcDistributionQuantity_loop1 l (mk_calcDistributionQuantity_vars d0 q a w) =
             Next (mk_calcDistributionQuantity_vars d0 (q + sum l) a' w).
Proof.
  induction l as [|[k x] r IH]; intros d0 q a w Hlt; cbn in *.
  - exists a. now rewrite N.add_0_r.
  - rewrite u_add_small by lia. destruct (IH d0 (q + x) x w) as [a' ->]; [lia|].
    exists a'. do 2 f_equal. lia.
Qed.

Lemma tie_calcDistributionQuantity w (d : dist) :
  sum d < u_modulus -> gen_calcDistributionQuantity w (Some d) = (w, Some d, sum d).
Proof.
  intros Hlt. unfold gen_calcDistributionQuantity. cbn.
  now destruct (calcDistributionQuantity_loop d (Some d) 0 0 w) as [a' ->].
Qed.

(* ------------------------------------------------------------------ safeCalcDistributionQuantity = Sched.safe_sum *)

Lemma safeCalcDistributionQuantity_loop (l : dist) : forall d0 q a s e w,
  q < u_modulus ->
  match range_loop gen_safeCalcDistributionQuantity_loop1 l (mk_safeCalcDistributionQuantity_vars d0 q a s e w) with
  | Next v => q + sum l < u_modulus /\ safeCalcDistributionQuantity_quantity v = q + sum l /\
              safeCalcDistributionQuantity_distribution v = d0 /\ safeCalcDistributionQuantity_w v = w
  | Ret v r => u_modulus <= q + sum l /\ r = (0, Some ErrValueOverflow) /\
               safeCalcDistributionQuantity_distribution v = d0 /\ safeCalcDistributionQuantity_w v = w
  | _ => False
  end.
Proof.
  induction l as [|[k x] r IH]; intros d0 q a s e w Hq.
  - cbn. rewrite N.add_0_r. auto.
  - cbn. unfold safe_SumInt. destruct (N.ltb_spec (q + x) u_modulus) as [Hlt|Hge]; cbn.
    + specialize (IH d0 (q + x) x (q + x) None w Hlt).
      destruct (range_loop _ r _); auto; rewrite N.add_assoc; exact IH.
    + repeat split; auto. lia.
Qed.

Lemma tie_safeCalcDistributionQuantity w (d : dist) :
  gen_safeCalcDistributionQuantity w (Some d) =
  (w, Some d, match safe_sum d with Some q => (q, None) | None => (0, Some ErrValueOverflow) end).
Proof.
  unfold gen_safeCalcDistributionQuantity, safe_sum. cbn.
  pose proof (safeCalcDistributionQuantity_loop d (Some d) 0 0 0 None w eq_refl) as L.
  rewrite two64_u.
  destruct (range_loop _ d _) as [v|v r|v|v|v]; cbn in *; try contradiction.
  - destruct L as (Hlt & Hq & Hd & Hw). rewrite Hq, Hd, Hw.
    apply N.ltb_lt in Hlt. now rewrite Hlt.
  - destruct L as (Hge & Hr & Hd & Hw). rewrite Hr, Hd, Hw.
    apply N.ltb_ge in Hge. now rewrite Hge.
Qed.

(* ------------------------------------------------------------------ safeDivide = Sched.safe_divide *)

(* the Go divider updates a map in place; the model's divider, indexed by the number of the call, lifted to maps *)
Definition lift (dv : nat -> Divider) : divider_fn := fun n ps d m => v2_call (dv n) ps d m.

Definition conv_derr (e : derr) : err_V2Prio :=
  match e with DividerBad => ErrDividerBad | SumOverflow => ErrValueOverflow end.
Definition conv_res {A : Type} (r : A + derr) : option err_V2Prio :=
  match r with inl _ => None | inr e => Some (conv_derr e) end.

Lemma tie_safeDivide_eq dv w ps d (t : dist) :
  gen_safeDivide w (Some (lift dv)) ps d (Some t) =
  match safe_sum t with
  | None => (w, Some t, Some ErrValueOverflow)
  | Some _ => (S w, Some (dv w ps d t), conv_res (safe_divide (dv w) ps d t))
  end.
Proof.
  unfold gen_safeDivide, safe_divide. cbn.
  rewrite tie_safeCalcDistributionQuantity.
  destruct (safe_sum t) as [before|] eqn:Eb; cbn; [|reflexivity].
  rewrite tie_safeCalcDistributionQuantity.
  destruct (safe_sum (dv w ps d t)) as [after|] eqn:Ea; cbn; [|reflexivity].
  destruct (after =? 0); cbn; [reflexivity|].
  unfold u_sub. change u_modulus with two64.
  destruct ((after + two64 - before) mod two64 =? d); reflexivity.
Qed.

(* ------------------------------------------------------------------ resetTactic = Base.reset *)

Lemma resetTactic_loop (l : dist) : forall o fb ins out ps act str (cur : dist) unc usf fl intr er p0 w,
  exists p', range_loop gen_resetTactic_loop1 l
               (mk_resetTactic_vars (mk_Discipline o fb ins out ps act str (Some cur) unc usf fl intr er) p0 w) =
             Next (mk_resetTactic_vars (mk_Discipline o fb ins out ps act str (Some (zero_fold l cur)) unc usf fl intr er) p' w).
Proof.
  induction l as [|[k x] r IH]; intros o fb ins out ps act str cur unc usf fl intr er p0 w; cbn.
  - now exists p0.
  - rewrite aset_set. apply IH.
Qed.

Lemma tie_resetTactic w dsc (t : dist) :
  Discipline_tactic dsc = Some t -> NoDup (keys t) ->
  gen_resetTactic w dsc = (w, set_Discipline_tactic (Some (reset t)) dsc, tt).
Proof.
  destruct dsc as [o fb ins out ps act str tac unc usf fl intr er]. cbn. intros -> ND.
  unfold gen_resetTactic. cbn.
  destruct (resetTactic_loop t o fb ins out ps act str t unc usf fl intr er 0 w) as [p' ->].
  now rewrite zero_fold_reset.
Qed.

(* ------------------------------------------------------------------ calcVacants *)

Lemma tie_calcVacants w dsc (a : dist) :
  Discipline_actual dsc = Some a ->
  sum a <= Opts_HandlersQuantity (Discipline_opts dsc) -> Opts_HandlersQuantity (Discipline_opts dsc) < u_modulus ->
  gen_calcVacants w dsc = (w, dsc, Opts_HandlersQuantity (Discipline_opts dsc) - sum a).
Proof.
  destruct dsc as [o fb ins out ps act str tac unc usf fl intr er]. cbn. intros -> Hle Hlt.
  unfold gen_calcVacants. cbn.
  rewrite tie_calcDistributionQuantity by lia. cbn.
  now rewrite u_sub_small.
Qed.

(* ------------------------------------------------------------------ calcTacticByAddUpToStrategic = Prio2.add_up *)

(* Prio2.add_up forgets the partially filled tactic when it fails; the Go code leaves it in dsc.tactic *)
Fixpoint add_up_go (ps : list N) (actual strategic tactic : dist) (picked : N) : dist * N * bool :=
  match ps with
  | [] => (tactic, picked, true)
  | p :: r =>
      if get strategic p <? get actual p then (tactic, picked, false)
      else let t := get strategic p - get actual p in
           add_up_go r actual strategic (set tactic p t) (picked + t)
  end.

Lemma add_up_go_spec ps : forall act str tac picked,
  add_up ps act str tac picked =
  (let '(t, pk, ok) := add_up_go ps act str tac picked in if ok then Some (t, pk) else None).
Proof.
  induction ps as [|p r IH]; intros act str tac picked; cbn; [reflexivity|].
  destruct (get str p <? get act p); [reflexivity|]. apply IH.
Qed.

Lemma add_up_go_nodup ps : forall act str tac picked,
  NoDup (keys tac) -> NoDup (keys (fst (fst (add_up_go ps act str tac picked)))).
Proof.
  induction ps as [|p r IH]; intros act str tac picked ND; cbn; [exact ND|].
  destruct (get str p <? get act p); [exact ND|]. apply IH. now apply nodup_keys_set.
Qed.

(* when every priority already has an entry, add_up only overwrites values *)
Lemma add_up_go_reset ps : forall act str tac picked,
  incl ps (keys tac) -> reset (fst (fst (add_up_go ps act str tac picked))) = reset tac.
Proof.
  induction ps as [|p r IH]; intros act str tac picked Hin; cbn; [reflexivity|].
  destruct (get str p <? get act p); [reflexivity|].
  rewrite IH.
  - apply reset_set_in. apply Hin. now left.
  - intros x Hx. rewrite keys_set_in by (apply Hin; now left). apply Hin. now right.
Qed.

Definition addup_obs (c : ctl calcTacticByAddUpToStrategic_vars bool) : option (nat * Discipline * N * N * option bool) :=
  match c with
  | Next v => Some (calcTacticByAddUpToStrategic_w v, calcTacticByAddUpToStrategic_dsc v,
                    calcTacticByAddUpToStrategic_vacants v, calcTacticByAddUpToStrategic_picked v, None)
  | Ret v r => Some (calcTacticByAddUpToStrategic_w v, calcTacticByAddUpToStrategic_dsc v,
                     calcTacticByAddUpToStrategic_vacants v, calcTacticByAddUpToStrategic_picked v, Some r)
  | _ => None
  end.

Lemma calcTacticByAddUpToStrategic_loop (l : list N) :
  forall o fb ins out ps (act str cur : dist) unc usf fl intr er vac picked p0 w,
  picked + sum_list (map (get str) l) < u_modulus ->
  addup_obs (range_loop gen_calcTacticByAddUpToStrategic_loop1 l
    (mk_calcTacticByAddUpToStrategic_vars
       (mk_Discipline o fb ins out ps (Some act) (Some str) (Some cur) unc usf fl intr er) vac picked p0 w)) =
  (let '(t, pk, ok) := add_up_go l act str cur picked in
   Some (w, mk_Discipline o fb ins out ps (Some act) (Some str) (Some t) unc usf fl intr er, vac,
         pk, if ok then None else Some false)).
Proof.
  induction l as [|p r IH]; intros o fb ins out ps act str cur unc usf fl intr er vac picked p0 w Hlt; [reflexivity|].
  cbn [map sum_list] in Hlt.
  cbn. rewrite !aget_get.
  destruct (N.ltb_spec (get str p) (get act p)) as [Hc|Hc]; cbn; [reflexivity|].
  rewrite !aget_get, !aset_set, get_set_same.
  rewrite u_sub_small by lia.
  rewrite u_add_small by lia.
  apply IH. lia.
Qed.

Lemma tie_calcTacticByAddUpToStrategic w dsc (act str t : dist) vac :
  Discipline_actual dsc = Some act -> Discipline_strategic dsc = Some str -> Discipline_tactic dsc = Some t ->
  NoDup (keys t) -> sum_list (map (get str) (Discipline_priorities dsc)) < u_modulus ->
  gen_calcTacticByAddUpToStrategic w dsc vac =
  (let '(t', pk, ok) := add_up_go (Discipline_priorities dsc) act str (reset t) 0 in
   (w, set_Discipline_tactic (Some t') dsc, ok && (pk =? vac))).
Proof.
  intros Ea Es Et ND Hlt. unfold gen_calcTacticByAddUpToStrategic. cbn.
  rewrite (tie_resetTactic w dsc t Et ND).
  destruct dsc as [o fb ins out ps a0 s0 t0 unc usf fl intr er]. cbn in *. subst a0 s0 t0.
  pose proof (calcTacticByAddUpToStrategic_loop ps o fb ins out ps act str (reset t) unc usf fl intr er vac 0 0 w Hlt) as L.
  destruct (add_up_go ps act str (reset t) 0) as [[t' pk] ok].
  destruct (range_loop _ ps _) as [v|v r|v|v|v]; cbn in L; try discriminate; destruct ok; try discriminate;
    injection L as Hw Hd Hv Hp; cbn; rewrite ?Hw, ?Hd, ?Hv, ?Hp; subst; reflexivity.
Qed.

(* ------------------------------------------------------------------ updateUncrowded, updateUseful, updateUsefulLikeUncrowded: filters *)

Lemma updateUncrowded_loop (l : list N) : forall o fb ins out ps (act str : dist) tac acc usf fl intr er p0 w,
  exists p', range_loop gen_updateUncrowded_loop1 l
               (mk_updateUncrowded_vars (mk_Discipline o fb ins out ps (Some act) (Some str) tac acc usf fl intr er) p0 w) =
             Next (mk_updateUncrowded_vars
                     (mk_Discipline o fb ins out ps (Some act) (Some str) tac
                        (acc ++ filter (fun p => get act p <? get str p) l) usf fl intr er) p' w).
Proof.
  induction l as [|p r IH]; intros o fb ins out ps act str tac acc usf fl intr er p0 w; cbn.
  - exists p0. now rewrite app_nil_r.
  - rewrite !aget_get. destruct (get act p <? get str p); cbn.
    + destruct (IH o fb ins out ps act str tac (acc ++ [p]) usf fl intr er p w) as [p' ->].
      exists p'. now rewrite <- app_assoc.
    + apply IH.
Qed.

Lemma tie_updateUncrowded w dsc (act str : dist) :
  Discipline_actual dsc = Some act -> Discipline_strategic dsc = Some str ->
  gen_updateUncrowded w dsc =
  (w, set_Discipline_uncrowded (filter (fun p => get act p <? get str p) (Discipline_priorities dsc)) dsc, tt).
Proof.
  destruct dsc as [o fb ins out ps a0 s0 tac unc usf fl intr er]. cbn. intros -> ->.
  unfold gen_updateUncrowded. cbn.
  now destruct (updateUncrowded_loop ps o fb ins out ps act str tac [] usf fl intr er 0 w) as [p' ->].
Qed.

Lemma updateUseful_loop (l : list N) : forall o fb ins out ps act str (tac : dist) unc acc fl intr er p0 w,
  exists p', range_loop gen_updateUseful_loop1 l
               (mk_updateUseful_vars (mk_Discipline o fb ins out ps act str (Some tac) unc acc fl intr er) p0 w) =
             Next (mk_updateUseful_vars
                     (mk_Discipline o fb ins out ps act str (Some tac) unc
                        (acc ++ filter (fun p => get tac p =? 0) l) fl intr er) p' w).
Proof.
  induction l as [|p r IH]; intros o fb ins out ps act str tac unc acc fl intr er p0 w; cbn.
  - exists p0. now rewrite app_nil_r.
  - rewrite !aget_get. destruct (get tac p =? 0); cbn.
    + destruct (IH o fb ins out ps act str tac unc (acc ++ [p]) fl intr er p w) as [p' ->].
      exists p'. now rewrite <- app_assoc.
    + apply IH.
Qed.

Lemma tie_updateUseful w dsc (tac : dist) :
  Discipline_tactic dsc = Some tac ->
  gen_updateUseful w dsc =
  (w, set_Discipline_useful (filter (fun p => get tac p =? 0) (Discipline_priorities dsc)) dsc, tt).
Proof.
  destruct dsc as [o fb ins out ps act str t0 unc usf fl intr er]. cbn. intros ->.
  unfold gen_updateUseful. cbn.
  now destruct (updateUseful_loop ps o fb ins out ps act str tac unc [] fl intr er 0 w) as [p' ->].
Qed.

Lemma updateUsefulLikeUncrowded_loop (l : list N) : forall o fb ins out ps (act : dist) str (tac : dist) unc acc fl intr er p0 w,
  exists p', range_loop gen_updateUsefulLikeUncrowded_loop1 l
               (mk_updateUsefulLikeUncrowded_vars (mk_Discipline o fb ins out ps (Some act) str (Some tac) unc acc fl intr er) p0 w) =
             Next (mk_updateUsefulLikeUncrowded_vars
                     (mk_Discipline o fb ins out ps (Some act) str (Some tac) unc
                        (acc ++ filter (fun p => get act p <? get tac p) l) fl intr er) p' w).
Proof.
  induction l as [|p r IH]; intros o fb ins out ps act str tac unc acc fl intr er p0 w; cbn.
  - exists p0. now rewrite app_nil_r.
  - rewrite !aget_get. destruct (get act p <? get tac p); cbn.
    + destruct (IH o fb ins out ps act str tac unc (acc ++ [p]) fl intr er p w) as [p' ->].
      exists p'. now rewrite <- app_assoc.
    + apply IH.
Qed.

Lemma tie_updateUsefulLikeUncrowded w dsc (act tac : dist) :
  Discipline_actual dsc = Some act -> Discipline_tactic dsc = Some tac ->
  gen_updateUsefulLikeUncrowded w dsc =
  (w, set_Discipline_useful (filter (fun p => get act p <? get tac p) (Discipline_priorities dsc)) dsc, tt).
Proof.
  destruct dsc as [o fb ins out ps a0 str t0 unc usf fl intr er]. cbn. intros -> ->.
  unfold gen_updateUsefulLikeUncrowded. cbn.
  now destruct (updateUsefulLikeUncrowded_loop ps o fb ins out ps act str tac unc [] fl intr er 0 w) as [p' ->].
Qed.

(* ------------------------------------------------------------------ isTacticFilled = Prio2.filled *)

Definition tfilled_obs (c : ctl isTacticFilled_vars bool) : option (nat * Discipline * option bool) :=
  match c with
  | Next v => Some (isTacticFilled_w v, isTacticFilled_dsc v, None)
  | Ret v r => Some (isTacticFilled_w v, isTacticFilled_dsc v, Some r)
  | _ => None
  end.

Lemma isTacticFilled_loop (l : list N) : forall o fb ins out ps act str (tac : dist) unc usf fl intr er ps0 p0 w,
  tfilled_obs (range_loop gen_isTacticFilled_loop1 l
     (mk_isTacticFilled_vars (mk_Discipline o fb ins out ps act str (Some tac) unc usf fl intr er) ps0 p0 w)) =
  Some (w, mk_Discipline o fb ins out ps act str (Some tac) unc usf fl intr er,
        if filled tac l then None else Some false).
Proof.
  induction l as [|p r IH]; intros o fb ins out ps act str tac unc usf fl intr er ps0 p0 w; cbn; [reflexivity|].
  rewrite aget_get. destruct (get tac p =? 0); cbn; [reflexivity|]. apply IH.
Qed.

Lemma tie_isTacticFilled w dsc (tac : dist) l :
  Discipline_tactic dsc = Some tac -> gen_isTacticFilled w dsc l = (w, dsc, filled tac l).
Proof.
  destruct dsc as [o fb ins out ps act str t0 unc usf fl intr er]. cbn. intros ->.
  unfold gen_isTacticFilled. cbn.
  pose proof (isTacticFilled_loop l o fb ins out ps act str tac unc usf fl intr er l 0 w) as L.
  destruct (range_loop _ l _) as [v|v r|v|v|v]; cbn in *; try discriminate;
    destruct (filled tac l); try discriminate; injection L as Hw Hd; rewrite ?Hw, ?Hd; subst; reflexivity.
Qed.

(* ------------------------------------------------------------------ the abstraction *)

(* The Discipline value that corresponds to a model state.  `unc`, `usf` are the scratch slices dsc.uncrowded and
   dsc.useful (the model recomputes them), `ins` is dsc.inputs.  The channels are non-nil. *)
Definition conc (dv : nat -> Divider) (s : st) (unc usf : list N) (ins : list (N * Input)) : Discipline :=
  mk_Discipline
    (mk_Opts (Some (lift dv)) (H s) (Some (map (fun kv => (fst kv, Input_Channel (snd kv))) ins)))
    opaque_some (Some ins) opaque_some (prios s)
    (Some (actual s)) (Some (strategic s)) (Some (tactic s)) unc usf (N.of_nat (fblimit s)) opaque_some opaque_some.

Lemma conc_with_tac dv s t c unc usf ins :
  conc dv (with_tac s t c) unc usf ins = set_Discipline_tactic (Some t) (conc dv s unc usf ins).
Proof. reflexivity. Qed.
Lemma conc_with_pc dv s c unc usf ins : conc dv (with_pc s c) unc usf ins = conc dv s unc usf ins.
Proof. reflexivity. Qed.
Lemma conc_log_call dv s ps d unc usf ins : conc dv (log_call s ps d) unc usf ins = conc dv s unc usf ins.
Proof. reflexivity. Qed.
Lemma with_tac_self s : with_tac s (tactic s) (pcs s) = s.
Proof. now destruct s. Qed.

(* the scratch slice after a call: rewritten iff the divider was called (the call counter moved) *)
Definition scratch_after (n' n : nat) (old new : list N) : list N := if Nat.eqb n' n then old else new.
#[global] Arguments scratch_after : simpl never.
Lemma scratch_same n old new : scratch_after n n old new = old.
Proof. unfold scratch_after. now rewrite Nat.eqb_refl. Qed.
Lemma scratch_moved n' n old new : (n < n')%nat -> scratch_after n' n old new = new.
Proof. intros Hlt. unfold scratch_after. destruct (Nat.eqb_spec n' n); [lia|reflexivity]. Qed.

(* what calcTactic / recalcTactic return, read off the next program counter *)
Definition pc_res (c : pc) : bool * option err_V2Prio :=
  match c with
  | Prio _ _ _ => (true, None)
  | Drain (Some e) => (false, Some (conv_derr e))
  | _ => (false, None)
  end.

(* ==== main tie theorems ==== *)

(* safeDivide = Sched.safe_divide.  No hypothesis.  error nil <-> inl (and the map is the model's result),
   ErrDividerBad <-> inr DividerBad, ErrValueOverflow <-> inr SumOverflow; the divider is called (w -> S w) unless the
   first sum overflows.  After an error the map is what the divider left (the model returns no map then). *)
Theorem tie_safeDivide dv w ps d (t : dist) :
  match safe_divide (dv w) ps d t with
  | inl r => gen_safeDivide w (Some (lift dv)) ps d (Some t) = (S w, Some r, None)
  | inr DividerBad => gen_safeDivide w (Some (lift dv)) ps d (Some t) = (S w, Some (dv w ps d t), Some ErrDividerBad)
  | inr SumOverflow =>
      gen_safeDivide w (Some (lift dv)) ps d (Some t) =
      match safe_sum t with
      | Some _ => (S w, Some (dv w ps d t), Some ErrValueOverflow)
      | None => (w, Some t, Some ErrValueOverflow)
      end
  end.
Proof.
  rewrite tie_safeDivide_eq.
  destruct (safe_divide (dv w) ps d t) as [r|[|]] eqn:E.
  - pose proof E as E'. apply safe_divide_inl in E'. destruct E' as [-> _].
    unfold safe_divide in E. destruct (safe_sum t); [reflexivity|discriminate].
  - unfold safe_divide in E. destruct (safe_sum t); [reflexivity|discriminate].
  - destruct (safe_sum t); reflexivity.
Qed.


(* ==== examples ==== *)

(* shared by the examples of the four files *)
Module ExDefs.
Ltac ex_nodup := solve [repeat constructor; cbn; intuition (try discriminate)].
Ltac ex_lt := solve [vm_compute; reflexivity].
Ltac ex_le := solve [vm_compute; discriminate].

(* what is compared: call counter, tactic, the two scratch slices, the results (the options hold a closure) *)
Definition obs {R : Type} (r : nat * Discipline * R) : nat * gmap N * gmap N * list N * list N * R :=
  let '(w, d, x) := r in (w, Discipline_actual d, Discipline_tactic d, Discipline_uncrowded d, Discipline_useful d, x).

Definition mkst (h : N) (ps : list N) (str act tac : dist) (dr : N -> bool) (c : pc) (n : nat) : st :=
  mkSt h ps str act tac (fun _ => []) (fun _ => false) dr (fun _ => true) [] 10 [] [] 3 c n [] [] (fun _ => []).
Definition ex_dr (p : N) : bool := p =? 3.
Definition ex_ins : list (N * Input) :=
  [(1, mk_Input opaque_some false); (3, mk_Input opaque_some true); (2, mk_Input opaque_some false)].
Definition str3 : dist := [(3, 2); (2, 1); (1, 1)].
End ExDefs.

Module Examples.
Import ExDefs.
(* -- safeDivide: ok / wrong total / overflow after the call / overflow before the call *)
Definition huge_dv : nat -> Divider := fun _ _ _ d => set d 1 two64.
Example ex_safeDivide_ok : gen_safeDivide 7 (Some (lift fdv)) [2; 1] 3 (Some [(2, 1)]) = (8%nat, Some [(2, 3); (1, 1)], None).
Proof. exact (tie_safeDivide fdv 7 [2; 1] 3 [(2, 1)]). Qed.
Example ex_safeDivide_bad :
  gen_safeDivide 7 (Some (lift bad_dv)) [2; 1] 3 (Some []) = (8%nat, Some [(2, 2); (1, 1); (99, 1)], Some ErrDividerBad).
Proof. exact (tie_safeDivide bad_dv 7 [2; 1] 3 []). Qed.
Example ex_safeDivide_overflow_after :
  gen_safeDivide 7 (Some (lift huge_dv)) [2; 1] 3 (Some []) = (8%nat, Some [(1, two64)], Some ErrValueOverflow).
Proof. exact (tie_safeDivide huge_dv 7 [2; 1] 3 []). Qed.
Example ex_safeDivide_overflow_before :
  gen_safeDivide 7 (Some (lift fdv)) [2; 1] 3 (Some [(1, two64)]) = (7%nat, Some [(1, two64)], Some ErrValueOverflow).
Proof. exact (tie_safeDivide fdv 7 [2; 1] 3 [(1, two64)]). Qed.

End Examples.

Print Assumptions tie_calcDistributionQuantity.
Print Assumptions tie_safeCalcDistributionQuantity.
Print Assumptions tie_resetTactic.
Print Assumptions tie_calcVacants.
Print Assumptions tie_calcTacticByAddUpToStrategic.
Print Assumptions tie_updateUncrowded.
Print Assumptions tie_updateUseful.
Print Assumptions tie_updateUsefulLikeUncrowded.
Print Assumptions tie_isTacticFilled.
Print Assumptions tie_safeDivide.
