(* Deterministic driver for the correspondence check of the v1 priority model (see Prio2Sim.v): the same script
   language plus AddInput / RemoveInput / GracefulStop / Stop.  Selects with several ready alternatives are resolved
   by oracle 0 (the first ready alternative: stop, then command, then feedback / input / output); the scripts keep
   such points rare and the check compares only where the resolution cannot matter. *)
From Coq Require Import List NArith ZArith Bool.
From Cqos Require Import Base Divider Sched Prio1.
Import ListNotations.
Open Scope N_scope.

Definition faulty (base : Divider) (delta : Z) : Divider :=
  fun ps d t =>
    let r := base ps d t in
    match ps with
    | [] => r
    | p0 :: _ => if (0 <=? delta)%Z then add r p0 (Z.to_N delta) else set r p0 (get r p0 - Z.to_N (- delta))
    end.
Definition faulty_outside (base : Divider) (delta : Z) (all : list N) : Divider :=
  fun ps d t =>
    match filter (fun q => negb (existsb (N.eqb q) ps)) all with
    | [] => faulty base delta ps d t
    | q :: _ => let r := base ps d t in
                if (0 <=? delta)%Z then add r q (Z.to_N delta) else set r q (get r q - Z.to_N (- delta))
    end.

Record psim := mkPsim {
  ps_st : st;
  ps_held : list N;
  ps_next : N;
  ps_fault : option (nat * Z * bool);
  ps_amb : bool;
  ps_reg : list N      (* the priorities the driver has registered and not removed (its own view, updated when it issues the call) *)
}.

Definition sim_dv (base : Divider) (all : list N) (f : option (nat * Z * bool)) : nat -> Divider :=
  fun k => match f with
           | Some (n, delta, outside) =>
               if Nat.eqb k n then (if outside then faulty_outside base delta all else faulty base delta) else base
           | None => base
           end.

Definition digest (s : st) : list N :=
  flat_map (fun p => [match chan_of s p with Some ch => N.of_nat (length (inq s ch)) | None => 0 end;
                      if drained s p then 1 else 0; get (actual s) p]) (prios s)
  ++ [N.of_nat (length (outq s)); N.of_nat (length (fbq s)); N.of_nat (length (cmds s)); N.of_nat (length (prios s))].

Fixpoint list_eqb (a b : list N) : bool :=
  match a, b with
  | [], [] => true
  | x :: a', y :: b' => N.eqb x y && list_eqb a' b'
  | _, _ => false
  end.

(* does the select the scheduler is about to execute have more than one ready alternative?  (Go then chooses at random:
   the scenario is not comparable step by step) *)
Definition multi_ready (s : st) : bool :=
  let nstop := if stopped s then 1%nat else 0%nat in
  let nfb := match fbq s with [] => 0%nat | _ => 1%nat end in
  let n :=
    match pcs s with
    | Top => (nstop + (match cmds s with [] => 0 | _ => 1 end) + nfb)%nat
    | WaitFb | LimFb (S _) => (nstop + nfb)%nat
    | Drain _ => if N.eqb (sum (actual s)) 0 then 0%nat else (nstop + nfb)%nat
    | Read _ p _ _ _ =>
        if N.eqb (get (tactic s) p) 0 then 0%nat else
        match chan_state s p with
        | Some (_, q, cl, _) => (nstop + match q with [] => if cl then 1 else 0 | _ => 1 end)%nat
        | None => 0%nat
        end
    | Send _ _ _ _ _ => (nstop + if N.ltb (N.of_nat (length (outq s))) (outcap s) then 1 else 0)%nat
    | _ => 0%nat
    end in
  Nat.ltb 1 n.

Fixpoint sched_run (fixed : bool) (dv : nat -> Divider) (fuel : nat) (settle : bool) (last : option (list N * bool)) (amb : bool) (s : st) : st * bool :=
  match fuel with
  | O => (s, amb)
  | S f =>
      match sched_step fixed dv O s with
      | Some s' => sched_run fixed dv f settle last (amb || multi_ready s) s'
      | None =>
          if negb settle then (s, amb) else
          match pcs s with
          | Idle =>
              let dg := digest s in
              let go := fun (seen : bool) =>
                match env_step s Tick with Some s' => sched_run fixed dv f settle (Some (dg, seen)) amb s' | None => (s, amb) end in
              match last with
              | Some (l, seen) => if list_eqb l dg then (if seen then (s, amb) else go true) else go false
              | None => go false
              end
          | Read _ _ _ _ _ =>
              match env_step s Tick with Some s' => sched_run fixed dv f settle last amb s' | None => (s, amb) end
          | _ => (s, amb)
          end
      end
  end.

Definition nth_mod (k : N) (l : list N) : option (N * list N) :=
  match l with
  | [] => None
  | _ => let i := N.to_nat (k mod N.of_nat (length l)) in
         Some (nth i l 0, firstn i l ++ skipn (S i) l)
  end.

Definition env_or_same (s : st) (op : env_op) : st := match env_step s op with Some s' => s' | None => s end.

(* one driver operation (code a b); result: taken (priority, item), (0,0) = nothing *)
Definition apply_op (fixed : bool) (base : Divider) (fuel : nat) (sm : psim) (code a b : Z) (settle : bool) : psim * (N * N) :=
  let s := ps_st sm in
  let '(s1, sm1, res) :=
    if (code =? 1)%Z then
      match env_step s (Put (Z.to_nat a) (ps_next sm)) with
      | Some s' => (s', mkPsim s' (ps_held sm) (ps_next sm + 1) (ps_fault sm) (ps_amb sm) (ps_reg sm), (0, 0))
      | None => (s, sm, (0, 0))
      end
    else if (code =? 2)%Z then (env_or_same s (Close (Z.to_nat a)), sm, (0, 0))
    else if (code =? 3)%Z then
      match outq s with
      | (p, x) :: _ =>
          match env_step s Take with
          | Some s' => (s', mkPsim s' (ps_held sm ++ [p]) (ps_next sm) (ps_fault sm) (ps_amb sm) (ps_reg sm), (p, x))
          | None => (s, sm, (0, 0))
          end
      | [] => (s, sm, (0, 0))
      end
    else if (code =? 4)%Z then
      match nth_mod (Z.to_N a) (ps_held sm) with
      | Some (p, rest) =>
          match env_step s (Release p) with
          | Some s' => (s', mkPsim s' rest (ps_next sm) (ps_fault sm) (ps_amb sm) (ps_reg sm), (0, 0))
          | None => (s, sm, (0, 0))
          end
      | None => (s, sm, (0, 0))
      end
    else if (code =? 5)%Z then (s, mkPsim s (ps_held sm) (ps_next sm) (Some (ncalls s, a, false)) (ps_amb sm) (ps_reg sm), (0, 0))
    else if (code =? 7)%Z then (s, mkPsim s (ps_held sm) (ps_next sm) (Some (ncalls s, a, true)) (ps_amb sm) (ps_reg sm), (0, 0))
    else if (code =? 8)%Z then
      (* AddInput(channel a, priority b); channel ids >= 1000 are unbuffered.  Refused by the driver after termination *)
      match pcs s with
      | Done _ => (s, sm, (0, 0))
      | _ => (env_or_same s (AddCall (Z.to_nat a) (Z.to_N b) (a <? 1000)%Z),
              mkPsim s (ps_held sm) (ps_next sm) (ps_fault sm) (ps_amb sm)
                     (if existsb (N.eqb (Z.to_N b)) (ps_reg sm) then ps_reg sm else Z.to_N b :: ps_reg sm), (0, 0))
      end
    else if (code =? 9)%Z then
      match pcs s with
      | Done _ => (s, sm, (0, 0))
      | _ => (env_or_same s (RmvCall (Z.to_N a)),
              mkPsim s (ps_held sm) (ps_next sm) (ps_fault sm) (ps_amb sm) (filter (fun q => negb (N.eqb q (Z.to_N a))) (ps_reg sm)), (0, 0))
      end
    else if (code =? 10)%Z then (env_or_same s GracefulCall, sm, (0, 0))
    else if orb (code =? 11)%Z (code =? 12)%Z then (env_or_same s StopCall, sm, (0, 0))   (* Stop() / context cancellation *)
    else (s, sm, (0, 0)) in
  let '(s2, amb) := sched_run fixed (sim_dv base (sort_desc (ps_reg sm1)) (ps_fault sm1)) fuel settle None (ps_amb sm1) s1 in
  (mkPsim s2 (ps_held sm1) (ps_next sm1) (ps_fault sm1) amb (ps_reg sm1), res).
