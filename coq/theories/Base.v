From Coq Require Import List NArith Lia Bool.
Import ListNotations.
Open Scope N_scope.

(* distributions = Go map[uint]uint as association lists with unique keys; absent key = 0 *)
Definition dist := list (N * N).
Fixpoint get (d : dist) (k : N) : N :=
  match d with [] => 0 | (k', v) :: r => if N.eqb k k' then v else get r k end.
Fixpoint set (d : dist) (k v : N) : dist :=
  match d with
  | [] => [(k, v)]
  | (k', v') :: r => if N.eqb k k' then (k, v) :: r else (k', v') :: set r k v
  end.
Fixpoint sum (d : dist) : N := match d with [] => 0 | (_, v) :: r => v + sum r end.
Fixpoint reset (d : dist) : dist := match d with [] => [] | (k, _) :: r => (k, 0) :: reset r end.
Fixpoint keys (d : dist) : list N := match d with [] => [] | (k, _) :: r => k :: keys r end.

Lemma sum_reset d : sum (reset d) = 0.
Proof. induction d as [|[k v] r IH]; simpl; auto. Qed.
Lemma keys_reset d : keys (reset d) = keys d.
Proof. induction d as [|[k v] r IH]; simpl; congruence. Qed.
Lemma get_reset d k : get (reset d) k = 0.
Proof. induction d as [|[k' v] r IH]; simpl; auto. destruct (N.eqb k k'); auto. Qed.

Lemma get_notin d k : ~ In k (keys d) -> get d k = 0.
Proof. induction d as [|[k' v] r IH]; simpl; auto. intros H.
  destruct (N.eqb_spec k k'); [subst; tauto|]. apply IH; tauto. Qed.

Lemma get_set_same d k v : get (set d k v) k = v.
Proof. induction d as [|[k' v'] r IH]; simpl.
  - now rewrite N.eqb_refl.
  - destruct (N.eqb_spec k k') as [->|Hne]; simpl.
    + now rewrite N.eqb_refl.
    + destruct (N.eqb_spec k k'); [contradiction|auto]. Qed.
Lemma get_set_other d k k' v : k <> k' -> get (set d k v) k' = get d k'.
Proof. intros Hne. induction d as [|[k0 v0] r IH]; simpl.
  - destruct (N.eqb_spec k' k); [congruence|auto].
  - destruct (N.eqb_spec k k0) as [->|H0]; simpl.
    + destruct (N.eqb_spec k' k0); [congruence|auto].
    + destruct (N.eqb_spec k' k0); auto. Qed.

Lemma in_keys_set d k v x : In x (keys (set d k v)) <-> In x (keys d) \/ x = k.
Proof. induction d as [|[k' v'] r IH]; simpl.
  - intuition.
  - destruct (N.eqb_spec k k') as [->|Hne]; simpl; [intuition|]. rewrite IH. intuition. Qed.
Lemma nodup_keys_set d k v : NoDup (keys d) -> NoDup (keys (set d k v)).
Proof. induction d as [|[k' v'] r IH]; simpl; intros ND.
  - constructor; [intros []|constructor].
  - inversion ND as [|? ? Hn ND']; subst. destruct (N.eqb_spec k k') as [->|Hne]; simpl.
    + constructor; auto.
    + constructor; auto. rewrite in_keys_set. intros [H|H]; [auto|congruence]. Qed.
Lemma nodup_keys_reset d : NoDup (keys d) -> NoDup (keys (reset d)).
Proof. now rewrite keys_reset. Qed.

Lemma sum_set d k v : NoDup (keys d) -> sum (set d k v) + get d k = sum d + v.
Proof. induction d as [|[k' v'] r IH]; simpl; intros ND.
  - lia.
  - inversion ND as [|? ? Hn ND']; subst. destruct (N.eqb_spec k k') as [->|Hne]; simpl.
    + lia.
    + specialize (IH ND'). lia. Qed.

Lemma get_le_sum d k : NoDup (keys d) -> get d k <= sum d.
Proof. induction d as [|[k' v'] r IH]; simpl; intros ND; [lia|].
  inversion ND; subst. destruct (N.eqb k k'); [lia|]. specialize (IH H2). lia. Qed.

(* counting occurrences of a priority in a list of priorities *)
Fixpoint count (p : N) (l : list N) : N :=
  match l with [] => 0 | x :: r => (if N.eqb p x then 1 else 0) + count p r end.
Lemma count_app p l1 l2 : count p (l1 ++ l2) = count p l1 + count p l2.
Proof. induction l1; simpl; lia. Qed.
