(* One entry point for the correspondence check: run (family :: arguments) = observable result,
   everything encoded as lists of integers so that the OCaml driver and the in-Coq re-evaluation
   (Eval vm_compute in run [...]) need no per-family glue. *)
From Coq Require Import ZArith NArith List.
From Cqos Require Import Base RateConv Float64 Divider.
Import ListNotations.
Open Scope Z_scope.

Definition zs_to_ns (l : list Z) : list N := map Z.to_N l.
Definition ns_to_zs (l : list N) : list Z := map Z.of_N l.

(* split a length-prefixed list:  n :: x1 .. xn :: rest  ->  ([x1..xn], rest) *)
Definition take_list (l : list Z) : list Z * list Z :=
  match l with
  | [] => ([], [])
  | n :: r => (firstn (Z.to_nat n) r, skipn (Z.to_nat n) r)
  end.

(* family 2: [which; nil?; dividend; n; ps..; 2k; (key val)..] -> [isnil; key; val; ...]
   which: 0 v2 Fair, 1 v2 Rate, 2 v1 FairDivider, 3 v1 RateDivider *)
Definition run_divider (args : list Z) : list Z :=
  match args with
  | which :: isnil :: dividend :: r =>
      let '(ps, r1) := take_list r in
      let '(kv, _) := take_list r1 in
      let d0 := if isnil =? 0 then Some (unflatten_dist (zs_to_ns kv)) else None in
      let dv : Divider := if orb (which =? 0) (which =? 2) then fair else rate part_f in
      let call := if which <? 2 then v2_call else v1_call in
      match call dv (zs_to_ns ps) (Z.to_N dividend) d0 with
      | None => [1]
      | Some d => 0 :: ns_to_zs (flatten_dist d)
      end
  | _ => [-1]
  end.

Definition run (args : list Z) : list Z :=
  match args with
  | 1 :: which :: rest => run_rate which rest
  | 2 :: rest => run_divider rest
  | _ => [-999]
  end.
