(* One entry point for the correspondence check: run (family :: arguments) = observable result,
   everything encoded as lists of integers so that the OCaml driver and the in-Coq re-evaluation
   (Eval vm_compute in run [...]) need no per-family glue. *)
From Coq Require Import ZArith List.
From Cqos Require Import RateConv.
Import ListNotations.
Open Scope Z_scope.

Definition run (args : list Z) : list Z :=
  match args with
  | 1 :: which :: rest => run_rate which rest
  | _ => [-999]
  end.
