(* One entry point for the correspondence check: run (family :: arguments) = observable result,
   everything encoded as lists of integers so that the OCaml driver and the in-Coq re-evaluation
   (Eval vm_compute in run [...]) need no per-family glue. *)
From Coq Require Import ZArith NArith List.
From Cqos Require Import Base RateConv Float64 Divider Sched Utils Join JoinSim Limit LimitSim Prio2 Prio2Sim.
From Cqos Require Prio1 Prio1Sim.
Import ListNotations.
Open Scope Z_scope.

Definition zs_to_ns (l : list Z) : list N := map Z.to_N l.
Definition ns_to_zs (l : list N) : list Z := map Z.of_N l.

(* split a length-prefixed list:  n :: x1 .. xn :: rest  ->  ([x1..xn], rest) *)
Definition take_list (l : list Z) : list Z * list Z :=
  match l with
  | [] => ([], [])
  | n :: r => (firstn (Z.to_nat n) r, skipn (Z.to_nat n) r)
  end.

(* family 2: [which; nil?; dividend; n; ps..; 2k; (key val)..] -> [isnil; key; val; ...]
   which: 0 v2 Fair, 1 v2 Rate, 2 v1 FairDivider, 3 v1 RateDivider *)
Definition run_divider (args : list Z) : list Z :=
  match args with
  | which :: isnil :: dividend :: r =>
      let '(ps, r1) := take_list r in
      let '(kv, _) := take_list r1 in
      let d0 := if isnil =? 0 then Some (unflatten_dist (zs_to_ns kv)) else None in
      let dv : Divider := if orb (which =? 0) (which =? 2) then fair else rate part_f in
      let call := if which <? 2 then v2_call else v1_call in
      match call dv (zs_to_ns ps) (Z.to_N dividend) d0 with
      | None => [1]
      | Some d => 0 :: ns_to_zs (flatten_dist d)
      end
  | _ => [-1]
  end.

Definition divider_of (kind : Z) : Divider := if kind =? 0 then fair else rate part_f.
Definition bool_z (b : bool) : Z := if b then 1 else 0.

Definition run_new_code (dv : Divider) (ps : list N) (h : N) : list Z :=
  match prepare_v2 dv ps h with
  | inl _ => [0]
  | inr EHandlersZero => [2]
  | inr EInputEmpty => [3]
  | inr ETooSmall => [4]
  | inr (EDivider DividerBad) => [5]
  | inr (EDivider SumOverflow) => [6]
  end.
Definition sweep_limits : list Z := [0; 1; 2; 5; 10; 20; 33; 50; 75; 100; 101; 150; 400; 100000].

(* family 3: [fn; divider; n; ps..; q (or max); limit_num; limit_den] -> [value]
   fn: 0 IsNonFatalConfig, 1 PickUpMinNonFatalQuantity, 2 PickUpMaxNonFatalQuantity,
       3 IsSuitableConfig, 4 PickUpMinSuitableQuantity, 5 PickUpMaxSuitableQuantity
   the limit is the float64 quotient float64(limit_num)/float64(limit_den), computed the same way in Go *)
Definition run_utils (args : list Z) : list Z :=
  match args with
  | fn :: kind :: r =>
      let '(ps0, r1) := take_list r in
      let ps := zs_to_ns ps0 in
      let dv := divider_of kind in
      match r1 with
      | [q; ln; ld] =>
          let q := Z.to_N q in
          let limit := fdiv (of_Z ln) (of_Z ld) in
          if fn =? 0 then [bool_z (is_nonfatal ps dv q)]
          else if fn =? 1 then [Z.of_N (pick_min_nonfatal ps dv q)]
          else if fn =? 2 then [Z.of_N (pick_max_nonfatal ps dv q)]
          else if fn =? 3 then [bool_z (is_suitable ps dv q limit)]
          else if fn =? 4 then [Z.of_N (pick_min_suitable ps dv q limit)]
          else if fn =? 5 then [Z.of_N (pick_max_suitable ps dv q limit)]
          else if fn =? 7 then [bool_z (is_nonfatal ps dv q); hd (-1) (run_new_code dv ps q)]
          else if fn =? 8 then
            Z.of_N (pick_min_nonfatal ps dv q) :: Z.of_N (pick_max_nonfatal ps dv q) ::
            map (fun k => bool_z (is_nonfatal ps dv (N.of_nat k))) (seq 1 (N.to_nat q))
          else if fn =? 9 then
            Z.of_N (pick_min_suitable ps dv q limit) :: Z.of_N (pick_max_suitable ps dv q limit) ::
            map (fun k => bool_z (is_suitable ps dv (N.of_nat k) limit)) (seq 1 (N.to_nat q))
          else if fn =? 10 then
            bool_z (is_nonfatal ps dv q) :: map (fun l => bool_z (is_suitable ps dv q (of_Z l))) sweep_limits
          else [-2]
      | _ => [-1]
      end
  | _ => [-1]
  end.

(* family 4: v2 priority.New acceptance  [divider; H; n; ps..] -> [code]
   0 accepted, 2 ErrHandlersQuantityZero, 3 ErrInputEmpty, 4 ErrHandlersQuantityTooSmall, 5 ErrDividerBad, 6 overflow *)
(* a custom divider that obeys the sum rule but not the order of the shares: the base division, then the whole increment of the
   priority at position `from` of the list it was given is moved to the priority at position `to` (positions modulo the length) *)
Definition moved (base : Divider) (from to : nat) : Divider := fun ps dividend d =>
  let d1 := base ps dividend d in
  match nth_error ps (Nat.modulo from (length ps)), nth_error ps (Nat.modulo to (length ps)) with
  | Some pf, Some pt => if N.eqb pf pt then d1 else
      let inc := (get d1 pf - get d pf)%N in add (set d1 pf (get d pf)) pt inc
  | _, _ => d1
  end.
(* [divider; H; n; ps..] or [divider; H; n; ps..; from; to] (the moved divider) *)
Definition run_new (args : list Z) : list Z :=
  match args with
  | kind :: h :: r =>
      let '(ps0, r1) := take_list r in
      let dv := match r1 with
                | [from; to] => moved (divider_of kind) (Z.to_nat from) (Z.to_nat to)
                | _ => divider_of kind
                end in
      run_new_code dv (zs_to_ns ps0) (Z.to_N h)
  | _ => [-1]
  end.

(* ---- family 5: timed join / unite scenario (see JoinSim.v)
   [variant; J; nocopy; T; inaccuracy; icap; close_after; stop_at; fuel; capextra (spare capacity of the producer's slices, ignored here); 2n; (delay len)*n; 2m; (hold pause)*m; k; oracle bits]
   -> [0; ambiguous; finished; nputs; put times..; nouts; (t alias len vals..)*; tclose; stop_ret]   or [-code] (constructor error) *)
Fixpoint pairs (l : list Z) : list (Z * Z) :=
  match l with a :: b :: r => (a, b) :: pairs r | _ => [] end.
Fixpoint mk_items (next : Z) (script : list (Z * Z)) : list (Z * list Z) :=
  match script with
  | [] => []
  | (dl, len) :: r => (dl, map (fun i => next + Z.of_nat i) (seq 0 (Z.to_nat len))) :: mk_items (next + len) r
  end.
Definition enc_out (o : Z * Z * list Z) : list Z :=
  let '(t, alias, vals) := o in t :: alias :: Z.of_nat (length vals) :: vals.

Definition run_join (args : list Z) : list Z :=
  match args with
  | var :: j :: nc :: tmo :: inacc :: icp :: closeafter :: stopat :: fuel :: _capextra :: r =>
      let '(ps, r1) := take_list r in
      let '(cs, r2) := take_list r1 in
      let '(orc, _) := take_list r2 in
      let variant := if var =? 0 then JoinV2 else if var =? 1 then UniteV2 else JoinV1 in
      let v1 := var =? 2 in
      match calc_interval v1 tmo (normalize_inaccuracy inacc) with
      | inr code => [- code]
      | inl ivl =>
          let c := {| variant_of := variant; jsize := Z.to_nat j; timeout := tmo; interval := ivl; nocopy := negb (nc =? 0) |} in
          let items := mk_items 1 (pairs ps) in
          let s0 := {| now := 0; d := jinit 0; ibuf := []; icap := Z.to_nat icp; iclosed := false; prod := items;
                       prod_at := match items with [] => closeafter | (dl, _) :: _ => dl end; close_after := closeafter;
                       prod_done := false; obuf := []; ocap := if v1 then 1%nat else S (Z.to_nat icp); cons_at := 0; cons_n := 0;
                       cons_script := pairs cs; holding := None; cons_done := false; first_own := None; next_tick := ivl;
                       stop_at := stopat; stop_called := false; stop_ret := -1; oracle := map (fun b => negb (b =? 0)) orc;
                       outlog := []; putlog := []; tclose := -1; ambiguous := false |} in
          let '(s1, fin) := sim_run c (Z.to_nat fuel) s0 in
          let puts := rev (putlog s1) in
          let outs := rev (outlog s1) in
          [0; bool_z (ambiguous s1); bool_z fin; Z.of_nat (length puts)] ++ puts ++
          [Z.of_nat (length outs)] ++ flat_map enc_out outs ++ [tclose s1; stop_ret s1]
      end
  | _ => [-99]
  end.

(* ---- family 6: timed limit scenario
   [Q; I; icap; close_after; fuel; n; delays..; 2m; (index pause)*m] -> [0; 0; finished; nputs; puts..; nouts; (t val)*; tclose] or [-code] *)
Definition run_limit (args : list Z) : list Z :=
  match args with
  | q :: i :: icp :: closeafter :: fuel :: r =>
      let '(ds, r1) := take_list r in
      let '(cs, _) := take_list r1 in
      match is_valid {| ivl := i; qty := q |} with
      | Some e => [- err_code e]
      | None =>
          let c := {| quantity := q; linterval := i |} in
          let s0 := {| lnow := 0; ld := linit 0; libuf := []; licap := Z.to_nat icp; liclosed := false; lprod := ds; lnext := 1;
                       lprod_at := match ds with [] => closeafter | dl :: _ => dl end; lclose_after := closeafter; lprod_done := false;
                       lobuf := []; locap := S (Z.to_nat icp); lcons_at := 0; lcons_n := 0; lcons_script := pairs cs; lcons_done := false;
                       loutlog := []; lputlog := []; ltclose := -1 |} in
          let '(s1, fin) := lsim_run c (Z.to_nat fuel) s0 in
          let puts := rev (lputlog s1) in
          let outs := rev (loutlog s1) in
          [0; 0; bool_z fin; Z.of_nat (length puts)] ++ puts ++ [Z.of_nat (length outs)] ++
          flat_map (fun o => [fst o; snd o]) outs ++ [ltclose s1]
      end
  | _ => [-99]
  end.

(* ---- family 7: v2 priority driver script (see Prio2Sim.v)
   [divider; H; fuel; 2n; (priority buffered)*n; 3m; (code arg settle)*m]
   -> [0; per op: taken_p taken_x len(output) k (dividend len ps..)*k ...; closed; errcode]  or [-code] (constructor error) *)
Fixpoint triples (l : list Z) : list (Z * Z * Z) :=
  match l with a :: b :: c :: r => (a, b, c) :: triples r | _ => [] end.
Definition enc_call (c : list N * N) : list Z := Z.of_N (snd c) :: Z.of_nat (length (fst c)) :: ns_to_zs (fst c).
(* the scheduling state as the snapshot hook reports it: configured priorities (highest first), then any other priority
   with items still in flight (highest first): (priority, actual, strategic) *)
Definition enc_snapshot (ps : list N) (act strat : dist) : list Z :=
  let extra := sort_desc (map fst (filter (fun kv => andb (negb (N.eqb (snd kv) 0)) (negb (existsb (N.eqb (fst kv)) ps))) act)) in
  let rows := ps ++ extra in
  Z.of_nat (length rows) :: flat_map (fun p => [Z.of_N p; Z.of_N (get act p); Z.of_N (get strat p)]) rows.
Fixpoint run_ops (base : Divider) (fuel : nat) (sm : psim) (ops : list (Z * Z * Z)) : list Z * psim :=
  match ops with
  | [] => ([], sm)
  | (code, arg, stl) :: r =>
      let before := length (calls (ps_st sm)) in
      let '(sm1, (tp, tx)) := apply_op base fuel sm code arg (negb (stl =? 0)) in
      let seg := rev (firstn (length (calls (ps_st sm1)) - before) (calls (ps_st sm1))) in
      let '(rest, smf) := run_ops base fuel sm1 r in
      ([Z.of_N tp; Z.of_N tx; Z.of_nat (length (outq (ps_st sm1))); Z.of_nat (length seg)] ++ flat_map enc_call seg ++
       enc_snapshot (prios (ps_st sm1)) (actual (ps_st sm1)) (strategic (ps_st sm1)) ++ rest, smf)
  end.
Fixpoint prefill (s : st) (nxt : N) (ops : list (Z * Z * Z)) : st * N * list (Z * Z * Z) :=
  match ops with
  | (6, p, _) :: r =>
      match env_step s (Put (Z.to_N p) nxt) with
      | Some s' => prefill s' (nxt + 1)%N r
      | None => prefill s nxt r
      end
  | _ => (s, nxt, ops)
  end.
Definition run_prio2 (args : list Z) : list Z :=
  match args with
  | kind :: h :: fuel :: r =>
      let '(pb, r1) := take_list r in
      let '(ops, _) := take_list r1 in
      let cfgs := pairs pb in
      let ps := map (fun x => Z.to_N (fst x)) cfgs in
      let isbuf := fun p : N => existsb (fun x => andb (N.eqb (Z.to_N (fst x)) p) (negb (snd x =? 0))) cfgs in
      let base := divider_of kind in
      match new_v2 (fun _ => base) ps (Z.to_N h) isbuf with
      | inr e => map Z.opp (run_new_code base ps (Z.to_N h))
      | inl s00 =>
          (* leading operations with code 6 are puts made before New(): the inputs are pre-filled *)
          let '(s0, nxt, rest_ops) := prefill s00 1 (triples ops) in
          let s1 := sched_run (fun _ => base) (Z.to_nat fuel) false None s0 in
          let '(out, smf) := run_ops base (Z.to_nat fuel) (mkPsim s1 [] nxt None) rest_ops in
          let fin := match pcs (ps_st smf) with
                     | Done None => [1; 0]
                     | Done (Some DividerBad) => [1; 1]
                     | Done (Some SumOverflow) => [1; 2]
                     | _ => [0; -1]
                     end in
          0 :: out ++ fin
      end
  | _ => [-99]
  end.

(* ---- family 9: v2 simplified discipline = Prio2 + HandlersQuantity handler goroutines (range Output; Handle; Release).
   Handle blocks until the driver lets it return, so: a handler that is not inside Handle takes an item as soon as there is one
   (auto-take), and "let the k-th running Handle return" is Release of that item's priority.
   [divider; H; fuel; 2n; (priority buffered)*n; 3m; (code arg settle)*m]   codes: 1 put, 2 close, 4 let go
   -> [0; per op: running total k started-items(sorted ascending)..; terminated; errcode] *)
Fixpoint autotake (base : Divider) (fuel : nat) (n : nat) (hq : nat) (sm : psim) (acc : list (N * N)) : psim * list (N * N) :=
  match n with
  | O => (sm, acc)
  | S n' =>
      if andb (Nat.ltb (length (ps_held sm)) hq) (match outq (ps_st sm) with [] => false | _ => true end) then
        let '(sm1, (tp, tx)) := apply_op base fuel sm 3 0 true in autotake base fuel n' hq sm1 ((tx, tp) :: acc)
      else (sm, acc)
  end.
(* running Handle calls as (item, priority), ascending by item: "let the k-th go" is by item order on both sides *)
Fixpoint insert_xp (x : N * N) (l : list (N * N)) : list (N * N) :=
  match l with [] => [x] | y :: r => if N.leb (fst x) (fst y) then x :: l else y :: insert_xp x r end.
Fixpoint index_of_prio (p : N) (l : list N) (i : nat) : option nat :=
  match l with [] => None | q :: r => if N.eqb p q then Some i else index_of_prio p r (S i) end.
Fixpoint run_simple_ops (base : Divider) (fuel : nat) (hq : nat) (sm : psim) (running : list (N * N)) (total : nat) (ops : list (Z * Z * Z)) : list Z :=
  match ops with
  | [] => match pcs (ps_st sm) with Done None => [1; 0] | Done (Some _) => [1; 1] | _ => [0; -1] end
  | (code, arg, _) :: r =>
      let '(sm1, running1) :=
        if code =? 4 then
          match running with
          | [] => (sm, running)
          | _ =>
              let i := Z.to_nat (arg mod Z.of_nat (length running)) in
              let xp := nth i running (0%N, 0%N) in
              let rest := firstn i running ++ skipn (S i) running in
              match index_of_prio (snd xp) (ps_held sm) 0 with
              | Some j => (fst (apply_op base fuel sm 4 (Z.of_nat j) true), rest)
              | None => (sm, rest)
              end
          end
        else if code =? 3 then (sm, running)
        else (fst (apply_op base fuel sm code arg true), running) in
      let '(sm2, got) := autotake base fuel (S (S fuel)) hq sm1 [] in
      let total2 := (total + length got)%nat in
      let running2 := fold_right insert_xp running1 got in
      [Z.of_nat (length running2); Z.of_nat total2; Z.of_nat (length got)] ++ ns_to_zs (map fst (fold_right insert_xp [] got)) ++
      run_simple_ops base fuel hq sm2 running2 total2 r
  end.
Definition run_simple2 (args : list Z) : list Z :=
  match args with
  | kind :: h :: fuel :: r =>
      let '(pb, r1) := take_list r in
      let '(ops, _) := take_list r1 in
      let cfgs := pairs pb in
      let ps := map (fun x => Z.to_N (fst x)) cfgs in
      let isbuf := fun p : N => existsb (fun x => andb (N.eqb (Z.to_N (fst x)) p) (negb (snd x =? 0))) cfgs in
      let base := divider_of kind in
      match new_v2 (fun _ => base) ps (Z.to_N h) isbuf with
      | inr e => map Z.opp (run_new_code base ps (Z.to_N h))
      | inl s0 =>
          let s1 := sched_run (fun _ => base) (Z.to_nat fuel) true None s0 in
          let '(sm0, got0) := autotake base (Z.to_nat fuel) (S (S (Z.to_nat fuel))) (Z.to_nat h) (mkPsim s1 [] 1 None) [] in
          0 :: run_simple_ops base (Z.to_nat fuel) (Z.to_nat h) sm0 (fold_right insert_xp [] got0) (length got0) (triples ops)
      end
  | _ => [-99]
  end.

(* ---- family 8: v1 priority driver script (see Prio1Sim.v)
   [divider; H; fuel; ocap; fixed; 2n; (priority channel)*n; 4m; (code a b settle)*m]
   -> [0; per op: taken_p taken_x len(output) pending_cmds done k (dividend len ps..)*k ...; done; errcode]
   channel ids >= 1000 are unbuffered.  v1 New never fails for a non-zero H (isValid only). *)
Fixpoint quads (l : list Z) : list (Z * Z * Z * Z) :=
  match l with a :: b :: c :: d :: r => (a, b, c, d) :: quads r | _ => [] end.
Definition is_done1 (s : Prio1.st) : bool := match Prio1.pcs s with Prio1.Done _ => true | _ => false end.
(* per channel the driver has used so far (ascending id): how many items the discipline took from it *)
Fixpoint insert_nat (x : nat) (l : list nat) : list nat :=
  match l with [] => [x] | y :: r => if Nat.ltb x y then x :: l else if Nat.eqb x y then l else y :: insert_nat x r end.
Definition enc_consumed_ids (s : Prio1.st) (ids : list nat) : list Z :=
  Z.of_nat (length ids) :: flat_map (fun ch => [Z.of_nat ch; Z.of_nat (length (Prio1.written s ch)) - Z.of_nat (length (Prio1.inq s ch))]) ids.
Fixpoint run_ops1 (fixed : bool) (base : Divider) (fuel : nat) (known : list nat) (sm : Prio1Sim.psim) (ops : list (Z * Z * Z * Z)) : list Z * Prio1Sim.psim :=
  match ops with
  | [] => ([], sm)
  | (code, a, b, stl) :: r =>
      let before := length (Prio1.calls (Prio1Sim.ps_st sm)) in
      let '(sm1, (tp, tx)) := Prio1Sim.apply_op fixed base fuel sm code a b (negb (stl =? 0)) in
      let s1 := Prio1Sim.ps_st sm1 in
      let seg := rev (firstn (length (Prio1.calls s1) - before) (Prio1.calls s1)) in
      let known1 := if orb (code =? 1) (orb (code =? 2) (andb (code =? 8) (negb (is_done1 (Prio1Sim.ps_st sm))))) then insert_nat (Z.to_nat a) known else known in
      let '(rest, smf) := run_ops1 fixed base fuel known1 sm1 r in
      ([Z.of_N tp; Z.of_N tx; Z.of_nat (length (Prio1.outq s1)); (if is_done1 s1 then 0 else Z.of_nat (length (Prio1.cmds s1))); bool_z (is_done1 s1);
        Z.of_nat (length seg)] ++ flat_map enc_call seg ++ enc_consumed_ids s1 known1 ++
        enc_snapshot (Prio1.prios s1) (Prio1.actual s1) (Prio1.strategic s1) ++ rest, smf)
  end.
Fixpoint span6 (l : list (Z * Z * Z * Z)) : list (Z * Z * Z * Z) * list (Z * Z * Z * Z) :=
  match l with
  | (6, a, b, c) :: r => let '(x, y) := span6 r in ((6, a, b, c) :: x, y)
  | _ => ([], l)
  end.
Definition run_prio1 (args : list Z) : list Z :=
  match args with
  | kind :: h :: fuel :: ocap :: fixed :: r =>
      if h =? 0 then [-2] else
      let '(pc, r1) := take_list r in
      let '(ops, _) := take_list r1 in
      let cfg := map (fun x => (Z.to_N (fst x), Z.to_nat (snd x))) (pairs pc) in
      let base := divider_of kind in
      let fx := negb (fixed =? 0) in
      let s00 := Prio1.init_state (fun _ => base) cfg (Z.to_N h) (fun ch => Nat.ltb ch 1000) (Z.to_N ocap) in
      (* leading operations with code 6: items written (by writers that block as needed) before New is called *)
      let '(pre, script) := span6 (quads ops) in
      let '(s0, nxt) := fold_left (fun (acc : Prio1.st * N) (q : Z * Z * Z * Z) =>
                           let '(_, a, _, _) := q in
                           match Prio1.env_step (fst acc) (Prio1.Put (Z.to_nat a) (snd acc)) with
                           | Some s' => (s', (snd acc + 1)%N)
                           | None => acc
                           end) pre (s00, 1%N) in
      let '(s1, amb0) := Prio1Sim.sched_run fx (fun _ => base) (Z.to_nat fuel) false None false s0 in
      let known0 := fold_right insert_nat (fold_right insert_nat [] (map snd cfg)) (map (fun q : Z * Z * Z * Z => let '(_, a, _, _) := q in Z.to_nat a) pre) in
      let '(out, smf) := run_ops1 fx base (Z.to_nat fuel) known0 (Prio1Sim.mkPsim s1 [] nxt None amb0 (map fst cfg)) script in
      let fin := match Prio1.pcs (Prio1Sim.ps_st smf) with
                 | Prio1.Done None => [1; 0]
                 | Prio1.Done (Some (Prio1.EDiv DividerBad)) => [1; 1]
                 | Prio1.Done (Some Prio1.EQuantityExceeded) => [1; 2]
                 | Prio1.Done (Some (Prio1.EDiv SumOverflow)) => [1; 3]
                 | _ => [0; -1]
                 end in
      0 :: out ++ fin ++ [bool_z (Prio1Sim.ps_amb smf)]
  | _ => [-99]
  end.

(* ---- family 11: v1 simplified discipline = Prio1 + HandlersQuantity handler goroutines (priority/simple.go), like family 9.
   The output and feedback channels are the discipline's own, capacity DivideWithMin(H, 10, number of inputs).
   [divider; H; fuel; 2n; (priority buffered)*n; 3m; (code arg settle)*m]   codes: 1 p put, 2 p close, 4 k let go, 10 GracefulStop,
   11/12 Stop / cancel (what happens after those is not compared: Handle calls are interrupted through their context)
   -> [0; per op: running total k started-items(sorted ascending)..; terminated; errcode] *)
Fixpoint autotake1 (base : Divider) (fuel : nat) (n : nat) (hq : nat) (sm : Prio1Sim.psim) (acc : list (N * N)) : Prio1Sim.psim * list (N * N) :=
  match n with
  | O => (sm, acc)
  | S n' =>
      if andb (Nat.ltb (length (Prio1Sim.ps_held sm)) hq) (match Prio1.outq (Prio1Sim.ps_st sm) with [] => false | _ => true end) then
        let '(sm1, (tp, tx)) := Prio1Sim.apply_op true base fuel sm 3 0 0 true in autotake1 base fuel n' hq sm1 ((tx, tp) :: acc)
      else (sm, acc)
  end.
Fixpoint chan_of_prio (p : Z) (cfgs : list (Z * Z)) (i : nat) : Z :=
  match cfgs with
  | [] => 999999
  | (q, b) :: r => if q =? p then (if b =? 0 then 1000 + Z.of_nat i else Z.of_nat i) else chan_of_prio p r (S i)
  end.
Fixpoint run_simple1_ops (base : Divider) (fuel : nat) (hq : nat) (cfgs : list (Z * Z)) (sm : Prio1Sim.psim) (running : list (N * N)) (total : nat)
         (ops : list (Z * Z * Z)) : list Z :=
  match ops with
  | [] => match Prio1.pcs (Prio1Sim.ps_st sm) with Prio1.Done None => [1; 0] | Prio1.Done (Some _) => [1; 1] | _ => [0; -1] end
  | (code, arg, _) :: r =>
      let '(sm1, running1) :=
        if code =? 4 then
          match running with
          | [] => (sm, running)
          | _ =>
              let i := Z.to_nat (arg mod Z.of_nat (length running)) in
              let xp := nth i running (0%N, 0%N) in
              let rest := firstn i running ++ skipn (S i) running in
              match index_of_prio (snd xp) (Prio1Sim.ps_held sm) 0 with
              | Some j => (fst (Prio1Sim.apply_op true base fuel sm 4 (Z.of_nat j) 0 true), rest)
              | None => (sm, rest)
              end
          end
        else if orb (code =? 1) (code =? 2) then (fst (Prio1Sim.apply_op true base fuel sm code (chan_of_prio arg cfgs 0) 0 true), running)
        else if orb (code =? 10) (orb (code =? 11) (code =? 12)) then (fst (Prio1Sim.apply_op true base fuel sm code 0 0 true), running)
        else (sm, running) in
      let '(sm2, got) := autotake1 base fuel (S (S fuel)) hq sm1 [] in
      let total2 := (total + length got)%nat in
      let running2 := fold_right insert_xp running1 got in
      [Z.of_nat (length running2); Z.of_nat total2; Z.of_nat (length got)] ++ ns_to_zs (map fst (fold_right insert_xp [] got)) ++
      run_simple1_ops base fuel hq cfgs sm2 running2 total2 r
  end.
Fixpoint cfg_chans (cfgs : list (Z * Z)) (i : nat) : list (N * nat) :=
  match cfgs with
  | [] => []
  | (q, b) :: r => (Z.to_N q, if b =? 0 then (1000 + i)%nat else i) :: cfg_chans r (S i)
  end.
(* NewSimple: capacity of the output and feedback channels = DivideWithMin(H, DefaultCapacityDivider, number of inputs) *)
Definition simple1_capacity (h n : N) : N := divide_with_min h 10 n.
Definition run_simple1 (args : list Z) : list Z :=
  match args with
  | kind :: h :: fuel :: r =>
      if h =? 0 then [-2] else
      let '(pb, r1) := take_list r in
      let '(ops, _) := take_list r1 in
      let cfgs := pairs pb in
      let base := divider_of kind in
      let ocap := simple1_capacity (Z.to_N h) (N.of_nat (length cfgs)) in
      let s0 := Prio1.init_state (fun _ => base) (cfg_chans cfgs 0) (Z.to_N h) (fun ch => Nat.ltb ch 1000) ocap in
      let '(s1, amb0) := Prio1Sim.sched_run true (fun _ => base) (Z.to_nat fuel) true None false s0 in
      let '(sm0, got0) := autotake1 base (Z.to_nat fuel) (S (S (Z.to_nat fuel))) (Z.to_nat h)
                            (Prio1Sim.mkPsim s1 [] 1 None amb0 (map (fun x => Z.to_N (fst x)) cfgs)) [] in
      0 :: run_simple1_ops base (Z.to_nat fuel) (Z.to_nat h) cfgs sm0 (fold_right insert_xp [] got0) (length got0) (triples ops)
  | _ => [-99]
  end.

Definition run (args : list Z) : list Z :=
  match args with
  | 1 :: which :: rest => run_rate which rest
  | 2 :: rest => run_divider rest
  | 3 :: rest => run_utils rest
  | 4 :: rest => run_new rest
  | 5 :: rest => run_join rest
  | 6 :: rest => run_limit rest
  | 7 :: rest => run_prio2 rest
  | 8 :: rest => run_prio1 rest
  | 11 :: rest => run_simple1 rest
  | 9 :: rest => run_simple2 rest
  | _ => [-999]
  end.
