(* C07 (normal termination) of the v2 priority discipline model (Prio2.v) as a LIVENESS statement over infinite executions:
     "once every configured input has been closed, the discipline terminates: everything written is delivered, taken and released,
      the output is closed and no error is reported".
   Built on Prio2Live.v (fair infinite executions, every item is delivered) and on part D of Prio2L.v (the regime DReg and its
   variant dpos, which bound the final stretch for the scheduler running alone; here they are replayed along a fair execution).
   No classical axiom is used.
   Sections:
     1  the regimes: Reg1 (every configured input closed and empty, nothing in the scheduler's hand), Reg3 (+ output and handlers
        empty); they are stable under every step
     2  an execution whose inputs are all eventually closed: they are all closed from some index on, `written` is final,
        everything pending is delivered (Reg1 is reached), the output is emptied (F_take), the handlers release (F_rel): Reg3
     3  from Reg3 the scheduler consumes the pending releases, marks every input drained and terminates (DReg along the execution):
        eventually_done_sec
     4  Done is stable; Finished; the layers; 4b the statement in terms of what the environment sees (puts / taken)
     5  the closed theorems: prio2_done_stable, prio2_eventually_done (_w, _new), prio2_eventually_finished,
        prio2_eventually_all_delivered / _nothing_in_flight / _all_drained, prio2_eventually_done_visible, prio2_done_iff_closed
     6  non-vacuity: a fair execution that closes its inputs and terminates (a checked finite script, then the clock for ever)
     7  prio2_termination_needs_fblimit: the hypothesis `1 <= fblimit s0` cannot be dropped (a fair lasso execution)        *)
From Coq Require Import List NArith Lia Bool Arith.
From Cqos Require Import Base Divider DividerP Sched Prio2 Prio2P Prio2L Prio2Live.
Import ListNotations.
Open Scope N_scope.

(* ================= 1. the regimes ================= *)
Definition AllIn (s : st) : Prop := forall p, In p (prios s) -> closed s p = true /\ inq s p = [].
Definition Reg1 (s : st) : Prop := AllIn s /\ not_send (pcs s).
Definition Reg3 (s : st) : Prop := Reg1 s /\ outq s = [] /\ held s = [].

Ltac nosend := unfold not_send; intros; discriminate.

Lemma reg1_sched dv s s' : Inv2 s -> Reg1 s -> sched_step dv s = Some s' ->
  Reg1 s' /\ delivered s' = delivered s /\ written s' = written s /\ outq s' = outq s /\ held s' = held s.
Proof.
  intros Hi2 [Ha Hns] Hs. unfold sched_step in Hs. destruct (pcs s) eqn:Epc.
  - (* Calc *) inversion Hs; subst s'. destruct (step_calc_shape dv s) as [(Ep & Ed & Ei & Ew & Ec & _) Hpc].
    destruct (step_calc_chan dv s) as (Eo & Eh & _).
    split; [|auto]. split; [unfold AllIn; rewrite Ep, Ec, Ei; exact Ha|].
    destruct Hpc as [E|[E|[e E]]]; rewrite E; nosend.
  - (* WaitFb *) destruct (fbq s); [discriminate|]. inversion Hs; subst s'. split; [split; [exact Ha|nosend]|repeat split; reflexivity].
  - (* Prio *) destruct rest as [|p r]; inversion Hs; subst s'; (split; [split; [exact Ha|]|repeat split; reflexivity]); proj.
    + destruct ph; nosend.
    + destruct (drained s p); nosend.
  - (* Read *)
    assert (Hp : In p (prios s)). { pose proof (j_rest s Hi2) as Hr. rewrite Epc in Hr. cbn [pc_rest_ok] in Hr. exact (proj1 Hr). }
    destruct (Ha p Hp) as [Hc Hi]. rewrite Hi, Hc in Hs.
    destruct (get (tactic s) p =? 0); inversion Hs; subst s'; (split; [split; [exact Ha|nosend]|repeat split; reflexivity]).
  - (* Send *) exfalso. eapply Hns; reflexivity.
  - (* Recalc *) inversion Hs; subst s'. destruct (step_recalc_shape dv s proc) as [(Ep & Ed & Ei & Ew & Ec & _) Hpc].
    destruct (step_recalc_chan dv s proc) as (Eo & Eh & _).
    split; [|auto]. split; [unfold AllIn; rewrite Ep, Ec, Ei; exact Ha|].
    destruct Hpc as [E|[E|[e E]]]; rewrite E; nosend.
  - (* EndBase *)
    destruct (proc =? 0); [destruct (forallb (drained s) (prios s))|]; inversion Hs; subst s';
      (split; [split; [exact Ha|nosend]|repeat split; reflexivity]).
  - discriminate.
  - (* LimFb *)
    destruct k as [|k]; [|destruct (fbq s)]; inversion Hs; subst s'; (split; [split; [exact Ha|nosend]|repeat split; reflexivity]).
  - (* Drain *)
    destruct (sum (actual s) =? 0); [|destruct (fbq s); [discriminate|]]; inversion Hs; subst s';
      (split; [split; [exact Ha|nosend]|repeat split; reflexivity]).
  - discriminate.
Qed.

(* the effect of an environment step on the three channels *)
Definition env_chan (s : st) (o : env_op) (s' : st) : Prop :=
  match o with
  | Take => exists px, outq s = px :: outq s' /\ held s' = px :: held s /\ fbq s' = fbq s
  | Release p => exists h, remove1 p (held s) = Some h /\ held s' = h /\ fbq s' = fbq s ++ [p] /\ outq s' = outq s
  | _ => outq s' = outq s /\ held s' = held s /\ fbq s' = fbq s
  end.

Lemma env_step_chan s o s' : env_step s o = Some s' -> env_chan s o s' /\ delivered s' = delivered s.
Proof.
  intros Hs. destruct o as [p x|p| |p|]; cbn [env_step env_chan] in *.
  - destruct (closed s p); [discriminate|]. inversion Hs; subst s'; proj. auto.
  - inversion Hs; subst s'; proj. auto.
  - destruct (outq s) as [|px q]; [discriminate|]. inversion Hs; subst s'; proj. split; [exists px; auto|reflexivity].
  - destruct (remove1 p (held s)) as [h|]; [|discriminate]. inversion Hs; subst s'; proj. split; [exists h; auto|reflexivity].
  - destruct (pcs s); try (inversion Hs; subst s'; auto).
    destruct (negb (get (tactic s) p =? 0) && negb (buffered s p) && negb (closed s p) && match inq s p with [] => true | _ => false end);
      inversion Hs; subst s'; proj; auto.
Qed.

Lemma reg1_env s o s' : Reg1 s -> env_step s o = Some s' ->
  Reg1 s' /\ (forall p, In p (prios s) -> written s' p = written s p).
Proof.
  intros [Ha Hns] Hs. destruct o as [p x|p| |p|]; cbn [env_step] in Hs.
  - destruct (closed s p) eqn:Ec; [discriminate|]. inversion Hs; subst s'; unfold Reg1, AllIn; proj.
    assert (Hnp : forall q, In q (prios s) -> N.eqb q p = false).
    { intros q Hq. destruct (N.eqb_spec q p) as [->|]; [|reflexivity]. destruct (Ha p Hq) as [Hc _]. congruence. }
    split; [split; [|exact Hns]|].
    + intros q Hq. unfold upd. rewrite (Hnp q Hq). apply Ha; exact Hq.
    + intros q Hq. unfold upd. rewrite (Hnp q Hq). reflexivity.
  - inversion Hs; subst s'; unfold Reg1, AllIn; proj. split; [split; [|exact Hns]|auto].
    intros q Hq. destruct (Ha q Hq) as [Hc Hi]. split; [|exact Hi]. unfold upd. destruct (N.eqb q p); auto.
  - destruct (outq s) as [|px q]; [discriminate|]. inversion Hs; subst s'; unfold Reg1, AllIn; proj. auto.
  - destruct (remove1 p (held s)) as [h|]; [|discriminate]. inversion Hs; subst s'; unfold Reg1, AllIn; proj. auto.
  - destruct (pcs s) eqn:Epc; try (inversion Hs; subst s'; split; [split; [exact Ha|rewrite Epc; exact Hns]|auto]).
    + destruct (negb (get (tactic s) p =? 0) && negb (buffered s p) && negb (closed s p) && match inq s p with [] => true | _ => false end);
        inversion Hs; subst s'; unfold Reg1, AllIn; proj; (split; [split; [exact Ha|]|auto]).
      * destruct intr; nosend.
      * rewrite Epc; exact Hns.
    + inversion Hs; subst s'. split; [split; [exact Ha|nosend]|auto].
Qed.

Lemma reg1_step dv s l s' : Inv2 s -> Reg1 s -> is_step dv s l s' ->
  Reg1 s' /\ delivered s' = delivered s /\ (forall p, In p (prios s) -> written s' p = written s p) /\
  (length (outq s') <= length (outq s))%nat /\ (l = LEnv Take -> (length (outq s') < length (outq s))%nat) /\
  (outq s = [] -> (length (held s') <= length (held s))%nat /\
                  forall p, l = LEnv (Release p) -> (length (held s') < length (held s))%nat).
Proof.
  intros Hi2 HR Hs. destruct l as [|o|]; cbn [is_step] in Hs.
  - destruct (reg1_sched dv s s' Hi2 HR Hs) as (HR' & Ed & Ew & Eo & Eh). rewrite Ed, Ew, Eo, Eh.
    split; [exact HR'|]. split; [reflexivity|]. split; [reflexivity|]. split; [lia|]. split; [discriminate|].
    intros _. split; [lia|]. intros p Hp; discriminate.
  - destruct (reg1_env s o s' HR Hs) as [HR' Hw]. destruct (env_step_chan s o s' Hs) as [Hc Ed].
    split; [exact HR'|]. split; [exact Ed|]. split; [exact Hw|].
    destruct o as [p x|p| |p|]; cbn [env_chan] in Hc.
    + destruct Hc as (Eo & Eh & _). rewrite Eo, Eh. split; [lia|]. split; [discriminate|]. intros _. split; [lia|]. intros q Hq; discriminate.
    + destruct Hc as (Eo & Eh & _). rewrite Eo, Eh. split; [lia|]. split; [discriminate|]. intros _. split; [lia|]. intros q Hq; discriminate.
    + destruct Hc as (px & Eo & Eh & _). rewrite Eo. cbn [length]. split; [lia|]. split; [intros _; lia|]. intros E; discriminate.
    + destruct Hc as (h & Er & Eh & _ & Eo). rewrite Eo. split; [lia|]. split; [discriminate|]. intros _.
      destruct (remove1_spec _ _ _ Er) as [Hl _]. rewrite Eh, Hl. split; [lia|]. intros q Hq. lia.
    + destruct Hc as (Eo & Eh & _). rewrite Eo, Eh. split; [lia|]. split; [discriminate|]. intros _. split; [lia|]. intros q Hq; discriminate.
  - subst s'. split; [exact HR|]. split; [reflexivity|]. split; [reflexivity|]. split; [lia|]. split; [discriminate|].
    intros _. split; [lia|]. intros p Hp; discriminate.
Qed.

Lemma length_le0_nil {A} (l l' : list A) : (length l' <= length l)%nat -> l = [] -> l' = [].
Proof. intros Hle ->. destruct l'; [reflexivity|cbn [length] in Hle; lia]. Qed.

Lemma reg3_step dv s l s' : Inv2 s -> Reg3 s -> is_step dv s l s' -> Reg3 s'.
Proof.
  intros Hi2 (HR & Ho & Hh) Hs. destruct (reg1_step dv s l s' Hi2 HR Hs) as (HR' & _ & _ & Hlo & _ & Hlh).
  destruct (Hlh Ho) as [Hlh' _]. split; [exact HR'|]. split; [eapply length_le0_nil; eauto|eapply length_le0_nil; eauto].
Qed.

(* in Reg1 everything written to a configured input has been delivered *)
Lemma reg1_delivered s : Inv2 s -> Reg1 s -> forall p, In p (prios s) -> of_prio p (delivered s) = written s p.
Proof.
  intros Hi2 [Ha Hns] p Hp. pose proof (j_split s Hi2 p) as Hsp. rewrite (limbo_not_send s p Hns) in Hsp.
  destruct (Ha p Hp) as [_ Hi]. rewrite Hi in Hsp. cbn [app] in Hsp. rewrite app_nil_r in Hsp. exact Hsp.
Qed.

(* closed inputs stay closed, and nothing more is written to them *)
Lemma step_closed dv s l s' q : is_step dv s l s' -> closed s q = true ->
  closed s' q = true /\ written s' q = written s q.
Proof.
  intros Hs Hc. destruct l as [|o|]; cbn [is_step] in Hs.
  - assert (E : closed s' = closed s /\ written s' = written s).
    { unfold sched_step, step_calc, calc_base, step_recalc in Hs.
      destruct_matches Hs; try discriminate; inversion Hs; subst s'; split; reflexivity. }
    destruct E as [E1 E2]. rewrite E1, E2. auto.
  - destruct o as [p x|p| |p|]; cbn [env_step] in Hs.
    + destruct (closed s p) eqn:Ec; [discriminate|]. inversion Hs; subst s'; proj. split; [exact Hc|].
      unfold upd. destruct (N.eqb_spec q p) as [->|]; [congruence|reflexivity].
    + inversion Hs; subst s'; proj. split; [|reflexivity]. unfold upd. destruct (N.eqb q p); auto.
    + destruct (outq s); [discriminate|]. inversion Hs; subst s'; proj. auto.
    + destruct (remove1 p (held s)); [|discriminate]. inversion Hs; subst s'; proj. auto.
    + destruct_matches Hs; inversion Hs; subst s'; proj; auto.
  - subst s'. auto.
Qed.

(* a property that eventually holds for ever for each element of a list eventually holds for ever for all of them *)
Lemma ev_always_list (Q : N -> nat -> Prop) (ps : list N) :
  (forall p, In p ps -> exists i, forall j, (i <= j)%nat -> Q p j) ->
  exists i, forall p, In p ps -> forall j, (i <= j)%nat -> Q p j.
Proof.
  induction ps as [|a r IH]; intros Hq.
  - exists 0%nat. intros p [].
  - destruct IH as [i1 H1]; [intros p Hp; apply Hq; right; exact Hp|].
    destruct (Hq a (or_introl eq_refl)) as [i2 H2].
    exists (Nat.max i1 i2). intros p [<-|Hp] j Hj; [apply H2; lia|apply H1; [exact Hp|lia]].
Qed.

(* ================= 2. an execution whose inputs are all eventually closed ================= *)
Section Term.
Variable dv : nat -> Divider.
Hypothesis dv_wf : forall k ps n d, NoDup (keys d) -> NoDup (keys (dv k ps n d)).
Hypothesis sumrule : forall k ps n d, NoDup (keys d) -> sum (dv k ps n d) = sum d + n \/ sum (dv k ps n d) = sum d.
Variable s0 : st.
Variable tr : nat -> st.
Variable lb : nat -> label.
Hypothesis HI : InitL s0.
Hypothesis HH : H s0 < two64.
Hypothesis Hex : execution dv s0 tr lb.
Hypothesis Fsched : F_sched dv tr lb.
Hypothesis Ftake : F_take tr lb.
Hypothesis Frel : F_rel tr lb.
Hypothesis Ftick : F_tick_w tr lb.
Hypothesis Hfl : (1 <= fblimit s0)%nat.

Let Tstep := tr_step dv s0 tr lb Hex.
Let Tinv := tr_inv dv dv_wf s0 tr lb HI Hex.
Let Tinv2 := tr_inv2 dv s0 tr lb HI Hex.
Let Tprios := tr_prios dv s0 tr lb Hex.
Let Treach := tr_reach dv s0 tr lb Hex.

Lemma closed_from k j q : (k <= j)%nat -> closed (tr k) q = true ->
  closed (tr j) q = true /\ written (tr j) q = written (tr k) q.
Proof.
  intros Hle Hc. apply (along (fun i => closed (tr i) q = true /\ written (tr i) q = written (tr k) q) k j Hle); [|auto].
  intros m _ [H1 H2]. destruct (step_closed dv _ _ _ q (Tstep m) H1) as [H3 H4]. split; [exact H3|congruence].
Qed.

Lemma reg1_from k j : (k <= j)%nat -> Reg1 (tr k) ->
  Reg1 (tr j) /\ delivered (tr j) = delivered (tr k) /\ (forall p, In p (prios s0) -> written (tr j) p = written (tr k) p) /\
  (length (outq (tr j)) <= length (outq (tr k)))%nat.
Proof.
  intros Hle HR.
  apply (along (fun i => Reg1 (tr i) /\ delivered (tr i) = delivered (tr k) /\
                         (forall p, In p (prios s0) -> written (tr i) p = written (tr k) p) /\
                         (length (outq (tr i)) <= length (outq (tr k)))%nat) k j Hle).
  - intros m _ (H1 & H2 & H3 & H4). destruct (reg1_step dv _ _ _ (Tinv2 m) H1 (Tstep m)) as (G1 & G2 & G3 & G4 & _).
    split; [exact G1|]. split; [congruence|]. split; [|lia].
    intros p Hp. rewrite G3; [apply H3; exact Hp|rewrite Tprios; exact Hp].
  - split; [exact HR|]. split; [reflexivity|]. split; [reflexivity|lia].
Qed.

Lemma reg3_from k j : (k <= j)%nat -> Reg3 (tr k) -> Reg3 (tr j).
Proof.
  intros Hle HR. apply (along (fun i => Reg3 (tr i)) k j Hle); [|exact HR].
  intros m _ Hm. apply (reg3_step dv _ _ _ (Tinv2 m) Hm (Tstep m)).
Qed.

(* --- every configured input eventually closed: from some index on all of them are closed *)
Hypothesis Hclose : forall p, In p (prios s0) -> exists i, closed (tr i) p = true.

Lemma all_closed : exists i, forall p, In p (prios s0) -> forall j, (i <= j)%nat -> closed (tr j) p = true.
Proof.
  apply (ev_always_list (fun p j => closed (tr j) p = true)). intros p Hp. destruct (Hclose p Hp) as [i Hi].
  exists i. intros j Hj. apply (closed_from i j p Hj Hi).
Qed.

(* --- everything written to a closed input is eventually delivered: the input is empty and stays so *)
Definition Dlv (p : N) (j : nat) : Prop :=
  closed (tr j) p = true /\ (length (written (tr j) p) <= cntd p (tr j))%nat.

Lemma dlv_from p k j : (k <= j)%nat -> Dlv p k -> Dlv p j.
Proof.
  intros Hle [Hc Hl]. destruct (closed_from k j p Hle Hc) as [Hc' Hw]. split; [exact Hc'|]. rewrite Hw.
  pose proof (cntd_mono dv s0 tr lb HH Hex Hfl p k j Hle). lia.
Qed.

Lemma closed_delivered p i : In p (prios s0) -> closed (tr i) p = true -> exists j, (i <= j)%nat /\ Dlv p j.
Proof.
  intros Hp Hc. destruct (written (tr i) p) as [|x w] eqn:Ew.
  - exists i. split; [lia|]. split; [exact Hc|]. rewrite Ew. cbn [length]. lia.
  - destruct (count_reaches dv dv_wf sumrule s0 tr lb HI HH Hex Fsched Ftake Frel Ftick Hfl p Hp
                (S (length w) - cntd p (tr i))%nat (length w) i) as (j & Hj & Hn).
    + rewrite Ew. cbn [length]. lia.
    + reflexivity.
    + exists j. split; [exact Hj|]. destruct (closed_from i j p Hj Hc) as [Hc' Hw]. split; [exact Hc'|].
      rewrite Hw, Ew. cbn [length]. lia.
Qed.

Lemma dlv_reg1 j : (forall p, In p (prios s0) -> Dlv p j) -> Reg1 (tr j).
Proof.
  intros Hd.
  assert (Hall : forall p, In p (prios s0) -> closed (tr j) p = true /\ inq (tr j) p = [] /\ limbo (tr j) p = []).
  { intros p Hp. destruct (Hd p Hp) as [Hc Hl]. pose proof (j_split _ (Tinv2 j) p) as Hsp.
    apply (f_equal (@length N)) in Hsp. rewrite !app_length in Hsp. unfold cntd in Hl.
    split; [exact Hc|]. split; [destruct (inq (tr j) p); [reflexivity|cbn [length] in Hsp; lia]|].
    destruct (limbo (tr j) p); [reflexivity|cbn [length] in Hsp; lia]. }
  split.
  - intros p Hp. rewrite Tprios in Hp. destruct (Hall p Hp) as (H1 & H2 & _). auto.
  - intros ph p x r pr Epc. pose proof (j_rest _ (Tinv2 j)) as Hr. rewrite Epc in Hr. cbn [pc_rest_ok] in Hr.
    destruct Hr as [Hp _]. rewrite Tprios in Hp. destruct (Hall p Hp) as (_ & _ & Hl).
    unfold limbo in Hl. rewrite Epc, N.eqb_refl in Hl. discriminate.
Qed.

Lemma eventually_reg1 : exists i, Reg1 (tr i).
Proof.
  destruct all_closed as [i0 Hc].
  destruct (ev_always_list Dlv (prios s0)) as [i1 Hd].
  - intros p Hp. destruct (closed_delivered p i0 Hp (Hc p Hp i0 (le_n _))) as (j & _ & Hj).
    exists j. intros j' Hj'. apply (dlv_from p j j' Hj' Hj).
  - exists i1. apply dlv_reg1. intros p Hp. apply (Hd p Hp i1 (le_n _)).
Qed.

(* --- the output is emptied (F_take) *)
Lemma flush_outq : forall n k, length (outq (tr k)) = n -> Reg1 (tr k) -> exists j, (k <= j)%nat /\ Reg1 (tr j) /\ outq (tr j) = [].
Proof.
  induction n as [n IH] using lt_wf_ind. intros k Hn HR.
  destruct (outq (tr k)) as [|px q] eqn:Eo; [exists k; split; [lia|]; split; [exact HR|exact Eo]|].
  destruct (Ftake k) as (j & Hj & Hl); [rewrite Eo; discriminate|].
  destruct (reg1_from k j Hj HR) as (HRj & _ & _ & Hlen). rewrite Eo in Hlen.
  destruct (reg1_step dv _ _ _ (Tinv2 j) HRj (Tstep j)) as (HR' & _ & _ & _ & Hlt & _). specialize (Hlt Hl).
  destruct (IH (length (outq (tr (S j))))) with (k := S j) as (j' & Hj' & HR'' & Ho); [lia|reflexivity|exact HR'|].
  exists j'. split; [lia|]. split; assumption.
Qed.

(* --- the handlers release what they hold (F_rel) *)
Definition Reg2 (s : st) : Prop := Reg1 s /\ outq s = [].
Lemma reg2_from k j : (k <= j)%nat -> Reg2 (tr k) -> Reg2 (tr j) /\ (length (held (tr j)) <= length (held (tr k)))%nat.
Proof.
  intros Hle HR.
  apply (along (fun i => Reg2 (tr i) /\ (length (held (tr i)) <= length (held (tr k)))%nat) k j Hle); [|split; [exact HR|lia]].
  intros m _ [[H1 H2] H3]. destruct (reg1_step dv _ _ _ (Tinv2 m) H1 (Tstep m)) as (G1 & _ & _ & G4 & _ & G6).
  destruct (G6 H2) as [G7 _]. split; [split; [exact G1|eapply length_le0_nil; eauto]|lia].
Qed.

Lemma flush_held : forall n k, length (held (tr k)) = n -> Reg2 (tr k) -> exists j, (k <= j)%nat /\ Reg3 (tr j).
Proof.
  induction n as [n IH] using lt_wf_ind. intros k Hn HR.
  destruct (held (tr k)) as [|[p x] h] eqn:Eh.
  { exists k. split; [lia|]. destruct HR as [H1 H2]. split; [exact H1|]. split; [exact H2|exact Eh]. }
  destruct (Frel k p x) as (j & Hj & Hl); [rewrite Eh; left; reflexivity|].
  destruct (reg2_from k j Hj HR) as ([HRj Hoj] & Hlen). rewrite Eh in Hlen.
  destruct (reg1_step dv _ _ _ (Tinv2 j) HRj (Tstep j)) as (HR' & _ & _ & Hlo & _ & Hlh).
  destruct (Hlh Hoj) as [_ Hlt]. specialize (Hlt p Hl).
  destruct (IH (length (held (tr (S j))))) with (k := S j) as (j' & Hj' & HR''); [lia|reflexivity| |].
  - split; [exact HR'|eapply length_le0_nil; eauto].
  - exists j'. split; [lia|exact HR''].
Qed.

Lemma eventually_reg3 : exists i, Reg3 (tr i).
Proof.
  destruct eventually_reg1 as [i HR]. destruct (flush_outq _ i eq_refl HR) as (j & _ & HRj & Ho).
  destruct (flush_held _ j eq_refl (conj HRj Ho)) as (j' & _ & HR3). exists j'. exact HR3.
Qed.

(* ================= 3. from Reg3 to Done: the regime DReg of Prio2L (part D) along the execution ================= *)
Let Tshares := tr_shares dv s0 tr lb HI Hex.
Let Tfblimit := tr_fblimit dv s0 tr lb Hex Hfl.
Let Tquiet := tr_quiet dv s0 tr lb Hex.
Notation mv := (moves tr lb).

Lemma reg3_quiet_dreg s : Reg3 s -> (1 <= fblimit s)%nat -> Quiet s /\ not_send (pcs s).
Proof. intros ([Ha Hns] & Ho & Hh) Hf. split; [|exact Hns]. split; [exact Ha|]. auto. Qed.

Lemma dreg_reg3 F0 g s : DReg F0 g s -> Reg3 s.
Proof. intros HR. split; [split; [exact (d_closed _ _ _ HR)|exact (d_ns _ _ _ HR)]|]. split; [exact (d_out _ _ _ HR)|exact (d_held _ _ _ HR)]. Qed.

(* a quiet step in Reg3 changes nothing the scheduler looks at, and not the feedback channel *)
Lemma reg3_quiet_step m : Reg3 (tr m) -> ~ mv m ->
  Reg3 (tr (S m)) /\ pcs (tr (S m)) = pcs (tr m) /\ fbq (tr (S m)) = fbq (tr m) /\ tactic (tr (S m)) = tactic (tr m) /\
  drained (tr (S m)) = drained (tr m) /\ actual (tr (S m)) = actual (tr m).
Proof.
  intros HR Hnm. pose proof (Tquiet m Hnm) as Hq. split; [apply (reg3_step dv _ _ _ (Tinv2 m) HR (Tstep m))|].
  split; [exact (q_pc _ _ Hq)|]. split; [|split; [exact (q_tactic _ _ Hq)|split; [exact (q_drained _ _ Hq)|exact (q_actual _ _ Hq)]]].
  destruct HR as (_ & Ho & Hh).
  destruct (quiet_chan dv _ _ _ (Tstep m) Hnm) as [(_ & px & q & Eo & _)|[(p & h & _ & Er & _)|(_ & _ & Ef & _)]].
  - rewrite Ho in Eo. discriminate.
  - rewrite Hh in Er. discriminate.
  - exact Ef.
Qed.

Lemma reg3_quiet_stretch k j : (k <= j)%nat -> (forall m, (k <= m < j)%nat -> ~ mv m) -> Reg3 (tr k) ->
  Reg3 (tr j) /\ pcs (tr j) = pcs (tr k) /\ fbq (tr j) = fbq (tr k).
Proof.
  intros Hle Hmin HR.
  apply (along (fun i => Reg3 (tr i) /\ pcs (tr i) = pcs (tr k) /\ fbq (tr i) = fbq (tr k)) k j Hle); [|auto].
  intros m Hm (H1 & H2 & H3). destruct (reg3_quiet_step m H1 (Hmin m Hm)) as (G1 & G2 & G3 & _).
  split; [exact G1|]. split; congruence.
Qed.

Lemma dreg_quiet_step F0 g m : DReg F0 g (tr m) -> ~ mv m ->
  DReg F0 g (tr (S m)) /\ dpos (tr (S m)) = dpos (tr m) /\ pcs (tr (S m)) = pcs (tr m).
Proof.
  intros HD Hnm. destruct (reg3_quiet_step m (dreg_reg3 _ _ _ HD) Hnm) as (HR' & Epc & Ef & Et & Edr & _).
  pose proof (Tquiet m Hnm) as Hq. destruct (q_static _ _ Hq) as (_ & Epr & _ & _ & Efl & _).
  destruct (reg3_quiet_dreg _ HR' (Tfblimit (S m))) as [HQ Hns].
  split; [|split; [unfold dpos; rewrite Epr, Efl, Ef, Epc; reflexivity|exact Epc]].
  apply (mk_dreg dv dv_wf s0 (tr (S m)) F0 g HI (Treach (S m)) HQ Hns (d_F0 _ _ _ HD)).
  - pose proof (d_strict _ _ _ HD) as Hst. unfold strict_ok, pre_pop in *. rewrite Ef, Epc, Efl. exact Hst.
  - intros Eg. pose proof (d_good _ _ _ HD Eg) as HG. unfold GPhase, Prio2L.ahead, alldr in *. rewrite Epc, Epr, Edr, Et. exact HG.
Qed.

(* a move of the execution is a step of Prio2L's auto_step *)
Lemma move_auto s l s' : is_step dv s l s' -> is_move s l -> auto_step dv s = Some s'.
Proof.
  intros Hs [->|[-> Ht]]; cbn [is_step] in Hs.
  - unfold auto_step. rewrite Hs. reflexivity.
  - destruct (tick_move_step _ _ Hs Ht) as [[Epc _]|(ph & p & r & proc & intr & Epc & Hb & _)].
    + unfold auto_step, sched_step. rewrite Epc. exact Hs.
    + unfold read_blocked in Hb. apply andb_prop in Hb. destruct Hb as [Hb H4]. apply andb_prop in Hb. destruct Hb as [Hb H3].
      apply andb_prop in Hb. destruct Hb as [H1 H2]. apply negb_true_iff in H1, H2, H3.
      unfold auto_step, sched_step. rewrite Epc, H1, H2, H3. destruct (inq s p); [exact Hs|discriminate].
Qed.

Lemma dreg_move_step F0 g m : DReg F0 g (tr m) -> mv m -> ~ is_target (tr m) ->
  DReg F0 g (tr (S m)) /\ (dpos (tr (S m)) < dpos (tr m))%nat.
Proof.
  intros HD Hmv Hnt. destruct (dreg_progress dv dv_wf F0 g (tr m) HD Hnt) as (s' & Ha & HD' & Hlt).
  rewrite (move_auto _ _ _ (Tstep m) Hmv) in Ha. inversion Ha; subst s'. auto.
Qed.

Lemma T_next_move k : (forall e, pcs (tr k) <> Done e) ->
  exists j, (k <= j)%nat /\ mv j /\ forall m, (k <= m < j)%nat -> ~ mv m.
Proof. apply (next_move dv dv_wf s0 tr lb HI HH Hex Fsched Ftake Frel Ftick). Qed.

Lemma dreg_reach_tr F0 g k : DReg F0 g (tr k) -> exists j, (k <= j)%nat /\ DReg F0 g (tr j) /\ is_target (tr j).
Proof.
  intros HD.
  apply (ranked (fun m => DReg F0 g (tr m)) (fun m => dpos (tr m)) (fun m => DReg F0 g (tr m) /\ is_target (tr m)))
    with (n := dpos (tr k)); [|lia|exact HD].
  clear k HD. intros k HD. destruct (is_target_dec (tr k)) as [Ht|Hnt]; [exists k; split; [lia|left; auto]|].
  destruct (T_next_move k) as (j & Hj & Hm & Hmin).
  { intros e E. apply Hnt. unfold is_target. rewrite E. exact I. }
  assert (Hj' : DReg F0 g (tr j) /\ dpos (tr j) = dpos (tr k) /\ pcs (tr j) = pcs (tr k)).
  { apply (along (fun i => DReg F0 g (tr i) /\ dpos (tr i) = dpos (tr k) /\ pcs (tr i) = pcs (tr k)) k j Hj); [|auto].
    intros m Hm' (H1 & H2 & H3). destruct (dreg_quiet_step F0 g m H1 (Hmin m Hm')) as (G1 & G2 & G3).
    split; [exact G1|]. split; congruence. }
  destruct Hj' as (HDj & Edp & Epc).
  destruct (dreg_move_step F0 g j HDj Hm) as [HD' Hlt]; [unfold is_target in *; rewrite Epc; exact Hnt|].
  exists (S j). split; [lia|right]. split; [exact HD'|lia].
Qed.

(* from the top of the loop: induction on the number of pending releases; with none left the round is the final one *)
Lemma from_calc_tr : forall F k, (length (fbq (tr k)) <= F)%nat -> Reg3 (tr k) -> pcs (tr k) = Calc ->
  exists j e, (k <= j)%nat /\ pcs (tr j) = Done e.
Proof.
  induction F as [|F IH]; intros k HF HR Epc.
  - (* nothing outstanding: the final round *)
    destruct (T_next_move k) as (j & Hj & Hm & Hmin); [intros e E; congruence|].
    destruct (reg3_quiet_stretch k j Hj Hmin HR) as (HRj & Epj & Efj). rewrite Epc in Epj.
    assert (Ef : fbq (tr j) = []). { rewrite Efj. destruct (fbq (tr k)); [reflexivity|cbn [length] in HF; lia]. }
    destruct HRj as (HR1j & Hoj & Hhj).
    assert (Hz : sum (actual (tr j)) = 0).
    { pose proof (i_sum _ (Tinv j)) as Hs. unfold inflight in Hs. rewrite Hoj, Hhj, Ef in Hs. cbn [length N.of_nat] in Hs. lia. }
    destruct (calc_idle_start dv (tr j) (Tinv j) (Tshares j) Epj Hz) as (t & E1 & Hg & _).
    pose proof (Tstep j) as Hs.
    destruct Hm as [El|[El Ht]]; [|unfold tick_moves in Ht; rewrite Epj in Ht; discriminate].
    rewrite El in Hs. cbn [is_step] in Hs. rewrite E1 in Hs. inversion Hs as [Hs'].
    assert (HR' : Reg3 (tr (S j))).
    { apply (reg3_step dv (tr j) (lb j) _ (Tinv2 j)); [split; [exact HR1j|auto]|apply Tstep]. }
    destruct (reg3_quiet_dreg _ HR' (Tfblimit (S j))) as [HQ Hns].
    assert (HD : DReg 1 true (tr (S j))).
    { apply (mk_dreg dv dv_wf s0 (tr (S j)) 1%nat true HI (Treach (S j)) HQ Hns (le_n _)).
      - left. rewrite <- Hs'. proj. rewrite Ef. cbn [length]. lia.
      - intros _. rewrite <- Hs'. unfold GPhase, Prio2L.ahead; proj. split; [reflexivity|]. intros p Hp. right. split; [exact Hp|].
        rewrite (Hg p Hp). apply (sh_pos _ (Tshares j) p Hp). }
    destruct (dreg_reach_tr 1 true (S j) HD) as (j' & Hj' & HD' & HT).
    pose proof (d_good _ _ _ HD' eq_refl) as HG. unfold is_target in HT. unfold GPhase in HG.
    destruct (pcs (tr j')) eqn:Epc'; try contradiction. exists j', e. split; [lia|exact Epc'].
  - destruct (le_lt_dec (length (fbq (tr k))) F) as [Hle|Hgt]; [apply (IH k Hle HR Epc)|].
    (* something outstanding: one cycle consumes a release *)
    destruct (T_next_move k) as (j & Hj & Hm & Hmin); [intros e E; congruence|].
    destruct (reg3_quiet_stretch k j Hj Hmin HR) as (HRj & Epj & Efj). rewrite Epc in Epj.
    pose proof (Tstep j) as Hs.
    destruct Hm as [El|[El Ht]]; [|unfold tick_moves in Ht; rewrite Epj in Ht; discriminate].
    rewrite El in Hs. cbn [is_step] in Hs. unfold sched_step in Hs. rewrite Epj in Hs. inversion Hs as [Hs'].
    destruct (step_calc_chan dv (tr j)) as (_ & _ & Ef1 & _). rewrite Hs' in Ef1.
    destruct (step_calc_shape dv (tr j)) as [_ Hpc1]. rewrite Hs' in Hpc1. unfold calc_pc in Hpc1.
    assert (HR' : Reg3 (tr (S j))) by (apply (reg3_step dv (tr j) (lb j) _ (Tinv2 j) HRj (Tstep j))).
    destruct (reg3_quiet_dreg _ HR' (Tfblimit (S j))) as [HQ Hns].
    assert (HD : DReg (S F) false (tr (S j))).
    { apply (mk_dreg dv dv_wf s0 (tr (S j)) (S F) false HI (Treach (S j)) HQ Hns); [lia| |discriminate].
      right. rewrite Ef1, Efj. split; [lia|]. unfold pre_pop. destruct Hpc1 as [E|[E|[e E]]]; rewrite E; exact I. }
    destruct (dreg_reach_tr (S F) false (S j) HD) as (j' & Hj' & HD' & HT).
    unfold is_target in HT. destruct (pcs (tr j')) eqn:Epc'; try contradiction.
    + assert (Hlt : (length (fbq (tr j')) < S F)%nat).
      { destruct (d_strict _ _ _ HD') as [Hl|[_ Hpp]]; [exact Hl|]. unfold pre_pop in Hpp. rewrite Epc' in Hpp. contradiction. }
      destruct (IH j' ltac:(lia) (dreg_reg3 _ _ _ HD') Epc') as (j2 & e & Hj2 & Hd). exists j2, e. split; [lia|exact Hd].
    + exists j', e. split; [lia|exact Epc'].
Qed.

Lemma reg3_done k : Reg3 (tr k) -> exists j e, (k <= j)%nat /\ pcs (tr j) = Done e.
Proof.
  intros HR. destruct (reg3_quiet_dreg _ HR (Tfblimit k)) as [HQ Hns].
  assert (HD : DReg (S (length (fbq (tr k)))) false (tr k)).
  { apply (mk_dreg dv dv_wf s0 (tr k) _ false HI (Treach k) HQ Hns); [lia|left; lia|discriminate]. }
  destruct (dreg_reach_tr _ false k HD) as (j & Hj & HD' & HT).
  unfold is_target in HT. destruct (pcs (tr j)) eqn:Epc; try contradiction.
  - destruct (from_calc_tr (length (fbq (tr j))) j (le_n _) (dreg_reg3 _ _ _ HD') Epc) as (j2 & e & Hj2 & Hd).
    exists j2, e. split; [lia|exact Hd].
  - exists j, e. split; [lia|exact Epc].
Qed.

Theorem eventually_done_sec : exists j, pcs (tr j) = Done None.
Proof.
  destruct eventually_reg3 as [i HR]. destruct (reg3_done i HR) as (j & e & _ & Hd). exists j.
  destruct e as [e|]; [|exact Hd]. exfalso.
  destruct (tr_noerr dv dv_wf sumrule s0 tr lb HI HH Hex j e) as [_ Hx]. apply Hx. exact Hd.
Qed.

(* ================= 4. Done is stable; the full statement ================= *)
Lemma done_step s l s' e : pcs s = Done e -> is_step dv s l s' -> pcs s' = Done e /\ delivered s' = delivered s.
Proof.
  intros Epc Hs. destruct l as [|o|]; cbn [is_step] in Hs.
  - unfold sched_step in Hs. rewrite Epc in Hs. discriminate.
  - destruct (env_step_fault s o s' e (or_intror Epc) Hs) as [_ Ed]. split; [|exact Ed].
    destruct o as [p x|p| |p|]; cbn [env_step] in Hs.
    + destruct (closed s p); [discriminate|]. inversion Hs; subst s'; exact Epc.
    + inversion Hs; subst s'; exact Epc.
    + destruct (outq s); [discriminate|]. inversion Hs; subst s'; exact Epc.
    + destruct (remove1 p (held s)); [|discriminate]. inversion Hs; subst s'; exact Epc.
    + rewrite Epc in Hs. inversion Hs; subst s'; exact Epc.
  - subst s'. auto.
Qed.

(* once Done, every later state is Done with the same error value and the same ghost `delivered` *)
Theorem done_stable_sec j k e : (j <= k)%nat -> pcs (tr j) = Done e -> pcs (tr k) = Done e /\ delivered (tr k) = delivered (tr j).
Proof.
  intros Hle Hd. apply (along (fun i => pcs (tr i) = Done e /\ delivered (tr i) = delivered (tr j)) j k Hle); [|auto].
  intros m _ [H1 H2]. destruct (done_step _ _ _ e H1 (Tstep m)) as [G1 G2]. split; [exact G1|congruence].
Qed.

(* what holds in a state that is Done without error *)
Definition Finished (s : st) : Prop :=
  pcs s = Done None /\ (forall p, In p (prios s) -> of_prio p (delivered s) = written s p) /\
  outq s = [] /\ held s = [] /\ fbq s = [] /\ sum (actual s) = 0 /\
  (forall p, In p (prios s) -> closed s p = true /\ inq s p = [] /\ drained s p = true).

Lemma done_finished j : pcs (tr j) = Done None -> Finished (tr j).
Proof.
  intros Hd.
  destruct (prio2_done_only_when dv dv_wf s0 (tr j) None (il_init s0 HI) (Treach j) Hd) as (Hz & Ho & Hh & Hf & Hc).
  split; [exact Hd|]. split; [apply (prio2_exactly_once dv s0 (tr j) (il_init s0 HI) (Treach j) Hd)|].
  split; [exact Ho|]. split; [exact Hh|]. split; [exact Hf|]. split; [exact Hz|].
  intros p Hp. destruct (Hc eq_refl p Hp) as [H1 H2]. split; [exact H1|]. split; [exact H2|].
  apply (j_alldrained _ (Tinv2 j) (or_intror Hd) p Hp).
Qed.

(* ... and nothing changes any more: `written` of the configured inputs is final as well *)
Lemma finished_stable j k : (j <= k)%nat -> pcs (tr j) = Done None ->
  Finished (tr k) /\ delivered (tr k) = delivered (tr j) /\ forall p, In p (prios s0) -> written (tr k) p = written (tr j) p.
Proof.
  intros Hle Hd. destruct (done_stable_sec j k None Hle Hd) as [Hk Ed]. split; [apply done_finished; exact Hk|]. split; [exact Ed|].
  intros p Hp. destruct (done_finished j Hd) as (_ & _ & _ & _ & _ & _ & Hc). rewrite <- (Tprios j) in Hp.
  destruct (Hc p Hp) as (Hcl & _). apply (closed_from j k p Hle Hcl).
Qed.

(* termination is for ever *)
Theorem eventually_finished_sec : exists j, forall k, (j <= k)%nat -> Finished (tr k) /\ delivered (tr k) = delivered (tr j).
Proof.
  destruct eventually_done_sec as [j Hd]. exists j. intros k Hk. destruct (finished_stable j k Hk Hd) as (H1 & H2 & _). auto.
Qed.

(* --- the layers on the way, as "from some index on" statements *)
Theorem eventually_all_delivered_sec : exists i, forall j, (i <= j)%nat ->
  (forall p, In p (prios s0) -> closed (tr j) p = true /\ inq (tr j) p = [] /\ of_prio p (delivered (tr j)) = written (tr j) p /\
                               written (tr j) p = written (tr i) p) /\
  delivered (tr j) = delivered (tr i) /\ (forall ph p x r pr, pcs (tr j) <> Send ph p x r pr).
Proof.
  destruct eventually_reg1 as [i HR]. exists i. intros j Hj. destruct (reg1_from i j Hj HR) as (HRj & Ed & Ew & _).
  split; [|split; [exact Ed|exact (proj2 HRj)]]. intros p Hp.
  assert (Hp' : In p (prios (tr j))) by (rewrite Tprios; exact Hp).
  destruct (proj1 HRj p Hp') as [H1 H2]. split; [exact H1|]. split; [exact H2|]. split; [|apply Ew; exact Hp].
  apply (reg1_delivered _ (Tinv2 j) HRj p Hp').
Qed.

Theorem eventually_output_flushed_sec : exists i, forall j, (i <= j)%nat -> Reg3 (tr j).
Proof. destruct eventually_reg3 as [i HR]. exists i. intros j Hj. apply (reg3_from i j Hj HR). Qed.

(* ================= 4b. in terms of what the environment sees ================= *)
(* the items the producers put on input p / the items the handlers received, read off the labels of the first n steps *)
Fixpoint puts (p : N) (n : nat) : list N :=
  match n with O => [] | S m => puts p m ++ match lb m with LEnv (Put q x) => if N.eqb q p then [x] else [] | _ => [] end end.
Fixpoint taken (n : nat) : list (N * N) :=
  match n with O => [] | S m => taken m ++ match lb m with LEnv Take => match outq (tr m) with px :: _ => [px] | [] => [] end | _ => [] end end.

Lemma sched_push s s' : sched_step dv s = Some s' ->
  written s' = written s /\
  ((outq s' = outq s /\ delivered s' = delivered s) \/ exists px, outq s' = outq s ++ [px] /\ delivered s' = delivered s ++ [px]).
Proof.
  intros Hs. unfold sched_step, step_calc, calc_base, step_recalc in Hs.
  destruct_matches Hs; try discriminate; inversion Hs; subst s'; proj; (split; [reflexivity|]);
    first [left; split; reflexivity | right; eexists; split; reflexivity].
Qed.

Lemma written_puts n p : written (tr n) p = inq s0 p ++ puts p n.
Proof.
  induction n as [|n IH].
  - rewrite (ex_init _ _ _ _ Hex). cbn [puts]. rewrite app_nil_r. apply (in_written s0 (il_init s0 HI)).
  - pose proof (Tstep n) as Hs. cbn [puts]. destruct (lb n) as [|o|] eqn:El; cbn [is_step] in Hs.
    + destruct (sched_push _ _ Hs) as [Ew _]. rewrite Ew, app_nil_r. exact IH.
    + destruct o as [q x|q| |q|]; cbn [env_step] in Hs.
      * destruct (closed (tr n) q); [discriminate|]. inversion Hs as [Hs']. try rewrite <- Hs'. proj. unfold upd. rewrite (N.eqb_sym q p).
        destruct (N.eqb_spec p q) as [<-|_]; [rewrite IH, app_assoc; reflexivity|rewrite app_nil_r; exact IH].
      * inversion Hs as [Hs']. try rewrite <- Hs'. proj. rewrite app_nil_r; exact IH.
      * destruct (outq (tr n)); [discriminate|]. inversion Hs as [Hs']. try rewrite <- Hs'. proj. rewrite app_nil_r; exact IH.
      * destruct (remove1 q (held (tr n))); [|discriminate]. inversion Hs as [Hs']. try rewrite <- Hs'. proj. rewrite app_nil_r; exact IH.
      * rewrite app_nil_r. destruct_matches Hs; inversion Hs as [Hs']; try rewrite <- Hs'; proj; exact IH.
    + rewrite Hs, app_nil_r. exact IH.
Qed.

Lemma delivered_taken n : delivered (tr n) = taken n ++ outq (tr n).
Proof.
  induction n as [|n IH].
  - rewrite (ex_init _ _ _ _ Hex). cbn [taken]. rewrite (in_delivered s0 (il_init s0 HI)), (in_outq s0 (il_init s0 HI)). reflexivity.
  - pose proof (Tstep n) as Hs. cbn [taken]. destruct (lb n) as [|o|] eqn:El; cbn [is_step] in Hs.
    + rewrite app_nil_r. destruct (sched_push _ _ Hs) as [_ [[Eo Ed]|(px & Eo & Ed)]]; rewrite Eo, Ed, IH; [reflexivity|].
      rewrite app_assoc. reflexivity.
    + destruct (env_step_chan _ _ _ Hs) as [Hc Ed]. rewrite Ed, IH.
      destruct o as [q x|q| |q|]; cbn [env_chan] in Hc.
      * destruct Hc as (Eo & _). rewrite Eo, app_nil_r. reflexivity.
      * destruct Hc as (Eo & _). rewrite Eo, app_nil_r. reflexivity.
      * destruct Hc as (px & Eo & _). rewrite Eo, <- app_assoc. reflexivity.
      * destruct Hc as (h & _ & _ & _ & Eo). rewrite Eo, app_nil_r. reflexivity.
      * destruct Hc as (Eo & _). rewrite Eo, app_nil_r. reflexivity.
    + rewrite Hs, app_nil_r. exact IH.
Qed.

(* the output is closed without error; the handlers have received, per configured priority and in FIFO order, exactly what was in the
   input at the start followed by what the producers put; and from then on no put on a configured input and no take ever happens *)
Theorem eventually_done_visible_sec : exists j,
  (forall p, In p (prios s0) -> of_prio p (taken j) = inq s0 p ++ puts p j) /\
  forall k, (j <= k)%nat -> pcs (tr k) = Done None /\ taken k = taken j /\ (forall p, In p (prios s0) -> puts p k = puts p j) /\
                            lb k <> LEnv Take /\ (forall p x, In p (prios s0) -> lb k <> LEnv (Put p x)) /\
                            (forall p, lb k <> LEnv (Release p)) /\ lb k <> LSched.
Proof.
  destruct eventually_done_sec as [j Hd]. exists j.
  assert (Hfin : forall k, (j <= k)%nat -> Finished (tr k) /\ taken k = taken j /\ (forall p, In p (prios s0) -> puts p k = puts p j)).
  { intros k Hk. destruct (finished_stable j k Hk Hd) as (HF & Ed & Ew). split; [exact HF|].
    destruct HF as (_ & _ & Ho & _). destruct (done_finished j Hd) as (_ & _ & Hoj & _).
    split.
    - rewrite !delivered_taken, Ho, Hoj, !app_nil_r in Ed. exact Ed.
    - intros p Hp. specialize (Ew p Hp). rewrite !written_puts in Ew. apply app_inv_head in Ew. exact Ew. }
  split.
  - intros p Hp. destruct (done_finished j Hd) as (_ & He & Ho & _). rewrite <- (Tprios j) in Hp. specialize (He p Hp).
    rewrite delivered_taken, Ho, app_nil_r, written_puts in He. exact He.
  - intros k Hk. destruct (Hfin k Hk) as ((Hdk & _ & Ho & Hh & _ & _ & Hc) & Et & Ep).
    split; [exact Hdk|]. split; [exact Et|]. split; [exact Ep|].
    pose proof (Tstep k) as Hs.
    split; [|split; [|split]].
    + intros El. rewrite El in Hs. cbn [is_step env_step] in Hs. rewrite Ho in Hs. discriminate.
    + intros p x Hp El. rewrite El in Hs. cbn [is_step env_step] in Hs. rewrite <- (Tprios k) in Hp.
      destruct (Hc p Hp) as (Hcl & _). rewrite Hcl in Hs. discriminate.
    + intros p El. rewrite El in Hs. cbn [is_step env_step] in Hs. rewrite Hh in Hs. discriminate.
    + intros El. rewrite El in Hs. cbn [is_step] in Hs. unfold sched_step in Hs. rewrite Hdk in Hs. discriminate.
Qed.

End Term.
(* ================= 5. the theorems, closed ================= *)
(* --- Done is stable (no hypothesis but `execution`) *)
Theorem prio2_done_stable : forall dv s0 tr lb, execution dv s0 tr lb ->
  forall j k e, (j <= k)%nat -> pcs (tr j) = Done e -> pcs (tr k) = Done e /\ delivered (tr k) = delivered (tr j).
Proof. exact done_stable_sec. Qed.
Print Assumptions prio2_done_stable.

(* --- the general version: the clock only has to tick when the scheduler waits for it (F_tick_w) *)
Theorem prio2_eventually_done_w : forall dv s0 tr lb, dv_ok dv -> InitL s0 -> H s0 < two64 -> (1 <= fblimit s0)%nat ->
  execution dv s0 tr lb -> F_sched dv tr lb -> F_take tr lb -> F_rel tr lb -> F_tick_w tr lb ->
  (forall p, In p (prios s0) -> exists i, closed (tr i) p = true) ->
  exists j, pcs (tr j) = Done None /\
            (forall p, In p (prios s0) -> map snd (filter (fun d => N.eqb (fst d) p) (delivered (tr j))) = written (tr j) p) /\
            outq (tr j) = [] /\ held (tr j) = [] /\ fbq (tr j) = [].
Proof.
  intros dv s0 tr lb [Hwf Hsr] HI HH Hfl Hex F1 F2 F3 F4 Hcl.
  destruct (eventually_done_sec dv Hwf Hsr s0 tr lb HI HH Hex F1 F2 F3 F4 Hfl Hcl) as [j Hd]. exists j.
  destruct (done_finished dv Hwf s0 tr lb HI Hex j Hd) as (_ & He & Ho & Hh & Hf & _).
  split; [exact Hd|]. split; [|auto]. intros p Hp. apply He. rewrite (tr_prios dv s0 tr lb Hex). exact Hp.
Qed.
Print Assumptions prio2_eventually_done_w.

(* --- the statement of the task (time passes: F_tick) *)
Theorem prio2_eventually_done : forall dv s0 tr lb, dv_ok dv -> InitL s0 -> H s0 < two64 -> (1 <= fblimit s0)%nat ->
  execution dv s0 tr lb -> F_sched dv tr lb -> F_take tr lb -> F_rel tr lb -> F_tick lb ->
  (forall p, In p (prios s0) -> exists i, closed (tr i) p = true) ->           (* every configured input is eventually closed *)
  exists j, pcs (tr j) = Done None /\
            (forall p, In p (prios s0) -> map snd (filter (fun d => N.eqb (fst d) p) (delivered (tr j))) = written (tr j) p) /\
            outq (tr j) = [] /\ held (tr j) = [] /\ fbq (tr j) = [].
Proof. intros dv s0 tr lb Hd HI HH Hfl Hex F1 F2 F3 F4. eapply prio2_eventually_done_w; eauto using F_tick_weaken. Qed.
Print Assumptions prio2_eventually_done.

(* --- for the initial states of the constructor the hypothesis on the feedback limit is a fact *)
Theorem prio2_eventually_done_new : forall dv ps h sorted strat buf tr lb, ps <> [] ->
  dv_ok dv -> InitL (init_state ps h sorted strat buf) -> H (init_state ps h sorted strat buf) < two64 ->
  execution dv (init_state ps h sorted strat buf) tr lb -> F_sched dv tr lb -> F_take tr lb -> F_rel tr lb -> F_tick lb ->
  (forall p, In p (prios (init_state ps h sorted strat buf)) -> exists i, closed (tr i) p = true) ->
  exists j, pcs (tr j) = Done None /\
            (forall p, In p (prios (init_state ps h sorted strat buf)) ->
               map snd (filter (fun d => N.eqb (fst d) p) (delivered (tr j))) = written (tr j) p) /\
            outq (tr j) = [] /\ held (tr j) = [] /\ fbq (tr j) = [].
Proof.
  intros dv ps h sorted strat buf tr lb Hne Hd HI HH Hex F1 F2 F3 F4.
  apply (prio2_eventually_done dv _ tr lb Hd HI HH (init_state_fblimit ps h sorted strat buf Hne) Hex F1 F2 F3 F4).
Qed.
Print Assumptions prio2_eventually_done_new.

(* --- termination is for ever: from some index on every state is Done None with everything delivered exactly once, nothing in flight,
       every input closed, empty and marked drained, and the ghost logs are final *)
Theorem prio2_eventually_finished : forall dv s0 tr lb, dv_ok dv -> InitL s0 -> H s0 < two64 -> (1 <= fblimit s0)%nat ->
  execution dv s0 tr lb -> F_sched dv tr lb -> F_take tr lb -> F_rel tr lb -> F_tick_w tr lb ->
  (forall p, In p (prios s0) -> exists i, closed (tr i) p = true) ->
  exists j, forall k, (j <= k)%nat ->
    pcs (tr k) = Done None /\
    (forall p, In p (prios s0) -> of_prio p (delivered (tr k)) = written (tr k) p /\ written (tr k) p = written (tr j) p /\
                                  closed (tr k) p = true /\ inq (tr k) p = [] /\ drained (tr k) p = true) /\
    outq (tr k) = [] /\ held (tr k) = [] /\ fbq (tr k) = [] /\ sum (actual (tr k)) = 0 /\ delivered (tr k) = delivered (tr j).
Proof.
  intros dv s0 tr lb [Hwf Hsr] HI HH Hfl Hex F1 F2 F3 F4 Hcl.
  destruct (eventually_done_sec dv Hwf Hsr s0 tr lb HI HH Hex F1 F2 F3 F4 Hfl Hcl) as [j Hd]. exists j. intros k Hk.
  destruct (finished_stable dv Hwf s0 tr lb HI Hex j k Hk Hd) as ((Hdk & He & Ho & Hh & Hf & Hz & Hc) & Ed & Ew).
  split; [exact Hdk|]. split; [|auto 10]. intros p Hp.
  assert (Hp' : In p (prios (tr k))) by (rewrite (tr_prios dv s0 tr lb Hex); exact Hp).
  destruct (Hc p Hp') as (H1 & H2 & H3). auto 10.
Qed.
Print Assumptions prio2_eventually_finished.

(* --- the layers on the way *)
Theorem prio2_eventually_all_delivered : forall dv s0 tr lb, dv_ok dv -> InitL s0 -> H s0 < two64 -> (1 <= fblimit s0)%nat ->
  execution dv s0 tr lb -> F_sched dv tr lb -> F_take tr lb -> F_rel tr lb -> F_tick_w tr lb ->
  (forall p, In p (prios s0) -> exists i, closed (tr i) p = true) ->
  exists i, forall j, (i <= j)%nat ->
    (forall p, In p (prios s0) -> closed (tr j) p = true /\ inq (tr j) p = [] /\ of_prio p (delivered (tr j)) = written (tr j) p /\
                                  written (tr j) p = written (tr i) p) /\
    delivered (tr j) = delivered (tr i) /\ (forall ph p x r pr, pcs (tr j) <> Send ph p x r pr).
Proof.
  intros dv s0 tr lb [Hwf Hsr] HI HH Hfl Hex F1 F2 F3 F4 Hcl.
  exact (eventually_all_delivered_sec dv Hwf Hsr s0 tr lb HI HH Hex F1 F2 F3 F4 Hfl Hcl).
Qed.
Print Assumptions prio2_eventually_all_delivered.

Theorem prio2_eventually_nothing_in_flight : forall dv s0 tr lb, dv_ok dv -> InitL s0 -> H s0 < two64 -> (1 <= fblimit s0)%nat ->
  execution dv s0 tr lb -> F_sched dv tr lb -> F_take tr lb -> F_rel tr lb -> F_tick_w tr lb ->
  (forall p, In p (prios s0) -> exists i, closed (tr i) p = true) ->
  exists i, forall j, (i <= j)%nat -> outq (tr j) = [] /\ held (tr j) = [] /\ fbq (tr j) = [] /\ sum (actual (tr j)) = 0.
Proof.
  intros dv s0 tr lb Hd HI HH Hfl Hex F1 F2 F3 F4 Hcl.
  destruct (prio2_eventually_finished dv s0 tr lb Hd HI HH Hfl Hex F1 F2 F3 F4 Hcl) as [i Hi]. exists i. intros j Hj.
  destruct (Hi j Hj) as (_ & _ & H1 & H2 & H3 & H4 & _). auto.
Qed.

Print Assumptions prio2_eventually_nothing_in_flight.

Theorem prio2_eventually_all_drained : forall dv s0 tr lb, dv_ok dv -> InitL s0 -> H s0 < two64 -> (1 <= fblimit s0)%nat ->
  execution dv s0 tr lb -> F_sched dv tr lb -> F_take tr lb -> F_rel tr lb -> F_tick_w tr lb ->
  (forall p, In p (prios s0) -> exists i, closed (tr i) p = true) ->
  exists i, forall j, (i <= j)%nat -> forall p, In p (prios s0) -> drained (tr j) p = true.
Proof.
  intros dv s0 tr lb Hd HI HH Hfl Hex F1 F2 F3 F4 Hcl.
  destruct (prio2_eventually_finished dv s0 tr lb Hd HI HH Hfl Hex F1 F2 F3 F4 Hcl) as [i Hi]. exists i. intros j Hj p Hp.
  destruct (Hi j Hj) as (_ & Hc & _). apply (Hc p Hp).
Qed.
Print Assumptions prio2_eventually_all_drained.

(* --- in terms of what the environment sees: the labels (what producers put, what handlers took) and "Output closed, Err() = nil" *)
Theorem prio2_eventually_done_visible : forall dv s0 tr lb, dv_ok dv -> InitL s0 -> H s0 < two64 -> (1 <= fblimit s0)%nat ->
  execution dv s0 tr lb -> F_sched dv tr lb -> F_take tr lb -> F_rel tr lb -> F_tick_w tr lb ->
  (forall p, In p (prios s0) -> exists i, closed (tr i) p = true) ->
  exists j,
    (forall p, In p (prios s0) -> of_prio p (taken tr lb j) = inq s0 p ++ puts lb p j) /\
    forall k, (j <= k)%nat ->
      pcs (tr k) = Done None /\ taken tr lb k = taken tr lb j /\ (forall p, In p (prios s0) -> puts lb p k = puts lb p j) /\
      lb k <> LEnv Take /\ (forall p x, In p (prios s0) -> lb k <> LEnv (Put p x)) /\ (forall p, lb k <> LEnv (Release p)) /\
      lb k <> LSched.
Proof.
  intros dv s0 tr lb [Hwf Hsr] HI HH Hfl Hex F1 F2 F3 F4 Hcl.
  exact (eventually_done_visible_sec dv Hwf Hsr s0 tr lb HI HH Hex F1 F2 F3 F4 Hfl Hcl).
Qed.
Print Assumptions prio2_eventually_done_visible.

(* --- the hypothesis on the inputs is necessary as well: under fairness the discipline terminates normally IF AND ONLY IF every
       configured input is eventually closed *)
Theorem prio2_done_iff_closed : forall dv s0 tr lb, dv_ok dv -> InitL s0 -> H s0 < two64 -> (1 <= fblimit s0)%nat ->
  execution dv s0 tr lb -> F_sched dv tr lb -> F_take tr lb -> F_rel tr lb -> F_tick_w tr lb ->
  ((exists j, pcs (tr j) = Done None) <-> (forall p, In p (prios s0) -> exists i, closed (tr i) p = true)).
Proof.
  intros dv s0 tr lb Hd HI HH Hfl Hex F1 F2 F3 F4. split.
  - intros [j Hj] p Hp. exists j. destruct Hd as [Hwf _].
    destruct (done_finished dv Hwf s0 tr lb HI Hex j Hj) as (_ & _ & _ & _ & _ & _ & Hc).
    apply Hc. rewrite (tr_prios dv s0 tr lb Hex). exact Hp.
  - intros Hcl. destruct (prio2_eventually_done_w dv s0 tr lb Hd HI HH Hfl Hex F1 F2 F3 F4 Hcl) as (j & Hj & _). exists j. exact Hj.
Qed.
Print Assumptions prio2_done_iff_closed.

(* ================= 6. non-vacuity: a fair execution that closes its inputs and terminates ================= *)
(* A finite script, after which the clock ticks for ever (the discipline is Done: a tick changes nothing).  The script is checked
   step by step: at every state the obligations of fairness (scheduler enabled -> a scheduler step ahead; output non-empty -> a Take
   ahead; item held -> its Release ahead) are met inside the script, and at its end the discipline is Done. *)
Section Fin.
Variable dv : nat -> Divider.
Variable s0 : st.
Variable pre : list label.

Definition FOk (s : st) (rest : list label) : Prop :=
  (sched_step dv s = None \/ In LSched rest) /\ (outq s <> [] -> In (LEnv Take) rest) /\
  (forall p x, In (p, x) (held s) -> In (LEnv (Release p)) rest).
Fixpoint fchain (rest : list label) (s : st) : Prop :=
  FOk s rest /\ match rest with [] => exists e, pcs s = Done e | a :: r => exists s', step_opt dv a s = Some s' /\ fchain r s' end.
Lemma fchain_ok rest s : fchain rest s -> FOk s rest.
Proof. destruct rest; cbn [fchain]; tauto. Qed.
Lemma fchain_cons a r s s' : FOk s (a :: r) -> step_opt dv a s = Some s' -> fchain r s' -> fchain (a :: r) s.
Proof. intros H1 H2 H3. cbn [fchain]. split; [exact H1|]. exists s'. auto. Qed.
Lemma fchain_nil s e : FOk s [] -> pcs s = Done e -> fchain [] s.
Proof. intros H1 H2. cbn [fchain]. split; [exact H1|]. exists e. exact H2. Qed.

Hypothesis Hpre : fchain pre s0.

Definition fnxt (c : st * list label) : st * list label :=
  match snd c with [] => c | a :: r => (match step_opt dv a (fst c) with Some s' => s' | None => fst c end, r) end.
Fixpoint fconf (n : nat) : st * list label := match n with O => (s0, pre) | S m => fnxt (fconf m) end.
Definition ftr (n : nat) : st := fst (fconf n).
Definition flb (n : nat) : label := match snd (fconf n) with [] => LEnv Tick | a :: _ => a end.

Lemma fconf_chain n : fchain (snd (fconf n)) (fst (fconf n)).
Proof.
  induction n as [|n IH]; [exact Hpre|]. cbn [fconf]. unfold fnxt. destruct (snd (fconf n)) as [|a r] eqn:E; [rewrite E; exact IH|].
  cbn [fchain] in IH. destruct IH as [_ (s' & Hs & Hc)]. rewrite Hs. exact Hc.
Qed.

Lemma fin_execution : execution dv s0 ftr flb.
Proof.
  constructor; [reflexivity|]. intros i. pose proof (fconf_chain i) as Hc. unfold ftr, flb. cbn [fconf]. unfold fnxt.
  destruct (snd (fconf i)) as [|a r] eqn:E.
  - cbn [fchain] in Hc. destruct Hc as [_ [e He]]. cbn [is_step env_step]. rewrite He. reflexivity.
  - cbn [fchain] in Hc. destruct Hc as [_ (s' & Hs & _)]. rewrite Hs. apply step_opt_is_step. exact Hs.
Qed.

Lemma fahead l : forall rest n, snd (fconf n) = rest -> In l rest -> exists j, (n <= j)%nat /\ flb j = l.
Proof.
  induction rest as [|a r IH]; intros n E Hin; [destruct Hin|].
  destruct Hin as [->|Hin].
  - exists n. split; [lia|]. unfold flb. rewrite E. reflexivity.
  - destruct (IH (S n)) as (j & Hj & Hl); [cbn [fconf]; unfold fnxt; rewrite E; reflexivity|exact Hin|]. exists j. split; [lia|exact Hl].
Qed.

Lemma fend : forall rest n, snd (fconf n) = rest -> snd (fconf (n + length rest)) = [].
Proof.
  induction rest as [|a r IH]; intros n E; cbn [length].
  - rewrite Nat.add_0_r. exact E.
  - replace (n + S (length r))%nat with (S n + length r)%nat by lia. apply IH. cbn [fconf]. unfold fnxt. rewrite E. reflexivity.
Qed.

Lemma fin_F_sched : F_sched dv ftr flb.
Proof.
  intros i [s' He]. destruct (fchain_ok _ _ (fconf_chain i)) as ([Hn|Hin] & _); [unfold ftr in He; congruence|].
  apply (fahead _ _ i eq_refl Hin).
Qed.
Lemma fin_F_take : F_take ftr flb.
Proof.
  intros i Hne. assert (Hin : In (LEnv Take) (snd (fconf i))).
  { destruct (fchain_ok _ _ (fconf_chain i)) as (_ & Ht & _). apply Ht; exact Hne. }
  apply (fahead _ _ i eq_refl Hin).
Qed.
Lemma fin_F_rel : F_rel ftr flb.
Proof.
  intros i p x Hh. assert (Hin : In (LEnv (Release p)) (snd (fconf i))).
  { destruct (fchain_ok _ _ (fconf_chain i)) as (_ & _ & Hr). apply (Hr p x); exact Hh. }
  apply (fahead _ _ i eq_refl Hin).
Qed.
Lemma fin_F_tick : F_tick flb.
Proof.
  intros i. exists (i + length (snd (fconf i)))%nat. split; [lia|]. unfold flb. rewrite (fend _ i eq_refl). reflexivity.
Qed.
End Fin.

(* --- the instance: Prio2P.ex_s0 (H = 2, priorities 2 > 1, Fair divider, feedback limit 2); items are written to both inputs,
       input 2 is closed while the discipline is running, one more item is written to input 1, then input 1 is closed; a greedy
       fair environment (Prio2Live.pick) does the rest until the discipline is Done *)
Fixpoint drive_done (n : nat) (s : st) : list label :=
  match n with
  | O => []
  | S n' => match pcs s with
            | Done _ => []
            | _ => let l := pick s in l :: match step_opt fdv l s with Some s' => drive_done n' s' | None => [] end
            end
  end.
Definition term_head : list label :=
  [LEnv (Put 2 7); LEnv (Put 1 8); LSched; LSched; LSched; LEnv (Close 2); LSched; LEnv (Put 1 9); LSched; LEnv (Close 1)].
Definition term_s1 : st := Eval vm_compute in match run_l fdv term_head ex_s0 with Some s => s | None => ex_s0 end.
Definition term_pre : list label := Eval vm_compute in term_head ++ drive_done 200 term_s1.
Definition term_X : st := Eval vm_compute in match run_l fdv term_pre ex_s0 with Some s => s | None => ex_s0 end.
Example term_X_view : pcs term_X = Done None /\ delivered term_X = [(2, 7); (1, 8); (1, 9)] /\ length term_pre = 63%nat.
Proof. vm_compute. repeat split; reflexivity. Qed.


Ltac fin_in := repeat (first [left; reflexivity | right]).
Ltac fok_tac :=
  split; [ first [ left; vm_compute; reflexivity | right; solve [fin_in] ]
  | split; [ first [ (intros _; solve [fin_in]) | (let Hc := fresh in intros Hc; exfalso; apply Hc; reflexivity) ]
           | let p := fresh in let x := fresh in let Hin := fresh in intros p x Hin; vm_compute in Hin;
             repeat (destruct Hin as [Hin|Hin]; [inversion Hin; subst; solve [fin_in] | ]); destruct Hin ] ].
Ltac fchain_tac :=
  lazymatch goal with
  | |- fchain ?d (?a :: ?r) ?s =>
      let res := eval vm_compute in (step_opt d a s) in
      lazymatch res with
      | Some ?s1 => apply (fchain_cons d a r s s1); [fok_tac|vm_compute; reflexivity|fchain_tac]
      end
  | |- fchain ?d [] ?s => apply (fchain_nil d s None); [fok_tac|vm_compute; reflexivity]
  end.

Lemma term_chain : fchain fdv term_pre ex_s0.
Proof. unfold term_pre. fchain_tac. Qed.

Definition term_tr : nat -> st := ftr fdv ex_s0 term_pre.
Definition term_lb : nat -> label := flb fdv ex_s0 term_pre.

Lemma term_closes : forall p, In p (prios ex_s0) -> exists i, closed (term_tr i) p = true.
Proof.
  intros p Hp. cbn in Hp. destruct Hp as [<-|[<-|[]]]; [exists 6%nat|exists 10%nat]; vm_compute; reflexivity.
Qed.

(* the theorem instantiated on this execution: all its hypotheses hold *)
Example term_eventually_done : exists j, pcs (term_tr j) = Done None /\
  (forall p, In p (prios ex_s0) -> map snd (filter (fun d => N.eqb (fst d) p) (delivered (term_tr j))) = written (term_tr j) p) /\
  outq (term_tr j) = [] /\ held (term_tr j) = [] /\ fbq (term_tr j) = [].
Proof.
  apply (prio2_eventually_done fdv ex_s0 term_tr term_lb fdv_ok ex_initL); [reflexivity|vm_compute; lia| | | | | |].
  - exact (fin_execution _ _ _ term_chain).
  - exact (fin_F_sched _ _ _ term_chain).
  - exact (fin_F_take _ _ _ term_chain).
  - exact (fin_F_rel _ _ _ term_chain).
  - exact (fin_F_tick _ _ _).
  - exact term_closes.
Qed.
Print Assumptions term_eventually_done.

(* ... and read off directly: Done after the 63 steps of the script, for ever *)
Example term_view : pcs (term_tr 62) = Drain None /\ pcs (term_tr 63) = Done None /\ pcs (term_tr 1000) = Done None /\
  delivered (term_tr 63) = [(2, 7); (1, 8); (1, 9)] /\ written (term_tr 63) 2 = [7] /\ written (term_tr 63) 1 = [8; 9] /\
  taken term_tr term_lb 63 = [(2, 7); (1, 8); (1, 9)] /\ puts term_lb 1 63 = [8; 9] /\ term_lb 1000 = LEnv Tick.
Proof. vm_compute. repeat split; reflexivity. Qed.


(* ================= 7. the hypothesis `1 <= fblimit s0` cannot be dropped here either ================= *)
(* Prio2Live's counterexample (feedback limit 0, a divider that obeys the sum rule but hands every vacancy to priority 2) with both
   inputs closed at the start: item 8 of priority 1 is never delivered, so the discipline never terminates although every input is
   closed and the environment is fair.  (New() sets the limit to DivideWithMin(H, 10, len(Inputs)) >= 1.) *)
Definition pick_dv (dv : nat -> Divider) (s : st) : label :=
  match sched_step dv s with Some _ => LSched | None =>
  match outq s with _ :: _ => LEnv Take | [] => match held s with (p, _) :: _ => LEnv (Release p) | [] => LEnv Tick end end end.
Fixpoint drive_dv (dv : nat -> Divider) (n : nat) (s : st) : list label :=
  match n with O => [] | S n' => let l := pick_dv dv s in l :: match step_opt dv l s with Some s' => drive_dv dv n' s' | None => [] end end.
Definition nt_head : list label := [LEnv (Put 1 7); LEnv (Put 1 8); LEnv (Close 2); LEnv (Close 1)].
Definition nt_s1 : st := Eval vm_compute in match run_l (cdv adv_d) nt_head cx0 with Some s => s | None => cx0 end.
Definition nt_pre : list label := Eval vm_compute in nt_head ++ drive_dv (cdv adv_d) 30 nt_s1.
Definition nt_X : st := Eval vm_compute in match run_l (cdv adv_d) nt_pre cx0 with Some s => s | None => cx0 end.
Definition nt_cyc : list label := Eval vm_compute in drive_dv (cdv adv_d) 13 nt_X.
Example nt_X_view : pcs nt_X = Calc /\ actual nt_X = [(1, 1)] /\ fbq nt_X = [1] /\ outq nt_X = [] /\ held nt_X = [] /\
  inq nt_X 1 = [8] /\ delivered nt_X = [(1, 7)] /\ closed nt_X 1 = true /\ closed nt_X 2 = true /\ drained nt_X 2 = true.
Proof. vm_compute. repeat split; reflexivity. Qed.

Lemma nt_chain_pre : chain adv_d nt_X (1, 8) nt_pre cx0.
Proof. unfold nt_pre. chain_tac. Qed.
Lemma nt_chain_cyc : chain adv_d nt_X (1, 8) nt_cyc nt_X.
Proof. unfold nt_cyc. chain_tac. Qed.
Lemma nt_sched_in : In LSched nt_cyc.
Proof. left; reflexivity. Qed.
Lemma nt_tick_in : In (LEnv Tick) nt_cyc.
Proof. unfold nt_cyc. in_tac. Qed.
Definition nt_tr : nat -> st := ltr adv_d cx0 nt_pre nt_cyc.
Definition nt_lb : nat -> label := llb adv_d cx0 nt_pre nt_cyc.

Theorem prio2_termination_needs_fblimit : exists dv s0 tr lb,
  dv_ok dv /\ InitL s0 /\ H s0 < two64 /\ fblimit s0 = 0%nat /\ execution dv s0 tr lb /\
  F_sched dv tr lb /\ F_take tr lb /\ F_rel tr lb /\ F_tick lb /\
  (forall p, In p (prios s0) -> exists i, closed (tr i) p = true) /\
  forall j, pcs (tr j) <> Done None.
Proof.
  exists (cdv adv_d), cx0, nt_tr, nt_lb.
  pose proof (lasso_execution _ _ _ _ _ _ nt_chain_pre nt_chain_cyc nt_sched_in) as Hex.
  split; [exact adv_ok|]. split; [exact cx0_initL|]. split; [reflexivity|]. split; [reflexivity|].
  split; [exact Hex|].
  split; [exact (lasso_F_sched _ _ _ _ nt_sched_in)|].
  split; [exact (lasso_F_take _ _ _ _ _ _ nt_chain_pre nt_chain_cyc nt_sched_in)|].
  split; [exact (lasso_F_rel _ _ _ _ _ _ nt_chain_pre nt_chain_cyc nt_sched_in)|].
  split; [exact (lasso_F_tick _ _ _ _ nt_tick_in)|].
  split.
  - intros p Hp. cbn in Hp. destruct Hp as [<-|[<-|[]]]; [exists 3%nat|exists 4%nat]; vm_compute; reflexivity.
  - intros j Hd.
    apply (lasso_never _ _ _ _ _ _ nt_chain_pre nt_chain_cyc nt_sched_in j). change (In (1, 8) (delivered (nt_tr j))).
    apply of_prio_in.
    assert (Hp : In 1 (prios (nt_tr j))) by (rewrite (tr_prios _ _ _ _ Hex); right; left; reflexivity).
    rewrite (prio2_exactly_once (cdv adv_d) cx0 (nt_tr j) (il_init _ cx0_initL) (tr_reach _ _ _ _ Hex j) Hd 1 Hp).
    destruct (le_lt_dec 2 j) as [Hle|Hlt].
    + destruct (written_prefix _ _ _ _ Hex 1 2%nat j Hle) as [w Hw]. change (written (nt_tr j) 1 = [7; 8] ++ w) in Hw.
      rewrite Hw. right; left; reflexivity.
    + exfalso. destruct j as [|[|j]]; [vm_compute in Hd; discriminate|vm_compute in Hd; discriminate|lia].
Qed.
Print Assumptions prio2_termination_needs_fblimit.

