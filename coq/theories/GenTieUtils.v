(* Tie lemmas: the generated utils functions (GenV2Utils.v from v2/priority/utils/utils.go, GenV1Utils.v from
   priority/utils.go) against the hand-written model Utils.v.

   The Go functions take a Divider *function value*; the generated code calls it through `call_div2` (v2) /
   `call_div1` (v1) with the world counter as the index of the call.  The model Utils.v uses a pure `Divider`
   (list N -> N -> dist -> dist).  The ties are stated for a function value `Some dv` that behaves like the pure
   divider `d` on the only kind of call these functions make:
     v2: a freshly made empty map          forall k c q, dv k c q (Some []) = Some (d c q [])
     v1: the nil map                       forall k c q, dv k c q None = Divider.v1_call d c q None
   (`lift2 d` / `lift1 d` are such function values.)  The generated functions also return the world counter, i.e.
   w + the number of calls of the divider; the early returns of the Go code make that number depend on the data, so
   it is given by explicit counting functions (`nonfatal_calls`, `suitable_calls`, `pick_min_calls`, `pick_max_calls`). *)
From Coq Require Import List NArith ZArith Bool Lia.
From Cqos Require Import Base Divider Float64 GoSem Sched Utils.
From Cqos Require GenV2Utils GenV1Utils.
Import ListNotations.
Open Scope N_scope.

(* ================================================================== model side: shared definitions and facts *)

(* the sort of GoSem.v (used by the generated code) is the sort of Sched.v (used by the model) *)
Lemma insert_desc_eq x l : GoSem.insert_desc x l = Sched.insert_desc x l.
Proof. induction l as [|y r IH]; simpl; [reflexivity|]. now rewrite IH. Qed.
Lemma sort_desc_eq l : GoSem.sort_desc l = Sched.sort_desc l.
Proof. induction l as [|x r IH]; simpl; [reflexivity|]. now rewrite IH, insert_desc_eq. Qed.

Lemma sum_list_insert_desc x l : sum_list (Sched.insert_desc x l) = x + sum_list l.
Proof.
  induction l as [|y r IH]; simpl; [reflexivity|].
  destruct (y <? x); simpl; [reflexivity|]. rewrite IH. lia.
Qed.
Lemma sum_list_sort_desc l : sum_list (Sched.sort_desc l) = sum_list l.
Proof. induction l as [|x r IH]; simpl; [reflexivity|]. now rewrite sum_list_insert_desc, IH. Qed.
Lemma length_insert_desc x l : length (Sched.insert_desc x l) = S (length l).
Proof. induction l as [|y r IH]; simpl; [reflexivity|]. destruct (y <? x); simpl; auto. Qed.
Lemma length_sort_desc l : length (Sched.sort_desc l) = length l.
Proof. induction l as [|x r IH]; simpl; [reflexivity|]. now rewrite length_insert_desc, IH. Qed.

(* combinations are never longer than the list of priorities, and never empty *)
Lemma gen_comb_loop_length ps : forall acc n,
  Forall (fun c => (length c <= n)%nat) acc ->
  Forall (fun c => (length c <= n + length ps)%nat) (gen_comb_loop ps acc).
Proof.
  induction ps as [|p r IH]; intros acc n H; simpl.
  - rewrite Nat.add_0_r. exact H.
  - replace (n + S (length r))%nat with (S n + length r)%nat by lia. apply IH.
    rewrite !Forall_app. repeat split.
    + eapply Forall_impl; [|exact H]. simpl; intros; lia.
    + rewrite Forall_map. eapply Forall_impl; [|exact H]. unfold snoc. intros c Hc. rewrite app_length. simpl. lia.
    + constructor; [simpl; lia|constructor].
Qed.
Lemma gen_comb_loop_nonempty ps : forall acc,
  Forall (fun c => c <> []) acc -> Forall (fun c : list N => c <> []) (gen_comb_loop ps acc).
Proof.
  induction ps as [|p r IH]; intros acc H; simpl; [exact H|].
  apply IH. rewrite !Forall_app. repeat split; [exact H| |constructor; [discriminate|constructor]].
  rewrite Forall_map. apply Forall_forall. intros c _. unfold snoc. destruct c; discriminate.
Qed.
Lemma gen_combinations_nonempty ps : Forall (fun c : list N => c <> []) (gen_combinations ps).
Proof. apply gen_comb_loop_nonempty. constructor. Qed.

(* function values that behave like a pure divider *)
Definition lift2 (d : Divider) : divider_fn := fun _ ps q m => v2_call d ps q m.
Definition lift1 (d : Divider) : divider_fn := fun _ ps q m => v1_call d ps q m.

(* ---- counting the calls of the divider *)

(* isNonFatalConfig: one call per combination, up to and including the first combination that is not filled *)
Fixpoint nonfatal_calls (combs : list (list N)) (d : Divider) (q : N) : nat :=
  match combs with
  | [] => 0
  | c :: r => if is_filled_for c (d c q []) then S (nonfatal_calls r d q) else 1
  end.

(* isSuitableConfig: two calls per combination (distribution, reference); the second one is not made when the
   distribution is not filled; stops after the first unsuitable combination *)
Fixpoint suitable_calls (combs : list (list N)) (d : Divider) (q ref_total : N) (limit : b64) : nat :=
  match combs with
  | [] => 0
  | c :: r =>
      if is_filled_for c (d c q []) then
        if dist_suitable (d c q []) (d c ref_total []) q ref_total limit
        then S (S (suitable_calls r d q ref_total limit)) else 2
      else 1
  end.

(* for quantity := q; ...; quantity++: `cost q` calls for the test of q *)
Fixpoint pick_min_calls (pred : N -> bool) (cost : N -> nat) (q : N) (n : nat) : nat :=
  match n with
  | O => 0
  | S m => (cost q + if pred q then 0 else pick_min_calls pred cost (q + 1) m)%nat
  end.
(* for quantity := n; quantity != 0; quantity-- *)
Fixpoint pick_max_calls (pred : N -> bool) (cost : N -> nat) (n : nat) : nat :=
  match n with
  | O => 0
  | S m => (cost (N.of_nat (S m)) + if pred (N.of_nat (S m)) then 0 else pick_max_calls pred cost m)%nat
  end.

Definition nonfatal_cost (ps : list N) (d : Divider) (q : N) : nat :=
  nonfatal_calls (gen_combinations (Sched.sort_desc ps)) d q.
Definition suitable_cost (ps : list N) (d : Divider) (limit : b64) (q : N) : nat :=
  suitable_calls (gen_combinations (Sched.sort_desc ps)) d q (reference_factor * sum_list ps) limit.

(* ================================================================== v2 *)
Module V2.
Import GenV2Utils.

(* ---- addToCombination = snoc *)
Lemma tie_addToCombination w c p :
  (len_i c + 1 < i_half)%Z -> gen_addToCombination w c p = (w, c ++ [p]).
Proof.
  intros H. unfold gen_addToCombination, len_i in *. cbn -[lmake lcopy lset Z.to_nat Z.of_nat].
  rewrite i_add_small by (unfold i_range, i_half in *; lia).
  replace (Z.to_nat (Z.of_nat (length c) + 1)) with (S (length c)) by lia.
  assert (E : lcopy (lmake 0 (S (length c))) c = c ++ [0]).
  { unfold lcopy, lmake. rewrite repeat_length.
    rewrite firstn_all2 by lia. f_equal.
    replace (S (length c)) with (length c + 1)%nat by lia.
    rewrite repeat_app, skipn_app, repeat_length, Nat.sub_diag.
    rewrite skipn_all2 by (rewrite repeat_length; lia). reflexivity. }
  rewrite E. rewrite app_length. cbn [length].
  rewrite i_sub_small by (unfold i_range, i_half in *; lia).
  replace (Z.to_nat (Z.of_nat (length c + 1) - 1)) with (length c) by lia.
  now rewrite lset_app_last.
Qed.

(* ---- genCombinations = gen_combinations *)
Lemma genCombinations_loop1 l : forall ps0 acc p c0 w,
  Forall (fun c => (len_i c + 1 < i_half)%Z) l ->
  exists c', range_loop gen_genCombinations_loop1 l (mk_genCombinations_vars ps0 acc p c0 w) =
             Next (mk_genCombinations_vars ps0 (acc ++ map (snoc p) l) p c' w).
Proof.
  induction l as [|c r IH]; intros ps0 acc p c0 w H.
  - exists c0. cbn. now rewrite app_nil_r.
  - inversion H as [|? ? Hc Hr]; subst. cbn.
    rewrite tie_addToCombination by exact Hc. cbn.
    destruct (IH ps0 (acc ++ [c ++ [p]]) p c w Hr) as [c' ->].
    exists c'. rewrite <- app_assoc. reflexivity.
Qed.

Lemma genCombinations_loop2 ps : forall ps0 acc n p0 c0 w,
  Forall (fun c => (length c <= n)%nat) acc ->
  (Z.of_nat (n + length ps) < i_half)%Z ->
  exists p' c', range_loop gen_genCombinations_loop2 ps (mk_genCombinations_vars ps0 acc p0 c0 w) =
                Next (mk_genCombinations_vars ps0 (gen_comb_loop ps acc) p' c' w).
Proof.
  induction ps as [|p r IH]; intros ps0 acc n p0 c0 w Hacc Hn.
  - exists p0, c0. reflexivity.
  - cbn [length] in Hn. cbn.
    destruct (genCombinations_loop1 acc ps0 acc p c0 w) as [c' ->].
    { eapply Forall_impl; [|exact Hacc]. unfold len_i. cbn beta. intros c Hc. lia. }
    cbn. rewrite tie_addToCombination by (unfold len_i, i_half in *; cbn; lia). cbn.
    destruct (IH ps0 ((acc ++ map (snoc p) acc) ++ [[p]]) (S n) p c' w) as [p' [c'' E]].
    + rewrite !Forall_app. repeat split.
      * eapply Forall_impl; [|exact Hacc]. cbn beta. intros; lia.
      * rewrite Forall_map. eapply Forall_impl; [|exact Hacc]. unfold snoc. intros c Hc. rewrite app_length. cbn. lia.
      * constructor; [cbn; lia|constructor].
    + lia.
    + exists p', c''. rewrite E. now rewrite <- app_assoc.
Qed.

Lemma tie_genCombinations w ps :
  (len_i ps < i_half)%Z -> gen_genCombinations w ps = (w, gen_combinations ps).
Proof.
  intros H. unfold gen_genCombinations, gen_combinations. cbn.
  destruct (genCombinations_loop2 ps ps [] 0 0 [] w) as [p' [c' ->]]; [constructor|exact H|reflexivity].
Qed.

(* ---- createSortedCopy = sort_desc *)
Lemma tie_createSortedCopy w ps : gen_createSortedCopy w ps = (w, Sched.sort_desc ps).
Proof.
  unfold gen_createSortedCopy, len_i. cbn -[lmake lcopy Z.to_nat Z.of_nat].
  rewrite Nat2Z.id. rewrite lcopy_full by (unfold lmake; now rewrite repeat_length).
  now rewrite sort_desc_eq.
Qed.

(* ---- IsDistributionFilledFor = is_filled_for (the copy of GenV2Utils.v; as in TieSmoke.v) *)
Definition filled_for_obs (c : ctl IsDistributionFilledFor_vars bool) : option (nat * gmap N * option bool) :=
  match c with
  | Next v => Some (IsDistributionFilledFor_w v, IsDistributionFilledFor_distribution v, None)
  | Ret v r => Some (IsDistributionFilledFor_w v, IsDistributionFilledFor_distribution v, Some r)
  | _ => None
  end.
Lemma IsDistributionFilledFor_loop ps : forall ps0 (m : dist) p0 w,
  filled_for_obs (range_loop gen_IsDistributionFilledFor_loop1 ps (mk_IsDistributionFilledFor_vars ps0 (Some m) p0 w)) =
  Some (w, Some m, if is_filled_for ps m then None else Some false).
Proof.
  induction ps as [|p r IH]; intros ps0 m p0 w; cbn; [reflexivity|].
  rewrite aget_get. destruct (get m p =? 0); cbn; [reflexivity|]. apply IH.
Qed.
Lemma tie_IsDistributionFilledFor w ps (m : dist) :
  gen_IsDistributionFilledFor w ps (Some m) = (w, Some m, is_filled_for ps m).
Proof.
  unfold gen_IsDistributionFilledFor. cbn.
  pose proof (IsDistributionFilledFor_loop ps ps m 0 w) as H.
  destruct (range_loop _ _ _) as [v|v r|v|v|v]; cbn in *; try discriminate;
    destruct (is_filled_for ps m); now inversion H.
Qed.

Section WithDivider.
Variable dv : divider_fn.
Variable d : Divider.
Hypothesis Hdv : forall k c q, dv k c q (Some []) = Some (d c q []).

(* ---- isNonFatalConfig = nonfatal_combs *)
Definition nonfatal_obs (c : ctl isNonFatalConfig_vars bool) : option (nat * option bool) :=
  match c with
  | Next v => Some (isNonFatalConfig_w v, None)
  | Ret v r => Some (isNonFatalConfig_w v, Some r)
  | _ => None
  end.
Lemma isNonFatalConfig_loop combs : forall combs0 q c0 m0 w,
  nonfatal_obs (range_loop gen_isNonFatalConfig_loop1 combs (mk_isNonFatalConfig_vars combs0 (Some dv) q c0 m0 w)) =
  Some ((w + nonfatal_calls combs d q)%nat,
        if nonfatal_combs is_filled_for combs d q then None else Some false).
Proof.
  induction combs as [|c r IH]; intros combs0 q c0 m0 w.
  - cbn. now rewrite Nat.add_0_r.
  - cbn. unfold mmake. rewrite Hdv. rewrite tie_IsDistributionFilledFor. cbn.
    destruct (is_filled_for c (d c q [])); cbn.
    + rewrite IH. unfold nonfatal_combs. do 2 f_equal. lia.
    + do 2 f_equal. lia.
Qed.
Lemma tie_isNonFatalConfig w combs q :
  gen_isNonFatalConfig w combs (Some dv) q =
  ((w + nonfatal_calls combs d q)%nat, nonfatal_combs is_filled_for combs d q).
Proof.
  unfold gen_isNonFatalConfig. cbn.
  pose proof (isNonFatalConfig_loop combs combs q [] None w) as H.
  destruct (range_loop _ _ _) as [v|v r|v|v|v]; cbn in *; try discriminate;
    destruct (nonfatal_combs is_filled_for combs d q); now inversion H.
Qed.

(* ---- IsNonFatalConfig = is_nonfatal *)
Lemma tie_IsNonFatalConfig w ps q :
  (len_i ps < i_half)%Z ->
  gen_IsNonFatalConfig w ps (Some dv) q = ((w + nonfatal_cost ps d q)%nat, is_nonfatal ps d q).
Proof.
  intros H. unfold gen_IsNonFatalConfig. cbn.
  rewrite tie_createSortedCopy. cbn.
  rewrite tie_genCombinations by (unfold len_i in *; now rewrite length_sort_desc). cbn.
  rewrite tie_isNonFatalConfig. reflexivity.
Qed.

(* ---- PickUpMinNonFatalQuantity = pick_min_nonfatal.
   `n` = number of iterations left (quantities q .. maxQuantity); one unit of fuel per evaluation of the condition *)
Definition pick_obs_minNF (c : ctl PickUpMinNonFatalQuantity_vars N) : option (nat * N) :=
  match c with
  | Ret v r => Some (PickUpMinNonFatalQuantity_w v, r)
  | Next v => Some (PickUpMinNonFatalQuantity_w v, 0)
  | _ => None
  end.
Lemma PickUpMinNonFatalQuantity_loop ps0 combs mx : forall n fuel q w,
  (n < fuel)%nat -> q + N.of_nat n = mx + 1 -> mx + 1 < u_modulus ->
  pick_obs_minNF
    (while_loop fuel
       (fun v => N.leb (PickUpMinNonFatalQuantity_quantity v) (PickUpMinNonFatalQuantity_maxQuantity v))
       gen_PickUpMinNonFatalQuantity_loop1
       (fun v => set_PickUpMinNonFatalQuantity_quantity (u_add (PickUpMinNonFatalQuantity_quantity v) 1) v)
       (mk_PickUpMinNonFatalQuantity_vars ps0 (Some dv) mx combs q w)) =
  Some ((w + pick_min_calls (nonfatal_combs is_filled_for combs d) (nonfatal_calls combs d) q n)%nat,
        pick_min_from (nonfatal_combs is_filled_for combs d) q n).
Proof.
  induction n as [|n IH]; intros fuel q w Hf Hq Hmx; (destruct fuel as [|fuel]; [lia|]).
  - cbn. replace (q <=? mx) with false by (symmetry; apply N.leb_gt; lia). cbn. now rewrite Nat.add_0_r.
  - cbn -[N.of_nat] in *. replace (q <=? mx) with true by (symmetry; apply N.leb_le; lia).
    unfold gen_PickUpMinNonFatalQuantity_loop1. cbn -[N.of_nat].
    rewrite tie_isNonFatalConfig. cbn -[N.of_nat].
    destruct (nonfatal_combs is_filled_for combs d q); cbn.
    + do 2 f_equal. lia.
    + rewrite u_add_small by lia. rewrite IH by lia. do 2 f_equal. lia.
Qed.

Lemma tie_PickUpMinNonFatalQuantity fuel w ps mx :
  (len_i ps < i_half)%Z -> mx + 1 < u_modulus -> (N.to_nat mx < fuel)%nat ->
  gen_PickUpMinNonFatalQuantity fuel w ps (Some dv) mx =
  Some ((w + pick_min_calls (is_nonfatal ps d) (nonfatal_cost ps d) 1 (N.to_nat mx))%nat, pick_min_nonfatal ps d mx).
Proof.
  intros H Hmx Hf. unfold gen_PickUpMinNonFatalQuantity. cbn.
  rewrite tie_createSortedCopy. cbn.
  rewrite tie_genCombinations by (unfold len_i in *; now rewrite length_sort_desc). cbn.
  set (L := while_loop _ _ _ _ _).
  assert (HL : pick_obs_minNF L = Some ((w + pick_min_calls (is_nonfatal ps d) (nonfatal_cost ps d) 1 (N.to_nat mx))%nat,
                                        pick_min_nonfatal ps d mx))
    by (apply PickUpMinNonFatalQuantity_loop; lia).
  destruct L as [v|v r|v|v|v]; cbn in *; try discriminate; congruence.
Qed.

(* ---- PickUpMaxNonFatalQuantity = pick_max_nonfatal *)
Definition pick_obs_maxNF (c : ctl PickUpMaxNonFatalQuantity_vars N) : option (nat * N) :=
  match c with
  | Ret v r => Some (PickUpMaxNonFatalQuantity_w v, r)
  | Next v => Some (PickUpMaxNonFatalQuantity_w v, 0)
  | _ => None
  end.
Lemma PickUpMaxNonFatalQuantity_loop ps0 combs mx : forall n fuel q w,
  (n < fuel)%nat -> q = N.of_nat n -> q < u_modulus ->
  pick_obs_maxNF
    (while_loop fuel
       (fun v => negb (N.eqb (PickUpMaxNonFatalQuantity_quantity v) 0))
       gen_PickUpMaxNonFatalQuantity_loop1
       (fun v => set_PickUpMaxNonFatalQuantity_quantity (u_sub (PickUpMaxNonFatalQuantity_quantity v) 1) v)
       (mk_PickUpMaxNonFatalQuantity_vars ps0 (Some dv) mx combs q w)) =
  Some ((w + pick_max_calls (nonfatal_combs is_filled_for combs d) (nonfatal_calls combs d) n)%nat,
        pick_max_nat (nonfatal_combs is_filled_for combs d) n).
Proof.
  induction n as [|n IH]; intros fuel q w Hf Hq Hlt; (destruct fuel as [|fuel]; [lia|]).
  - subst q. cbn. now rewrite Nat.add_0_r.
  - rewrite while_loop_S. cbn beta. cbn [PickUpMaxNonFatalQuantity_quantity].
    replace (q =? 0) with false by (symmetry; apply N.eqb_neq; lia). cbn [negb].
    unfold gen_PickUpMaxNonFatalQuantity_loop1. cbn -[N.of_nat while_loop].
    rewrite tie_isNonFatalConfig. cbn -[N.of_nat while_loop]. rewrite <- Hq.
    destruct (nonfatal_combs is_filled_for combs d q); cbn -[N.of_nat while_loop].
    + do 2 f_equal. lia.
    + rewrite u_sub_small by lia. rewrite (IH fuel (q - 1) _) by lia. do 2 f_equal. lia.
Qed.

Lemma tie_PickUpMaxNonFatalQuantity fuel w ps mx :
  (len_i ps < i_half)%Z -> mx < u_modulus -> (N.to_nat mx < fuel)%nat ->
  gen_PickUpMaxNonFatalQuantity fuel w ps (Some dv) mx =
  Some ((w + pick_max_calls (is_nonfatal ps d) (nonfatal_cost ps d) (N.to_nat mx))%nat, pick_max_nonfatal ps d mx).
Proof.
  intros H Hmx Hf. unfold gen_PickUpMaxNonFatalQuantity. cbn.
  rewrite tie_createSortedCopy. cbn.
  rewrite tie_genCombinations by (unfold len_i in *; now rewrite length_sort_desc). cbn.
  set (L := while_loop _ _ _ _ _).
  assert (HL : pick_obs_maxNF L = Some ((w + pick_max_calls (is_nonfatal ps d) (nonfatal_cost ps d) (N.to_nat mx))%nat,
                                        pick_max_nonfatal ps d mx))
    by (apply PickUpMaxNonFatalQuantity_loop; lia).
  destruct L as [v|v r|v|v|v]; cbn in *; try discriminate; congruence.
Qed.

(* ---- SumPriorities = sum_list (the copy of GenV2Utils.v; as in TieSmoke.v) *)
Lemma SumPriorities_loop ps : forall ps0 s p0 w,
  s + sum_list ps < u_modulus ->
  exists p', range_loop gen_SumPriorities_loop1 ps (mk_SumPriorities_vars ps0 s p0 w) =
             Next (mk_SumPriorities_vars ps0 (s + sum_list ps) p' w).
Proof.
  induction ps as [|p r IH]; intros ps0 s p0 w H; cbn in *.
  - exists p0. now rewrite N.add_0_r.
  - rewrite u_add_small by lia. destruct (IH ps0 (s + p) p w) as [p' ->]; [lia|].
    exists p'. do 2 f_equal. lia.
Qed.
Lemma tie_SumPriorities w ps : sum_list ps < u_modulus -> gen_SumPriorities w ps = (w, sum_list ps).
Proof.
  intros H. unfold gen_SumPriorities. cbn.
  now destruct (SumPriorities_loop ps ps 0 0 w) as [p' ->].
Qed.

(* ---- isDistributionSuitable = dist_suitable: the float64 expressions are literally those of the model *)
Definition dist_suitable_obs (c : ctl isDistributionSuitable_vars bool) : option (nat * gmap N * gmap N * option bool) :=
  match c with
  | Next v => Some (isDistributionSuitable_w v, isDistributionSuitable_distribution v, isDistributionSuitable_reference v, None)
  | Ret v r => Some (isDistributionSuitable_w v, isDistributionSuitable_distribution v, isDistributionSuitable_reference v, Some r)
  | _ => None
  end.
Definition dist_suitable_entry (dm : dist) (ratio limit : b64) (kv : N * N) : bool :=
  let '(p, rq) := kv in
  if rq =? 0 then false else
  let diff := fsub one (fdiv (fmul ratio (fN (get dm p))) (fN rq)) in
  negb (fgt (fmul hundred (fabs diff)) limit).
Lemma dist_suitable_unfold dm ref tq rtq limit :
  dist_suitable dm ref tq rtq limit = forallb (dist_suitable_entry dm (fdiv (fN rtq) (fN tq)) limit) ref.
Proof. reflexivity. Qed.
Lemma isDistributionSuitable_loop (l : list (N * N)) : forall (dm : dist) (rm : gmap N) tq rtq limit ratio p0 rq0 diff0 w,
  dist_suitable_obs (range_loop gen_isDistributionSuitable_loop1 l
    (mk_isDistributionSuitable_vars (Some dm) rm tq rtq limit ratio p0 rq0 diff0 w)) =
  Some (w, Some dm, rm, if forallb (dist_suitable_entry dm ratio limit) l then None else Some false).
Proof.
  induction l as [|[p rq] r IH]; intros dm rm tq rtq limit ratio p0 rq0 diff0 w; [reflexivity|].
  cbn -[of_Z fdiv fmul fsub fabs fgt f_of_u].
  destruct (rq =? 0); cbn -[of_Z fdiv fmul fsub fabs fgt f_of_u]; [reflexivity|].
  rewrite aget_get.
  change (f_of_u (get dm p)) with (fN (get dm p)). change (f_of_u rq) with (fN rq).
  change (of_Z 1) with one. change (of_Z 100) with hundred.
  destruct (fgt _ limit); cbn -[of_Z fdiv fmul fsub fabs fgt f_of_u]; [reflexivity|].
  apply IH.
Qed.
Lemma tie_isDistributionSuitable w (dm ref : dist) tq rtq limit :
  gen_isDistributionSuitable w (Some dm) (Some ref) tq rtq limit =
  (w, Some dm, Some ref, dist_suitable dm ref tq rtq limit).
Proof.
  unfold gen_isDistributionSuitable. cbn -[of_Z fdiv fmul fsub fabs fgt f_of_u].
  rewrite dist_suitable_unfold.
  pose proof (isDistributionSuitable_loop ref dm (Some ref) tq rtq limit (fdiv (f_of_u rtq) (f_of_u tq)) 0 0 f_zero w) as H.
  change (f_of_u rtq) with (fN rtq) in *. change (f_of_u tq) with (fN tq) in *.
  destruct (range_loop _ _ _) as [v|v r|v|v|v]; cbn -[of_Z fdiv fmul fsub fabs fgt f_of_u] in *; try discriminate;
    destruct (forallb _ ref); now inversion H.
Qed.

(* ---- isSuitableConfig = suitable_combs *)
Definition suitable_obs (c : ctl isSuitableConfig_vars bool) : option (nat * option bool) :=
  match c with
  | Next v => Some (isSuitableConfig_w v, None)
  | Ret v r => Some (isSuitableConfig_w v, Some r)
  | _ => None
  end.
Definition suitable_comb (q rt : N) (limit : b64) (c : list N) : bool :=
  let dm := d c q [] in
  if is_filled_for c dm then dist_suitable dm (d c rt []) q rt limit else false.
Lemma isSuitableConfig_loop combs : forall combs0 ps0 q limit rt c0 m0 r0 s0 w,
  suitable_obs (range_loop gen_isSuitableConfig_loop1 combs
    (mk_isSuitableConfig_vars combs0 ps0 (Some dv) q limit rt c0 m0 r0 s0 w)) =
  Some ((w + suitable_calls combs d q rt limit)%nat,
        if forallb (suitable_comb q rt limit) combs then None else Some false).
Proof.
  induction combs as [|c r IH]; intros combs0 ps0 q limit rt c0 m0 r0 s0 w.
  - cbn. now rewrite Nat.add_0_r.
  - cbn. unfold mmake. rewrite Hdv. rewrite tie_IsDistributionFilledFor. cbn.
    unfold suitable_comb at 1.
    destruct (is_filled_for c (d c q [])); cbn.
    + rewrite Hdv. rewrite tie_isDistributionSuitable. cbn.
      destruct (dist_suitable (d c q []) (d c rt []) q rt limit); cbn.
      * rewrite IH. do 2 f_equal. lia.
      * do 2 f_equal. lia.
    + do 2 f_equal. lia.
Qed.
Lemma tie_isSuitableConfig w combs ps q limit :
  reference_factor * sum_list ps < u_modulus ->
  gen_isSuitableConfig w combs ps (Some dv) q limit =
  ((w + suitable_calls combs d q (reference_factor * sum_list ps) limit)%nat,
   suitable_combs is_filled_for combs ps d q limit).
Proof.
  intros Hs. unfold gen_isSuitableConfig. cbn.
  rewrite tie_SumPriorities by (unfold reference_factor in Hs; lia). cbn.
  rewrite u_mul_small by exact Hs. fold reference_factor.
  pose proof (isSuitableConfig_loop combs combs ps q limit (reference_factor * sum_list ps) [] None None false w) as H.
  change (suitable_combs is_filled_for combs ps d q limit)
    with (forallb (suitable_comb q (reference_factor * sum_list ps) limit) combs).
  destruct (range_loop _ _ _) as [v|v r|v|v|v]; cbn in *; try discriminate;
    destruct (forallb _ combs); now inversion H.
Qed.

(* ---- IsSuitableConfig = is_suitable *)
Lemma tie_IsSuitableConfig w ps q limit :
  (len_i ps < i_half)%Z -> reference_factor * sum_list ps < u_modulus ->
  gen_IsSuitableConfig w ps (Some dv) q limit = ((w + suitable_cost ps d limit q)%nat, is_suitable ps d q limit).
Proof.
  intros H Hs. unfold gen_IsSuitableConfig. cbn.
  rewrite tie_createSortedCopy. cbn.
  rewrite tie_genCombinations by (unfold len_i in *; now rewrite length_sort_desc). cbn.
  rewrite tie_isSuitableConfig by now rewrite sum_list_sort_desc.
  unfold suitable_cost. now rewrite sum_list_sort_desc.
Qed.

(* ---- PickUpMinSuitableQuantity = pick_min_suitable *)
Definition pick_obs_minS (c : ctl PickUpMinSuitableQuantity_vars N) : option (nat * N) :=
  match c with
  | Ret v r => Some (PickUpMinSuitableQuantity_w v, r)
  | Next v => Some (PickUpMinSuitableQuantity_w v, 0)
  | _ => None
  end.
Lemma PickUpMinSuitableQuantity_body ps0 combs mx limit q w :
  reference_factor * sum_list ps0 < u_modulus ->
  gen_PickUpMinSuitableQuantity_loop1 (mk_PickUpMinSuitableQuantity_vars ps0 (Some dv) mx limit combs q w) =
  let v' := mk_PickUpMinSuitableQuantity_vars ps0 (Some dv) mx limit combs q
              (w + suitable_calls combs d q (reference_factor * sum_list ps0) limit) in
  if suitable_combs is_filled_for combs ps0 d q limit then Ret v' q else Next v'.
Proof.
  intros Hs. unfold gen_PickUpMinSuitableQuantity_loop1. cbn -[N.mul].
  rewrite tie_isSuitableConfig by exact Hs. cbn -[N.mul].
  now destruct (suitable_combs is_filled_for combs ps0 d q limit).
Qed.
Lemma PickUpMinSuitableQuantity_loop ps0 combs mx limit :
  reference_factor * sum_list ps0 < u_modulus ->
  forall n fuel q w,
  (n < fuel)%nat -> q + N.of_nat n = mx + 1 -> mx + 1 < u_modulus ->
  pick_obs_minS
    (while_loop fuel
       (fun v => N.leb (PickUpMinSuitableQuantity_quantity v) (PickUpMinSuitableQuantity_maxQuantity v))
       gen_PickUpMinSuitableQuantity_loop1
       (fun v => set_PickUpMinSuitableQuantity_quantity (u_add (PickUpMinSuitableQuantity_quantity v) 1) v)
       (mk_PickUpMinSuitableQuantity_vars ps0 (Some dv) mx limit combs q w)) =
  Some ((w + pick_min_calls (fun q => suitable_combs is_filled_for combs ps0 d q limit)
                            (fun q => suitable_calls combs d q (reference_factor * sum_list ps0) limit) q n)%nat,
        pick_min_from (fun q => suitable_combs is_filled_for combs ps0 d q limit) q n).
Proof.
  intros Hs.
  induction n as [|n IH]; intros fuel q w Hf Hq Hmx; (destruct fuel as [|fuel]; [lia|]).
  - cbn. replace (q <=? mx) with false by (symmetry; apply N.leb_gt; lia). cbn. now rewrite Nat.add_0_r.
  - rewrite while_loop_S. cbn beta. cbn [PickUpMinSuitableQuantity_quantity PickUpMinSuitableQuantity_maxQuantity].
    replace (q <=? mx) with true by (symmetry; apply N.leb_le; lia).
    rewrite PickUpMinSuitableQuantity_body by exact Hs. cbn zeta. cbn [pick_min_calls pick_min_from].
    destruct (suitable_combs is_filled_for combs ps0 d q limit); cbn -[N.of_nat while_loop N.mul].
    + do 2 f_equal. lia.
    + rewrite u_add_small by lia. rewrite IH by lia. do 2 f_equal. lia.
Qed.

Lemma tie_PickUpMinSuitableQuantity fuel w ps mx limit :
  (len_i ps < i_half)%Z -> reference_factor * sum_list ps < u_modulus ->
  mx + 1 < u_modulus -> (N.to_nat mx < fuel)%nat ->
  gen_PickUpMinSuitableQuantity fuel w ps (Some dv) mx limit =
  Some ((w + pick_min_calls (fun q => is_suitable ps d q limit) (suitable_cost ps d limit) 1 (N.to_nat mx))%nat,
        pick_min_suitable ps d mx limit).
Proof.
  intros H Hs Hmx Hf. unfold gen_PickUpMinSuitableQuantity. cbn.
  rewrite tie_createSortedCopy. cbn.
  rewrite tie_genCombinations by (unfold len_i in *; now rewrite length_sort_desc). cbn.
  set (L := while_loop _ _ _ _ _).
  assert (HL : pick_obs_minS L =
               Some ((w + pick_min_calls (fun q => is_suitable ps d q limit) (suitable_cost ps d limit) 1 (N.to_nat mx))%nat,
                     pick_min_suitable ps d mx limit)).
  { unfold suitable_cost. rewrite <- (sum_list_sort_desc ps).
    apply PickUpMinSuitableQuantity_loop; rewrite ?sum_list_sort_desc; lia. }
  destruct L as [v|v r|v|v|v]; cbn in *; try discriminate; congruence.
Qed.

(* ---- PickUpMaxSuitableQuantity = pick_max_suitable *)
Definition pick_obs_maxS (c : ctl PickUpMaxSuitableQuantity_vars N) : option (nat * N) :=
  match c with
  | Ret v r => Some (PickUpMaxSuitableQuantity_w v, r)
  | Next v => Some (PickUpMaxSuitableQuantity_w v, 0)
  | _ => None
  end.
Lemma PickUpMaxSuitableQuantity_body ps0 combs mx limit q w :
  reference_factor * sum_list ps0 < u_modulus ->
  gen_PickUpMaxSuitableQuantity_loop1 (mk_PickUpMaxSuitableQuantity_vars ps0 (Some dv) mx limit combs q w) =
  let v' := mk_PickUpMaxSuitableQuantity_vars ps0 (Some dv) mx limit combs q
              (w + suitable_calls combs d q (reference_factor * sum_list ps0) limit) in
  if suitable_combs is_filled_for combs ps0 d q limit then Ret v' q else Next v'.
Proof.
  intros Hs. unfold gen_PickUpMaxSuitableQuantity_loop1. cbn -[N.mul].
  rewrite tie_isSuitableConfig by exact Hs. cbn -[N.mul].
  now destruct (suitable_combs is_filled_for combs ps0 d q limit).
Qed.
Lemma PickUpMaxSuitableQuantity_loop ps0 combs mx limit :
  reference_factor * sum_list ps0 < u_modulus ->
  forall n fuel q w,
  (n < fuel)%nat -> q = N.of_nat n -> q < u_modulus ->
  pick_obs_maxS
    (while_loop fuel
       (fun v => negb (N.eqb (PickUpMaxSuitableQuantity_quantity v) 0))
       gen_PickUpMaxSuitableQuantity_loop1
       (fun v => set_PickUpMaxSuitableQuantity_quantity (u_sub (PickUpMaxSuitableQuantity_quantity v) 1) v)
       (mk_PickUpMaxSuitableQuantity_vars ps0 (Some dv) mx limit combs q w)) =
  Some ((w + pick_max_calls (fun q => suitable_combs is_filled_for combs ps0 d q limit)
                            (fun q => suitable_calls combs d q (reference_factor * sum_list ps0) limit) n)%nat,
        pick_max_nat (fun q => suitable_combs is_filled_for combs ps0 d q limit) n).
Proof.
  intros Hs.
  induction n as [|n IH]; intros fuel q w Hf Hq Hlt; (destruct fuel as [|fuel]; [lia|]).
  - subst q. cbn. now rewrite Nat.add_0_r.
  - rewrite while_loop_S. cbn beta. cbn [PickUpMaxSuitableQuantity_quantity].
    replace (q =? 0) with false by (symmetry; apply N.eqb_neq; lia). cbn [negb].
    rewrite PickUpMaxSuitableQuantity_body by exact Hs. cbn zeta. cbn [pick_max_calls pick_max_nat]. rewrite <- Hq.
    destruct (suitable_combs is_filled_for combs ps0 d q limit); cbn -[N.of_nat while_loop N.mul].
    + do 2 f_equal. lia.
    + rewrite u_sub_small by lia. rewrite (IH fuel (q - 1) _) by lia. do 2 f_equal. lia.
Qed.

Lemma tie_PickUpMaxSuitableQuantity fuel w ps mx limit :
  (len_i ps < i_half)%Z -> reference_factor * sum_list ps < u_modulus ->
  mx < u_modulus -> (N.to_nat mx < fuel)%nat ->
  gen_PickUpMaxSuitableQuantity fuel w ps (Some dv) mx limit =
  Some ((w + pick_max_calls (fun q => is_suitable ps d q limit) (suitable_cost ps d limit) (N.to_nat mx))%nat,
        pick_max_suitable ps d mx limit).
Proof.
  intros H Hs Hmx Hf. unfold gen_PickUpMaxSuitableQuantity. cbn.
  rewrite tie_createSortedCopy. cbn.
  rewrite tie_genCombinations by (unfold len_i in *; now rewrite length_sort_desc). cbn.
  set (L := while_loop _ _ _ _ _).
  assert (HL : pick_obs_maxS L =
               Some ((w + pick_max_calls (fun q => is_suitable ps d q limit) (suitable_cost ps d limit) (N.to_nat mx))%nat,
                     pick_max_suitable ps d mx limit)).
  { unfold suitable_cost. rewrite <- (sum_list_sort_desc ps).
    apply PickUpMaxSuitableQuantity_loop; rewrite ?sum_list_sort_desc; lia. }
  destruct L as [v|v r|v|v|v]; cbn in *; try discriminate; congruence.
Qed.

End WithDivider.
End V2.

(* ================================================================== v1 *)
Module V1.
Import GenV1Utils.

(* ---- addToCombination = snoc *)
Lemma tie_addToCombination w c p :
  (len_i c + 1 < i_half)%Z -> gen_addToCombination w c p = (w, c ++ [p]).
Proof.
  intros H. unfold gen_addToCombination, len_i in *. cbn -[lmake lcopy lset Z.to_nat Z.of_nat].
  rewrite i_add_small by (unfold i_range, i_half in *; lia).
  replace (Z.to_nat (Z.of_nat (length c) + 1)) with (S (length c)) by lia.
  assert (E : lcopy (lmake 0 (S (length c))) c = c ++ [0]).
  { unfold lcopy, lmake. rewrite repeat_length.
    rewrite firstn_all2 by lia. f_equal.
    replace (S (length c)) with (length c + 1)%nat by lia.
    rewrite repeat_app, skipn_app, repeat_length, Nat.sub_diag.
    rewrite skipn_all2 by (rewrite repeat_length; lia). reflexivity. }
  rewrite E. rewrite app_length. cbn [length].
  rewrite i_sub_small by (unfold i_range, i_half in *; lia).
  replace (Z.to_nat (Z.of_nat (length c + 1) - 1)) with (length c) by lia.
  now rewrite lset_app_last.
Qed.

(* ---- genPriorityCombinations = gen_combinations *)
Lemma genPriorityCombinations_loop1 l : forall ps0 acc p c0 w,
  Forall (fun c => (len_i c + 1 < i_half)%Z) l ->
  exists c', range_loop gen_genPriorityCombinations_loop1 l (mk_genPriorityCombinations_vars ps0 acc p c0 w) =
             Next (mk_genPriorityCombinations_vars ps0 (acc ++ map (snoc p) l) p c' w).
Proof.
  induction l as [|c r IH]; intros ps0 acc p c0 w H.
  - exists c0. cbn. now rewrite app_nil_r.
  - inversion H as [|? ? Hc Hr]; subst. cbn.
    rewrite tie_addToCombination by exact Hc. cbn.
    destruct (IH ps0 (acc ++ [c ++ [p]]) p c w Hr) as [c' ->].
    exists c'. rewrite <- app_assoc. reflexivity.
Qed.

Lemma genPriorityCombinations_loop2 ps : forall ps0 acc n p0 c0 w,
  Forall (fun c => (length c <= n)%nat) acc ->
  (Z.of_nat (n + length ps) < i_half)%Z ->
  exists p' c', range_loop gen_genPriorityCombinations_loop2 ps (mk_genPriorityCombinations_vars ps0 acc p0 c0 w) =
                Next (mk_genPriorityCombinations_vars ps0 (gen_comb_loop ps acc) p' c' w).
Proof.
  induction ps as [|p r IH]; intros ps0 acc n p0 c0 w Hacc Hn.
  - exists p0, c0. reflexivity.
  - cbn [length] in Hn. cbn.
    destruct (genPriorityCombinations_loop1 acc ps0 acc p c0 w) as [c' ->].
    { eapply Forall_impl; [|exact Hacc]. unfold len_i. cbn beta. intros c Hc. lia. }
    cbn. rewrite tie_addToCombination by (unfold len_i, i_half in *; cbn; lia). cbn.
    destruct (IH ps0 ((acc ++ map (snoc p) acc) ++ [[p]]) (S n) p c' w) as [p' [c'' E]].
    + rewrite !Forall_app. repeat split.
      * eapply Forall_impl; [|exact Hacc]. cbn beta. intros; lia.
      * rewrite Forall_map. eapply Forall_impl; [|exact Hacc]. unfold snoc. intros c Hc. rewrite app_length. cbn. lia.
      * constructor; [cbn; lia|constructor].
    + lia.
    + exists p', c''. rewrite E. now rewrite <- app_assoc.
Qed.

Lemma tie_genPriorityCombinations w ps :
  (len_i ps < i_half)%Z -> gen_genPriorityCombinations w ps = (w, gen_combinations ps).
Proof.
  intros H. unfold gen_genPriorityCombinations, gen_combinations. cbn.
  destruct (genPriorityCombinations_loop2 ps ps [] 0 0 [] w) as [p' [c' ->]]; [constructor|exact H|reflexivity].
Qed.

(* ---- createSortedCopy = sort_desc *)
Lemma tie_createSortedCopy w ps : gen_createSortedCopy w ps = (w, Sched.sort_desc ps).
Proof.
  unfold gen_createSortedCopy, len_i. cbn -[lmake lcopy Z.to_nat Z.of_nat].
  rewrite Nat2Z.id. rewrite lcopy_full by (unfold lmake; now rewrite repeat_length).
  now rewrite sort_desc_eq.
Qed.

(* ---- IsDistributionFilledFor = is_filled_for (the copy of GenV1Utils.v; as in TieSmoke.v) *)
Definition filled_for_obs (c : ctl IsDistributionFilledFor_vars bool) : option (nat * gmap N * option bool) :=
  match c with
  | Next v => Some (IsDistributionFilledFor_w v, IsDistributionFilledFor_distribution v, None)
  | Ret v r => Some (IsDistributionFilledFor_w v, IsDistributionFilledFor_distribution v, Some r)
  | _ => None
  end.
Lemma IsDistributionFilledFor_loop ps : forall ps0 (m : dist) p0 w,
  filled_for_obs (range_loop gen_IsDistributionFilledFor_loop1 ps (mk_IsDistributionFilledFor_vars ps0 (Some m) p0 w)) =
  Some (w, Some m, if is_filled_for ps m then None else Some false).
Proof.
  induction ps as [|p r IH]; intros ps0 m p0 w; cbn; [reflexivity|].
  rewrite aget_get. destruct (get m p =? 0); cbn; [reflexivity|]. apply IH.
Qed.
Lemma tie_IsDistributionFilledFor w ps (m : dist) :
  gen_IsDistributionFilledFor w ps (Some m) = (w, Some m, is_filled_for ps m).
Proof.
  unfold gen_IsDistributionFilledFor. cbn.
  pose proof (IsDistributionFilledFor_loop ps ps m 0 w) as H.
  destruct (range_loop _ _ _) as [v|v r|v|v|v]; cbn in *; try discriminate;
    destruct (is_filled_for ps m); now inversion H.
Qed.

(* the nil map: every read is 0 *)
Lemma tie_IsDistributionFilledFor_nil w ps :
  gen_IsDistributionFilledFor w ps None = (w, None, match ps with [] => true | _ => false end).
Proof. unfold gen_IsDistributionFilledFor. destruct ps; reflexivity. Qed.
(* on what a v1 divider returns for the nil map (nil for no priorities, else a fresh map) *)
Lemma tie_IsDistributionFilledFor_v1_call w (d : Divider) c q :
  gen_IsDistributionFilledFor w c (v1_call d c q None) = (w, v1_call d c q None, is_filled_for c (d c q [])).
Proof.
  destruct c as [|p r]; [apply tie_IsDistributionFilledFor_nil|]. unfold v1_call. apply tie_IsDistributionFilledFor.
Qed.

Section WithDivider.
Variable dv : divider_fn.
Variable d : Divider.
Hypothesis Hdv : forall k c q, dv k c q None = v1_call d c q None.

(* ---- isNonFatalConfig = nonfatal_combs *)
Definition nonfatal_obs (c : ctl isNonFatalConfig_vars bool) : option (nat * option bool) :=
  match c with
  | Next v => Some (isNonFatalConfig_w v, None)
  | Ret v r => Some (isNonFatalConfig_w v, Some r)
  | _ => None
  end.
Lemma isNonFatalConfig_loop combs : forall combs0 q c0 m0 w,
  nonfatal_obs (range_loop gen_isNonFatalConfig_loop1 combs (mk_isNonFatalConfig_vars combs0 (Some dv) q c0 m0 w)) =
  Some ((w + nonfatal_calls combs d q)%nat,
        if nonfatal_combs is_filled_for combs d q then None else Some false).
Proof.
  induction combs as [|c r IH]; intros combs0 q c0 m0 w.
  - cbn. now rewrite Nat.add_0_r.
  - cbn. rewrite Hdv. rewrite tie_IsDistributionFilledFor_v1_call. cbn.
    destruct (is_filled_for c (d c q [])); cbn.
    + rewrite IH. unfold nonfatal_combs. do 2 f_equal. lia.
    + do 2 f_equal. lia.
Qed.
Lemma tie_isNonFatalConfig w combs q :
  gen_isNonFatalConfig w combs (Some dv) q =
  ((w + nonfatal_calls combs d q)%nat, nonfatal_combs is_filled_for combs d q).
Proof.
  unfold gen_isNonFatalConfig. cbn.
  pose proof (isNonFatalConfig_loop combs combs q [] None w) as H.
  destruct (range_loop _ _ _) as [v|v r|v|v|v]; cbn in *; try discriminate;
    destruct (nonfatal_combs is_filled_for combs d q); now inversion H.
Qed.

(* ---- IsNonFatalConfig = is_nonfatal *)
Lemma tie_IsNonFatalConfig w ps q :
  (len_i ps < i_half)%Z ->
  gen_IsNonFatalConfig w ps (Some dv) q = ((w + nonfatal_cost ps d q)%nat, is_nonfatal ps d q).
Proof.
  intros H. unfold gen_IsNonFatalConfig. cbn.
  rewrite tie_createSortedCopy. cbn.
  rewrite tie_genPriorityCombinations by (unfold len_i in *; now rewrite length_sort_desc). cbn.
  rewrite tie_isNonFatalConfig. reflexivity.
Qed.

(* ---- PickUpMinNonFatalQuantity = pick_min_nonfatal.
   `n` = number of iterations left (quantities q .. maxQuantity); one unit of fuel per evaluation of the condition *)
Definition pick_obs_minNF (c : ctl PickUpMinNonFatalQuantity_vars N) : option (nat * N) :=
  match c with
  | Ret v r => Some (PickUpMinNonFatalQuantity_w v, r)
  | Next v => Some (PickUpMinNonFatalQuantity_w v, 0)
  | _ => None
  end.
Lemma PickUpMinNonFatalQuantity_loop ps0 combs mx : forall n fuel q w,
  (n < fuel)%nat -> q + N.of_nat n = mx + 1 -> mx + 1 < u_modulus ->
  pick_obs_minNF
    (while_loop fuel
       (fun v => N.leb (PickUpMinNonFatalQuantity_quantity v) (PickUpMinNonFatalQuantity_maxQuantity v))
       gen_PickUpMinNonFatalQuantity_loop1
       (fun v => set_PickUpMinNonFatalQuantity_quantity (u_add (PickUpMinNonFatalQuantity_quantity v) 1) v)
       (mk_PickUpMinNonFatalQuantity_vars ps0 (Some dv) mx combs q w)) =
  Some ((w + pick_min_calls (nonfatal_combs is_filled_for combs d) (nonfatal_calls combs d) q n)%nat,
        pick_min_from (nonfatal_combs is_filled_for combs d) q n).
Proof.
  induction n as [|n IH]; intros fuel q w Hf Hq Hmx; (destruct fuel as [|fuel]; [lia|]).
  - cbn. replace (q <=? mx) with false by (symmetry; apply N.leb_gt; lia). cbn. now rewrite Nat.add_0_r.
  - cbn -[N.of_nat] in *. replace (q <=? mx) with true by (symmetry; apply N.leb_le; lia).
    unfold gen_PickUpMinNonFatalQuantity_loop1. cbn -[N.of_nat].
    rewrite tie_isNonFatalConfig. cbn -[N.of_nat].
    destruct (nonfatal_combs is_filled_for combs d q); cbn.
    + do 2 f_equal. lia.
    + rewrite u_add_small by lia. rewrite IH by lia. do 2 f_equal. lia.
Qed.

Lemma tie_PickUpMinNonFatalQuantity fuel w ps mx :
  (len_i ps < i_half)%Z -> mx + 1 < u_modulus -> (N.to_nat mx < fuel)%nat ->
  gen_PickUpMinNonFatalQuantity fuel w ps (Some dv) mx =
  Some ((w + pick_min_calls (is_nonfatal ps d) (nonfatal_cost ps d) 1 (N.to_nat mx))%nat, pick_min_nonfatal ps d mx).
Proof.
  intros H Hmx Hf. unfold gen_PickUpMinNonFatalQuantity. cbn.
  rewrite tie_createSortedCopy. cbn.
  rewrite tie_genPriorityCombinations by (unfold len_i in *; now rewrite length_sort_desc). cbn.
  set (L := while_loop _ _ _ _ _).
  assert (HL : pick_obs_minNF L = Some ((w + pick_min_calls (is_nonfatal ps d) (nonfatal_cost ps d) 1 (N.to_nat mx))%nat,
                                        pick_min_nonfatal ps d mx))
    by (apply PickUpMinNonFatalQuantity_loop; lia).
  destruct L as [v|v r|v|v|v]; cbn in *; try discriminate; congruence.
Qed.

(* ---- PickUpMaxNonFatalQuantity = pick_max_nonfatal *)
Definition pick_obs_maxNF (c : ctl PickUpMaxNonFatalQuantity_vars N) : option (nat * N) :=
  match c with
  | Ret v r => Some (PickUpMaxNonFatalQuantity_w v, r)
  | Next v => Some (PickUpMaxNonFatalQuantity_w v, 0)
  | _ => None
  end.
Lemma PickUpMaxNonFatalQuantity_loop ps0 combs mx : forall n fuel q w,
  (n < fuel)%nat -> q = N.of_nat n -> q < u_modulus ->
  pick_obs_maxNF
    (while_loop fuel
       (fun v => negb (N.eqb (PickUpMaxNonFatalQuantity_quantity v) 0))
       gen_PickUpMaxNonFatalQuantity_loop1
       (fun v => set_PickUpMaxNonFatalQuantity_quantity (u_sub (PickUpMaxNonFatalQuantity_quantity v) 1) v)
       (mk_PickUpMaxNonFatalQuantity_vars ps0 (Some dv) mx combs q w)) =
  Some ((w + pick_max_calls (nonfatal_combs is_filled_for combs d) (nonfatal_calls combs d) n)%nat,
        pick_max_nat (nonfatal_combs is_filled_for combs d) n).
Proof.
  induction n as [|n IH]; intros fuel q w Hf Hq Hlt; (destruct fuel as [|fuel]; [lia|]).
  - subst q. cbn. now rewrite Nat.add_0_r.
  - rewrite while_loop_S. cbn beta. cbn [PickUpMaxNonFatalQuantity_quantity].
    replace (q =? 0) with false by (symmetry; apply N.eqb_neq; lia). cbn [negb].
    unfold gen_PickUpMaxNonFatalQuantity_loop1. cbn -[N.of_nat while_loop].
    rewrite tie_isNonFatalConfig. cbn -[N.of_nat while_loop]. rewrite <- Hq.
    destruct (nonfatal_combs is_filled_for combs d q); cbn -[N.of_nat while_loop].
    + do 2 f_equal. lia.
    + rewrite u_sub_small by lia. rewrite (IH fuel (q - 1) _) by lia. do 2 f_equal. lia.
Qed.

Lemma tie_PickUpMaxNonFatalQuantity fuel w ps mx :
  (len_i ps < i_half)%Z -> mx < u_modulus -> (N.to_nat mx < fuel)%nat ->
  gen_PickUpMaxNonFatalQuantity fuel w ps (Some dv) mx =
  Some ((w + pick_max_calls (is_nonfatal ps d) (nonfatal_cost ps d) (N.to_nat mx))%nat, pick_max_nonfatal ps d mx).
Proof.
  intros H Hmx Hf. unfold gen_PickUpMaxNonFatalQuantity. cbn.
  rewrite tie_createSortedCopy. cbn.
  rewrite tie_genPriorityCombinations by (unfold len_i in *; now rewrite length_sort_desc). cbn.
  set (L := while_loop _ _ _ _ _).
  assert (HL : pick_obs_maxNF L = Some ((w + pick_max_calls (is_nonfatal ps d) (nonfatal_cost ps d) (N.to_nat mx))%nat,
                                        pick_max_nonfatal ps d mx))
    by (apply PickUpMaxNonFatalQuantity_loop; lia).
  destruct L as [v|v r|v|v|v]; cbn in *; try discriminate; congruence.
Qed.

(* ---- SumPriorities = sum_list (the copy of GenV1Utils.v; as in TieSmoke.v) *)
Lemma SumPriorities_loop ps : forall ps0 s p0 w,
  s + sum_list ps < u_modulus ->
  exists p', range_loop gen_SumPriorities_loop1 ps (mk_SumPriorities_vars ps0 s p0 w) =
             Next (mk_SumPriorities_vars ps0 (s + sum_list ps) p' w).
Proof.
  induction ps as [|p r IH]; intros ps0 s p0 w H; cbn in *.
  - exists p0. now rewrite N.add_0_r.
  - rewrite u_add_small by lia. destruct (IH ps0 (s + p) p w) as [p' ->]; [lia|].
    exists p'. do 2 f_equal. lia.
Qed.
Lemma tie_SumPriorities w ps : sum_list ps < u_modulus -> gen_SumPriorities w ps = (w, sum_list ps).
Proof.
  intros H. unfold gen_SumPriorities. cbn.
  now destruct (SumPriorities_loop ps ps 0 0 w) as [p' ->].
Qed.

(* ---- isDistributionSuitable = dist_suitable: the float64 expressions are literally those of the model *)
Definition dist_suitable_obs (c : ctl isDistributionSuitable_vars bool) : option (nat * gmap N * gmap N * option bool) :=
  match c with
  | Next v => Some (isDistributionSuitable_w v, isDistributionSuitable_distribution v, isDistributionSuitable_reference v, None)
  | Ret v r => Some (isDistributionSuitable_w v, isDistributionSuitable_distribution v, isDistributionSuitable_reference v, Some r)
  | _ => None
  end.
Definition dist_suitable_entry (dm : dist) (ratio limit : b64) (kv : N * N) : bool :=
  let '(p, rq) := kv in
  if rq =? 0 then false else
  let diff := fsub one (fdiv (fmul ratio (fN (get dm p))) (fN rq)) in
  negb (fgt (fmul hundred (fabs diff)) limit).
Lemma dist_suitable_unfold dm ref tq rtq limit :
  dist_suitable dm ref tq rtq limit = forallb (dist_suitable_entry dm (fdiv (fN rtq) (fN tq)) limit) ref.
Proof. reflexivity. Qed.
Lemma isDistributionSuitable_loop (l : list (N * N)) : forall (dm : dist) (rm : gmap N) tq rtq limit ratio p0 rq0 diff0 w,
  dist_suitable_obs (range_loop gen_isDistributionSuitable_loop1 l
    (mk_isDistributionSuitable_vars (Some dm) rm tq rtq limit ratio p0 rq0 diff0 w)) =
  Some (w, Some dm, rm, if forallb (dist_suitable_entry dm ratio limit) l then None else Some false).
Proof.
  induction l as [|[p rq] r IH]; intros dm rm tq rtq limit ratio p0 rq0 diff0 w; [reflexivity|].
  cbn -[of_Z fdiv fmul fsub fabs fgt f_of_u].
  destruct (rq =? 0); cbn -[of_Z fdiv fmul fsub fabs fgt f_of_u]; [reflexivity|].
  rewrite aget_get.
  change (f_of_u (get dm p)) with (fN (get dm p)). change (f_of_u rq) with (fN rq).
  change (of_Z 1) with one. change (of_Z 100) with hundred.
  destruct (fgt _ limit); cbn -[of_Z fdiv fmul fsub fabs fgt f_of_u]; [reflexivity|].
  apply IH.
Qed.
Lemma tie_isDistributionSuitable w (dm ref : dist) tq rtq limit :
  gen_isDistributionSuitable w (Some dm) (Some ref) tq rtq limit =
  (w, Some dm, Some ref, dist_suitable dm ref tq rtq limit).
Proof.
  unfold gen_isDistributionSuitable. cbn -[of_Z fdiv fmul fsub fabs fgt f_of_u].
  rewrite dist_suitable_unfold.
  pose proof (isDistributionSuitable_loop ref dm (Some ref) tq rtq limit (fdiv (f_of_u rtq) (f_of_u tq)) 0 0 f_zero w) as H.
  change (f_of_u rtq) with (fN rtq) in *. change (f_of_u tq) with (fN tq) in *.
  destruct (range_loop _ _ _) as [v|v r|v|v|v]; cbn -[of_Z fdiv fmul fsub fabs fgt f_of_u] in *; try discriminate;
    destruct (forallb _ ref); now inversion H.
Qed.

(* ---- isSuitableConfig = suitable_combs *)
Definition suitable_obs (c : ctl isSuitableConfig_vars bool) : option (nat * option bool) :=
  match c with
  | Next v => Some (isSuitableConfig_w v, None)
  | Ret v r => Some (isSuitableConfig_w v, Some r)
  | _ => None
  end.
Definition suitable_comb (q rt : N) (limit : b64) (c : list N) : bool :=
  let dm := d c q [] in
  if is_filled_for c dm then dist_suitable dm (d c rt []) q rt limit else false.
Lemma isSuitableConfig_loop combs : forall combs0 ps0 q limit rt c0 m0 r0 s0 w,
  Forall (fun c : list N => c <> []) combs ->
  suitable_obs (range_loop gen_isSuitableConfig_loop1 combs
    (mk_isSuitableConfig_vars combs0 ps0 (Some dv) q limit rt c0 m0 r0 s0 w)) =
  Some ((w + suitable_calls combs d q rt limit)%nat,
        if forallb (suitable_comb q rt limit) combs then None else Some false).
Proof.
  induction combs as [|c r IH]; intros combs0 ps0 q limit rt c0 m0 r0 s0 w Hne.
  - cbn. now rewrite Nat.add_0_r.
  - inversion Hne as [|? ? Hc Hr]; subst.
    cbn. rewrite Hdv. rewrite tie_IsDistributionFilledFor_v1_call. cbn.
    unfold suitable_comb at 1.
    destruct (is_filled_for c (d c q [])); cbn.
    + rewrite Hdv. destruct c as [|p0 c]; [congruence|]. unfold v1_call.
      rewrite tie_isDistributionSuitable. cbn.
      destruct (dist_suitable (d (p0 :: c) q []) (d (p0 :: c) rt []) q rt limit); cbn.
      * rewrite IH by exact Hr. do 2 f_equal. lia.
      * do 2 f_equal. lia.
    + do 2 f_equal. lia.
Qed.
Lemma tie_isSuitableConfig w combs ps q limit :
  Forall (fun c : list N => c <> []) combs ->
  reference_factor * sum_list ps < u_modulus ->
  gen_isSuitableConfig w combs ps (Some dv) q limit =
  ((w + suitable_calls combs d q (reference_factor * sum_list ps) limit)%nat,
   suitable_combs is_filled_for combs ps d q limit).
Proof.
  intros Hne Hs. unfold gen_isSuitableConfig. cbn.
  rewrite tie_SumPriorities by (unfold reference_factor in Hs; lia). cbn.
  rewrite u_mul_small by exact Hs. fold reference_factor.
  pose proof (isSuitableConfig_loop combs combs ps q limit (reference_factor * sum_list ps) [] None None false w Hne) as H.
  change (suitable_combs is_filled_for combs ps d q limit)
    with (forallb (suitable_comb q (reference_factor * sum_list ps) limit) combs).
  destruct (range_loop _ _ _) as [v|v r|v|v|v]; cbn in *; try discriminate;
    destruct (forallb _ combs); now inversion H.
Qed.

(* ---- IsSuitableConfig = is_suitable *)
Lemma tie_IsSuitableConfig w ps q limit :
  (len_i ps < i_half)%Z -> reference_factor * sum_list ps < u_modulus ->
  gen_IsSuitableConfig w ps (Some dv) q limit = ((w + suitable_cost ps d limit q)%nat, is_suitable ps d q limit).
Proof.
  intros H Hs. unfold gen_IsSuitableConfig. cbn.
  rewrite tie_createSortedCopy. cbn.
  rewrite tie_genPriorityCombinations by (unfold len_i in *; now rewrite length_sort_desc). cbn.
  rewrite tie_isSuitableConfig by (try apply gen_combinations_nonempty; now rewrite sum_list_sort_desc).
  unfold suitable_cost. now rewrite sum_list_sort_desc.
Qed.

(* ---- PickUpMinSuitableQuantity = pick_min_suitable *)
Definition pick_obs_minS (c : ctl PickUpMinSuitableQuantity_vars N) : option (nat * N) :=
  match c with
  | Ret v r => Some (PickUpMinSuitableQuantity_w v, r)
  | Next v => Some (PickUpMinSuitableQuantity_w v, 0)
  | _ => None
  end.
Lemma PickUpMinSuitableQuantity_body ps0 combs mx limit q w :
  Forall (fun c : list N => c <> []) combs ->
  reference_factor * sum_list ps0 < u_modulus ->
  gen_PickUpMinSuitableQuantity_loop1 (mk_PickUpMinSuitableQuantity_vars ps0 (Some dv) mx limit combs q w) =
  let v' := mk_PickUpMinSuitableQuantity_vars ps0 (Some dv) mx limit combs q
              (w + suitable_calls combs d q (reference_factor * sum_list ps0) limit) in
  if suitable_combs is_filled_for combs ps0 d q limit then Ret v' q else Next v'.
Proof.
  intros Hne Hs. unfold gen_PickUpMinSuitableQuantity_loop1. cbn -[N.mul].
  rewrite tie_isSuitableConfig by assumption. cbn -[N.mul].
  now destruct (suitable_combs is_filled_for combs ps0 d q limit).
Qed.
Lemma PickUpMinSuitableQuantity_loop ps0 combs mx limit :
  Forall (fun c : list N => c <> []) combs ->
  reference_factor * sum_list ps0 < u_modulus ->
  forall n fuel q w,
  (n < fuel)%nat -> q + N.of_nat n = mx + 1 -> mx + 1 < u_modulus ->
  pick_obs_minS
    (while_loop fuel
       (fun v => N.leb (PickUpMinSuitableQuantity_quantity v) (PickUpMinSuitableQuantity_maxQuantity v))
       gen_PickUpMinSuitableQuantity_loop1
       (fun v => set_PickUpMinSuitableQuantity_quantity (u_add (PickUpMinSuitableQuantity_quantity v) 1) v)
       (mk_PickUpMinSuitableQuantity_vars ps0 (Some dv) mx limit combs q w)) =
  Some ((w + pick_min_calls (fun q => suitable_combs is_filled_for combs ps0 d q limit)
                            (fun q => suitable_calls combs d q (reference_factor * sum_list ps0) limit) q n)%nat,
        pick_min_from (fun q => suitable_combs is_filled_for combs ps0 d q limit) q n).
Proof.
  intros Hne Hs.
  induction n as [|n IH]; intros fuel q w Hf Hq Hmx; (destruct fuel as [|fuel]; [lia|]).
  - cbn. replace (q <=? mx) with false by (symmetry; apply N.leb_gt; lia). cbn. now rewrite Nat.add_0_r.
  - rewrite while_loop_S. cbn beta. cbn [PickUpMinSuitableQuantity_quantity PickUpMinSuitableQuantity_maxQuantity].
    replace (q <=? mx) with true by (symmetry; apply N.leb_le; lia).
    rewrite PickUpMinSuitableQuantity_body by assumption. cbn zeta. cbn [pick_min_calls pick_min_from].
    destruct (suitable_combs is_filled_for combs ps0 d q limit); cbn -[N.of_nat while_loop N.mul].
    + do 2 f_equal. lia.
    + rewrite u_add_small by lia. rewrite IH by lia. do 2 f_equal. lia.
Qed.

Lemma tie_PickUpMinSuitableQuantity fuel w ps mx limit :
  (len_i ps < i_half)%Z -> reference_factor * sum_list ps < u_modulus ->
  mx + 1 < u_modulus -> (N.to_nat mx < fuel)%nat ->
  gen_PickUpMinSuitableQuantity fuel w ps (Some dv) mx limit =
  Some ((w + pick_min_calls (fun q => is_suitable ps d q limit) (suitable_cost ps d limit) 1 (N.to_nat mx))%nat,
        pick_min_suitable ps d mx limit).
Proof.
  intros H Hs Hmx Hf. unfold gen_PickUpMinSuitableQuantity. cbn.
  rewrite tie_createSortedCopy. cbn.
  rewrite tie_genPriorityCombinations by (unfold len_i in *; now rewrite length_sort_desc). cbn.
  set (L := while_loop _ _ _ _ _).
  assert (HL : pick_obs_minS L =
               Some ((w + pick_min_calls (fun q => is_suitable ps d q limit) (suitable_cost ps d limit) 1 (N.to_nat mx))%nat,
                     pick_min_suitable ps d mx limit)).
  { unfold suitable_cost. rewrite <- (sum_list_sort_desc ps).
    apply PickUpMinSuitableQuantity_loop; rewrite ?sum_list_sort_desc; try apply gen_combinations_nonempty; lia. }
  destruct L as [v|v r|v|v|v]; cbn in *; try discriminate; congruence.
Qed.

(* ---- PickUpMaxSuitableQuantity = pick_max_suitable *)
Definition pick_obs_maxS (c : ctl PickUpMaxSuitableQuantity_vars N) : option (nat * N) :=
  match c with
  | Ret v r => Some (PickUpMaxSuitableQuantity_w v, r)
  | Next v => Some (PickUpMaxSuitableQuantity_w v, 0)
  | _ => None
  end.
Lemma PickUpMaxSuitableQuantity_body ps0 combs mx limit q w :
  Forall (fun c : list N => c <> []) combs ->
  reference_factor * sum_list ps0 < u_modulus ->
  gen_PickUpMaxSuitableQuantity_loop1 (mk_PickUpMaxSuitableQuantity_vars ps0 (Some dv) mx limit combs q w) =
  let v' := mk_PickUpMaxSuitableQuantity_vars ps0 (Some dv) mx limit combs q
              (w + suitable_calls combs d q (reference_factor * sum_list ps0) limit) in
  if suitable_combs is_filled_for combs ps0 d q limit then Ret v' q else Next v'.
Proof.
  intros Hne Hs. unfold gen_PickUpMaxSuitableQuantity_loop1. cbn -[N.mul].
  rewrite tie_isSuitableConfig by assumption. cbn -[N.mul].
  now destruct (suitable_combs is_filled_for combs ps0 d q limit).
Qed.
Lemma PickUpMaxSuitableQuantity_loop ps0 combs mx limit :
  Forall (fun c : list N => c <> []) combs ->
  reference_factor * sum_list ps0 < u_modulus ->
  forall n fuel q w,
  (n < fuel)%nat -> q = N.of_nat n -> q < u_modulus ->
  pick_obs_maxS
    (while_loop fuel
       (fun v => negb (N.eqb (PickUpMaxSuitableQuantity_quantity v) 0))
       gen_PickUpMaxSuitableQuantity_loop1
       (fun v => set_PickUpMaxSuitableQuantity_quantity (u_sub (PickUpMaxSuitableQuantity_quantity v) 1) v)
       (mk_PickUpMaxSuitableQuantity_vars ps0 (Some dv) mx limit combs q w)) =
  Some ((w + pick_max_calls (fun q => suitable_combs is_filled_for combs ps0 d q limit)
                            (fun q => suitable_calls combs d q (reference_factor * sum_list ps0) limit) n)%nat,
        pick_max_nat (fun q => suitable_combs is_filled_for combs ps0 d q limit) n).
Proof.
  intros Hne Hs.
  induction n as [|n IH]; intros fuel q w Hf Hq Hlt; (destruct fuel as [|fuel]; [lia|]).
  - subst q. cbn. now rewrite Nat.add_0_r.
  - rewrite while_loop_S. cbn beta. cbn [PickUpMaxSuitableQuantity_quantity].
    replace (q =? 0) with false by (symmetry; apply N.eqb_neq; lia). cbn [negb].
    rewrite PickUpMaxSuitableQuantity_body by assumption. cbn zeta. cbn [pick_max_calls pick_max_nat]. rewrite <- Hq.
    destruct (suitable_combs is_filled_for combs ps0 d q limit); cbn -[N.of_nat while_loop N.mul].
    + do 2 f_equal. lia.
    + rewrite u_sub_small by lia. rewrite (IH fuel (q - 1) _) by lia. do 2 f_equal. lia.
Qed.

Lemma tie_PickUpMaxSuitableQuantity fuel w ps mx limit :
  (len_i ps < i_half)%Z -> reference_factor * sum_list ps < u_modulus ->
  mx < u_modulus -> (N.to_nat mx < fuel)%nat ->
  gen_PickUpMaxSuitableQuantity fuel w ps (Some dv) mx limit =
  Some ((w + pick_max_calls (fun q => is_suitable ps d q limit) (suitable_cost ps d limit) (N.to_nat mx))%nat,
        pick_max_suitable ps d mx limit).
Proof.
  intros H Hs Hmx Hf. unfold gen_PickUpMaxSuitableQuantity. cbn.
  rewrite tie_createSortedCopy. cbn.
  rewrite tie_genPriorityCombinations by (unfold len_i in *; now rewrite length_sort_desc). cbn.
  set (L := while_loop _ _ _ _ _).
  assert (HL : pick_obs_maxS L =
               Some ((w + pick_max_calls (fun q => is_suitable ps d q limit) (suitable_cost ps d limit) (N.to_nat mx))%nat,
                     pick_max_suitable ps d mx limit)).
  { unfold suitable_cost. rewrite <- (sum_list_sort_desc ps).
    apply PickUpMaxSuitableQuantity_loop; rewrite ?sum_list_sort_desc; try apply gen_combinations_nonempty; lia. }
  destruct L as [v|v r|v|v|v]; cbn in *; try discriminate; congruence.
Qed.

End WithDivider.
End V1.

(* ================================================================== the boundary maxQuantity = MaxUint64 *)

(* `for quantity := 1; quantity <= maxQuantity; quantity++` never ends when maxQuantity = 2^64-1 and no quantity passes
   the test (quantity wraps around to 0): the generated function runs out of every fuel, whereas the model's
   pick_min gives 0.  This is why the ties of PickUpMin* ask for maxQuantity + 1 < 2^64. *)
Lemma pick_min_from_none pred : (forall q, pred q = false) -> forall n q, pick_min_from pred q n = 0.
Proof. intros H; induction n as [|n IH]; intros q; simpl; [reflexivity|]. now rewrite H. Qed.

Theorem v2_PickUpMinNonFatal_MaxUint64_diverges dv d ps w :
  (forall k c q, dv k c q (Some []) = Some (d c q [])) ->
  (len_i ps < i_half)%Z ->
  (forall q, is_nonfatal ps d q = false) ->
  (forall fuel, GenV2Utils.gen_PickUpMinNonFatalQuantity fuel w ps (Some dv) (u_modulus - 1) = None) /\
  pick_min_nonfatal ps d (u_modulus - 1) = 0.
Proof.
  intros Hdv H Hno. split; [|now apply pick_min_from_none].
  intros fuel. unfold GenV2Utils.gen_PickUpMinNonFatalQuantity. cbn.
  rewrite V2.tie_createSortedCopy. cbn.
  rewrite V2.tie_genCombinations by (unfold len_i in *; now rewrite length_sort_desc). cbn.
  set (ps' := Sched.sort_desc ps).
  assert (L : forall fuel q w, q < u_modulus -> exists v,
    while_loop fuel
      (fun v => N.leb (GenV2Utils.PickUpMinNonFatalQuantity_quantity v) (GenV2Utils.PickUpMinNonFatalQuantity_maxQuantity v))
      GenV2Utils.gen_PickUpMinNonFatalQuantity_loop1
      (fun v => GenV2Utils.set_PickUpMinNonFatalQuantity_quantity (u_add (GenV2Utils.PickUpMinNonFatalQuantity_quantity v) 1) v)
      (GenV2Utils.mk_PickUpMinNonFatalQuantity_vars ps' (Some dv) (u_modulus - 1) (gen_combinations ps') q w) = Fuel v).
  { clear fuel w. induction fuel as [|fuel IH]; intros q w Hq; [eexists; reflexivity|].
    rewrite while_loop_S. cbn beta.
    cbn [GenV2Utils.PickUpMinNonFatalQuantity_quantity GenV2Utils.PickUpMinNonFatalQuantity_maxQuantity].
    replace (q <=? u_modulus - 1) with true by (symmetry; apply N.leb_le; lia).
    unfold GenV2Utils.gen_PickUpMinNonFatalQuantity_loop1. cbn -[while_loop].
    rewrite (V2.tie_isNonFatalConfig dv d Hdv). cbn -[while_loop].
    change (nonfatal_combs is_filled_for (gen_combinations ps') d q) with (is_nonfatal ps d q). rewrite Hno.
    cbn -[while_loop]. apply IH. apply u_add_lt. }
  destruct (L fuel 1 w) as [v E]; [reflexivity|].
  cbn in E. cbn. rewrite E. reflexivity.
Qed.

(* ==== main tie theorems ==== *)

(* `Some dv` behaves like the pure divider d on the calls the utils functions make *)
Definition pure_on_fresh_v2 (dv : divider_fn) (d : Divider) : Prop :=
  forall k c q, dv k c q (Some []) = Some (d c q []).
Definition pure_on_nil_v1 (dv : divider_fn) (d : Divider) : Prop :=
  forall k c q, dv k c q None = v1_call d c q None.
Lemma lift2_pure d : pure_on_fresh_v2 (lift2 d) d.        Proof. intros k c q; reflexivity. Qed.
Lemma lift1_pure d : pure_on_nil_v1 (lift1 d) d.          Proof. intros k c q; reflexivity. Qed.
(* a constant family of the model's v2/v1 wrappers, as asked: forall k, dv k = v2_call d *)
Lemma const_pure_v2 dv d : (forall k, dv k = fun ps q m => v2_call d ps q m) -> pure_on_fresh_v2 dv d.
Proof. intros H k c q. now rewrite H. Qed.
Lemma const_pure_v1 dv d : (forall k, dv k = fun ps q m => v1_call d ps q m) -> pure_on_nil_v1 dv d.
Proof. intros H k c q. now rewrite H. Qed.

(* ---------------- v2: v2/priority/utils/utils.go *)

Theorem tie_v2_genCombinations w ps :
  (len_i ps < i_half)%Z ->
  GenV2Utils.gen_genCombinations w ps = (w, gen_combinations ps).
Proof. apply V2.tie_genCombinations. Qed.

Theorem tie_v2_IsNonFatalConfig dv d w ps q :
  pure_on_fresh_v2 dv d -> (len_i ps < i_half)%Z ->
  GenV2Utils.gen_IsNonFatalConfig w ps (Some dv) q = ((w + nonfatal_cost ps d q)%nat, is_nonfatal ps d q).
Proof. intros Hdv. now apply V2.tie_IsNonFatalConfig. Qed.

Theorem tie_v2_PickUpMinNonFatal dv d fuel w ps mx :
  pure_on_fresh_v2 dv d -> (len_i ps < i_half)%Z -> mx + 1 < u_modulus -> (N.to_nat mx < fuel)%nat ->
  GenV2Utils.gen_PickUpMinNonFatalQuantity fuel w ps (Some dv) mx =
  Some ((w + pick_min_calls (is_nonfatal ps d) (nonfatal_cost ps d) 1 (N.to_nat mx))%nat, pick_min_nonfatal ps d mx).
Proof. intros Hdv. now apply V2.tie_PickUpMinNonFatalQuantity. Qed.

Theorem tie_v2_PickUpMaxNonFatal dv d fuel w ps mx :
  pure_on_fresh_v2 dv d -> (len_i ps < i_half)%Z -> mx < u_modulus -> (N.to_nat mx < fuel)%nat ->
  GenV2Utils.gen_PickUpMaxNonFatalQuantity fuel w ps (Some dv) mx =
  Some ((w + pick_max_calls (is_nonfatal ps d) (nonfatal_cost ps d) (N.to_nat mx))%nat, pick_max_nonfatal ps d mx).
Proof. intros Hdv. now apply V2.tie_PickUpMaxNonFatalQuantity. Qed.

Theorem tie_v2_IsSuitableConfig dv d w ps q limit :
  pure_on_fresh_v2 dv d -> (len_i ps < i_half)%Z -> reference_factor * sum_list ps < u_modulus ->
  GenV2Utils.gen_IsSuitableConfig w ps (Some dv) q limit =
  ((w + suitable_cost ps d limit q)%nat, is_suitable ps d q limit).
Proof. intros Hdv. now apply V2.tie_IsSuitableConfig. Qed.

Theorem tie_v2_PickUpMinSuitable dv d fuel w ps mx limit :
  pure_on_fresh_v2 dv d -> (len_i ps < i_half)%Z -> reference_factor * sum_list ps < u_modulus ->
  mx + 1 < u_modulus -> (N.to_nat mx < fuel)%nat ->
  GenV2Utils.gen_PickUpMinSuitableQuantity fuel w ps (Some dv) mx limit =
  Some ((w + pick_min_calls (fun q => is_suitable ps d q limit) (suitable_cost ps d limit) 1 (N.to_nat mx))%nat,
        pick_min_suitable ps d mx limit).
Proof. intros Hdv. now apply V2.tie_PickUpMinSuitableQuantity. Qed.

Theorem tie_v2_PickUpMaxSuitable dv d fuel w ps mx limit :
  pure_on_fresh_v2 dv d -> (len_i ps < i_half)%Z -> reference_factor * sum_list ps < u_modulus ->
  mx < u_modulus -> (N.to_nat mx < fuel)%nat ->
  GenV2Utils.gen_PickUpMaxSuitableQuantity fuel w ps (Some dv) mx limit =
  Some ((w + pick_max_calls (fun q => is_suitable ps d q limit) (suitable_cost ps d limit) (N.to_nat mx))%nat,
        pick_max_suitable ps d mx limit).
Proof. intros Hdv. now apply V2.tie_PickUpMaxSuitableQuantity. Qed.

(* ---------------- v1: priority/utils.go (genCombinations is called genPriorityCombinations there) *)

Theorem tie_v1_genCombinations w ps :
  (len_i ps < i_half)%Z ->
  GenV1Utils.gen_genPriorityCombinations w ps = (w, gen_combinations ps).
Proof. apply V1.tie_genPriorityCombinations. Qed.

Theorem tie_v1_IsNonFatalConfig dv d w ps q :
  pure_on_nil_v1 dv d -> (len_i ps < i_half)%Z ->
  GenV1Utils.gen_IsNonFatalConfig w ps (Some dv) q = ((w + nonfatal_cost ps d q)%nat, is_nonfatal ps d q).
Proof. intros Hdv. now apply V1.tie_IsNonFatalConfig. Qed.

Theorem tie_v1_PickUpMinNonFatal dv d fuel w ps mx :
  pure_on_nil_v1 dv d -> (len_i ps < i_half)%Z -> mx + 1 < u_modulus -> (N.to_nat mx < fuel)%nat ->
  GenV1Utils.gen_PickUpMinNonFatalQuantity fuel w ps (Some dv) mx =
  Some ((w + pick_min_calls (is_nonfatal ps d) (nonfatal_cost ps d) 1 (N.to_nat mx))%nat, pick_min_nonfatal ps d mx).
Proof. intros Hdv. now apply V1.tie_PickUpMinNonFatalQuantity. Qed.

Theorem tie_v1_PickUpMaxNonFatal dv d fuel w ps mx :
  pure_on_nil_v1 dv d -> (len_i ps < i_half)%Z -> mx < u_modulus -> (N.to_nat mx < fuel)%nat ->
  GenV1Utils.gen_PickUpMaxNonFatalQuantity fuel w ps (Some dv) mx =
  Some ((w + pick_max_calls (is_nonfatal ps d) (nonfatal_cost ps d) (N.to_nat mx))%nat, pick_max_nonfatal ps d mx).
Proof. intros Hdv. now apply V1.tie_PickUpMaxNonFatalQuantity. Qed.

Theorem tie_v1_IsSuitableConfig dv d w ps q limit :
  pure_on_nil_v1 dv d -> (len_i ps < i_half)%Z -> reference_factor * sum_list ps < u_modulus ->
  GenV1Utils.gen_IsSuitableConfig w ps (Some dv) q limit =
  ((w + suitable_cost ps d limit q)%nat, is_suitable ps d q limit).
Proof. intros Hdv. now apply V1.tie_IsSuitableConfig. Qed.

Theorem tie_v1_PickUpMinSuitable dv d fuel w ps mx limit :
  pure_on_nil_v1 dv d -> (len_i ps < i_half)%Z -> reference_factor * sum_list ps < u_modulus ->
  mx + 1 < u_modulus -> (N.to_nat mx < fuel)%nat ->
  GenV1Utils.gen_PickUpMinSuitableQuantity fuel w ps (Some dv) mx limit =
  Some ((w + pick_min_calls (fun q => is_suitable ps d q limit) (suitable_cost ps d limit) 1 (N.to_nat mx))%nat,
        pick_min_suitable ps d mx limit).
Proof. intros Hdv. now apply V1.tie_PickUpMinSuitableQuantity. Qed.

Theorem tie_v1_PickUpMaxSuitable dv d fuel w ps mx limit :
  pure_on_nil_v1 dv d -> (len_i ps < i_half)%Z -> reference_factor * sum_list ps < u_modulus ->
  mx < u_modulus -> (N.to_nat mx < fuel)%nat ->
  GenV1Utils.gen_PickUpMaxSuitableQuantity fuel w ps (Some dv) mx limit =
  Some ((w + pick_max_calls (fun q => is_suitable ps d q limit) (suitable_cost ps d limit) (N.to_nat mx))%nat,
        pick_max_suitable ps d mx limit).
Proof. intros Hdv. now apply V1.tie_PickUpMaxSuitableQuantity. Qed.

(* ---------------- the results alone (without the world counter) *)
Corollary tie_v2_IsNonFatalConfig_result dv d w ps q :
  pure_on_fresh_v2 dv d -> (len_i ps < i_half)%Z ->
  snd (GenV2Utils.gen_IsNonFatalConfig w ps (Some dv) q) = is_nonfatal ps d q.
Proof. intros. now rewrite (tie_v2_IsNonFatalConfig dv d). Qed.
Corollary tie_v2_PickUpMinNonFatal_result dv d fuel w ps mx :
  pure_on_fresh_v2 dv d -> (len_i ps < i_half)%Z -> mx + 1 < u_modulus -> (N.to_nat mx < fuel)%nat ->
  option_map snd (GenV2Utils.gen_PickUpMinNonFatalQuantity fuel w ps (Some dv) mx) = Some (pick_min_nonfatal ps d mx).
Proof. intros. now rewrite (tie_v2_PickUpMinNonFatal dv d). Qed.
Corollary tie_v2_PickUpMaxNonFatal_result dv d fuel w ps mx :
  pure_on_fresh_v2 dv d -> (len_i ps < i_half)%Z -> mx < u_modulus -> (N.to_nat mx < fuel)%nat ->
  option_map snd (GenV2Utils.gen_PickUpMaxNonFatalQuantity fuel w ps (Some dv) mx) = Some (pick_max_nonfatal ps d mx).
Proof. intros. now rewrite (tie_v2_PickUpMaxNonFatal dv d). Qed.
Corollary tie_v2_IsSuitableConfig_result dv d w ps q limit :
  pure_on_fresh_v2 dv d -> (len_i ps < i_half)%Z -> reference_factor * sum_list ps < u_modulus ->
  snd (GenV2Utils.gen_IsSuitableConfig w ps (Some dv) q limit) = is_suitable ps d q limit.
Proof. intros. now rewrite (tie_v2_IsSuitableConfig dv d). Qed.
Corollary tie_v2_PickUpMinSuitable_result dv d fuel w ps mx limit :
  pure_on_fresh_v2 dv d -> (len_i ps < i_half)%Z -> reference_factor * sum_list ps < u_modulus ->
  mx + 1 < u_modulus -> (N.to_nat mx < fuel)%nat ->
  option_map snd (GenV2Utils.gen_PickUpMinSuitableQuantity fuel w ps (Some dv) mx limit) =
  Some (pick_min_suitable ps d mx limit).
Proof. intros. now rewrite (tie_v2_PickUpMinSuitable dv d). Qed.
Corollary tie_v2_PickUpMaxSuitable_result dv d fuel w ps mx limit :
  pure_on_fresh_v2 dv d -> (len_i ps < i_half)%Z -> reference_factor * sum_list ps < u_modulus ->
  mx < u_modulus -> (N.to_nat mx < fuel)%nat ->
  option_map snd (GenV2Utils.gen_PickUpMaxSuitableQuantity fuel w ps (Some dv) mx limit) =
  Some (pick_max_suitable ps d mx limit).
Proof. intros. now rewrite (tie_v2_PickUpMaxSuitable dv d). Qed.

Corollary tie_v1_IsNonFatalConfig_result dv d w ps q :
  pure_on_nil_v1 dv d -> (len_i ps < i_half)%Z ->
  snd (GenV1Utils.gen_IsNonFatalConfig w ps (Some dv) q) = is_nonfatal ps d q.
Proof. intros. now rewrite (tie_v1_IsNonFatalConfig dv d). Qed.
Corollary tie_v1_PickUpMinNonFatal_result dv d fuel w ps mx :
  pure_on_nil_v1 dv d -> (len_i ps < i_half)%Z -> mx + 1 < u_modulus -> (N.to_nat mx < fuel)%nat ->
  option_map snd (GenV1Utils.gen_PickUpMinNonFatalQuantity fuel w ps (Some dv) mx) = Some (pick_min_nonfatal ps d mx).
Proof. intros. now rewrite (tie_v1_PickUpMinNonFatal dv d). Qed.
Corollary tie_v1_PickUpMaxNonFatal_result dv d fuel w ps mx :
  pure_on_nil_v1 dv d -> (len_i ps < i_half)%Z -> mx < u_modulus -> (N.to_nat mx < fuel)%nat ->
  option_map snd (GenV1Utils.gen_PickUpMaxNonFatalQuantity fuel w ps (Some dv) mx) = Some (pick_max_nonfatal ps d mx).
Proof. intros. now rewrite (tie_v1_PickUpMaxNonFatal dv d). Qed.
Corollary tie_v1_IsSuitableConfig_result dv d w ps q limit :
  pure_on_nil_v1 dv d -> (len_i ps < i_half)%Z -> reference_factor * sum_list ps < u_modulus ->
  snd (GenV1Utils.gen_IsSuitableConfig w ps (Some dv) q limit) = is_suitable ps d q limit.
Proof. intros. now rewrite (tie_v1_IsSuitableConfig dv d). Qed.
Corollary tie_v1_PickUpMinSuitable_result dv d fuel w ps mx limit :
  pure_on_nil_v1 dv d -> (len_i ps < i_half)%Z -> reference_factor * sum_list ps < u_modulus ->
  mx + 1 < u_modulus -> (N.to_nat mx < fuel)%nat ->
  option_map snd (GenV1Utils.gen_PickUpMinSuitableQuantity fuel w ps (Some dv) mx limit) =
  Some (pick_min_suitable ps d mx limit).
Proof. intros. now rewrite (tie_v1_PickUpMinSuitable dv d). Qed.
Corollary tie_v1_PickUpMaxSuitable_result dv d fuel w ps mx limit :
  pure_on_nil_v1 dv d -> (len_i ps < i_half)%Z -> reference_factor * sum_list ps < u_modulus ->
  mx < u_modulus -> (N.to_nat mx < fuel)%nat ->
  option_map snd (GenV1Utils.gen_PickUpMaxSuitableQuantity fuel w ps (Some dv) mx limit) =
  Some (pick_max_suitable ps d mx limit).
Proof. intros. now rewrite (tie_v1_PickUpMaxSuitable dv d). Qed.

(* ---------------- every main theorem on a small concrete input (hypotheses are satisfiable; the right-hand side
   is the model, evaluated).  Dividers: the models of Fair and Rate lifted to function values.
   is_nonfatal [70;20;10] (rate part_f) q for q = 1..12 is  f f f f f T T f T T T T  (not monotone);
   is_suitable [3;1;2] (rate part_f) q 10%% for q = 1..25 is true exactly at 12 13 19 20 22 24 25. *)
Local Ltac side := first [apply lift2_pure | apply lift1_pure | vm_compute; reflexivity | vm_compute; lia].

Example ex_v2_genCombinations :
  GenV2Utils.gen_genCombinations 0 [3;2;1] = (0%nat, [[3]; [3;2]; [2]; [3;1]; [3;2;1]; [2;1]; [1]]).
Proof. rewrite tie_v2_genCombinations by side. reflexivity. Qed.
Example ex_v2_IsNonFatalConfig_false :
  GenV2Utils.gen_IsNonFatalConfig 5 [3;1;2] (Some (lift2 fair)) 2 = (10%nat, false).
Proof. rewrite (tie_v2_IsNonFatalConfig _ fair) by side. vm_compute. reflexivity. Qed.
Example ex_v2_IsNonFatalConfig_true :
  GenV2Utils.gen_IsNonFatalConfig 5 [3;1;2] (Some (lift2 fair)) 3 = (12%nat, true).
Proof. rewrite (tie_v2_IsNonFatalConfig _ fair) by side. vm_compute. reflexivity. Qed.
Example ex_v2_PickUpMinNonFatal :
  GenV2Utils.gen_PickUpMinNonFatalQuantity 13 0 [70;20;10] (Some (lift2 (rate part_f))) 12 = Some (24%nat, 6).
Proof. rewrite (tie_v2_PickUpMinNonFatal _ (rate part_f)) by side. vm_compute. reflexivity. Qed.
Example ex_v2_PickUpMaxNonFatal :
  GenV2Utils.gen_PickUpMaxNonFatalQuantity 9 0 [70;20;10] (Some (lift2 (rate part_f))) 8 = Some (12%nat, 7).
Proof. rewrite (tie_v2_PickUpMaxNonFatal _ (rate part_f)) by side. vm_compute. reflexivity. Qed.
Example ex_v2_IsSuitableConfig_false :
  GenV2Utils.gen_IsSuitableConfig 5 [3;1;2] (Some (lift2 (rate part_f))) 7 (of_Z 10) = (13%nat, false).
Proof. rewrite (tie_v2_IsSuitableConfig _ (rate part_f)) by side. vm_compute. reflexivity. Qed.
Example ex_v2_IsSuitableConfig_true :
  GenV2Utils.gen_IsSuitableConfig 5 [3;1;2] (Some (lift2 (rate part_f))) 12 (of_Z 10) = (19%nat, true).
Proof. rewrite (tie_v2_IsSuitableConfig _ (rate part_f)) by side. vm_compute. reflexivity. Qed.
Example ex_v2_PickUpMinSuitable :
  GenV2Utils.gen_PickUpMinSuitableQuantity 26 5 [3;1;2] (Some (lift2 (rate part_f))) 25 (of_Z 10) = Some (86%nat, 12).
Proof. rewrite (tie_v2_PickUpMinSuitable _ (rate part_f)) by side. vm_compute. reflexivity. Qed.
Example ex_v2_PickUpMaxSuitable :
  GenV2Utils.gen_PickUpMaxSuitableQuantity 19 5 [3;1;2] (Some (lift2 (rate part_f))) 18 (of_Z 10) = Some (65%nat, 13).
Proof. rewrite (tie_v2_PickUpMaxSuitable _ (rate part_f)) by side. vm_compute. reflexivity. Qed.

Example ex_v1_genCombinations :
  GenV1Utils.gen_genPriorityCombinations 0 [3;2;1] = (0%nat, [[3]; [3;2]; [2]; [3;1]; [3;2;1]; [2;1]; [1]]).
Proof. rewrite tie_v1_genCombinations by side. reflexivity. Qed.
Example ex_v1_IsNonFatalConfig_false :
  GenV1Utils.gen_IsNonFatalConfig 5 [3;1;2] (Some (lift1 fair)) 2 = (10%nat, false).
Proof. rewrite (tie_v1_IsNonFatalConfig _ fair) by side. vm_compute. reflexivity. Qed.
Example ex_v1_IsNonFatalConfig_true :
  GenV1Utils.gen_IsNonFatalConfig 5 [3;1;2] (Some (lift1 fair)) 3 = (12%nat, true).
Proof. rewrite (tie_v1_IsNonFatalConfig _ fair) by side. vm_compute. reflexivity. Qed.
Example ex_v1_PickUpMinNonFatal :
  GenV1Utils.gen_PickUpMinNonFatalQuantity 13 0 [70;20;10] (Some (lift1 (rate part_f))) 12 = Some (24%nat, 6).
Proof. rewrite (tie_v1_PickUpMinNonFatal _ (rate part_f)) by side. vm_compute. reflexivity. Qed.
Example ex_v1_PickUpMaxNonFatal :
  GenV1Utils.gen_PickUpMaxNonFatalQuantity 9 0 [70;20;10] (Some (lift1 (rate part_f))) 8 = Some (12%nat, 7).
Proof. rewrite (tie_v1_PickUpMaxNonFatal _ (rate part_f)) by side. vm_compute. reflexivity. Qed.
Example ex_v1_IsSuitableConfig_true :
  GenV1Utils.gen_IsSuitableConfig 5 [3;1;2] (Some (lift1 (rate part_f))) 12 (of_Z 10) = (19%nat, true).
Proof. rewrite (tie_v1_IsSuitableConfig _ (rate part_f)) by side. vm_compute. reflexivity. Qed.
Example ex_v1_PickUpMinSuitable :
  GenV1Utils.gen_PickUpMinSuitableQuantity 26 5 [3;1;2] (Some (lift1 (rate part_f))) 25 (of_Z 10) = Some (86%nat, 12).
Proof. rewrite (tie_v1_PickUpMinSuitable _ (rate part_f)) by side. vm_compute. reflexivity. Qed.
Example ex_v1_PickUpMaxSuitable :
  GenV1Utils.gen_PickUpMaxSuitableQuantity 19 5 [3;1;2] (Some (lift1 (rate part_f))) 18 (of_Z 10) = Some (65%nat, 13).
Proof. rewrite (tie_v1_PickUpMaxSuitable _ (rate part_f)) by side. vm_compute. reflexivity. Qed.

(* the MaxUint64 boundary on a concrete configuration: the divider that leaves the map empty is never non-fatal *)
Example ex_v2_PickUpMinNonFatal_MaxUint64 :
  (forall fuel, GenV2Utils.gen_PickUpMinNonFatalQuantity fuel 0 [1] (Some (lift2 (fun _ _ m => m))) 18446744073709551615 = None)
  /\ pick_min_nonfatal [1] (fun _ _ m => m) 18446744073709551615 = 0.
Proof.
  apply (v2_PickUpMinNonFatal_MaxUint64_diverges (lift2 (fun _ _ m => m)) (fun _ _ m => m) [1] 0%nat);
    [apply lift2_pure|vm_compute; reflexivity|intros q; reflexivity].
Qed.

(* the bound reference_factor * sum_list ps < 2^64 is needed: the Go code computes 1000 * SumPriorities in uint (wraps),
   the model in N.  For the single priority 2^63 the product wraps to 0, the reference distribution is all zero and the
   code answers false, whereas the model (exact product) answers true. *)
Example ex_v2_IsSuitableConfig_overflow :
  GenV2Utils.gen_IsSuitableConfig 0 [9223372036854775808] (Some (lift2 fair)) 10 (of_Z 10) = (2%nat, false) /\
  GenV1Utils.gen_IsSuitableConfig 0 [9223372036854775808] (Some (lift1 fair)) 10 (of_Z 10) = (2%nat, false) /\
  is_suitable [9223372036854775808] fair 10 (of_Z 10) = true.
Proof. repeat split; vm_compute; reflexivity. Qed.
