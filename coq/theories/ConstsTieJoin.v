(* The constants the models use are the constants of the current Go sources: SrcConsts.v is regenerated from /repo on every run
   (tools/srcconsts evaluates the constant declarations from the AST), and every lemma below is closed by computation.  A changed
   constant breaks the lemma that ties it, i.e. a proof obligation of the properties that depend on it.  One file per discipline,
   so that a changed constant of one discipline does not touch the obligations of another. *)
From Coq Require Import List ZArith Bool.
From Cqos Require Import Join SrcConsts.
Import ListNotations.

(* ---- join / unite: calcInterruptInterval and the default inaccuracy ---- *)
Definition calc_interval_src (v1 : bool) (timeout inaccuracy : Z) : Z + Z :=
  let hundred := if v1 then v1_hundred_percent else v2_hundred_percent in
  if (timeout <=? 0)%Z then inl 0%Z
  else if (inaccuracy =? 0)%Z then inr 1%Z
  else let divider := (hundred / inaccuracy)%Z in
       if (divider =? 0)%Z then inr 2%Z
       else let i := (timeout / divider)%Z in
            if v1 then (if (i <? v1_reliably_measurable_duration)%Z then inr 3%Z else inl i)
            else (if (i =? 0)%Z then inr 3%Z else inl i).
Lemma tie_join_interval : forall v1 timeout inaccuracy, calc_interval v1 timeout inaccuracy = calc_interval_src v1 timeout inaccuracy.
Proof. intros [|] timeout inaccuracy; reflexivity. Qed.
Lemma tie_join_default_inaccuracy :
  normalize_inaccuracy 0 = v2_join_default_timeout_inaccuracy /\ normalize_inaccuracy 0 = v1_join_default_timeout_inaccuracy.
Proof. split; reflexivity. Qed.
(* the documented minimum timeouts are what the constructor accepts with the default inaccuracy *)
Lemma tie_join_min_timeout :
  (exists i, calc_interval false v2_join_min_timeout (normalize_inaccuracy 0) = inl i) /\
  calc_interval false (v2_join_min_timeout - 1) (normalize_inaccuracy 0) = inr 3%Z /\
  (exists i, calc_interval true v1_join_default_min_timeout (normalize_inaccuracy 0) = inl i) /\
  calc_interval true (v1_join_default_min_timeout - 1) (normalize_inaccuracy 0) = inr 3%Z.
Proof. repeat split; try (eexists; vm_compute; reflexivity); vm_compute; reflexivity. Qed.

