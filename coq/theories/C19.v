(* C19: when a discipline has terminated its goroutine(s) have nothing left to do -- the terminal program counter of each
   model enables no step -- and, for the simplified v2 discipline, termination of the inner discipline means that no handler
   holds an item, so every handler goroutine leaves its `range Output()` loop.  Which goroutines exist at all is read off the
   generated facts (PropertiesConf.C19_goroutines). *)
From Coq Require Import List ZArith NArith Bool.
From Cqos Require Import Base Divider Sched Join Limit Prio2 Prio2P.
Import ListNotations.

Lemma join_closed_final c s e :
  Join.pc s = Closed -> jstep c s e = None \/ exists t, e = StopCall t.
Proof.
  intros Hpc. unfold jstep. rewrite Hpc. destruct e; auto. right. eexists; reflexivity.
Qed.

Lemma limit_closed_final' c e : lstep c LClosed e = None.
Proof. destruct e; reflexivity. Qed.

Lemma prio2_done_final dv s e : Prio2.pcs s = Prio2.Done e -> Prio2.sched_step dv s = None.
Proof. intros H. unfold Prio2.sched_step. rewrite H. reflexivity. Qed.

(* v2 simplified discipline: once the inner discipline is Done nothing is held by any handler and the output is empty (and
   closed): all HandlersQuantity handler goroutines are at `range Output()` and leave it *)
Lemma simple2_handlers_exit dv
  (dv_wf : forall k ps n d, NoDup (keys d) -> NoDup (keys (dv k ps n d))) s0 s e :
  Init s0 -> Prio2.reachable dv s0 s -> Prio2.pcs s = Prio2.Done e -> Prio2.held s = [] /\ Prio2.outq s = [].
Proof.
  intros Hi Hr Hd. destruct (prio2_done_only_when dv dv_wf s0 s e Hi Hr Hd) as (_ & Ho & Hh & _). auto.
Qed.
