(* Property theorems: the goroutine body of v2 join, translated from the CURRENT Go sources (GenConcJoinV2.v) and run by GoConc.v, simulates the hand-written timed machine Join.jstep (variant JoinV2, timed and untimed loop): same request at every pc, same successor after every event (element, tick, close of the input, completed send, release), same initial state. *)
From Coq Require Import List NArith ZArith Bool. From Cqos Require Import GoSem GoConc Join GenJoinV2 GenConcJoinV2 GenTieConcJoinV2. Import ListNotations. Open Scope Z_scope.
Theorem C03_gen_conc_join_v2_request :
  forall (c : jcfg) (s : jst) (dsc : Discipline) (g : G) (n : nat) (w : cause),
         step1 table (dsc, g, n, stack (md c) (pc s) w) = Block (jrequest c s g).
Proof. exact @blocked. Qed.
Print Assumptions C03_gen_conc_join_v2_request.

Theorem C03_gen_conc_join_v2_init :
  forall (c : jcfg) (t0 : Z) (dsc : Discipline) (g : G) (n : nat),
         N.to_nat (Opts_JoinSize (Discipline_opts dsc)) = jsize c ->
         Opts_NoCopy (Discipline_opts dsc) = nocopy c ->
         Opts_Timeout (Discipline_opts dsc) = timeout c ->
         Discipline_interruptInterval dsc = interval c ->
         Discipline_join dsc = [] ->
         G_dsc_passAt g = t0 ->
         exists cf' : config cstate payload chan_id fname,
           movesJ (init_answers c) (start table (dsc, g, n) F_main) cf' /\ R c (jinit t0) cf'.
Proof. exact @conc_init. Qed.
Print Assumptions C03_gen_conc_join_v2_init.

Theorem C03_gen_conc_join_v2_simulates :
  forall c : jcfg,
         variant_of c = JoinV2 ->
         forall (s : jst) (e : jev) (s' : jst) (out : list emission) (cf : cfgT),
         R c s cf ->
         jstep c s e = Some (s', out) ->
         (forall (t : Z) (xs : list elem), e = In t xs -> exists (x : N) (t' : Z), xs = [(Z.of_N x, t')]) ->
         (forall t : Z, e = Tick t -> i_range (t - passAt s)) ->
         exists cf' : config cstate payload chan_id fname, movesJ (janswers c s e) cf cf' /\ R c s' cf'.
Proof. exact @conc_simulates_jstep. Qed.
Print Assumptions C03_gen_conc_join_v2_simulates.

