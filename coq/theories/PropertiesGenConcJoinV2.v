(* Property theorems (partial: the timed loop variant; requests at every pc and the step on an arriving element): the goroutine body of v2 join translated from the CURRENT Go sources (GenConcJoinV2.v) versus Join.jstep. *)
From Coq Require Import List NArith ZArith Bool. From Cqos Require Import GoSem GoConc Join GenJoinV2 GenConcJoinV2 GenTieConcJoinV2. Import ListNotations. Open Scope Z_scope.
Theorem C03_gen_conc_join_v2_request :
  forall (s : jst) (dsc : Discipline) (g : G) (w : nat),
         step1 table (dsc, g, w, stack (pc s)) = Block (jrequest s g).
Proof. exact @blocked. Qed.
Print Assumptions C03_gen_conc_join_v2_request.

Theorem C03_gen_conc_join_v2_in :
  forall c : jcfg,
         variant_of c = JoinV2 ->
         forall (s : jst) (t : Z) (x : N) (cf : cfgT),
         R c s cf ->
         pc s = Loop ->
         exists cf' : config cstate payload chan_id fname,
           reachesJ (GoConc.resume cf (AnsSel 1 (Some (PN x)))) cf' /\ R c (process c s t [(Z.of_N x, t)]) cf'.
Proof. exact @sim_in. Qed.
Print Assumptions C03_gen_conc_join_v2_in.

