(* C13 stated about the code itself: the Gallina translation of the current v2/limit/rate.go (GenRate.v, regenerated on every run)
   satisfies the property on every Go value, by the tie lemmas (GenTieRate.v) and the model theorem (RateConvP.v). *)
From Coq Require Import ZArith NArith Lia Bool.
From Cqos Require Import RateConv RateConvP GoSem GenRate GenTieRate.
Open Scope Z_scope.

(* the property on Go values: Interval an int64, Quantity a uint64 *)
Definition code_spec (g : Rate) (m : Z) (res : Rate * option err_Rate) : Prop :=
  let I := Rate_Interval g in let Q := Z.of_N (Rate_Quantity g) in
  match res with
  | (g', Some e) =>
      g' = zero_Rate /\
      (* only for an invalid rate, a negative minimum, a converted interval of zero (minimum 0), an unrepresentable quantity *)
      (I <= 0 \/ Q = 0 \/ m < 0 \/ (m = 0 /\ I / Q = 0) \/ max_u64 < (Q * m) / I)
  | (g', None) =>
      let I' := Rate_Interval g' in let Q' := Z.of_N (Rate_Quantity g') in
      0 < I' <= max_i64 /\ 0 < Q' <= max_u64 /\ m <= I' /\ (Q' = 1 \/ I' = m) /\
      Q' * I < Q * (I' + 1) /\ Q * I' < (Q' + 1) * I
  end.

Lemma is_valid_none_pos r : is_valid r = None -> 0 < ivl r /\ qty r <> 0.
Proof.
  unfold is_valid. destruct (ivl r <? 0) eqn:E1; [discriminate|]. destruct (ivl r =? 0) eqn:E2; [discriminate|].
  destruct (qty r =? 0) eqn:E3; [discriminate|]. intros _. lia.
Qed.
Lemma is_valid_some_neg r : is_valid r <> None -> ivl r <= 0 \/ qty r = 0.
Proof.
  unfold is_valid. destruct (ivl r <? 0) eqn:E1; [lia|]. destruct (ivl r =? 0) eqn:E2; [lia|].
  destruct (qty r =? 0) eqn:E3; [lia|]. congruence.
Qed.

Theorem code_Recalculate_meets_spec w g m : go_rate g -> i_range m ->
  fst (gen_Recalculate w g m) = w /\ code_spec g m (snd (gen_Recalculate w g m)).
Proof.
  intros Hg Hm. rewrite (tie_Recalculate_abs w g m Hg Hm). cbn [fst snd]. split; [reflexivity|].
  pose proof (in_range_absr g m Hg Hm) as Hr.
  pose proof (recalculate_meets_spec (absr g) m Hr) as Hs.
  unfold code_spec. destruct (recalculate (absr g) m) as [r'|e] eqn:E; cbn [img].
  - assert (Hv : is_valid (absr g) = None).
    { unfold recalculate in E. destruct (is_valid (absr g)); [discriminate|reflexivity]. }
    pose proof (spec_within_one_ns (absr g) m r' Hr Hv Hs) as [Hf Hsl].
    unfold rate_spec in Hs. destruct Hs as (Hv' & Hm' & Hq1 & Hi' & Hq' & _).
    apply is_valid_none_pos in Hv'. unfold conc; cbn [Rate_Interval Rate_Quantity]. unfold absr in *; cbn [ivl qty] in *.
    rewrite Z2N.id by lia. repeat split; try lia.
  - split; [reflexivity|]. unfold rate_spec in Hs. unfold absr in Hs; cbn [ivl qty] in Hs.
    destruct Hs as [Hs|[Hs|[Hs|Hs]]]; [|lia|lia|lia].
    apply is_valid_some_neg in Hs. cbn [ivl qty] in Hs. lia.
Qed.

Theorem code_Optimize_meets_spec w g : go_rate g ->
  code_spec g optimization_interval (snd (gen_Optimize w g)).
Proof.
  intros Hg.
  assert (Hm : i_range optimization_interval) by (unfold i_range, optimization_interval; change i_half with 9223372036854775808; lia).
  pose proof (in_range_absr g _ Hg Hm) as Hr.
  rewrite <- (conc_absr g) at 2. rewrite (tie_Optimize w (absr g) Hr).
  pose proof (code_Recalculate_meets_spec w g optimization_interval Hg Hm) as [_ H].
  rewrite (tie_Recalculate_abs w g _ Hg Hm) in H. exact H.
Qed.

Theorem code_Flatten_meets_spec w g : go_rate g -> code_spec g 0 (snd (gen_Flatten w g)).
Proof.
  intros Hg.
  assert (Hm : i_range 0) by (unfold i_range; change i_half with 9223372036854775808; lia).
  pose proof (in_range_absr g _ Hg Hm) as Hr.
  rewrite <- (conc_absr g) at 2. rewrite (tie_Flatten w (absr g) Hr).
  pose proof (code_Recalculate_meets_spec w g 0 Hg Hm) as [_ H].
  rewrite (tie_Recalculate_abs w g _ Hg Hm) in H. exact H.
Qed.

(* non-vacuity: a Go value, evaluated through the generated code *)
Example code_spec_example :
  go_rate (mk_Rate 1000000000 400000000) /\
  snd (gen_Optimize 0 (mk_Rate 1000000000 400000000)) = (mk_Rate 10000000 4000000, None).
Proof. split; [unfold go_rate, i_range; cbn; change i_half with 9223372036854775808; change u_modulus with 18446744073709551616%N; lia | vm_compute; reflexivity]. Qed.
