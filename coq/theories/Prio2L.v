(* PROGRESS / SATURATION properties of the v2 priority discipline model (Prio2.v), on top of the safety invariants of Prio2P.v.
   A  prio2_no_wait_when_idle      (C06)  the scheduler only waits for a release when one is owed
   B  prio2_share_bound, prio2_full_when_quiet   (C05)  saturation
   C  prio2_round_delivers (+ _auto)             (C06)  an idle discipline delivers without any release
   D  prio2_prompt_termination                   (C07)  promptness                                              *)
From Coq Require Import List NArith Lia Bool Arith.
From Cqos Require Import Base Divider DividerP Sched Prio2 Prio2P.
Import ListNotations.
Open Scope N_scope.

Ltac destruct_matches Hs :=
  repeat match type of Hs with context [match ?x with _ => _ end] => destruct x eqn:? end.
Ltac destruct_goal :=
  repeat match goal with |- context [match ?x with _ => _ end] => destruct x eqn:? end.

(* ---------- generic facts about distributions ---------- *)
Lemma sum_zero_get d k : NoDup (keys d) -> sum d = 0 -> get d k = 0.
Proof. intros ND Hs. pose proof (get_le_sum d k ND). lia. Qed.

Lemma get_zero_sum d : NoDup (keys d) -> (forall k, get d k = 0) -> sum d = 0.
Proof.
  induction d as [|[k v] r IH]; cbn [sum keys]; intros ND Hz; [reflexivity|].
  inversion ND as [|? ? Hn ND']; subst.
  assert (Hv : v = 0). { specialize (Hz k). cbn [get] in Hz. rewrite N.eqb_refl in Hz. exact Hz. }
  rewrite IH; [lia|exact ND'|].
  intros k'. destruct (N.eqb_spec k' k) as [->|Hne]; [apply get_notin; auto|].
  specialize (Hz k'). cbn [get] in Hz. destruct (N.eqb_spec k' k); [contradiction|auto].
Qed.

(* a distribution that vanishes outside a duplicate-free list of keys sums to the sum over that list *)
Lemma sum_on ps : forall d, NoDup ps -> NoDup (keys d) -> (forall k, ~ In k ps -> get d k = 0) ->
  sum d = sum_list (map (get d) ps).
Proof.
  induction ps as [|p r IH]; intros d NDp NDk Hz; cbn [map sum_list].
  - apply get_zero_sum; auto.
  - inversion NDp as [|? ? Hn NDr]; subst.
    pose proof (sum_set d p 0 NDk) as Hs.
    assert (IHd : sum (set d p 0) = sum_list (map (get (set d p 0)) r)).
    { apply IH; auto.
      - apply nodup_keys_set; auto.
      - intros k Hk. destruct (N.eqb_spec k p) as [->|Hne]; [apply get_set_same|].
        rewrite get_set_other by congruence. apply Hz. intros [E|E]; [congruence|contradiction]. }
    rewrite (map_ext_in (get (set d p 0)) (get d)) in IHd.
    + lia.
    + intros a Ha. apply get_set_other. intros ->. contradiction.
Qed.

Lemma sum_list_pointwise (f g : N -> N) ps :
  (forall p, In p ps -> f p <= g p) -> sum_list (map f ps) = sum_list (map g ps) -> forall p, In p ps -> f p = g p.
Proof.
  induction ps as [|a r IH]; cbn [map sum_list]; intros Hle Hs p Hp; [destruct Hp|].
  assert (Hr : sum_list (map f r) <= sum_list (map g r)).
  { clear -Hle. induction r as [|b r IH]; cbn [map sum_list]; [lia|].
    assert (f b <= g b) by (apply Hle; right; left; reflexivity).
    assert (sum_list (map f r) <= sum_list (map g r)).
    { apply IH. intros p [E|Hp]; apply Hle; [left; exact E|right; right; exact Hp]. }
    lia. }
  assert (Ha : f a <= g a) by (apply Hle; left; reflexivity).
  destruct Hp as [<-|Hp]; [lia|].
  apply IH; auto; [intros q Hq; apply Hle; right; exact Hq|lia].
Qed.

(* ---------- the add-up allotment (calcTacticByAddUpToStrategic) ---------- *)
Lemma add_up_get ps : forall actual strategic tactic picked t' pk',
  NoDup ps -> add_up ps actual strategic tactic picked = Some (t', pk') ->
  (forall p, In p ps -> get t' p = get strategic p - get actual p) /\
  (forall p, ~ In p ps -> get t' p = get tactic p).
Proof.
  induction ps as [|p r IH]; cbn [add_up]; intros actual strategic tactic picked t' pk' ND Ha.
  - inversion Ha; subst. split; [intros ? []|auto].
  - destruct (get strategic p <? get actual p); [discriminate|]. inversion ND as [|? ? Hn NDr]; subst.
    destruct (IH _ _ _ _ _ _ NDr Ha) as [H1 H2]. split.
    + intros q [<-|Hq]; [|auto]. rewrite (H2 p Hn). apply get_set_same.
    + intros q Hq. rewrite H2 by (intros Hx; apply Hq; right; exact Hx). apply get_set_other. intros ->. apply Hq. left; reflexivity.
Qed.

Lemma add_up_total ps : forall actual strategic tactic picked,
  (forall p, In p ps -> get actual p <= get strategic p) ->
  exists t' pk', add_up ps actual strategic tactic picked = Some (t', pk').
Proof.
  induction ps as [|p r IH]; cbn [add_up]; intros actual strategic tactic picked Hle; [eauto|].
  destruct (get strategic p <? get actual p) eqn:E.
  - apply N.ltb_lt in E. specialize (Hle p (or_introl eq_refl)). lia.
  - apply IH. intros q Hq. apply Hle. now right.
Qed.

Lemma add_up_picked ps : forall actual strategic tactic picked t' pk',
  (forall p, In p ps -> get actual p <= get strategic p) ->
  add_up ps actual strategic tactic picked = Some (t', pk') ->
  pk' + sum_list (map (get actual) ps) = picked + sum_list (map (get strategic) ps).
Proof.
  induction ps as [|p r IH]; cbn [add_up map sum_list]; intros actual strategic tactic picked t' pk' Hle Ha.
  - inversion Ha; subst. lia.
  - destruct (get strategic p <? get actual p); [discriminate|].
    apply IH in Ha; [|intros q Hq; apply Hle; now right]. specialize (Hle p (or_introl eq_refl)). lia.
Qed.

(* ---------- extra facts about the initial state ---------- *)
Record InitL (s0 : st) : Prop := {
  il_init : Init s0;
  il_H : 1 <= H s0;
  il_strat_sum : sum_list (map (get (strategic s0)) (prios s0)) = H s0;
  il_strat_pos : forall p, In p (prios s0) -> 1 <= get (strategic s0) p;
  il_cap : 1 <= outcap s0 }.

(* the same facts, about the current state (H, prios, strategic, outcap never change) *)
Record Shares (s : st) : Prop := {
  sh_H : 1 <= H s;
  sh_sum : sum_list (map (get (strategic s)) (prios s)) = H s;
  sh_pos : forall p, In p (prios s) -> 1 <= get (strategic s) p;
  sh_cap : 1 <= outcap s }.

Lemma InitL_Shares s0 : InitL s0 -> Shares s0.
Proof. intros [I h1 h2 h3 h4]. constructor; auto. Qed.

Definition static (s s' : st) : Prop :=
  H s' = H s /\ prios s' = prios s /\ strategic s' = strategic s /\ outcap s' = outcap s /\ fblimit s' = fblimit s /\
  buffered s' = buffered s.

Lemma static_Shares s s' : static s s' -> Shares s -> Shares s'.
Proof. intros (E1 & E2 & E3 & E4 & _) [h1 h2 h3 h4]. constructor; rewrite ?E1, ?E2, ?E3, ?E4; auto. Qed.

Lemma env_step_static s o s' : env_step s o = Some s' -> static s s'.
Proof.
  intros Hs. unfold env_step in Hs.
  destruct_matches Hs; try discriminate; inversion Hs; subst; repeat split; reflexivity.
Qed.

Section Progress.
Variable dv : nat -> Divider.
Hypothesis dv_wf : forall k ps n d, NoDup (keys d) -> NoDup (keys (dv k ps n d)).

Lemma sched_step_static s s' : sched_step dv s = Some s' -> static s s'.
Proof.
  intros Hs. unfold sched_step, step_calc, calc_base, step_recalc in Hs.
  destruct_matches Hs; try discriminate; inversion Hs; subst; repeat split; reflexivity.
Qed.

(* when no priority is over its share and `actual` vanishes outside the configured priorities, the add-up path of
   calcTactic succeeds: tactic = strategic - actual, and the round starts *)
Lemma step_calc_addup s : Inv s -> Shares s ->
  (forall p, In p (prios s) -> get (actual s) p <= get (strategic s) p) ->
  (forall q, ~ In q (prios s) -> get (actual s) q = 0) ->
  H s - sum (actual s) <> 0 ->
  exists t, step_calc dv s = with_tac s t (Prio P1 (prios s) 0) /\
    (forall p, In p (prios s) -> get t p = get (strategic s) p - get (actual s) p) /\
    (forall q, ~ In q (prios s) -> get t q = 0) /\ NoDup (keys t).
Proof.
  intros Hinv Hsh Hle Hz Hv. unfold step_calc.
  destruct (N.eqb_spec (H s - sum (actual s)) 0) as [E|_]; [contradiction|].
  destruct (add_up_total (prios s) (actual s) (strategic s) (reset (tactic s)) 0 Hle) as (t & pk & Ea).
  rewrite Ea.
  pose proof (add_up_picked _ _ _ _ _ _ _ Hle Ea) as Hpk.
  rewrite <- (sum_on (prios s) (actual s) (i_ndp s Hinv) (i_nda s Hinv) Hz) in Hpk.
  rewrite (sh_sum s Hsh) in Hpk. pose proof (i_cap s Hinv) as Hcap.
  assert (Epk : pk = H s - sum (actual s)) by lia.
  rewrite Epk, N.eqb_refl.
  destruct (add_up_get _ _ _ _ _ _ _ (i_ndp s Hinv) Ea) as [Hg1 Hg2].
  destruct (add_up_sum _ _ _ _ _ _ _ (i_ndp s Hinv) (nodup_keys_reset _ (i_ndt s Hinv)) (fun p _ => get_reset _ p) Ea) as [_ Hnd].
  exists t. split; [reflexivity|]. split; [exact Hg1|]. split; [|exact Hnd].
  intros q Hq. rewrite (Hg2 q Hq). apply get_reset.
Qed.

(* ================= A. C06: no waiting for a release when none is owed ================= *)
Definition AInv (s : st) : Prop := pcs s = WaitFb -> 0 < sum (actual s).

Lemma sched_step_AInv s s' : Inv s -> Shares s -> AInv s -> sched_step dv s = Some s' -> AInv s'.
Proof.
  intros Hinv Hsh Ha Hs. unfold AInv. intros Hpc'.
  unfold sched_step in Hs. destruct (pcs s) eqn:Epc.
  - (* Calc *) inversion Hs; subst s'; clear Hs.
    destruct (N.eqb_spec (sum (actual s)) 0) as [Ez|Hnz].
    + exfalso.
      assert (Hz : forall p, get (actual s) p = 0) by (intros p; apply sum_zero_get; [apply (i_nda s Hinv)|exact Ez]).
      destruct (step_calc_addup s Hinv Hsh) as (t & Et & _).
      * intros p _. rewrite Hz. lia.
      * intros q _. apply Hz.
      * pose proof (sh_H s Hsh). lia.
      * rewrite Et in Hpc'. discriminate.
    + destruct (step_calc_shape dv s) as [_ _].
      assert (Eact : actual (step_calc dv s) = actual s).
      { unfold step_calc, calc_base. destruct_goal; reflexivity. }
      rewrite Eact. lia.
  - destruct_matches Hs; try discriminate; inversion Hs; subst; discriminate.
  - destruct_matches Hs; try discriminate; inversion Hs; subst; try discriminate.
  - destruct_matches Hs; try discriminate; inversion Hs; subst; discriminate.
  - destruct_matches Hs; try discriminate; inversion Hs; subst; discriminate.
  - (* Recalc *) inversion Hs; subst s'. destruct (step_recalc_shape dv s proc) as [_ [E|[E|[e E]]]]; rewrite E in Hpc'; discriminate.
  - destruct_matches Hs; try discriminate; inversion Hs; subst; discriminate.
  - discriminate.
  - destruct_matches Hs; try discriminate; inversion Hs; subst; discriminate.
  - destruct_matches Hs; try discriminate; inversion Hs; subst; discriminate.
  - discriminate.
Qed.

Lemma env_step_AInv s o s' : AInv s -> env_step s o = Some s' -> AInv s'.
Proof.
  intros Ha Hs. unfold AInv in *. unfold env_step in Hs.
  destruct_matches Hs; try discriminate; inversion Hs; subst; proj; try exact Ha; try discriminate.
  all: intros Hpc'; try discriminate; try (apply Ha; congruence).
Qed.

Lemma reachable_Shares s0 s : InitL s0 -> reachable dv s0 s -> Shares s.
Proof.
  intros I Hr. induction Hr as [|s s' Hr IH Hs|s o s' Hr IH Hs].
  - now apply InitL_Shares.
  - eapply static_Shares; [eapply sched_step_static; eauto|auto].
  - eapply static_Shares; [eapply env_step_static; eauto|auto].
Qed.

Theorem prio2_no_wait_when_idle : forall s0 s, InitL s0 -> reachable dv s0 s -> pcs s = WaitFb -> 0 < sum (actual s).
Proof.
  intros s0 s I Hr. change (AInv s).
  induction Hr as [|s s' Hr IH Hs|s o s' Hr IH Hs].
  - intros Hpc. rewrite (in_pc s0 (il_init s0 I)) in Hpc. discriminate.
  - eapply sched_step_AInv; eauto.
    + eapply (reachable_inv dv dv_wf); eauto. apply (il_init s0 I).
    + eapply reachable_Shares; eauto.
  - eapply env_step_AInv; eauto.
Qed.


(* ================= B. C05: saturation ================= *)
(* "the input never runs dry when the scheduler looks": whenever the scheduler is about to read the input of p with a non-zero
   allowance, that input has data.  It is required of every scheduler step AND of every clock tick (a tick at a blocked
   unbuffered Read is how the model lets the scheduler give up on an empty input -- see sat_literal_false below: if ticks are
   not constrained the share bound is false, the unused allowance is handed to the other priorities in phase two). *)
Definition sat_ok (s : st) : Prop :=
  forall ph p r proc intr, pcs s = Read ph p r proc intr -> get (tactic s) p <> 0 -> inq s p <> [].
Definition sat_env (s : st) (o : env_op) : Prop :=
  match o with Close _ => False | Tick => sat_ok s | _ => True end.

Inductive sat_reachable (s0 : st) : st -> Prop :=
| sr_init : sat_reachable s0 s0
| sr_sched s s' : sat_reachable s0 s -> sat_ok s -> sched_step dv s = Some s' -> sat_reachable s0 s'
| sr_env s o s' : sat_reachable s0 s -> sat_env s o -> env_step s o = Some s' -> sat_reachable s0 s'.

(* the literal reading of the task (only scheduler steps are constrained, any environment step but Close is allowed) *)
Inductive sat_reachable_literal (s0 : st) : st -> Prop :=
| srl_init : sat_reachable_literal s0 s0
| srl_sched s s' : sat_reachable_literal s0 s -> sat_ok s -> sched_step dv s = Some s' -> sat_reachable_literal s0 s'
| srl_env s o s' : sat_reachable_literal s0 s -> (forall p, o <> Close p) -> env_step s o = Some s' -> sat_reachable_literal s0 s'.

Lemma sat_reachable_reachable s0 s : sat_reachable s0 s -> reachable dv s0 s.
Proof. induction 1; [apply r_init|eapply r_sched; eauto|eapply r_env; eauto]. Qed.
Lemma sat_reachable_is_literal s0 s : sat_reachable s0 s -> sat_reachable_literal s0 s.
Proof.
  induction 1 as [|s s' Hr IH Hok Hs|s o s' Hr IH Hok Hs]; [apply srl_init|eapply srl_sched; eauto|eapply srl_env; eauto].
  intros p ->. exact Hok.
Qed.

(* phase one: actual + tactic = strategic on the configured priorities, and the allowance of everything already visited is spent *)
Definition P1ok (s : st) (rest : list N) : Prop :=
  (forall p, In p (prios s) -> get (actual s) p + get (tactic s) p = get (strategic s) p) /\
  (forall p, ~ In p rest -> get (tactic s) p = 0).

Definition SPhase (s : st) : Prop :=
  match pcs s with
  | Prio P1 rest _ => P1ok s rest
  | Read P1 p rest _ _ => P1ok s (p :: rest)
  | Send P1 p _ rest _ => P1ok s (p :: rest)
  | Recalc _ => P1ok s []
  | Prio P2 _ _ => forall q, get (tactic s) q = 0
  | Read P2 _ _ _ _ => forall q, get (tactic s) q = 0
  | Send P2 _ _ _ _ => forall q, get (tactic s) q = 0
  | WaitFb => sum (actual s) = H s
  | _ => True
  end.

Record SInv (s : st) : Prop := {
  s_le : forall p, get (actual s) p <= get (strategic s) p;
  s_off : forall q, ~ In q (prios s) -> get (actual s) q = 0;
  s_undr : forall p, drained s p = false;
  s_ph : SPhase s }.

Definition quiet_pc (c : pc) : Prop :=
  match c with Calc | LimFb _ | Drain _ | Done _ | Idle | EndBase _ => True | _ => False end.

Lemma with_pc_SInv_quiet s c : SInv s -> quiet_pc c -> SInv (with_pc s c).
Proof.
  intros [Hle Hoff Hund Hph] Hq. constructor; proj; auto.
  unfold SPhase; proj. destruct c; try contradiction; exact I.
Qed.

Lemma pop_fb_SInv_quiet s p q c : SInv s -> quiet_pc c -> SInv (pop_fb s p q c).
Proof.
  intros [Hle Hoff Hund Hph] Hq. constructor; proj; auto.
  - intros p0. rewrite get_dec. specialize (Hle p0). destruct (N.eqb_spec p0 p) as [E|Hne]; [subst p0|]; lia.
  - intros q0 Hq0. rewrite get_dec. specialize (Hoff q0 Hq0). destruct (N.eqb_spec q0 p) as [E|Hne]; [subst q0|]; lia.
  - unfold SPhase; proj. destruct c; try contradiction; exact I.
Qed.

Lemma step_recalc_zero s proc : Inv s -> sum (tactic s) = 0 ->
  actual (step_recalc dv s proc) = actual s /\ (forall q, get (tactic (step_recalc dv s proc)) q = 0).
Proof.
  intros Hinv Hz. unfold step_recalc. cbv zeta. rewrite Hz.
  destruct (safe_divide (dv (ncalls s)) (useful s) (H s) (reset (tactic s))) as [t1|e1] eqn:E1.
  - destruct (safe_divide_wf dv dv_wf _ _ _ _ _ (i_ndt s Hinv) E1) as [W1 _].
    destruct (safe_divide (dv (S (ncalls s))) (useful_like s t1) 0 (reset t1)) as [t2|e2] eqn:E2.
    + destruct (safe_divide_wf dv dv_wf _ _ _ _ _ W1 E2) as [W2 Hs2]. proj. split; [reflexivity|].
      intros q. apply sum_zero_get; [exact W2|]. destruct Hs2; assumption.
    + proj. split; [reflexivity|]. intros q. apply get_reset.
  - proj. split; [reflexivity|]. intros q. apply get_reset.
Qed.

Lemma sched_step_SInv s s' : Inv s -> Inv2 s -> Shares s -> SInv s -> sat_ok s -> sched_step dv s = Some s' -> SInv s'.
Proof.
  intros Hinv Hinv2 Hsh HS Hok Hs. pose proof HS as HS0. destruct HS as [Hle Hoff Hund Hph].
  unfold SPhase in Hph. unfold sched_step in Hs. destruct (pcs s) eqn:Epc.
  - (* Calc *) inversion Hs; subst s'; clear Hs.
    destruct (N.eqb_spec (H s - sum (actual s)) 0) as [Ev|Hv].
    + unfold step_calc. rewrite (proj2 (N.eqb_eq _ _) Ev). constructor; proj; auto.
      unfold SPhase; proj. pose proof (i_cap s Hinv). lia.
    + destruct (step_calc_addup s Hinv Hsh (fun p _ => Hle p) Hoff Hv) as (t & Et & Hg1 & Hg2 & Hnd).
      rewrite Et. constructor; proj; auto. unfold SPhase, P1ok; proj. split.
      * intros p Hp. rewrite (Hg1 p Hp). specialize (Hle p). lia.
      * exact Hg2.
  - (* WaitFb *) destruct (fbq s) as [|p q]; [discriminate|]. inversion Hs; subst s'. apply pop_fb_SInv_quiet; [exact HS0|exact I].
  - (* Prio *) destruct rest as [|p r].
    + inversion Hs; subst s'. constructor; proj; auto. all: unfold SPhase; proj; destruct ph; [exact Hph|exact I].
    + rewrite (Hund p) in Hs. inversion Hs; subst s'. constructor; proj; auto. all: unfold SPhase; proj; destruct ph; exact Hph.
  - (* Read *) destruct (N.eqb_spec (get (tactic s) p) 0) as [Et|Et].
    + inversion Hs; subst s'. constructor; proj; auto. unfold SPhase; proj. destruct ph; [|exact Hph].
      destruct Hph as [Hp1 Hp2]. split; [exact Hp1|]. unfold P1ok; proj.
      intros q Hq. destruct (N.eqb_spec q p) as [->|Hne]; [exact Et|]. apply Hp2. intros [E|E]; [congruence|contradiction].
    + specialize (Hok _ _ _ _ _ Epc Et). destruct (inq s p) as [|x q]; [contradiction|].
      inversion Hs; subst s'. constructor; proj; auto. all: unfold SPhase; proj; destruct ph; exact Hph.
  - (* Send *)
    assert (Ht : 1 <= get (tactic s) p) by (eapply (i_send s Hinv); eauto).
    assert (Hp : In p (prios s)). { pose proof (j_rest s Hinv2) as Hr. rewrite Epc in Hr. cbn [pc_rest_ok] in Hr. exact (proj1 Hr). }
    destruct (N.of_nat (length (outq s)) <? outcap s); [|discriminate]. inversion Hs; subst s'.
    destruct ph; [|specialize (Hph p); lia].
    destruct Hph as [Hp1 Hp2]. constructor; proj; auto.
    * intros p0. rewrite get_inc. destruct (N.eqb_spec p0 p) as [->|Hne]; [|apply Hle]. specialize (Hp1 p Hp). lia.
    * intros q Hq. rewrite get_inc. destruct (N.eqb_spec q p) as [->|Hne]; [contradiction|]. apply Hoff; exact Hq.
    * unfold SPhase, P1ok; proj. split.
      -- intros q Hq. rewrite get_inc, get_dec. specialize (Hp1 q Hq). destruct (N.eqb_spec q p) as [->|Hne]; lia.
      -- intros q Hq. rewrite get_dec. destruct (N.eqb_spec q p) as [->|Hne]; [exfalso; apply Hq; left; reflexivity|].
         apply Hp2. exact Hq.
  - (* Recalc *) inversion Hs; subst s'.
    assert (Hz : sum (tactic s) = 0).
    { apply get_zero_sum; [apply (i_ndt s Hinv)|]. intros k. apply (proj2 Hph). intros []. }
    destruct (step_recalc_zero s proc Hinv Hz) as [Ea Ht0].
    destruct (step_recalc_shape dv s proc) as [(Ep & _ & _ & _ & _ & Edr) Hpc].
    destruct (sched_step_static s (step_recalc dv s proc)) as (_ & _ & Est & _).
    { unfold sched_step. rewrite Epc. reflexivity. }
    constructor; rewrite ?Ea, ?Ep, ?Est, ?Edr; auto.
    unfold SPhase. destruct Hpc as [E|[E|[e E]]]; rewrite E; auto.
  - (* EndBase *)
    destruct (proc =? 0); [destruct (forallb (drained s) (prios s))|]; inversion Hs; subst s'; apply with_pc_SInv_quiet; auto; exact I.
  - discriminate.
  - (* LimFb *) destruct k as [|k].
    + inversion Hs; subst s'. apply with_pc_SInv_quiet; auto; exact I.
    + destruct (fbq s) as [|p q]; inversion Hs; subst s'; [apply with_pc_SInv_quiet|apply pop_fb_SInv_quiet]; auto; exact I.
  - (* Drain *) destruct (sum (actual s) =? 0).
    + inversion Hs; subst s'. apply with_pc_SInv_quiet; auto; exact I.
    + destruct (fbq s) as [|p q]; inversion Hs; subst s'. apply pop_fb_SInv_quiet; auto; exact I.
  - discriminate.
Qed.

Lemma env_step_SInv s o s' : SInv s -> sat_env s o -> env_step s o = Some s' -> SInv s'.
Proof.
  intros HS Hok Hs. pose proof HS as HS0. destruct HS as [Hle Hoff Hund Hph].
  destruct o as [p x|p| |p|]; cbn [env_step sat_env] in Hs, Hok.
  - destruct (closed s p); inversion Hs; subst s'. constructor; proj; auto.
  - contradiction.
  - destruct (outq s) as [|px q]; inversion Hs; subst s'. constructor; proj; auto.
  - destruct (remove1 p (held s)) as [h|]; inversion Hs; subst s'. constructor; proj; auto.
  - destruct (pcs s) eqn:Epc; try (inversion Hs; subst s'; exact HS0).
    + (* Read *)
      destruct (N.eqb_spec (get (tactic s) p) 0) as [Et|Et].
      * cbn [negb andb] in Hs. inversion Hs; subst s'; exact HS0.
      * specialize (Hok _ _ _ _ _ Epc Et). destruct (inq s p) as [|x q]; [contradiction|].
        rewrite !andb_false_r in Hs. inversion Hs; subst s'; exact HS0.
    + (* Idle *) inversion Hs; subst s'. apply with_pc_SInv_quiet; auto; exact I.
Qed.

Lemma Init_SInv s0 : Init s0 -> SInv s0.
Proof.
  intros Hi. constructor.
  - intros p. rewrite (in_actual s0 Hi). cbn [get]. lia.
  - intros q _. rewrite (in_actual s0 Hi). reflexivity.
  - apply (in_drained s0 Hi).
  - unfold SPhase. rewrite (in_pc s0 Hi). exact I.
Qed.

Lemma sat_reachable_SInv s0 s : InitL s0 -> sat_reachable s0 s -> SInv s.
Proof.
  intros I Hr. induction Hr as [|s s' Hr IH Hok Hs|s o s' Hr IH Hok Hs].
  - apply Init_SInv. apply (il_init s0 I).
  - pose proof (sat_reachable_reachable _ _ Hr) as Hr'.
    eapply sched_step_SInv; eauto.
    + eapply (reachable_inv dv dv_wf); eauto. apply (il_init s0 I).
    + eapply (reachable_inv2 dv); eauto. apply (il_init s0 I).
    + eapply reachable_Shares; eauto.
  - eapply env_step_SInv; eauto.
Qed.

Theorem prio2_share_bound : forall s0 s, InitL s0 -> sat_reachable s0 s -> forall p, get (actual s) p <= get (strategic s) p.
Proof. intros s0 s I Hr. apply (s_le s). eapply sat_reachable_SInv; eauto. Qed.

(* the hypothesis `fbq s = []` is not needed: under saturation the scheduler only ever waits in WaitFb when every handler is
   occupied (it is kept to match the informal statement) *)
Theorem prio2_full_when_quiet : forall s0 s, InitL s0 -> sat_reachable s0 s -> pcs s = WaitFb -> fbq s = [] ->
  forall p, In p (prios s) -> get (actual s) p = get (strategic s) p.
Proof.
  intros s0 s I Hr Hpc _.
  pose proof (sat_reachable_SInv _ _ I Hr) as [Hle Hoff _ Hph]. unfold SPhase in Hph. rewrite Hpc in Hph.
  pose proof (sat_reachable_reachable _ _ Hr) as Hr'.
  pose proof (reachable_inv dv dv_wf _ _ (il_init s0 I) Hr') as Hinv.
  pose proof (reachable_Shares _ _ I Hr') as Hsh.
  apply sum_list_pointwise; [intros p _; apply Hle|].
  rewrite <- (sum_on (prios s) (actual s) (i_ndp s Hinv) (i_nda s Hinv) Hoff). rewrite Hph. symmetry. apply (sh_sum s Hsh).
Qed.

Corollary prio2_full_when_quiet_sum : forall s0 s, InitL s0 -> sat_reachable s0 s -> pcs s = WaitFb -> sum (actual s) = H s.
Proof.
  intros s0 s I Hr Hpc. pose proof (sat_reachable_SInv _ _ I Hr) as [_ _ _ Hph]. unfold SPhase in Hph. rewrite Hpc in Hph. exact Hph.
Qed.


(* ================= C. C06: an idle discipline delivers without any release ================= *)
(* the scheduler alone, letting time pass (Tick) when it sleeps in Idle or is blocked reading an empty unbuffered input *)
Definition auto_step (s : st) : option st :=
  match sched_step dv s with Some s' => Some s' | None =>
  match pcs s with Idle | Read _ _ _ _ _ => env_step s Tick | _ => None end end.
Fixpoint iter_auto (n : nat) (s : st) : option st :=
  match n with O => Some s | S n' => match auto_step s with None => None | Some s' => iter_auto n' s' end end.

Lemma auto_of_sched s s1 : sched_step dv s = Some s1 -> auto_step s = Some s1.
Proof. intros E. unfold auto_step. rewrite E. reflexivity. Qed.
Lemma iter_sched_S n s s1 s' : sched_step dv s = Some s1 -> iter_sched dv n s1 = Some s' -> iter_sched dv (S n) s = Some s'.
Proof. intros H1 H2. cbn [iter_sched]. rewrite H1. exact H2. Qed.
Lemma iter_auto_S n s s1 s' : auto_step s = Some s1 -> iter_auto n s1 = Some s' -> iter_auto (S n) s = Some s'.
Proof. intros H1 H2. cbn [iter_auto]. rewrite H1. exact H2. Qed.
Lemma iter_auto_app k : forall n s s2 s', iter_auto k s = Some s2 -> iter_auto n s2 = Some s' -> iter_auto (k + n) s = Some s'.
Proof.
  induction k as [|k IH]; intros n s s2 s' H1 H2; cbn [iter_auto Nat.add] in *.
  - inversion H1; subst. exact H2.
  - destruct (auto_step s) as [s1|]; [|discriminate]. eapply IH; eauto.
Qed.
Lemma iter_sched_app k : forall n s s2 s', iter_sched dv k s = Some s2 -> iter_sched dv n s2 = Some s' -> iter_sched dv (k + n) s = Some s'.
Proof.
  induction k as [|k IH]; intros n s s2 s' H1 H2; cbn [iter_sched Nat.add] in *.
  - inversion H1; subst. exact H2.
  - destruct (sched_step dv s) as [s1|]; [|discriminate]. eapply IH; eauto.
Qed.
Lemma iter_sched_auto n : forall s s', iter_sched dv n s = Some s' -> iter_auto n s = Some s'.
Proof.
  induction n as [|n IH]; intros s s' Hi; cbn [iter_sched iter_auto] in *; [exact Hi|].
  destruct (sched_step dv s) as [s1|] eqn:E; [|discriminate]. rewrite (auto_of_sched _ _ E). apply IH. exact Hi.
Qed.
Lemma iter_auto_reachable n : forall s0 s s', reachable dv s0 s -> iter_auto n s = Some s' -> reachable dv s0 s'.
Proof.
  induction n as [|n IH]; intros s0 s s' Hr Hi; cbn [iter_auto] in Hi.
  - inversion Hi; subst; exact Hr.
  - destruct (auto_step s) as [s1|] eqn:E; [|discriminate]. eapply IH; [|exact Hi].
    unfold auto_step in E. destruct (sched_step dv s) as [s1'|] eqn:Es.
    + inversion E; subst. eapply r_sched; eauto.
    + destruct (pcs s); try discriminate; eapply r_env; eauto.
Qed.

(* no configured input is empty, open, unbuffered and not yet drained: the scheduler never blocks in Read *)
Definition NoBlock (s : st) : Prop :=
  forall q, In q (prios s) -> drained s q = false -> closed s q = false -> inq s q = [] -> buffered s q = true.

Lemma scan_delivers : forall rest s proc p0,
  pcs s = Prio P1 rest proc -> incl rest (prios s) -> In p0 rest -> drained s p0 = false -> inq s p0 <> [] ->
  1 <= get (tactic s) p0 -> outq s = [] -> 1 <= outcap s ->
  exists n s', iter_auto n s = Some s' /\ (n <= 3 * length rest)%nat /\ length (delivered s') = S (length (delivered s)) /\
    (NoBlock s -> (n <= 2 * length rest + 1)%nat /\ iter_sched dv n s = Some s').
Proof.
  induction rest as [|q r IH]; intros s proc p0 Hpc Hincl Hin Hdr Hiq Ht Ho Hcap; [destruct Hin|].
  assert (Hq : In q (prios s)) by (apply Hincl; left; reflexivity).
  assert (Hincl' : incl r (prios s)) by (intros a Ha; apply Hincl; right; exact Ha).
  assert (Hskip : forall k s2, iter_auto k s = Some s2 -> (k <= 3)%nat ->
            (NoBlock s -> (k <= 2)%nat /\ iter_sched dv k s = Some s2 /\ NoBlock s2) ->
            pcs s2 = Prio P1 r proc -> prios s2 = prios s -> drained s2 p0 = false -> inq s2 p0 = inq s p0 ->
            get (tactic s2) p0 = get (tactic s) p0 -> outq s2 = [] -> outcap s2 = outcap s -> delivered s2 = delivered s ->
            q <> p0 ->
            exists n s', iter_auto n s = Some s' /\ (n <= 3 * length (q :: r))%nat /\
              length (delivered s') = S (length (delivered s)) /\
              (NoBlock s -> (n <= 2 * length (q :: r) + 1)%nat /\ iter_sched dv n s = Some s')).
  { intros k s2 Hk Hk3 Hnb2 Hpc2 Ep2 Hdr2 Ei2 Et2 Ho2 Ec2 Ed2 Hne.
    destruct (IH s2 proc p0) as (n & s' & Hi & Hn & Hd & Hnb); auto.
    - rewrite Ep2. exact Hincl'.
    - destruct Hin as [E|Hin]; [contradiction|exact Hin].
    - rewrite Ei2. exact Hiq.
    - rewrite Et2. exact Ht.
    - rewrite Ec2. exact Hcap.
    - exists (k + n)%nat, s'. split; [eapply iter_auto_app; eauto|]. split; [cbn [length]; lia|].
      split; [rewrite Hd, Ed2; reflexivity|].
      intros NB. destruct (Hnb2 NB) as (Hk2 & His & NB2). destruct (Hnb NB2) as [Hn2 His2].
      split; [cbn [length]; lia|eapply iter_sched_app; eauto]. }
  assert (E1 : sched_step dv s = Some (with_pc s (if drained s q then Prio P1 r proc else Read P1 q r proc false))).
  { unfold sched_step. rewrite Hpc. reflexivity. }
  destruct (drained s q) eqn:Edq.
  - (* already drained: skipped *)
    apply (Hskip 1%nat (with_pc s (Prio P1 r proc))); try reflexivity; auto.
    + eapply iter_auto_S; [apply auto_of_sched; exact E1|reflexivity].
    + intros NB. split; [lia|]. split; [eapply iter_sched_S; [exact E1|reflexivity]|exact NB].
    + intros ->. congruence.
  - set (s1 := with_pc s (Read P1 q r proc false)) in *.
    destruct (N.eqb_spec (get (tactic s) q) 0) as [Et|Et].
    + (* no allowance: skipped *)
      assert (E2 : sched_step dv s1 = Some (with_pc s1 (Prio P1 r proc))).
      { unfold sched_step, s1; proj. rewrite (proj2 (N.eqb_eq _ _) Et). reflexivity. }
      apply (Hskip 2%nat (with_pc s1 (Prio P1 r proc))); try reflexivity; auto.
      * eapply iter_auto_S; [apply auto_of_sched; exact E1|]. eapply iter_auto_S; [apply auto_of_sched; exact E2|reflexivity].
      * intros NB. split; [lia|]. split; [|exact NB].
        eapply iter_sched_S; [exact E1|]. eapply iter_sched_S; [exact E2|reflexivity].
      * intros ->. lia.
    + assert (Etb : (get (tactic s) q =? 0) = false) by (apply N.eqb_neq; exact Et).
      destruct (inq s q) as [|x qq] eqn:Eq.
      * (* empty input *)
        assert (Hne : q <> p0) by (intros ->; congruence).
        destruct (closed s q) eqn:Ecl.
        -- assert (E2 : sched_step dv s1 = Some (mark_drained s1 q (Prio P1 r proc))).
           { unfold sched_step, s1; proj. rewrite Etb, Eq, Ecl. reflexivity. }
           apply (Hskip 2%nat (mark_drained s1 q (Prio P1 r proc))); try reflexivity; auto.
           ++ eapply iter_auto_S; [apply auto_of_sched; exact E1|]. eapply iter_auto_S; [apply auto_of_sched; exact E2|reflexivity].
           ++ intros NB. split; [lia|]. split.
              ** eapply iter_sched_S; [exact E1|]. eapply iter_sched_S; [exact E2|reflexivity].
              ** intros q' Hq' Hd'. unfold s1 in Hd' |- *. revert Hd'. proj. unfold upd.
                 destruct (N.eqb q' q); [discriminate|]. intros Hd'. apply NB; auto.
           ++ unfold s1; proj. unfold upd. destruct (N.eqb_spec p0 q) as [E|_]; [congruence|exact Hdr].
        -- destruct (buffered s q) eqn:Ebuf.
           ++ assert (E2 : sched_step dv s1 = Some (with_pc s1 (Prio P1 r proc))).
              { unfold sched_step, s1; proj. rewrite Etb, Eq, Ecl, Ebuf. reflexivity. }
              apply (Hskip 2%nat (with_pc s1 (Prio P1 r proc))); try reflexivity; auto.
              ** eapply iter_auto_S; [apply auto_of_sched; exact E1|]. eapply iter_auto_S; [apply auto_of_sched; exact E2|reflexivity].
              ** intros NB. split; [lia|]. split; [|exact NB].
                 eapply iter_sched_S; [exact E1|]. eapply iter_sched_S; [exact E2|reflexivity].
           ++ (* blocked in iou: two ticks *)
              set (s1' := with_pc s1 (Read P1 q r proc true)).
              assert (A2 : auto_step s1 = Some s1').
              { unfold auto_step, sched_step, env_step, s1', s1; proj. rewrite Etb, Eq, Ecl, Ebuf. reflexivity. }
              assert (A3 : auto_step s1' = Some (with_pc s1' (Prio P1 r proc))).
              { unfold auto_step, sched_step, env_step, s1', s1; proj. rewrite Etb, Eq, Ecl, Ebuf. reflexivity. }
              apply (Hskip 3%nat (with_pc s1' (Prio P1 r proc))); try reflexivity; auto.
              ** eapply iter_auto_S; [apply auto_of_sched; exact E1|]. eapply iter_auto_S; [exact A2|].
                 eapply iter_auto_S; [exact A3|reflexivity].
              ** intros NB. specialize (NB q Hq Edq Ecl Eq). congruence.
      * (* data: read it and send it; the output is empty *)
        set (s2 := pop_in s1 q qq (Send P1 q x r proc)).
        assert (E2 : sched_step dv s1 = Some s2).
        { unfold sched_step, s2, s1; proj. rewrite Etb, Eq. reflexivity. }
        assert (E3 : sched_step dv s2 = Some (push_out s2 q x (Read P1 q r (proc + 1) false))).
        { unfold sched_step, s2, s1; proj. rewrite Ho. cbn [length N.of_nat].
          assert (Hlt : (0 <? outcap s) = true) by (apply N.ltb_lt; lia). rewrite Hlt. reflexivity. }
        exists 3%nat, (push_out s2 q x (Read P1 q r (proc + 1) false)). split; [|split; [|split]].
        -- eapply iter_auto_S; [apply auto_of_sched; exact E1|]. eapply iter_auto_S; [apply auto_of_sched; exact E2|].
           eapply iter_auto_S; [apply auto_of_sched; exact E3|reflexivity].
        -- cbn [length]. lia.
        -- unfold s2, s1; proj. rewrite app_length. cbn [length]. lia.
        -- intros _. split; [cbn [length]; lia|].
           eapply iter_sched_S; [exact E1|]. eapply iter_sched_S; [exact E2|]. eapply iter_sched_S; [exact E3|reflexivity].
Qed.

Lemma calc_idle_start s : Inv s -> Shares s -> pcs s = Calc -> sum (actual s) = 0 ->
  exists t, sched_step dv s = Some (with_tac s t (Prio P1 (prios s) 0)) /\
            (forall q, In q (prios s) -> get t q = get (strategic s) q) /\ outq s = [].
Proof.
  intros Hinv Hsh Hpc Hz.
  assert (Hz' : forall q, get (actual s) q = 0) by (intros q; apply sum_zero_get; [apply (i_nda s Hinv)|exact Hz]).
  destruct (step_calc_addup s Hinv Hsh) as (t & Et & Hg & _).
  - intros q _. rewrite Hz'. lia.
  - intros q _. apply Hz'.
  - pose proof (sh_H s Hsh). lia.
  - exists t. split; [unfold sched_step; rewrite Hpc, Et; reflexivity|]. split.
    + intros q Hq. rewrite (Hg q Hq), Hz'. lia.
    + apply length_zero_nil. pose proof (i_sum s Hinv) as Hs. unfold inflight in Hs. lia.
Qed.

(* with time allowed to pass at a blocked Read; no extra hypothesis *)
Theorem prio2_round_delivers_auto : forall s0 s, InitL s0 -> reachable dv s0 s -> pcs s = Calc -> sum (actual s) = 0 ->
  (exists p, In p (prios s) /\ drained s p = false /\ inq s p <> []) ->
  exists n s', (n <= 3 * length (prios s) + 1)%nat /\ iter_auto n s = Some s' /\ length (delivered s') = S (length (delivered s)).
Proof.
  intros s0 s I Hr Hpc Hz (p & Hp & Hdr & Hiq).
  pose proof (reachable_inv dv dv_wf _ _ (il_init s0 I) Hr) as Hinv.
  pose proof (reachable_Shares _ _ I Hr) as Hsh.
  destruct (calc_idle_start s Hinv Hsh Hpc Hz) as (t & E1 & Hg & Ho).
  destruct (scan_delivers (prios s) (with_tac s t (Prio P1 (prios s) 0)) 0 p) as (n & s' & Hi & Hn & Hd & _); proj; auto.
  - apply incl_refl.
  - rewrite (Hg p Hp). apply (sh_pos s Hsh p Hp).
  - apply (sh_cap s Hsh).
  - exists (S n), s'. split; [lia|]. split; [eapply iter_auto_S; [apply auto_of_sched; exact E1|exact Hi]|exact Hd].
Qed.

(* the scheduler alone, no clock: needs that it cannot block in Read on an empty open unbuffered input (NoBlock) *)
Theorem prio2_round_delivers : forall s0 s, InitL s0 -> reachable dv s0 s -> pcs s = Calc -> sum (actual s) = 0 ->
  (exists p, In p (prios s) /\ drained s p = false /\ inq s p <> []) ->
  (forall q, In q (prios s) -> drained s q = false -> closed s q = false -> inq s q = [] -> buffered s q = true) ->
  exists n s', (n <= 2 * length (prios s) + 4)%nat /\ iter_sched dv n s = Some s' /\ length (delivered s') = S (length (delivered s)).
Proof.
  intros s0 s I Hr Hpc Hz (p & Hp & Hdr & Hiq) NB.
  pose proof (reachable_inv dv dv_wf _ _ (il_init s0 I) Hr) as Hinv.
  pose proof (reachable_Shares _ _ I Hr) as Hsh.
  destruct (calc_idle_start s Hinv Hsh Hpc Hz) as (t & E1 & Hg & Ho).
  destruct (scan_delivers (prios s) (with_tac s t (Prio P1 (prios s) 0)) 0 p) as (n & s' & _ & _ & Hd & Hnb); proj; auto.
  - apply incl_refl.
  - rewrite (Hg p Hp). apply (sh_pos s Hsh p Hp).
  - apply (sh_cap s Hsh).
  - destruct (Hnb NB) as [Hn Hi].
    exists (S n), s'. split; [lia|]. split; [eapply iter_sched_S; [exact E1|exact Hi]|exact Hd].
Qed.


(* ================= D. C07: promptness ================= *)
(* generic: no blocking + strictly decreasing variant => the target is reached within the variant's value *)
Section Reach.
Variable P T : st -> Prop.
Variable m : st -> nat.
Hypothesis T_dec : forall s, {T s} + {~ T s}.
Hypothesis progress : forall s, P s -> ~ T s -> exists s', auto_step s = Some s' /\ P s' /\ (m s' < m s)%nat.
Lemma reach_by_variant : forall n s, (m s <= n)%nat -> P s -> exists k s', (k <= n)%nat /\ iter_auto k s = Some s' /\ T s' /\ P s'.
Proof.
  induction n as [|n IH]; intros s Hm HP.
  - destruct (T_dec s) as [HT|HT]; [exists 0%nat, s; cbn [iter_auto]; auto|].
    destruct (progress s HP HT) as (s' & _ & _ & Hlt). lia.
  - destruct (T_dec s) as [HT|HT]; [exists 0%nat, s; cbn [iter_auto]; repeat split; auto; lia|].
    destruct (progress s HP HT) as (s' & Hs & HP' & Hlt).
    destruct (IH s' ltac:(lia) HP') as (k & s'' & Hk & Hi & HT'' & HP'').
    exists (S k), s''. split; [lia|]. split; [eapply iter_auto_S; eauto|auto].
Qed.
End Reach.

Definition same_chan (s s' : st) : Prop :=
  outq s' = outq s /\ held s' = held s /\ fbq s' = fbq s /\ actual s' = actual s /\ closed s' = closed s /\ inq s' = inq s /\
  drained s' = drained s.
Lemma step_recalc_chan s proc : same_chan s (step_recalc dv s proc).
Proof. unfold step_recalc. destruct_goal; repeat split; reflexivity. Qed.
Lemma step_calc_chan s : same_chan s (step_calc dv s).
Proof. unfold step_calc, calc_base. destruct_goal; repeat split; reflexivity. Qed.

(* a pc from which the scheduler cannot come back to Calc without consuming a release (if one is pending) *)
Definition pre_pop (s : st) : Prop :=
  match pcs s with Calc => False | LimFb k => k = fblimit s | _ => True end.
Definition strict_ok (F0 : nat) (s : st) : Prop :=
  (length (fbq s) < F0)%nat \/ (length (fbq s) = F0 /\ pre_pop s).

(* the final round: every undrained priority is still ahead of the scan with a positive allowance *)
Definition ahead (s : st) (rest : list N) : Prop :=
  forall p, In p (prios s) -> drained s p = true \/ (In p rest /\ 1 <= get (tactic s) p).
Definition alldr (s : st) : Prop := forall p, In p (prios s) -> drained s p = true.
Definition GPhase (s : st) : Prop :=
  match pcs s with
  | Prio P1 rest proc => proc = 0 /\ ahead s rest
  | Read P1 p rest proc _ => proc = 0 /\ ahead s (p :: rest)
  | Recalc proc => proc = 0 /\ alldr s
  | Prio P2 _ proc => proc = 0 /\ alldr s
  | Read P2 _ _ proc _ => proc = 0 /\ alldr s
  | EndBase proc => proc = 0 /\ alldr s
  | Drain _ => True
  | Done _ => True
  | _ => False
  end.

(* the regime: inputs closed and empty, nothing in the output / held / limbo; F0 bounds the pending releases, g = final round *)
Record DReg (F0 : nat) (g : bool) (s : st) : Prop := {
  d_inv : Inv s; d_inv2 : Inv2 s;
  d_closed : forall p, In p (prios s) -> closed s p = true /\ inq s p = [];
  d_out : outq s = []; d_held : held s = [];
  d_lim : (1 <= fblimit s)%nat;
  d_ns : not_send (pcs s);
  d_wait : pcs s = WaitFb -> fbq s <> [];
  d_F0 : (1 <= F0)%nat;
  d_strict : strict_ok F0 s;
  d_good : g = true -> GPhase s }.

Lemma dreg_frame F0 g s s' : DReg F0 g s -> Inv s' -> Inv2 s' -> static s s' ->
  closed s' = closed s -> inq s' = inq s -> outq s' = outq s -> held s' = held s ->
  not_send (pcs s') -> (pcs s' = WaitFb -> fbq s' <> []) -> strict_ok F0 s' -> (g = true -> GPhase s') -> DReg F0 g s'.
Proof.
  intros [Hinv Hinv2 Hcl Ho Hh Hlim Hns Hwait HF0 Hst Hg] Hi Hi2 (_ & Ep & _ & _ & Efl & _) Ec Ei Eo Eh Hns' Hw' Hst' Hg'.
  constructor; rewrite ?Ep, ?Ec, ?Ei, ?Eo, ?Eh, ?Efl; auto.
Qed.

Definition dpos (s : st) : nat :=
  let L := length (prios s) in let K := fblimit s in let F := length (fbq s) in
  let E := (K + F + 5)%nat in
  match pcs s with
  | Done _ => 0
  | Calc => 0
  | Drain _ => F + 1
  | WaitFb => 1
  | LimFb k => k + 1
  | Idle => K + 2
  | EndBase _ => E
  | Prio P2 rest _ => 2 * length rest + 1 + E
  | Read P2 _ rest _ _ => 2 * length rest + 2 + E
  | Recalc _ => 2 * L + 2 + E
  | Prio P1 rest _ => 2 * length rest + 1 + (2 * L + 2 + E)
  | Read P1 _ rest _ _ => 2 * length rest + 2 + (2 * L + 2 + E)
  | Send _ _ _ _ _ => 0
  end%nat.

Definition is_target (s : st) : Prop := match pcs s with Calc | Done _ => True | _ => False end.
Lemma is_target_dec s : {is_target s} + {~ is_target s}.
Proof. unfold is_target. destruct (pcs s); auto. Qed.

Lemma forallb_alldr s : alldr s -> forallb (drained s) (prios s) = true.
Proof. intros Ha. apply forallb_forall. intros p Hp. now apply Ha. Qed.


Ltac notsend := unfold not_send; proj; intros; discriminate.
Ltac eqrefl := try match goal with |- @eq _ _ _ => reflexivity end.
Ltac dposgoal Epc := unfold dpos; proj; rewrite ?Epc; cbn [length]; lia.

Lemma dreg_progress F0 g s : DReg F0 g s -> ~ is_target s ->
  exists s', auto_step s = Some s' /\ DReg F0 g s' /\ (dpos s' < dpos s)%nat.
Proof.
  intros HR HnT. pose proof HR as HR0. destruct HR as [Hinv Hinv2 Hcl Ho Hh Hlim Hns Hwait HF0 Hst Hg].
  assert (Hsum : sum (actual s) = N.of_nat (length (fbq s))).
  { pose proof (i_sum s Hinv) as Hs. unfold inflight in Hs. rewrite Ho, Hh in Hs. cbn [length N.of_nat] in Hs. lia. }
  assert (Hfr : forall s', sched_step dv s = Some s' ->
     closed s' = closed s -> inq s' = inq s -> outq s' = outq s -> held s' = held s ->
     not_send (pcs s') -> (pcs s' = WaitFb -> fbq s' <> []) -> strict_ok F0 s' -> (g = true -> GPhase s') -> DReg F0 g s').
  { intros s' Hs'. apply (dreg_frame F0 g s s' HR0).
    - eapply (sched_step_inv dv dv_wf); eauto.
    - eapply (sched_step_inv2 dv); eauto.
    - eapply sched_step_static; eauto. }
  unfold is_target in HnT. unfold strict_ok, pre_pop in Hst. unfold GPhase in Hg.
  destruct (pcs s) eqn:Epc.
  - (* Calc *) exfalso; apply HnT; exact I.
  - (* WaitFb *)
    destruct (fbq s) as [|p q] eqn:Efb; [exfalso; apply (Hwait eq_refl); reflexivity|].
    assert (Hstep : sched_step dv s = Some (pop_fb s p q Calc)) by (unfold sched_step; rewrite Epc, Efb; reflexivity).
    eexists; split; [apply auto_of_sched; exact Hstep|]. split.
    + apply (Hfr _ Hstep); eqrefl.
      * notsend.
      * proj; discriminate.
      * unfold strict_ok; proj. left. cbn [length] in Hst. destruct Hst as [?|[? _]]; lia.
      * intros Eg; destruct (Hg Eg).
    + dposgoal Epc.
  - (* Prio *)
    destruct rest as [|p r].
    + assert (Hstep : sched_step dv s = Some (with_pc s (match ph with P1 => Recalc proc | P2 => EndBase proc end)))
        by (unfold sched_step; rewrite Epc; reflexivity).
      eexists; split; [apply auto_of_sched; exact Hstep|]. split.
      * apply (Hfr _ Hstep); eqrefl.
        -- destruct ph; notsend.
        -- destruct ph; proj; discriminate.
        -- unfold strict_ok, pre_pop; proj. destruct ph; exact Hst.
        -- intros Eg. specialize (Hg Eg). unfold GPhase; proj. destruct ph; [|exact Hg].
           destruct Hg as [Hp0 Hah]. split; [exact Hp0|]. intros p Hp. destruct (Hah p Hp) as [Hd|[[] _]]. exact Hd.
      * destruct ph; dposgoal Epc.
    + assert (Hstep : sched_step dv s = Some (with_pc s (if drained s p then Prio ph r proc else Read ph p r proc false)))
        by (unfold sched_step; rewrite Epc; reflexivity).
      eexists; split; [apply auto_of_sched; exact Hstep|]. split.
      * apply (Hfr _ Hstep); eqrefl.
        -- destruct (drained s p); notsend.
        -- destruct (drained s p); proj; discriminate.
        -- unfold strict_ok, pre_pop; proj. destruct (drained s p); exact Hst.
        -- intros Eg. specialize (Hg Eg). unfold GPhase; proj. destruct (drained s p) eqn:Ed; [|exact Hg].
           destruct ph; [|exact Hg]. destruct Hg as [Hp0 Hah]. split; [exact Hp0|].
           intros q Hq. destruct (Hah q Hq) as [Hd|[[<-|Hr] Ht]]; auto.
      * destruct (drained s p); destruct ph; dposgoal Epc.
  - (* Read *)
    assert (Hp : In p (prios s)). { pose proof (j_rest s Hinv2) as Hr. rewrite Epc in Hr. cbn [pc_rest_ok] in Hr. exact (proj1 Hr). }
    destruct (Hcl p Hp) as [Hclp Hiqp].
    destruct (N.eqb_spec (get (tactic s) p) 0) as [Et|Et].
    + assert (Hstep : sched_step dv s = Some (with_pc s (Prio ph rest proc))).
      { unfold sched_step; rewrite Epc. rewrite (proj2 (N.eqb_eq _ _) Et). reflexivity. }
      eexists; split; [apply auto_of_sched; exact Hstep|]. split.
      * apply (Hfr _ Hstep); eqrefl.
        -- notsend.
        -- proj; discriminate.
        -- unfold strict_ok, pre_pop; proj. exact Hst.
        -- intros Eg. specialize (Hg Eg). unfold GPhase; proj. destruct ph; [|exact Hg].
           destruct Hg as [Hp0 Hah]. split; [exact Hp0|].
           intros q Hq. destruct (Hah q Hq) as [Hd|[[<-|Hr] Ht]]; auto; try lia.
      * destruct ph; dposgoal Epc.
    + assert (Hstep : sched_step dv s = Some (mark_drained s p (Prio ph rest proc))).
      { unfold sched_step; rewrite Epc. rewrite (proj2 (N.eqb_neq _ _) Et), Hiqp, Hclp. reflexivity. }
      eexists; split; [apply auto_of_sched; exact Hstep|]. split.
      * apply (Hfr _ Hstep); eqrefl.
        -- notsend.
        -- proj; discriminate.
        -- unfold strict_ok, pre_pop; proj. exact Hst.
        -- intros Eg. specialize (Hg Eg). unfold GPhase; proj. destruct ph.
           ++ destruct Hg as [Hp0 Hah]. split; [exact Hp0|]. unfold ahead; proj. unfold upd.
              intros q Hq. destruct (N.eqb_spec q p) as [->|Hne]; [left; reflexivity|].
              destruct (Hah q Hq) as [Hd|[[E|Hr] Ht]]; auto; try congruence.
           ++ destruct Hg as [Hp0 Had]. split; [exact Hp0|]. unfold alldr; proj. unfold upd.
              intros q Hq. destruct (N.eqb q p); auto.
      * destruct ph; dposgoal Epc.
  - (* Send *) exfalso. eapply Hns; reflexivity.
  - (* Recalc *)
    assert (Hstep : sched_step dv s = Some (step_recalc dv s proc)) by (unfold sched_step; rewrite Epc; reflexivity).
    destruct (step_recalc_chan s proc) as (Eo & Eh & Ef & Ea & Ec & Ei & Edr).
    destruct (step_recalc_shape dv s proc) as [_ Hpc'].
    destruct (sched_step_static _ _ Hstep) as (_ & Epr & _ & _ & Efl & _).
    eexists; split; [apply auto_of_sched; exact Hstep|]. split.
    + apply (Hfr _ Hstep Ec Ei Eo Eh).
      * destruct Hpc' as [E|[E|[e E]]]; rewrite E; unfold not_send; intros; discriminate.
      * destruct Hpc' as [E|[E|[e E]]]; rewrite E; discriminate.
      * unfold strict_ok, pre_pop. rewrite Ef. destruct Hpc' as [E|[E|[e E]]]; rewrite E; exact Hst.
      * intros Eg. specialize (Hg Eg). destruct Hg as [Hp0 Had]. unfold GPhase, alldr.
        destruct Hpc' as [E|[E|[e E]]]; rewrite E, ?Epr, ?Edr; auto.
    + unfold dpos. rewrite Epr, Efl, Ef, Epc. destruct Hpc' as [E|[E|[e E]]]; rewrite E; lia.
  - (* EndBase *)
    destruct (N.eqb_spec proc 0) as [Ep0|Ep0].
    + destruct (forallb (drained s) (prios s)) eqn:Efa.
      * assert (Hstep : sched_step dv s = Some (with_pc s (Drain None))).
        { unfold sched_step; rewrite Epc, Efa. rewrite (proj2 (N.eqb_eq _ _) Ep0). reflexivity. }
        eexists; split; [apply auto_of_sched; exact Hstep|]. split.
        -- apply (Hfr _ Hstep); eqrefl; [notsend|proj; discriminate|unfold strict_ok, pre_pop; proj; exact Hst|].
           intros _. exact I.
        -- dposgoal Epc.
      * assert (Hstep : sched_step dv s = Some (with_pc s Idle)).
        { unfold sched_step; rewrite Epc, Efa. rewrite (proj2 (N.eqb_eq _ _) Ep0). reflexivity. }
        eexists; split; [apply auto_of_sched; exact Hstep|]. split.
        -- apply (Hfr _ Hstep); eqrefl; [notsend|proj; discriminate|unfold strict_ok, pre_pop; proj; exact Hst|].
           intros Eg. destruct (Hg Eg) as [_ Had]. rewrite (forallb_alldr s Had) in Efa. discriminate.
        -- dposgoal Epc.
    + assert (Hstep : sched_step dv s = Some (with_pc s (LimFb (fblimit s)))).
      { unfold sched_step; rewrite Epc. rewrite (proj2 (N.eqb_neq _ _) Ep0). reflexivity. }
      eexists; split; [apply auto_of_sched; exact Hstep|]. split.
      * apply (Hfr _ Hstep); eqrefl; [notsend|proj; discriminate| |].
        -- unfold strict_ok, pre_pop; proj. destruct Hst as [?|[? _]]; [left|right]; auto.
        -- intros Eg. destruct (Hg Eg) as [Hp0 _]. contradiction.
      * dposgoal Epc.
  - (* Idle *)
    assert (Hstep : auto_step s = Some (with_pc s (LimFb (fblimit s)))).
    { unfold auto_step, sched_step, env_step. rewrite Epc. reflexivity. }
    assert (Henv : env_step s Tick = Some (with_pc s (LimFb (fblimit s)))) by (unfold env_step; rewrite Epc; reflexivity).
    eexists; split; [exact Hstep|]. split.
    + apply (dreg_frame F0 g s _ HR0); eqrefl.
      * eapply env_step_inv; eauto.
      * eapply env_step_inv2; eauto.
      * eapply env_step_static; eauto.
      * notsend.
      * proj; discriminate.
      * unfold strict_ok, pre_pop; proj. destruct Hst as [?|[? _]]; [left|right]; auto.
      * intros Eg. destruct (Hg Eg).
    + dposgoal Epc.
  - (* LimFb *)
    destruct k as [|k].
    + assert (Hstep : sched_step dv s = Some (with_pc s Calc)) by (unfold sched_step; rewrite Epc; reflexivity).
      eexists; split; [apply auto_of_sched; exact Hstep|]. split.
      * apply (Hfr _ Hstep); eqrefl; [notsend|proj; discriminate| |].
        -- unfold strict_ok, pre_pop; proj. left. destruct Hst as [?|[_ ?]]; lia.
        -- intros Eg. destruct (Hg Eg).
      * dposgoal Epc.
    + destruct (fbq s) as [|p q] eqn:Efb.
      * assert (Hstep : sched_step dv s = Some (with_pc s Calc)) by (unfold sched_step; rewrite Epc, Efb; reflexivity).
        eexists; split; [apply auto_of_sched; exact Hstep|]. split.
        -- apply (Hfr _ Hstep); eqrefl; [notsend|proj; discriminate| |].
           ++ unfold strict_ok, pre_pop; proj. left. rewrite Efb. cbn [length]. lia.
           ++ intros Eg. destruct (Hg Eg).
        -- dposgoal Epc.
      * assert (Hstep : sched_step dv s = Some (pop_fb s p q (LimFb k))) by (unfold sched_step; rewrite Epc, Efb; reflexivity).
        eexists; split; [apply auto_of_sched; exact Hstep|]. split.
        -- apply (Hfr _ Hstep); eqrefl; [notsend|proj; discriminate| |].
           ++ unfold strict_ok, pre_pop; proj. left. cbn [length] in Hst. destruct Hst as [?|[? _]]; lia.
           ++ intros Eg. destruct (Hg Eg).
        -- dposgoal Epc.
  - (* Drain *)
    destruct (fbq s) as [|p q] eqn:Efb.
    + assert (Hstep : sched_step dv s = Some (with_pc s (Done e))).
      { unfold sched_step; rewrite Epc. cbn [length N.of_nat] in Hsum. rewrite Hsum. reflexivity. }
      eexists; split; [apply auto_of_sched; exact Hstep|]. split.
      * apply (Hfr _ Hstep); eqrefl; [notsend|proj; discriminate| |].
        -- unfold strict_ok, pre_pop; proj. rewrite Efb. exact Hst.
        -- intros _. exact I.
      * dposgoal Epc.
    + assert (Hstep : sched_step dv s = Some (pop_fb s p q (Drain e))).
      { unfold sched_step; rewrite Epc, Efb. cbn [length] in Hsum. rewrite Nat2N.inj_succ in Hsum.
        destruct (N.eqb_spec (sum (actual s)) 0) as [E|_]; [lia|reflexivity]. }
      eexists; split; [apply auto_of_sched; exact Hstep|]. split.
      * apply (Hfr _ Hstep); eqrefl; [notsend|proj; discriminate| |].
        -- unfold strict_ok, pre_pop; proj. left. cbn [length] in Hst. destruct Hst as [?|[? _]]; lia.
        -- intros _. exact I.
      * unfold dpos; proj. rewrite Epc, Efb. cbn [length]. lia.
  - (* Done *) exfalso; apply HnT; exact I.
Qed.


Lemma dreg_reach F0 g s : DReg F0 g s ->
  exists k s', (k <= dpos s)%nat /\ iter_auto k s = Some s' /\ is_target s' /\ DReg F0 g s'.
Proof.
  intros HR. apply (reach_by_variant (DReg F0 g) is_target dpos is_target_dec (dreg_progress F0 g) (dpos s) s (le_n _) HR).
Qed.

Lemma static_refl s : static s s.
Proof. repeat split; reflexivity. Qed.
Lemma static_trans s1 s2 s3 : static s1 s2 -> static s2 s3 -> static s1 s3.
Proof. intros (a1 & a2 & a3 & a4 & a5 & a6) (b1 & b2 & b3 & b4 & b5 & b6). repeat split; congruence. Qed.
Lemma auto_step_static s s' : auto_step s = Some s' -> static s s'.
Proof.
  unfold auto_step. intros Hs. destruct (sched_step dv s) as [s1|] eqn:E.
  - inversion Hs; subst. eapply sched_step_static; eauto.
  - destruct (pcs s); try discriminate; eapply env_step_static; eauto.
Qed.
Lemma iter_auto_static n : forall s s', iter_auto n s = Some s' -> static s s'.
Proof.
  induction n as [|n IH]; intros s s' Hi; cbn [iter_auto] in Hi.
  - inversion Hi; subst. apply static_refl.
  - destruct (auto_step s) as [s1|] eqn:E; [|discriminate]. eapply static_trans; [eapply auto_step_static; eauto|apply IH; exact Hi].
Qed.

Definition Quiet (s : st) : Prop :=
  (forall p, In p (prios s) -> closed s p = true /\ inq s p = []) /\ outq s = [] /\ held s = [] /\ (1 <= fblimit s)%nat.

Lemma mk_dreg s0 s F0 g : InitL s0 -> reachable dv s0 s -> Quiet s -> not_send (pcs s) -> (1 <= F0)%nat -> strict_ok F0 s ->
  (g = true -> GPhase s) -> DReg F0 g s.
Proof.
  intros I Hr (Hcl & Ho & Hh & Hlim) Hns HF0 Hst Hg.
  pose proof (reachable_inv dv dv_wf _ _ (il_init s0 I) Hr) as Hinv.
  constructor; auto.
  - eapply (reachable_inv2 dv); eauto. apply (il_init s0 I).
  - intros Hpc Hf. pose proof (prio2_no_wait_when_idle s0 s I Hr Hpc) as Hpos.
    pose proof (i_sum s Hinv) as Hs. unfold inflight in Hs. rewrite Ho, Hh, Hf in Hs. cbn [length N.of_nat] in Hs. lia.
Qed.

Lemma dreg_quiet F0 g s : DReg F0 g s -> Quiet s.
Proof. intros [Hinv Hinv2 Hcl Ho Hh Hlim Hns Hwait HF0 Hst Hg]. repeat split; auto; apply Hcl; auto. Qed.

Definition calc_bound (L K F : nat) : nat := ((F + 1) * (4 * L + K + F + 12))%nat.

Lemma calc_bound_mono L K F F' : (F' <= F)%nat -> (calc_bound L K F' <= calc_bound L K F)%nat.
Proof. intros Hle. unfold calc_bound. apply Nat.mul_le_mono; lia. Qed.
Lemma calc_bound_step L K F F' k : (F' < F)%nat -> (k <= 4 * L + K + F + 8)%nat ->
  (1 + k + calc_bound L K F' <= calc_bound L K F)%nat.
Proof.
  intros Hlt Hk. unfold calc_bound.
  assert (H1 : ((F' + 1) * (4 * L + K + F' + 12) <= F * (4 * L + K + F + 12))%nat) by (apply Nat.mul_le_mono; lia).
  replace ((F + 1) * (4 * L + K + F + 12))%nat with (F * (4 * L + K + F + 12) + (4 * L + K + F + 12))%nat by lia.
  lia.
Qed.

Lemma from_calc s0 : InitL s0 -> forall F s, length (fbq s) = F -> reachable dv s0 s -> Quiet s -> pcs s = Calc ->
  exists n s' e, (n <= calc_bound (length (prios s)) (fblimit s) F)%nat /\ iter_auto n s = Some s' /\ pcs s' = Done e.
Proof.
  intros HI F. induction F as [F IH] using lt_wf_ind. intros s HF Hr HQ Hpc.
  pose proof (reachable_inv dv dv_wf _ _ (il_init s0 HI) Hr) as Hinv.
  pose proof (reachable_Shares _ _ HI Hr) as Hsh.
  pose proof HQ as (Hcl & Ho & Hh & Hlim).
  assert (Hsum : sum (actual s) = N.of_nat (length (fbq s))).
  { pose proof (i_sum s Hinv) as Hs. unfold inflight in Hs. rewrite Ho, Hh in Hs. cbn [length N.of_nat] in Hs. lia. }
  destruct F as [|F].
  - (* nothing outstanding: the final round *)
    rewrite HF in Hsum. cbn [N.of_nat] in Hsum.
    destruct (calc_idle_start s Hinv Hsh Hpc Hsum) as (t & E1 & Hg & _).
    set (s1 := with_tac s t (Prio P1 (prios s) 0)) in *.
    assert (Hr1 : reachable dv s0 s1) by (eapply r_sched; eauto).
    assert (HR1 : DReg 1 true s1).
    { apply (mk_dreg s0 s1 1%nat true HI Hr1 HQ).
      - unfold s1. notsend.
      - lia.
      - left. unfold s1; proj. lia.
      - intros _. unfold GPhase, s1; proj. split; [reflexivity|]. intros p Hp. right. split; [exact Hp|].
        proj. rewrite (Hg p Hp). apply (sh_pos s Hsh p Hp). }
    destruct (dreg_reach 1 true s1 HR1) as (k & s' & Hk & Hi & HT & HR').
    pose proof (d_good _ _ _ HR' eq_refl) as HG. unfold is_target in HT. unfold GPhase in HG.
    destruct (pcs s') eqn:Epc'; try contradiction.
    exists (S k), s', e. split; [|split; [eapply iter_auto_S; [apply auto_of_sched; exact E1|exact Hi]|exact Epc']].
    unfold dpos, s1 in Hk. cbn [pcs prios fblimit fbq with_tac] in Hk. unfold calc_bound. rewrite HF in Hk. lia.
  - (* something outstanding: one cycle consumes a release *)
    assert (E1 : sched_step dv s = Some (step_calc dv s)) by (unfold sched_step; rewrite Hpc; reflexivity).
    set (s1 := step_calc dv s) in *.
    destruct (step_calc_chan s) as (Eo & Eh & Ef & Ea & Ec & Ei & Edr). fold s1 in Eo, Eh, Ef, Ea, Ec, Ei, Edr.
    destruct (step_calc_shape dv s) as [_ Hpc1]. fold s1 in Hpc1. unfold calc_pc in Hpc1.
    destruct (sched_step_static _ _ E1) as (_ & Epr & _ & _ & Efl & _).
    assert (Hr1 : reachable dv s0 s1) by (eapply r_sched; eauto).
    assert (HR1 : DReg (S F) false s1).
    { assert (HQ1 : Quiet s1) by (unfold Quiet; rewrite Epr, Ec, Ei, Eo, Eh, Efl; exact HQ).
      apply (mk_dreg s0 s1 (S F) false HI Hr1 HQ1).
      - destruct Hpc1 as [E|[E|[e E]]]; rewrite E; unfold not_send; intros; discriminate.
      - lia.
      - right. rewrite Ef. split; [exact HF|]. unfold pre_pop. destruct Hpc1 as [E|[E|[e E]]]; rewrite E; exact I.
      - discriminate. }
    destruct (dreg_reach (S F) false s1 HR1) as (k & s' & Hk & Hi & HT & HR').
    assert (Hk' : (k <= 4 * length (prios s) + fblimit s + S F + 8)%nat).
    { unfold dpos in Hk. rewrite Epr, Efl, Ef, HF in Hk. destruct Hpc1 as [E|[E|[e E]]]; rewrite E in Hk; cbn [length] in Hk; lia. }
    assert (Hi1 : iter_auto (S k) s = Some s') by (eapply iter_auto_S; [apply auto_of_sched; exact E1|exact Hi]).
    unfold is_target in HT. destruct (pcs s') eqn:Epc'; try contradiction.
    + (* back at Calc with fewer releases outstanding *)
      assert (Hlt : (length (fbq s') < S F)%nat).
      { destruct (d_strict _ _ _ HR') as [Hl|[_ Hpp]]; [exact Hl|]. unfold pre_pop in Hpp. rewrite Epc' in Hpp. contradiction. }
      destruct (iter_auto_static _ _ _ Hi1) as (_ & Epr' & _ & _ & Efl' & _).
      destruct (IH (length (fbq s')) Hlt s' eq_refl) as (n & s'' & e & Hn & Hi2 & Hd); auto.
      * eapply iter_auto_reachable; eauto.
      * eapply dreg_quiet; eauto.
      * exists (S k + n)%nat, s'', e. split; [|split; [eapply iter_auto_app; eauto|exact Hd]].
        rewrite Epr', Efl' in Hn.
        pose proof (calc_bound_step (length (prios s)) (fblimit s) (S F) (length (fbq s')) k Hlt Hk'). lia.
    + exists (S k), s', e. split; [|split; [exact Hi1|exact Epc']].
      unfold calc_bound. nia.
Qed.

(* from the top of a round; the only addition to the informal statement is fblimit >= 1 (true of init_state, see
   init_state_fblimit): with fblimit = 0 and a divider that hands out nothing the scheduler can idle forever without
   consuming the pending releases *)
Theorem prio2_prompt_termination_from_calc : forall s0 s, InitL s0 -> reachable dv s0 s ->
  (forall p, In p (prios s) -> closed s p = true /\ inq s p = []) -> outq s = [] -> held s = [] -> (1 <= fblimit s)%nat ->
  pcs s = Calc ->
  exists n s' e, (n <= calc_bound (length (prios s)) (fblimit s) (length (fbq s)))%nat /\ iter_auto n s = Some s' /\ pcs s' = Done e.
Proof.
  intros s0 s I Hr Hcl Ho Hh Hlim Hpc. apply (from_calc s0 I (length (fbq s)) s eq_refl Hr); [|exact Hpc].
  repeat split; auto; apply Hcl; auto.
Qed.

Definition bound (s : st) : nat := (dpos s + calc_bound (length (prios s)) (fblimit s) (length (fbq s)))%nat.

(* from anywhere but Send (an item in limbo would be written to the output and never taken: see prompt_needs_not_send) *)
Theorem prio2_prompt_termination_partial : forall s0 s, InitL s0 -> reachable dv s0 s ->
  (forall p, In p (prios s) -> closed s p = true /\ inq s p = []) -> outq s = [] -> held s = [] -> (1 <= fblimit s)%nat ->
  (forall ph p x r proc, pcs s <> Send ph p x r proc) ->
  exists n s' e, (n <= bound s)%nat /\ iter_auto n s = Some s' /\ pcs s' = Done e.
Proof.
  intros s0 s I Hr Hcl Ho Hh Hlim Hns.
  assert (HQ : Quiet s) by (repeat split; auto; apply Hcl; auto).
  assert (HR : DReg (S (length (fbq s))) false s).
  { apply (mk_dreg s0 s _ false I Hr HQ); [exact Hns|lia|left; lia|discriminate]. }
  destruct (dreg_reach _ _ s HR) as (k & s' & Hk & Hi & HT & HR').
  unfold is_target in HT. destruct (pcs s') eqn:Epc'; try contradiction.
  - assert (Hle : (length (fbq s') <= length (fbq s))%nat).
    { destruct (d_strict _ _ _ HR') as [Hl|[_ Hpp]]; [lia|]. unfold pre_pop in Hpp. rewrite Epc' in Hpp. contradiction. }
    destruct (iter_auto_static _ _ _ Hi) as (_ & Epr' & _ & _ & Efl' & _).
    destruct (from_calc s0 I (length (fbq s')) s' eq_refl) as (n & s'' & e & Hn & Hi2 & Hd); auto.
    + eapply iter_auto_reachable; eauto.
    + eapply dreg_quiet; eauto.
    + exists (k + n)%nat, s'', e. split; [|split; [eapply iter_auto_app; eauto|exact Hd]].
      rewrite Epr', Efl' in Hn. pose proof (calc_bound_mono (length (prios s)) (fblimit s) _ _ Hle). unfold bound. lia.
  - exists k, s', e. split; [unfold bound; lia|]. split; [exact Hi|exact Epc'].
Qed.


(* ================= C (stretch). a single busy priority gets every handler ================= *)
(* the environment takes from the output whenever it is non-empty; otherwise the scheduler moves (or time passes) *)
Definition eager_step (s : st) : option st := match outq s with [] => auto_step s | _ :: _ => env_step s Take end.
Fixpoint iter_eager (n : nat) (s : st) : option st :=
  match n with O => Some s | S n' => match eager_step s with None => None | Some s' => iter_eager n' s' end end.

Lemma eager_auto s s1 : outq s = [] -> auto_step s = Some s1 -> eager_step s = Some s1.
Proof. intros Ho E. unfold eager_step. rewrite Ho. exact E. Qed.
Lemma eager_sched s s1 : outq s = [] -> sched_step dv s = Some s1 -> eager_step s = Some s1.
Proof. intros Ho E. apply eager_auto; [exact Ho|apply auto_of_sched; exact E]. Qed.
Lemma iter_eager_S n s s1 s' : eager_step s = Some s1 -> iter_eager n s1 = Some s' -> iter_eager (S n) s = Some s'.
Proof. intros H1 H2. cbn [iter_eager]. rewrite H1. exact H2. Qed.
Lemma iter_eager_app k : forall n s s2 s', iter_eager k s = Some s2 -> iter_eager n s2 = Some s' -> iter_eager (k + n) s = Some s'.
Proof.
  induction k as [|k IH]; intros n s s2 s' H1 H2; cbn [iter_eager Nat.add] in *.
  - inversion H1; subst. exact H2.
  - destruct (eager_step s) as [s1|]; [|discriminate]. eapply IH; eauto.
Qed.
Lemma eager_step_reachable s0 s s' : reachable dv s0 s -> eager_step s = Some s' -> reachable dv s0 s'.
Proof.
  intros Hr E. unfold eager_step in E. destruct (outq s).
  - apply (iter_auto_reachable 1 s0 s s' Hr). cbn [iter_auto]. rewrite E. reflexivity.
  - eapply r_env; eauto.
Qed.
Lemma iter_eager_reachable n : forall s0 s s', reachable dv s0 s -> iter_eager n s = Some s' -> reachable dv s0 s'.
Proof.
  induction n as [|n IH]; intros s0 s s' Hr Hi; cbn [iter_eager] in Hi.
  - inversion Hi; subst; exact Hr.
  - destruct (eager_step s) as [s1|] eqn:E; [|discriminate]. eapply IH; [|exact Hi]. eapply eager_step_reachable; eauto.
Qed.

Definition Same (s s' : st) : Prop :=
  static s s' /\ actual s' = actual s /\ tactic s' = tactic s /\ inq s' = inq s /\ outq s' = outq s.
Lemma Same_refl s : Same s s.
Proof. split; [apply static_refl|]. repeat split; reflexivity. Qed.
Lemma Same_trans s1 s2 s3 : Same s1 s2 -> Same s2 s3 -> Same s1 s3.
Proof.
  intros (a0 & a1 & a2 & a3 & a4) (b0 & b1 & b2 & b3 & b4). split; [eapply static_trans; eauto|]. repeat split; congruence.
Qed.
Ltac same_now := split; [repeat split; reflexivity|repeat split; reflexivity].

(* skipping priorities that have no data or no allowance *)
Lemma scan_skip ph : forall rest tail s proc,
  pcs s = Prio ph (rest ++ tail) proc -> outq s = [] ->
  (forall q, In q rest -> inq s q = [] \/ get (tactic s) q = 0) ->
  exists n s', iter_eager n s = Some s' /\ pcs s' = Prio ph tail proc /\ Same s s' /\
     (forall q, drained s' q = true -> drained s q = true \/ inq s q = []).
Proof.
  induction rest as [|q r IH]; intros tail s proc Hpc Ho Hq.
  - exists 0%nat, s. split; [reflexivity|]. split; [exact Hpc|]. split; [apply Same_refl|auto].
  - cbn [app] in Hpc.
    assert (Hcont : forall k s2, iter_eager k s = Some s2 -> pcs s2 = Prio ph (r ++ tail) proc -> Same s s2 ->
        (forall q', drained s2 q' = true -> drained s q' = true \/ inq s q' = []) ->
        exists n s', iter_eager n s = Some s' /\ pcs s' = Prio ph tail proc /\ Same s s' /\
          (forall q', drained s' q' = true -> drained s q' = true \/ inq s q' = [])).
    { intros k s2 Hk Hpc2 HS Hd2. pose proof HS as (Hst & Ea & Et & Ei & Eo).
      destruct (IH tail s2 proc Hpc2) as (n & s' & Hi & Hpc' & HS' & Hd').
      - rewrite Eo; exact Ho.
      - intros q' Hq'. rewrite Ei, Et. apply Hq. right; exact Hq'.
      - exists (k + n)%nat, s'. split; [eapply iter_eager_app; eauto|]. split; [exact Hpc'|].
        split; [eapply Same_trans; eauto|].
        intros q' Hd. destruct (Hd' q' Hd) as [H1|H1]; [apply Hd2; exact H1|right; rewrite <- Ei; exact H1]. }
    assert (E1 : sched_step dv s = Some (with_pc s (if drained s q then Prio ph (r ++ tail) proc else Read ph q (r ++ tail) proc false))).
    { unfold sched_step. rewrite Hpc. reflexivity. }
    destruct (drained s q) eqn:Edq.
    + apply (Hcont 1%nat (with_pc s (Prio ph (r ++ tail) proc))).
      * eapply iter_eager_S; [apply eager_sched; [exact Ho|exact E1]|reflexivity].
      * reflexivity.
      * same_now.
      * intros q' Hd. left. exact Hd.
    + set (s1 := with_pc s (Read ph q (r ++ tail) proc false)) in *.
      assert (Ho1 : outq s1 = []) by exact Ho.
      destruct (N.eqb_spec (get (tactic s) q) 0) as [Et|Et].
      * assert (E2 : sched_step dv s1 = Some (with_pc s1 (Prio ph (r ++ tail) proc))).
        { unfold sched_step, s1; proj. rewrite (proj2 (N.eqb_eq _ _) Et). reflexivity. }
        apply (Hcont 2%nat (with_pc s1 (Prio ph (r ++ tail) proc))).
        -- eapply iter_eager_S; [apply eager_sched; [exact Ho|exact E1]|].
           eapply iter_eager_S; [apply eager_sched; [exact Ho1|exact E2]|reflexivity].
        -- reflexivity.
        -- same_now.
        -- intros q' Hd. left. exact Hd.
      * assert (Etb : (get (tactic s) q =? 0) = false) by (apply N.eqb_neq; exact Et).
        assert (Eq : inq s q = []) by (destruct (Hq q (or_introl eq_refl)) as [Hi|Ht]; [exact Hi|contradiction]).
        destruct (closed s q) eqn:Ecl.
        -- assert (E2 : sched_step dv s1 = Some (mark_drained s1 q (Prio ph (r ++ tail) proc))).
           { unfold sched_step, s1; proj. rewrite Etb, Eq, Ecl. reflexivity. }
           apply (Hcont 2%nat (mark_drained s1 q (Prio ph (r ++ tail) proc))).
           ++ eapply iter_eager_S; [apply eager_sched; [exact Ho|exact E1]|].
              eapply iter_eager_S; [apply eager_sched; [exact Ho1|exact E2]|reflexivity].
           ++ reflexivity.
           ++ same_now.
           ++ intros q' Hd. unfold s1 in Hd. revert Hd. proj. unfold upd.
              destruct (N.eqb_spec q' q) as [->|Hne]; [intros _; right; exact Eq|intros Hd; left; exact Hd].
        -- destruct (buffered s q) eqn:Ebuf.
           ++ assert (E2 : sched_step dv s1 = Some (with_pc s1 (Prio ph (r ++ tail) proc))).
              { unfold sched_step, s1; proj. rewrite Etb, Eq, Ecl, Ebuf. reflexivity. }
              apply (Hcont 2%nat (with_pc s1 (Prio ph (r ++ tail) proc))).
              ** eapply iter_eager_S; [apply eager_sched; [exact Ho|exact E1]|].
                 eapply iter_eager_S; [apply eager_sched; [exact Ho1|exact E2]|reflexivity].
              ** reflexivity.
              ** same_now.
              ** intros q' Hd. left. exact Hd.
           ++ set (s1' := with_pc s1 (Read ph q (r ++ tail) proc true)).
              assert (A2 : auto_step s1 = Some s1').
              { unfold auto_step, sched_step, env_step, s1', s1; proj. rewrite Etb, Eq, Ecl, Ebuf. reflexivity. }
              assert (A3 : auto_step s1' = Some (with_pc s1' (Prio ph (r ++ tail) proc))).
              { unfold auto_step, sched_step, env_step, s1', s1; proj. rewrite Etb, Eq, Ecl, Ebuf. reflexivity. }
              apply (Hcont 3%nat (with_pc s1' (Prio ph (r ++ tail) proc))).
              ** eapply iter_eager_S; [apply eager_sched; [exact Ho|exact E1]|].
                 eapply iter_eager_S; [apply eager_auto; [exact Ho1|exact A2]|].
                 eapply iter_eager_S; [apply eager_auto; [exact Ho1|exact A3]|reflexivity].
              ** reflexivity.
              ** same_now.
              ** intros q' Hd. left. exact Hd.
Qed.


Lemma take_one s px : outq s = [px] ->
  exists s3, eager_step s = Some s3 /\ pcs s3 = pcs s /\ tactic s3 = tactic s /\ actual s3 = actual s /\ inq s3 = inq s /\
    outq s3 = [] /\ static s s3 /\ drained s3 = drained s.
Proof.
  intros Ho. unfold eager_step, env_step. rewrite Ho. eexists. split; [reflexivity|]. proj.
  repeat split; reflexivity.
Qed.

(* reading and sending the whole allowance of p; every item is taken from the output at once *)
Lemma send_loop ph p r : forall k s proc intr,
  pcs s = Read ph p r proc intr -> get (tactic s) p = N.of_nat k -> (k <= length (inq s p))%nat -> outq s = [] -> 1 <= outcap s ->
  exists n s' proc' intr', iter_eager n s = Some s' /\ pcs s' = Read ph p r proc' intr' /\ static s s' /\
    get (tactic s') p = 0 /\ (forall q, q <> p -> get (tactic s') q = get (tactic s) q) /\
    get (actual s') p = get (actual s) p + N.of_nat k /\ (forall q, q <> p -> get (actual s') q = get (actual s) q) /\
    (forall q, q <> p -> inq s' q = inq s q) /\ (length (inq s' p) + k = length (inq s p))%nat /\ outq s' = [] /\
    drained s' = drained s.
Proof.
  induction k as [|k IH]; intros s proc intr Hpc Ht Hlen Ho Hcap.
  - exists 0%nat, s, proc, intr. split; [reflexivity|]. split; [exact Hpc|]. split; [apply static_refl|].
    cbn [N.of_nat] in *. repeat split; auto; lia.
  - assert (Etb : (get (tactic s) p =? 0) = false) by (apply N.eqb_neq; rewrite Ht, Nat2N.inj_succ; lia).
    destruct (inq s p) as [|x qq] eqn:Eq; [cbn [length] in Hlen; lia|].
    set (s1 := pop_in s p qq (Send ph p x r proc)).
    assert (E1 : sched_step dv s = Some s1).
    { unfold sched_step. rewrite Hpc, Etb, Eq. reflexivity. }
    set (s2 := push_out s1 p x (Read ph p r (proc + 1) false)).
    assert (E2 : sched_step dv s1 = Some s2).
    { unfold sched_step, s2, s1; proj. rewrite Ho. cbn [length N.of_nat].
      assert (Hlt : (0 <? outcap s) = true) by (apply N.ltb_lt; lia). rewrite Hlt. reflexivity. }
    assert (Ho2 : outq s2 = [(p, x)]) by (unfold s2, s1; proj; rewrite Ho; reflexivity).
    destruct (take_one s2 (p, x) Ho2) as (s3 & E3 & Epc3 & Et3 & Ea3 & Ei3 & Eo3 & Est3 & Ed3).
    destruct (IH s3 (proc + 1) false) as (n & s' & proc' & intr' & Hi & Hpc' & Hst' & Ht0 & Hto & Hap & Hao & Hio & Hil & Ho' & Hd').
    + rewrite Epc3. reflexivity.
    + rewrite Et3. unfold s2, s1; proj. rewrite get_dec, N.eqb_refl, Ht, Nat2N.inj_succ. lia.
    + rewrite Ei3. unfold s2, s1; proj. unfold upd. rewrite N.eqb_refl. cbn [length] in Hlen. lia.
    + exact Eo3.
    + destruct Est3 as (_ & _ & _ & Ec3 & _). rewrite Ec3. exact Hcap.
    + exists (S (S (S n))), s', proc', intr'.
      split.
      { eapply iter_eager_S; [apply eager_sched; [exact Ho|exact E1]|].
        eapply iter_eager_S; [apply eager_sched; [exact Ho|exact E2]|].
        eapply iter_eager_S; [exact E3|exact Hi]. }
      split; [exact Hpc'|].
      split. { eapply static_trans; [|exact Hst']. eapply static_trans; [|exact Est3]. repeat split; reflexivity. }
      split; [exact Ht0|].
      split. { intros q Hq. rewrite (Hto q Hq), Et3. unfold s2, s1; proj. rewrite get_dec.
               destruct (N.eqb_spec q p); [contradiction|reflexivity]. }
      split. { rewrite Hap, Ea3. unfold s2, s1; proj. rewrite get_inc, N.eqb_refl, Nat2N.inj_succ. lia. }
      split. { intros q Hq. rewrite (Hao q Hq), Ea3. unfold s2, s1; proj. rewrite get_inc.
               destruct (N.eqb_spec q p); [contradiction|reflexivity]. }
      split. { intros q Hq. rewrite (Hio q Hq), Ei3. unfold s2, s1; proj. unfold upd.
               destruct (N.eqb_spec q p); [contradiction|reflexivity]. }
      split. { rewrite Ei3 in Hil. unfold s2, s1 in Hil. revert Hil. proj. unfold upd. rewrite N.eqb_refl. cbn [length]. lia. }
      split; [exact Ho'|]. rewrite Hd', Ed3. reflexivity.
Qed.


Lemma get_two_le_sum d p q : NoDup (keys d) -> q <> p -> get d q + get d p <= sum d.
Proof.
  intros ND Hne. pose proof (sum_set d p 0 ND) as Hs.
  pose proof (get_le_sum (set d p 0) q (nodup_keys_set _ _ _ ND)) as Hle.
  rewrite get_set_other in Hle by congruence. lia.
Qed.
Lemma filter_none (f : N -> bool) l : (forall q, In q l -> f q = false) -> filter f l = [].
Proof.
  induction l as [|a r IH]; intros Hf; cbn [filter]; [reflexivity|].
  rewrite (Hf a (or_introl eq_refl)). apply IH. intros q Hq. apply Hf. right; exact Hq.
Qed.
Lemma filter_single (f : N -> bool) l p : NoDup l -> In p l -> f p = true -> (forall q, In q l -> q <> p -> f q = false) ->
  filter f l = [p].
Proof.
  induction l as [|a r IH]; intros ND Hp Hfp Hf; [destruct Hp|].
  inversion ND as [|? ? Hn NDr]; subst. cbn [filter]. destruct (N.eq_dec a p) as [->|Hne].
  - rewrite Hfp. f_equal. apply filter_none. intros q Hq. apply Hf; [right; exact Hq|]. intros ->. contradiction.
  - rewrite (Hf a (or_introl eq_refl) Hne). apply IH; auto.
    + destruct Hp as [E|Hp]; [contradiction|exact Hp].
    + intros q Hq. apply Hf. right; exact Hq.
Qed.
Lemma sum_list_except (g f : N -> N) l p : NoDup l -> In p l -> f p = 0 -> (forall q, In q l -> q <> p -> f q = g q) ->
  sum_list (map f l) + g p = sum_list (map g l).
Proof.
  induction l as [|a r IH]; intros ND Hp Hfp Hf; [destruct Hp|].
  inversion ND as [|? ? Hn NDr]; subst. cbn [map sum_list]. destruct (N.eq_dec a p) as [->|Hne].
  - rewrite Hfp. rewrite (map_ext_in f g); [lia|]. intros q Hq. apply Hf; [right; exact Hq|]. intros ->. contradiction.
  - rewrite (Hf a (or_introl eq_refl) Hne).
    assert (IH' : sum_list (map f r) + g p = sum_list (map g r)).
    { apply IH; auto. destruct Hp as [E|Hp]; [contradiction|exact Hp]. intros q Hq. apply Hf. right; exact Hq. }
    lia.
Qed.
Lemma le_sum_list (f : N -> N) l p : In p l -> f p <= sum_list (map f l).
Proof.
  induction l as [|a r IH]; intros Hp; [destruct Hp|]. cbn [map sum_list]. destruct Hp as [->|Hp]; [lia|]. specialize (IH Hp). lia.
Qed.

Section Alone.
(* the divider gives the whole dividend to a single priority (true of Fair and Rate) *)
Hypothesis dv_single : forall k p n d, NoDup (keys d) -> get (dv k [p] n d) p = get d p + n /\ sum (dv k [p] n d) = sum d + n.

Lemma single_divide k p n t : NoDup (keys t) -> n < two64 ->
  exists r, safe_divide (dv k) [p] n (reset t) = inl r /\ NoDup (keys r) /\ get r p = n /\ (forall q, q <> p -> get r q = 0).
Proof.
  intros ND Hn. exists (dv k [p] n (reset t)).
  destruct (dv_single k p n (reset t) (nodup_keys_reset _ ND)) as [Hg Hs]. rewrite get_reset in Hg. rewrite sum_reset in Hs.
  assert (W : NoDup (keys (dv k [p] n (reset t)))) by (apply dv_wf; apply nodup_keys_reset; exact ND).
  split.
  - unfold safe_divide, safe_sum. rewrite sum_reset. change (0 <? two64) with true. cbv iota. rewrite Hs, N.add_0_l.
    apply N.ltb_lt in Hn. rewrite Hn. destruct (n =? 0); auto. apply N.ltb_lt in Hn. rewrite wrap_sub by auto.
    rewrite N.eqb_refl. reflexivity.
  - split; [exact W|]. split; [lia|]. intros q Hq. pose proof (get_two_le_sum _ p q W Hq). lia.
Qed.

Lemma recalc_alone s proc p : Inv s -> H s < two64 -> pcs s = Recalc proc -> In p (prios s) ->
  get (tactic s) p = 0 -> (forall q, In q (prios s) -> q <> p -> get (tactic s) q <> 0) ->
  (forall q, q <> p -> get (actual s) q = 0) -> get (actual s) p < H s -> 1 <= sum (tactic s) ->
  exists s', sched_step dv s = Some s' /\ pcs s' = Prio P2 (prios s) proc /\ static s s' /\ same_chan s s' /\
    get (tactic s') p = sum (tactic s) /\ (forall q, q <> p -> get (tactic s') q = 0).
Proof.
  intros Hinv HH Hpc Hp Htp Htq Haq Hap Hrem.
  assert (Hus : useful s = [p]).
  { unfold useful. apply filter_single; [apply (i_ndp s Hinv)|exact Hp|rewrite Htp; reflexivity|].
    intros q Hq Hne. apply N.eqb_neq. apply Htq; auto. }
  destruct (single_divide (ncalls s) p (H s) (tactic s) (i_ndt s Hinv) HH) as (t1 & E1 & W1 & Hg1 & Hz1).
  assert (Hus' : useful_like s t1 = [p]).
  { unfold useful_like. apply filter_single; [apply (i_ndp s Hinv)|exact Hp|rewrite Hg1; apply N.ltb_lt; exact Hap|].
    intros q Hq Hne. rewrite (Haq q Hne), (Hz1 q Hne). reflexivity. }
  assert (Hr : sum (tactic s) < two64).
  { pose proof (i_round s Hinv) as Hr. rewrite Hpc in Hr. specialize (Hr eq_refl). lia. }
  destruct (single_divide (S (ncalls s)) p (sum (tactic s)) t1 W1 Hr) as (t2 & E2 & W2 & Hg2 & Hz2).
  eexists. split.
  - unfold sched_step. rewrite Hpc. unfold step_recalc. cbv zeta. rewrite Hus, E1, Hus', E2.
    unfold filled. cbn [forallb]. rewrite Hg2. destruct (N.eqb_spec (sum (tactic s)) 0) as [E|_]; [lia|]. cbn [negb andb]. reflexivity.
  - proj. split; [reflexivity|]. split; [repeat split; reflexivity|]. split; [repeat split; reflexivity|]. split; [exact Hg2|exact Hz2].
Qed.


Theorem prio2_alone_gets_all : forall s0 s p, InitL s0 -> reachable dv s0 s -> pcs s = Calc -> sum (actual s) = 0 ->
  H s < two64 -> In p (prios s) -> (forall q, In q (prios s) -> q <> p -> inq s q = []) -> H s <= N.of_nat (length (inq s p)) ->
  exists n s', iter_eager n s = Some s' /\ get (actual s') p = H s'.
Proof.
  intros s0 s p HI Hr Hpc Hz HH Hp Hothers Hdata.
  pose proof (il_init s0 HI) as HI0.
  pose proof (reachable_inv dv dv_wf _ _ HI0 Hr) as Hinv.
  pose proof (reachable_inv2 dv _ _ HI0 Hr) as Hinv2.
  pose proof (reachable_Shares _ _ HI Hr) as Hsh.
  pose proof (sh_H s Hsh) as HH1.
  assert (Hz' : forall q, get (actual s) q = 0) by (intros q; apply sum_zero_get; [apply (i_nda s Hinv)|exact Hz]).
  assert (Ho : outq s = []).
  { apply length_zero_nil. pose proof (i_sum s Hinv) as Hs. unfold inflight in Hs. lia. }
  assert (Hne : inq s p <> []) by (intros E; rewrite E in Hdata; cbn [length N.of_nat] in Hdata; lia).
  assert (Hdr : drained s p = false).
  { destruct (drained s p) eqn:E; [|reflexivity]. destruct (j_drained s Hinv2 p E) as [_ Hi]. contradiction. }
  assert (Hsp : get (strategic s) p <= H s).
  { rewrite <- (sh_sum s Hsh). apply (le_sum_list (get (strategic s))). exact Hp. }
  pose proof (sh_pos s Hsh p Hp) as Hsp1.
  destruct (step_calc_addup s Hinv Hsh) as (t & Et & Hg1 & Hg2 & _).
  { intros q _. rewrite Hz'. lia. } { intros q _. apply Hz'. } { lia. }
  assert (Ht : forall q, In q (prios s) -> get t q = get (strategic s) q) by (intros q Hq; rewrite (Hg1 q Hq), Hz'; lia).
  destruct (in_split p (prios s) Hp) as (pre & post & Hsplit).
  assert (Hnp : ~ In p (pre ++ post)).
  { pose proof (i_ndp s Hinv) as ND. rewrite Hsplit in ND. apply NoDup_remove_2 in ND. exact ND. }
  assert (Hpre : forall q, In q pre -> In q (prios s) /\ q <> p).
  { intros q Hq. split; [rewrite Hsplit; apply in_or_app; left; exact Hq|]. intros ->. apply Hnp. apply in_or_app; left; exact Hq. }
  assert (Hpost : forall q, In q post -> In q (prios s) /\ q <> p).
  { intros q Hq. split; [rewrite Hsplit; apply in_or_app; right; right; exact Hq|]. intros ->. apply Hnp. apply in_or_app; right; exact Hq. }
  (* --- the round starts *)
  set (s1 := with_tac s t (Prio P1 (prios s) 0)).
  assert (E1 : sched_step dv s = Some s1) by (unfold sched_step; rewrite Hpc, Et; reflexivity).
  assert (Hpc1 : pcs s1 = Prio P1 (pre ++ p :: post) 0) by (unfold s1; proj; rewrite Hsplit; reflexivity).
  (* --- phase one, priorities before p *)
  destruct (scan_skip P1 pre (p :: post) s1 0 Hpc1 Ho) as (n1 & s2 & Hi2 & Hpc2 & (Hst2 & Ea2 & Et2 & Ei2 & Eo2) & Hd2).
  { intros q Hq. left. destruct (Hpre q Hq) as [Hq1 Hq2]. apply (Hothers q Hq1 Hq2). }
  assert (Hdr2 : drained s2 p = false).
  { destruct (drained s2 p) eqn:E; [|reflexivity]. destruct (Hd2 p E) as [Hx|Hx]; [|contradiction]. unfold s1 in Hx. revert Hx. proj. congruence. }
  set (s2' := with_pc s2 (Read P1 p post 0 false)).
  assert (E2 : sched_step dv s2 = Some s2') by (unfold sched_step; rewrite Hpc2, Hdr2; reflexivity).
  assert (Ho2 : outq s2 = []) by (rewrite Eo2; exact Ho).
  (* --- phase one, p spends its share *)
  set (k1 := N.to_nat (get (strategic s) p)).
  destruct (send_loop P1 p post k1 s2' 0 false) as
    (n3 & s3 & proc3 & intr3 & Hi3 & Hpc3 & Hst3 & Ht3p & Ht3o & Ha3p & Ha3o & Hi3o & Hl3 & Ho3 & Hdr3).
  { reflexivity. }
  { unfold s2'; proj. rewrite Et2. unfold s1; proj. rewrite (Ht p Hp). unfold k1. rewrite N2Nat.id. reflexivity. }
  { unfold s2'; proj. rewrite Ei2. unfold s1; proj. unfold k1. lia. }
  { exact Ho2. }
  { unfold s2'; proj. destruct Hst2 as (_ & _ & _ & Ec & _). rewrite Ec. apply (sh_cap s Hsh). }
  assert (Hst13 : static s s3).
  { eapply static_trans; [|exact Hst3]. eapply static_trans; [|exact Hst2]. repeat split; reflexivity. }
  assert (Hit3 : iter_eager (1 + (n1 + (1 + n3))) s = Some s3).
  { eapply iter_eager_S; [apply eager_sched; [exact Ho|exact E1]|]. eapply iter_eager_app; [exact Hi2|].
    eapply iter_eager_S; [apply eager_sched; [exact Ho2|exact E2]|exact Hi3]. }
  assert (Ha3 : get (actual s3) p = get (strategic s) p).
  { rewrite Ha3p. unfold s2'; proj. rewrite Ea2. unfold s1; proj. rewrite Hz'. unfold k1. rewrite N2Nat.id. lia. }
  destruct (N.eq_dec (get (strategic s) p) (H s)) as [Eall|Hless].
  { (* p is the only priority with a share: done *)
    exists (1 + (n1 + (1 + n3)))%nat, s3. split; [exact Hit3|]. destruct Hst13 as (EH & _). rewrite EH, Ha3. exact Eall. }
  (* --- phase one, priorities after p *)
  set (s3' := with_pc s3 (Prio P1 post proc3)).
  assert (E3 : sched_step dv s3 = Some s3').
  { unfold sched_step. rewrite Hpc3, Ht3p. reflexivity. }
  assert (Hinq3 : forall q, q <> p -> inq s3 q = inq s q).
  { intros q Hq. rewrite (Hi3o q Hq). unfold s2'; proj. rewrite Ei2. reflexivity. }
  assert (Hpc3' : pcs s3' = Prio P1 (post ++ []) proc3) by (rewrite app_nil_r; reflexivity).
  destruct (scan_skip P1 post [] s3' proc3 Hpc3' Ho3) as (n4 & s4 & Hi4 & Hpc4 & (Hst4 & Ea4 & Et4 & Ei4 & Eo4) & Hd4).
  { intros q Hq. left. destruct (Hpost q Hq) as [Hq1 Hq2]. unfold s3'; proj. rewrite (Hinq3 q Hq2). apply (Hothers q Hq1 Hq2). }
  set (s4' := with_pc s4 (Recalc proc3)).
  assert (E4 : sched_step dv s4 = Some s4') by (unfold sched_step; rewrite Hpc4; reflexivity).
  assert (Ho4 : outq s4 = []) by (rewrite Eo4; exact Ho3).
  assert (Hit4 : iter_eager (1 + (n1 + (1 + n3)) + (1 + (n4 + 1))) s = Some s4').
  { eapply iter_eager_app; [exact Hit3|]. eapply iter_eager_S; [apply eager_sched; [exact Ho3|exact E3]|].
    eapply iter_eager_app; [exact Hi4|]. eapply iter_eager_S; [apply eager_sched; [exact Ho4|exact E4]|reflexivity]. }
  assert (Hst14 : static s s4').
  { eapply static_trans; [exact Hst13|]. eapply static_trans; [|eapply static_trans; [exact Hst4|]]; repeat split; reflexivity. }
  pose proof Hst14 as (EH4 & Epr4 & Estr4 & Ecap4 & _).
  pose proof (reachable_inv dv dv_wf _ _ HI0 (iter_eager_reachable _ _ _ _ Hr Hit4)) as Hinv4.
  (* --- recalcTactic gives the unused allowance to p *)
  assert (Htac4 : forall q, get (tactic s4') q = if N.eqb q p then 0 else get t q).
  { intros q. unfold s4'; proj. rewrite Et4. unfold s3'; proj. destruct (N.eqb_spec q p) as [->|Hq]; [exact Ht3p|].
    rewrite (Ht3o q Hq). unfold s2'; proj. rewrite Et2. reflexivity. }
  assert (Hact4 : forall q, get (actual s4') q = if N.eqb q p then get (strategic s) p else 0).
  { intros q. unfold s4'; proj. rewrite Ea4. unfold s3'; proj. destruct (N.eqb_spec q p) as [->|Hq]; [exact Ha3|].
    rewrite (Ha3o q Hq). unfold s2'; proj. rewrite Ea2. unfold s1; proj. apply Hz'. }
  assert (Hrem : sum (tactic s4') + get (strategic s) p = H s).
  { rewrite (sum_on (prios s4') (tactic s4') (i_ndp _ Hinv4) (i_ndt _ Hinv4)).
    - rewrite Epr4, <- (sh_sum s Hsh). apply sum_list_except; [apply (i_ndp s Hinv)|exact Hp| |].
      + rewrite Htac4, N.eqb_refl. reflexivity.
      + intros q Hq Hqp. rewrite Htac4. destruct (N.eqb_spec q p); [contradiction|]. apply Ht; exact Hq.
    - intros q Hq. rewrite Epr4 in Hq. rewrite Htac4. destruct (N.eqb_spec q p) as [->|_]; [reflexivity|]. apply Hg2; exact Hq. }
  destruct (recalc_alone s4' proc3 p Hinv4) as (s5 & E5 & Hpc5 & Hst5 & (Eo5 & _ & _ & Ea5 & _ & Ei5 & Edr5) & Ht5p & Ht5o).
  { rewrite EH4; exact HH. } { reflexivity. } { rewrite Epr4; exact Hp. }
  { rewrite Htac4, N.eqb_refl. reflexivity. }
  { intros q Hq Hqp. rewrite Epr4 in Hq. rewrite Htac4. destruct (N.eqb_spec q p); [contradiction|].
    rewrite (Ht q Hq). pose proof (sh_pos s Hsh q Hq). lia. }
  { intros q Hq. rewrite Hact4. destruct (N.eqb_spec q p); [contradiction|reflexivity]. }
  { rewrite Hact4, N.eqb_refl, EH4. lia. }
  { lia. }
  assert (Ho4' : outq s4' = []) by exact Ho4.
  assert (Ho5 : outq s5 = []) by (rewrite Eo5; exact Ho4').
  (* --- phase two, priorities before p have no allowance *)
  assert (Hpc5' : pcs s5 = Prio P2 (pre ++ p :: post) proc3) by (rewrite Hpc5, Epr4, Hsplit; reflexivity).
  destruct (scan_skip P2 pre (p :: post) s5 proc3 Hpc5' Ho5) as (n6 & s6 & Hi6 & Hpc6 & (Hst6 & Ea6 & Et6 & Ei6 & Eo6) & Hd6).
  { intros q Hq. right. destruct (Hpre q Hq) as [_ Hq2]. apply (Ht5o q Hq2). }
  assert (Hlen3 : (N.to_nat (H s) - k1 <= length (inq s3 p))%nat).
  { revert Hl3. unfold s2'; proj. rewrite Ei2. unfold s1; proj. lia. }
  assert (Hinq5 : inq s5 = inq s3).
  { rewrite Ei5. unfold s4'; proj. rewrite Ei4. reflexivity. }
  assert (Hdr6 : drained s6 p = false).
  { destruct (drained s6 p) eqn:E; [|reflexivity]. exfalso.
    assert (Hk : (0 < N.to_nat (H s) - k1)%nat) by (unfold k1; lia).
    assert (Hne3 : inq s3 p <> []) by (intros Ex; rewrite Ex in Hlen3; cbn [length] in Hlen3; lia).
    destruct (Hd6 p E) as [Hx|Hx]; [|rewrite Hinq5 in Hx; contradiction].
    rewrite Edr5 in Hx. unfold s4' in Hx. revert Hx. proj. intros Hx.
    destruct (Hd4 p Hx) as [Hy|Hy]; [|unfold s3' in Hy; revert Hy; proj; intros Hy; contradiction].
    unfold s3' in Hy. revert Hy. proj. rewrite Hdr3. unfold s2'; proj. congruence. }
  set (s6' := with_pc s6 (Read P2 p post proc3 false)).
  assert (E6 : sched_step dv s6 = Some s6') by (unfold sched_step; rewrite Hpc6, Hdr6; reflexivity).
  assert (Ho6 : outq s6 = []) by (rewrite Eo6; exact Ho5).
  (* --- phase two, p spends the rest *)
  set (k2 := N.to_nat (sum (tactic s4'))).
  destruct (send_loop P2 p post k2 s6' proc3 false) as
    (n7 & s7 & proc7 & intr7 & Hi7 & Hpc7 & Hst7 & _ & _ & Ha7p & _ & _ & _ & _ & _).
  { reflexivity. }
  { unfold s6'; proj. rewrite Et6, Ht5p. unfold k2. rewrite N2Nat.id. reflexivity. }
  { unfold s6'; proj. rewrite Ei6, Hinq5. unfold k2. unfold k1 in Hlen3. lia. }
  { exact Ho6. }
  { unfold s6'; proj. destruct Hst6 as (_ & _ & _ & Ec6 & _). destruct Hst5 as (_ & _ & _ & Ec5 & _). rewrite Ec6, Ec5, Ecap4.
    apply (sh_cap s Hsh). }
  exists (1 + (n1 + (1 + n3)) + (1 + (n4 + 1)) + (1 + (n6 + (1 + n7))))%nat, s7. split.
  - eapply iter_eager_app; [exact Hit4|]. eapply iter_eager_S; [apply eager_sched; [exact Ho4'|exact E5]|].
    eapply iter_eager_app; [exact Hi6|]. eapply iter_eager_S; [apply eager_sched; [exact Ho6|exact E6]|exact Hi7].
  - assert (EH7 : H s7 = H s).
    { destruct Hst7 as (e7 & _). destruct Hst6 as (e6 & _). destruct Hst5 as (e5 & _). rewrite e7. unfold s6'; proj. rewrite e6, e5. exact EH4. }
    rewrite EH7, Ha7p. unfold s6'; proj. rewrite Ea6, Ea5, Hact4, N.eqb_refl. unfold k2. rewrite N2Nat.id. lia.
Qed.
End Alone.
End Progress.
Print Assumptions prio2_no_wait_when_idle.
Print Assumptions prio2_share_bound.
Print Assumptions prio2_full_when_quiet.
Print Assumptions prio2_round_delivers_auto.
Print Assumptions prio2_round_delivers.
Print Assumptions prio2_prompt_termination_from_calc.
Print Assumptions prio2_prompt_termination_partial.
Print Assumptions prio2_alone_gets_all.

(* ---------- non-vacuity: concrete executions with the Fair divider ---------- *)
Definition sat_okb (s : st) : bool :=
  match pcs s with
  | Read _ p _ _ _ => (get (tactic s) p =? 0) || match inq s p with [] => false | _ => true end
  | _ => true
  end.
Lemma sat_okb_ok s : sat_okb s = true -> sat_ok s.
Proof.
  unfold sat_okb, sat_ok. intros Hb ph p r proc intr Hpc Ht Hi. rewrite Hpc, Hi in Hb.
  apply N.eqb_neq in Ht. rewrite Ht in Hb. discriminate.
Qed.

(* a checked run: strict = true checks the saturation condition at scheduler steps and ticks (sat_reachable),
   strict = false only at scheduler steps (sat_reachable_literal); Close is refused *)
Fixpoint sat_run (dv : nat -> Divider) (strict : bool) (l : list act) (s : st) : option st :=
  match l with
  | [] => Some s
  | Sch :: r => if sat_okb s then match sched_step dv s with Some s' => sat_run dv strict r s' | None => None end else None
  | Env (Close _) :: _ => None
  | Env Tick :: r => if negb strict || sat_okb s then match env_step s Tick with Some s' => sat_run dv strict r s' | None => None end else None
  | Env o :: r => match env_step s o with Some s' => sat_run dv strict r s' | None => None end
  end.

Lemma sat_run_sound dv l : forall s0 s s', sat_reachable dv s0 s -> sat_run dv true l s = Some s' -> sat_reachable dv s0 s'.
Proof.
  induction l as [|a r IH]; intros s0 s s' Hr Hrun; cbn [sat_run] in Hrun.
  - inversion Hrun; subst; auto.
  - destruct a as [|o].
    + destruct (sat_okb s) eqn:Eb; [|discriminate]. destruct (sched_step dv s) as [s1|] eqn:E; [|discriminate].
      eapply IH; [|exact Hrun]. eapply sr_sched; eauto. apply sat_okb_ok; exact Eb.
    + destruct o as [p x|p| |p|]; try discriminate.
      * destruct (env_step s (Put p x)) as [s1|] eqn:E; [|discriminate]. eapply IH; [|exact Hrun]. eapply sr_env; eauto. exact I.
      * destruct (env_step s Take) as [s1|] eqn:E; [|discriminate]. eapply IH; [|exact Hrun]. eapply sr_env; eauto. exact I.
      * destruct (env_step s (Release p)) as [s1|] eqn:E; [|discriminate]. eapply IH; [|exact Hrun]. eapply sr_env; eauto. exact I.
      * cbn [negb orb] in Hrun. destruct (sat_okb s) eqn:Eb; [|discriminate].
        destruct (env_step s Tick) as [s1|] eqn:E; [|discriminate]. eapply IH; [|exact Hrun]. eapply sr_env; eauto.
        apply sat_okb_ok; exact Eb.
Qed.

Lemma sat_run_literal_sound dv l : forall s0 s s',
  sat_reachable_literal dv s0 s -> sat_run dv false l s = Some s' -> sat_reachable_literal dv s0 s'.
Proof.
  induction l as [|a r IH]; intros s0 s s' Hr Hrun; cbn [sat_run] in Hrun.
  - inversion Hrun; subst; auto.
  - destruct a as [|o].
    + destruct (sat_okb s) eqn:Eb; [|discriminate]. destruct (sched_step dv s) as [s1|] eqn:E; [|discriminate].
      eapply IH; [|exact Hrun]. eapply srl_sched; eauto. apply sat_okb_ok; exact Eb.
    + destruct o as [p x|p| |p|]; try discriminate.
      * destruct (env_step s (Put p x)) as [s1|] eqn:E; [|discriminate]. eapply IH; [|exact Hrun]. eapply srl_env; eauto. discriminate.
      * destruct (env_step s Take) as [s1|] eqn:E; [|discriminate]. eapply IH; [|exact Hrun]. eapply srl_env; eauto. discriminate.
      * destruct (env_step s (Release p)) as [s1|] eqn:E; [|discriminate]. eapply IH; [|exact Hrun]. eapply srl_env; eauto. discriminate.
      * cbn [negb orb] in Hrun.
        destruct (env_step s Tick) as [s1|] eqn:E; [|discriminate]. eapply IH; [|exact Hrun]. eapply srl_env; eauto. discriminate.
Qed.

Lemma ex_initL : InitL ex_s0.
Proof.
  constructor; [exact ex_init|vm_compute; discriminate|reflexivity| |vm_compute; discriminate].
  intros p Hp. cbn in Hp. destruct Hp as [<-|[<-|[]]]; vm_compute; discriminate.
Qed.

(* A and B: two items are delivered, both handlers are busy, the scheduler waits for a release -- and one is owed *)
Definition exl_script : list act :=
  [Env (Put 2 7); Env (Put 1 8); Sch; Sch; Sch; Sch; Sch; Sch; Sch; Sch; Sch; Sch; Sch; Sch; Sch; Sch; Sch; Sch; Sch; Sch; Sch].
Definition exl_s1 : st := Eval vm_compute in match run fdv exl_script ex_s0 with Some s => s | None => ex_s0 end.
Example exl_run : run fdv exl_script ex_s0 = Some exl_s1 /\ sat_run fdv true exl_script ex_s0 = Some exl_s1.
Proof. split; vm_compute; reflexivity. Qed.
Example exl_wait : reachable fdv ex_s0 exl_s1 /\ sat_reachable fdv ex_s0 exl_s1 /\ pcs exl_s1 = WaitFb /\ fbq exl_s1 = [] /\
  sum (actual exl_s1) = 2 /\ delivered exl_s1 = [(2, 7); (1, 8)].
Proof.
  split; [eapply run_reachable; [apply r_init|apply exl_run]|].
  split; [eapply sat_run_sound; [apply sr_init|apply exl_run]|].
  vm_compute. repeat split; reflexivity.
Qed.
Example exl_A : forall s, reachable fdv ex_s0 s -> pcs s = WaitFb -> 0 < sum (actual s).
Proof. intros s. apply (prio2_no_wait_when_idle fdv fdv_wf ex_s0 s ex_initL). Qed.
Example exl_B1 : forall s, sat_reachable fdv ex_s0 s -> forall p, get (actual s) p <= get (strategic s) p.
Proof. intros s. apply (prio2_share_bound fdv fdv_wf ex_s0 s ex_initL). Qed.
Example exl_B2 : forall p, In p (prios exl_s1) -> get (actual exl_s1) p = get (strategic exl_s1) p.
Proof.
  apply (prio2_full_when_quiet fdv fdv_wf ex_s0 exl_s1 ex_initL); [|reflexivity|reflexivity].
  eapply sat_run_sound; [apply sr_init|apply exl_run].
Qed.

(* B, counterexample to the literal saturation notion (ticks unconstrained): priority 2 (share 1) has an empty unbuffered input,
   the scheduler looks at it, two ticks pass, and phase two hands its unused allowance to priority 1, whose share is 1 *)
Definition cx_s0 : st := init_state [1; 2] 2 [2; 1] [(2, 1); (1, 1)] (fun _ => false).
Lemma cx_initL : InitL cx_s0.
Proof.
  constructor; [|vm_compute; discriminate|reflexivity| |vm_compute; discriminate].
  - apply init_state_Init; cbn [keys]; repeat constructor; cbn [In]; intros Hx; repeat (destruct Hx as [Hx|Hx]; try discriminate); auto.
  - intros p Hp. cbn in Hp. destruct Hp as [<-|[<-|[]]]; vm_compute; discriminate.
Qed.
Definition cx_script : list act :=
  [Env (Put 1 8); Env (Put 1 9); Sch; Sch; Env Tick; Env Tick; Sch; Sch; Sch; Sch; Sch; Sch; Sch; Sch; Sch; Sch; Sch; Sch].
Definition cx_s1 : st := Eval vm_compute in match run fdv cx_script cx_s0 with Some s => s | None => cx_s0 end.
Example cx_run : sat_run fdv false cx_script cx_s0 = Some cx_s1.
Proof. vm_compute. reflexivity. Qed.
Example sat_literal_false : sat_reachable_literal fdv cx_s0 cx_s1 /\ get (actual cx_s1) 1 = 2 /\ get (strategic cx_s1) 1 = 1.
Proof.
  split; [eapply sat_run_literal_sound; [apply srl_init|apply cx_run]|]. split; reflexivity.
Qed.

(* C: one Put, then the scheduler alone delivers the item *)
Definition exc_s : st := Eval vm_compute in match run fdv [Env (Put 1 8)] ex_s0 with Some s => s | None => ex_s0 end.
Lemma exc_reach : reachable fdv ex_s0 exc_s.
Proof. eapply run_reachable; [apply r_init|]. instantiate (1 := [Env (Put 1 8)]). vm_compute. reflexivity. Qed.
Example exl_C : exists n s', (n <= 8)%nat /\ iter_sched fdv n exc_s = Some s' /\ length (delivered s') = 1%nat.
Proof.
  assert (Hdata : exists p, In p (prios exc_s) /\ drained exc_s p = false /\ inq exc_s p <> []).
  { exists 1. split; [right; left; reflexivity|]. split; [reflexivity|]. vm_compute. discriminate. }
  assert (NB : forall q, In q (prios exc_s) -> drained exc_s q = false -> closed exc_s q = false -> inq exc_s q = [] ->
               buffered exc_s q = true) by (intros q _ _ _ _; reflexivity).
  destruct (prio2_round_delivers fdv fdv_wf ex_s0 exc_s ex_initL exc_reach eq_refl eq_refl Hdata NB) as (n & s' & Hn & Hi & Hd).
  exists n, s'. auto.
Qed.
Example exl_C_concrete : option_map delivered (iter_sched fdv 6 exc_s) = Some [(1, 8)].
Proof. vm_compute. reflexivity. Qed.

(* C, counterexample to the statement without NoBlock: priority 2 is empty, open and unbuffered; the scheduler alone blocks on it
   although priority 1 has data (the clock is needed: prio2_round_delivers_auto) *)
Definition cxc_s : st := Eval vm_compute in match run fdv [Env (Put 1 8)] cx_s0 with Some s => s | None => cx_s0 end.
Lemma cxc_reach : reachable fdv cx_s0 cxc_s.
Proof. eapply run_reachable; [apply r_init|]. instantiate (1 := [Env (Put 1 8)]). vm_compute. reflexivity. Qed.
Example round_delivers_needs_noblock :
  pcs cxc_s = Calc /\ sum (actual cxc_s) = 0 /\ (In 1 (prios cxc_s) /\ drained cxc_s 1 = false /\ inq cxc_s 1 <> []) /\
  forall n s', iter_sched fdv n cxc_s = Some s' -> delivered s' = [].
Proof.
  split; [reflexivity|]. split; [reflexivity|]. split.
  - split; [right; left; reflexivity|]. split; [reflexivity|]. vm_compute. discriminate.
  - intros n s' Hi. destruct n as [|[|[|n]]]; vm_compute in Hi; try discriminate; inversion Hi; reflexivity.
Qed.
Example exl_C_auto : exists n s', (n <= 7)%nat /\ iter_auto fdv n cxc_s = Some s' /\ length (delivered s') = 1%nat.
Proof.
  assert (Hdata : exists p, In p (prios cxc_s) /\ drained cxc_s p = false /\ inq cxc_s p <> []).
  { exists 1. split; [right; left; reflexivity|]. split; [reflexivity|]. vm_compute. discriminate. }
  destruct (prio2_round_delivers_auto fdv fdv_wf cx_s0 cxc_s cx_initL cxc_reach eq_refl eq_refl Hdata) as (n & s' & Hn & Hi & Hd).
  exists n, s'. auto.
Qed.

(* D: fblimit >= 1 holds for New()'s initial state *)
Lemma init_state_fblimit ps h sorted strat buf : ps <> [] -> (1 <= fblimit (init_state ps h sorted strat buf))%nat.
Proof.
  intros Hne. cbn [fblimit init_state]. unfold divide_with_min. change (10 =? 0) with false. cbv iota.
  assert (Hl : 1 <= N.of_nat (length ps)) by (destruct ps; [contradiction|cbn [length]; lia]).
  destruct (h / 10 <? N.of_nat (length ps)) eqn:E; [lia|]. apply N.ltb_ge in E. lia.
Qed.

(* D: an item was delivered, taken and released (the release is pending in fbq), then both inputs are closed: the scheduler,
   in the middle of a round, terminates on its own *)
Definition exd_script : list act := [Env (Put 2 7); Sch; Sch; Sch; Sch; Env Take; Env (Release 2); Env (Close 2); Env (Close 1)].
Definition exd_s : st := Eval vm_compute in match run fdv exd_script ex_s0 with Some s => s | None => ex_s0 end.
Lemma exd_reach : reachable fdv ex_s0 exd_s.
Proof. eapply run_reachable; [apply r_init|]. instantiate (1 := exd_script). vm_compute. reflexivity. Qed.
Example exl_D : pcs exd_s = Read P1 2 [1] 1 false /\ fbq exd_s = [2] /\ bound exd_s = 64%nat /\
  exists n s' e, (n <= 64)%nat /\ iter_auto fdv n exd_s = Some s' /\ pcs s' = Done e.
Proof.
  split; [reflexivity|]. split; [reflexivity|]. split; [reflexivity|].
  apply (prio2_prompt_termination_partial fdv fdv_wf ex_s0 exd_s ex_initL exd_reach); try reflexivity.
  - intros p Hp. cbn in Hp. destruct Hp as [<-|[<-|[]]]; split; reflexivity.
  - vm_compute. lia.
  - intros ph p x r proc. discriminate.
Qed.
Example exl_D_concrete : option_map pcs (iter_auto fdv 22 exd_s) = Some (Done None).
Proof. vm_compute. reflexivity. Qed.

(* D, counterexample to the general statement: the scheduler holds an item in limbo (pc = Send) when the inputs are closed; it
   writes it to the output, nobody takes it, and the deferred waitZeroActual blocks forever in Drain *)
Definition cxd_script : list act := [Env (Put 2 7); Sch; Sch; Sch; Env (Close 2); Env (Close 1)].
Definition cxd_s : st := Eval vm_compute in match run fdv cxd_script ex_s0 with Some s => s | None => ex_s0 end.
Lemma cxd_reach : reachable fdv ex_s0 cxd_s.
Proof. eapply run_reachable; [apply r_init|]. instantiate (1 := cxd_script). vm_compute. reflexivity. Qed.
Example prompt_needs_not_send :
  pcs cxd_s = Send P1 2 7 [1] 0 /\ (forall p, In p (prios cxd_s) -> closed cxd_s p = true /\ inq cxd_s p = []) /\
  outq cxd_s = [] /\ held cxd_s = [] /\ fbq cxd_s = [] /\
  forall n s', iter_auto fdv n cxd_s = Some s' -> forall e, pcs s' <> Done e.
Proof.
  split; [reflexivity|]. split.
  { intros p Hp. cbn in Hp. destruct Hp as [<-|[<-|[]]]; split; reflexivity. }
  split; [reflexivity|]. split; [reflexivity|]. split; [reflexivity|].
  intros n. do 22 (destruct n as [|n]; [intros s' Hi e; vm_compute in Hi; inversion Hi; subst s'; discriminate|]).
  intros s' Hi. vm_compute in Hi. discriminate.
Qed.

(* C (stretch): priority 2 (share 1 of H = 2) alone has two items: it ends up holding both handlers *)
Lemma fdv_single : forall k p n d, NoDup (keys d) -> get (fdv k [p] n d) p = get d p + n /\ sum (fdv k [p] n d) = sum d + n.
Proof.
  intros k p n d ND. split; [|apply fair_conserves; [discriminate|exact ND]].
  unfold fdv, fair. cbn [length N.of_nat fair_loop]. change (N.pos (Pos.of_succ_nat 0)) with 1.
  rewrite N.div_1_r, N.mul_1_r, N.sub_diag. cbn [N.eqb fair_loop]. unfold add. apply get_set_same.
Qed.
Definition exa_s : st := Eval vm_compute in match run fdv [Env (Put 2 7); Env (Put 2 8)] ex_s0 with Some s => s | None => ex_s0 end.
Lemma exa_reach : reachable fdv ex_s0 exa_s.
Proof. eapply run_reachable; [apply r_init|]. instantiate (1 := [Env (Put 2 7); Env (Put 2 8)]). vm_compute. reflexivity. Qed.
Example exl_alone : exists n s', iter_eager fdv n exa_s = Some s' /\ get (actual s') 2 = 2.
Proof.
  assert (Hlt : H exa_s < two64) by (vm_compute; reflexivity).
  assert (Hp : In 2 (prios exa_s)) by (left; reflexivity).
  assert (Hoth : forall q, In q (prios exa_s) -> q <> 2 -> inq exa_s q = []).
  { intros q Hq Hne. cbn in Hq. destruct Hq as [<-|[<-|[]]]; [contradiction|reflexivity]. }
  assert (Hdata : H exa_s <= N.of_nat (length (inq exa_s 2))) by (vm_compute; discriminate).
  destruct (prio2_alone_gets_all fdv fdv_wf fdv_single ex_s0 exa_s 2 ex_initL exa_reach eq_refl eq_refl Hlt Hp Hoth Hdata)
    as (n & s' & Hi & Ha).
  exists n, s'. split; [exact Hi|]. rewrite Ha.
  destruct (reachable_const fdv ex_s0 s' (iter_eager_reachable fdv n ex_s0 exa_s s' exa_reach Hi)) as [EH _].
  rewrite EH. reflexivity.
Qed.
Example exl_alone_concrete : option_map (fun s => get (actual s) 2) (iter_eager fdv 14 exa_s) = Some 2.
Proof. vm_compute. reflexivity. Qed.
