(* Property theorems about the v2 constructor (C15). *)
From Coq Require Import List NArith Bool. From Cqos Require Import Base Divider DividerP Sched Utils UtilsP. Import ListNotations. Open Scope N_scope.
Theorem C15_new_rejects_zero_share :
  forall (dv : Divider) (ps : list N) (H : N) (sorted : list N) (st : dist),
         prepare_v2 dv ps H = inl (sorted, st) ->
         sorted = sort_desc ps /\ (forall p : N, In p ps -> 1 <= get st p).
Proof. exact @new_rejects_zero_share. Qed.
Print Assumptions C15_new_rejects_zero_share.

Theorem C15_new_rejects_bad_division :
  forall (dv : list N -> N -> list (N * N) -> dist) (ps : list N) (H : N),
         H <> 0 ->
         ps <> [] ->
         H < two64 ->
         let total := sum (dv (sort_desc ps) H []) in
         total <> 0 -> total <> H -> total < two64 -> prepare_v2 dv ps H = inr (EDivider DividerBad).
Proof. exact @new_rejects_bad_division. Qed.
Print Assumptions C15_new_rejects_bad_division.

Theorem C15_refuted_old :
  (exists st : dist,
            prepare_v2_old (rate part_q) [32; 26; 11; 1] 10 = inl ([32; 26; 11; 1], st) /\ get st 1 = 0) /\
         prepare_v2 (rate part_q) [32; 26; 11; 1] 10 = inr ETooSmall.
Proof. exact @refuted_old_new. Qed.
Print Assumptions C15_refuted_old.

