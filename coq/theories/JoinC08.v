(* C08: ownership of delivered slices in the join / unite model.  Memory is abstracted: the accumulation buffer is the
   field `buf`; in no-copy mode the consumer owns it from the Out event until the Rel event (pc = AwaitRel), in v1 for
   ever once a Stop arrived first (unrel = true).  "The discipline does not touch the slice" = `buf` does not change and
   nothing is emitted. *)
From Coq Require Import List ZArith Bool Lia.
From Cqos Require Import Join.
Import ListNotations.
Open Scope Z_scope.

(* while the consumer owns the no-copy slice only three things can happen: the release, a Stop() call being recorded,
   and (v1, stopped) giving up the wait; none of them emits, and until the release the buffer is unchanged *)
Lemma nocopy_frozen c s e s' o k :
  pc s = AwaitRel k -> jstep c s e = Some (s', o) ->
  o = [] /\
  match e with
  | Rel _ => True
  | Abort _ => buf s' = buf s /\ unrel s' = true /\ (pc s' = Loop \/ pc s' = Closed)
  | StopCall _ => buf s' = buf s /\ pc s' = AwaitRel k
  | _ => False
  end.
Proof.
  intros Hpc Hs. unfold jstep in Hs. rewrite Hpc in Hs.
  destruct e; try discriminate.
  - inversion Hs; subst. auto.
  - destruct (is_v1 c); [|discriminate]. inversion Hs; subst. simpl. auto.
  - destruct (is_v1 c && stopped s); [|discriminate]. inversion Hs; subst. destruct k; simpl; auto.
Qed.

(* v1: once a delivered slice was left unreleased the buffer is never written again and nothing is emitted any more *)
Lemma unreleased_frozen c s e s' o :
  unrel s = true -> (pc s = Loop \/ pc s = Closed) -> jstep c s e = Some (s', o) ->
  buf s' = buf s /\ o = [] /\ unrel s' = true /\ (pc s' = Loop \/ pc s' = Closed).
Proof.
  intros Hu Hpc Hs. unfold jstep in Hs. destruct Hpc as [Hpc|Hpc]; rewrite Hpc in Hs.
  - destruct e; try discriminate.
    + rewrite Hu in Hs. inversion Hs; subst. auto.
    + destruct (interval c <=? 0); [discriminate|]. rewrite Hu in Hs. inversion Hs; subst. auto.
    + rewrite Hu in Hs. inversion Hs; subst. simpl. auto.
    + destruct (is_v1 c); [|discriminate]. inversion Hs; subst. simpl. try rewrite Hpc. auto.
    + destruct (is_v1 c && stopped s); [|discriminate]. rewrite Hu in Hs. inversion Hs; subst. simpl. auto.
  - destruct e; try discriminate. destruct (is_v1 c); [|discriminate]. inversion Hs; subst. simpl. try rewrite Hpc. auto.
Qed.

(* unrel is only ever set by giving up the wait for a release, which leaves the machine in Loop or Closed *)
Lemma unrel_only_in_loop c s e s' o :
  (unrel s = true -> pc s = Loop \/ pc s = Closed) -> jstep c s e = Some (s', o) ->
  (unrel s' = true -> pc s' = Loop \/ pc s' = Closed).
Proof.
  intros Hinv Hs Hu'. destruct (unrel s) eqn:Hu.
  - destruct (unreleased_frozen c s e s' o Hu (Hinv eq_refl) Hs) as (_ & _ & _ & H). exact H.
  - unfold jstep in Hs. destruct (pc s) eqn:Hpc; destruct e; try discriminate.
    + rewrite Hu in Hs. inversion Hs; subst. unfold process in Hu'.
      repeat match type of Hu' with context [if ?b then _ else _] => destruct b end;
      unfold do_pass, resume in Hu'; repeat match type of Hu' with context [match ?x with _ => _ end] => destruct x end; simpl in Hu'; congruence.
    + destruct (interval c <=? 0); [discriminate|]. rewrite Hu in Hs. destruct (timeout c <=? t - passAt s); inversion Hs; subst; [|congruence].
      unfold do_pass, resume in Hu'. destruct (buf s); simpl in Hu'; congruence.
    + rewrite Hu in Hs. inversion Hs; subst. unfold do_pass, resume in Hu'. destruct (buf s); simpl in Hu'; congruence.
    + destruct (is_v1 c); [|discriminate]. inversion Hs; subst. simpl in Hu'. congruence.
    + destruct (is_v1 c && stopped s); [|discriminate]. rewrite Hu in Hs. inversion Hs; subst.
      unfold do_pass, resume in Hu'. destruct (buf s); simpl in Hu'; congruence.
    + destruct (nocopy c); inversion Hs; subst; [simpl in Hu'; congruence|]. unfold resume in Hu'. destruct k; simpl in Hu'; congruence.
    + destruct (is_v1 c); [|discriminate]. inversion Hs; subst. simpl in Hu'. congruence.
    + destruct (is_v1 c && stopped s); [|discriminate]. inversion Hs; subst. unfold resume in Hu'. destruct k; simpl in Hu'; congruence.
    + inversion Hs; subst. unfold resume in Hu'. destruct k; simpl in Hu'; congruence.
    + destruct (is_v1 c); [|discriminate]. inversion Hs; subst. simpl in Hu'. congruence.
    + destruct (is_v1 c && stopped s); [|discriminate]. inversion Hs; subst. destruct k; simpl; auto.
    + destruct (is_v1 c); [|discriminate]. inversion Hs; subst. simpl in *. try rewrite Hpc. auto.
Qed.

Lemma unrel_reach c evs : forall s now s' o,
  (unrel s = true -> pc s = Loop \/ pc s = Closed) -> jrun c s now evs = Some (s', o) ->
  (unrel s' = true -> pc s' = Loop \/ pc s' = Closed).
Proof.
  induction evs as [|e r IH]; simpl; intros s now s' o Hinv Hr.
  - inversion Hr; subst. exact Hinv.
  - destruct (now <=? ev_time e); [|discriminate]. destruct (jstep c s e) as [[s1 o1]|] eqn:Es; [|discriminate].
    destruct (jrun c s1 (ev_time e) r) as [[s2 o2]|] eqn:Er; [|discriminate]. inversion Hr; subst.
    eapply IH; [|eauto]. eapply unrel_only_in_loop; eauto.
Qed.

(* the whole-trace form: from creation, for any trace prefix after which a slice is unreleased, every continuation
   leaves the buffer as it is and emits nothing *)
Theorem unreleased_forever c t0 pre s o :
  jrun c (jinit t0) t0 pre = Some (s, o) -> unrel s = true ->
  forall post now s' o', jrun c s now post = Some (s', o') -> buf s' = buf s /\ o' = [].
Proof.
  intros Hr Hu post. assert (Hpc : pc s = Loop \/ pc s = Closed).
  { eapply unrel_reach; [|exact Hr|exact Hu]. simpl. discriminate. }
  clear Hr. revert s Hu Hpc. induction post as [|e r IH]; simpl; intros s Hu Hpc now s' o' Hr.
  - inversion Hr; subst. auto.
  - destruct (now <=? ev_time e); [|discriminate]. destruct (jstep c s e) as [[s1 o1]|] eqn:Es; [|discriminate].
    destruct (jrun c s1 (ev_time e) r) as [[s2 o2]|] eqn:Er; [|discriminate]. inversion Hr; subst.
    destruct (unreleased_frozen c s e s1 o1 Hu Hpc Es) as (Hb & Ho & Hu1 & Hpc1).
    destruct (IH s1 Hu1 Hpc1 _ _ _ Er) as [Hb2 Ho2]. subst. split; [congruence|reflexivity].
Qed.

(* copy mode never waits for a release: a delivered slice is the consumer's for good and the machine goes on *)
Lemma copy_never_awaits c s e s' o :
  nocopy c = false -> (forall k, pc s <> AwaitRel k) -> jstep c s e = Some (s', o) -> forall k, pc s' <> AwaitRel k.
Proof.
  intros Hnc Hpc Hs k Hk. unfold jstep in Hs. destruct (pc s) eqn:E; destruct e; try discriminate;
  repeat match type of Hs with context [if ?b then _ else _] => destruct b eqn:? end; try discriminate;
  inversion Hs; subst; try (eapply Hpc; eauto; fail);
  unfold process, do_pass, resume, set_pc in Hk;
  repeat match type of Hk with context [if ?b then _ else _] => destruct b end;
  repeat match type of Hk with context [match ?x with _ => _ end] => destruct x end; simpl in Hk; try congruence.
  all: try (rewrite E in Hk; congruence).
Qed.
