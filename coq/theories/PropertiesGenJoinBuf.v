(* Property theorems (not obligations of a property: slices are values in the translation, aliasing is C08's own subject): what the generated prepareItem / resetJoin compute. *)
From Coq Require Import List NArith ZArith Bool. From Cqos Require Import GoSem Sched Join RateConv Run GenTieMiscBase GenTieJoinV2 GenTieUnite GenTieJoinV1 GenTieJoinV2Buf GenTieUniteBuf GenTieJoinV1Buf. Import ListNotations.
Theorem C08_gen_join_v2_prepareItem :
  forall (w : nat) (dsc : J2.Discipline) (item : list N), J2.gen_prepareItem w dsc item = (w, dsc, item).
Proof. exact @tie_join_v2_prepareItem. Qed.
Print Assumptions C08_gen_join_v2_prepareItem.

Theorem C08_gen_join_v2_resetJoin :
  forall (w : nat) (dsc : J2.Discipline),
         J2.gen_resetJoin w dsc =
         (w,
          {|
            J2.Discipline_opts := J2.Discipline_opts dsc;
            J2.Discipline_interruptInterval := J2.Discipline_interruptInterval dsc;
            J2.Discipline_join := [];
            J2.Discipline_output := J2.Discipline_output dsc;
            J2.Discipline_passAt := J2.Discipline_passAt dsc;
            J2.Discipline_release := J2.Discipline_release dsc
          |}, tt).
Proof. exact @tie_join_v2_resetJoin. Qed.
Print Assumptions C08_gen_join_v2_resetJoin.

Theorem C08_gen_unite_v2_prepareItem :
  forall (w : nat) (dsc : JU.Discipline) (item : list N), JU.gen_prepareItem w dsc item = (w, dsc, item).
Proof. exact @tie_unite_v2_prepareItem. Qed.
Print Assumptions C08_gen_unite_v2_prepareItem.

Theorem C08_gen_unite_v2_resetJoin :
  forall (w : nat) (dsc : JU.Discipline),
         JU.gen_resetJoin w dsc =
         (w,
          {|
            JU.Discipline_opts := JU.Discipline_opts dsc;
            JU.Discipline_interruptInterval := JU.Discipline_interruptInterval dsc;
            JU.Discipline_join := [];
            JU.Discipline_output := JU.Discipline_output dsc;
            JU.Discipline_passAt := JU.Discipline_passAt dsc;
            JU.Discipline_release := JU.Discipline_release dsc
          |}, tt).
Proof. exact @tie_unite_v2_resetJoin. Qed.
Print Assumptions C08_gen_unite_v2_resetJoin.

Theorem C08_gen_join_v1_prepareItem :
  forall (w : nat) (dsc : J1.Discipline) (item : list N), J1.gen_prepareItem w dsc item = (w, dsc, item).
Proof. exact @tie_join_v1_prepareItem. Qed.
Print Assumptions C08_gen_join_v1_prepareItem.

Theorem C08_gen_join_v1_resetJoin :
  forall (w : nat) (dsc : J1.Discipline),
         J1.gen_resetJoin w dsc =
         (w,
          if J1.Discipline_unreleased dsc
          then dsc
          else
           {|
             J1.Discipline_opts := J1.Discipline_opts dsc;
             J1.Discipline_breaker := J1.Discipline_breaker dsc;
             J1.Discipline_interruptInterval := J1.Discipline_interruptInterval dsc;
             J1.Discipline_join := [];
             J1.Discipline_output := J1.Discipline_output dsc;
             J1.Discipline_passAt := J1.Discipline_passAt dsc;
             J1.Discipline_unreleased := false
           |}, tt).
Proof. exact @tie_join_v1_resetJoin. Qed.
Print Assumptions C08_gen_join_v1_resetJoin.
