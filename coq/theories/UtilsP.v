(* Proofs for C18: the handler-quantity helpers agree with their definition. *)
From Coq Require Import List NArith ZArith Lia Bool.
From Cqos Require Import Base Divider DividerP Sched Float64 Utils.
Import ListNotations.
Open Scope N_scope.

(* order-preserving sub-sequences *)
Inductive sublist : list N -> list N -> Prop :=
| sl_nil : sublist [] []
| sl_skip x c l : sublist c l -> sublist c (x :: l)
| sl_take x c l : sublist c l -> sublist (x :: c) (x :: l).

Lemma sublist_nil_l l : sublist [] l.
Proof. induction l; constructor; auto. Qed.
Lemma sublist_refl l : sublist l l.
Proof. induction l; [constructor|apply sl_take; auto]. Qed.
Lemma sublist_of_nil c : sublist c [] -> c = [].
Proof. inversion 1; auto. Qed.

(* ---------- genCombinations *)
Lemma gen_comb_loop_spec ps : forall acc c,
  In c (gen_comb_loop ps acc) <->
  In c acc \/ exists a b, c = a ++ b /\ b <> [] /\ sublist b ps /\ (a = [] \/ In a acc).
Proof.
  induction ps as [|p r IH]; intros acc c; simpl.
  - split; [auto|]. intros [H|(a & b & _ & Hb & Hs & _)]; auto. apply sublist_of_nil in Hs. congruence.
  - rewrite IH. split.
    + intros [H|(a & b & -> & Hb & Hs & Ha)].
      * apply in_app_or in H. destruct H as [H|H]; [auto|]. right.
        apply in_app_or in H. destruct H as [H|[<-|[]]].
        -- apply in_map_iff in H. destruct H as (a & <- & Ha). exists a, [p]. unfold snoc.
           repeat split; auto; try congruence. apply sl_take, sublist_nil_l.
        -- exists [], [p]. repeat split; auto; try congruence. apply sl_take, sublist_nil_l.
      * right. destruct Ha as [->|Ha].
        -- exists [], b. repeat split; auto. now apply sl_skip.
        -- apply in_app_or in Ha. destruct Ha as [Ha|Ha].
           ++ exists a, b. repeat split; auto. now apply sl_skip.
           ++ apply in_app_or in Ha. destruct Ha as [Ha|[<-|[]]].
              ** apply in_map_iff in Ha. destruct Ha as (a0 & <- & Ha0). exists a0, (p :: b). unfold snoc.
                 rewrite <- app_assoc. repeat split; auto; try congruence. now apply sl_take.
              ** exists [], (p :: b). repeat split; auto; try congruence. now apply sl_take.
    + intros [H|(a & b & -> & Hb & Hs & Ha)].
      * left. apply in_or_app; auto.
      * inversion Hs as [|x c0 l Hs'|x c0 l Hs']; subst.
        -- right. exists a, b. repeat split; auto. destruct Ha as [->|Ha]; auto. right. apply in_or_app; auto.
        -- destruct c0 as [|y c0].
           ++ left. apply in_or_app. right. apply in_or_app. destruct Ha as [->|Ha].
              ** right. left. reflexivity.
              ** left. apply in_map_iff. exists a. split; auto.
           ++ right. exists (a ++ [p]), (y :: c0). rewrite <- app_assoc. repeat split; auto; try congruence.
              right. apply in_or_app. right. apply in_or_app. destruct Ha as [->|Ha].
              ** right. left. reflexivity.
              ** left. apply in_map_iff. exists a. split; auto.
Qed.

Lemma gen_combinations_spec ps c : In c (gen_combinations ps) <-> c <> [] /\ sublist c ps.
Proof. unfold gen_combinations. rewrite gen_comb_loop_spec. split.
  - intros [[]|(a & b & -> & Hb & Hs & [->|[]])]. simpl. auto.
  - intros [Hc Hs]. right. exists [], c. auto. Qed.

Lemma gen_comb_loop_length ps : forall acc,
  N.of_nat (length (gen_comb_loop ps acc)) + 1 = (N.of_nat (length acc) + 1) * 2 ^ N.of_nat (length ps).
Proof. induction ps as [|p r IH]; intros acc.
  - simpl. lia.
  - cbn [gen_comb_loop length]. rewrite IH. rewrite !app_length, map_length. cbn [length].
    rewrite Nat2N.inj_succ, N.pow_succ_r by lia. lia. Qed.
Lemma gen_combinations_length ps : N.of_nat (length (gen_combinations ps)) + 1 = 2 ^ N.of_nat (length ps).
Proof. unfold gen_combinations. rewrite gen_comb_loop_length. cbn [length]. change (N.of_nat 0 + 1) with 1. apply N.mul_1_l. Qed.

(* ---------- IsNonFatalConfig *)
Lemma is_filled_for_spec ps d : is_filled_for ps d = true <-> forall p, In p ps -> 1 <= get d p.
Proof. unfold is_filled_for. rewrite forallb_forall. split; intros H p Hp; specialize (H p Hp).
  - destruct (N.eqb_spec (get d p) 0); [discriminate|lia].
  - destruct (N.eqb_spec (get d p) 0); [lia|reflexivity]. Qed.

Lemma nonfatal_iff ps dv q :
  is_nonfatal ps dv q = true <->
  forall c, c <> [] -> sublist c (sort_desc ps) -> forall p, In p c -> 1 <= get (dv c q []) p.
Proof. unfold is_nonfatal, is_nonfatal_with, nonfatal_combs. rewrite forallb_forall. split.
  - intros H c Hc Hs. apply is_filled_for_spec. apply H. apply gen_combinations_spec. auto.
  - intros H c Hc. apply gen_combinations_spec in Hc. destruct Hc. apply is_filled_for_spec. auto. Qed.

(* ---------- PickUpMin / PickUpMax *)
Lemma pick_min_from_spec pred fuel : forall q,
  let r := pick_min_from pred q fuel in
  (r = 0 /\ (q = 0 \/ forall k, q <= k < q + N.of_nat fuel -> pred k = false)) \/
  (q <= r < q + N.of_nat fuel /\ pred r = true /\ forall k, q <= k < r -> pred k = false).
Proof. induction fuel as [|f IH]; intros q; cbn [pick_min_from].
  - left. split; auto. right. intros k Hk. lia.
  - destruct (pred q) eqn:E.
    + destruct (N.eq_dec q 0) as [->|Hq].
      * left. auto.
      * right. split; [lia|]. split; auto. intros k Hk. lia.
    + destruct (IH (q + 1)) as [[Hr [Hz|Hall]]|(Hr & Hp & Hall)].
      * lia.
      * left. split; auto. right. intros k Hk. destruct (N.eq_dec k q) as [->|]; auto. apply Hall. lia.
      * right. split; [lia|]. split; auto. intros k Hk. destruct (N.eq_dec k q) as [->|]; auto. apply Hall. lia.
Qed.

Lemma pick_min_spec pred max :
  let r := pick_min pred max in
  (r = 0 /\ forall k, 1 <= k <= max -> pred k = false) \/
  (1 <= r <= max /\ pred r = true /\ forall k, 1 <= k < r -> pred k = false).
Proof. unfold pick_min. destruct (pick_min_from_spec pred (N.to_nat max) 1) as [[Hr [Hz|Hall]]|(Hr & Hp & Hall)].
  - lia.
  - left. split; auto. intros k Hk. apply Hall. lia.
  - right. rewrite N2Nat.id in Hr. split; [lia|]. auto. Qed.

Lemma pick_max_nat_spec pred n :
  let r := pick_max_nat pred n in
  (r = 0 /\ forall k, 1 <= k <= N.of_nat n -> pred k = false) \/
  (1 <= r <= N.of_nat n /\ pred r = true /\ forall k, r < k <= N.of_nat n -> pred k = false).
Proof. induction n as [|m IH]; cbn [pick_max_nat].
  - left. split; auto. intros k Hk. simpl in Hk. lia.
  - destruct (pred (N.of_nat (S m))) eqn:E.
    + right. split; [lia|]. split; auto. intros k Hk. lia.
    + destruct IH as [[Hr Hall]|(Hr & Hp & Hall)].
      * left. split; auto. intros k Hk. destruct (N.eq_dec k (N.of_nat (S m))) as [->|]; auto. apply Hall. lia.
      * right. split; [lia|]. split; auto. intros k Hk. destruct (N.eq_dec k (N.of_nat (S m))) as [->|]; auto. apply Hall. lia.
Qed.

Lemma pick_max_spec pred max :
  let r := pick_max pred max in
  (r = 0 /\ forall k, 1 <= k <= max -> pred k = false) \/
  (1 <= r <= max /\ pred r = true /\ forall k, r < k <= max -> pred k = false).
Proof. unfold pick_max. pose proof (pick_max_nat_spec pred (N.to_nat max)) as H. rewrite N2Nat.id in H. exact H. Qed.

(* ---------- IsSuitableConfig implies IsNonFatalConfig; monotone in the limit *)
Lemma suitable_implies_nonfatal ps dv q limit : is_suitable ps dv q limit = true -> is_nonfatal ps dv q = true.
Proof. unfold is_suitable, is_suitable_with, suitable_combs, is_nonfatal, is_nonfatal_with, nonfatal_combs.
  rewrite !forallb_forall. intros H c Hc. specialize (H c Hc).
  destruct (is_filled_for c (dv c q [])); [reflexivity|discriminate]. Qed.

(* the limit enters only through the final comparison `diff > limit`: if a larger limit never turns a
   failed comparison into a success the predicate is monotone *)
Lemma suitable_monotone ps dv q l1 l2 :
  (forall x, fgt x l2 = true -> fgt x l1 = true) ->
  is_suitable ps dv q l1 = true -> is_suitable ps dv q l2 = true.
Proof. intros Hl. unfold is_suitable, is_suitable_with, suitable_combs. rewrite !forallb_forall.
  intros H c Hc. specialize (H c Hc). destruct (is_filled_for c (dv c q [])); [|discriminate].
  unfold dist_suitable in *. rewrite forallb_forall in *. intros [p rq] Hkv. specialize (H _ Hkv). cbn beta iota in *.
  destruct (rq =? 0); [discriminate|]. apply negb_true_iff in H. apply negb_true_iff.
  match goal with |- fgt ?x l2 = false => destruct (fgt x l2) eqn:E; auto; apply Hl in E; congruence end. Qed.

(* ---------- non-fatal => accepted by the v2 constructor (for a divider that conserves the dividend) *)
Lemma insert_desc_in x l y : In y (insert_desc x l) <-> y = x \/ In y l.
Proof. induction l as [|z r IH]; simpl; [intuition|]. destruct (z <? x); simpl; [intuition|]. rewrite IH. intuition. Qed.
Lemma sort_desc_in l y : In y (sort_desc l) <-> In y l.
Proof. induction l as [|x r IH]; simpl; [tauto|]. rewrite insert_desc_in, IH. intuition. Qed.
Lemma sort_desc_nonempty l : l <> [] -> sort_desc l <> [].
Proof. destruct l as [|x r]; [congruence|]. intros _ E. assert (In x (sort_desc (x :: r))) by (apply sort_desc_in; left; auto).
  rewrite E in H. destruct H. Qed.

Lemma nonfatal_accepted ps dv q :
  ps <> [] -> q < two64 ->
  (forall c, c <> [] -> sum (dv c q []) = q) ->
  is_nonfatal ps dv q = true ->
  exists st, prepare_v2 dv ps q = inl (sort_desc ps, st) /\ forall p, In p ps -> 1 <= get st p.
Proof. intros Hne Hq Hcons Hnf.
  pose proof (sort_desc_nonempty ps Hne) as Hsn.
  assert (Hfill : is_filled_for (sort_desc ps) (dv (sort_desc ps) q []) = true).
  { apply is_filled_for_spec. rewrite nonfatal_iff in Hnf. apply Hnf; auto. apply sublist_refl. }
  assert (Hq0 : q <> 0).
  { intros ->. rewrite is_filled_for_spec in Hfill. destruct (sort_desc ps) as [|p r] eqn:E; [congruence|].
    specialize (Hfill p (or_introl eq_refl)). pose proof (Hcons (p :: r) ltac:(congruence)) as Hs.
    assert (get (dv (p :: r) 0 []) p <= sum (dv (p :: r) 0 [])).
    { clear. generalize (dv (p :: r) 0 []). intros d. induction d as [|[k v] d IH]; simpl; [lia|]. destruct (p =? k); lia. }
    lia. }
  unfold prepare_v2, prepare_with. destruct (N.eqb_spec q 0); [contradiction|].
  destruct ps as [|p0 r0]; [congruence|].
  unfold safe_divide, safe_sum. cbn [sum]. change (0 <? two64) with true. cbv iota.
  rewrite (Hcons _ Hsn). destruct (N.ltb_spec q two64); [|lia].
  destruct (N.eqb_spec q 0); [contradiction|].
  replace ((q + two64 - 0) mod two64) with q.
  2:{ rewrite N.sub_0_r. rewrite <- (N.mul_1_l two64) at 1. rewrite N.mod_add by (unfold two64; lia).
      symmetry. apply N.mod_small. auto. }
  rewrite N.eqb_refl. rewrite Hfill. eexists. split; [reflexivity|].
  intros p Hp. rewrite is_filled_for_spec in Hfill. apply Hfill. apply sort_desc_in. auto.
Qed.

(* ---------- regression: the pinned code judged a configuration with a zero share non-fatal, and the
   constructor accepted one (absent map keys were not inspected) *)
Lemma refuted_old_nonfatal :
  is_nonfatal_old [7; 5; 3; 1] (rate part_q) 8 = true /\ get (rate part_q [7; 5; 3; 1] 8 []) 1 = 0 /\
  is_nonfatal [7; 5; 3; 1] (rate part_q) 8 = false.
Proof. vm_compute. auto. Qed.
Lemma refuted_old_new :
  (exists st, prepare_v2_old (rate part_q) [32; 26; 11; 1] 10 = inl ([32; 26; 11; 1], st) /\ get st 1 = 0) /\
  prepare_v2 (rate part_q) [32; 26; 11; 1] 10 = inr ETooSmall.
Proof. vm_compute. split; [eexists; split; reflexivity|reflexivity]. Qed.

(* prepare_v2 = Ok => every configured priority has a share of at least one *)
Lemma new_rejects_zero_share dv ps H sorted st :
  prepare_v2 dv ps H = inl (sorted, st) -> sorted = sort_desc ps /\ forall p, In p ps -> 1 <= get st p.
Proof. unfold prepare_v2, prepare_with. destruct (H =? 0); [discriminate|]. destruct ps as [|p0 r0]; [discriminate|].
  destruct (safe_divide dv (sort_desc (p0 :: r0)) H []) as [st'|e]; [|discriminate].
  destruct (is_filled_for (sort_desc (p0 :: r0)) st') eqn:E; [|discriminate].
  intros Heq; inversion Heq; subst. split; auto. intros p Hp. rewrite is_filled_for_spec in E. apply E. apply sort_desc_in; auto. Qed.

(* a fault in the constructor's division (non-zero total different from H) is reported *)
Lemma new_rejects_bad_division dv ps H :
  H <> 0 -> ps <> [] -> H < two64 ->
  let total := sum (dv (sort_desc ps) H []) in
  total <> 0 -> total <> H -> total < two64 ->
  prepare_v2 dv ps H = inr (EDivider DividerBad).
Proof. intros H0 Hne Hlt total Ht0 HtH Htlt. unfold prepare_v2, prepare_with.
  destruct (N.eqb_spec H 0); [contradiction|]. destruct ps as [|p0 r0]; [congruence|].
  unfold safe_divide, safe_sum. cbn [sum]. change (0 <? two64) with true. cbv iota.
  fold total. destruct (N.ltb_spec total two64); [|lia]. destruct (N.eqb_spec total 0); [contradiction|].
  replace ((total + two64 - 0) mod two64) with total.
  2:{ rewrite N.sub_0_r. rewrite <- (N.mul_1_l two64) at 1. rewrite N.mod_add by (unfold two64; lia).
      symmetry. apply N.mod_small. auto. }
  destruct (N.eqb_spec total H); [contradiction|reflexivity]. Qed.
