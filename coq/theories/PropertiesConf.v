(* Property theorems for C19 / C20 over the facts regenerated from the Go source (Facts.v) and the process structure. *)
From Coq Require Import List String Bool NArith.
From Cqos Require Import Conf Facts C19 Base Divider Join Limit Prio2 Prio2P.
Import ListNotations.
Open Scope string_scope.

(* C20: the table extracted from the current source is confined ... *)
Theorem C20_table : confined facts = true.
Proof. vm_compute. reflexivity. Qed.
Print Assumptions C20_table.
(* ... hence no two accesses to a plain field of a discipline from different goroutines (or from a function several goroutines
   may run) include a write *)
Theorem C20_no_conflicting_access :
  forall p s f, List.In p facts -> List.In (s, f, KPlain) (pkg_fields p) ->
  forall r1 r2, List.In r1 (roots p) -> List.In r2 (roots p) ->
    touches p r1 s f = true -> touches p r2 s f = true ->
    (writes p r1 s f = true \/ writes p r2 s f = true) ->
    r1 = r2 /\ r_multi r1 = false.
Proof. exact (confined_sound facts C20_table). Qed.
Print Assumptions C20_no_conflicting_access.
Theorem C20_checker_sound : forall t, confined t = true ->
  forall p s f, List.In p t -> List.In (s, f, KPlain) (pkg_fields p) ->
  forall r1 r2, List.In r1 (roots p) -> List.In r2 (roots p) ->
    touches p r1 s f = true -> touches p r2 s f = true ->
    (writes p r1 s f = true \/ writes p r2 s f = true) ->
    r1 = r2 /\ r_multi r1 = false.
Proof. exact confined_sound. Qed.
Print Assumptions C20_checker_sound.

(* C19: the goroutines the disciplines start are exactly the ones of the models: one main goroutine per discipline, the handler
   goroutines of the simplified disciplines (started in a loop), and the helper of v1 Simple that awaits the inner graceful stop *)
Theorem C19_goroutines :
  all_go_statements facts =
  [("priority", [("New", "Discipline.main", false); ("NewSimple", "Simple.main", false);
                 ("Simple.gracefulStop", "Simple.gracefulStop.func", false); ("Simple.main", "Simple.handler", true)]);
   ("v2/priority", [("New", "Discipline.main", false)]);
   ("v2/priority/simple", [("Discipline.main", "Discipline.handler", true)]);
   ("join", [("New", "Discipline.main", false)]);
   ("v2/join", [("New", "Discipline.main", false)]);
   ("v2/join/unite", [("New", "Discipline.main", false)]);
   ("v2/limit", [("New", "Discipline.main", false)])].
Proof. vm_compute. reflexivity. Qed.
Print Assumptions C19_goroutines.
Theorem C19_join_closed_final : forall c s e, Join.pc s = Closed -> jstep c s e = None \/ exists t, e = StopCall t.
Proof. exact join_closed_final. Qed.
Print Assumptions C19_join_closed_final.
Theorem C19_limit_closed_final : forall c e, lstep c LClosed e = None.
Proof. exact limit_closed_final'. Qed.
Print Assumptions C19_limit_closed_final.
Theorem C19_prio2_done_final : forall dv s e, Prio2.pcs s = Prio2.Done e -> Prio2.sched_step dv s = None.
Proof. exact prio2_done_final. Qed.
Print Assumptions C19_prio2_done_final.
Theorem C19_simple2_handlers_exit : forall dv,
  (forall k ps n d, NoDup (keys d) -> NoDup (keys (dv k ps n d))) -> forall s0 s e,
  Init s0 -> Prio2.reachable dv s0 s -> Prio2.pcs s = Prio2.Done e -> Prio2.held s = [] /\ Prio2.outq s = [].
Proof. exact simple2_handlers_exit. Qed.
Print Assumptions C19_simple2_handlers_exit.
