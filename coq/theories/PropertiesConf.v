(* Property theorems for C20 over the facts regenerated from the Go source (Facts.v). *)
From Coq Require Import List String Bool NArith.
From Cqos Require Import Conf Facts.
Import ListNotations.
Open Scope string_scope.

(* C20: the table extracted from the current source is confined ... *)
Theorem C20_table : confined facts = true.
Proof. vm_compute. reflexivity. Qed.
Print Assumptions C20_table.
(* ... hence no two accesses to a plain field of a discipline from different goroutines (or from a function several goroutines
   may run) include a write *)
Theorem C20_no_conflicting_access :
  forall p s f, List.In p facts -> List.In (s, f, KPlain) (pkg_fields p) ->
  forall r1 r2, List.In r1 (roots p) -> List.In r2 (roots p) ->
    touches p r1 s f = true -> touches p r2 s f = true ->
    (writes p r1 s f = true \/ writes p r2 s f = true) ->
    r1 = r2 /\ r_multi r1 = false.
Proof. exact (confined_sound facts C20_table). Qed.
Print Assumptions C20_no_conflicting_access.
Theorem C20_checker_sound : forall t, confined t = true ->
  forall p s f, List.In p t -> List.In (s, f, KPlain) (pkg_fields p) ->
  forall r1 r2, List.In r1 (roots p) -> List.In r2 (roots p) ->
    touches p r1 s f = true -> touches p r2 s f = true ->
    (writes p r1 s f = true \/ writes p r2 s f = true) ->
    r1 = r2 /\ r_multi r1 = false.
Proof. exact confined_sound. Qed.
Print Assumptions C20_checker_sound.
