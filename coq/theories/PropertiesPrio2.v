(* Property theorems for the v2 priority discipline (C01 C02 C07 C15): statement / exact <lemma> / Print Assumptions. *)
From Coq Require Import List NArith Bool Sorted. From Cqos Require Import Base Divider Sched Prio2 Prio2P. Import ListNotations. Open Scope N_scope.
Theorem C01_v2_accounting :
  forall dv : nat -> Divider,
         (forall (k : nat) (ps : list N) (n : N) (d : dist), NoDup (keys d) -> NoDup (keys (dv k ps n d))) ->
         forall s0 s : st, Init s0 -> reachable dv s0 s -> forall p : N, get (actual s) p = cnt s p.
Proof. exact @prio2_accounting. Qed.
Print Assumptions C01_v2_accounting.

Theorem C01_v2_capacity :
  forall dv : nat -> Divider,
         (forall (k : nat) (ps : list N) (n : N) (d : dist), NoDup (keys d) -> NoDup (keys (dv k ps n d))) ->
         forall s0 s : st,
         Init s0 ->
         reachable dv s0 s ->
         N.of_nat (length (outq s)) + N.of_nat (length (held s)) + N.of_nat (length (fbq s)) = sum (actual s) /\
         sum (actual s) <= H s.
Proof. exact @prio2_capacity. Qed.
Print Assumptions C01_v2_capacity.

Theorem C01_v2_round_budget :
  forall dv : nat -> Divider,
         (forall (k : nat) (ps : list N) (n : N) (d : dist), NoDup (keys d) -> NoDup (keys (dv k ps n d))) ->
         forall s0 s : st,
         Init s0 ->
         reachable dv s0 s ->
         match pcs s with
         | Prio _ _ _ | Read _ _ _ _ _ | Send _ _ _ _ _ | Recalc _ => sum (actual s) + sum (tactic s) <= H s
         | _ => True
         end.
Proof. exact @prio2_round_budget. Qed.
Print Assumptions C01_v2_round_budget.

Theorem C02_v2_split :
  forall (dv : nat -> Divider) (s0 s : st),
         Init s0 ->
         reachable dv s0 s ->
         forall p : N, In p (prios s) -> of_prio p (delivered s) ++ limbo s p ++ inq s p = written s p.
Proof. exact @prio2_split. Qed.
Print Assumptions C02_v2_split.

Theorem C02_v2_tags :
  forall (dv : nat -> Divider) (s0 s : st),
         Init s0 -> reachable dv s0 s -> forall p x : N, In (p, x) (delivered s) -> In p (prios s).
Proof. exact @prio2_tags. Qed.
Print Assumptions C02_v2_tags.

Theorem C02_v2_exactly_once :
  forall (dv : nat -> Divider) (s0 s : st),
         Init s0 ->
         reachable dv s0 s ->
         pcs s = Done None -> forall p : N, In p (prios s) -> of_prio p (delivered s) = written s p.
Proof. exact @prio2_exactly_once. Qed.
Print Assumptions C02_v2_exactly_once.

Theorem C07_v2_done_only_when :
  forall dv : nat -> Divider,
         (forall (k : nat) (ps : list N) (n : N) (d : dist), NoDup (keys d) -> NoDup (keys (dv k ps n d))) ->
         forall (s0 s : st) (e : option derr),
         Init s0 ->
         reachable dv s0 s ->
         pcs s = Done e ->
         sum (actual s) = 0 /\
         outq s = [] /\
         held s = [] /\
         fbq s = [] /\ (e = None -> forall p : N, In p (prios s) -> closed s p = true /\ inq s p = []).
Proof. exact @prio2_done_only_when. Qed.
Print Assumptions C07_v2_done_only_when.

Theorem C07_v2_no_error :
  forall dv : nat -> Divider,
         (forall (k : nat) (ps : list N) (n : N) (d : dist), NoDup (keys d) -> NoDup (keys (dv k ps n d))) ->
         (forall (k : nat) (ps : list N) (n : N) (d : dist),
          NoDup (keys d) -> sum (dv k ps n d) = sum d + n \/ sum (dv k ps n d) = sum d) ->
         forall s0 s : st,
         Init s0 ->
         reachable dv s0 s ->
         H s0 < two64 -> forall e : derr, pcs s <> Drain (Some e) /\ pcs s <> Done (Some e).
Proof. exact @prio2_no_error_gen. Qed.
Print Assumptions C07_v2_no_error.

Theorem C07_v2_no_error_strict :
  forall dv : nat -> Divider,
         (forall (k : nat) (ps : list N) (n : N) (d : dist), NoDup (keys d) -> NoDup (keys (dv k ps n d))) ->
         forall s0 s : st,
         Init s0 ->
         reachable dv s0 s ->
         H s0 < two64 ->
         (forall (k : nat) (ps : list N) (n : N) (d : dist), NoDup (keys d) -> sum (dv k ps n d) = sum d + n) ->
         forall e : derr, pcs s <> Drain (Some e) /\ pcs s <> Done (Some e).
Proof. exact @prio2_no_error. Qed.
Print Assumptions C07_v2_no_error_strict.

Theorem C15_v2_contract :
  forall dv : nat -> Divider,
         (forall (k : nat) (ps : list N) (n : N) (d : dist), NoDup (keys d) -> NoDup (keys (dv k ps n d))) ->
         forall s0 s : st,
         Init s0 ->
         reachable dv s0 s ->
         forall (ps : list N) (d : N),
         In (ps, d) (calls s) -> (exists f : N -> bool, ps = filter f (prios s)) /\ d <= H s.
Proof. exact @prio2_contract. Qed.
Print Assumptions C15_v2_contract.

Theorem C15_v2_contract_sorted :
  forall dv : nat -> Divider,
         (forall (k : nat) (ps : list N) (n : N) (d : dist), NoDup (keys d) -> NoDup (keys (dv k ps n d))) ->
         forall (R : N -> N -> Prop) (s0 s : st),
         Init s0 ->
         reachable dv s0 s ->
         forall (ps : list N) (d : N),
         In (ps, d) (calls s) ->
         NoDup ps /\ (StronglySorted R (prios s) -> StronglySorted R ps) /\ incl ps (prios s).
Proof. exact @prio2_contract_sorted. Qed.
Print Assumptions C15_v2_contract_sorted.

Theorem C15_v2_fault_stops :
  forall (dv : nat -> Divider) (s0 s s' : st) (e : derr),
         Init s0 ->
         reachable dv s0 s ->
         pcs s = Drain (Some e) ->
         reachable dv s s' -> (pcs s' = Drain (Some e) \/ pcs s' = Done (Some e)) /\ delivered s' = delivered s.
Proof. exact @prio2_fault_stops. Qed.
Print Assumptions C15_v2_fault_stops.

Theorem C15_v2_bad_sum_detected :
  forall (dv : nat -> Divider) (k : nat) (ps : list N) (n : N) (t r : dist),
         sum t = 0 -> safe_divide (dv k) ps n t = inl r -> sum r = n \/ sum r = 0.
Proof. exact @prio2_bad_sum_detected. Qed.
Print Assumptions C15_v2_bad_sum_detected.

Theorem C15_v2_drain_terminates :
  forall (dv : nat -> Divider) (s : st) (e : option derr),
         pcs s = Drain e ->
         sum (actual s) = N.of_nat (length (fbq s)) ->
         (forall p : N, get (actual s) p = count p (fbq s)) ->
         NoDup (keys (actual s)) ->
         exists s' : st, iter_sched dv (S (length (fbq s))) s = Some s' /\ pcs s' = Done e.
Proof. exact @prio2_drain_terminates. Qed.
Print Assumptions C15_v2_drain_terminates.

Theorem C01_v2_init :
  forall (ps : list N) (h : N) (sorted : list N) (strat : dist) (buf : N -> bool),
         NoDup sorted -> NoDup (keys strat) -> Init (init_state ps h sorted strat buf).
Proof. exact @init_state_Init. Qed.
Print Assumptions C01_v2_init.

