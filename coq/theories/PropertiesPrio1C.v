(* Property theorems for the v1 priority discipline: divider contract and fault handling (C15), graceful termination (C07), no idle wait (C06). *)
From Coq Require Import List NArith Bool Sorted. From Cqos Require Import Base Divider DividerP Sched Prio1 Prio1P Prio1C. Import ListNotations. Open Scope N_scope.
Theorem C15_v1_bad_sum_detected :
  forall (dv : nat -> Divider) (k : nat) (ps : list N) (n : N) (t r : dist),
         sum t = 0 -> safe_divide (dv k) ps n t = inl r -> sum r = n \/ sum r = 0.
Proof. exact @prio1_bad_sum_detected. Qed.
Print Assumptions C15_v1_bad_sum_detected.

Theorem C15_v1_fault_stops :
  forall (fixed : bool) (dv : nat -> Divider) (s0 s s' : st) (e : perr),
         Init1 s0 ->
         reachable fixed dv s0 s ->
         pcs s = Drain (Some e) ->
         reachable fixed dv s s' ->
         (pcs s' = Drain (Some e) \/ pcs s' = Done (Some e)) /\
         delivered s' = delivered s /\ reads s' = reads s.
Proof. exact @prio1_fault_stops. Qed.
Print Assumptions C15_v1_fault_stops.

Theorem C15_v1_calls_contract :
  forall (fixed : bool) (dv : nat -> Divider),
         (forall (k : nat) (ps : list N) (n : N) (d : dist), NoDup (keys d) -> NoDup (keys (dv k ps n d))) ->
         forall s0 s : st,
         Init1 s0 ->
         StronglySorted N.gt (prios s0) ->
         Forall (fun c : list N * N => NoDup (fst c) /\ StronglySorted N.gt (fst c) /\ snd c <= H s0)
           (calls s0) ->
         reachable fixed dv s0 s ->
         forall (ps : list N) (d : N), In (ps, d) (calls s) -> NoDup ps /\ StronglySorted N.gt ps /\ d <= H s.
Proof. exact @prio1_calls_contract. Qed.
Print Assumptions C15_v1_calls_contract.

Theorem C15_v1_calls_contract_new :
  forall (fixed : bool) (dv : nat -> Divider),
         (forall (k : nat) (ps : list N) (n : N) (d : dist), NoDup (keys d) -> NoDup (keys (dv k ps n d))) ->
         forall (cfg : list (N * nat)) (h : N) (bufs : nat -> bool) (ocap : N) (s : st),
         NoDup (map fst cfg) ->
         reachable fixed dv (init_state dv cfg h bufs ocap) s ->
         forall (ps : list N) (d : N), In (ps, d) (calls s) -> NoDup ps /\ StronglySorted N.gt ps /\ d <= h.
Proof. exact @prio1_calls_contract_new. Qed.
Print Assumptions C15_v1_calls_contract_new.

Theorem C15_v1_new_calls_contract :
  forall (fixed : bool) (dv : nat -> Divider) (o : nat) (s s' : st),
         Inv s ->
         StronglySorted N.gt (prios s) ->
         sched_step fixed dv o s = Some s' ->
         exists new : list (list N * N),
           calls s' = new ++ calls s /\
           (length new <= 2)%nat /\
           (forall (ps : list N) (d : N),
            In (ps, d) new -> NoDup ps /\ StronglySorted N.gt ps /\ d <= H s /\ incl ps (prios s')).
Proof. exact @prio1_new_calls_contract. Qed.
Print Assumptions C15_v1_new_calls_contract.

Theorem C15_v1_drain_terminates :
  forall (fixed : bool) (dv : nat -> Divider),
         (forall (k : nat) (ps : list N) (n : N) (d : dist), NoDup (keys d) -> NoDup (keys (dv k ps n d))) ->
         forall (os : nat -> nat) (s : st) (e : option perr),
         Inv s ->
         pcs s = Drain e ->
         sum (actual s) = N.of_nat (length (fbq s)) ->
         exists (n : nat) (s' : st),
           (n <= S (length (fbq s)))%nat /\
           iter_sched fixed dv os n s = Some s' /\
           pcs s' = Done e /\ (stopped s = false -> n = S (length (fbq s))).
Proof. exact @prio1_drain_terminates. Qed.
Print Assumptions C15_v1_drain_terminates.

Theorem C07_v1_graceful_terminates_partial :
  forall (fixed : bool) (dv : nat -> Divider),
         (forall (k : nat) (ps : list N) (n : N) (d : dist), NoDup (keys d) -> NoDup (keys (dv k ps n d))) ->
         (forall (k : nat) (ps : list N) (n : N) (d : dist),
          NoDup (keys d) -> sum (dv k ps n d) = sum d + n \/ sum (dv k ps n d) = sum d) ->
         forall s0 s : st,
         Init1 s0 ->
         reachable fixed dv s0 s ->
         stopped s = false ->
         graceful s = true ->
         cmds s = [] ->
         (forall p : N,
          In p (prios s) -> exists ch : nat, chan_of s p = Some ch /\ closed s ch = true /\ inq s ch = []) ->
         sum (actual s) = 0 ->
         fbq s = [] ->
         (forall (ph : phase) (p x : N) (r : list N) (n : N), pcs s <> Send ph p x r n) ->
         (forall e : perr, pcs s <> Drain (Some e)) ->
         (forall e : perr, pcs s <> Done (Some e)) ->
         Shares s ->
         exists (n : nat) (s' : st),
           iter_auto fixed dv n s = Some s' /\ pcs s' = Done None /\ (n <= 8 * length (prios s) + 15)%nat.
Proof. exact @prio1_graceful_terminates_partial. Qed.
Print Assumptions C07_v1_graceful_terminates_partial.

Theorem C07_v1_graceful_terminates_fair :
  forall (fixed : bool) (cfg : list (N * nat)) (h : N) (bufs : nat -> bool) (ocap : N) (s : st),
         NoDup (map fst cfg) ->
         reachable fixed dv_example (init_state dv_example cfg h bufs ocap) s ->
         1 <= h ->
         h < two64 ->
         N.of_nat (length (prios s)) <= h ->
         stopped s = false ->
         graceful s = true ->
         cmds s = [] ->
         (forall p : N,
          In p (prios s) -> exists ch : nat, chan_of s p = Some ch /\ closed s ch = true /\ inq s ch = []) ->
         sum (actual s) = 0 ->
         fbq s = [] ->
         (forall (ph : phase) (p x : N) (r : list N) (n : N), pcs s <> Send ph p x r n) ->
         (forall e : perr, pcs s <> Drain (Some e)) ->
         (forall e : perr, pcs s <> Done (Some e)) ->
         exists (n : nat) (s' : st),
           iter_auto fixed dv_example n s = Some s' /\
           pcs s' = Done None /\ (n <= 8 * length (prios s) + 15)%nat.
Proof. exact @prio1_graceful_terminates_fair. Qed.
Print Assumptions C07_v1_graceful_terminates_fair.

Theorem C06_v1_no_wait_when_idle :
  forall (fixed : bool) (dv : nat -> Divider),
         (forall (k : nat) (ps : list N) (n : N) (d : dist), NoDup (keys d) -> NoDup (keys (dv k ps n d))) ->
         forall s0 s : st,
         Init1 s0 ->
         reachable fixed dv s0 s ->
         pcs s = WaitFb ->
         1 <= H s ->
         (prios s <> [] -> sum_list (map (get (strategic s)) (prios s)) = H s) -> 0 < sum (actual s).
Proof. exact @prio1_no_wait_when_idle. Qed.
Print Assumptions C06_v1_no_wait_when_idle.

Theorem C07_v1_zero_share_livelock :
  Init1 z_s0 /\
         reachable true rate_dv z_s0 z_s /\
         stopped z_s = false /\
         graceful z_s = true /\
         cmds z_s = [] /\
         (forall p : N,
          In p (prios z_s) ->
          exists ch : nat, chan_of z_s p = Some ch /\ closed z_s ch = true /\ inq z_s ch = []) /\
         sum (actual z_s) = 0 /\
         fbq z_s = [] /\
         (forall (ph : phase) (p x : N) (r : list N) (n : N), pcs z_s <> Send ph p x r n) /\
         (forall e : perr, pcs z_s <> Drain (Some e)) /\
         (forall e : perr, pcs z_s <> Done (Some e)) /\
         1 <= H z_s < two64 /\
         sum_list (map (get (strategic z_s)) (prios z_s)) = H z_s /\
         strategic z_s = [(3, 1); (2, 0); (1, 0)] /\
         (forall (n : nat) (s' : st), iter_auto true rate_dv n z_s = Some s' -> pcs s' <> Done None).
Proof. exact @graceful_needs_positive_shares. Qed.
Print Assumptions C07_v1_zero_share_livelock.

Theorem C07_v1_needs_sum_rule :
  Init1 b2_s0 /\
         reachable true bad2_dv b2_s0 b2_s /\
         stopped b2_s = false /\
         graceful b2_s = true /\
         cmds b2_s = [] /\
         (forall p : N,
          In p (prios b2_s) ->
          exists ch : nat, chan_of b2_s p = Some ch /\ closed b2_s ch = true /\ inq b2_s ch = []) /\
         sum (actual b2_s) = 0 /\
         fbq b2_s = [] /\
         (forall (ph : phase) (p x : N) (r : list N) (n : N), pcs b2_s <> Send ph p x r n) /\
         (forall e : perr, pcs b2_s <> Drain (Some e)) /\
         (forall e : perr, pcs b2_s <> Done (Some e)) /\
         1 <= H b2_s < two64 /\
         option_map pcs (iter_auto true bad2_dv 3 b2_s) = Some (Done (Some (EDiv DividerBad))) /\
         (forall (n : nat) (s' : st), iter_auto true bad2_dv n b2_s = Some s' -> pcs s' <> Done None).
Proof. exact @graceful_needs_sum_rule. Qed.
Print Assumptions C07_v1_needs_sum_rule.

