(* "A priority alone in having data gets every handler" (prio2_alone_gets_all, Prio2L.v) generalised from the clean state to
   every state in which that priority is within its share -- and a witness that the share hypothesis cannot be dropped:
   above its share the priority may have to wait for one more release although handlers are vacant and nobody else has data.
     1  prio2_alone_within_share
     2  prio2_alone_above_share_waits                                                                                  *)
From Coq Require Import List NArith Lia Bool Arith.
From Cqos Require Import Base Divider DividerP Sched Prio2 Prio2P Prio2L.
Import ListNotations.
Open Scope N_scope.

(* a distribution that vanishes outside one key sums to the value at that key *)
Lemma sum_alone d p : NoDup (keys d) -> (forall q, q <> p -> get d q = 0) -> sum d = get d p.
Proof.
  intros ND Hz. pose proof (sum_set d p 0 ND) as Hs.
  assert (H0 : sum (set d p 0) = 0).
  { apply get_zero_sum; [apply nodup_keys_set; exact ND|].
    intros k. destruct (N.eqb_spec k p) as [->|Hne]; [apply get_set_same|].
    rewrite get_set_other by congruence. apply Hz; exact Hne. }
  lia.
Qed.

Section WithinShare.
Variable dv : nat -> Divider.
Hypothesis dv_wf : forall k ps n d, NoDup (keys d) -> NoDup (keys (dv k ps n d)).
(* the divider gives the whole dividend to a single priority (true of Fair and Rate) *)
Hypothesis dv_single : forall k p n d, NoDup (keys d) -> get (dv k [p] n d) p = get d p + n /\ sum (dv k [p] n d) = sum d + n.

(* the handlers take everything that is waiting in the output; nothing else moves *)
Lemma take_all : forall l s, outq s = l ->
  exists n s', iter_eager dv n s = Some s' /\ outq s' = [] /\ pcs s' = pcs s /\ static s s' /\ actual s' = actual s /\
    inq s' = inq s /\ fbq s' = fbq s.
Proof.
  induction l as [|px l IH]; intros s Ho.
  - exists 0%nat, s. split; [reflexivity|]. split; [exact Ho|]. split; [reflexivity|]. split; [apply static_refl|].
    repeat split; reflexivity.
  - assert (E : exists s1, eager_step dv s = Some s1 /\ outq s1 = l /\ pcs s1 = pcs s /\ static s s1 /\ actual s1 = actual s /\
                  inq s1 = inq s /\ fbq s1 = fbq s).
    { unfold eager_step, env_step. rewrite Ho. eexists. split; [reflexivity|]. proj. repeat split; reflexivity. }
    destruct E as (s1 & E1 & Ho1 & Epc1 & Est1 & Ea1 & Ei1 & Ef1).
    destruct (IH s1 Ho1) as (n & s' & Hi & Ho' & Epc' & Est' & Ea' & Ei' & Ef').
    exists (S n), s'. split; [eapply iter_eager_S; [exact E1|exact Hi]|]. split; [exact Ho'|].
    split; [congruence|]. split; [eapply static_trans; eauto|]. repeat split; congruence.
Qed.

(* the core: the output is empty (fbq is irrelevant: calcTactic does not look at the feedback channel) *)
Lemma alone_within_share_out_empty : forall s0 s p, InitL s0 -> reachable dv s0 s -> pcs s = Calc -> outq s = [] -> H s < two64 ->
  In p (prios s) ->
  (forall q, q <> p -> get (actual s) q = 0) ->
  get (actual s) p <= get (strategic s) p ->
  (forall q, In q (prios s) -> q <> p -> inq s q = []) ->
  H s - get (actual s) p <= N.of_nat (length (inq s p)) ->
  exists n s', iter_eager dv n s = Some s' /\ get (actual s') p = H s'.
Proof.
  intros s0 s p HI Hr Hpc Ho HH Hp Hact0 Hshare Hothers Hdata.
  pose proof (il_init s0 HI) as HI0.
  pose proof (reachable_inv dv dv_wf _ _ HI0 Hr) as Hinv.
  pose proof (reachable_inv2 dv _ _ HI0 Hr) as Hinv2.
  pose proof (reachable_Shares dv _ _ HI Hr) as Hsh.
  pose proof (sh_H s Hsh) as HH1.
  pose proof (sum_alone (actual s) p (i_nda s Hinv) Hact0) as Hsum.
  pose proof (i_cap s Hinv) as Hcap.
  destruct (N.eq_dec (get (actual s) p) (H s)) as [Efull|Hnf].
  { (* p already holds every handler *) exists 0%nat, s. split; [reflexivity|exact Efull]. }
  assert (Hlt : get (actual s) p < H s) by lia.
  assert (Hne : inq s p <> []) by (intros E; rewrite E in Hdata; cbn [length N.of_nat] in Hdata; lia).
  assert (Hdr : drained s p = false).
  { destruct (drained s p) eqn:E; [|reflexivity]. destruct (j_drained s Hinv2 p E) as [_ Hi]. contradiction. }
  assert (Hsp : get (strategic s) p <= H s).
  { rewrite <- (sh_sum s Hsh). apply (le_sum_list (get (strategic s))). exact Hp. }
  pose proof (sh_pos s Hsh p Hp) as Hsp1.
  destruct (step_calc_addup dv s Hinv Hsh) as (t & Et & Hg1 & Hg2 & _).
  { intros q _. destruct (N.eq_dec q p) as [->|Hq]; [exact Hshare|]. rewrite (Hact0 q Hq). lia. }
  { intros q Hq. apply Hact0. intros ->. contradiction. }
  { lia. }
  assert (Ht : forall q, In q (prios s) -> q <> p -> get t q = get (strategic s) q).
  { intros q Hq Hqp. rewrite (Hg1 q Hq), (Hact0 q Hqp). lia. }
  pose proof (Hg1 p Hp) as Htp.
  destruct (in_split p (prios s) Hp) as (pre & post & Hsplit).
  assert (Hnp : ~ In p (pre ++ post)).
  { pose proof (i_ndp s Hinv) as ND. rewrite Hsplit in ND. apply NoDup_remove_2 in ND. exact ND. }
  assert (Hpre : forall q, In q pre -> In q (prios s) /\ q <> p).
  { intros q Hq. split; [rewrite Hsplit; apply in_or_app; left; exact Hq|]. intros ->. apply Hnp. apply in_or_app; left; exact Hq. }
  assert (Hpost : forall q, In q post -> In q (prios s) /\ q <> p).
  { intros q Hq. split; [rewrite Hsplit; apply in_or_app; right; right; exact Hq|]. intros ->. apply Hnp. apply in_or_app; right; exact Hq. }
  (* --- the round starts: tactic = strategic - actual *)
  set (s1 := with_tac s t (Prio P1 (prios s) 0)).
  assert (E1 : sched_step dv s = Some s1) by (unfold sched_step; rewrite Hpc, Et; reflexivity).
  assert (Hpc1 : pcs s1 = Prio P1 (pre ++ p :: post) 0) by (unfold s1; proj; rewrite Hsplit; reflexivity).
  (* --- phase one, priorities before p *)
  destruct (scan_skip dv P1 pre (p :: post) s1 0 Hpc1 Ho) as (n1 & s2 & Hi2 & Hpc2 & (Hst2 & Ea2 & Et2 & Ei2 & Eo2) & Hd2).
  { intros q Hq. left. destruct (Hpre q Hq) as [Hq1 Hq2]. apply (Hothers q Hq1 Hq2). }
  assert (Hdr2 : drained s2 p = false).
  { destruct (drained s2 p) eqn:E; [|reflexivity]. destruct (Hd2 p E) as [Hx|Hx]; [|contradiction]. unfold s1 in Hx. revert Hx. proj. congruence. }
  set (s2' := with_pc s2 (Read P1 p post 0 false)).
  assert (E2 : sched_step dv s2 = Some s2') by (unfold sched_step; rewrite Hpc2, Hdr2; reflexivity).
  assert (Ho2 : outq s2 = []) by (rewrite Eo2; exact Ho).
  (* --- phase one, p fills up its share *)
  set (k1 := N.to_nat (get (strategic s) p - get (actual s) p)).
  destruct (send_loop dv P1 p post k1 s2' 0 false) as
    (n3 & s3 & proc3 & intr3 & Hi3 & Hpc3 & Hst3 & Ht3p & Ht3o & Ha3p & Ha3o & Hi3o & Hl3 & Ho3 & Hdr3).
  { reflexivity. }
  { unfold s2'; proj. rewrite Et2. unfold s1; proj. rewrite Htp. unfold k1. rewrite N2Nat.id. reflexivity. }
  { unfold s2'; proj. rewrite Ei2. unfold s1; proj. unfold k1. lia. }
  { exact Ho2. }
  { unfold s2'; proj. destruct Hst2 as (_ & _ & _ & Ec & _). rewrite Ec. apply (sh_cap s Hsh). }
  assert (Hst13 : static s s3).
  { eapply static_trans; [|exact Hst3]. eapply static_trans; [|exact Hst2]. repeat split; reflexivity. }
  assert (Hit3 : iter_eager dv (1 + (n1 + (1 + n3))) s = Some s3).
  { eapply iter_eager_S; [apply eager_sched; [exact Ho|exact E1]|]. eapply iter_eager_app; [exact Hi2|].
    eapply iter_eager_S; [apply eager_sched; [exact Ho2|exact E2]|exact Hi3]. }
  assert (Ha3 : get (actual s3) p = get (strategic s) p).
  { rewrite Ha3p. unfold s2'; proj. rewrite Ea2. unfold s1; proj. unfold k1. rewrite N2Nat.id. lia. }
  destruct (N.eq_dec (get (strategic s) p) (H s)) as [Eall|Hless].
  { (* p is the only priority with a share: done *)
    exists (1 + (n1 + (1 + n3)))%nat, s3. split; [exact Hit3|]. destruct Hst13 as (EH & _). rewrite EH, Ha3. exact Eall. }
  (* --- phase one, priorities after p *)
  set (s3' := with_pc s3 (Prio P1 post proc3)).
  assert (E3 : sched_step dv s3 = Some s3').
  { unfold sched_step. rewrite Hpc3, Ht3p. reflexivity. }
  assert (Hinq3 : forall q, q <> p -> inq s3 q = inq s q).
  { intros q Hq. rewrite (Hi3o q Hq). unfold s2'; proj. rewrite Ei2. reflexivity. }
  assert (Hpc3' : pcs s3' = Prio P1 (post ++ []) proc3) by (rewrite app_nil_r; reflexivity).
  destruct (scan_skip dv P1 post [] s3' proc3 Hpc3' Ho3) as (n4 & s4 & Hi4 & Hpc4 & (Hst4 & Ea4 & Et4 & Ei4 & Eo4) & Hd4).
  { intros q Hq. left. destruct (Hpost q Hq) as [Hq1 Hq2]. unfold s3'; proj. rewrite (Hinq3 q Hq2). apply (Hothers q Hq1 Hq2). }
  set (s4' := with_pc s4 (Recalc proc3)).
  assert (E4 : sched_step dv s4 = Some s4') by (unfold sched_step; rewrite Hpc4; reflexivity).
  assert (Ho4 : outq s4 = []) by (rewrite Eo4; exact Ho3).
  assert (Hit4 : iter_eager dv (1 + (n1 + (1 + n3)) + (1 + (n4 + 1))) s = Some s4').
  { eapply iter_eager_app; [exact Hit3|]. eapply iter_eager_S; [apply eager_sched; [exact Ho3|exact E3]|].
    eapply iter_eager_app; [exact Hi4|]. eapply iter_eager_S; [apply eager_sched; [exact Ho4|exact E4]|reflexivity]. }
  assert (Hst14 : static s s4').
  { eapply static_trans; [exact Hst13|]. eapply static_trans; [|eapply static_trans; [exact Hst4|]]; repeat split; reflexivity. }
  pose proof Hst14 as (EH4 & Epr4 & Estr4 & Ecap4 & _).
  pose proof (reachable_inv dv dv_wf _ _ HI0 (iter_eager_reachable dv _ _ _ _ Hr Hit4)) as Hinv4.
  (* --- recalcTactic gives the unused allowance of the others to p *)
  assert (Htac4 : forall q, get (tactic s4') q = if N.eqb q p then 0 else get t q).
  { intros q. unfold s4'; proj. rewrite Et4. unfold s3'; proj. destruct (N.eqb_spec q p) as [->|Hq]; [exact Ht3p|].
    rewrite (Ht3o q Hq). unfold s2'; proj. rewrite Et2. reflexivity. }
  assert (Hact4 : forall q, get (actual s4') q = if N.eqb q p then get (strategic s) p else 0).
  { intros q. unfold s4'; proj. rewrite Ea4. unfold s3'; proj. destruct (N.eqb_spec q p) as [->|Hq]; [exact Ha3|].
    rewrite (Ha3o q Hq). unfold s2'; proj. rewrite Ea2. unfold s1; proj. apply Hact0; exact Hq. }
  assert (Hrem : sum (tactic s4') + get (strategic s) p = H s).
  { rewrite (sum_on (prios s4') (tactic s4') (i_ndp _ Hinv4) (i_ndt _ Hinv4)).
    - rewrite Epr4, <- (sh_sum s Hsh). apply sum_list_except; [apply (i_ndp s Hinv)|exact Hp| |].
      + rewrite Htac4, N.eqb_refl. reflexivity.
      + intros q Hq Hqp. rewrite Htac4. destruct (N.eqb_spec q p); [contradiction|]. apply Ht; assumption.
    - intros q Hq. rewrite Epr4 in Hq. rewrite Htac4. destruct (N.eqb_spec q p) as [->|_]; [reflexivity|]. apply Hg2; exact Hq. }
  destruct (recalc_alone dv dv_wf dv_single s4' proc3 p Hinv4)
    as (s5 & E5 & Hpc5 & Hst5 & (Eo5 & _ & _ & Ea5 & _ & Ei5 & Edr5) & Ht5p & Ht5o).
  { rewrite EH4; exact HH. } { reflexivity. } { rewrite Epr4; exact Hp. }
  { rewrite Htac4, N.eqb_refl. reflexivity. }
  { intros q Hq Hqp. rewrite Epr4 in Hq. rewrite Htac4. destruct (N.eqb_spec q p); [contradiction|].
    rewrite (Ht q Hq Hqp). pose proof (sh_pos s Hsh q Hq). lia. }
  { intros q Hq. rewrite Hact4. destruct (N.eqb_spec q p); [contradiction|reflexivity]. }
  { rewrite Hact4, N.eqb_refl, EH4. lia. }
  { lia. }
  assert (Ho4' : outq s4' = []) by exact Ho4.
  assert (Ho5 : outq s5 = []) by (rewrite Eo5; exact Ho4').
  (* --- phase two, priorities before p have no allowance *)
  assert (Hpc5' : pcs s5 = Prio P2 (pre ++ p :: post) proc3) by (rewrite Hpc5, Epr4, Hsplit; reflexivity).
  destruct (scan_skip dv P2 pre (p :: post) s5 proc3 Hpc5' Ho5) as (n6 & s6 & Hi6 & Hpc6 & (Hst6 & Ea6 & Et6 & Ei6 & Eo6) & Hd6).
  { intros q Hq. right. destruct (Hpre q Hq) as [_ Hq2]. apply (Ht5o q Hq2). }
  assert (Hlen3 : (N.to_nat (H s - get (strategic s) p) <= length (inq s3 p))%nat).
  { revert Hl3. unfold s2'; proj. rewrite Ei2. unfold s1; proj. unfold k1. lia. }
  assert (Hinq5 : inq s5 = inq s3).
  { rewrite Ei5. unfold s4'; proj. rewrite Ei4. reflexivity. }
  assert (Hdr6 : drained s6 p = false).
  { destruct (drained s6 p) eqn:E; [|reflexivity]. exfalso.
    assert (Hne3 : inq s3 p <> []) by (intros Ex; rewrite Ex in Hlen3; cbn [length] in Hlen3; lia).
    destruct (Hd6 p E) as [Hx|Hx]; [|rewrite Hinq5 in Hx; contradiction].
    rewrite Edr5 in Hx. unfold s4' in Hx. revert Hx. proj. intros Hx.
    destruct (Hd4 p Hx) as [Hy|Hy]; [|unfold s3' in Hy; revert Hy; proj; intros Hy; contradiction].
    unfold s3' in Hy. revert Hy. proj. rewrite Hdr3. unfold s2'; proj. congruence. }
  set (s6' := with_pc s6 (Read P2 p post proc3 false)).
  assert (E6 : sched_step dv s6 = Some s6') by (unfold sched_step; rewrite Hpc6, Hdr6; reflexivity).
  assert (Ho6 : outq s6 = []) by (rewrite Eo6; exact Ho5).
  (* --- phase two, p takes the rest *)
  set (k2 := N.to_nat (sum (tactic s4'))).
  destruct (send_loop dv P2 p post k2 s6' proc3 false) as
    (n7 & s7 & proc7 & intr7 & Hi7 & Hpc7 & Hst7 & _ & _ & Ha7p & _ & _ & _ & _ & _).
  { reflexivity. }
  { unfold s6'; proj. rewrite Et6, Ht5p. unfold k2. rewrite N2Nat.id. reflexivity. }
  { unfold s6'; proj. rewrite Ei6, Hinq5. unfold k2. lia. }
  { exact Ho6. }
  { unfold s6'; proj. destruct Hst6 as (_ & _ & _ & Ec6 & _). destruct Hst5 as (_ & _ & _ & Ec5 & _). rewrite Ec6, Ec5, Ecap4.
    apply (sh_cap s Hsh). }
  exists (1 + (n1 + (1 + n3)) + (1 + (n4 + 1)) + (1 + (n6 + (1 + n7))))%nat, s7. split.
  - eapply iter_eager_app; [exact Hit4|]. eapply iter_eager_S; [apply eager_sched; [exact Ho4'|exact E5]|].
    eapply iter_eager_app; [exact Hi6|]. eapply iter_eager_S; [apply eager_sched; [exact Ho6|exact E6]|exact Hi7].
  - assert (EH7 : H s7 = H s).
    { destruct Hst7 as (e7 & _). destruct Hst6 as (e6 & _). destruct Hst5 as (e5 & _). rewrite e7. unfold s6'; proj. rewrite e6, e5. exact EH4. }
    rewrite EH7, Ha7p. unfold s6'; proj. rewrite Ea6, Ea5, Hact4, N.eqb_refl. unfold k2. rewrite N2Nat.id. lia.
Qed.

(* 1.  exactly as stated; no extra hypothesis is needed.  `fbq s = []` is not used (kept to match the statement): calcTactic
   does not look at the feedback channel, and releases that are still queued there only count as "in flight". *)
Theorem prio2_alone_within_share : forall s0 s p, InitL s0 -> reachable dv s0 s -> pcs s = Calc -> fbq s = [] -> H s < two64 ->
  In p (prios s) ->
  (forall q, q <> p -> get (actual s) q = 0) ->            (* nothing of another priority is in flight *)
  get (actual s) p <= get (strategic s) p ->               (* p itself holds no more than its share *)
  (forall q, In q (prios s) -> q <> p -> inq s q = []) ->  (* nobody else has data *)
  H s - get (actual s) p <= N.of_nat (length (inq s p)) -> (* p has enough data for every vacant handler *)
  exists n s', iter_eager dv n s = Some s' /\ get (actual s') p = H s'.
Proof.
  intros s0 s p HI Hr Hpc _ HH Hp Hact0 Hshare Hothers Hdata.
  destruct (take_all (outq s) s eq_refl) as (n0 & sa & Hi0 & Hoa & Epca & Esta & Eaa & Eia & _).
  pose proof Esta as (EHa & Epra & Estra & _).
  destruct (alone_within_share_out_empty s0 sa p HI) as (n & s' & Hi & Hfin).
  - eapply iter_eager_reachable; eauto.
  - rewrite Epca; exact Hpc.
  - exact Hoa.
  - rewrite EHa; exact HH.
  - rewrite Epra; exact Hp.
  - rewrite Eaa; exact Hact0.
  - rewrite Eaa, Estra; exact Hshare.
  - rewrite Epra, Eia; exact Hothers.
  - rewrite EHa, Eaa, Eia; exact Hdata.
  - exists (n0 + n)%nat, s'. split; [eapply iter_eager_app; eauto|exact Hfin].
Qed.
End WithinShare.
Print Assumptions prio2_alone_within_share.

(* ---------- instances: the Fair divider ---------- *)
(* H = 3, priorities 3 > 2 > 1 with one handler each (Fair); everything below is about priority 1, the lowest *)
Definition w_s0 : st := init_state [1; 2; 3] 3 [3; 2; 1] [(3, 1); (2, 1); (1, 1)] (fun _ => true).
Example w_new : new_v2 fdv [1; 2; 3] 3 (fun _ => true) = inl w_s0.
Proof. vm_compute. reflexivity. Qed.
Lemma w_initL : InitL w_s0.
Proof.
  constructor; [|vm_compute; discriminate|reflexivity| |vm_compute; discriminate].
  - apply init_state_Init; cbn [keys]; repeat constructor; cbn [In]; intros Hx; repeat (destruct Hx as [Hx|Hx]; try discriminate); auto.
  - intros p Hp. cbn in Hp. destruct Hp as [<-|[<-|[<-|[]]]]; vm_compute; discriminate.
Qed.

(* only priority 1 gets data (five items); the handlers take what is delivered: after 28 eager steps priority 1 holds all three
   handlers and the scheduler waits for a release *)
Definition w_puts : list act := [Env (Put 1 7); Env (Put 1 8); Env (Put 1 9); Env (Put 1 10); Env (Put 1 11)].
Definition w_pre : st := Eval vm_compute in match run fdv w_puts w_s0 with Some s => s | None => w_s0 end.
Definition w_full : st := Eval vm_compute in match iter_eager fdv 28 w_pre with Some s => s | None => w_s0 end.
Example w_pre_run : run fdv w_puts w_s0 = Some w_pre.
Proof. vm_compute. reflexivity. Qed.
Example w_full_iter : iter_eager fdv 28 w_pre = Some w_full.
Proof. vm_compute. reflexivity. Qed.
Example w_full_view : pcs w_full = WaitFb /\ actual w_full = [(1, 3)] /\ fbq w_full = [] /\ outq w_full = [] /\
  delivered w_full = [(1, 7); (1, 8); (1, 9)].
Proof. vm_compute. repeat split; reflexivity. Qed.
Lemma w_full_reach : reachable fdv w_s0 w_full.
Proof.
  eapply iter_eager_reachable; [|exact w_full_iter]. eapply run_reachable; [apply r_init|exact w_pre_run].
Qed.

(* 2.  ONE handler releases; the scheduler consumes the release and is back in calcTactic: priority 1 holds 2 > 1 = its share,
   one handler is vacant, priority 1 has two items waiting, nobody else has anything.  calcTactic finds priority 1 over its share,
   divides the vacant handler among the uncrowded priorities [3; 2]: Fair gives it to 3 and nothing to 2, the tactic is "not filled",
   and the scheduler goes to wait for a feedback -- that is, for one more release -- without delivering. *)
Definition w_s : st := Eval vm_compute in match run fdv [Env (Release 1); Sch] w_full with Some s => s | None => w_s0 end.
Definition w_wait : st := Eval vm_compute in match eager_step fdv w_s with Some s => s | None => w_s0 end.
Example w_s_run : run fdv [Env (Release 1); Sch] w_full = Some w_s.
Proof. vm_compute. reflexivity. Qed.
Lemma w_s_reach : reachable fdv w_s0 w_s.
Proof. eapply run_reachable; [exact w_full_reach|exact w_s_run]. Qed.
Example w_step1 : eager_step fdv w_s = Some w_wait.
Proof. vm_compute. reflexivity. Qed.
Example w_step2 : eager_step fdv w_wait = None /\ auto_step fdv w_wait = None /\ sched_step fdv w_wait = None.
Proof. vm_compute. repeat split; reflexivity. Qed.

Theorem prio2_alone_above_share_waits : exists s0 s p,
  InitL s0 /\ reachable fdv s0 s /\ pcs s = Calc /\ fbq s = [] /\ H s < two64 /\ In p (prios s) /\
  (forall q, q <> p -> get (actual s) q = 0) /\
  (forall q, In q (prios s) -> q <> p -> inq s q = []) /\
  H s - get (actual s) p <= N.of_nat (length (inq s p)) /\
  get (strategic s) p < get (actual s) p /\                  (* p holds more than its share ... *)
  sum (actual s) < H s /\ outq s = [] /\                     (* ... a handler is vacant, nothing is waiting in the output *)
  (* blocked: one step (calcTactic) leads to WaitFb with an empty feedback channel; nothing can move but a Release *)
  (exists s1, eager_step fdv s = Some s1 /\ pcs s1 = WaitFb /\ fbq s1 = [] /\ outq s1 = [] /\ delivered s1 = delivered s /\
     sched_step fdv s1 = None /\ auto_step fdv s1 = None /\ eager_step fdv s1 = None) /\
  (* hence no eager run delivers anything or gives p the vacant handler *)
  (forall n s', iter_eager fdv n s = Some s' -> (n <= 1)%nat /\ delivered s' = delivered s /\ get (actual s') p < H s').
Proof.
  exists w_s0, w_s, 1.
  split; [exact w_initL|]. split; [exact w_s_reach|]. split; [reflexivity|]. split; [reflexivity|].
  split; [vm_compute; reflexivity|]. split; [right; right; left; reflexivity|].
  split. { intros q Hq. change (actual w_s) with [(1, 2)]. cbn [get]. destruct (N.eqb_spec q 1); [contradiction|reflexivity]. }
  split. { intros q Hq Hne. cbn in Hq. destruct Hq as [<-|[<-|[<-|[]]]]; [reflexivity|reflexivity|contradiction]. }
  split; [vm_compute; discriminate|]. split; [vm_compute; reflexivity|]. split; [vm_compute; reflexivity|]. split; [reflexivity|].
  split.
  { exists w_wait. split; [exact w_step1|]. split; [reflexivity|]. split; [reflexivity|]. split; [reflexivity|]. split; [reflexivity|].
    destruct w_step2 as (A & B & C). auto. }
  intros n s' Hi. destruct n as [|[|n]].
  - cbn [iter_eager] in Hi. inversion Hi; subst s'. split; [lia|]. split; [reflexivity|vm_compute; reflexivity].
  - cbn [iter_eager] in Hi. rewrite w_step1 in Hi. inversion Hi; subst s'. split; [lia|]. split; [reflexivity|vm_compute; reflexivity].
  - exfalso. cbn [iter_eager] in Hi. rewrite w_step1 in Hi. rewrite (proj1 w_step2) in Hi. discriminate.
Qed.
Print Assumptions prio2_alone_above_share_waits.

(* the premises of theorem 1 other than the share bound hold in w_s, so the share bound is exactly what fails *)
Example w_s_not_within_share : ~ get (actual w_s) 1 <= get (strategic w_s) 1.
Proof. vm_compute. intros Hx. apply Hx. reflexivity. Qed.

(* one more release (the second of three) brings priority 1 back within its share, and theorem 1 applies: it gets all the handlers *)
Definition w_s2 : st := Eval vm_compute in match run fdv [Env (Release 1); Sch] w_wait with Some s => s | None => w_s0 end.
Example w_s2_run : run fdv [Env (Release 1); Sch] w_wait = Some w_s2.
Proof. vm_compute. reflexivity. Qed.
Lemma w_s2_reach : reachable fdv w_s0 w_s2.
Proof.
  eapply run_reachable; [|exact w_s2_run]. eapply (iter_eager_reachable fdv 1); [exact w_s_reach|].
  cbn [iter_eager]. rewrite w_step1. reflexivity.
Qed.
Example w_s2_view : pcs w_s2 = Calc /\ actual w_s2 = [(1, 1)] /\ get (strategic w_s2) 1 = 1 /\ fbq w_s2 = [] /\ length (inq w_s2 1) = 2%nat.
Proof. vm_compute. repeat split; reflexivity. Qed.
Example w_within_share_applies : exists n s', iter_eager fdv n w_s2 = Some s' /\ get (actual s') 1 = 3.
Proof.
  destruct (prio2_alone_within_share fdv fdv_wf fdv_single w_s0 w_s2 1 w_initL w_s2_reach) as (n & s' & Hi & Ha).
  - reflexivity.
  - reflexivity.
  - vm_compute; reflexivity.
  - right; right; left; reflexivity.
  - intros q Hq. change (actual w_s2) with [(1, 1)]. cbn [get]. destruct (N.eqb_spec q 1); [contradiction|reflexivity].
  - vm_compute; discriminate.
  - intros q Hq Hne. cbn in Hq. destruct Hq as [<-|[<-|[<-|[]]]]; [reflexivity|reflexivity|contradiction].
  - vm_compute; discriminate.
  - exists n, s'. split; [exact Hi|]. rewrite Ha.
    destruct (reachable_const fdv w_s0 s' (iter_eager_reachable fdv n w_s0 w_s2 s' w_s2_reach Hi)) as [EH _].
    rewrite EH. reflexivity.
Qed.
Example w_within_share_concrete : option_map (fun s => (get (actual s) 1, delivered s)) (iter_eager fdv 25 w_s2) =
  Some (3, [(1, 7); (1, 8); (1, 9); (1, 10); (1, 11)]).
Proof. vm_compute. reflexivity. Qed.
