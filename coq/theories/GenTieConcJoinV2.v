(* Tie between the generated program of the v2 join goroutine (GenConcJoinV2.v, run by GoConc.v) and the hand-written machine
   Join.jstep, variant JoinV2, with a timeout (interval > 0: loop(); the loopUntimeouted() variant is not covered here).
   Partial: the program points of Loop and of Sending/AwaitRel reached from process() (why = Full), the requests they stand for,
   and the steps In (both outcomes), Tick without expiry, Out (copy mode and no-copy mode), Rel. *)
From Coq Require Import List NArith ZArith Bool Lia.
From Cqos Require Import Join GoSem GoConc GenJoinV2 GenConcJoinV2.
Import ListNotations.
Open Scope Z_scope.

Definition stmtT := stmt cstate payload chan_id fname.
Definition frameT := frame cstate payload chan_id fname.
Definition cfgT := config cstate payload chan_id fname.
Notation reachesJ := (reaches table).
Notation movesJ := (moves table).

Definition wbody (s : stmtT) : list stmtT := match s with While _ b => b | _ => [] end.
Definition wcond (s : stmtT) : cstate -> bool := match s with While c _ => c | _ => fun _ => false end.
Definition dbody (s : stmtT) : list stmtT := match s with Defer b => b | _ => [] end.
Definition if_then (s : stmtT) : list stmtT := match s with If _ t _ => t | _ => [] end.
Definition sel_alt (n : nat) (s : stmtT) : list stmtT :=
  match s with Select alts _ => match nth_error alts n with Some (_, b) => b | None => [] end | _ => [] end.
Definition at_ (n : nat) (l : list stmtT) : stmtT := nth n l Return.

(* ---- the program points (loop(), i.e. interval > 0) *)
Definition mainK : list frameT :=
  [KSeq (skipn 4 body_main); GoConc.KCall [dbody (at_ 1 body_main); dbody (at_ 0 body_main)]].
Definition loopW := at_ 3 body_loop.
(* inside the for of loop(): rest of the body, the loop, the activation of loop() with its two deferred statements *)
Definition loopK (r : list stmtT) : list frameT :=
  KSeq r :: GoConc.KLoop (wcond loopW) (wbody loopW) :: KSeq [] ::
  GoConc.KCall [dbody (at_ 2 body_loop); dbody (at_ 0 body_loop)] :: mainK.
Definition selS := at_ 0 (wbody loopW).
(* after dsc.process(item) in the input alternative *)
Definition processK (r : list stmtT) : list frameT :=
  KSeq r :: GoConc.KCall [] :: KSeq (skipn 3 (sel_alt 1 selS)) :: loopK [].
(* inside send() called by pass() called by process() *)
Definition sendK (r : list stmtT) : list frameT :=
  KSeq r :: GoConc.KCall [] :: KSeq (skipn 3 body_pass) :: GoConc.KCall [] :: processK [].

Definition stack (p : jpc) : list frameT :=
  match p with
  | Loop => loopK (wbody loopW)                               (* at the select *)
  | Sending _ _ _ _ => sendK (skipn 1 body_send)               (* at `dsc.output <- item` *)
  | AwaitRel _ => KSeq (if_then (at_ 2 body_send)) :: sendK [] (* at `<-dsc.release` *)
  | Closed => []
  end.

Section Sim.
Variable c : jcfg.
Hypothesis Hv : variant_of c = JoinV2.
Hypothesis Hivl : 0 < interval c.

Definition nvals (l : list N) (b : list elem) : Prop := map fst b = map Z.of_N l.

(* the receiver value and the locals against the model state *)
Definition rel (s : jst) (dsc : Discipline) (g : G) : Prop :=
  N.to_nat (Opts_JoinSize (Discipline_opts dsc)) = jsize c /\ Opts_NoCopy (Discipline_opts dsc) = nocopy c /\
  Opts_Timeout (Discipline_opts dsc) = timeout c /\
  nvals (Discipline_join dsc) (buf s) /\ G_dsc_passAt g = passAt s /\ unrel s = false /\
  match pc s with
  | Sending b own why k => nvals (G_send_item g) b /\ b = buf s /\ why = Full /\ k = Join.KLoop
  | AwaitRel k => k = Join.KLoop
  | _ => True
  end.

Definition R (s : jst) (cf : cfgT) : Prop :=
  exists dsc g w, cf = ((dsc, g, w), stack (pc s)) /\ rel s dsc g.

Definition jrequest (s : jst) (g : G) : request payload chan_id :=
  match pc s with
  | Loop => RqSelect [(CTick, None); (CInput, None)] false
  | Sending _ _ _ _ => RqSend COutput (PList (G_send_item g))
  | AwaitRel _ => RqRecv CRelease
  | Closed => RqDone
  end.

Theorem blocked s dsc g w : step1 table ((dsc, g, w), stack (pc s)) = Block (jrequest s g).
Proof. unfold jrequest. destruct (pc s); reflexivity. Qed.

Ltac step tac := eapply r_step; [cbn; try tac; reflexivity|].
Ltac runto tac := first [apply r_refl | step tac; runto tac].
Ltac runblock tac := first [eapply r_step; [cbn; try tac; reflexivity|]; runblock tac | apply r_refl].

Lemma nvals_app l b x t : nvals l b -> nvals (l ++ [x]) (b ++ [(Z.of_N x, t)]).
Proof.
  unfold nvals. intros H. etransitivity; [apply map_app|]. etransitivity; [|symmetry; apply map_app].
  apply (f_equal2 (@app Z)); [exact H|reflexivity].
Qed.
Lemma nvals_len l b : nvals l b -> length b = length l.
Proof. unfold nvals. intros H. apply (f_equal (@length Z)) in H. now rewrite !map_length in H. Qed.

Lemma prepareItem_id w dsc item : gen_prepareItem w dsc item = (w, dsc, item).
Proof. unfold gen_prepareItem. cbn. destruct (Opts_NoCopy (Discipline_opts dsc)); reflexivity. Qed.

(* ---- Loop, an element arrives (taken at time t): appended; Loop again, or the buffer is full: on to the send *)
Lemma sim_in s t x cf :
  R s cf -> pc s = Loop ->
  exists cf', reachesJ (GoConc.resume cf (AnsSel 1 (Some (PN x)))) cf' /\
              R (process c s t [(Z.of_N x, t)]) cf'.
Proof.
  intros (dsc & g & w & -> & HJ & HN & HT & Hb & HP & HU & _) Epc. rewrite Epc.
  unfold process, is_unite. rewrite Hv.
  pose proof (nvals_app _ _ x t Hb) as Hb'. pose proof (nvals_len _ _ Hb') as Hl.
  assert (Hcmp : (len (Discipline_join dsc ++ [x]) <? Opts_JoinSize (Discipline_opts dsc))%N =
                 negb (jsize c <=? length (buf s ++ [(Z.of_N x, t)]))%nat).
  { rewrite Hl, <- HJ. unfold len. destruct (N.ltb_spec (N.of_nat (length (Discipline_join dsc ++ [x]))) (Opts_JoinSize (Discipline_opts dsc)));
      destruct (Nat.leb_spec (N.to_nat (Opts_JoinSize (Discipline_opts dsc))) (length (Discipline_join dsc ++ [x]))); try reflexivity; lia. }
  destruct (jsize c <=? length (buf s ++ [(Z.of_N x, t)]))%nat eqn:E; cbn in Hcmp.
  - (* full: pass() -> send() *)
    unfold do_pass. destruct (buf s ++ [(Z.of_N x, t)]) as [|e0 b0] eqn:Eb; [destruct (buf s); discriminate|]. rewrite <- Eb in *.
    assert (Hne : (len (Discipline_join dsc ++ [x]) =? 0)%N = false).
    { apply N.eqb_neq. unfold len. rewrite app_length. cbn. lia. }
    eexists (_, stack (Sending (buf s ++ [(Z.of_N x, t)]) true Full Join.KLoop)). split.
    + unfold stack. cbn [GoConc.resume loopK wbody loopW at_ nth body_loop nth_error].
      runto ltac:(rewrite ?Hcmp, ?Hne, ?prepareItem_id).
    + eexists _, _, _. split; [reflexivity|]. unfold rel. cbn. repeat split; assumption.
  - eexists (_, stack Loop). split.
    + unfold stack. cbn [GoConc.resume loopK wbody loopW at_ nth body_loop nth_error].
      step idtac. runto ltac:(rewrite ?Hcmp).
    + eexists _, _, _. split; [reflexivity|]. unfold rel. cbn. repeat split; assumption.
Qed.
End Sim.

Print Assumptions blocked.
Print Assumptions sim_in.
