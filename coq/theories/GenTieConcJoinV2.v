(* Tie between the generated program of the v2 join goroutine (GenConcJoinV2.v, run by GoConc.v) and the hand-written machine
   Join.jstep, variant JoinV2: every model pc is a program point, every case of jstep is a move of the program (internal
   steps and the requests with the answers that the event stands for; the clock is read at the time of the event).
   Both loops are covered: loop() (interval > 0, mode MT) and loopUntimeouted() (interval = 0, mode MU). *)
From Coq Require Import List NArith ZArith Bool Lia.
From Cqos Require Import Join GoSem GoConc GenJoinV2 GenConcJoinV2.
Import ListNotations.
Open Scope Z_scope.

Definition stmtT := stmt cstate payload chan_id fname.
Definition frameT := frame cstate payload chan_id fname.
Definition cfgT := config cstate payload chan_id fname.
Notation reachesJ := (reaches table).
Notation movesJ := (moves table).

Definition wbody (s : stmtT) : list stmtT := match s with While _ b => b | _ => [] end.
Definition wcond (s : stmtT) : cstate -> bool := match s with While c _ => c | _ => fun _ => false end.
Definition dbody (s : stmtT) : list stmtT := match s with Defer b => b | _ => [] end.
Definition if_then (s : stmtT) : list stmtT := match s with If _ t _ => t | _ => [] end.
Definition sel_alt (n : nat) (s : stmtT) : list stmtT :=
  match s with Select alts _ => match nth_error alts n with Some (_, b) => b | None => [] end | _ => [] end.
Definition at_ (n : nat) (l : list stmtT) : stmtT := nth n l Return.

Lemma moves_reaches l : forall a b c, reachesJ a b -> movesJ l b c -> movesJ l a c.
Proof.
  destruct l as [|x l]; intros a b c H M; cbn in *.
  - eapply reaches_trans; eauto.
  - destruct M as (cb & rq & H1 & H2 & H3). exists cb, rq. split; [eapply reaches_trans; eauto|auto].
Qed.

(* ---- the program points *)
Inductive mode := MT | MU.      (* loop() with the ticker / loopUntimeouted() *)

Definition mainDefers : list (list stmtT) := [dbody (at_ 1 body_main); dbody (at_ 0 body_main)].
Definition mainK (m : mode) : list frameT :=
  match m with
  | MT => [KSeq (skipn 4 body_main); GoConc.KCall mainDefers]
  | MU => [KSeq (skipn 1 (if_then (at_ 2 body_main))); KSeq (skipn 3 body_main); GoConc.KCall mainDefers]
  end.
Definition loopW := at_ 3 body_loop.
Definition luW := at_ 1 body_loopUntimeouted.
(* inside the for: the rest of the body, the loop, the activation with what is still deferred *)
Definition loopK (m : mode) (r : list stmtT) : list frameT :=
  match m with
  | MT => KSeq r :: GoConc.KLoop (wcond loopW) (wbody loopW) :: KSeq [] ::
          GoConc.KCall [dbody (at_ 2 body_loop); dbody (at_ 0 body_loop)] :: mainK MT
  | MU => KSeq r :: GoConc.KLoop (wcond luW) (wbody luW) :: KSeq [] ::
          GoConc.KCall [dbody (at_ 0 body_loopUntimeouted)] :: mainK MU
  end.
Definition selS := at_ 0 (wbody loopW).
(* where pass() returns to: process() (buffer full), the ticker alternative (timeout), the deferred call at the end *)
Definition passCont (m : mode) (w : cause) : list frameT :=
  match w with
  | Timeout => KSeq [] :: KSeq (skipn 2 (sel_alt 0 selS)) :: loopK MT []
  | Final => KSeq [] :: GoConc.KCall [] :: mainK m
  | _ => KSeq [] :: GoConc.KCall [] ::
         match m with MT => KSeq (skipn 3 (sel_alt 1 selS)) :: loopK MT [] | MU => loopK MU [] end
  end.
Definition passK (m : mode) (w : cause) (r : list stmtT) : list frameT := KSeq r :: GoConc.KCall [] :: passCont m w.
Definition sendK (m : mode) (w : cause) (r : list stmtT) : list frameT :=
  KSeq r :: GoConc.KCall [] :: passK m w (skipn 3 body_pass).

Definition stack (m : mode) (p : jpc) (w : cause) : list frameT :=
  match p with
  | Loop => loopK m (match m with MT => wbody loopW | MU => wbody luW end)   (* at the select / the receive *)
  | Sending _ _ _ _ => sendK m w (skipn 1 body_send)                           (* at `dsc.output <- item` *)
  | AwaitRel _ => KSeq (if_then (at_ 2 body_send)) :: sendK m w []             (* at `<-dsc.release` *)
  | Closed => []
  end.

Definition kont_of (w : cause) : kont := match w with Final => KClose | _ => Join.KLoop end.
Definition cause_ok (m : mode) (w : cause) : Prop :=
  match w, m with Full, _ | Final, _ | Timeout, MT => True | _, _ => False end.

Section Sim.
Variable c : jcfg.
Hypothesis Hv : variant_of c = JoinV2.
Hypothesis Hivl : 0 <= interval c.
Definition md : mode := if interval c =? 0 then MU else MT.

Definition nvals (l : list N) (b : list elem) : Prop := map fst b = map Z.of_N l.

(* the receiver value and the locals against the model state *)
Definition rel (s : jst) (dsc : Discipline) (g : G) (w : cause) : Prop :=
  N.to_nat (Opts_JoinSize (Discipline_opts dsc)) = jsize c /\ Opts_NoCopy (Discipline_opts dsc) = nocopy c /\
  Opts_Timeout (Discipline_opts dsc) = timeout c /\ Discipline_interruptInterval dsc = interval c /\
  nvals (Discipline_join dsc) (buf s) /\ G_dsc_passAt g = passAt s /\ unrel s = false /\
  match pc s with
  | Sending b own why k => nvals (G_send_item g) b /\ b = buf s /\ b <> [] /\ own = true /\ why = w /\ k = kont_of w /\ cause_ok md w
  | AwaitRel k => k = kont_of w /\ cause_ok md w /\ buf s <> []
  | _ => True
  end.

Definition R (s : jst) (cf : cfgT) : Prop :=
  exists dsc g n w, cf = ((dsc, g, n), stack md (pc s) w) /\ rel s dsc g w.

Definition jrequest (s : jst) (g : G) : request payload chan_id :=
  match pc s with
  | Loop => match md with MT => RqSelect [(CTick, None); (CInput, None)] false | MU => RqRecv CInput end
  | Sending _ _ _ _ => RqSend COutput (PList (G_send_item g))
  | AwaitRel _ => RqRecv CRelease
  | Closed => RqDone
  end.

Theorem blocked s dsc g n w : step1 table ((dsc, g, n), stack md (pc s) w) = Block (jrequest s g).
Proof. unfold jrequest. destruct (pc s); try reflexivity. destruct md; reflexivity. Qed.

Ltac step tac := eapply r_step; [cbn; try tac; reflexivity|].
Ltac runto tac := first [apply r_refl | step tac; runto tac].
Ltac runblock tac := first [eapply r_step; [cbn; try tac; reflexivity|]; runblock tac | apply r_refl].
(* one request with its answer *)
Ltac ans tac := eexists _, _; split; [runblock tac|]; split; [reflexivity|]; cbn [GoConc.resume].

Lemma nvals_app l b x t : nvals l b -> nvals (l ++ [x]) (b ++ [(Z.of_N x, t)]).
Proof.
  unfold nvals. intros H. etransitivity; [apply map_app|]. etransitivity; [|symmetry; apply map_app].
  apply (f_equal2 (@app Z)); [exact H|reflexivity].
Qed.
Lemma nvals_len l b : nvals l b -> length b = length l.
Proof. unfold nvals. intros H. apply (f_equal (@length Z)) in H. now rewrite !map_length in H. Qed.
Lemma nvals_nil : nvals [] [].                                    Proof. reflexivity. Qed.
Lemma prepareItem_id w dsc item : gen_prepareItem w dsc item = (w, dsc, item).
Proof. unfold gen_prepareItem. cbn. destruct (Opts_NoCopy (Discipline_opts dsc)); reflexivity. Qed.
Lemma resetJoin_eq w dsc : gen_resetJoin w dsc = (w, set_Discipline_join [] dsc, tt).
Proof. reflexivity. Qed.
Lemma len_eq0 l (b : list elem) : nvals l b -> (len l =? 0)%N = match b with [] => true | _ => false end.
Proof. intros H. apply nvals_len in H. unfold len. destruct l, b; cbn in *; try discriminate; reflexivity. Qed.

(* what the environment still answers after the last pass(): the two deferred closes of main() *)
Definition closing (w : cause) : list (answer payload) := match w with Final => [AnsOk; AnsOk] | _ => [] end.
(* the model state after pass() has returned at time t *)
Definition after (s : jst) (w : cause) (t : Z) : jst := Join.resume s (kont_of w) t.

(* ---- pass() is entered with a non-empty buffer: on to the send *)
Lemma pass_nonempty s dsc g n w :
  rel (set_pc s Loop) dsc g w -> buf s <> [] -> cause_ok md w ->
  exists cf', reachesJ ((dsc, g, n), KSeq body_pass :: GoConc.KCall [] :: passCont md w) cf' /\
              R (set_pc s (Sending (buf s) true w (kont_of w))) cf'.
Proof.
  intros (HJ & HN & HT & HI & Hb & HP & HU & _) Hne Hok. cbn in *.
  pose proof (len_eq0 _ _ Hb) as H0. destruct (buf s) as [|e0 b0] eqn:Eb; [congruence|]. rewrite <- Eb in *.
  eexists (_, stack md (Sending (buf s) true w (kont_of w)) w). split.
  - unfold stack, sendK, passK. runto ltac:(rewrite ?H0, ?prepareItem_id).
  - eexists _, _, _, w. split; [reflexivity|]. unfold rel. cbn. repeat split; try assumption; try congruence.
Qed.

(* ---- pass() returns (after the send, or at once with an empty buffer): passAt is reset -- the clock is read at the time t of
   the event --, then Loop again, or (the deferred pass at the end) main() returns: release and output are closed *)
Lemma pass_finish s dsc g n w t :
  rel (set_pc s Loop) dsc g w -> cause_ok md w ->
  exists cf', movesJ (AnsTime t :: closing w) ((dsc, g, n), passK md w (skipn 3 body_pass)) cf' /\ R (after s w t) cf'.
Proof.
  intros (HJ & HN & HT & HI & Hb & HP & HU & _) Hok. cbn in *. unfold after.
  destruct w; try (destruct md; contradiction); cbn [kont_of Join.resume closing movesJ].
  - (* Full *) eexists (_, stack md Loop Full). split.
    + unfold passK, passCont, stack. destruct md; (ans idtac; runto idtac).
    + eexists _, _, _, Full. split; [reflexivity|]. unfold rel. cbn. repeat split; try assumption.
  - (* Timeout *) destruct md eqn:Em; [|contradiction]. eexists (_, stack MT Loop Timeout). split.
    + unfold passK, passCont, stack. ans idtac. runto idtac.
    + eexists _, _, _, Timeout. rewrite Em. split; [reflexivity|]. unfold rel. cbn. repeat split; try assumption.
  - (* Final *) eexists (_, []). split.
    + unfold passK, passCont, mainK. destruct md; (ans idtac; ans idtac; ans idtac; runblock idtac).
    + eexists _, _, _, Final. split; [reflexivity|]. unfold rel. cbn. repeat split; try assumption.
Qed.

Lemma pass_empty s dsc g n w t :
  rel (set_pc s Loop) dsc g w -> buf s = [] -> cause_ok md w ->
  exists cf', movesJ (AnsTime t :: closing w) ((dsc, g, n), KSeq body_pass :: GoConc.KCall [] :: passCont md w) cf' /\
              R (after s w t) cf'.
Proof.
  intros (HJ & HN & HT & HI & Hb & HP & HU & _) Hemp Hok. cbn in *. unfold after.
  pose proof (len_eq0 _ _ Hb) as H0. rewrite Hemp in H0.
  destruct w; try (destruct md; contradiction); cbn [kont_of Join.resume closing movesJ].
  - eexists (_, stack md Loop Full). split.
    + unfold passCont, stack. destruct md; (ans ltac:(rewrite ?H0); runto idtac).
    + eexists _, _, _, Full. split; [reflexivity|]. unfold rel. cbn. rewrite Hemp in Hb. repeat split; assumption.
  - destruct md eqn:Em; [|contradiction]. eexists (_, stack MT Loop Timeout). split.
    + unfold passCont, stack. ans ltac:(rewrite ?H0). runto idtac.
    + eexists _, _, _, Timeout. rewrite Em. split; [reflexivity|]. unfold rel. cbn. rewrite Hemp in Hb. repeat split; assumption.
  - eexists (_, []). split.
    + unfold passCont, mainK. destruct md; (ans ltac:(rewrite ?H0); ans idtac; ans idtac; runblock idtac).
    + eexists _, _, _, Final. split; [reflexivity|]. unfold rel. cbn. rewrite Hemp in Hb. repeat split; assumption.
Qed.

Lemma do_pass_nonempty s b w k t : b <> [] ->
  do_pass s b w k t = {| buf := b; passAt := passAt s; pc := Sending b true w k; unrel := unrel s; stopped := stopped s |}.
Proof. destruct b; [congruence|reflexivity]. Qed.

Definition passEntry (w : cause) : list frameT := KSeq body_pass :: GoConc.KCall [] :: passCont md w.
Definition ans_in (x : N) : answer payload := match md with MT => AnsSel 1 (Some (PN x)) | MU => AnsRecv (Some (PN x)) end.
Definition ans_close : answer payload := match md with MT => AnsSel 1 None | MU => AnsRecv None end.

(* ---- Loop, an element arrives: appended; Loop again, or the buffer is full: pass(), on to the send *)
Lemma sim_in s t t' x cf :
  R s cf -> pc s = Loop ->
  exists cf', reachesJ (GoConc.resume cf (ans_in x)) cf' /\ R (process c s t [(Z.of_N x, t')]) cf'.
Proof.
  intros (dsc & g & n & w & -> & HJ & HN & HT & HI & Hb & HP & HU & _) Epc. rewrite Epc.
  unfold process, is_unite. rewrite Hv.
  pose proof (nvals_app _ _ x t' Hb) as Hb'. pose proof (nvals_len _ _ Hb') as Hl.
  assert (Hcmp : (len (Discipline_join dsc ++ [x]) <? Opts_JoinSize (Discipline_opts dsc))%N =
                 negb (jsize c <=? length (buf s ++ [(Z.of_N x, t')]))%nat).
  { rewrite Hl, <- HJ. unfold len.
    destruct (N.ltb_spec (N.of_nat (length (Discipline_join dsc ++ [x]))) (Opts_JoinSize (Discipline_opts dsc)));
      destruct (Nat.leb_spec (N.to_nat (Opts_JoinSize (Discipline_opts dsc))) (length (Discipline_join dsc ++ [x]))); try reflexivity; lia. }
  destruct (jsize c <=? length (buf s ++ [(Z.of_N x, t')]))%nat eqn:E; cbn in Hcmp.
  - (* full *)
    set (s1 := {| buf := buf s ++ [(Z.of_N x, t')]; passAt := passAt s; pc := Loop; unrel := unrel s; stopped := stopped s |}).
    assert (Hne : buf s1 <> []) by (cbn; destruct (buf s); discriminate).
    assert (Hok : cause_ok md Full) by (destruct md; exact I).
    assert (Hpre : exists dsc' g' n', reachesJ (GoConc.resume ((dsc, g, n), stack md Loop w) (ans_in x)) ((dsc', g', n'), passEntry Full) /\
                                      rel (set_pc s1 Loop) dsc' g' Full).
    { unfold stack, ans_in, passEntry, passCont. destruct md; eexists _, _, _;
        (split; [cbn [GoConc.resume loopK wbody loopW luW at_ nth body_loop body_loopUntimeouted nth_error]; runto ltac:(rewrite ?Hcmp)
                |unfold rel; cbn; repeat split; assumption]). }
    destruct Hpre as (dsc' & g' & n' & Hr & Hrel).
    destruct (pass_nonempty s1 dsc' g' n' Full Hrel Hne Hok) as (cf' & H1 & H2).
    exists cf'. split; [eapply reaches_trans; eassumption|].
    rewrite do_pass_nonempty by exact Hne. exact H2.
  - unfold R, ans_in. destruct md.
    + eexists (_, stack MT Loop w). split.
      * unfold stack. cbn [GoConc.resume loopK wbody loopW at_ nth body_loop nth_error]. step idtac. runto ltac:(rewrite ?Hcmp).
      * eexists _, _, _, w. split; [reflexivity|]. unfold rel. cbn. repeat split; assumption.
    + eexists (_, stack MU Loop w). split.
      * unfold stack. cbn [GoConc.resume loopK wbody luW at_ nth body_loopUntimeouted nth_error]. step idtac. runto ltac:(rewrite ?Hcmp).
      * eexists _, _, _, w. split; [reflexivity|]. unfold rel. cbn. repeat split; assumption.
Qed.

Lemma moves_app l1 : forall l2 a b d, movesJ l1 a b -> movesJ l2 b d -> movesJ (l1 ++ l2) a d.
Proof.
  induction l1 as [|x l1 IH]; intros l2 a b d M1 M2; cbn in *.
  - eapply moves_reaches; eauto.
  - destruct M1 as (cb & rq & H1 & H2 & H3). exists cb, rq. split; [exact H1|]. split; [exact H2|]. eapply IH; eauto.
Qed.
Lemma do_pass_empty s w k t : do_pass s [] w k t = Join.resume s k t.
Proof. reflexivity. Qed.
Lemma set_pc_loop s : pc s = Loop -> set_pc s Loop = s.
Proof. intros E. destruct s; cbn in *; now subst. Qed.

(* pass() is called with the buffer of s (the pc of s is Loop): what the environment answers, and the model state *)
Definition pass_answers (s : jst) (w : cause) (t : Z) : list (answer payload) :=
  match buf s with [] => AnsTime t :: closing w | _ => [] end.
Lemma pass_call s dsc g n w t :
  pc s = Loop -> rel s dsc g w -> cause_ok md w ->
  exists cf', movesJ (pass_answers s w t) ((dsc, g, n), passEntry w) cf' /\ R (do_pass s (buf s) w (kont_of w) t) cf'.
Proof.
  intros Epc Hrel Hok. unfold pass_answers, passEntry. rewrite <- (set_pc_loop s Epc) in Hrel.
  destruct (buf s) as [|e0 b0] eqn:Eb.
  - destruct (pass_empty s dsc g n w t Hrel Eb Hok) as (cf' & H1 & H2). exists cf'. split; [exact H1|exact H2].
  - assert (Hne : buf s <> []) by congruence.
    destruct (pass_nonempty s dsc g n w Hrel Hne Hok) as (cf' & H1 & H2). exists cf'. split; [exact H1|].
    rewrite do_pass_nonempty by congruence. unfold set_pc in H2. rewrite Eb in H2. exact H2.
Qed.

(* ---- Loop, a tick (loop() only): the clock is read (at the time t of the event); no timeout: Loop; timeout: pass() *)
Lemma sim_tick s t cf :
  R s cf -> pc s = Loop -> md = MT -> i_range (t - passAt s) ->
  exists cf', movesJ (AnsTime t :: (if timeout c <=? t - passAt s then pass_answers s Timeout t else []))
                     (GoConc.resume cf (AnsSel 0 None)) cf' /\
              R (if timeout c <=? t - passAt s then do_pass s (buf s) Timeout Join.KLoop t else s) cf'.
Proof.
  intros (dsc & g & n & w & -> & Hrel) Epc Em Hr. rewrite Epc, Em in *.
  pose proof Hrel as (HJ & HN & HT & HI & Hb & HP & HU & _).
  destruct (timeout c <=? t - passAt s) eqn:E.
  - assert (Hpre : exists dsc' g' n', movesJ [AnsTime t] (GoConc.resume ((dsc, g, n), stack MT Loop w) (AnsSel 0 None))
                                              ((dsc', g', n'), passEntry Timeout) /\ rel s dsc' g' Timeout).
    { eexists _, _, _. split.
      - unfold stack, passEntry, passCont. rewrite ?Em. cbn [GoConc.resume loopK wbody loopW at_ nth body_loop nth_error movesJ].
        ans idtac. runto ltac:(rewrite ?HP, ?HT, ?(i_sub_small t (passAt s) Hr), ?E).
      - unfold rel in *. rewrite Epc in *. cbn. repeat split; assumption. }
    destruct Hpre as (dsc' & g' & n' & Hm & Hrel').
    assert (Hok : cause_ok md Timeout) by (rewrite Em; exact I).
    destruct (pass_call s dsc' g' n' Timeout t Epc Hrel' Hok) as (cf' & H1 & H2).
    exists cf'. split; [|exact H2]. change (AnsTime t :: pass_answers s Timeout t) with ([AnsTime t] ++ pass_answers s Timeout t).
    eapply moves_app; eassumption.
  - eexists (_, stack MT Loop w). split.
    + unfold stack. cbn [GoConc.resume loopK wbody loopW at_ nth body_loop nth_error movesJ].
      ans idtac. runto ltac:(rewrite ?HP, ?HT, ?(i_sub_small t (passAt s) Hr), ?E).
    + unfold R. rewrite Em, Epc. eexists _, _, _, w. split; [reflexivity|].
      unfold rel in *. rewrite Epc in *. cbn. repeat split; assumption.
Qed.

(* ---- Loop, the input is closed: loop() returns (its ticker is stopped), the deferred pass() *)
Definition close_prefix : list (answer payload) := match md with MT => [AnsOk] | MU => [] end.
Lemma sim_close s t cf :
  R s cf -> pc s = Loop ->
  exists cf', movesJ (close_prefix ++ pass_answers s Final t) (GoConc.resume cf ans_close) cf' /\
              R (do_pass s (buf s) Final KClose t) cf'.
Proof.
  intros (dsc & g & n & w & -> & Hrel) Epc. rewrite Epc in *.
  pose proof Hrel as (HJ & HN & HT & HI & Hb & HP & HU & _).
  assert (Hpre : exists dsc' g' n', movesJ close_prefix (GoConc.resume ((dsc, g, n), stack md Loop w) ans_close)
                                            ((dsc', g', n'), passEntry Final) /\ rel s dsc' g' Final).
  { unfold stack, passEntry, passCont, close_prefix, ans_close. destruct md; eexists _, _, _.
    - split; [cbn [GoConc.resume loopK wbody loopW at_ nth body_loop nth_error movesJ]; ans idtac; runto idtac|].
      unfold rel in *. rewrite Epc in *. cbn. repeat split; assumption.
    - split; [cbn [GoConc.resume loopK wbody luW at_ nth body_loopUntimeouted nth_error movesJ]; runto idtac|].
      unfold rel in *. rewrite Epc in *. cbn. repeat split; assumption. }
  destruct Hpre as (dsc' & g' & n' & Hm & Hrel').
  assert (Hok : cause_ok md Final) by (destruct md; exact I).
  destruct (pass_call s dsc' g' n' Final t Epc Hrel' Hok) as (cf' & H1 & H2).
  exists cf'. split; [eapply moves_app; eassumption|exact H2].
Qed.

(* ---- Sending, the write completes: no-copy mode waits for the release; otherwise pass() finishes *)
Lemma sim_out s t b own why k cf :
  R s cf -> pc s = Sending b own why k ->
  exists cf', movesJ (if nocopy c then [] else AnsTime t :: closing why) (GoConc.resume cf AnsOk) cf' /\
              R (if nocopy c then set_pc s (AwaitRel k) else Join.resume s k t) cf'.
Proof.
  intros (dsc & g & n & w & -> & Hrel) Epc. rewrite Epc in *.
  pose proof Hrel as (HJ & HN & HT & HI & Hb & HP & HU & Hs). rewrite Epc in Hs.
  destruct Hs as (Hsi & Hbb & Hne & Hown & Hw & Hk & Hok). subst why k own.
  destruct (nocopy c) eqn:Enc.
  - eexists (_, stack md (AwaitRel (kont_of w)) w). split.
    + unfold stack, sendK. cbn [GoConc.resume movesJ]. runto ltac:(rewrite ?HN, ?Enc).
    + eexists _, _, _, w. split; [reflexivity|]. unfold rel. cbn. subst b. repeat split; try assumption; try reflexivity; try (rewrite Enc; assumption).
  - assert (Hpre : reachesJ (GoConc.resume ((dsc, g, n), stack md (Sending b true w (kont_of w)) w) AnsOk)
                            ((dsc, g, n), passK md w (skipn 3 body_pass))).
    { unfold stack, sendK. cbn [GoConc.resume]. runto ltac:(rewrite ?HN, ?Enc). }
    assert (Hrel' : rel (set_pc s Loop) dsc g w) by (unfold rel; cbn; repeat split; try assumption; rewrite Enc; assumption).
    destruct (pass_finish s dsc g n w t Hrel' Hok) as (cf' & H1 & H2).
    exists cf'. split; [eapply moves_reaches; eassumption|exact H2].
Qed.

(* ---- AwaitRel, the release signal: pass() finishes *)
Lemma sim_rel s t k v cf :
  R s cf -> pc s = AwaitRel k ->
  exists cf', movesJ (AnsTime t :: match k with KClose => [AnsOk; AnsOk] | _ => [] end) (GoConc.resume cf (AnsRecv v)) cf' /\
              R (Join.resume s k t) cf'.
Proof.
  intros (dsc & g & n & w & -> & Hrel) Epc. rewrite Epc in *.
  pose proof Hrel as (HJ & HN & HT & HI & Hb & HP & HU & Hs). rewrite Epc in Hs. destruct Hs as (Hk & Hok & Hne). subst k.
  assert (Hpre : reachesJ (GoConc.resume ((dsc, g, n), stack md (AwaitRel (kont_of w)) w) (AnsRecv v))
                          ((dsc, g, n), passK md w (skipn 3 body_pass))).
  { unfold stack, sendK. cbn [GoConc.resume if_then at_ nth body_send]. runto idtac. }
  assert (Hrel' : rel (set_pc s Loop) dsc g w) by (unfold rel; cbn; repeat split; assumption).
  destruct (pass_finish s dsc g n w t Hrel' Hok) as (cf' & H1 & H2).
  exists cf'. split; [|exact H2].
  replace (match kont_of w with KClose => [AnsOk; AnsOk] | _ => [] end) with (closing w) by (destruct w; reflexivity).
  eapply moves_reaches; eassumption.
Qed.

(* ---- the start: New() has set passAt (t0) and the buffer is empty; `go dsc.main()` registers the two deferred closes, enters
   loop() (makes the ticker) or loopUntimeouted(), and waits *)
Definition init_answers : list (answer payload) := match md with MT => [AnsOk] | MU => [] end.
Theorem conc_init t0 dsc g n :
  N.to_nat (Opts_JoinSize (Discipline_opts dsc)) = jsize c -> Opts_NoCopy (Discipline_opts dsc) = nocopy c ->
  Opts_Timeout (Discipline_opts dsc) = timeout c -> Discipline_interruptInterval dsc = interval c ->
  Discipline_join dsc = [] -> G_dsc_passAt g = t0 ->
  exists cf', movesJ init_answers (start table (dsc, g, n) F_main) cf' /\ R (jinit t0) cf'.
Proof.
  intros HJ HN HT HI Hj HP. unfold init_answers, R, md. rewrite <- HI.
  destruct (Discipline_interruptInterval dsc =? 0) eqn:E.
  - eexists (_, stack MU Loop Full). split.
    + unfold start, stack. cbn [movesJ]. runto ltac:(rewrite ?E).
    + eexists _, _, _, Full. split; [reflexivity|]. unfold rel. cbn. rewrite Hj. repeat split; try assumption; try reflexivity.
  - eexists (_, stack MT Loop Full). split.
    + unfold start, stack. cbn [movesJ]. ans ltac:(rewrite ?E). runto idtac.
    + eexists _, _, _, Full. split; [reflexivity|]. unfold rel. cbn. rewrite Hj. repeat split; try assumption; try reflexivity.
Qed.

(* ==== main tie theorems ==== *)

(* the answers that an event of the model stands for *)
Definition janswers (s : jst) (e : jev) : list (answer payload) :=
  match pc s, e with
  | Loop, In _ [(v, _)] => [ans_in (Z.to_N v)]
  | Loop, Tick t =>
      AnsSel 0 None :: AnsTime t :: (if timeout c <=? t - passAt s then pass_answers s Timeout t else [])
  | Loop, CloseIn t => ans_close :: close_prefix ++ pass_answers s Final t
  | Sending _ _ why _, Out t => AnsOk :: (if nocopy c then [] else AnsTime t :: closing why)
  | AwaitRel k, Rel t => AnsRecv (Some (PN 0%N)) :: AnsTime t :: match k with KClose => [AnsOk; AnsOk] | _ => [] end
  | _, _ => []
  end.

(* every step of Join.jstep (variant JoinV2) is a move of the generated program.  An arriving item is one element with a
   non-negative value (the item type is N here); the Duration subtraction of isTimeouted() must not overflow. *)
Theorem conc_simulates_jstep s e s' out cf :
  R s cf -> jstep c s e = Some (s', out) ->
  (forall t xs, e = In t xs -> exists x t', xs = [(Z.of_N x, t')]) ->
  (forall t, e = Tick t -> i_range (t - passAt s)) ->
  exists cf', movesJ (janswers s e) cf cf' /\ R s' cf'.
Proof.
  intros HR Hs Hin Htick.
  pose proof HR as (dsc & g & n & w & Ecf & Hrel). pose proof Hrel as (_ & _ & _ & _ & _ & _ & HU & _).
  pose proof (blocked s dsc g n w) as Hb. rewrite <- Ecf in Hb.
  assert (Hv1 : is_v1 c = false) by (unfold is_v1; now rewrite Hv).
  unfold jstep in Hs. rewrite HU, Hv1 in Hs. unfold janswers.
  destruct (pc s) eqn:Epc; destruct e; cbn in Hs; try discriminate.
  - (* In *) injection Hs as <- <-. destruct (Hin t xs eq_refl) as (x & t' & ->). rewrite N2Z.id.
    destruct (sim_in s t t' x cf HR Epc) as (cf' & H1 & H2).
    exists cf'. split; [|exact H2]. cbn. eexists _, _. split; [apply r_refl|]. split; [exact Hb|exact H1].
  - (* Tick *) destruct (interval c <=? 0) eqn:Ei; [discriminate|].
    assert (Em : md = MT). { unfold md. apply Z.leb_gt in Ei. destruct (Z.eqb_spec (interval c) 0); [lia|reflexivity]. }
    destruct (sim_tick s t cf HR Epc Em (Htick t eq_refl)) as (cf' & H1 & H2).
    destruct (timeout c <=? t - passAt s); injection Hs as <- <-; (exists cf'; split; [|exact H2]);
      cbn [movesJ]; eexists _, _; (split; [apply r_refl|]); (split; [exact Hb|exact H1]).
  - (* CloseIn *) injection Hs as <- <-.
    destruct (sim_close s t cf HR Epc) as (cf' & H1 & H2).
    exists cf'. split; [|exact H2]. cbn [movesJ]. eexists _, _. split; [apply r_refl|]. split; [exact Hb|exact H1].
  - (* Out *) destruct (sim_out s t s0 own why k cf HR Epc) as (cf' & H1 & H2).
    destruct (nocopy c); injection Hs as <- <-; (exists cf'; split; [|exact H2]);
      cbn [movesJ]; eexists _, _; (split; [apply r_refl|]); (split; [exact Hb|exact H1]).
  - (* Rel *) injection Hs as <- <-.
    destruct (sim_rel s t k (Some (PN 0%N)) cf HR Epc) as (cf' & H1 & H2).
    exists cf'. split; [|exact H2]. cbn [movesJ]. eexists _, _. split; [apply r_refl|]. split; [exact Hb|exact H1].
Qed.
End Sim.

Print Assumptions blocked.
Print Assumptions conc_init.
Print Assumptions conc_simulates_jstep.
