(* Tie between the generated program of the v2 limit goroutine (GenConcLimit.v, run by GoConc.v) and the hand-written machine
   Limit.lstep: every model pc is a program point, every case of lstep is a move of the program (internal steps, and the
   requests with the answers that the event stands for; the clock is read at the time of the event). *)
From Coq Require Import List NArith ZArith Bool Lia.
From Cqos Require Import Limit GoSem GoConc GenLimit GenConcLimit.
Import ListNotations.
Open Scope Z_scope.

Definition stmtT := stmt cstate payload chan_id fname.
Definition frameT := frame cstate payload chan_id fname.
Definition cfgT := config cstate payload chan_id fname.
Notation reachesL := (reaches table).
Notation movesL := (moves table).

Definition wbody (s : stmtT) : list stmtT := match s with While _ b => b | _ => [] end.
Definition wcond (s : stmtT) : cstate -> bool := match s with While c _ => c | _ => fun _ => false end.
Definition dbody (s : stmtT) : list stmtT := match s with Defer b => b | _ => [] end.
Definition at_ (n : nat) (l : list stmtT) : stmtT := nth n l Return.

(* ---- the program points *)
Definition mainK : list frameT := [KSeq (skipn 2 body_main); KCall [dbody (at_ 0 body_main)]].
Definition loopW := at_ 0 body_loop.
Definition loopK (r : list stmtT) : list frameT :=
  KSeq r :: KLoop (wcond loopW) (wbody loopW) :: KSeq [] :: KCall [] :: mainK.
Definition transferK (r : list stmtT) : list frameT := KSeq r :: KCall [] :: loopK (skipn 1 (wbody loopW)).
Definition passW := at_ 1 body_pass.
Definition passK (r : list stmtT) : list frameT :=
  KSeq r :: KLoop (wcond passW) (wbody passW) :: KSeq (skipn 2 body_pass) :: KCall [] :: transferK (skipn 3 body_transfer).

Definition stack (p : lpc) : list frameT :=
  match p with
  | LRecv _ _ => passK (skipn 1 (wbody passW))                       (* at `item, opened := <-dsc.opts.Input` *)
  | LSend _ _ _ => KSeq body_send :: KCall [] :: passK []             (* at `dsc.output <- item` *)
  | LSleep _ => KSeq (skipn 1 body_delay) :: KCall [] :: loopK []     (* at time.Sleep(remainder) *)
  | LClosed => []
  end.

Section Sim.
Variable c : lcfg.
Variable dsc : Discipline.
Hypothesis Hq : Z.of_N (Rate_Quantity (Opts_Limit (Discipline_opts dsc))) = quantity c.
Hypothesis Hi : Rate_Interval (Opts_Limit (Discipline_opts dsc)) = linterval c.
Hypothesis Hqpos : 0 < quantity c.                                   (* Rate.IsValid *)
Hypothesis Hqmax : quantity c < Z.of_N u_modulus.                    (* a uint64 *)

(* the locals that carry the pc data; `now` is the time of the last event (the sleep is relative to it) *)
Definition live (now : Z) (p : lpc) (g : G) : Prop :=
  match p with
  | LRecv k s => Z.of_N (G_pass_i1 g) = k + 1 /\ Z.of_N (G_pass_n2 g) = quantity c /\ G_transfer_startedAt g = s
  | LSend k s x => Z.of_N (G_pass_i1 g) = k + 1 /\ Z.of_N (G_pass_n2 g) = quantity c /\ G_transfer_startedAt g = s /\
                   Z.of_N (G_send_item g) = x
  | LSleep u => G_delay_remainder g = u - now
  | LClosed => True
  end.

Definition R (now : Z) (p : lpc) (cf : cfgT) : Prop :=
  exists g w, cf = ((dsc, g, w), stack p) /\ live now p g.

(* which request the pc stands for *)
Definition lrequest (now : Z) (p : lpc) : request payload chan_id :=
  match p with
  | LRecv _ _ => RqRecv CInput
  | LSend _ _ x => RqSend COutput (PN (Z.to_N x))
  | LSleep u => RqSleep (u - now)
  | LClosed => RqDone
  end.

Theorem blocked now p cf : R now p cf -> step1 table cf = Block (lrequest now p).
Proof.
  intros (g & w & -> & L). destruct p; cbn in *.
  - reflexivity.
  - destruct L as (_ & _ & _ & <-). now rewrite N2Z.id.
  - now rewrite L.
  - reflexivity.
Qed.

Ltac step tac := eapply r_step; [cbn; try tac; reflexivity|].
Ltac runto tac := first [apply r_refl | step tac; runto tac].
Ltac runblock tac := first [eapply r_step; [cbn; try tac; reflexivity|]; runblock tac | apply r_refl].

(* ---- LRecv, an element arrives *)
Lemma sim_recv_in now k s x cf :
  R now (LRecv k s) cf -> exists cf', reachesL (resume cf (AnsRecv (Some (PN x)))) cf' /\ R now (LSend k s (Z.of_N x)) cf'.
Proof.
  intros (g & w & -> & L1 & L2 & L3). eexists (_, stack (LSend k s (Z.of_N x))). split.
  - unfold stack. cbn [resume passK skipn wbody passW at_ nth body_pass]. runto idtac.
  - eexists _, w. split; [reflexivity|]. cbn. auto.
Qed.

(* ---- LRecv, the input is closed: pass, transfer, loop return; the deferred close of the output; done *)
Lemma sim_recv_closed now k s cf :
  R now (LRecv k s) cf ->
  exists cf', movesL [AnsOk] (resume cf (AnsRecv None)) cf' /\ R now LClosed cf' /\ step1 table cf' = Block RqDone.
Proof.
  intros (g & w & -> & L). eexists (_, []). split; [|split].
  - unfold stack. cbn [moves resume passK skipn wbody passW at_ nth body_pass].
    eexists _, _. split; [runblock idtac|]. split; [reflexivity|]. cbn [resume]. runblock idtac.
  - eexists _, w. split; [reflexivity|exact I].
  - reflexivity.
Qed.

(* ---- LSend, the write completes inside the batch *)
Lemma sim_send_more now k s x cf :
  R now (LSend k s x) cf -> k + 1 < quantity c ->
  exists cf', reachesL (resume cf AnsOk) cf' /\ R now (LRecv (k + 1) s) cf'.
Proof.
  intros (g & w & -> & L1 & L2 & L3 & L4) Hlt.
  assert (Hn : (G_pass_i1 g <? G_pass_n2 g)%N = true) by (apply N.ltb_lt; lia).
  assert (Hm : (G_pass_n2 g < u_modulus)%N) by lia.
  eexists (_, stack (LRecv (k + 1) s)). split.
  - unfold stack. cbn [resume]. runto ltac:(rewrite ?Hn).
  - eexists _, w. split; [reflexivity|]. cbn. rewrite u_add_small by lia. repeat split; try assumption; lia.
Qed.

(* ---- LSend, the write completes the batch: the clock is read (at the time t of the event), then the sleep *)
Lemma sim_send_last k s x t cf :
  R t (LSend k s x) cf -> ~ k + 1 < quantity c -> i_range (t - s) -> i_range (linterval c - (t - s)) ->
  exists cf', movesL [AnsTime t] (resume cf AnsOk) cf' /\ R t (LSleep (t + (linterval c - (t - s)))) cf'.
Proof.
  intros (g & w & -> & L1 & L2 & L3 & L4) Hge R1 R2.
  assert (Hn : (G_pass_i1 g <? G_pass_n2 g)%N = false) by (apply N.ltb_ge; lia).
  eexists (_, stack (LSleep _)). split.
  - unfold stack. cbn [moves resume].
    eexists _, _. split; [runblock ltac:(rewrite ?Hn)|]. split; [reflexivity|]. cbn [resume]. runto idtac.
  - eexists _, w. split; [reflexivity|]. cbn. rewrite L3, Hi.
    rewrite (i_sub_small t s) by exact R1. rewrite i_sub_small by exact R2. lia.
Qed.

(* ---- LSleep, the sleep is over at t: the next batch starts, the clock is read (at t) *)
Lemma sim_wake now u t cf :
  R now (LSleep u) cf ->
  exists cf', movesL [AnsTime t] (resume cf AnsOk) cf' /\ R t (LRecv 0 t) cf'.
Proof.
  intros (g & w & -> & L).
  assert (Hn : (0 <? Rate_Quantity (Opts_Limit (Discipline_opts dsc)))%N = true) by (apply N.ltb_lt; lia).
  eexists (_, stack (LRecv 0 t)). split.
  - unfold stack. cbn [moves resume].
    eexists _, _. split; [runblock idtac|]. split; [reflexivity|]. cbn [resume]. runto ltac:(rewrite ?Hn).
  - eexists _, w. split; [reflexivity|]. cbn. repeat split; try reflexivity; try exact Hq.
Qed.

(* ---- the start: `go dsc.main()` reads the clock (t0) and waits for the first element *)
Theorem conc_init t0 w :
  exists cf', movesL [AnsTime t0] (start table (dsc, zero_G, w) F_main) cf' /\ R t0 (linit t0) cf'.
Proof.
  assert (Hn : (0 <? Rate_Quantity (Opts_Limit (Discipline_opts dsc)))%N = true) by (apply N.ltb_lt; lia).
  eexists (_, stack (linit t0)). split.
  - unfold start, stack, linit. cbn [moves].
    eexists _, _. split; [runblock idtac|]. split; [reflexivity|]. cbn [resume]. runto ltac:(rewrite ?Hn).
  - eexists _, w. split; [reflexivity|]. cbn. repeat split; try reflexivity; try exact Hq.
Qed.

(* ==== main tie theorems ==== *)

(* the answers that an event of the model stands for *)
Definition lanswers (p : lpc) (e : lev) : list (answer payload) :=
  match p, e with
  | LRecv _ _, LIn _ x => [AnsRecv (Some (PN (Z.to_N x)))]
  | LRecv _ _, LCloseIn _ => [AnsRecv None; AnsOk]                       (* the input is closed; the close of the output *)
  | LSend k _ _, LOut t => if k + 1 <? quantity c then [AnsOk] else [AnsOk; AnsTime t]
  | LSleep _, LWake t => [AnsOk; AnsTime t]
  | _, _ => []
  end.

(* every step of Limit.lstep is a move of the generated program.  The element values are those of the channel (non-negative:
   the item type is N here); the Duration arithmetic of delay() must not overflow (Go's comment: it cannot) *)
Theorem conc_simulates_lstep now p e p' out cf :
  R now p cf -> lstep c p e = Some (p', out) ->
  (forall t x, e = LIn t x -> 0 <= x) ->
  (forall k s x t, p = LSend k s x -> e = LOut t -> i_range (t - s) /\ i_range (linterval c - (t - s))) ->
  exists cf', movesL (lanswers p e) cf cf' /\ R (lev_time e) p' cf'.
Proof.
  intros HR Hs Hx Hr. pose proof (blocked now p cf HR) as Hb.
  destruct p as [k s|k s x|u|]; destruct e as [t x'|t|t|t]; cbn in Hs; try discriminate.
  - injection Hs as <- <-. destruct (sim_recv_in now k s (Z.to_N x') cf HR) as (cf' & H1 & H2).
    rewrite Z2N.id in H2 by (eapply Hx; reflexivity).
    exists cf'. split.
    + cbn. eexists _, _. split; [apply r_refl|]. split; [exact Hb|exact H1].
    + destruct H2 as (g & w & -> & L). eexists _, _. split; [reflexivity|exact L].
  - injection Hs as <- <-. destruct (sim_recv_closed now k s cf HR) as (cf' & H1 & H2 & _).
    exists cf'. split.
    + cbn [lanswers moves]. eexists _, _. split; [apply r_refl|]. split; [exact Hb|exact H1].
    + destruct H2 as (g & w & -> & L). eexists _, _. split; [reflexivity|exact L].
  - destruct (k + 1 <? quantity c) eqn:E; injection Hs as <- <-.
    + apply Z.ltb_lt in E. destruct (sim_send_more now k s x cf HR E) as (cf' & H1 & H2).
      exists cf'. split.
      * cbn [lanswers]. rewrite (proj2 (Z.ltb_lt _ _) E). cbn. eexists _, _. split; [apply r_refl|]. split; [exact Hb|exact H1].
      * destruct H2 as (g & w & -> & L). eexists _, _. split; [reflexivity|exact L].
    + apply Z.ltb_ge in E. destruct (Hr k s x t eq_refl eq_refl) as [R1 R2].
      assert (HRt : R t (LSend k s x) cf) by (destruct HR as (g & w & -> & L); eexists _, _; split; [reflexivity|exact L]).
      assert (E' : ~ k + 1 < quantity c) by lia.
      destruct (sim_send_last k s x t cf HRt E' R1 R2) as (cf' & H1 & H2).
      exists cf'. split; [|exact H2].
      cbn [lanswers]. rewrite (proj2 (Z.ltb_ge _ _) E). cbn [moves]. eexists _, _. split; [apply r_refl|]. split; [exact Hb|exact H1].
  - destruct (u <=? t); [|discriminate]. injection Hs as <- <-.
    destruct (sim_wake now u t cf HR) as (cf' & H1 & H2).
    exists cf'. split; [|exact H2].
    cbn [lanswers moves]. eexists _, _. split; [apply r_refl|]. split; [exact Hb|exact H1].
Qed.
End Sim.

Print Assumptions blocked.
Print Assumptions conc_init.
Print Assumptions conc_simulates_lstep.
