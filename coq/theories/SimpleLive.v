(* The simplified disciplines (v2/priority/simple, v1 priority.Simple) are the priority discipline plus HandlersQuantity handler
   goroutines, each running  `item := <-output; Handle(item); release(priority)`.  In the models the items inside Handle are `held`.
   Two facts turn the liveness theorems of the priority models (Prio2Live / Prio2Term / Prio1Live / Prio1Term) into statements about the
   simplified disciplines:
     - whenever the discipline offers an item, a handler is free to take it (no deadlock between the handlers and the discipline):
       the fairness hypothesis F_take is then plain scheduler fairness of the handler goroutines;
     - F_rel is "every Handle call returns" (the user's obligation).
   The first fact is a consequence of the capacity invariant. *)
From Coq Require Import List NArith Lia.
From Cqos Require Import Base Divider.
From Cqos Require Prio2 Prio2P Prio1 Prio1P.
Import ListNotations.
Open Scope N_scope.

Theorem simple2_free_handler_when_offered : forall (dv : nat -> Divider),
  (forall k ps n d, NoDup (keys d) -> NoDup (keys (dv k ps n d))) ->
  forall s0 s, Prio2P.Init s0 -> Prio2.reachable dv s0 s -> Prio2.outq s <> [] ->
  N.of_nat (length (Prio2.held s)) < Prio2.H s.
Proof.
  intros dv Hwf s0 s I Hr Ho.
  destruct (Prio2P.prio2_capacity dv Hwf s0 s I Hr) as [Hs Hc].
  destruct (Prio2.outq s) as [|x q]; [congruence|]. cbn [length] in Hs. lia.
Qed.

Theorem simple1_free_handler_when_offered : forall (fixed : bool) (dv : nat -> Divider),
  (forall k ps n d, NoDup (keys d) -> NoDup (keys (dv k ps n d))) ->
  forall s0 s, Prio1P.Init1 s0 -> Prio1.reachable fixed dv s0 s -> Prio1.outq s <> [] ->
  N.of_nat (length (Prio1.held s)) < Prio1.H s.
Proof.
  intros fixed dv Hwf s0 s I Hr Ho.
  destruct (Prio1P.prio1_capacity fixed dv Hwf s0 s I Hr) as [Hs Hc].
  destruct (Prio1.outq s) as [|x q]; [congruence|]. cbn [length] in Hs. lia.
Qed.

(* and never more Handle calls than handlers *)
Theorem simple2_handles_le_H : forall (dv : nat -> Divider),
  (forall k ps n d, NoDup (keys d) -> NoDup (keys (dv k ps n d))) ->
  forall s0 s, Prio2P.Init s0 -> Prio2.reachable dv s0 s -> N.of_nat (length (Prio2.held s)) <= Prio2.H s.
Proof. intros dv Hwf s0 s I Hr. destruct (Prio2P.prio2_capacity dv Hwf s0 s I Hr) as [Hs Hc]. lia. Qed.

Theorem simple1_handles_le_H : forall (fixed : bool) (dv : nat -> Divider),
  (forall k ps n d, NoDup (keys d) -> NoDup (keys (dv k ps n d))) ->
  forall s0 s, Prio1P.Init1 s0 -> Prio1.reachable fixed dv s0 s -> N.of_nat (length (Prio1.held s)) <= Prio1.H s.
Proof. intros fixed dv Hwf s0 s I Hr. destruct (Prio1P.prio1_capacity fixed dv Hwf s0 s I Hr) as [Hs Hc]. lia. Qed.

Print Assumptions simple2_free_handler_when_offered.
Print Assumptions simple1_free_handler_when_offered.
