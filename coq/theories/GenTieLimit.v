(* Tie lemmas for GenLimit.v (v2/limit/limit.go: Opts.isValid; v2/limit/rate.go: Rate.IsValid as translated in that unit)
   versus RateConv.is_valid.  Imports only this one generated file.
   Two families, both kept:
     tie_limit_*   from the generated side: for every GenLimit.Rate / GenLimit.Opts (abstraction rate_of = absrL)
     tie_Limit_*   from the model side: for every in-range model rate r, on its concretisation concL r
                   (moved here from GenTieRate.v, which now only speaks about GenRate.v). *)
From Coq Require Import List NArith ZArith Bool Lia.
From Cqos Require Import GoSem RateConv GenTieMiscBase.
From Cqos Require GenLimit.
Import ListNotations.

Module L := GenLimit.

(* ------------------------------------------------------------------ from the generated side *)

Definition rate_of (rt : L.Rate) : rate := {| ivl := L.Rate_Interval rt; qty := Z.of_N (L.Rate_Quantity rt) |}.

(* the error values of Rate.IsValid and the model's *)
Inductive limit_err_rel : option L.err_Limit -> option err -> Prop :=
| ler_ok : limit_err_rel None None
| ler_negative : limit_err_rel (Some L.ErrIntervalNegative) (Some IntervalNegative)
| ler_zero : limit_err_rel (Some L.ErrIntervalZero) (Some IntervalZero)
| ler_quantity : limit_err_rel (Some L.ErrQuantityZero) (Some QuantityZero).
(* as a function from the model's answer (is_valid gives no other errors) *)
Definition limit_err_enc (e : option err) : option L.err_Limit :=
  match e with
  | None => None
  | Some IntervalNegative => Some L.ErrIntervalNegative
  | Some IntervalZero => Some L.ErrIntervalZero
  | Some _ => Some L.ErrQuantityZero
  end.

Lemma limit_Rate_IsValid_enc w rt : L.gen_IsValid w rt = (w, limit_err_enc (is_valid (rate_of rt))).
Proof.
  unfold L.gen_IsValid, is_valid, rate_of. cbn. rewrite of_N_eqb0.
  destruct (L.Rate_Interval rt <? 0)%Z; cbn; [reflexivity|].
  destruct (L.Rate_Interval rt =? 0)%Z; cbn; [reflexivity|].
  destruct (L.Rate_Quantity rt =? 0)%N; reflexivity.
Qed.

Lemma limit_isValid_raw w opts :
  L.gen_isValid w opts =
  (w, if is_nil (L.Opts_Input opts) then Some L.ErrInputEmpty else limit_err_enc (is_valid (rate_of (L.Opts_Limit opts)))).
Proof.
  unfold L.gen_isValid. cbn.
  destruct (is_nil (L.Opts_Input opts)); cbn; [reflexivity|]. now rewrite limit_Rate_IsValid_enc.
Qed.

(* ------------------------------------------------------------------ from the model side *)

Local Open Scope Z_scope.

(* model rate -> generated record (Quantity is a uint64: N), and back *)
Definition concL (r : RateConv.rate) : GenLimit.Rate := GenLimit.mk_Rate (ivl r) (Z.to_N (qty r)).
Definition absrL (g : GenLimit.Rate) : RateConv.rate := rate_of g.
Lemma concL_absrL g : concL (absrL g) = g.
Proof. destruct g as [i q]. unfold concL, absrL, rate_of; cbn. now rewrite N2Z.id. Qed.
Lemma absrL_concL r : 0 <= qty r -> absrL (concL r) = r.
Proof. destruct r as [i q]; unfold concL, absrL, rate_of; cbn; intros H. now rewrite Z2N.id. Qed.
(* the validation errors of the model as GenLimit constants; the other three do not exist in that unit *)
Definition convL (e : RateConv.err) : option GenLimit.err_Limit :=
  match e with
  | IntervalNegative => Some GenLimit.ErrIntervalNegative
  | IntervalZero => Some GenLimit.ErrIntervalZero
  | QuantityZero => Some GenLimit.ErrQuantityZero
  | _ => None
  end.
Definition imgL (o : option RateConv.err) : option GenLimit.err_Limit :=
  match o with None => None | Some e => convL e end.

Lemma Limit_IsValid_gen w r : 0 <= qty r -> GenLimit.gen_IsValid w (concL r) = (w, imgL (is_valid r)).
Proof.
  intros Hq. unfold GenLimit.gen_IsValid, is_valid, concL. cbn.
  destruct (ivl r <? 0); cbn; [reflexivity|].
  destruct (ivl r =? 0); cbn; [reflexivity|].
  rewrite to_N_eqb_0 by exact Hq.
  destruct (qty r =? 0); reflexivity.
Qed.

(* imgL loses nothing on the results of is_valid: an error of the model is an error of the code *)
Lemma imgL_is_valid r : imgL (is_valid r) = None <-> is_valid r = None.
Proof.
  split; [|intros ->; reflexivity].
  destruct (is_valid r) as [e|] eqn:Hv; [|reflexivity].
  destruct (is_valid_errors r e Hv) as [ -> | [ -> | -> ] ]; discriminate.
Qed.
(* the two encodings of the model's answer agree on the results of is_valid *)
Lemma imgL_limit_err_enc r : imgL (is_valid r) = limit_err_enc (is_valid r).
Proof.
  destruct (is_valid r) as [e|] eqn:Hv; [|reflexivity].
  destruct (is_valid_errors r e Hv) as [ -> | [ -> | -> ] ]; reflexivity.
Qed.

(* ==== main tie theorems ==== *)

(* Rate.IsValid = RateConv.is_valid (Quantity read as an integer), error for error *)
Theorem tie_limit_Rate_IsValid w rt :
  fst (L.gen_IsValid w rt) = w /\ limit_err_rel (snd (L.gen_IsValid w rt)) (is_valid (rate_of rt)).
Proof.
  rewrite limit_Rate_IsValid_enc. cbn [fst snd]. split; [reflexivity|].
  unfold is_valid. destruct (ivl (rate_of rt) <? 0)%Z; [constructor|].
  destruct (ivl (rate_of rt) =? 0)%Z; [constructor|].
  destruct (qty (rate_of rt) =? 0)%Z; constructor.
Qed.

(* Opts.isValid: the nil input is rejected first, everything else is Rate.IsValid of the limit *)
Theorem tie_limit_isValid w opts :
  fst (L.gen_isValid w opts) = w /\
  (L.Opts_Input opts = None -> snd (L.gen_isValid w opts) = Some L.ErrInputEmpty) /\
  (L.Opts_Input opts <> None -> limit_err_rel (snd (L.gen_isValid w opts)) (is_valid (rate_of (L.Opts_Limit opts)))) /\
  (snd (L.gen_isValid w opts) = None <->
   L.Opts_Input opts <> None /\ is_valid (rate_of (L.Opts_Limit opts)) = None).
Proof.
  rewrite limit_isValid_raw. cbn [fst snd].
  pose proof (proj2 (tie_limit_Rate_IsValid w (L.Opts_Limit opts))) as Hrel.
  rewrite limit_Rate_IsValid_enc in Hrel. cbn [snd] in Hrel.
  destruct (L.Opts_Input opts) as [u|]; cbn [is_nil].
  - split; [reflexivity|]. split; [discriminate|]. split; [intros _; exact Hrel|].
    split.
    + intros H. split; [discriminate|]. rewrite H in Hrel. now inversion Hrel.
    + intros [_ H]. now rewrite H.
  - split; [reflexivity|]. split; [reflexivity|]. split; [congruence|].
    split; [discriminate|]. intros [H _]. congruence.
Qed.

(* in numbers: accepted iff the input is not nil, the interval positive and the quantity not zero *)
Corollary tie_limit_isValid_accepts w opts :
  snd (L.gen_isValid w opts) = None <->
  L.Opts_Input opts <> None /\ (0 < L.Rate_Interval (L.Opts_Limit opts))%Z /\ L.Rate_Quantity (L.Opts_Limit opts) <> 0%N.
Proof.
  rewrite (proj2 (proj2 (proj2 (tie_limit_isValid w opts)))).
  unfold is_valid, rate_of. cbn [ivl qty]. rewrite of_N_eqb0.
  destruct (Z.ltb_spec (L.Rate_Interval (L.Opts_Limit opts)) 0);
    destruct (Z.eqb_spec (L.Rate_Interval (L.Opts_Limit opts)) 0);
    destruct (N.eqb_spec (L.Rate_Quantity (L.Opts_Limit opts)) 0);
    split; intros (H1 & H2); repeat split; try assumption; try discriminate; try lia; try tauto.
Qed.

(* the copy of Rate.IsValid in GenLimit.v = RateConv.is_valid (only the three validation errors exist there) *)
Theorem tie_Limit_IsValid w r m :
  in_range r m -> GenLimit.gen_IsValid w (concL r) = (w, imgL (is_valid r)).
Proof. intros (_ & (Hq & _) & _). now apply Limit_IsValid_gen. Qed.

(* limit.Opts.isValid: ErrInputEmpty for a nil input channel, else what Rate.IsValid says about Limit *)
Theorem tie_Limit_Opts_isValid w input r m :
  in_range r m ->
  GenLimit.gen_isValid w (GenLimit.mk_Opts input (concL r)) =
  (w, if is_nil input then Some GenLimit.ErrInputEmpty else imgL (is_valid r)).
Proof.
  intros H. unfold GenLimit.gen_isValid. cbn.
  destruct input as [u|]; cbn; [|reflexivity].
  rewrite (tie_Limit_IsValid w r m H). reflexivity.
Qed.

(* ---------------------------------------------------------------- examples: no theorem is vacuous --------------- *)

Example ex_limit_Rate_IsValid :
  limit_err_rel (snd (L.gen_IsValid 7 (L.mk_Rate 1000 0))) (is_valid {| ivl := 1000; qty := 0 |}) /\
  snd (L.gen_IsValid 7 (L.mk_Rate 1000 0)) = Some L.ErrQuantityZero /\
  snd (L.gen_IsValid 7 (L.mk_Rate (-1) 5)) = Some L.ErrIntervalNegative /\
  snd (L.gen_IsValid 7 (L.mk_Rate 0 5)) = Some L.ErrIntervalZero /\
  snd (L.gen_IsValid 7 (L.mk_Rate 1000 5)) = None.
Proof. split; [exact (proj2 (tie_limit_Rate_IsValid 7 (L.mk_Rate 1000 0)))|]. vm_compute. repeat split. Qed.
Example ex_limit_isValid :
  snd (L.gen_isValid 7 (L.mk_Opts (Some tt) (L.mk_Rate 1000 5))) = None /\
  snd (L.gen_isValid 7 (L.mk_Opts None (L.mk_Rate 1000 5))) = Some L.ErrInputEmpty /\
  limit_err_rel (snd (L.gen_isValid 7 (L.mk_Opts (Some tt) (L.mk_Rate 0 5)))) (Some IntervalZero).
Proof.
  split; [|split].
  - apply tie_limit_isValid_accepts. cbn. split; [discriminate|]. split; [lia|discriminate].
  - now apply (tie_limit_isValid 7 (L.mk_Opts None (L.mk_Rate 1000 5))).
  - apply (proj1 (proj2 (proj2 (tie_limit_isValid 7 (L.mk_Opts (Some tt) (L.mk_Rate 0 5)))))). discriminate.
Qed.

Definition i_range_dec (z : Z) : bool := (- 9223372036854775808 <=? z) && (z <? 9223372036854775808).
Lemma in_range_intro i q m :
  i_range_dec i && ((0 <=? q) && (q <=? max_u64)) && i_range_dec m = true -> in_range {| ivl := i; qty := q |} m.
Proof.
  unfold i_range_dec, in_range, max_i64, max_u64; cbn. rewrite !andb_true_iff, !Z.leb_le, !Z.ltb_lt. lia.
Qed.

(* instantiate a tie theorem, then evaluate the model side *)
Ltac by_tie t := etransitivity; [apply t; apply in_range_intro; reflexivity | vm_compute; reflexivity].
Ltac splits := repeat match goal with |- _ /\ _ => split end.

Example ex_Limit :
  GenLimit.gen_IsValid 7 (GenLimit.mk_Rate 0 5) = (7%nat, Some GenLimit.ErrIntervalZero) /\
  GenLimit.gen_isValid 7 (GenLimit.mk_Opts (Some tt) (GenLimit.mk_Rate 1000000000 0)) =
    (7%nat, Some GenLimit.ErrQuantityZero) /\
  GenLimit.gen_isValid 7 (GenLimit.mk_Opts None (GenLimit.mk_Rate 1000000000 5)) =
    (7%nat, Some GenLimit.ErrInputEmpty) /\
  GenLimit.gen_isValid 7 (GenLimit.mk_Opts (Some tt) (GenLimit.mk_Rate 1000000000 5)) = (7%nat, None).
Proof.
  splits.
  - by_tie (tie_Limit_IsValid 7 {| ivl := 0; qty := 5 |} 0).
  - by_tie (tie_Limit_Opts_isValid 7 (Some tt) {| ivl := 1000000000; qty := 0 |} 0).
  - by_tie (tie_Limit_Opts_isValid 7 None {| ivl := 1000000000; qty := 5 |} 0).
  - by_tie (tie_Limit_Opts_isValid 7 (Some tt) {| ivl := 1000000000; qty := 5 |} 0).
Qed.

(* ---------------------------------------------------------------- assumptions ------------------------------------ *)
Print Assumptions tie_limit_Rate_IsValid.
Print Assumptions tie_limit_isValid.
Print Assumptions tie_limit_isValid_accepts.
Print Assumptions tie_Limit_IsValid.
Print Assumptions tie_Limit_Opts_isValid.
