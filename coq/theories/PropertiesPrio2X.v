(* Property theorems: a priority alone in having data, within its share, gets every vacant handler without a release (C06); above its share it may have to wait for one (why the clause is stated and monitored "within its share"). *)
From Coq Require Import List NArith Bool. From Cqos Require Import Base Divider Sched Prio2 Prio2P Prio2L Prio2X. Import ListNotations. Open Scope N_scope.
Theorem C06_v2_alone_within_share :
  forall dv : nat -> Divider,
         (forall (k : nat) (ps : list N) (n : N) (d : dist), NoDup (keys d) -> NoDup (keys (dv k ps n d))) ->
         (forall (k : nat) (p n : N) (d : dist),
          NoDup (keys d) -> get (dv k [p] n d) p = get d p + n /\ sum (dv k [p] n d) = sum d + n) ->
         forall (s0 s : st) (p : N),
         InitL s0 ->
         reachable dv s0 s ->
         pcs s = Calc ->
         fbq s = [] ->
         H s < two64 ->
         In p (prios s) ->
         (forall q : N, q <> p -> get (actual s) q = 0) ->
         get (actual s) p <= get (strategic s) p ->
         (forall q : N, In q (prios s) -> q <> p -> inq s q = []) ->
         H s - get (actual s) p <= N.of_nat (length (inq s p)) ->
         exists (n : nat) (s' : st), iter_eager dv n s = Some s' /\ get (actual s') p = H s'.
Proof. exact @prio2_alone_within_share. Qed.
Print Assumptions C06_v2_alone_within_share.

Theorem C06_v2_alone_above_share_waits :
  exists (s0 s : st) (p : N),
           InitL s0 /\
           reachable fdv s0 s /\
           pcs s = Calc /\
           fbq s = [] /\
           H s < two64 /\
           In p (prios s) /\
           (forall q : N, q <> p -> get (actual s) q = 0) /\
           (forall q : N, In q (prios s) -> q <> p -> inq s q = []) /\
           H s - get (actual s) p <= N.of_nat (length (inq s p)) /\
           get (strategic s) p < get (actual s) p /\
           sum (actual s) < H s /\
           outq s = [] /\
           (exists s1 : st,
              eager_step fdv s = Some s1 /\
              pcs s1 = WaitFb /\
              fbq s1 = [] /\
              outq s1 = [] /\
              delivered s1 = delivered s /\
              sched_step fdv s1 = None /\ auto_step fdv s1 = None /\ eager_step fdv s1 = None) /\
           (forall (n : nat) (s' : st),
            iter_eager fdv n s = Some s' ->
            (n <= 1)%nat /\ delivered s' = delivered s /\ get (actual s') p < H s').
Proof. exact @prio2_alone_above_share_waits. Qed.
Print Assumptions C06_v2_alone_above_share_waits.

