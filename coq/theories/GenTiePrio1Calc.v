(* Tie lemmas, part 2 of 4: calcTactic and recalcTactic of the generated v1 priority discipline (GenV1Prio.v) versus
   Prio1.step_calc / Prio1.step_recalc.  Abstraction, hypotheses and helper ties: GenTiePrio1Base.v (read its header
   for the two representation differences of dsc.tactic).  Involves the Go functions calcTactic, recalcTactic (and,
   through GenTiePrio1Base, calcVacants, calcTacticByAddUpToStrategic, calcTacticBase, resetTactic, updateUncrowded,
   updateUseful, updateUsefulLikeUncrowded, isTacticFilled, safeDivide, (safe)calcDistributionQuantity). *)

From Coq Require Import List NArith ZArith Bool Lia Sorted.
From Cqos Require Import Base Divider DividerP Sched Prio1 GoSem GenV1Prio GenTiePrio1Base.
Import ListNotations.
Open Scope N_scope.

Section Steps.
Variable dv : nat -> Divider.
Variable g : divider_fn.
Hypothesis Hok : div_ok g dv.
Hypothesis dv_wf : forall k ps n d, NoDup (keys d) -> NoDup (keys (dv k ps n d)).

(* ---- the calcTactic / recalcTactic steps exactly as the code performs them (see the header comment) *)
Definition calc_base_code (s : st) (v : N) (tp : dist) : st :=
  let unc := uncrowded s in
  let s1 := log_call s unc v in
  match safe_divide (dv (ncalls s)) unc v (reset tp) with
  | inr e => with_tac s1 (dv (ncalls s) unc v (reset tp)) (Drain (Some (EDiv e)))
  | inl t => with_tac s1 t (if filled t unc then Prio P1 (prios s) 0 else WaitFb)
  end.

Definition step_calc_code (s : st) : st :=
  if Prio1.H s <? sum (actual s) then with_pc s (Drain (Some EQuantityExceeded)) else
  let v := Prio1.H s - sum (actual s) in
  if v =? 0 then with_pc s WaitFb else
  let tp := add_up_code (prios s) (actual s) (strategic s) (reset (tactic s)) in
  if add_up_ok (prios s) (actual s) (strategic s) && (add_up_sum (prios s) (actual s) (strategic s) =? v)
  then with_tac s tp (Prio P1 (prios s) 0)
  else calc_base_code s v tp.

Definition step_recalc_code (s : st) (proc : N) : st :=
  let rem := sum (tactic s) in
  let us := useful s in
  let s1 := log_call s us (Prio1.H s) in
  match safe_divide (dv (ncalls s)) us (Prio1.H s) (reset (tactic s)) with
  | inr e => with_tac s1 (dv (ncalls s) us (Prio1.H s) (reset (tactic s))) (Drain (Some (EDiv e)))
  | inl t1 =>
      let us' := useful_like s t1 in
      let s2 := log_call s1 us' rem in
      match safe_divide (dv (S (ncalls s))) us' rem (reset t1) with
      | inr e => with_tac s2 (dv (S (ncalls s)) us' rem (reset t1)) (Drain (Some (EDiv e)))
      | inl t2 => with_tac s2 t2 (if filled t2 us' then Prio P2 (prios s) proc else EndBase proc)
      end
  end.

Lemma calcTactic_code fr inp strat unc us s :
  mitems strat = strategic s -> NoDup (keys (tactic s)) ->
  sum (actual s) < u_modulus -> Prio1.H s < u_modulus ->
  sum_list (map (get (strategic s)) (prios s)) < u_modulus ->
  let s1 := step_calc_code s in
  gen_calcTactic (ncalls s) (absd fr g inp strat unc us s) =
  (ncalls s1, absd fr g inp strat (if Nat.eqb (ncalls s1) (ncalls s) then unc else uncrowded s) us s1, res_of_pc (pcs s1)).
Proof.
  intros Hst ND Hsa Hh Hb. unfold gen_calcTactic, step_calc_code, absd. cbn.
  rewrite (tie_calcVacants _ _ (actual s)) by (try reflexivity; assumption). cbn.
  destruct (Prio1.H s <? sum (actual s)) eqn:E1; cbn.
  { now rewrite Nat.eqb_refl. }
  destruct (Prio1.H s - sum (actual s) =? 0) eqn:E2; cbn.
  { now rewrite Nat.eqb_refl. }
  rewrite (tie_calcTacticByAddUpToStrategic _ _ _ (actual s) (tactic s) (strategic s))
    by (try reflexivity; assumption). cbn.
  destruct (add_up_ok (prios s) (actual s) (strategic s) &&
            (add_up_sum (prios s) (actual s) (strategic s) =? Prio1.H s - sum (actual s))) eqn:E3; cbn.
  { now rewrite Nat.eqb_refl. }
  set (tp := add_up_code (prios s) (actual s) (strategic s) (reset (tactic s))).
  rewrite (tie_calcTacticBase dv g Hok _ _ _ (actual s) tp (strategic s))
    by (try reflexivity; try assumption; apply add_up_code_nodup, nodup_keys_reset, ND).
  cbn. unfold calc_base_code. fold (uncrowded s).
  destruct (safe_divide (dv (ncalls s)) (uncrowded s) (Prio1.H s - sum (actual s)) (reset tp)) as [r|e] eqn:E4; cbn.
  - apply safe_divide_inl_eq in E4. subst r.
    pose proof (eqb_S_n (ncalls s)) as ES. cbn in ES. rewrite ES.
    unfold filled. destruct (forallb _ (uncrowded s)); reflexivity.
  - pose proof (eqb_S_n (ncalls s)) as ES. cbn in ES. rewrite ES. destruct e; reflexivity.
Qed.

Lemma recalcTactic_code fr inp strat unc us s proc :
  NoDup (keys (tactic s)) -> sum (tactic s) < u_modulus ->
  let s1 := step_recalc_code s proc in
  gen_recalcTactic (ncalls s) (absd fr g inp strat unc us s) =
  (ncalls s1,
   absd fr g inp strat unc
     (match safe_divide (dv (ncalls s)) (useful s) (Prio1.H s) (reset (tactic s)) with
      | inl t1 => useful_like s t1 | inr _ => useful s end) s1,
   res_of_pc (pcs s1)).
Proof.
  intros ND Hs. unfold gen_recalcTactic, step_recalc_code, absd. cbn.
  rewrite (tie_calcDistributionQuantity _ _ Hs). cbn.
  rewrite (tie_updateUseful _ _ (tactic s)) by reflexivity. cbn. fold (useful s).
  rewrite (tie_resetTactic _ _ (tactic s)) by (try reflexivity; assumption). cbn.
  rewrite (v1_safeDivide_tie dv g Hok) by (right; apply sum_reset). rewrite sum_reset, zero_ltb_modulus. cbn.
  destruct (safe_divide (dv (ncalls s)) (useful s) (Prio1.H s) (reset (tactic s))) as [t1|e] eqn:E1; cbn.
  2:{ destruct e; reflexivity. }
  apply safe_divide_inl_eq in E1.
  assert (ND1 : NoDup (keys t1)) by (subst t1; apply dv_wf, nodup_keys_reset, ND).
  rewrite <- E1.
  rewrite (tie_updateUsefulLikeUncrowded _ _ (actual s) t1) by reflexivity. cbn. fold (useful_like s t1).
  rewrite (tie_resetTactic _ _ t1) by (try reflexivity; assumption). cbn.
  rewrite (v1_safeDivide_tie dv g Hok) by (right; apply sum_reset). rewrite sum_reset, zero_ltb_modulus. cbn.
  destruct (safe_divide (dv (S (ncalls s))) (useful_like s t1) (sum (tactic s)) (reset t1)) as [t2|e] eqn:E2; cbn.
  2:{ destruct e; reflexivity. }
  apply safe_divide_inl_eq in E2. rewrite <- E2.
  rewrite (tie_isTacticFilled _ _ _ t2) by reflexivity.
  unfold filled. destruct (forallb _ (useful_like s t1)); reflexivity.
Qed.

(* ---- the code-shaped steps versus Prio1.step_calc / Prio1.step_recalc *)
Hypothesis dv_ext : forall k ps n a b, NoDup (keys a) -> NoDup (keys b) -> deq a b -> deq (dv k ps n a) (dv k ps n b).

Lemma add_up_code_reset ps : forall a st t, incl ps (keys t) -> reset (add_up_code ps a st t) = reset t.
Proof.
  induction ps as [|p r IH]; intros a st t Hin; cbn; [reflexivity|].
  destruct (get st p <? get a p); [reflexivity|].
  assert (Hp : In p (keys t)) by (apply Hin; now left).
  rewrite IH.
  - now apply reset_set_in.
  - rewrite keys_set_in by assumption. intros x Hx. apply Hin. now right.
Qed.

Lemma calc_base_code_spec s v tp :
  NoDup (keys (tactic s)) -> NoDup (keys tp) ->
  let s1 := calc_base_code s v tp in
  let s' := calc_base dv s v in
  s1 = with_tac s' (tactic s1) (pcs s') /\ NoDup (keys (tactic s1)) /\
  (is_div_err (pcs s') = false -> deq (tactic s1) (tactic s')) /\
  (is_div_err (pcs s') = false -> reset tp = reset (tactic s) -> s1 = s').
Proof.
  intros ND NDp. unfold calc_base_code, calc_base. cbv zeta.
  pose proof (safe_divide_deq dv dv_wf dv_ext (ncalls s) (uncrowded s) v (reset tp) (reset (tactic s))
                (nodup_keys_reset _ NDp) (nodup_keys_reset _ ND) (deq_reset _ _)) as Hsd.
  assert (Hdq : deq (dv (ncalls s) (uncrowded s) v (reset tp)) (dv (ncalls s) (uncrowded s) v (reset (tactic s))))
    by (apply dv_ext; auto using nodup_keys_reset, deq_reset).
  assert (NDr : NoDup (keys (dv (ncalls s) (uncrowded s) v (reset tp)))) by auto using dv_wf, nodup_keys_reset.
  destruct (safe_divide (dv (ncalls s)) (uncrowded s) v (reset tp)) as [r1|e1] eqn:E1;
    destruct (safe_divide (dv (ncalls s)) (uncrowded s) v (reset (tactic s))) as [r2|e2] eqn:E2; try contradiction.
  - apply safe_divide_inl_eq in E1, E2. subst r1 r2.
    rewrite (filled_deq _ _ (uncrowded s) Hdq).
    repeat split; auto.
    intros _ Er. rewrite Er. reflexivity.
  - subst e2. repeat split; auto; cbn; intros; discriminate.
Qed.

Lemma step_calc_code_spec s :
  NoDup (keys (tactic s)) ->
  let s1 := step_calc_code s in
  let s' := step_calc dv s in
  s1 = with_tac s' (tactic s1) (pcs s') /\ NoDup (keys (tactic s1)) /\
  (is_div_err (pcs s') = false -> deq (tactic s1) (tactic s')) /\
  (is_div_err (pcs s') = false -> incl (prios s) (keys (tactic s)) -> s1 = s').
Proof.
  intros ND. unfold step_calc_code, step_calc. cbv zeta. rewrite add_up_spec.
  destruct (Prio1.H s <? sum (actual s)).
  { repeat split; auto using deq_refl. }
  destruct (Prio1.H s - sum (actual s) =? 0).
  { repeat split; auto using deq_refl. }
  set (tp := add_up_code (prios s) (actual s) (strategic s) (reset (tactic s))).
  assert (NDp : NoDup (keys tp)) by (apply add_up_code_nodup, nodup_keys_reset, ND).
  assert (Hx : incl (prios s) (keys (tactic s)) -> reset tp = reset (tactic s)).
  { intros Hin. unfold tp. rewrite add_up_code_reset, reset_reset; [reflexivity|]. now rewrite keys_reset. }
  pose proof (calc_base_code_spec s (Prio1.H s - sum (actual s)) tp ND NDp) as (B1 & B2 & B3 & B4).
  destruct (add_up_ok (prios s) (actual s) (strategic s)); cbn [andb].
  - rewrite N.add_0_l. destruct (_ =? _).
    + repeat split; auto using deq_refl.
    + repeat split; auto.
  - repeat split; auto.
Qed.

Lemma step_recalc_code_spec s proc :
  let s1 := step_recalc_code s proc in
  let s' := step_recalc dv s proc in
  s1 = with_tac s' (tactic s1) (pcs s') /\ (is_div_err (pcs s') = false -> s1 = s').
Proof.
  unfold step_recalc_code, step_recalc. cbv zeta.
  destruct (safe_divide (dv (ncalls s)) (useful s) (Prio1.H s) (reset (tactic s))) as [t1|e1].
  - destruct (safe_divide (dv (S (ncalls s))) (useful_like s t1) (sum (tactic s)) (reset t1)) as [t2|e2].
    + split; reflexivity.
    + split; [reflexivity|cbn; discriminate].
  - split; [reflexivity|cbn; discriminate].
Qed.

End Steps.

(* ==== main tie theorems ==== *)
Section Main.
Variable dv : nat -> Divider.                 (* the model divider, indexed by the number of the call *)
Variable g : divider_fn.                      (* the function value stored in dsc.opts.Divider *)
Hypothesis Hok : div_ok g dv.
Hypothesis dv_wf : forall k ps n d, NoDup (keys d) -> NoDup (keys (dv k ps n d)).
Hypothesis dv_ext : forall k ps n a b, NoDup (keys a) -> NoDup (keys b) -> deq a b -> deq (dv k ps n a) (dv k ps n b).

(* calcTactic = Prio1.step_calc: same result / next pc, same number of divider calls, dsc.uncrowded = uncrowded s when
   the divider was called, and a tactic t' that agrees with the model's under `get` (equal to it when every listed
   priority already has a tactic entry); after a divider error the code's tactic is the divider's output *)
Theorem tie_v1_calcTactic fr inp strat unc us s :
  mitems strat = strategic s -> NoDup (keys (tactic s)) ->
  sum (actual s) < u_modulus -> Prio1.H s < u_modulus ->
  sum_list (map (get (strategic s)) (prios s)) < u_modulus ->
  let s' := step_calc dv s in
  exists t' unc',
    gen_calcTactic (ncalls s) (absd fr g inp strat unc us s) =
      (ncalls s', absd fr g inp strat unc' us (with_tac s' t' (pcs s')), res_of_pc (pcs s'))
    /\ unc' = (if Nat.eqb (ncalls s') (ncalls s) then unc else uncrowded s)
    /\ NoDup (keys t')
    /\ (is_div_err (pcs s') = false -> deq t' (tactic s'))
    /\ (is_div_err (pcs s') = false -> incl (prios s) (keys (tactic s)) -> t' = tactic s').
Proof.
  intros Hst ND Hsa Hh Hb s'.
  pose proof (calcTactic_code dv g Hok fr inp strat unc us s Hst ND Hsa Hh Hb) as Hgen. cbv zeta in Hgen.
  pose proof (step_calc_code_spec dv dv_wf dv_ext s ND) as (E & NDt & Hdeq & Hex). fold s' in E, Hdeq, Hex.
  set (s1 := step_calc_code dv s) in *.
  assert (En : ncalls s1 = ncalls s') by (rewrite E; reflexivity).
  assert (Ep : pcs s1 = pcs s') by (rewrite E; reflexivity).
  exists (tactic s1), (if Nat.eqb (ncalls s') (ncalls s) then unc else uncrowded s).
  rewrite Hgen, En, Ep. rewrite E at 1. repeat split; auto.
  intros Hne Hin. now rewrite (Hex Hne Hin).
Qed.

(* recalcTactic = Prio1.step_recalc, exactly (two checked divider calls, dsc.useful = useful_like s t1 after the
   first); after a divider error the code's tactic is the divider's output *)
Theorem tie_v1_recalcTactic fr inp strat unc us s proc :
  NoDup (keys (tactic s)) -> sum (tactic s) < u_modulus ->
  let s' := step_recalc dv s proc in
  exists t' us',
    gen_recalcTactic (ncalls s) (absd fr g inp strat unc us s) =
      (ncalls s', absd fr g inp strat unc us' (with_tac s' t' (pcs s')), res_of_pc (pcs s'))
    /\ us' = (match safe_divide (dv (ncalls s)) (useful s) (Prio1.H s) (reset (tactic s)) with
              | inl t1 => useful_like s t1 | inr _ => useful s end)
    /\ (is_div_err (pcs s') = false -> t' = tactic s').
Proof.
  intros ND Hs s'.
  pose proof (recalcTactic_code dv g Hok dv_wf fr inp strat unc us s proc ND Hs) as Hgen. cbv zeta in Hgen.
  pose proof (step_recalc_code_spec dv s proc) as (E & Hex). fold s' in E, Hex.
  set (s1 := step_recalc_code dv s proc) in *.
  assert (En : ncalls s1 = ncalls s') by (rewrite E; reflexivity).
  assert (Ep : pcs s1 = pcs s') by (rewrite E; reflexivity).
  eexists (tactic s1), _.
  rewrite Hgen, En, Ep. rewrite E at 1. repeat split.
  intros Hne. now rewrite (Hex Hne).
Qed.

(* calcTactic / recalcTactic as a simulation: the code state may carry other representations of the maps actual and
   tactic than the model state (st_deq: same `get`, unique keys) -- that is what calcTactic and clearActual produce --
   and the step keeps that relation (unless the divider fails: then the discipline stops and dsc.tactic is dead) *)
Theorem tie_v1_calcTactic_sim fr inp strat unc us s1 s :
  st_deq s1 s -> NoDup (keys (actual s)) -> NoDup (keys (tactic s)) ->
  mitems strat = strategic s ->
  sum (actual s) < u_modulus -> Prio1.H s < u_modulus ->
  sum_list (map (get (strategic s)) (prios s)) < u_modulus ->
  let s' := step_calc dv s in
  exists s1' unc',
    gen_calcTactic (ncalls s) (absd fr g inp strat unc us s1) = (ncalls s', absd fr g inp strat unc' us s1', res_of_pc (pcs s'))
    /\ (is_div_err (pcs s') = false -> st_deq s1' s').
Proof.
  intros Hd N1 N2 Hst Hsa Hh Hb s'.
  destruct (st_deq_proj _ _ Hd) as (EH & EP & ES & EN & EC & Ea & Et & Na & Nt).
  pose proof (step_calc_deq dv dv_wf dv_ext s1 s N1 N2 Hd) as Hstep. fold s' in Hstep.
  destruct (st_deq_proj _ _ Hstep) as (_ & _ & _ & EN' & EC' & _).
  destruct (tie_v1_calcTactic fr inp strat unc us s1) as (t' & unc' & Hgen & _ & Nt' & Hdq & _).
  - now rewrite ES.
  - exact Nt.
  - now rewrite (sum_deq _ _ Na N1 Ea).
  - now rewrite EH.
  - now rewrite ES, EP.
  - rewrite EN, EN', EC' in Hgen. fold s' in Hgen.
    exists (with_tac (step_calc dv s1) t' (pcs (step_calc dv s1))), unc'.
    rewrite EC'. split; [exact Hgen|].
    intros Hne. rewrite <- EC'. apply st_deq_with_tac; auto. apply Hdq. now rewrite EC'.
Qed.

Theorem tie_v1_recalcTactic_sim fr inp strat unc us s1 s proc :
  st_deq s1 s -> NoDup (keys (actual s)) -> NoDup (keys (tactic s)) ->
  sum (tactic s) < u_modulus ->
  let s' := step_recalc dv s proc in
  exists s1' us',
    gen_recalcTactic (ncalls s) (absd fr g inp strat unc us s1) = (ncalls s', absd fr g inp strat unc us' s1', res_of_pc (pcs s'))
    /\ (is_div_err (pcs s') = false -> st_deq s1' s').
Proof.
  intros Hd N1 N2 Hs s'.
  destruct (st_deq_proj _ _ Hd) as (EH & EP & ES & EN & EC & Ea & Et & Na & Nt).
  pose proof (step_recalc_deq dv dv_wf dv_ext s1 s proc N1 N2 Hd) as Hstep. fold s' in Hstep.
  destruct (st_deq_proj _ _ Hstep) as (_ & _ & _ & EN' & EC' & _ & _ & _ & Nt1).
  destruct (tie_v1_recalcTactic fr inp strat unc us s1 proc) as (t' & us' & Hgen & _ & Hex).
  - exact Nt.
  - now rewrite (sum_deq _ _ Nt N2 Et).
  - rewrite EN, EN', EC' in Hgen. fold s' in Hgen.
    exists (with_tac (step_recalc dv s1 proc) t' (pcs (step_recalc dv s1 proc))), us'.
    rewrite EC'. split; [exact Hgen|].
    intros Hne. rewrite <- EC'. apply st_deq_with_tac; auto.
    + rewrite Hex by (now rewrite EC'). apply deq_refl.
    + rewrite Hex by (now rewrite EC'). exact Nt1.
Qed.

End Main.

(* ------------------------------------------------------------------ examples: no theorem is vacuous (state ex_st of GenTiePrio1Base: 6 handlers, priorities 3 2 1, fair divider) *)

(* calcTactic, add-up branch: one item of priority 2 in flight: the strategic shares are topped up, no divider call *)
Example ex_calcTactic_addup :
  gen_calcTactic 1 (ex_abs ex_s1) = (1%nat, ex_abs (step_calc ex_dv ex_s1), (true, None))
  /\ tactic (step_calc ex_dv ex_s1) = [(3, 2); (2, 1); (1, 2)] /\ pcs (step_calc ex_dv ex_s1) = Prio P1 [3; 2; 1] 0.
Proof. vm_compute. repeat split. Qed.

(* calcTactic, divider branch: three items of priority 2 in flight (more than its share): 3 vacants go to 3 and 1 *)
Example ex_calcTactic_base :
  gen_calcTactic 1 (ex_abs ex_s2) =
    (2%nat, absd ex_frame ex_g (Some ex_inp) (Some (strategic ex_s2)) [3; 1] [] (step_calc ex_dv ex_s2), (true, None))
  /\ tactic (step_calc ex_dv ex_s2) = [(3, 2); (2, 0); (1, 1)] /\ ncalls (step_calc ex_dv ex_s2) = 2%nat.
Proof. vm_compute. repeat split. Qed.

Example ex_calcTactic_thm :
  exists t' unc',
    gen_calcTactic (ncalls ex_s2) (ex_abs ex_s2) =
      (ncalls (step_calc ex_dv ex_s2),
       absd ex_frame ex_g (Some ex_inp) (Some (strategic ex_s2)) unc' [] (with_tac (step_calc ex_dv ex_s2) t' (pcs (step_calc ex_dv ex_s2))),
       res_of_pc (pcs (step_calc ex_dv ex_s2)))
    /\ unc' = (if Nat.eqb (ncalls (step_calc ex_dv ex_s2)) (ncalls ex_s2) then [] else uncrowded ex_s2)
    /\ NoDup (keys t')
    /\ (is_div_err (pcs (step_calc ex_dv ex_s2)) = false -> deq t' (tactic (step_calc ex_dv ex_s2)))
    /\ (is_div_err (pcs (step_calc ex_dv ex_s2)) = false -> incl (prios ex_s2) (keys (tactic ex_s2)) ->
        t' = tactic (step_calc ex_dv ex_s2)).
Proof.
  apply (tie_v1_calcTactic ex_dv ex_g div_ok_fair ex_wf ex_ext); [reflexivity|nodup_tac|reflexivity..].
Qed.

(* recalcTactic: priority 3 used its tactic up (2 in flight), 2 and 1 have 3 left: the 3 are offered to priority 3 *)
Example ex_recalcTactic :
  gen_recalcTactic 1 (ex_abs ex_s3) =
    (3%nat, absd ex_frame ex_g (Some ex_inp) (Some (strategic ex_s3)) [] [3] (step_recalc ex_dv ex_s3 2), (true, None))
  /\ tactic (step_recalc ex_dv ex_s3 2) = [(3, 3); (2, 0); (1, 0)] /\ pcs (step_recalc ex_dv ex_s3 2) = Prio P2 [3; 2; 1] 2.
Proof. vm_compute. repeat split. Qed.

Example ex_recalcTactic_thm :
  exists t' us',
    gen_recalcTactic (ncalls ex_s3) (ex_abs ex_s3) =
      (ncalls (step_recalc ex_dv ex_s3 2),
       absd ex_frame ex_g (Some ex_inp) (Some (strategic ex_s3)) [] us'
            (with_tac (step_recalc ex_dv ex_s3 2) t' (pcs (step_recalc ex_dv ex_s3 2))),
       res_of_pc (pcs (step_recalc ex_dv ex_s3 2)))
    /\ us' = (match safe_divide (ex_dv (ncalls ex_s3)) (useful ex_s3) (Prio1.H ex_s3) (reset (tactic ex_s3)) with
              | inl t1 => useful_like ex_s3 t1 | inr _ => useful ex_s3 end)
    /\ (is_div_err (pcs (step_recalc ex_dv ex_s3 2)) = false -> t' = tactic (step_recalc ex_dv ex_s3 2)).
Proof. apply (tie_v1_recalcTactic ex_dv ex_g div_ok_fair ex_wf); [nodup_tac|reflexivity]. Qed.

(* the simulation forms, on a code state whose maps carry extra zero entries (as clearActual / calcTactic leave them) *)
Definition ex_s2' : st := ex_st [(2, 3); (8, 0)] [(3, 0); (2, 0); (1, 0); (9, 0)] Calc.

Lemma ex_s2_deq : st_deq ex_s2' ex_s2.
Proof.
  exists [(2, 3); (8, 0)], [(3, 0); (2, 0); (1, 0); (9, 0)]. repeat split; try nodup_tac.
  - intros k. cbn. destruct (k =? 2); [reflexivity|]. destruct (k =? 8); reflexivity.
  - intros k. cbn. destruct (k =? 3); [reflexivity|]. destruct (k =? 2); [reflexivity|].
    destruct (k =? 1); [reflexivity|]. destruct (k =? 9); reflexivity.
Qed.

Example ex_calcTactic_sim :
  exists s1' unc',
    gen_calcTactic (ncalls ex_s2) (absd ex_frame ex_g (Some ex_inp) (Some (strategic ex_s2)) [] [] ex_s2') =
      (ncalls (step_calc ex_dv ex_s2), absd ex_frame ex_g (Some ex_inp) (Some (strategic ex_s2)) unc' [] s1',
       res_of_pc (pcs (step_calc ex_dv ex_s2)))
    /\ (is_div_err (pcs (step_calc ex_dv ex_s2)) = false -> st_deq s1' (step_calc ex_dv ex_s2)).
Proof.
  apply (tie_v1_calcTactic_sim ex_dv ex_g div_ok_fair ex_wf ex_ext);
    [apply ex_s2_deq|nodup_tac|nodup_tac|reflexivity..].
Qed.

Definition ex_s3' : st := ex_st [(3, 2); (8, 0)] [(3, 0); (2, 1); (1, 2); (9, 0)] (Recalc 2).

Lemma ex_s3_deq : st_deq ex_s3' ex_s3.
Proof.
  exists [(3, 2); (8, 0)], [(3, 0); (2, 1); (1, 2); (9, 0)]. repeat split; try nodup_tac.
  - intros k. cbn. destruct (k =? 3); [reflexivity|]. destruct (k =? 8); reflexivity.
  - intros k. cbn. destruct (k =? 3); [reflexivity|]. destruct (k =? 2); [reflexivity|].
    destruct (k =? 1); [reflexivity|]. destruct (k =? 9); reflexivity.
Qed.

Example ex_recalcTactic_sim :
  exists s1' us',
    gen_recalcTactic (ncalls ex_s3) (absd ex_frame ex_g (Some ex_inp) (Some (strategic ex_s3)) [] [] ex_s3') =
      (ncalls (step_recalc ex_dv ex_s3 2), absd ex_frame ex_g (Some ex_inp) (Some (strategic ex_s3)) [] us' s1',
       res_of_pc (pcs (step_recalc ex_dv ex_s3 2)))
    /\ (is_div_err (pcs (step_recalc ex_dv ex_s3 2)) = false -> st_deq s1' (step_recalc ex_dv ex_s3 2)).
Proof.
  apply (tie_v1_recalcTactic_sim ex_dv ex_g div_ok_fair ex_wf ex_ext);
    [apply ex_s3_deq|nodup_tac|nodup_tac|reflexivity].
Qed.

(* ------------------------------------------------------------------ where code and model differ (see the header of GenTiePrio1Base.v) *)

(* (1) representation of dsc.tactic after calcTactic.  Priority 3 was removed and added again while two of its items
   are in flight (its tactic key is gone, actual[3] = strategic[3] = 2); priority 1 has 3 in flight against a share of 2.
   calcTacticByAddUpToStrategic writes tactic[3] = 0 before it gives up at priority 1, so the code's map has the extra
   zero entry (3, 0) that the model's lacks.  Same result, same `get`. *)
Definition dg_s : st := ex_st [(3, 2); (1, 3)] [(2, 0); (1, 0)] Calc.

Example disagree_tactic_keys :
  (let '(w, d, r) := gen_calcTactic 1 (ex_abs dg_s) in (w, Discipline_tactic d, Discipline_uncrowded d, r))
    = (2%nat, Some [(2, 1); (1, 0); (3, 0)], [2], (true, None))
  /\ (let s' := step_calc ex_dv dg_s in (ncalls s', tactic s', uncrowded dg_s, pcs s'))
    = (2%nat, [(2, 1); (1, 0)], [2], Prio P1 [3; 2; 1] 0).
Proof. vm_compute. split; reflexivity. Qed.

(* (2) after ErrDividerBad the code keeps the divider's output in dsc.tactic, the model resets it *)
Definition bad_dv : nat -> Divider := fun _ ps d m => add m 7 (d + 1).

Example disagree_error_tactic :
  (let '(w, d, r) := gen_calcTactic 1 (absd ex_frame (v1_divfn bad_dv) (Some ex_inp) (Some (strategic ex_s2)) [] [] ex_s2) in
   (w, Discipline_tactic d, r))
    = (2%nat, Some [(3, 0); (2, 0); (1, 0); (7, 4)], (false, Some ErrDividerBad))
  /\ (let s' := step_calc bad_dv ex_s2 in (ncalls s', tactic s', pcs s'))
    = (2%nat, [(3, 0); (2, 0); (1, 0)], Drain (Some (EDiv DividerBad))).
Proof. vm_compute. split; reflexivity. Qed.

Print Assumptions tie_v1_calcTactic.
Print Assumptions tie_v1_recalcTactic.
Print Assumptions tie_v1_calcTactic_sim.
Print Assumptions tie_v1_recalcTactic_sim.
Print Assumptions ex_calcTactic_thm.
Print Assumptions ex_calcTactic_sim.
Print Assumptions disagree_tactic_keys.
