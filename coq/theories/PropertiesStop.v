(* Property theorems: every blocking point of the v1 library goroutines has a stop alternative, checked on facts translated from the current Go sources (BlockFacts.v, regenerated on every run); no unexported function name is mentioned: goroutine entries are derived from the constructors. *)
From Coq Require Import List String Bool. From Cqos Require Import BlockTypes BlockFacts StopAlts. Import ListNotations. Open Scope string_scope.
Theorem C16_v1_priority_stoppable :
  exists (p : package) (e : string), find_pkg facts "priority" = Some p /\ priority_statement p e.
Proof. exact @v1_priority_stoppable_prop. Qed.
Print Assumptions C16_v1_priority_stoppable.

Theorem C16_v1_join_stoppable :
  exists (p : package) (e : string), find_pkg facts "join" = Some p /\ join_statement p e.
Proof. exact @v1_join_stoppable_prop. Qed.
Print Assumptions C16_v1_join_stoppable.

Theorem C16_v1_simple_stoppable :
  exists (p : package) (m : string), find_pkg facts "priority" = Some p /\ simple_statement p m.
Proof. exact @v1_simple_stoppable_prop. Qed.
Print Assumptions C16_v1_simple_stoppable.

Theorem C16_stoppable_check_sound :
  forall (p : package) (entry : string) (alts : list string) (exc : exceptions),
         check_entry p entry alts exc = true -> entry_stoppable p entry alts exc.
Proof. exact @check_entry_sound. Qed.
Print Assumptions C16_stoppable_check_sound.

Theorem C16_goroutine_closure_sound :
  forall (p : package) (gs : list string) (a : string),
         In a gs ->
         forallb (reach_ok p) gs = true -> gos_within p gs = true -> forall g : string, spawns p a g -> In g gs.
Proof. exact @gos_within_sound. Qed.
Print Assumptions C16_goroutine_closure_sound.

