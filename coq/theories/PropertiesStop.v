(* Property theorems: every blocking point of the v1 library goroutines has a stop alternative, checked on facts translated from the current Go sources (BlockFacts.v, regenerated on every run). *)
From Coq Require Import List String Bool. From Cqos Require Import BlockTypes BlockFacts StopAlts. Import ListNotations. Open Scope string_scope.
Theorem C16_v1_priority_stoppable :
  exists p : package,
           find_pkg facts "priority" = Some p /\
           entry_stoppable p "Discipline.main" prio_alts prio_exceptions /\
           (forall (f : func) (o : op),
            In f (pkg_funcs p) ->
            In (fn_name f) (reachable p "Discipline.main") ->
            In o (fn_ops f) -> stoppable prio_alts o \/ In (fn_name f, o) prio_exceptions).
Proof. exact @v1_priority_stoppable_prop. Qed.
Print Assumptions C16_v1_priority_stoppable.

Theorem C16_v1_join_stoppable :
  exists p : package,
           find_pkg facts "join" = Some p /\
           entry_stoppable p "Discipline.main" join_alts join_exceptions /\
           (forall (f : func) (o : op),
            In f (pkg_funcs p) ->
            In (fn_name f) (reachable p "Discipline.main") ->
            In o (fn_ops f) -> stoppable join_alts o \/ In (fn_name f, o) join_exceptions).
Proof. exact @v1_join_stoppable_prop. Qed.
Print Assumptions C16_v1_join_stoppable.

Theorem C16_v1_simple_stoppable :
  exists p : package, find_pkg facts "priority" = Some p /\ simple_statement p.
Proof. exact @v1_simple_stoppable_prop. Qed.
Print Assumptions C16_v1_simple_stoppable.

Theorem C16_stoppable_check_sound :
  forall (p : package) (entry : string) (alts : list string) (exc : exceptions),
         check_entry p entry alts exc = true -> entry_stoppable p entry alts exc.
Proof. exact @check_entry_sound. Qed.
Print Assumptions C16_stoppable_check_sound.

