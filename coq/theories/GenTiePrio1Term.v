(* Tie lemmas, part 3 of 4: the bookkeeping methods of the generated v1 priority discipline (GenV1Prio.v) versus Prio1.v:
   isZeroActual, isDrainedInputs, markInputAsDrained, increaseActual, decreaseActual, decreaseTactic (and the pair that
   send() performs), clearActual (with its callee isInputExists).  Abstraction: GenTiePrio1Base.v. *)

From Coq Require Import List NArith ZArith Bool Lia Sorted.
From Cqos Require Import Base Divider DividerP Sched Prio1 GoSem GenV1Prio GenTiePrio1Base.
Import ListNotations.
Open Scope N_scope.

(* ------------------------------------------------------------------ isZeroActual, isDrainedInputs *)

Definition isZeroActual_obs (c : ctl isZeroActual_vars bool) : option (nat * Discipline * option bool) :=
  match c with
  | Next v => Some (isZeroActual_w v, isZeroActual_dsc v, None)
  | Ret v r => Some (isZeroActual_w v, isZeroActual_dsc v, Some r)
  | _ => None
  end.

Lemma isZeroActual_loop (l : dist) : forall d q w,
  isZeroActual_obs (range_loop gen_isZeroActual_loop1 l (mk_isZeroActual_vars d q w)) =
  Some (w, d, if sum l =? 0 then None else Some false).
Proof.
  induction l as [|[k v] r IH]; intros d q w; cbn; [reflexivity|].
  destruct (N.eqb_spec v 0) as [->|Hne]; cbn.
  - apply IH.
  - destruct (N.eqb_spec (v + sum r) 0); [lia|reflexivity].
Qed.

Lemma tie_isZeroActual w d a :
  Discipline_actual d = Some a -> gen_isZeroActual w d = (w, d, sum a =? 0).
Proof.
  intros Ha. unfold gen_isZeroActual. cbn. rewrite Ha. cbn.
  pose proof (isZeroActual_loop a d 0 w) as E.
  destruct (range_loop _ _ _) as [v|v r|v|v|v]; cbn in *; try discriminate;
    destruct (sum a =? 0); now inversion E.
Qed.

Definition isDrainedInputs_obs (c : ctl isDrainedInputs_vars bool) : option (nat * Discipline * option bool) :=
  match c with
  | Next v => Some (isDrainedInputs_w v, isDrainedInputs_dsc v, None)
  | Ret v r => Some (isDrainedInputs_w v, isDrainedInputs_dsc v, Some r)
  | _ => None
  end.

Lemma isDrainedInputs_loop (l : list (N * Input)) : forall d i w,
  isDrainedInputs_obs (range_loop gen_isDrainedInputs_loop1 l (mk_isDrainedInputs_vars d i w)) =
  Some (w, d, if forallb (fun kv => Input_Drained (snd kv)) l then None else Some false).
Proof.
  induction l as [|[k v] r IH]; intros d i w; cbn; [reflexivity|].
  destruct (Input_Drained v); cbn; [apply IH|reflexivity].
Qed.

Lemma tie_isDrainedInputs w d :
  gen_isDrainedInputs w d = (w, d, forallb (fun kv => Input_Drained (snd kv)) (mitems (Discipline_inputs d))).
Proof.
  unfold gen_isDrainedInputs. cbn.
  pose proof (isDrainedInputs_loop (mitems (Discipline_inputs d)) d zero_Input w) as E.
  destruct (range_loop _ _ _) as [v|v r|v|v|v]; cbn in *; try discriminate;
    destruct (forallb _ _); now inversion E.
Qed.

Lemma drained_inputs_rel s inp :
  inputs_rel s inp -> (forall p, In p (prios s) <-> chan_of s p <> None) ->
  forallb (fun kv => Input_Drained (snd kv)) inp = forallb (drained s) (prios s).
Proof.
  intros [ND Hr] Hc. apply eq_true_iff_eq. rewrite !forallb_forall. split.
  - intros Hall p Hp. apply Hc in Hp. apply (Hr p) in Hp. pose proof Hp as Hp2.
    apply ahas_in, in_map_iff in Hp. destruct Hp as [[k i] [E Hin]]. cbn in E. subst k.
    destruct (Hr p) as [_ Hd]. rewrite <- (Hd Hp2). rewrite (aget_in_nodup _ _ _ _ ND Hin). exact (Hall _ Hin).
  - intros Hall [k i] Hin. cbn.
    assert (Hh : ahas inp k = true) by (apply ahas_in, in_map_iff; exists (k, i); auto).
    destruct (Hr k) as [Hk Hd]. rewrite <- (aget_in_nodup zero_Input _ _ _ ND Hin). rewrite (Hd Hh).
    apply Hall, Hc, Hk, Hh.
Qed.

(* ------------------------------------------------------------------ clearActual: invisible through `get` *)

Lemma clearActual_isInputExists w d p : gen_isInputExists w d p = (w, d, mhas (Discipline_inputs d) p).
Proof. reflexivity. Qed.

Definition kept_actual (im : gmap Input) (kv : N * N) : bool := negb ((snd kv =? 0) && negb (mhas im (fst kv))).

Lemma adel_notin (l : dist) k : ~ In k (keys l) -> adel l k = l.
Proof.
  unfold adel. induction l as [|[k' v] r IH]; cbn [keys In filter fst]; intros Hn; [reflexivity|].
  destruct (N.eqb_spec k' k) as [->|Hne]; [tauto|]. cbn [negb]. rewrite IH; tauto.
Qed.

Lemma in_keys_filter (f : N * N -> bool) (l : dist) k : In k (keys (filter f l)) -> In k (keys l).
Proof.
  induction l as [|[k' v] r IH]; cbn [filter keys In]; [tauto|].
  destruct (f (k', v)); cbn [keys In]; tauto.
Qed.

Lemma nodup_keys_filter (f : N * N -> bool) (l : dist) : NoDup (keys l) -> NoDup (keys (filter f l)).
Proof.
  induction l as [|[k v] r IH]; cbn [filter keys]; intros ND; [constructor|].
  inversion ND as [|? ? Hk NDr]; subst. destruct (f (k, v)); cbn [keys]; auto.
  constructor; auto. intros Hin. apply Hk. eapply in_keys_filter; eauto.
Qed.

Lemma deq_filter_zero (f : N * N -> bool) (l : dist) :
  NoDup (keys l) -> (forall kv, In kv l -> f kv = false -> snd kv = 0) -> deq (filter f l) l.
Proof.
  induction l as [|[k v] r IH]; cbn [filter keys]; intros ND Hz; [apply deq_refl|].
  inversion ND as [|? ? Hk NDr]; subst.
  assert (IH' : deq (filter f r) r) by (apply IH; auto; intros kv Hin; apply Hz; now right).
  destruct (f (k, v)) eqn:Ef; intros x; cbn [get].
  - now rewrite IH'.
  - pose proof (Hz (k, v) (or_introl eq_refl) Ef) as Hv. cbn in Hv. subst v.
    destruct (N.eqb_spec x k) as [->|Hne]; [|apply IH'].
    apply get_notin. intros Hin. apply Hk. eapply in_keys_filter; eauto.
Qed.

#[global] Arguments kept_actual : simpl never.
Lemma kept_actual_zero im k : kept_actual im (k, 0) = mhas im k.
Proof. unfold kept_actual. cbn. now rewrite negb_involutive. Qed.

Lemma kept_actual_pos im k v : v <> 0 -> kept_actual im (k, v) = true.
Proof. intros Hv. unfold kept_actual. cbn. now destruct (N.eqb_spec v 0). Qed.

Lemma filter_kept_snoc im l1 kv :
  filter (kept_actual im) (l1 ++ [kv]) = filter (kept_actual im) l1 ++ (if kept_actual im kv then [kv] else []).
Proof. rewrite filter_app. reflexivity. Qed.

Lemma clearActual_loop im l2 : forall l1 d p0 q0 w,
  NoDup (keys (l1 ++ l2)) -> Discipline_inputs d = im ->
  Discipline_actual d = Some (filter (kept_actual im) l1 ++ l2) ->
  exists p' q', range_loop gen_clearActual_loop1 l2 (mk_clearActual_vars d p0 q0 w) =
    Next (mk_clearActual_vars (set_Discipline_actual (Some (filter (kept_actual im) (l1 ++ l2))) d) p' q' w).
Proof.
  induction l2 as [|[k v] r IH]; intros l1 d p0 q0 w ND Hi Ha.
  - exists p0, q0. destruct d; cbn in *; subst. now rewrite !app_nil_r.
  - destruct d; cbn in Hi, Ha; subst. cbn.
    assert (Hk1 : ~ In k (keys (filter (kept_actual im) l1))).
    { rewrite keys_app in ND. apply NoDup_remove_2 in ND. intros Hin. apply ND, in_or_app. left.
      eapply in_keys_filter; eauto. }
    assert (Hk2 : ~ In k (keys r)).
    { rewrite keys_app in ND. apply NoDup_remove_2 in ND. intros Hin. apply ND, in_or_app. now right. }
    replace (l1 ++ (k, v) :: r) with ((l1 ++ [(k, v)]) ++ r) in * by (now rewrite <- app_assoc).
    destruct (N.eqb_spec v 0) as [->|Hv]; cbn.
    + rewrite clearActual_isInputExists. cbn.
      destruct (mhas im k) eqn:Eh; cbn.
      * match goal with |- exists p' q', range_loop _ _ (mk_clearActual_vars ?d' ?p1 ?q1 ?w') = _ =>
          destruct (IH (l1 ++ [(k, 0)]) d' p1 q1 w' ND eq_refl) as (p' & q' & E) end.
        { cbn. rewrite filter_kept_snoc, kept_actual_zero, Eh. now rewrite <- app_assoc. }
        exists p', q'. rewrite E. reflexivity.
      * unfold adel. rewrite filter_app. fold (adel (filter (kept_actual im) l1) k).
        rewrite (adel_notin _ _ Hk1). cbn. rewrite N.eqb_refl. cbn. fold (adel r k). rewrite (adel_notin _ _ Hk2).
        match goal with |- exists p' q', range_loop _ _ (mk_clearActual_vars ?d' ?p1 ?q1 ?w') = _ =>
          destruct (IH (l1 ++ [(k, 0)]) d' p1 q1 w' ND eq_refl) as (p' & q' & E) end.
        { cbn. rewrite filter_kept_snoc, kept_actual_zero, Eh. now rewrite app_nil_r. }
        exists p', q'. rewrite E. reflexivity.
    + match goal with |- exists p' q', range_loop _ _ (mk_clearActual_vars ?d' ?p1 ?q1 ?w') = _ =>
        destruct (IH (l1 ++ [(k, v)]) d' p1 q1 w' ND eq_refl) as (p' & q' & E) end.
      { cbn. rewrite filter_kept_snoc, kept_actual_pos by assumption. now rewrite <- app_assoc. }
      exists p', q'. rewrite E. reflexivity.
Qed.

Lemma tie_clearActual w d a :
  Discipline_actual d = Some a -> NoDup (keys a) ->
  gen_clearActual w d = (w, set_Discipline_actual (Some (filter (kept_actual (Discipline_inputs d)) a)) d, tt).
Proof.
  intros Ha ND. unfold gen_clearActual. cbn. rewrite Ha. cbn.
  destruct (clearActual_loop (Discipline_inputs d) a [] d 0 0 w ND eq_refl Ha) as (p' & q' & E).
  rewrite E. reflexivity.
Qed.

(* ------------------------------------------------------------------ markInputAsDrained, increase/decrease, on the abstraction *)

Section TermTies.
Variable g : divider_fn.

Lemma v1_markInputAsDrained_tie fr inp strat unc us s p c w :
  inputs_rel s inp -> chan_of s p <> None ->
  let inp' := aset inp p (mk_Input (Input_Channel (aget zero_Input inp p)) true) in
  gen_markInputAsDrained w (absd fr g (Some inp) strat unc us s) p =
    (w, absd fr g (Some inp') strat unc us (mark_drained s p c), tt)
  /\ inputs_rel (mark_drained s p c) inp'.
Proof.
  intros [ND Hr] Hp inp'. split; [reflexivity|].
  split; [now apply nodup_aset|].
  intros q. subst inp'. cbn. unfold upd. rewrite ahas_aset.
  destruct (N.eqb_spec q p) as [->|Hne]; cbn.
  - rewrite aget_aset_same. cbn. split; [split; [intros _; exact Hp|reflexivity]|reflexivity].
  - rewrite aget_aset_other by congruence. apply Hr.
Qed.

Lemma v1_increaseActual_tie fr inp strat unc us s p w :
  get (actual s) p + 1 < u_modulus ->
  gen_increaseActual w (absd fr g inp strat unc us s) p =
  (w, absd fr g inp strat unc us (with_actual s (inc (actual s) p)), tt).
Proof.
  intros Hb. unfold gen_increaseActual, absd, inc. cbn. rewrite aget_get, aset_set, u_add_small by assumption. reflexivity.
Qed.

(* a feedback for priority p is taken: Prio1.pop_fb *)
Lemma v1_decreaseActual_tie fr inp strat unc us s p q c w :
  1 <= get (actual s) p -> get (actual s) p < u_modulus ->
  gen_decreaseActual w (absd fr g inp strat unc us s) p =
  (w, absd fr g inp strat unc us (pop_fb s p q c), tt).
Proof.
  intros H1 Hb. unfold gen_decreaseActual, absd, pop_fb, dec. cbn.
  rewrite aget_get, aset_set, u_sub_small by assumption. reflexivity.
Qed.

Lemma v1_decreaseTactic_tie fr inp strat unc us s p w :
  1 <= get (tactic s) p -> get (tactic s) p < u_modulus ->
  gen_decreaseTactic w (absd fr g inp strat unc us s) p =
  (w, absd fr g inp strat unc us (with_tac s (dec (tactic s) p) (pcs s)), tt).
Proof.
  intros H1 Hb. unfold gen_decreaseTactic, absd, dec. cbn.
  rewrite aget_get, aset_set, u_sub_small by assumption. reflexivity.
Qed.

(* the two updates of send() after the item went out: Prio1.push_out *)
Lemma v1_send_updates_tie fr inp strat unc us s p x c w :
  1 <= get (tactic s) p -> get (tactic s) p < u_modulus -> get (actual s) p + 1 < u_modulus ->
  let '(w1, d1, _) := gen_decreaseTactic w (absd fr g inp strat unc us s) p in
  gen_increaseActual w1 d1 p = (w, absd fr g inp strat unc us (push_out s p x c), tt).
Proof.
  intros H1 Hb Ha. rewrite v1_decreaseTactic_tie by assumption.
  rewrite v1_increaseActual_tie by exact Ha. reflexivity.
Qed.

Lemma v1_isZeroActual_tie fr inp strat unc us s w :
  gen_isZeroActual w (absd fr g inp strat unc us s) = (w, absd fr g inp strat unc us s, sum (actual s) =? 0).
Proof. now rewrite (tie_isZeroActual _ _ (actual s)). Qed.

Lemma v1_isDrainedInputs_tie fr inp strat unc us s w :
  inputs_rel s inp -> (forall p, In p (prios s) <-> chan_of s p <> None) ->
  gen_isDrainedInputs w (absd fr g (Some inp) strat unc us s) =
  (w, absd fr g (Some inp) strat unc us s, forallb (drained s) (prios s)).
Proof. intros Hr Hc. rewrite tie_isDrainedInputs. cbn. now rewrite (drained_inputs_rel s inp Hr Hc). Qed.

End TermTies.

(* ==== main tie theorems ==== *)
Section Main.
Variable g : divider_fn.                      (* the function value stored in dsc.opts.Divider *)

(* isZeroActual = the test `sum (actual s) =? 0` of the Drain pc (waitZeroActual) *)
Theorem tie_v1_isZeroActual fr inp strat unc us s w :
  gen_isZeroActual w (absd fr g inp strat unc us s) = (w, absd fr g inp strat unc us s, sum (actual s) =? 0).
Proof. apply v1_isZeroActual_tie. Qed.

(* isDrainedInputs = `forallb (drained s) (prios s)` of the EndBase pc *)
Theorem tie_v1_isDrainedInputs fr inp strat unc us s w :
  inputs_rel s inp -> (forall p, In p (prios s) <-> chan_of s p <> None) ->
  gen_isDrainedInputs w (absd fr g (Some inp) strat unc us s) =
  (w, absd fr g (Some inp) strat unc us s, forallb (drained s) (prios s)).
Proof. apply v1_isDrainedInputs_tie. Qed.

(* markInputAsDrained = Prio1.mark_drained, for a registered priority *)
Theorem tie_v1_markInputAsDrained fr inp strat unc us s p c w :
  inputs_rel s inp -> chan_of s p <> None ->
  let inp' := aset inp p (mk_Input (Input_Channel (aget zero_Input inp p)) true) in
  gen_markInputAsDrained w (absd fr g (Some inp) strat unc us s) p =
    (w, absd fr g (Some inp') strat unc us (mark_drained s p c), tt)
  /\ inputs_rel (mark_drained s p c) inp'.
Proof. apply v1_markInputAsDrained_tie. Qed.

(* increaseActual = Prio1.inc on actual *)
Theorem tie_v1_increaseActual fr inp strat unc us s p w :
  get (actual s) p + 1 < u_modulus ->
  gen_increaseActual w (absd fr g inp strat unc us s) p =
  (w, absd fr g inp strat unc us (with_actual s (inc (actual s) p)), tt).
Proof. apply v1_increaseActual_tie. Qed.

(* decreaseActual = Prio1.pop_fb (a feedback for p is taken): Prio1.dec on actual *)
Theorem tie_v1_decreaseActual fr inp strat unc us s p q c w :
  1 <= get (actual s) p -> get (actual s) p < u_modulus ->
  gen_decreaseActual w (absd fr g inp strat unc us s) p =
  (w, absd fr g inp strat unc us (pop_fb s p q c), tt).
Proof. apply v1_decreaseActual_tie. Qed.

(* decreaseTactic = Prio1.dec on tactic *)
Theorem tie_v1_decreaseTactic fr inp strat unc us s p w :
  1 <= get (tactic s) p -> get (tactic s) p < u_modulus ->
  gen_decreaseTactic w (absd fr g inp strat unc us s) p =
  (w, absd fr g inp strat unc us (with_tac s (dec (tactic s) p) (pcs s)), tt).
Proof. apply v1_decreaseTactic_tie. Qed.

(* decreaseTactic; increaseActual (what send() does once the item is out) = Prio1.push_out *)
Theorem tie_v1_send_updates fr inp strat unc us s p x c w :
  1 <= get (tactic s) p -> get (tactic s) p < u_modulus -> get (actual s) p + 1 < u_modulus ->
  let '(w1, d1, _) := gen_decreaseTactic w (absd fr g inp strat unc us s) p in
  gen_increaseActual w1 d1 p = (w, absd fr g inp strat unc us (push_out s p x c), tt).
Proof. apply v1_send_updates_tie. Qed.

(* clearActual (run by the loop after every select; the model has no such step): the zero entries of priorities
   without an input are deleted, which `get` and `sum` cannot see *)
Theorem tie_v1_clearActual fr inp strat unc us s w :
  NoDup (keys (actual s)) ->
  let a' := filter (kept_actual inp) (actual s) in
  gen_clearActual w (absd fr g inp strat unc us s) = (w, absd fr g inp strat unc us (with_actual s a'), tt)
  /\ deq a' (actual s) /\ NoDup (keys a') /\ sum a' = sum (actual s).
Proof.
  intros ND a'.
  assert (Hd : deq a' (actual s)).
  { apply deq_filter_zero; [exact ND|]. intros [k v] _ Hf. unfold kept_actual in Hf. cbn in *.
    destruct (N.eqb_spec v 0); [assumption|discriminate]. }
  assert (ND' : NoDup (keys a')) by now apply nodup_keys_filter.
  repeat split; auto.
  - now rewrite (tie_clearActual _ _ (actual s)).
  - now apply sum_deq.
Qed.

End Main.

(* ------------------------------------------------------------------ examples: no theorem is vacuous (state ex_st of GenTiePrio1Base) *)

Example ex_isZeroActual : gen_isZeroActual 4 (ex_abs ex_s1) = (4%nat, ex_abs ex_s1, false).
Proof. apply (tie_v1_isZeroActual ex_g). Qed.

Example ex_isDrainedInputs : gen_isDrainedInputs 4 (ex_abs ex_s1) = (4%nat, ex_abs ex_s1, false).
Proof. apply (tie_v1_isDrainedInputs ex_g); [apply ex_inputs_rel|apply ex_chan_inv]. Qed.

Example ex_markInputAsDrained :
  gen_markInputAsDrained 4 (ex_abs ex_s1) 3 =
  (4%nat, absd ex_frame ex_g (Some [(1, mk_Input (Some tt) false); (3, mk_Input (Some tt) true); (2, mk_Input (Some tt) false)])
                (Some (strategic ex_s1)) [] [] (mark_drained ex_s1 3 (Prio P1 [2; 1] 0)), tt).
Proof. apply (tie_v1_markInputAsDrained ex_g); [apply ex_inputs_rel|discriminate]. Qed.

Example ex_increaseActual :
  gen_increaseActual 4 (ex_abs ex_s1) 2 = (4%nat, ex_abs (with_actual ex_s1 [(2, 2)]), tt).
Proof. apply (tie_v1_increaseActual ex_g). reflexivity. Qed.

Example ex_decreaseActual :
  gen_decreaseActual 4 (ex_abs ex_s1) 2 = (4%nat, ex_abs (pop_fb ex_s1 2 [] Calc), tt)
  /\ actual (pop_fb ex_s1 2 [] Calc) = [(2, 0)].
Proof. split; [apply (tie_v1_decreaseActual ex_g); [cbn; lia|reflexivity]|reflexivity]. Qed.

Example ex_decreaseTactic :
  gen_decreaseTactic 4 (ex_abs ex_s3) 1 = (4%nat, ex_abs (with_tac ex_s3 [(3, 0); (2, 1); (1, 1)] (Recalc 2)), tt).
Proof. apply (tie_v1_decreaseTactic ex_g); [cbn; lia|reflexivity]. Qed.

(* an item (5) of priority 1 went out: tactic 2 -> 1, actual 0 -> 1 *)
Example ex_send_updates :
  let '(w1, d1, _) := gen_decreaseTactic 4 (ex_abs ex_s3) 1 in
  gen_increaseActual w1 d1 1 = (4%nat, ex_abs (push_out ex_s3 1 5 (Read P2 1 [] 3 false)), tt).
Proof. apply (tie_v1_send_updates ex_g); [cbn; lia|reflexivity|reflexivity]. Qed.
Example ex_send_updates_value :
  tactic (push_out ex_s3 1 5 (Read P2 1 [] 3 false)) = [(3, 0); (2, 1); (1, 1)]
  /\ actual (push_out ex_s3 1 5 (Read P2 1 [] 3 false)) = [(3, 2); (1, 1)].
Proof. vm_compute. split; reflexivity. Qed.

(* clearActual: the zero entry of the unregistered priority 7 goes, the zero entry of the registered priority 3 stays *)
Example ex_clearActual :
  gen_clearActual 4 (ex_abs (ex_st [(7, 0); (2, 1); (3, 0)] [] Calc)) = (4%nat, ex_abs (ex_st [(2, 1); (3, 0)] [] Calc), tt).
Proof. vm_compute. reflexivity. Qed.

Example ex_clearActual_thm :
  let s := ex_st [(7, 0); (2, 1); (3, 0)] [] Calc in
  gen_clearActual 4 (ex_abs s) = (4%nat, ex_abs (with_actual s (filter (kept_actual (Some ex_inp)) (actual s))), tt).
Proof. apply (tie_v1_clearActual ex_g). nodup_tac. Qed.

Print Assumptions tie_v1_isZeroActual.
Print Assumptions tie_v1_isDrainedInputs.
Print Assumptions tie_v1_markInputAsDrained.
Print Assumptions tie_v1_increaseActual.
Print Assumptions tie_v1_decreaseActual.
Print Assumptions tie_v1_decreaseTactic.
Print Assumptions tie_v1_send_updates.
Print Assumptions tie_v1_clearActual.
