(* Tie lemmas for the buffer helpers prepareItem / resetJoin of the same generated unit as GenTieJoinV1.v (kept apart so that a change of these helpers does not break the interval / validation ties). *)
From Coq Require Import List NArith ZArith Bool Lia.
From Cqos Require Import GoSem Join GenTieMiscBase.
From Cqos Require GenJoinV1.
Import ListNotations.
Module J1 := GenJoinV1.

Theorem tie_join_v1_prepareItem w dsc item : J1.gen_prepareItem w dsc item = (w, dsc, item).
Proof. unfold J1.gen_prepareItem. cbn. destruct (is_nil (J1.Opts_Released (J1.Discipline_opts dsc))); reflexivity. Qed.

Theorem tie_join_v1_resetJoin w dsc :
  J1.gen_resetJoin w dsc =
  (w, if J1.Discipline_unreleased dsc then dsc
      else J1.mk_Discipline (J1.Discipline_opts dsc) (J1.Discipline_breaker dsc) (J1.Discipline_interruptInterval dsc) []
             (J1.Discipline_output dsc) (J1.Discipline_passAt dsc) false, tt).
Proof. unfold J1.gen_resetJoin. cbn. destruct dsc as [o b i j out p []]; reflexivity. Qed.

Example ex_join_v1_prepareItem :
  J1.gen_prepareItem 7 (J1.mk_Discipline (J1.mk_Opts (Some tt) (Some tt) 4 (Some tt) 0 25) (Some tt) 0 [1;2]%N (Some tt) tt false) [1;2]%N =
  (7%nat, J1.mk_Discipline (J1.mk_Opts (Some tt) (Some tt) 4 (Some tt) 0 25) (Some tt) 0 [1;2]%N (Some tt) tt false, [1;2]%N).
Proof. apply tie_join_v1_prepareItem. Qed.

Example ex_join_v1_resetJoin :
  J1.gen_resetJoin 7 (J1.mk_Discipline (J1.mk_Opts (Some tt) (Some tt) 4 (Some tt) 0 25) (Some tt) 0 [1;2]%N (Some tt) tt false) =
  (7%nat, J1.mk_Discipline (J1.mk_Opts (Some tt) (Some tt) 4 (Some tt) 0 25) (Some tt) 0 [] (Some tt) tt false, tt) /\
  J1.gen_resetJoin 7 (J1.mk_Discipline (J1.mk_Opts (Some tt) (Some tt) 4 (Some tt) 0 25) (Some tt) 0 [1;2]%N (Some tt) tt true) =
  (7%nat, J1.mk_Discipline (J1.mk_Opts (Some tt) (Some tt) 4 (Some tt) 0 25) (Some tt) 0 [1;2]%N (Some tt) tt true, tt).
Proof. rewrite !tie_join_v1_resetJoin. split; reflexivity. Qed.

Print Assumptions tie_join_v1_prepareItem.
Print Assumptions tie_join_v1_resetJoin.
