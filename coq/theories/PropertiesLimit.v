(* Property theorems for the limit discipline (C04 C12). *)
From Coq Require Import List ZArith Bool Sorted. From Cqos Require Import Limit LimitP. Import ListNotations. Open Scope Z_scope.
Theorem C04_cumulative :
  forall (c : lcfg) (t0 : Z) (evs : list lev) (p : lpc) (o : list (Z * Z)),
         1 <= quantity c ->
         1 <= linterval c ->
         lrun c (linit t0) t0 evs = Some (p, o) ->
         forall tau : Z, t0 <= tau -> count_le tau (out_times o) <= quantity c * ((tau - t0) / linterval c + 1).
Proof. exact @limit_cumulative. Qed.
Print Assumptions C04_cumulative.

Theorem C04_window :
  forall (c : lcfg) (t0 : Z) (evs : list lev) (p : lpc) (o : list (Z * Z)),
         1 <= quantity c ->
         1 <= linterval c ->
         lrun c (linit t0) t0 evs = Some (p, o) ->
         forall a W : Z, 0 <= W -> count_in a (a + W) (out_times o) <= quantity c * (W / linterval c + 2).
Proof. exact @limit_window. Qed.
Print Assumptions C04_window.

Theorem C12_passthrough :
  forall (c : lcfg) (t0 : Z) (evs : list lev) (p : lpc) (o : list (Z * Z)),
         lrun c (linit t0) t0 evs = Some (p, o) ->
         in_vals evs = out_vals o ++ match p with
                                     | LSend _ _ x => [x]
                                     | _ => []
                                     end.
Proof. exact @limit_passthrough. Qed.
Print Assumptions C12_passthrough.

Theorem C12_closed_only_after_close :
  forall (c : lcfg) (t0 : Z) (evs : list lev) (p : lpc) (o : list (Z * Z)),
         lrun c (linit t0) t0 evs = Some (p, o) ->
         p = LClosed -> exists (pre : list lev) (t : Z), evs = pre ++ [LCloseIn t] /\ in_vals pre = out_vals o.
Proof. exact @limit_closed_only_after_close. Qed.
Print Assumptions C12_closed_only_after_close.

Theorem C12_closed_final :
  forall (c : lcfg) (e : lev), lstep c LClosed e = None.
Proof. exact @limit_closed_final. Qed.
Print Assumptions C12_closed_final.

Theorem C12_out_times_sorted :
  forall (c : lcfg) (t0 : Z) (evs : list lev) (p : lpc) (o : list (Z * Z)),
         lrun c (linit t0) t0 evs = Some (p, o) ->
         StronglySorted Z.le (out_times o) /\ (forall t : Z, In t (out_times o) -> t0 <= t).
Proof. exact @limit_out_times_sorted. Qed.
Print Assumptions C12_out_times_sorted.

Theorem C12_sleep_only_after_quantity :
  forall (c : lcfg) (t0 : Z) (evs : list lev) (p : lpc) (o : list (Z * Z)),
         1 <= quantity c ->
         lrun c (linit t0) t0 evs = Some (p, o) ->
         match p with
         | LRecv k s | LSend k s _ => 0 <= k < quantity c /\ t0 <= s
         | _ => True
         end.
Proof. exact @limit_sleep_only_after_quantity. Qed.
Print Assumptions C12_sleep_only_after_quantity.

Theorem C12_sleep_deadline :
  forall (c : lcfg) (k s x t u : Z) (o : list (Z * Z)),
         lstep c (LSend k s x) (LOut t) = Some (LSleep u, o) -> u = s + linterval c /\ k + 1 >= quantity c.
Proof. exact @limit_sleep_deadline. Qed.
Print Assumptions C12_sleep_deadline.

Theorem C12_upfront_timing :
  forall (c : lcfg) (t0 : Z) (evs : list lev) (p : lpc) (o : list (Z * Z)),
         1 <= quantity c ->
         1 <= linterval c ->
         eager c t0 evs ->
         lrun c (linit t0) t0 evs = Some (p, o) ->
         forall j : nat,
         (j < length o)%nat -> nth j (out_times o) 0 = t0 + Z.of_nat j / quantity c * linterval c.
Proof. exact @limit_upfront_timing. Qed.
Print Assumptions C12_upfront_timing.

