(* Property theorems for the v1 priority discipline, saturation and progress (C05 C06), for executions without Stop / GracefulStop / AddInput / RemoveInput. *)
From Coq Require Import List NArith Bool. From Cqos Require Import Base Divider Sched Prio1 Prio1P Prio1L. Import ListNotations. Open Scope N_scope.
Theorem C06_v1_no_wait_when_idle_static :
  forall (fixed : bool) (dv : nat -> Divider),
         (forall (k : nat) (ps : list N) (n : N) (d : dist), NoDup (keys d) -> NoDup (keys (dv k ps n d))) ->
         forall s0 s : st, InitL1 s0 -> sreachable fixed dv s0 s -> pcs s = WaitFb -> 0 < sum (actual s).
Proof. exact @prio1_no_wait_when_idle. Qed.
Print Assumptions C06_v1_no_wait_when_idle_static.

Theorem C05_v1_share_bound :
  forall (fixed : bool) (dv : nat -> Divider),
         (forall (k : nat) (ps : list N) (n : N) (d : dist), NoDup (keys d) -> NoDup (keys (dv k ps n d))) ->
         forall s0 s : st,
         InitL1 s0 -> sat_reachable fixed dv s0 s -> forall p : N, get (actual s) p <= get (strategic s) p.
Proof. exact @prio1_share_bound. Qed.
Print Assumptions C05_v1_share_bound.

Theorem C05_v1_full_when_quiet :
  forall (fixed : bool) (dv : nat -> Divider),
         (forall (k : nat) (ps : list N) (n : N) (d : dist), NoDup (keys d) -> NoDup (keys (dv k ps n d))) ->
         forall s0 s : st,
         InitL1 s0 ->
         sat_reachable fixed dv s0 s ->
         pcs s = WaitFb -> forall p : N, In p (prios s) -> get (actual s) p = get (strategic s) p.
Proof. exact @prio1_full_when_quiet. Qed.
Print Assumptions C05_v1_full_when_quiet.

Theorem C05_v1_full_when_quiet_sum :
  forall (fixed : bool) (dv : nat -> Divider),
         (forall (k : nat) (ps : list N) (n : N) (d : dist), NoDup (keys d) -> NoDup (keys (dv k ps n d))) ->
         forall s0 s : st, InitL1 s0 -> sat_reachable fixed dv s0 s -> pcs s = WaitFb -> sum (actual s) = H s.
Proof. exact @prio1_full_when_quiet_sum. Qed.
Print Assumptions C05_v1_full_when_quiet_sum.

Theorem C05_v1_literal_saturation_refuted :
  sat_reachable_literal false dv_example cx_s0 cx_s1 /\
         get (actual cx_s1) 1 = 2 /\ get (strategic cx_s1) 1 = 1.
Proof. exact @sat_literal_false. Qed.
Print Assumptions C05_v1_literal_saturation_refuted.

Theorem C06_v1_round_delivers :
  forall (fixed : bool) (dv : nat -> Divider),
         (forall (k : nat) (ps : list N) (n : N) (d : dist), NoDup (keys d) -> NoDup (keys (dv k ps n d))) ->
         forall s0 s : st,
         InitL1 s0 ->
         sreachable fixed dv s0 s ->
         pcs s = Calc \/ pcs s = Top ->
         sum (actual s) = 0 ->
         fbq s = [] ->
         (exists (p : N) (ch : nat),
            In p (prios s) /\ chan_of s p = Some ch /\ drained s p = false /\ inq s ch <> []) ->
         exists (n : nat) (s' : st),
           iter_auto fixed dv n s = Some s' /\
           length (delivered s') = S (length (delivered s)) /\ (n <= 3 * length (prios s) + 2)%nat.
Proof. exact @prio1_round_delivers. Qed.
Print Assumptions C06_v1_round_delivers.

Theorem C06_v1_round_delivers_oracles :
  forall (fixed : bool) (dv : nat -> Divider),
         (forall (k : nat) (ps : list N) (n : N) (d : dist), NoDup (keys d) -> NoDup (keys (dv k ps n d))) ->
         forall s0 s : st,
         InitL1 s0 ->
         sreachable fixed dv s0 s ->
         pcs s = Calc \/ pcs s = Top ->
         sum (actual s) = 0 ->
         fbq s = [] ->
         (exists (p : N) (ch : nat),
            In p (prios s) /\ chan_of s p = Some ch /\ drained s p = false /\ inq s ch <> []) ->
         exists (n : nat) (s' : st),
           (n <= 3 * length (prios s) + 2)%nat /\
           length (delivered s') = S (length (delivered s)) /\
           (forall os : list nat, length os = n -> iter_auto_o fixed dv os s = Some s').
Proof. exact @prio1_round_delivers_oracles. Qed.
Print Assumptions C06_v1_round_delivers_oracles.

Theorem C06_v1_alone_gets_all :
  forall (fixed : bool) (dv : nat -> Divider),
         (forall (k : nat) (ps : list N) (n : N) (d : dist), NoDup (keys d) -> NoDup (keys (dv k ps n d))) ->
         (forall (k : nat) (p n : N) (d : dist),
          NoDup (keys d) -> get (dv k [p] n d) p = get d p + n /\ sum (dv k [p] n d) = sum d + n) ->
         forall (s0 s : st) (p : N) (ch : nat),
         InitL1 s0 ->
         sreachable fixed dv s0 s ->
         pcs s = Calc \/ pcs s = Top ->
         sum (actual s) = 0 ->
         H s < two64 ->
         In p (prios s) ->
         chan_of s p = Some ch ->
         (forall (q : N) (c : nat), In q (prios s) -> q <> p -> chan_of s q = Some c -> inq s c = []) ->
         H s <= N.of_nat (length (inq s ch)) ->
         exists (n : nat) (s' : st), iter_eager fixed dv n s = Some s' /\ get (actual s') p = H s'.
Proof. exact @prio1_alone_gets_all. Qed.
Print Assumptions C06_v1_alone_gets_all.

Theorem C06_v1_alone_gets_all_oracles :
  forall (fixed : bool) (dv : nat -> Divider),
         (forall (k : nat) (ps : list N) (n : N) (d : dist), NoDup (keys d) -> NoDup (keys (dv k ps n d))) ->
         (forall (k : nat) (p n : N) (d : dist),
          NoDup (keys d) -> get (dv k [p] n d) p = get d p + n /\ sum (dv k [p] n d) = sum d + n) ->
         forall (s0 s : st) (p : N) (ch : nat),
         InitL1 s0 ->
         sreachable fixed dv s0 s ->
         pcs s = Calc \/ pcs s = Top ->
         sum (actual s) = 0 ->
         H s < two64 ->
         In p (prios s) ->
         chan_of s p = Some ch ->
         (forall (q : N) (c : nat), In q (prios s) -> q <> p -> chan_of s q = Some c -> inq s c = []) ->
         H s <= N.of_nat (length (inq s ch)) ->
         exists (n : nat) (s' : st),
           get (actual s') p = H s /\
           sreachable fixed dv s0 s' /\
           (forall os : list nat, length os = n -> iter_eager_o fixed dv os s = Some s').
Proof. exact @prio1_alone_gets_all_oracles. Qed.
Print Assumptions C06_v1_alone_gets_all_oracles.

Theorem C06_v1_needs_positive_shares :
  1 <= H z_s0 /\
         sum_list (map (get (strategic z_s0)) (prios z_s0)) = H z_s0 /\
         1 <= outcap z_s0 /\
         get (strategic z_s0) 2 = 0 /\
         env_step z_s0 (Put 1 7) = Some z_s1 /\
         pcs z_s1 = Top /\
         sum (actual z_s1) = 0 /\
         fbq z_s1 = [] /\
         (In 2 (prios z_s1) /\ chan_of z_s1 2 = Some 1%nat /\ drained z_s1 2 = false /\ inq z_s1 1 = [7]) /\
         (forall n : nat,
          (n <= 3 * length (prios z_s1) + 2)%nat ->
          match iter_auto true z_dv n z_s1 with
          | Some s' => delivered s' = []
          | None => False
          end).
Proof. exact @round_delivers_needs_positive_shares. Qed.
Print Assumptions C06_v1_needs_positive_shares.

