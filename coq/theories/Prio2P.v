(* Proofs about the v2 priority discipline model (Prio2.v): C01 capacity/accounting, C02 exactly-once/tagging/FIFO,
   C07 termination safety, C15 divider contract and fail-safe behaviour. *)
From Coq Require Import List NArith Lia Bool Arith Sorted.
From Cqos Require Import Base Divider DividerP Sched Prio2.
Import ListNotations.
Open Scope N_scope.

(* ---------- small arithmetic / list facts ---------- *)
Lemma sum_dec d p : NoDup (keys d) -> 1 <= get d p -> sum (dec d p) + 1 = sum d.
Proof. intros ND Hg. unfold dec. pose proof (sum_set d p (get d p - 1) ND). lia. Qed.
Lemma sum_inc d p : NoDup (keys d) -> sum (inc d p) = sum d + 1.
Proof. intros ND. unfold inc. pose proof (sum_set d p (get d p + 1) ND). lia. Qed.
Lemma get_dec d p q : get (dec d p) q = if N.eqb q p then get d p - 1 else get d q.
Proof. unfold dec. destruct (N.eqb_spec q p) as [->|Hne]; [apply get_set_same|apply get_set_other; congruence]. Qed.
Lemma get_inc d p q : get (inc d p) q = if N.eqb q p then get d p + 1 else get d q.
Proof. unfold inc. destruct (N.eqb_spec q p) as [->|Hne]; [apply get_set_same|apply get_set_other; congruence]. Qed.
Lemma nodup_dec d p : NoDup (keys d) -> NoDup (keys (dec d p)).
Proof. apply nodup_keys_set. Qed.
Lemma nodup_inc d p : NoDup (keys d) -> NoDup (keys (inc d p)).
Proof. apply nodup_keys_set. Qed.

Lemma count_snoc p l x : count p (l ++ [x]) = count p l + (if N.eqb p x then 1 else 0).
Proof. rewrite count_app. simpl. lia. Qed.

Lemma remove1_spec p l h : remove1 p l = Some h ->
  length l = S (length h) /\ forall q, count q (map fst l) = count q (map fst h) + (if N.eqb q p then 1 else 0).
Proof.
  revert h. induction l as [|[a x] r IH]; simpl; intros h Hr; [discriminate|].
  destruct (N.eqb_spec p a) as [->|Hne].
  - inversion Hr; subst. split; auto. intros q. lia.
  - destruct (remove1 p r) as [h'|] eqn:E; simpl in Hr; [|discriminate]. inversion Hr; subst.
    destruct (IH h' eq_refl) as [Hl Hc]. split; [simpl; lia|]. intros q. simpl. rewrite Hc. lia.
Qed.

Lemma filter_nodup {A} (f : A -> bool) l : NoDup l -> NoDup (filter f l).
Proof. induction 1 as [|x l Hx ND IH]; simpl; [constructor|]. destruct (f x); auto. constructor; auto. rewrite filter_In. tauto. Qed.

Lemma filter_true {A} (l : list A) : l = filter (fun _ => true) l.
Proof. induction l as [|x r IH]; simpl; congruence. Qed.

Lemma add_up_sum ps : forall actual strategic tactic picked t' pk',
  NoDup ps -> NoDup (keys tactic) -> (forall p, In p ps -> get tactic p = 0) ->
  add_up ps actual strategic tactic picked = Some (t', pk') ->
  sum t' + picked = sum tactic + pk' /\ NoDup (keys t').
Proof.
  induction ps as [|p r IH]; simpl; intros actual strategic tactic picked t' pk' NDp NDk Hz H.
  - inversion H; subst. split; [lia|auto].
  - destruct (get strategic p <? get actual p) eqn:E; [discriminate|].
    inversion NDp as [|? ? Hn NDr]; subst.
    apply IH in H; auto.
    + destruct H as [H1 H2]. split; auto.
      pose proof (sum_set tactic p (get strategic p - get actual p) NDk) as Hs.
      rewrite (Hz p (or_introl eq_refl)) in Hs. lia.
    + apply nodup_keys_set; auto.
    + intros q Hq. rewrite get_set_other; [apply Hz; right; auto|]. intros ->. contradiction.
Qed.

(* ---------- safe_divide ---------- *)
Lemma two64_pos : 0 < two64.
Proof. reflexivity. Qed.

Lemma wrap_sub a : a < two64 -> (a + two64 - 0) mod two64 = a.
Proof.
  intros Ha. rewrite N.sub_0_r.
  replace (a + two64) with (a + 1 * two64) by lia.
  rewrite N.mod_add by (intros E; discriminate E). apply N.mod_small; auto.
Qed.

Lemma safe_sum_some d v : safe_sum d = Some v -> v = sum d /\ sum d < two64.
Proof. unfold safe_sum. destruct (sum d <? two64) eqn:E; [|discriminate]. intros Hs; inversion Hs; subst. split; auto. now apply N.ltb_lt. Qed.

Lemma safe_divide_inl (f : Divider) ps n t r :
  safe_divide f ps n t = inl r -> r = f ps n t /\ sum t < two64 /\ sum r < two64 /\
  (sum r = 0 \/ (sum r + two64 - sum t) mod two64 = n).
Proof.
  unfold safe_divide. intros Hs.
  destruct (safe_sum t) as [b|] eqn:Eb; [|discriminate].
  destruct (safe_sum (f ps n t)) as [a|] eqn:Ea; [|discriminate].
  apply safe_sum_some in Eb. apply safe_sum_some in Ea. destruct Eb as [-> Hb]. destruct Ea as [-> Ha].
  destruct (sum (f ps n t) =? 0) eqn:E0.
  - inversion Hs; subst. apply N.eqb_eq in E0. auto.
  - destruct ((sum (f ps n t) + two64 - sum t) mod two64 =? n) eqn:E1; [|discriminate].
    inversion Hs; subst. apply N.eqb_eq in E1. auto.
Qed.

Lemma safe_divide_sum (f : Divider) ps n t r :
  sum t = 0 -> safe_divide f ps n t = inl r -> sum r = n \/ sum r = 0.
Proof.
  intros Hz Hs. apply safe_divide_inl in Hs. destruct Hs as [_ [_ [Ha [H0|H1]]]]; auto.
  left. rewrite Hz in H1. rewrite wrap_sub in H1; auto.
Qed.

(* ---------- the invariants ---------- *)
Definition inflight (s : st) : N := N.of_nat (length (outq s)) + N.of_nat (length (held s)) + N.of_nat (length (fbq s)).
Definition cnt (s : st) (p : N) : N := count p (map fst (outq s)) + count p (map fst (held s)) + count p (fbq s).
Definition in_round (c : pc) : bool :=
  match c with Prio _ _ _ | Read _ _ _ _ _ | Send _ _ _ _ _ | Recalc _ => true | _ => false end.

(* accounting invariant (port of the calibration) + divider contract + "Done only when everything released" *)
Record Inv (s : st) : Prop := {
  i_nda : NoDup (keys (actual s));
  i_ndt : NoDup (keys (tactic s));
  i_ndp : NoDup (prios s);
  i_acc : forall p, get (actual s) p = cnt s p;
  i_sum : sum (actual s) = inflight s;
  i_cap : sum (actual s) <= H s;
  i_round : in_round (pcs s) = true -> sum (actual s) + sum (tactic s) <= H s;
  i_send : forall ph p x r proc, pcs s = Send ph p x r proc -> 1 <= get (tactic s) p;
  i_done : forall e, pcs s = Done e -> sum (actual s) = 0;
  i_calls : forall ps d, In (ps, d) (calls s) -> (exists f, ps = filter f (prios s)) /\ d <= H s }.

Definition of_prio (p : N) (l : list (N * N)) : list N := map snd (filter (fun px => N.eqb (fst px) p) l).
Definition limbo (s : st) (p : N) : list N := match pcs s with Send _ q x _ _ => if N.eqb q p then [x] else [] | _ => [] end.

Definition pc_rest_ok (ps : list N) (c : pc) : Prop :=
  match c with
  | Prio _ r _ => incl r ps
  | Read _ p r _ _ => In p ps /\ incl r ps
  | Send _ p _ r _ => In p ps /\ incl r ps
  | _ => True
  end.

(* data-flow invariant: exactly once / tagging / FIFO per priority / drained inputs *)
Record Inv2 (s : st) : Prop := {
  j_split : forall p, of_prio p (delivered s) ++ limbo s p ++ inq s p = written s p;
  j_rest : pc_rest_ok (prios s) (pcs s);
  j_tags : forall p x, In (p, x) (delivered s) -> In p (prios s);
  j_drained : forall p, drained s p = true -> closed s p = true /\ inq s p = [];
  j_alldrained : pcs s = Drain None \/ pcs s = Done None -> forall p, In p (prios s) -> drained s p = true }.

Record Init (s0 : st) : Prop := {
  in_prios : NoDup (prios s0);  in_strat : NoDup (keys (strategic s0));
  in_actual : actual s0 = [];   in_tactic : tactic s0 = [];
  in_outq : outq s0 = [];  in_held : held s0 = [];  in_fbq : fbq s0 = [];  in_pc : pcs s0 = Calc;
  in_delivered : delivered s0 = [];
  in_written : forall p, written s0 p = inq s0 p;        (* inputs may be pre-filled *)
  in_drained : forall p, drained s0 p = false;
  in_calls : forall c, In c (calls s0) -> c = (prios s0, H s0) }.

Lemma init_state_Init : forall ps h sorted strat buf, NoDup sorted -> NoDup (keys strat) -> Init (init_state ps h sorted strat buf).
Proof.
  intros ps h sorted strat buf Hs Hk. constructor; cbn; auto.
  intros c [Hc|[]]. auto.
Qed.

Lemma Init_Inv s0 : Init s0 -> Inv s0.
Proof.
  intros I. destruct I as [Ip Is Ia It Io Ih If Ipc Id Iw Idr Ic].
  constructor; unfold inflight, cnt; rewrite ?Ia, ?It, ?Io, ?Ih, ?If, ?Ipc; simpl; auto; try apply NoDup_nil; try lia; try discriminate.
  intros ps d Hin. apply Ic in Hin. inversion Hin; subst. split; [|lia]. exists (fun _ => true). apply filter_true.
Qed.

Lemma Init_Inv2 s0 : Init s0 -> Inv2 s0.
Proof.
  intros I. destruct I as [Ip Is Ia It Io Ih If Ipc Id Iw Idr Ic].
  constructor; unfold limbo, of_prio; rewrite ?Id, ?Ipc; simpl; auto.
  - intros p x [].
  - intros p Hd. rewrite Idr in Hd. discriminate.
  - intros [E|E]; discriminate.
Qed.

Ltac proj := cbn [H prios strategic actual tactic inq closed drained buffered outq outcap held fbq fblimit pcs ncalls
                  delivered calls written with_pc with_tac log_call pop_fb pop_in mark_drained push_out].

Section Proofs.
Variable dv : nat -> Divider.
(* typing fact of Go maps: a distribution returned by any divider is a map, i.e. has unique keys *)
Hypothesis dv_wf : forall k ps n d, NoDup (keys d) -> NoDup (keys (dv k ps n d)).

Ltac inv_fields Hinv :=
  destruct Hinv as [Hnda Hndt Hndp Hacc Hsum Hcap Hround Hsend Hdone Hcalls].

Definition not_send (c : pc) : Prop := forall ph p x r pr, c <> Send ph p x r pr.
Definition not_done (c : pc) : Prop := forall e, c <> Done e.

(* popping a feedback keeps the invariant; pc after is outside a round *)
Lemma pop_fb_inv s p q c :
  Inv s -> fbq s = p :: q -> in_round c = false -> not_send c -> not_done c -> Inv (pop_fb s p q c).
Proof.
  intros Hinv Hfb Hc Hns Hnd. inv_fields Hinv.
  assert (Hge : 1 <= get (actual s) p).
  { rewrite Hacc. unfold cnt. rewrite Hfb. simpl. rewrite N.eqb_refl. lia. }
  constructor; proj.
  - now apply nodup_dec.
  - exact Hndt.
  - exact Hndp.
  - intros p0. rewrite get_dec. unfold cnt; proj. specialize (Hacc p0). unfold cnt in Hacc. rewrite Hfb in Hacc. simpl in Hacc.
    revert Hacc. destruct (N.eqb_spec p0 p) as [E|Hne]; intros Hacc; [subst p0|]; lia.
  - pose proof (sum_dec (actual s) p Hnda Hge). unfold inflight in *; proj. rewrite Hfb in Hsum. cbn [length] in Hsum.
    rewrite Nat2N.inj_succ in Hsum. lia.
  - pose proof (sum_dec (actual s) p Hnda Hge). lia.
  - intros Hr. rewrite Hc in Hr. discriminate.
  - intros ph p' x r pr Heq. exfalso. eapply Hns; eauto.
  - intros e Heq. exfalso. eapply Hnd; eauto.
  - exact Hcalls.
Qed.

(* setting a fresh tactic and moving to a pc, after logging some calls *)
Lemma with_tac_inv s s1 t c :
  Inv s -> NoDup (keys t) ->
  H s1 = H s -> prios s1 = prios s -> actual s1 = actual s -> outq s1 = outq s -> held s1 = held s -> fbq s1 = fbq s ->
  (forall ps d, In (ps, d) (calls s1) -> (exists f, ps = filter f (prios s)) /\ d <= H s) ->
  (in_round c = true -> sum (actual s) + sum t <= H s) ->
  not_send c -> not_done c -> Inv (with_tac s1 t c).
Proof.
  intros Hinv Hnd EH Ep Ea Eo Eh Ef Hc Hs Hns Hndn. inv_fields Hinv.
  constructor; unfold inflight, cnt in *; proj; rewrite ?EH, ?Ep, ?Ea, ?Eo, ?Eh, ?Ef; auto.
  - intros ph p x r pr Heq. exfalso. eapply Hns; eauto.
  - intros e Heq. exfalso. eapply Hndn; eauto.
Qed.

Lemma with_pc_inv s c :
  Inv s -> (in_round c = true -> sum (actual s) + sum (tactic s) <= H s) ->
  not_send c -> (forall e, c = Done e -> sum (actual s) = 0) -> Inv (with_pc s c).
Proof.
  intros Hinv Hs Hns Hd. inv_fields Hinv. constructor; proj; auto.
  intros ph p x r pr Heq. exfalso. eapply Hns; eauto.
Qed.

Lemma safe_divide_wf k ps d t r :
  NoDup (keys t) -> safe_divide (dv k) ps d (reset t) = inl r -> NoDup (keys r) /\ (sum r = d \/ sum r = 0).
Proof.
  intros ND Hs. split; [|eapply safe_divide_sum; eauto; apply sum_reset].
  apply safe_divide_inl in Hs. destruct Hs as [-> _]. apply dv_wf. now apply nodup_keys_reset.
Qed.

Ltac notsend0 := let ph := fresh in let p := fresh in let x := fresh in let r := fresh in let pr := fresh in
  unfold not_send; intros ph p x r pr; try discriminate; try (destruct ph; discriminate).
Ltac notdone0 := let e := fresh in unfold not_done; intros e; try discriminate.
Ltac fin := try solve [discriminate | notsend0 | notdone0 | intros _; lia | assumption | apply nodup_keys_reset; assumption
                       | reflexivity | intros ? ?; discriminate ].

Lemma calc_base_inv s v : Inv s -> v = H s - sum (actual s) -> Inv (calc_base dv s v).
Proof.
  intros Hinv Hv. pose proof Hinv as Hinv0. inv_fields Hinv. unfold calc_base.
  assert (Hc : forall ps d, In (ps, d) (calls (log_call s (uncrowded s) v)) -> (exists f, ps = filter f (prios s)) /\ d <= H s).
  { proj. intros ps d [E|Hin]; [|auto]. inversion E; subst. split; [|lia]. unfold uncrowded. eexists; reflexivity. }
  destruct (safe_divide (dv (ncalls s)) (uncrowded s) v (reset (tactic s))) as [t'|e] eqn:E.
  - destruct (safe_divide_wf _ _ _ _ _ Hndt E) as [W [Hd|Hd]];
    apply (with_tac_inv s); auto; fin; destruct (filled t' (uncrowded s)); fin.
  - apply (with_tac_inv s); auto; fin.
Qed.

Lemma step_calc_inv s : Inv s -> Inv (step_calc dv s).
Proof.
  intros Hinv. pose proof Hinv as Hinv0. inv_fields Hinv. unfold step_calc.
  destruct (H s - sum (actual s) =? 0) eqn:Ev.
  - apply with_pc_inv; auto; fin.
  - apply N.eqb_neq in Ev.
    destruct (add_up (prios s) (actual s) (strategic s) (reset (tactic s)) 0) as [[t picked]|] eqn:Ea.
    + destruct (picked =? H s - sum (actual s)) eqn:Ep.
      * apply N.eqb_eq in Ep.
        destruct (add_up_sum _ _ _ _ _ _ _ Hndp (nodup_keys_reset _ Hndt) (fun p _ => get_reset _ p) Ea) as [Hs Hnd].
        rewrite sum_reset in Hs. apply (with_tac_inv s); auto; fin.
      * apply calc_base_inv; auto.
    + apply calc_base_inv; auto.
Qed.

Lemma step_recalc_inv s proc : Inv s -> sum (actual s) + sum (tactic s) <= H s -> Inv (step_recalc dv s proc).
Proof.
  intros Hinv Hr. pose proof Hinv as Hinv0. inv_fields Hinv. unfold step_recalc.
  assert (Hc1 : forall ps d, In (ps, d) (calls (log_call s (useful s) (H s))) -> (exists f, ps = filter f (prios s)) /\ d <= H s).
  { proj. intros ps d [E|Hin]; [|auto]. inversion E; subst. split; [|lia]. unfold useful. eexists; reflexivity. }
  destruct (safe_divide (dv (ncalls s)) (useful s) (H s) (reset (tactic s))) as [t1|e] eqn:E1.
  - destruct (safe_divide_wf _ _ _ _ _ Hndt E1) as [W1 _].
    assert (Hc2 : forall ps d, In (ps, d) (calls (log_call (log_call s (useful s) (H s)) (useful_like s t1) (sum (tactic s)))) ->
                  (exists f, ps = filter f (prios s)) /\ d <= H s).
    { intros ps d Hin. change (In (ps, d) ((useful_like s t1, sum (tactic s)) :: calls (log_call s (useful s) (H s)))) in Hin.
      destruct Hin as [E|Hin]; [|auto]. inversion E; subst. split; [|lia]. unfold useful_like. eexists; reflexivity. }
    destruct (safe_divide (dv (S (ncalls s))) (useful_like s t1) (sum (tactic s)) (reset t1)) as [t2|e] eqn:E2.
    + destruct (safe_divide_wf _ _ _ _ _ W1 E2) as [W2 [Hd|Hd]];
      apply (with_tac_inv s); auto; fin;
      match goal with |- context [filled ?a ?b] => destruct (filled a b) end; fin.
    + apply (with_tac_inv s); auto; fin.
  - apply (with_tac_inv s); auto; fin.
Qed.

Theorem sched_step_inv s s' : Inv s -> sched_step dv s = Some s' -> Inv s'.
Proof.
  intros Hinv Hstep. pose proof Hinv as Hinv0. inv_fields Hinv.
  unfold sched_step in Hstep. destruct (pcs s) eqn:Epc.
  - (* Calc *) inversion Hstep; subst. now apply step_calc_inv.
  - (* WaitFb *)
    destruct (fbq s) as [|p q] eqn:Efb; [discriminate|]. inversion Hstep; subst.
    apply pop_fb_inv; auto; fin.
  - (* Prio *)
    assert (Hr : sum (actual s) + sum (tactic s) <= H s) by (apply Hround; reflexivity).
    destruct rest as [|p r].
    + inversion Hstep; subst. apply with_pc_inv; auto; fin; destruct ph; fin.
    + inversion Hstep; subst. apply with_pc_inv; auto; fin; destruct (drained s p); fin.
  - (* Read *)
    assert (Hr : sum (actual s) + sum (tactic s) <= H s) by (apply Hround; reflexivity).
    destruct (get (tactic s) p =? 0) eqn:Et.
    + inversion Hstep; subst. apply with_pc_inv; auto; fin.
    + apply N.eqb_neq in Et. destruct (inq s p) as [|x q] eqn:Eq.
      * destruct (closed s p).
        -- inversion Hstep; subst. constructor; proj; auto; fin.
        -- destruct (buffered s p); [|discriminate]. inversion Hstep; subst. apply with_pc_inv; auto; fin.
      * inversion Hstep; subst. constructor; proj; auto; fin.
        intros ph0 p0 x0 r0 pr0 Heq. inversion Heq; subst. lia.
  - (* Send *)
    assert (Hr : sum (actual s) + sum (tactic s) <= H s) by (apply Hround; reflexivity).
    assert (Ht : 1 <= get (tactic s) p) by (eapply Hsend; eauto).
    destruct (N.of_nat (length (outq s)) <? outcap s); [|discriminate]. inversion Hstep; subst.
    pose proof (get_le_sum (tactic s) p Hndt) as Hle.
    pose proof (sum_inc (actual s) p Hnda) as Hi. pose proof (sum_dec (tactic s) p Hndt Ht) as Hd.
    constructor; proj.
    + now apply nodup_inc.
    + now apply nodup_dec.
    + exact Hndp.
    + intros q. rewrite get_inc. unfold cnt; proj. rewrite map_app. cbn [map fst]. rewrite count_snoc.
      specialize (Hacc q). unfold cnt in Hacc. destruct (N.eqb_spec q p) as [E|Hne]; [subst q|]; lia.
    + unfold inflight in *; proj. rewrite app_length. cbn [length]. rewrite Nat2N.inj_add. cbn [N.of_nat]. lia.
    + lia.
    + intros _. lia.
    + fin.
    + fin.
    + exact Hcalls.
  - (* Recalc *)
    assert (Hr : sum (actual s) + sum (tactic s) <= H s) by (apply Hround; reflexivity).
    inversion Hstep; subst. now apply step_recalc_inv.
  - (* EndBase *)
    destruct (proc =? 0); [destruct (forallb (drained s) (prios s))|]; inversion Hstep; subst; apply with_pc_inv; auto; fin.
  - (* Idle *) discriminate.
  - (* LimFb *)
    destruct k as [|k].
    + inversion Hstep; subst. apply with_pc_inv; auto; fin.
    + destruct (fbq s) as [|p q] eqn:Efb; inversion Hstep; subst.
      * apply with_pc_inv; auto; fin.
      * apply pop_fb_inv; auto; fin.
  - (* Drain *)
    destruct (sum (actual s) =? 0) eqn:Ez.
    + inversion Hstep; subst. apply N.eqb_eq in Ez. apply with_pc_inv; auto; fin.
    + destruct (fbq s) as [|p q] eqn:Efb; inversion Hstep; subst. apply pop_fb_inv; auto; fin.
  - discriminate.
Qed.

Theorem env_step_inv s o s' : Inv s -> env_step s o = Some s' -> Inv s'.
Proof.
  intros Hinv Hstep. pose proof Hinv as Hinv0. inv_fields Hinv. destruct o as [p x|p| |p|]; cbn [env_step] in Hstep.
  - destruct (closed s p); inversion Hstep; subst. constructor; proj; auto.
  - inversion Hstep; subst. constructor; proj; auto.
  - destruct (outq s) as [|[p x] q] eqn:Eo; inversion Hstep; subst. constructor; proj; auto.
    + intros q0. specialize (Hacc q0). unfold cnt in *; proj. rewrite Eo in Hacc. cbn [map fst count] in *.
      revert Hacc; destruct (N.eqb q0 p); intros; lia.
    + unfold inflight in *; proj. rewrite Eo in Hsum. cbn [length] in *. rewrite ?Nat2N.inj_succ in *. lia.
  - destruct (remove1 p (held s)) as [h|] eqn:Er; inversion Hstep; subst.
    destruct (remove1_spec _ _ _ Er) as [Hl Hc]. constructor; proj; auto.
    + intros q0. specialize (Hacc q0). unfold cnt in *; proj. rewrite count_snoc. rewrite Hc in Hacc.
      revert Hacc; destruct (N.eqb q0 p); intros; lia.
    + unfold inflight in *; proj. rewrite app_length. cbn [length]. rewrite Hl in Hsum.
      rewrite ?Nat2N.inj_succ, ?Nat2N.inj_add in *. cbn [N.of_nat]. lia.
  - destruct (pcs s) eqn:Epc; try (inversion Hstep; subst; assumption).
    + (* Read *)
      assert (Hr : sum (actual s) + sum (tactic s) <= H s) by (apply Hround; reflexivity).
      destruct (negb (get (tactic s) p =? 0) && negb (buffered s p) && negb (closed s p) && match inq s p with [] => true | _ => false end);
        inversion Hstep; subst; auto.
      apply with_pc_inv; auto; destruct intr; fin.
    + (* Idle *) inversion Hstep; subst. apply with_pc_inv; auto; fin.
Qed.

Lemma reachable_inv s0 s : Init s0 -> reachable dv s0 s -> Inv s.
Proof.
  intros I Hr. induction Hr as [|s s' Hr IH Hs|s o s' Hr IH Hs].
  - now apply Init_Inv.
  - eapply sched_step_inv; eauto.
  - eapply env_step_inv; eauto.
Qed.

(* ---------- C01 ---------- *)
Theorem prio2_accounting : forall s0 s, Init s0 -> reachable dv s0 s -> forall p, get (actual s) p = cnt s p.
Proof. intros s0 s I Hr. apply (i_acc s). eapply reachable_inv; eauto. Qed.
Print Assumptions prio2_accounting.

Theorem prio2_capacity : forall s0 s, Init s0 -> reachable dv s0 s ->
  N.of_nat (length (outq s)) + N.of_nat (length (held s)) + N.of_nat (length (fbq s)) = sum (actual s) /\ sum (actual s) <= H s.
Proof.
  intros s0 s I Hr. pose proof (reachable_inv _ _ I Hr) as Hinv. inv_fields Hinv. unfold inflight in Hsum. split; [lia|assumption].
Qed.
Print Assumptions prio2_capacity.

Theorem prio2_round_budget : forall s0 s, Init s0 -> reachable dv s0 s ->
  match pcs s with Prio _ _ _ | Read _ _ _ _ _ | Send _ _ _ _ _ | Recalc _ => sum (actual s) + sum (tactic s) <= H s | _ => True end.
Proof.
  intros s0 s I Hr. pose proof (reachable_inv _ _ I Hr) as Hinv. inv_fields Hinv.
  destruct (pcs s); auto; apply Hround; reflexivity.
Qed.
Print Assumptions prio2_round_budget.

(* ---------- Inv2: data flow ---------- *)
Lemma limbo_not_send s p : not_send (pcs s) -> limbo s p = [].
Proof. unfold limbo, not_send. intros Hn. destruct (pcs s); auto. exfalso. eapply Hn; reflexivity. Qed.

Lemma of_prio_snoc p0 l p x : of_prio p0 (l ++ [(p, x)]) = of_prio p0 l ++ (if N.eqb p p0 then [x] else []).
Proof. unfold of_prio. rewrite filter_app, map_app. cbn [filter fst]. destruct (N.eqb p p0); reflexivity. Qed.

Definition same_data (s s1 : st) : Prop :=
  prios s1 = prios s /\ delivered s1 = delivered s /\ inq s1 = inq s /\ written s1 = written s /\
  closed s1 = closed s /\ drained s1 = drained s.

Lemma frame_same_pc s s1 : Inv2 s -> same_data s s1 -> pcs s1 = pcs s -> Inv2 s1.
Proof.
  intros [Hsp Hrest Htag Hdr Hall] (Ep & Ed & Ei & Ew & Ec & Edr) Epc.
  constructor; unfold limbo; rewrite ?Ep, ?Ed, ?Ei, ?Ew, ?Ec, ?Edr, ?Epc; auto.
Qed.

Lemma frame_new_pc s s1 : Inv2 s -> same_data s s1 -> not_send (pcs s) -> not_send (pcs s1) ->
  pc_rest_ok (prios s) (pcs s1) ->
  (pcs s1 = Drain None \/ pcs s1 = Done None -> forall p, In p (prios s) -> drained s p = true) -> Inv2 s1.
Proof.
  intros [Hsp Hrest Htag Hdr Hall] (Ep & Ed & Ei & Ew & Ec & Edr) Hn Hn1 Hr1 Ha1.
  constructor; rewrite ?Ep, ?Ed, ?Ei, ?Ew, ?Ec, ?Edr; auto.
  intros p. rewrite (limbo_not_send s1 p Hn1). rewrite <- (limbo_not_send s p Hn). apply Hsp.
Qed.

Ltac same_data0 := repeat split; reflexivity.

Lemma with_pc_inv2 s c : Inv2 s -> not_send (pcs s) -> not_send c -> pc_rest_ok (prios s) c ->
  (c = Drain None \/ c = Done None -> forall p, In p (prios s) -> drained s p = true) -> Inv2 (with_pc s c).
Proof. intros. apply (frame_new_pc s); auto. same_data0. Qed.

Lemma pop_fb_inv2 s p q c : Inv2 s -> not_send (pcs s) -> not_send c -> pc_rest_ok (prios s) c ->
  (c = Drain None \/ c = Done None -> forall p, In p (prios s) -> drained s p = true) -> Inv2 (pop_fb s p q c).
Proof. intros. apply (frame_new_pc s); auto. same_data0. Qed.

(* shape of the result of the three tactic computations *)
Definition calc_pc (s : st) (c : pc) : Prop := c = WaitFb \/ c = Prio P1 (prios s) 0 \/ exists e, c = Drain (Some e).

Lemma calc_base_shape s v : same_data s (calc_base dv s v) /\ calc_pc s (pcs (calc_base dv s v)).
Proof.
  unfold calc_base, calc_pc. destruct (safe_divide (dv (ncalls s)) (uncrowded s) v (reset (tactic s))) as [t|e].
  - split; [same_data0|]. proj. destruct (filled t (uncrowded s)); auto.
  - split; [same_data0|]. proj. right; right; eexists; reflexivity.
Qed.

Lemma step_calc_shape s : same_data s (step_calc dv s) /\ calc_pc s (pcs (step_calc dv s)).
Proof.
  unfold step_calc. destruct (H s - sum (actual s) =? 0).
  - split; [same_data0|]. left; reflexivity.
  - destruct (add_up (prios s) (actual s) (strategic s) (reset (tactic s)) 0) as [[t picked]|]; [|apply calc_base_shape].
    destruct (picked =? H s - sum (actual s)); [|apply calc_base_shape].
    split; [same_data0|]. right; left; reflexivity.
Qed.

Lemma step_recalc_shape s proc : same_data s (step_recalc dv s proc) /\
  (pcs (step_recalc dv s proc) = Prio P2 (prios s) proc \/ pcs (step_recalc dv s proc) = EndBase proc \/
   exists e, pcs (step_recalc dv s proc) = Drain (Some e)).
Proof.
  unfold step_recalc. destruct (safe_divide (dv (ncalls s)) (useful s) (H s) (reset (tactic s))) as [t1|e].
  - destruct (safe_divide (dv (S (ncalls s))) (useful_like s t1) (sum (tactic s)) (reset t1)) as [t2|e].
    + split; [same_data0|]. proj. destruct (filled t2 (useful_like s t1)); auto.
    + split; [same_data0|]. proj. right; right; eexists; reflexivity.
  - split; [same_data0|]. proj. right; right; eexists; reflexivity.
Qed.

Ltac fin2 := try solve [discriminate | notsend0 | assumption | reflexivity | exact I | apply incl_refl
                       | intros [?|?]; discriminate ].

Theorem sched_step_inv2 s s' : Inv2 s -> sched_step dv s = Some s' -> Inv2 s'.
Proof.
  intros Hinv Hstep. pose proof Hinv as Hinv0. destruct Hinv as [Hsp Hrest Htag Hdr Hall].
  unfold sched_step in Hstep. destruct (pcs s) eqn:Epc.
  - (* Calc *) inversion Hstep; subst. destruct (step_calc_shape s) as [Hsd Hpc].
    apply (frame_new_pc s); auto; try (rewrite Epc; fin2);
      destruct Hpc as [E|[E|[e E]]]; rewrite E; cbn [pc_rest_ok]; fin2.
  - (* WaitFb *)
    destruct (fbq s) as [|p q] eqn:Efb; [discriminate|]. inversion Hstep; subst.
    apply pop_fb_inv2; auto; try (rewrite Epc); fin2.
  - (* Prio *)
    cbn [pc_rest_ok] in Hrest. destruct rest as [|p r].
    + inversion Hstep; subst. apply with_pc_inv2; auto; try (rewrite Epc); destruct ph; cbn [pc_rest_ok]; fin2.
    + assert (Hp : In p (prios s)) by (apply Hrest; left; reflexivity).
      assert (Hr : incl r (prios s)) by (intros a Ha; apply Hrest; right; exact Ha).
      inversion Hstep; subst. apply with_pc_inv2; auto; try (rewrite Epc); destruct (drained s p); cbn [pc_rest_ok]; fin2.
      split; assumption.
  - (* Read *)
    cbn [pc_rest_ok] in Hrest. destruct Hrest as [Hp Hr].
    destruct (get (tactic s) p =? 0) eqn:Et.
    + inversion Hstep; subst. apply with_pc_inv2; auto; try (rewrite Epc); cbn [pc_rest_ok]; fin2.
    + destruct (inq s p) as [|x q] eqn:Eq.
      * destruct (closed s p) eqn:Ecl.
        -- inversion Hstep; subst. constructor; proj.
           ++ intros p0. unfold limbo in *; proj. specialize (Hsp p0). rewrite Epc in Hsp. exact Hsp.
           ++ cbn [pc_rest_ok]. exact Hr.
           ++ exact Htag.
           ++ intros p0. unfold upd. destruct (N.eqb_spec p0 p) as [->|Hne]; auto.
           ++ intros [E|E]; discriminate.
        -- destruct (buffered s p); [|discriminate]. inversion Hstep; subst.
           apply with_pc_inv2; auto; try (rewrite Epc); cbn [pc_rest_ok]; fin2.
      * inversion Hstep; subst. constructor; proj.
        ++ intros p0. unfold limbo in *; proj. specialize (Hsp p0). rewrite Epc in Hsp. cbn [app] in Hsp. unfold upd.
           rewrite (N.eqb_sym p0 p). destruct (N.eqb_spec p p0) as [<-|Hne]; [|exact Hsp].
           rewrite Eq in Hsp. exact Hsp.
        ++ cbn [pc_rest_ok]. split; assumption.
        ++ exact Htag.
        ++ intros p0 Hd0. unfold upd. destruct (Hdr p0 Hd0) as [Hc0 Hi0]. split; auto.
           destruct (N.eqb_spec p0 p) as [->|Hne]; auto. rewrite Eq in Hi0. discriminate.
        ++ intros [E|E]; discriminate.
  - (* Send *)
    cbn [pc_rest_ok] in Hrest. destruct Hrest as [Hp Hr].
    destruct (N.of_nat (length (outq s)) <? outcap s); [|discriminate]. inversion Hstep; subst.
    constructor; proj.
    + intros p0. unfold limbo in *; proj. specialize (Hsp p0). rewrite Epc in Hsp. rewrite of_prio_snoc.
      cbn [app]. rewrite <- app_assoc. exact Hsp.
    + cbn [pc_rest_ok]. split; assumption.
    + intros p0 x0 Hin. apply in_app_or in Hin. destruct Hin as [Hin|[E|[]]]; [eauto|]. inversion E; subst. exact Hp.
    + exact Hdr.
    + intros [E|E]; discriminate.
  - (* Recalc *)
    inversion Hstep; subst. destruct (step_recalc_shape s proc) as [Hsd Hpc].
    apply (frame_new_pc s); auto; try (rewrite Epc; fin2);
      destruct Hpc as [E|[E|[e E]]]; rewrite E; cbn [pc_rest_ok]; fin2.
  - (* EndBase *)
    destruct (proc =? 0).
    + destruct (forallb (drained s) (prios s)) eqn:Ef; inversion Hstep; subst; apply with_pc_inv2; auto; try (rewrite Epc); fin2.
      intros _. rewrite forallb_forall in Ef. exact Ef.
    + inversion Hstep; subst; apply with_pc_inv2; auto; try (rewrite Epc); fin2.
  - (* Idle *) discriminate.
  - (* LimFb *)
    destruct k as [|k].
    + inversion Hstep; subst. apply with_pc_inv2; auto; try (rewrite Epc); fin2.
    + destruct (fbq s) as [|p q] eqn:Efb; inversion Hstep; subst.
      * apply with_pc_inv2; auto; try (rewrite Epc); fin2.
      * apply pop_fb_inv2; auto; try (rewrite Epc); fin2.
  - (* Drain *)
    assert (Ha : forall c, c = Drain e \/ c = Done e -> c = Drain None \/ c = Done None -> forall p, In p (prios s) -> drained s p = true).
    { intros c Hc Hn. apply Hall. left. destruct Hc as [->| ->]; destruct Hn as [E|E]; inversion E; reflexivity. }
    destruct (sum (actual s) =? 0) eqn:Ez.
    + inversion Hstep; subst. apply with_pc_inv2; auto; try (rewrite Epc); fin2; try (apply Ha; auto).
    + destruct (fbq s) as [|p q] eqn:Efb; inversion Hstep; subst. apply pop_fb_inv2; auto; try (rewrite Epc); fin2; try (apply Ha; auto).
  - discriminate.
Qed.

Theorem env_step_inv2 s o s' : Inv2 s -> env_step s o = Some s' -> Inv2 s'.
Proof.
  intros Hinv Hstep. pose proof Hinv as Hinv0. destruct Hinv as [Hsp Hrest Htag Hdr Hall].
  destruct o as [p x|p| |p|]; cbn [env_step] in Hstep.
  - destruct (closed s p) eqn:Ecl; inversion Hstep; subst. constructor; proj; [ | exact Hrest | exact Htag | | exact Hall].
    + intros p0. unfold limbo in *; proj. specialize (Hsp p0). unfold upd.
      destruct (N.eqb_spec p0 p) as [->|Hne]; [|exact Hsp]. rewrite <- Hsp. rewrite <- !app_assoc. reflexivity.
    + intros p0 Hd0. destruct (Hdr p0 Hd0) as [Hc0 Hi0]. split; auto. unfold upd.
      destruct (N.eqb_spec p0 p) as [->|Hne]; auto. rewrite Ecl in Hc0. discriminate.
  - inversion Hstep; subst. constructor; proj; [ exact Hsp | exact Hrest | exact Htag | | exact Hall].
    intros p0 Hd0. destruct (Hdr p0 Hd0) as [Hc0 Hi0]. split; auto. unfold upd. destruct (N.eqb p0 p); auto.
  - destruct (outq s) as [|px q] eqn:Eo; inversion Hstep; subst. apply (frame_same_pc s); auto. same_data0.
  - destruct (remove1 p (held s)) as [h|] eqn:Er; inversion Hstep; subst. apply (frame_same_pc s); auto. same_data0.
  - destruct (pcs s) eqn:Epc; try (inversion Hstep; subst; assumption).
    + (* Read *)
      cbn [pc_rest_ok] in Hrest. destruct Hrest as [Hp Hr].
      destruct (negb (get (tactic s) p =? 0) && negb (buffered s p) && negb (closed s p) && match inq s p with [] => true | _ => false end);
        inversion Hstep; subst; auto.
      apply with_pc_inv2; auto; try (rewrite Epc); destruct intr; cbn [pc_rest_ok]; fin2. split; assumption.
    + (* Idle *) inversion Hstep; subst. apply with_pc_inv2; auto; try (rewrite Epc); fin2.
Qed.

Lemma reachable_inv2 s0 s : Init s0 -> reachable dv s0 s -> Inv2 s.
Proof.
  intros I Hr. induction Hr as [|s s' Hr IH Hs|s o s' Hr IH Hs].
  - now apply Init_Inv2.
  - eapply sched_step_inv2; eauto.
  - eapply env_step_inv2; eauto.
Qed.

(* ---------- C02 ---------- *)
Theorem prio2_split : forall s0 s, Init s0 -> reachable dv s0 s -> forall p, In p (prios s) ->
  of_prio p (delivered s) ++ limbo s p ++ inq s p = written s p.
Proof. intros s0 s I Hr p _. apply (j_split s). eapply reachable_inv2; eauto. Qed.
Print Assumptions prio2_split.

Theorem prio2_tags : forall s0 s, Init s0 -> reachable dv s0 s -> forall p x, In (p, x) (delivered s) -> In p (prios s).
Proof. intros s0 s I Hr. apply (j_tags s). eapply reachable_inv2; eauto. Qed.
Print Assumptions prio2_tags.

Theorem prio2_exactly_once : forall s0 s, Init s0 -> reachable dv s0 s -> pcs s = Done None ->
  forall p, In p (prios s) -> of_prio p (delivered s) = written s p.
Proof.
  intros s0 s I Hr Hpc p Hp. destruct (reachable_inv2 _ _ I Hr) as [Hsp Hrest Htag Hdr Hall].
  specialize (Hsp p). unfold limbo in Hsp. rewrite Hpc in Hsp.
  destruct (Hdr p (Hall (or_intror Hpc) p Hp)) as [_ Hi]. rewrite Hi in Hsp. cbn [app] in Hsp. rewrite app_nil_r in Hsp. exact Hsp.
Qed.
Print Assumptions prio2_exactly_once.

(* ---------- C07 ---------- *)
Lemma length_zero_nil {A} (l : list A) : N.of_nat (length l) = 0 -> l = [].
Proof. destruct l; [reflexivity|]. cbn [length]. rewrite Nat2N.inj_succ. lia. Qed.

Theorem prio2_done_only_when : forall s0 s e, Init s0 -> reachable dv s0 s -> pcs s = Done e ->
  sum (actual s) = 0 /\ outq s = [] /\ held s = [] /\ fbq s = [] /\
  (e = None -> forall p, In p (prios s) -> closed s p = true /\ inq s p = []).
Proof.
  intros s0 s e I Hr Hpc. pose proof (reachable_inv _ _ I Hr) as Hinv. inv_fields Hinv.
  destruct (reachable_inv2 _ _ I Hr) as [Hsp Hrest Htag Hdr Hall].
  pose proof (Hdone e Hpc) as Hz. unfold inflight in Hsum.
  split; [exact Hz|]. repeat split; try (apply length_zero_nil; lia).
  - subst e. apply Hdr. apply Hall; auto.
  - subst e. apply Hdr. apply Hall; auto.
Qed.
Print Assumptions prio2_done_only_when.

Ltac destruct_matches Hs :=
  repeat match type of Hs with context [match ?x with _ => _ end] => destruct x eqn:? end.

Lemma sched_step_const s s' : sched_step dv s = Some s' -> H s' = H s /\ prios s' = prios s.
Proof.
  intros Hs. unfold sched_step, step_calc, calc_base, step_recalc in Hs.
  destruct_matches Hs; try discriminate; inversion Hs; subst; split; reflexivity.
Qed.
Lemma env_step_const s o s' : env_step s o = Some s' -> H s' = H s /\ prios s' = prios s.
Proof.
  intros Hs. unfold env_step in Hs.
  destruct_matches Hs; try discriminate; inversion Hs; subst; split; reflexivity.
Qed.
Lemma reachable_const s0 s : reachable dv s0 s -> H s = H s0 /\ prios s = prios s0.
Proof.
  intros Hr. induction Hr as [|s s' Hr [IH1 IH2] Hs|s o s' Hr [IH1 IH2] Hs]; auto.
  - apply sched_step_const in Hs. destruct Hs; split; congruence.
  - apply env_step_const in Hs. destruct Hs; split; congruence.
Qed.

Definition noerr (c : pc) : Prop := forall e, c <> Drain (Some e) /\ c <> Done (Some e).
Ltac triv := let e0 := fresh "e0" in intros e0; split; discriminate.

Section NoError.
(* each divider call either adds exactly the dividend or adds nothing (what Fair/Rate do for an empty priority list) *)
Hypothesis sumrule : forall k ps n d, NoDup (keys d) -> sum (dv k ps n d) = sum d + n \/ sum (dv k ps n d) = sum d.

Lemma safe_divide_ok k ps n t : NoDup (keys t) -> n < two64 ->
  safe_divide (dv k) ps n (reset t) = inl (dv k ps n (reset t)).
Proof.
  intros ND Hn. unfold safe_divide, safe_sum. rewrite sum_reset. change (0 <? two64) with true. cbv iota.
  destruct (sumrule k ps n (reset t) (nodup_keys_reset _ ND)) as [Hs|Hs]; rewrite Hs, sum_reset, ?N.add_0_l.
  - apply N.ltb_lt in Hn. rewrite Hn. destruct (n =? 0); auto. apply N.ltb_lt in Hn. rewrite wrap_sub by auto.
    rewrite N.eqb_refl. reflexivity.
  - change (0 <? two64) with true. cbv iota. rewrite N.eqb_refl. reflexivity.
Qed.

Lemma calc_base_noerr s v : Inv s -> H s < two64 -> v <= H s -> noerr (pcs (calc_base dv s v)).
Proof.
  intros Hinv Hlt Hv. unfold calc_base. rewrite safe_divide_ok by (try apply (i_ndt s Hinv); lia).
  proj. destruct (filled _ _); triv.
Qed.

Lemma sched_step_noerr s s' : Inv s -> H s < two64 -> noerr (pcs s) -> sched_step dv s = Some s' -> noerr (pcs s').
Proof.
  intros Hinv Hlt Hn Hs. pose proof Hinv as Hinv0. inv_fields Hinv. unfold sched_step in Hs. destruct (pcs s) eqn:Epc.
  - (* Calc *) inversion Hs; subst. unfold step_calc.
    destruct (H s - sum (actual s) =? 0); [proj; triv|].
    destruct (add_up _ _ _ _ _) as [[t picked]|]; [destruct (picked =? _); [proj; triv|]|]; apply calc_base_noerr; auto; lia.
  - destruct_matches Hs; try discriminate; inversion Hs; subst; proj; triv.
  - destruct_matches Hs; try discriminate; inversion Hs; subst; proj; triv.
  - destruct_matches Hs; try discriminate; inversion Hs; subst; proj; triv.
  - destruct_matches Hs; try discriminate; inversion Hs; subst; proj; triv.
  - (* Recalc *)
    assert (Hr : sum (actual s) + sum (tactic s) <= H s) by (apply Hround; reflexivity).
    inversion Hs; subst. unfold step_recalc.
    rewrite safe_divide_ok by (auto; lia).
    assert (W1 : NoDup (keys (dv (ncalls s) (useful s) (H s) (reset (tactic s))))) by (apply dv_wf; now apply nodup_keys_reset).
    rewrite safe_divide_ok by (auto; lia).
    proj. destruct (filled _ _); triv.
  - destruct_matches Hs; try discriminate; inversion Hs; subst; proj; triv.
  - discriminate.
  - destruct_matches Hs; try discriminate; inversion Hs; subst; proj; triv.
  - (* Drain *)
    destruct e as [e|]; [exfalso; destruct (Hn e) as [Hx _]; apply Hx; reflexivity|].
    destruct_matches Hs; try discriminate; inversion Hs; subst; proj; triv.
  - discriminate.
Qed.

Lemma env_step_noerr s o s' : noerr (pcs s) -> env_step s o = Some s' -> noerr (pcs s').
Proof.
  intros Hn Hs. unfold env_step in Hs.
  destruct_matches Hs; try discriminate; inversion Hs; subst; proj; try exact Hn; try triv.
  all: match goal with E : pcs _ = _ |- _ => first [rewrite E; exact Hn | rewrite <- E; exact Hn] end.
Qed.

Theorem prio2_no_error_gen : forall s0 s, Init s0 -> reachable dv s0 s -> H s0 < two64 ->
  forall e, pcs s <> Drain (Some e) /\ pcs s <> Done (Some e).
Proof.
  intros s0 s I Hr Hlt. change (noerr (pcs s)).
  induction Hr as [|s s' Hr IH Hs|s o s' Hr IH Hs].
  - rewrite (in_pc s0 I). triv.
  - apply (sched_step_noerr s s'); auto.
    + eapply reachable_inv; eauto.
    + destruct (reachable_const _ _ Hr) as [E _]. rewrite E. exact Hlt.
  - eapply env_step_noerr; eauto.
Qed.
Print Assumptions prio2_no_error_gen.
End NoError.

Theorem prio2_no_error : forall s0 s, Init s0 -> reachable dv s0 s -> H s0 < two64 ->
  (forall k ps n d, NoDup (keys d) -> sum (dv k ps n d) = sum d + n) ->      (* the divider obeys the sum rule *)
  forall e, pcs s <> Drain (Some e) /\ pcs s <> Done (Some e).
Proof.
  intros s0 s I Hr Hlt Hrule. eapply prio2_no_error_gen; eauto.
Qed.
Print Assumptions prio2_no_error.

(* ---------- C15 ---------- *)
Theorem prio2_contract : forall s0 s, Init s0 -> reachable dv s0 s ->
  forall ps d, In (ps, d) (calls s) -> (exists f, ps = filter f (prios s)) /\ d <= H s.
Proof. intros s0 s I Hr. apply (i_calls s). eapply reachable_inv; eauto. Qed.
Print Assumptions prio2_contract.

Lemma StronglySorted_filter {A} (R : A -> A -> Prop) (f : A -> bool) l : StronglySorted R l -> StronglySorted R (filter f l).
Proof.
  induction 1 as [|a l Hs IH Hf]; cbn [filter]; [constructor|].
  destruct (f a); auto. constructor; auto.
  rewrite Forall_forall in *. intros x Hx. apply Hf. apply filter_In in Hx. tauto.
Qed.

(* every priority list handed to the divider is duplicate-free and ordered like the configured list *)
Corollary prio2_contract_sorted : forall (R : N -> N -> Prop) s0 s, Init s0 -> reachable dv s0 s ->
  forall ps d, In (ps, d) (calls s) -> NoDup ps /\ (StronglySorted R (prios s) -> StronglySorted R ps) /\ incl ps (prios s).
Proof.
  intros R s0 s I Hr ps d Hin. destruct (prio2_contract _ _ I Hr _ _ Hin) as [[f ->] _].
  split; [|split].
  - apply filter_nodup. apply (i_ndp s). eapply reachable_inv; eauto.
  - apply StronglySorted_filter.
  - intros x Hx. apply filter_In in Hx. tauto.
Qed.
Print Assumptions prio2_contract_sorted.

Lemma sched_step_fault s s' e : pcs s = Drain e \/ pcs s = Done e -> sched_step dv s = Some s' ->
  (pcs s' = Drain e \/ pcs s' = Done e) /\ delivered s' = delivered s.
Proof.
  intros [Hpc|Hpc] Hs; unfold sched_step in Hs; rewrite Hpc in Hs; [|discriminate].
  destruct_matches Hs; try discriminate; inversion Hs; subst; proj; auto.
Qed.
Lemma env_step_fault s o s' e : pcs s = Drain e \/ pcs s = Done e -> env_step s o = Some s' ->
  (pcs s' = Drain e \/ pcs s' = Done e) /\ delivered s' = delivered s.
Proof.
  intros Hpc Hs. unfold env_step in Hs.
  destruct o as [p x|p| |p|].
  1-4: destruct_matches Hs; try discriminate; inversion Hs; subst; proj; auto.
  destruct Hpc as [Hpc|Hpc]; rewrite Hpc in Hs; inversion Hs; subst; auto.
Qed.

Theorem prio2_fault_stops : forall s0 s s' e, Init s0 -> reachable dv s0 s -> pcs s = Drain (Some e) -> reachable dv s s' ->
  (pcs s' = Drain (Some e) \/ pcs s' = Done (Some e)) /\ delivered s' = delivered s.
Proof.
  intros s0 s s' e _ _ Hpc Hr.
  induction Hr as [|s1 s2 Hr [IH1 IH2] Hs|s1 o s2 Hr [IH1 IH2] Hs]; auto.
  - destruct (sched_step_fault _ _ _ IH1 Hs) as [H1 H2]. split; [auto|congruence].
  - destruct (env_step_fault _ _ _ _ IH1 Hs) as [H1 H2]. split; [auto|congruence].
Qed.
Print Assumptions prio2_fault_stops.

Theorem prio2_bad_sum_detected : forall k ps n t r, sum t = 0 -> safe_divide (dv k) ps n t = inl r -> sum r = n \/ sum r = 0.
Proof. intros k ps n t r. apply safe_divide_sum. Qed.
Print Assumptions prio2_bad_sum_detected.

Fixpoint iter_sched (n : nat) (s : st) : option st :=
  match n with
  | O => Some s
  | S n' => match sched_step dv s with None => None | Some s' => iter_sched n' s' end
  end.

Lemma drain_aux : forall l s e, fbq s = l -> pcs s = Drain e -> sum (actual s) = N.of_nat (length l) ->
  (forall p, get (actual s) p = count p l) -> NoDup (keys (actual s)) ->
  exists s', iter_sched (S (length l)) s = Some s' /\ pcs s' = Done e.
Proof.
  induction l as [|p q IH]; intros s e Hfb Hpc Hsum Hget Hnd.
  - exists (with_pc s (Done e)). cbn [length iter_sched]. unfold sched_step. rewrite Hpc, Hsum. cbn [length N.of_nat N.eqb].
    split; reflexivity.
  - cbn [length] in *. change (iter_sched (S (S (length q))) s) with
      (match sched_step dv s with None => None | Some s' => iter_sched (S (length q)) s' end).
    assert (Hstep : sched_step dv s = Some (pop_fb s p q (Drain e))).
    { unfold sched_step. rewrite Hpc, Hfb. destruct (N.eqb_spec (sum (actual s)) 0) as [E|_]; [|reflexivity].
      rewrite Nat2N.inj_succ in Hsum. lia. }
    rewrite Hstep.
    assert (Hge : 1 <= get (actual s) p). { rewrite Hget. cbn [count]. rewrite N.eqb_refl. lia. }
    apply IH; proj; auto.
    + pose proof (sum_dec (actual s) p Hnd Hge). rewrite Nat2N.inj_succ in Hsum. lia.
    + intros p0. rewrite get_dec. specialize (Hget p0). cbn [count] in Hget.
      revert Hget. destruct (N.eqb_spec p0 p) as [E|Hne]; intros Hget; [subst p0|]; lia.
    + now apply nodup_dec.
Qed.

Theorem prio2_drain_terminates : forall s e, pcs s = Drain e -> sum (actual s) = N.of_nat (length (fbq s)) ->
  (forall p, get (actual s) p = count p (fbq s)) -> NoDup (keys (actual s)) ->
  exists s', iter_sched (S (length (fbq s))) s = Some s' /\ pcs s' = Done e.
Proof. intros s e Hpc Hsum Hget Hnd. apply drain_aux; auto. Qed.
Print Assumptions prio2_drain_terminates.

End Proofs.

(* after closing the section the only premises are the explicit ones (dv, dv_wf where used) *)
Print Assumptions prio2_accounting.
Print Assumptions prio2_capacity.
Print Assumptions prio2_round_budget.
Print Assumptions prio2_split.
Print Assumptions prio2_tags.
Print Assumptions prio2_exactly_once.
Print Assumptions prio2_done_only_when.
Print Assumptions prio2_no_error_gen.
Print Assumptions prio2_no_error.
Print Assumptions prio2_contract.
Print Assumptions prio2_contract_sorted.
Print Assumptions prio2_fault_stops.
Print Assumptions prio2_bad_sum_detected.
Print Assumptions prio2_drain_terminates.

(* ---------- non-vacuity: concrete executions with the Fair divider and with a faulty divider ---------- *)
Inductive act := Sch | Env (o : env_op).
Fixpoint run (dv : nat -> Divider) (l : list act) (s : st) : option st :=
  match l with
  | [] => Some s
  | a :: r => match (match a with Sch => sched_step dv s | Env o => env_step s o end) with
              | Some s' => run dv r s'
              | None => None
              end
  end.
Lemma run_reachable dv l : forall s0 s s', reachable dv s0 s -> run dv l s = Some s' -> reachable dv s0 s'.
Proof.
  induction l as [|a r IH]; intros s0 s s' Hr Hrun; cbn [run] in Hrun.
  - inversion Hrun; subst; auto.
  - destruct a as [|o].
    + destruct (sched_step dv s) as [s1|] eqn:E; [|discriminate]. eapply IH; [|exact Hrun]. eapply r_sched; eauto.
    + destruct (env_step s o) as [s1|] eqn:E; [|discriminate]. eapply IH; [|exact Hrun]. eapply r_env; eauto.
Qed.

Definition fdv : nat -> Divider := fun _ => fair.
Lemma fdv_wf : forall k ps n d, NoDup (keys d) -> NoDup (keys (fdv k ps n d)).
Proof. intros k ps n d ND. unfold fdv, fair. destruct ps; auto. apply fair_loop_keys; auto. Qed.
(* Fair satisfies the generalized sum rule (it adds nothing for an empty priority list), not the strict one *)
Lemma fdv_sumrule : forall k ps n d, NoDup (keys d) -> sum (fdv k ps n d) = sum d + n \/ sum (fdv k ps n d) = sum d.
Proof. intros k ps n d ND. unfold fdv. destruct ps as [|p r]; [right; reflexivity|]. left. apply fair_conserves; [discriminate|auto]. Qed.

Definition ex_s0 : st := init_state [1; 2] 2 [2; 1] [(2, 1); (1, 1)] (fun _ => true).
Example ex_new : new_v2 fdv [1; 2] 2 (fun _ => true) = inl ex_s0.
Proof. vm_compute. reflexivity. Qed.
Lemma ex_init : Init ex_s0.
Proof.
  apply init_state_Init; cbn [keys]; repeat constructor; cbn [In]; intros Hx; repeat (destruct Hx as [Hx|Hx]; try discriminate); auto.
Qed.

(* Put 7 to priority 2; Calc; Prio; Read; Send (push to output); a handler takes and releases it *)
Definition ex_script : list act := [Env (Put 2 7); Sch; Sch; Sch; Sch; Env Take; Env (Release 2)].
Definition ex_s1 : st := Eval vm_compute in match run fdv ex_script ex_s0 with Some s => s | None => ex_s0 end.
Example ex_run : run fdv ex_script ex_s0 = Some ex_s1.
Proof. vm_compute. reflexivity. Qed.
Example ex_reach : reachable fdv ex_s0 ex_s1 /\ delivered ex_s1 = [(2, 7)] /\ written ex_s1 2 = [7] /\ fbq ex_s1 = [2] /\
  pcs ex_s1 = Read P1 2 [1] 1 false /\ get (actual ex_s1) 2 = 1 /\ calls ex_s1 = [([2; 1], 2)].
Proof.
  split.
  - eapply run_reachable; [apply r_init|exact ex_run].
  - vm_compute. repeat split; reflexivity.
Qed.
(* the theorems instantiated on this execution *)
Example ex_capacity : forall s, reachable fdv ex_s0 s ->
  N.of_nat (length (outq s)) + N.of_nat (length (held s)) + N.of_nat (length (fbq s)) = sum (actual s) /\ sum (actual s) <= 2.
Proof. intros s Hr. pose proof (prio2_capacity fdv fdv_wf ex_s0 s ex_init Hr) as Hc. destruct (reachable_const fdv _ _ Hr) as [E _]. rewrite E in Hc. exact Hc. Qed.
Example ex_no_error : forall s, reachable fdv ex_s0 s -> forall e, pcs s <> Drain (Some e) /\ pcs s <> Done (Some e).
Proof. intros s Hr. apply (prio2_no_error_gen fdv fdv_wf fdv_sumrule ex_s0 s ex_init Hr). reflexivity. Qed.

(* a faulty divider (one unit too many): detected at the first divider call, the discipline stops with ErrDividerBad *)
Definition bad_dv : nat -> Divider := fun _ ps n d => add (fair ps n d) 99 1.
Lemma bad_dv_wf : forall k ps n d, NoDup (keys d) -> NoDup (keys (bad_dv k ps n d)).
Proof. intros k ps n d ND. unfold bad_dv. apply nodup_keys_add. apply (fdv_wf k). auto. Qed.
Definition ex_bad_script : list act := [Sch; Sch; Sch; Sch; Sch; Sch; Sch].
Definition ex_f1 : st := Eval vm_compute in match run bad_dv ex_bad_script ex_s0 with Some s => s | None => ex_s0 end.
Definition ex_f2 : st := Eval vm_compute in match run bad_dv [Sch] ex_f1 with Some s => s | None => ex_s0 end.
Example ex_bad_run1 : run bad_dv ex_bad_script ex_s0 = Some ex_f1.
Proof. vm_compute. reflexivity. Qed.
Example ex_bad_run2 : run bad_dv [Sch] ex_f1 = Some ex_f2.
Proof. vm_compute. reflexivity. Qed.
Example ex_fault : reachable bad_dv ex_s0 ex_f1 /\ pcs ex_f1 = Drain (Some DividerBad) /\
  reachable bad_dv ex_f1 ex_f2 /\ pcs ex_f2 = Done (Some DividerBad) /\ calls ex_f1 = [([], 2); ([2; 1], 2)].
Proof.
  split; [eapply run_reachable; [apply r_init|exact ex_bad_run1]|].
  split; [reflexivity|].
  split; [eapply run_reachable; [apply r_init|exact ex_bad_run2]|].
  split; reflexivity.
Qed.
Print Assumptions ex_reach.
Print Assumptions ex_fault.
