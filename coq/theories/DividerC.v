(* Closeness of the Rate divider to the exact proportional share (C14, part A: pure N/Z arithmetic, axiom-free)
   and agreement of the float64 rounding part_f with the exact rational rounding part_q (part B, Flocq). *)
From Coq Require Import List NArith Lia Bool ZArith.
From Cqos Require Import Base Divider DividerP.
Import ListNotations.
Open Scope N_scope.

Definition absdiff (a b : N) : N := if a <? b then b - a else a - b.

Lemma absdiff_Z a b : Z.of_N (absdiff a b) = Z.abs (Z.of_N a - Z.of_N b).
Proof. unfold absdiff. destruct (N.ltb_spec a b); lia. Qed.

Lemma nth_le_sum_list l i : nth i l 0 <= sum_list l.
Proof. revert i. induction l as [|x r IH]; intros i; destruct i; simpl; try lia.
  specialize (IH i). lia. Qed.

Lemma sum_list_nth_in l i : (i < length l)%nat -> In (nth i l 0) l.
Proof. intros H. apply nth_In. exact H. Qed.

Section Close.
Variable part : N -> N -> N -> N.
Variables d0 S : N.

Local Open Scope Z_scope.

(* e_p = part p * S - d0 * p, as an integer *)
Definition err (p : N) : Z := Z.of_N (part d0 S p) * Z.of_N S - Z.of_N d0 * Z.of_N p.

(* Loop invariant.  A = rem*S - d0 * (sum of the remaining priorities) is minus the sum of the errors of the
   positions already processed; 2|A| <= m*S after m positions. *)
Lemma rate_incs_loop_close : forall ps rem (m : nat),
  (forall p, In p ps -> 2 * Z.abs (err p) <= Z.of_N S) ->
  2 * Z.abs (Z.of_N rem * Z.of_N S - Z.of_N d0 * Z.of_N (sum_list ps)) <= Z.of_nat m * Z.of_N S ->
  (forall i, (i < length ps)%nat ->
     2 * Z.abs (Z.of_N (nth i (fst (rate_incs_loop part d0 S ps rem)) 0%N) * Z.of_N S - Z.of_N d0 * Z.of_N (nth i ps 0%N))
       <= (Z.of_nat m + Z.of_nat (length ps)) * Z.of_N S) /\
  (forall r, snd (rate_incs_loop part d0 S ps rem) = Some r ->
     2 * Z.abs (Z.of_N r * Z.of_N S - (Z.of_N rem * Z.of_N S - Z.of_N d0 * Z.of_N (sum_list ps)))
       <= Z.of_nat (length ps) * Z.of_N S).
Proof.
  induction ps as [|p r IH]; intros rem m Hp HA.
  - split.
    + intros i Hi. simpl in Hi. lia.
    + intros x Hx. simpl in Hx. inversion Hx; subst. cbn [sum_list length]. lia.
  - assert (He : 2 * Z.abs (err p) <= Z.of_N S) by (apply Hp; left; reflexivity).
    assert (Hp' : forall q, In q r -> 2 * Z.abs (err q) <= Z.of_N S) by (intros q Hq; apply Hp; right; exact Hq).
    unfold err in He.
    cbn [rate_incs_loop sum_list length] in *.
    rewrite N2Z.inj_add in HA. rewrite Nat2Z.inj_succ.
    assert (HmS : 0 <= Z.of_nat m * Z.of_N S) by (apply Z.mul_nonneg_nonneg; lia).
    assert (HlS : 0 <= Z.of_nat (length r) * Z.of_N S) by (apply Z.mul_nonneg_nonneg; lia).
    assert (HdS : 0 <= Z.of_N d0 * Z.of_N (sum_list r)) by (apply Z.mul_nonneg_nonneg; lia).
    destruct (N.ltb_spec rem (part d0 S p)) as [Hlt|Hge].
    + (* early return here *)
      assert (HremS : Z.of_N rem * Z.of_N S <= Z.of_N (part d0 S p) * Z.of_N S)
        by (apply Z.mul_le_mono_nonneg_r; lia).
      cbn [fst snd]. split.
      * intros i Hi. destruct i as [|j].
        -- cbn [nth]. lia.
        -- cbn [nth]. rewrite nth_zeros.
           assert (Hn : Z.of_N d0 * Z.of_N (nth j r 0%N) <= Z.of_N d0 * Z.of_N (sum_list r)).
           { apply Z.mul_le_mono_nonneg_l; [lia|]. pose proof (nth_le_sum_list r j). lia. }
           assert (0 <= Z.of_N d0 * Z.of_N (nth j r 0%N)) by (apply Z.mul_nonneg_nonneg; lia).
           lia.
      * intros x Hx. discriminate Hx.
    + (* continue *)
      assert (HA' : 2 * Z.abs (Z.of_N (rem - part d0 S p) * Z.of_N S - Z.of_N d0 * Z.of_N (sum_list r))
                    <= Z.of_nat (Datatypes.S m) * Z.of_N S).
      { rewrite N2Z.inj_sub by exact Hge. rewrite Nat2Z.inj_succ. lia. }
      destruct (IH (rem - part d0 S p)%N (Datatypes.S m) Hp' HA') as [IH1 IH2].
      destruct (rate_incs_loop part d0 S r (rem - part d0 S p)) as [l o]. cbn [fst snd] in *.
      split.
      * intros i Hi. destruct i as [|j]; cbn [nth].
        -- lia.
        -- specialize (IH1 j ltac:(lia)). rewrite Nat2Z.inj_succ in IH1. lia.
      * intros x Hx. specialize (IH2 x Hx). rewrite N2Z.inj_sub in IH2 by exact Hge. lia.
Qed.
End Close.

Theorem rate_close_Z : forall (part : N -> N -> N -> N) ps d,
  ps <> [] -> 0 < sum_list ps ->
  (forall p, In p ps -> (2 * Z.abs (Z.of_N (part d (sum_list ps) p) * Z.of_N (sum_list ps) - Z.of_N d * Z.of_N p) <= Z.of_N (sum_list ps))%Z) ->
  forall i, (i < length ps)%nat ->
    (2 * Z.abs (Z.of_N (nth i (rate_incs part ps d) 0%N) * Z.of_N (sum_list ps) - Z.of_N d * Z.of_N (nth i ps 0%N))
       <= Z.of_nat (length ps) * Z.of_N (sum_list ps))%Z.
Proof.
  intros part ps d Hne HS Hp i Hi.
  pose proof (rate_incs_loop_close part d (sum_list ps) ps d 0 Hp) as HL.
  assert (HA0 : (2 * Z.abs (Z.of_N d * Z.of_N (sum_list ps) - Z.of_N d * Z.of_N (sum_list ps)) <= Z.of_nat 0 * Z.of_N (sum_list ps))%Z) by lia.
  destruct (HL HA0) as [H1 _]. clear HL HA0.
  specialize (H1 i Hi).
  unfold rate_incs.
  destruct ps as [|p0 r]; [congruence|].
  remember (sum_list (p0 :: r)) as T eqn:HT.
  cbn [rate_incs_loop] in *.
  destruct (N.ltb_spec d (part d T p0)) as [Hlt|Hge].
  - cbn [fst] in H1. exact H1.
  - (* loop on the tail *)
    assert (He : (2 * Z.abs (err part d T p0) <= Z.of_N T)%Z) by (apply Hp; left; reflexivity).
    assert (Hp' : forall q, In q r -> (2 * Z.abs (err part d T q) <= Z.of_N T)%Z) by (intros q Hq; apply Hp; right; exact Hq).
    unfold err in He.
    assert (HTs : Z.of_N T = (Z.of_N p0 + Z.of_N (sum_list r))%Z) by (subst T; cbn [sum_list]; lia).
    assert (HA1 : (2 * Z.abs (Z.of_N (d - part d T p0) * Z.of_N T - Z.of_N d * Z.of_N (sum_list r)) <= Z.of_nat 1 * Z.of_N T)%Z).
    { rewrite N2Z.inj_sub by exact Hge.
      replace (Z.of_N d * Z.of_N T)%Z with (Z.of_N d * Z.of_N p0 + Z.of_N d * Z.of_N (sum_list r))%Z by (rewrite HTs; ring).
      lia. }
    destruct (rate_incs_loop_close part d T r (d - part d T p0) 1 Hp' HA1) as [_ H2].
    destruct (rate_incs_loop part d T r (d - part d T p0)) as [l o]. cbn [fst snd] in *.
    destruct o as [rem|]; [|exact H1].
    destruct i as [|j]; cbn [nth] in *; [|exact H1].
    specialize (H2 rem eq_refl). rewrite N2Z.inj_sub in H2 by exact Hge.
    rewrite N2Z.inj_add. cbn [length]. rewrite Nat2Z.inj_succ.
    replace (Z.of_N d * Z.of_N T)%Z with (Z.of_N d * Z.of_N p0 + Z.of_N d * Z.of_N (sum_list r))%Z in H2 by (rewrite HTs; ring).
    lia.
Qed.

Theorem rate_close : forall (part : N -> N -> N -> N) ps d,
  ps <> [] -> 0 < sum_list ps ->
  (forall p, In p ps -> 2 * absdiff (part d (sum_list ps) p * sum_list ps) (d * p) <= sum_list ps) ->
  forall i, (i < length ps)%nat ->
    2 * absdiff (nth i (rate_incs part ps d) 0 * sum_list ps) (d * nth i ps 0) <= N.of_nat (length ps) * sum_list ps.
Proof.
  intros part ps d Hne HS Hp i Hi.
  assert (Hp' : forall p, In p ps -> (2 * Z.abs (Z.of_N (part d (sum_list ps) p) * Z.of_N (sum_list ps) - Z.of_N d * Z.of_N p) <= Z.of_N (sum_list ps))%Z).
  { intros p Hin. specialize (Hp p Hin). apply N2Z.inj_le in Hp.
    rewrite N2Z.inj_mul, absdiff_Z, !N2Z.inj_mul in Hp. exact Hp. }
  pose proof (rate_close_Z part ps d Hne HS Hp' i Hi) as H.
  apply N2Z.inj_le. rewrite N2Z.inj_mul, absdiff_Z, !N2Z.inj_mul, nat_N_Z. exact H.
Qed.
Print Assumptions rate_close.

Theorem part_q_close : forall d S p, 0 < S -> 2 * absdiff (part_q d S p * S) (d * p) <= S.
Proof.
  intros d S p HS. unfold part_q.
  assert (H2S : 2 * S <> 0) by lia.
  pose proof (N.div_mod (2 * d * p + S) (2 * S) H2S) as HD.
  pose proof (N.mod_lt (2 * d * p + S) (2 * S) H2S) as HM.
  generalize dependent ((2 * d * p + S) / (2 * S)). generalize dependent ((2 * d * p + S) mod (2 * S)).
  intros m HM q HD. unfold absdiff.
  assert (E : 2 * d * p = 2 * (d * p)) by lia. rewrite E in HD. clear E.
  assert (E : 2 * S * q = 2 * (q * S)) by lia. rewrite E in HD. clear E.
  generalize dependent (d * p). generalize dependent (q * S). intros a b Hb.
  destruct (N.ltb_spec a b); lia.
Qed.
Print Assumptions part_q_close.

(* rate_close for the exact rational rounding *)
Corollary rate_q_close : forall ps d, ps <> [] -> 0 < sum_list ps ->
  forall i, (i < length ps)%nat ->
    2 * absdiff (nth i (rate_incs part_q ps d) 0 * sum_list ps) (d * nth i ps 0) <= N.of_nat (length ps) * sum_list ps.
Proof. intros ps d Hne HS i Hi. apply rate_close; auto. intros p _. apply part_q_close. exact HS. Qed.
Print Assumptions rate_q_close.

(* ---- Example: [9;7;5;3;1], dividend 12 *)
Example rate_incs_q_ex : rate_incs part_q [9;7;5;3;1] 12 = [6;3;2;1;0].
Proof. vm_compute. reflexivity. Qed.
(* exact shares 12*p/25 = 4.32, 3.36, 2.40, 1.44, 0.48; every increment within 5/2 of it (here: within 1.68) *)
Example rate_close_ex : forall i, (i < 5)%nat ->
  2 * absdiff (nth i [6;3;2;1;0] 0 * 25) (12 * nth i [9;7;5;3;1] 0) <= 5 * 25.
Proof. intros i Hi. rewrite <- rate_incs_q_ex.
  exact (rate_q_close [9;7;5;3;1] 12 ltac:(discriminate) ltac:(reflexivity) i Hi). Qed.

(* ================= Part B: the float64 rounding part_f (Flocq) ================= *)
From Coq Require Import Reals Lra Psatz.
From Flocq Require Import Core BinarySingleNaN Relative.
From Cqos Require Import Float64.

Local Open Scope R_scope.

Notation fx := (SpecFloat.fexp prec emax).
Notation rNE := (round radix2 fx ZnearestE).

Lemma fexp_FLT : forall e, fx e = FLT_exp (-1074) 53 e.
Proof. intros e. reflexivity. Qed.

Lemma format_IZR z : (Z.abs z < 2 ^ 53)%Z -> generic_format radix2 fx (IZR z).
Proof.
  intros Hz. apply (generic_format_FLT radix2 (-1074) 53).
  apply FLT_spec with (f := Float radix2 z 0).
  - unfold F2R. simpl. ring.
  - simpl. exact Hz.
  - simpl. lia.
Qed.

Lemma bpow_1024_big z : (Z.abs z <= 2 ^ 106)%Z -> Rabs (IZR z) < bpow radix2 emax.
Proof.
  intros Hz. rewrite <- abs_IZR. apply Rle_lt_trans with (IZR (2 ^ 106)).
  - apply IZR_le. exact Hz.
  - change (2 ^ 106)%Z with (Zpower radix2 106). rewrite IZR_Zpower by lia. apply bpow_lt. unfold emax. lia.
Qed.

Lemma of_Z_correct z : (0 <= z < 2 ^ 53)%Z -> B2R (of_Z z) = IZR z /\ is_finite (of_Z z) = true.
Proof.
  intros Hz. unfold of_Z.
  pose proof (binary_normalize_correct prec emax Hprec Hmax mode_NE z 0 false) as H.
  cbv zeta in H.
  assert (E : F2R (Float radix2 z 0) = IZR z) by (unfold F2R; simpl; ring).
  rewrite E in H. cbn [round_mode] in H.
  rewrite round_generic in H; [| apply valid_rnd_N | apply format_IZR; lia].
  rewrite Rlt_bool_true in H by (apply bpow_1024_big; lia).
  destruct H as [H1 [H2 _]]. split; assumption.
Qed.

Lemma to_Z_correct (x : b64) n : is_finite x = true -> B2R x = IZR n -> to_Z x = n.
Proof.
  destruct x as [s|s| |s m e Hb]; cbn [to_Z is_finite B2R]; intros Hf Hr; try discriminate.
  - apply eq_IZR in Hr. lia.
  - unfold F2R in Hr. cbn [Fnum Fexp] in Hr.
    destruct (Z.leb_spec 0 e) as [He|He].
    + assert (E : bpow radix2 e = IZR (2 ^ e)).
      { change 2%Z with (radix_val radix2). rewrite IZR_Zpower by exact He. reflexivity. }
      rewrite E, <- mult_IZR in Hr. apply eq_IZR in Hr.
      destruct s; cbn [cond_Zopp] in Hr; lia.
    + assert (E : IZR (cond_Zopp s (Z.pos m)) = IZR (n * 2 ^ (- e))).
      { rewrite mult_IZR. change 2%Z with (radix_val radix2). rewrite IZR_Zpower by lia.
        rewrite <- Hr. rewrite Rmult_assoc, <- bpow_plus. replace (e + - e)%Z with 0%Z by lia. simpl. ring. }
      apply eq_IZR in E.
      assert (P : (0 < 2 ^ (- e))%Z) by (apply Z.pow_pos_nonneg; lia).
      destruct s; cbn [cond_Zopp] in E.
      * assert (E' : Z.pos m = ((- n) * 2 ^ (- e))%Z) by lia. rewrite E'. rewrite Z.div_mul by lia. lia.
      * rewrite E. rewrite Z.div_mul by lia. reflexivity.
Qed.

Lemma round_away_correct (x : b64) : is_finite x = true ->
  B2R (round_away x) = IZR (ZnearestA (B2R x)) /\ is_finite (round_away x) = true.
Proof.
  intros Hf. unfold round_away.
  destruct (Bnearbyint_correct prec emax Hmax mode_NA x) as [H1 [H2 _]].
  split; [|congruence]. rewrite H1. cbn [round_mode].
  unfold round, cexp, FIX_exp, scaled_mantissa, F2R. simpl. rewrite !Rmult_1_r. reflexivity.
Qed.

Lemma rNE_bounds x e : (0 <= e <= 1000)%Z -> 0 <= x <= bpow radix2 e -> 0 <= rNE x <= bpow radix2 e.
Proof.
  intros He [H0 H1]. split.
  - rewrite <- (round_0 radix2 fx ZnearestE). apply round_le; [apply fexp_correct; exact Hprec | apply valid_rnd_N | exact H0].
  - rewrite <- (round_generic radix2 fx ZnearestE (bpow radix2 e)).
    + apply round_le; [apply fexp_correct; exact Hprec | apply valid_rnd_N | exact H1].
    + apply generic_format_bpow. unfold SpecFloat.fexp, SpecFloat.emin, prec, emax. lia.
Qed.

Lemma Rabs_lt_emax x e : (0 <= e <= 1000)%Z -> 0 <= x <= bpow radix2 e -> Rabs x < bpow radix2 emax.
Proof.
  intros He [H0 H1]. rewrite Rabs_pos_eq by exact H0. apply Rle_lt_trans with (1 := H1).
  apply bpow_lt. unfold emax. lia.
Qed.

Lemma IZR_lt_bpow z e : (0 <= e)%Z -> (0 <= z < 2 ^ e)%Z -> 0 <= IZR z <= bpow radix2 e.
Proof.
  intros He [H0 H1]. split; [apply IZR_le; exact H0|].
  change 2%Z with (radix_val radix2) in H1. rewrite <- IZR_Zpower by exact He. apply IZR_le. lia.
Qed.

Definition q1R (d S : Z) : R := rNE (IZR d / IZR S).
Definition q2R (d S p : Z) : R := rNE (q1R d S * IZR p).

Lemma q1R_bounds d S : (0 <= d < 2 ^ 53)%Z -> (0 < S)%Z -> 0 <= q1R d S <= bpow radix2 53.
Proof.
  intros Hd HS. unfold q1R. apply rNE_bounds; [lia|].
  destruct (IZR_lt_bpow d 53 ltac:(lia) Hd) as [A B].
  assert (1 <= IZR S) by (apply IZR_le; lia).
  split.
  - apply Rmult_le_pos; [exact A|]. apply Rlt_le, Rinv_0_lt_compat. lra.
  - apply Rle_trans with (2 := B). unfold Rdiv. rewrite <- (Rmult_1_r (IZR d)) at 2.
    apply Rmult_le_compat_l; [exact A|]. rewrite <- Rinv_1. apply Rinv_le_contravar; lra.
Qed.

Lemma q2R_bounds d S p : (0 <= d < 2 ^ 53)%Z -> (0 < S)%Z -> (0 <= p < 2 ^ 53)%Z ->
  0 <= q1R d S * IZR p <= bpow radix2 106 /\ 0 <= q2R d S p <= bpow radix2 106.
Proof.
  intros Hd HS Hp.
  destruct (q1R_bounds d S Hd HS) as [A B].
  destruct (IZR_lt_bpow p 53 ltac:(lia) Hp) as [A' B'].
  assert (H : 0 <= q1R d S * IZR p <= bpow radix2 106).
  { split; [apply Rmult_le_pos; assumption|].
    change 106%Z with (53 + 53)%Z. rewrite bpow_plus. apply Rmult_le_compat; assumption. }
  split; [exact H|]. unfold q2R. apply rNE_bounds; [lia|exact H].
Qed.

Lemma part_f_spec d S p : (0 < S)%N -> (d < 2 ^ 53)%N -> (S < 2 ^ 53)%N -> (p < 2 ^ 53)%N ->
  part_f d S p = Z.to_N (ZnearestA (q2R (Z.of_N d) (Z.of_N S) (Z.of_N p))).
Proof.
  intros HS0 Hd HS Hp. unfold part_f.
  assert (Hd' : (0 <= Z.of_N d < 2 ^ 53)%Z) by lia.
  assert (HS' : (0 <= Z.of_N S < 2 ^ 53)%Z) by lia.
  assert (Hp' : (0 <= Z.of_N p < 2 ^ 53)%Z) by lia.
  assert (HS0' : (0 < Z.of_N S)%Z) by lia.
  destruct (of_Z_correct _ Hd') as [Rd Fd].
  destruct (of_Z_correct _ HS') as [RS FS].
  destruct (of_Z_correct _ Hp') as [Rp Fp].
  set (D := Z.of_N d) in *. set (T := Z.of_N S) in *. set (P := Z.of_N p) in *.
  (* division *)
  assert (HSn : B2R (of_Z T) <> 0) by (rewrite RS; apply IZR_neq; lia).
  pose proof (Bdiv_correct prec emax Hprec Hmax mode_NE (of_Z D) (of_Z T) HSn) as HD.
  rewrite Rd, RS in HD. cbn [round_mode] in HD.
  pose proof (q1R_bounds D T Hd' HS0') as Hq1. unfold q1R in Hq1.
  rewrite Rlt_bool_true in HD by (apply (Rabs_lt_emax _ 53); [lia|exact Hq1]).
  destruct HD as [Rq [Fq _]]. rewrite Fd in Fq.
  fold (fdiv (of_Z D) (of_Z T)) in Rq, Fq.
  (* multiplication *)
  pose proof (Bmult_correct prec emax Hprec Hmax mode_NE (fdiv (of_Z D) (of_Z T)) (of_Z P)) as HM.
  rewrite Rq, Rp in HM. cbn [round_mode] in HM.
  destruct (q2R_bounds D T P Hd' HS0' Hp') as [_ Hq2]. unfold q2R, q1R in Hq2.
  rewrite Rlt_bool_true in HM by (apply (Rabs_lt_emax _ 106); [lia|exact Hq2]).
  destruct HM as [Rm [Fm _]]. rewrite Fq, Fp in Fm. cbn [andb] in Fm.
  fold (fmul (fdiv (of_Z D) (of_Z T)) (of_Z P)) in Rm, Fm.
  (* round + conversion *)
  destruct (round_away_correct _ Fm) as [Rr Fr].
  rewrite (to_Z_correct _ _ Fr Rr). rewrite Rm. reflexivity.
Qed.

Definition u53 : R := / 9007199254740992.
Lemma u53_eq : / 2 * bpow radix2 (- 53 + 1) = u53.
Proof. unfold u53. change (bpow radix2 (-53 + 1)) with (/ IZR (Z.pow_pos 2 52)).
  replace (Z.pow_pos 2 52) with 4503599627370496%Z by reflexivity.
  replace 9007199254740992 with (2 * 4503599627370496) by lra. field. Qed.

Lemma rNE_rel x : bpow radix2 (-53) <= x -> exists eps, Rabs eps <= u53 /\ rNE x = x * (1 + eps).
Proof.
  intros Hx.
  assert (Hb : bpow radix2 (-1074 + 53 - 1) <= Rabs x).
  { rewrite Rabs_pos_eq. - apply Rle_trans with (2 := Hx). apply bpow_le. lia.
    - apply Rle_trans with (2 := Hx). apply bpow_ge_0. }
  destruct (relative_error_N_FLT_ex radix2 (-1074) 53 ltac:(lia) (fun t => negb (Z.even t)) x Hb) as [eps [He Hr]].
  exists eps. split; [rewrite <- u53_eq; exact He|]. exact Hr.
Qed.

Lemma rNE_0 : rNE 0 = 0.
Proof. apply round_0. apply valid_rnd_N. Qed.

Lemma bpow_m53 : bpow radix2 (-53) = u53.
Proof. unfold u53. change (bpow radix2 (-53)) with (/ IZR (Z.pow_pos 2 53)).
  replace (Z.pow_pos 2 53) with 9007199254740992%Z by reflexivity. reflexivity. Qed.

Lemma q2R_close d S p : (0 <= d < 2 ^ 53)%Z -> (0 < S < 2 ^ 53)%Z -> (0 <= p < 2 ^ 53)%Z -> (d * p <= 2 ^ 50)%Z ->
  Rabs (q2R d S p - IZR d * IZR p / IZR S) < / (2 * IZR S).
Proof.
  intros Hd HS Hp Hdp.
  assert (HSr : 1 <= IZR S) by (apply IZR_le; lia).
  assert (HSb : IZR S <= 9007199254740992) by (apply IZR_le; lia).
  assert (Hpos : 0 < / (2 * IZR S)) by (apply Rinv_0_lt_compat; lra).
  destruct (Z.eq_dec d 0) as [->|Hd0].
  { unfold q2R, q1R. unfold Rdiv. rewrite !Rmult_0_l, rNE_0, Rmult_0_l, rNE_0.
    rewrite Rminus_0_r, Rabs_R0. exact Hpos. }
  destruct (Z.eq_dec p 0) as [->|Hp0].
  { unfold q2R. unfold Rdiv. rewrite !Rmult_0_r, rNE_0, Rmult_0_l. 
    rewrite Rminus_0_r, Rabs_R0. exact Hpos. }
  assert (Hdr : 1 <= IZR d) by (apply IZR_le; lia).
  assert (Hpr : 1 <= IZR p) by (apply IZR_le; lia).
  assert (Hdpr : IZR d * IZR p <= 1125899906842624) by (rewrite <- mult_IZR; apply IZR_le; exact Hdp).
  assert (Hinv : u53 <= / IZR S).
  { unfold u53. apply Rinv_le_contravar; lra. }
  assert (Hinv0 : 0 < / IZR S) by (apply Rinv_0_lt_compat; lra).
  (* first rounding *)
  assert (Hx1 : bpow radix2 (-53) <= IZR d / IZR S).
  { rewrite bpow_m53. unfold Rdiv. nra. }
  destruct (rNE_rel _ Hx1) as [e1 [He1 Hr1]].
  assert (Hq1 : bpow radix2 (-53) <= q1R d S).
  { unfold q1R. rewrite <- (round_generic radix2 fx ZnearestE (bpow radix2 (-53))).
    - apply round_le; [apply fexp_correct; exact Hprec | apply valid_rnd_N | exact Hx1].
    - apply generic_format_bpow. unfold SpecFloat.fexp, SpecFloat.emin, prec, emax. lia. }
  assert (Hx2 : bpow radix2 (-53) <= q1R d S * IZR p).
  { rewrite bpow_m53 in *. unfold u53 in *. nra. }
  destruct (rNE_rel _ Hx2) as [e2 [He2 Hr2]].
  unfold q2R. rewrite Hr2. unfold q1R. rewrite Hr1.
  set (X := IZR d * IZR p / IZR S).
  replace (IZR d / IZR S * (1 + e1) * IZR p * (1 + e2) - X) with (X * (e1 + e2 + e1 * e2)) by (unfold X; field; lra).
  assert (HX0 : 0 <= X) by (unfold X, Rdiv; apply Rmult_le_pos; [apply Rmult_le_pos; lra | lra]).
  rewrite Rabs_mult, (Rabs_pos_eq X HX0).
  assert (Hee : Rabs (e1 + e2 + e1 * e2) <= u53 + u53 + u53 * u53).
  { eapply Rle_trans; [apply Rabs_triang|]. apply Rplus_le_compat.
    - eapply Rle_trans; [apply Rabs_triang|]. lra.
    - rewrite Rabs_mult. apply Rmult_le_compat; try apply Rabs_pos; assumption. }
  apply Rle_lt_trans with (X * (u53 + u53 + u53 * u53)).
  { apply Rmult_le_compat_l; assumption. }
  unfold X, Rdiv. replace (/ (2 * IZR S)) with (/ 2 * / IZR S) by (field; lra).
  replace (IZR d * IZR p * / IZR S * (u53 + u53 + u53 * u53)) with (/ IZR S * (IZR d * IZR p * (u53 + u53 + u53 * u53))) by ring.
  rewrite (Rmult_comm (/ 2)). apply Rmult_lt_compat_l; [exact Hinv0|].
  assert (0 <= IZR d * IZR p) by (apply Rmult_le_pos; lra).
  unfold u53. nra.
Qed.

Lemma ZnearestA_nonneg x : 0 <= x -> (0 <= ZnearestA x)%Z.
Proof.
  intros Hx. pose proof (Zrnd_IZR ZnearestA 0) as E. pose proof (Zrnd_le ZnearestA 0 x Hx) as L.
  rewrite E in L. exact L.
Qed.

Lemma nearest_close_Z d S p : (0 <= d < 2 ^ 53)%Z -> (0 < S < 2 ^ 53)%Z -> (0 <= p < 2 ^ 53)%Z -> (d * p <= 2 ^ 50)%Z ->
  (0 <= ZnearestA (q2R d S p) /\ 2 * Z.abs (ZnearestA (q2R d S p) * S - d * p) <= S)%Z.
Proof.
  intros Hd HS Hp Hdp.
  destruct (q2R_bounds d S p Hd ltac:(lia) Hp) as [_ [Hq0 _]].
  split; [apply ZnearestA_nonneg; exact Hq0|].
  pose proof (q2R_close d S p Hd HS Hp Hdp) as Hc.
  pose proof (Znearest_half (Z.leb 0) (q2R d S p)) as Hh.
  fold ZnearestA in Hh.
  set (q := q2R d S p) in *. set (r := ZnearestA q) in *.
  assert (HSr : 1 <= IZR S) by (apply IZR_le; lia).
  set (X := IZR d * IZR p / IZR S) in *.
  set (c := / (2 * IZR S)) in *.
  assert (Ec : c * (2 * IZR S) = 1) by (unfold c; field; lra).
  assert (EX : X * IZR S = IZR d * IZR p) by (unfold X; field; lra).
  apply Rabs_def2 in Hc. apply Rabs_le_inv in Hh.
  assert (B1 : (IZR r - X) * (2 * IZR S) < (/ 2 + c) * (2 * IZR S)).
  { apply Rmult_lt_compat_r; lra. }
  assert (B2 : (- (/ 2 + c)) * (2 * IZR S) < (IZR r - X) * (2 * IZR S)).
  { apply Rmult_lt_compat_r; lra. }
  assert (E1 : (IZR r - X) * (2 * IZR S) = IZR (2 * (r * S - d * p))).
  { rewrite mult_IZR, minus_IZR, !mult_IZR. rewrite <- EX. ring. }
  assert (E2 : (/ 2 + c) * (2 * IZR S) = IZR (S + 1)).
  { rewrite plus_IZR. rewrite Rmult_plus_distr_r, Ec. field. }
  rewrite E1 in B1, B2. rewrite Ropp_mult_distr_l_reverse in B2. rewrite E2 in B1, B2.
  rewrite <- opp_IZR in B2. apply lt_IZR in B1, B2. lia.
Qed.

(* ---- conclusions over N *)
Local Open Scope N_scope.

Definition f_dom (d S p : N) : Prop := 0 < S /\ S < 2 ^ 53 /\ d < 2 ^ 53 /\ p < 2 ^ 53 /\ d * p <= 2 ^ 50.

Lemma part_f_close_Z d S p : f_dom d S p ->
  (2 * Z.abs (Z.of_N (part_f d S p) * Z.of_N S - Z.of_N d * Z.of_N p) <= Z.of_N S)%Z.
Proof.
  intros (HS0 & HS & Hd & Hp & Hdp).
  rewrite part_f_spec by assumption.
  assert (H : (0 <= ZnearestA (q2R (Z.of_N d) (Z.of_N S) (Z.of_N p)) /\
               2 * Z.abs (ZnearestA (q2R (Z.of_N d) (Z.of_N S) (Z.of_N p)) * Z.of_N S - Z.of_N d * Z.of_N p) <= Z.of_N S)%Z)
    by (apply nearest_close_Z; lia).
  destruct H as [H0 H1]. rewrite Z2N.id by exact H0. exact H1.
Qed.

(* part_f is within 1/2 of the exact share on the whole domain (also in the exact-half case) *)
Theorem part_f_close : forall d S p, f_dom d S p -> 2 * absdiff (part_f d S p * S) (d * p) <= S.
Proof.
  intros d S p H. apply N2Z.inj_le. rewrite N2Z.inj_mul, absdiff_Z, !N2Z.inj_mul.
  apply part_f_close_Z. exact H.
Qed.

(* part_f is either part_q, or one less -- the latter only when d*p/S is exactly a half-integer *)
Theorem part_f_near_part_q : forall d S p, f_dom d S p ->
  part_f d S p = part_q d S p \/ ((2 * d * p) mod (2 * S) = S /\ part_f d S p + 1 = part_q d S p).
Proof.
  intros d S p H. pose proof (part_f_close_Z d S p H) as Hf.
  destruct H as (HS0 & _).
  unfold part_q in *.
  assert (H2S : 2 * S <> 0) by lia.
  pose proof (N.div_mod (2 * d * p + S) (2 * S) H2S) as HD.
  pose proof (N.mod_lt (2 * d * p + S) (2 * S) H2S) as HM.
  generalize dependent ((2 * d * p + S) / (2 * S)). generalize dependent ((2 * d * p + S) mod (2 * S)).
  intros m HM k HD.
  set (f := part_f d S p) in *.
  assert (HDz : (2 * (Z.of_N d * Z.of_N p) + Z.of_N S = 2 * (Z.of_N k * Z.of_N S) + Z.of_N m)%Z).
  { lia. }
  assert (HMz : (0 <= Z.of_N m < 2 * Z.of_N S)%Z) by lia.
  assert (Hle : (Z.of_N f <= Z.of_N k)%Z).
  { destruct (Z_le_gt_dec (Z.of_N f) (Z.of_N k)) as [L|G]; [exact L|exfalso].
    assert ((Z.of_N k + 1) * Z.of_N S <= Z.of_N f * Z.of_N S)%Z by (apply Z.mul_le_mono_nonneg_r; lia).
    lia. }
  assert (Hge : (Z.of_N k - 1 <= Z.of_N f)%Z).
  { destruct (Z_le_gt_dec (Z.of_N k - 1) (Z.of_N f)) as [L|G]; [exact L|exfalso].
    assert (Z.of_N f * Z.of_N S <= (Z.of_N k - 2) * Z.of_N S)%Z by (apply Z.mul_le_mono_nonneg_r; lia).
    lia. }
  destruct (N.eq_dec f k) as [E|NE]; [left; exact E|right].
  assert (Ek : k = f + 1) by lia. subst k. split; [|reflexivity].
  symmetry. apply (N.mod_unique _ _ f); [lia|].
  apply N2Z.inj. rewrite !N2Z.inj_add, !N2Z.inj_mul. change (Z.of_N 2) with 2%Z.
  rewrite N2Z.inj_add, Z.mul_add_distr_r in HDz. change (Z.of_N 1) with 1%Z in HDz.
  lia.
Qed.

Theorem part_f_eq_part_q_gen : forall d S p, f_dom d S p -> (2 * d * p) mod (2 * S) <> S -> part_f d S p = part_q d S p.
Proof. intros d S p H Hn. destruct (part_f_near_part_q d S p H) as [E|[E _]]; [exact E|contradiction]. Qed.

Lemma f_dom_task d S p : 0 < S -> p <= S -> S < 2 ^ 53 -> d * S <= 2 ^ 50 -> f_dom d S p.
Proof.
  intros HS0 Hp HS HdS. unfold f_dom.
  assert (d * p <= d * S) by (apply N.mul_le_mono_l; exact Hp).
  assert (d * 1 <= d * S) by (apply N.mul_le_mono_l; lia).
  assert (2 ^ 50 < 2 ^ 53) by (apply N.pow_lt_mono_r; lia).
  repeat split; lia.
Qed.

(* The statement of the task, with the two extra guards that are needed:
   S < 2^53 (only matters for d = 0) and "d*p/S is not exactly a half-integer". *)
Theorem part_f_eq_part_q_partial : forall d S p, 0 < S -> p <= S -> S < 2 ^ 53 -> d * S <= 2 ^ 50 ->
  (2 * d * p) mod (2 * S) <> S -> part_f d S p = part_q d S p.
Proof. intros d S p H1 H2 H3 H4 H5. apply part_f_eq_part_q_gen; [apply f_dom_task; assumption|exact H5]. Qed.

(* the unrestricted statement is FALSE: 1*49/98 = 1/2 exactly, but fl(1/98)*49 rounds to the float just below 0.5 *)
Example part_f_neq_part_q : part_f 1 98 49 = 0 /\ part_q 1 98 49 = 1.
Proof. vm_compute. split; reflexivity. Qed.
Example part_f_neq_part_q' : part_f 3 94 47 = 1 /\ part_q 3 94 47 = 2.
Proof. vm_compute. split; reflexivity. Qed.

(* monotone in the priority, as long as all three conversions are exact *)
Theorem part_f_mono_partial : forall d S p q, 0 < S -> d < 2 ^ 53 -> S < 2 ^ 53 -> p < 2 ^ 53 -> q <= p ->
  part_f d S q <= part_f d S p.
Proof.
  intros d S p q HS0 Hd HS Hp Hqp.
  rewrite !part_f_spec by (try assumption; lia).
  destruct (q1R_bounds (Z.of_N d) (Z.of_N S)) as [A _]; [lia|lia|].
  assert (L : (q2R (Z.of_N d) (Z.of_N S) (Z.of_N q) <= q2R (Z.of_N d) (Z.of_N S) (Z.of_N p))%R).
  { unfold q2R. apply round_le; [apply fexp_correct; exact Hprec | apply valid_rnd_N |].
    apply Rmult_le_compat_l; [exact A|]. apply IZR_le. lia. }
  pose proof (Zrnd_le ZnearestA _ _ L) as L'.
  apply Z2N.inj_le; [| |exact L'].
  - apply ZnearestA_nonneg. destruct (q2R_bounds (Z.of_N d) (Z.of_N S) (Z.of_N q)) as [_ [B _]]; try lia. exact B.
  - apply ZnearestA_nonneg. destruct (q2R_bounds (Z.of_N d) (Z.of_N S) (Z.of_N p)) as [_ [B _]]; try lia. exact B.
Qed.

Lemma in_le_sum_list p ps : In p ps -> p <= sum_list ps.
Proof. induction ps as [|x r IH]; simpl; [tauto|]. intros [->|H]; [lia|]. specialize (IH H). lia. Qed.

(* closeness of the Rate divider with the float64 rounding actually used by the Go code *)
Corollary rate_f_close : forall ps d, ps <> [] -> 0 < sum_list ps -> sum_list ps < 2 ^ 53 -> d * sum_list ps <= 2 ^ 50 ->
  forall i, (i < length ps)%nat ->
    2 * absdiff (nth i (rate_incs part_f ps d) 0 * sum_list ps) (d * nth i ps 0) <= N.of_nat (length ps) * sum_list ps.
Proof.
  intros ps d Hne HS0 HS HdS i Hi. apply rate_close; auto.
  intros p Hin. apply part_f_close. apply f_dom_task; auto. apply in_le_sum_list; exact Hin.
Qed.

(* TEST (not a theorem about the general case): part_f = part_q on the grid d,p in 0..19, S in 1..20 *)
Definition grid_mismatches (n : nat) : list (N * N * N) :=
  flat_map (fun d => flat_map (fun s => flat_map (fun p =>
     if part_f d s p =? part_q d s p then [] else [(d, s, p)])
     (map N.of_nat (seq 0 n))) (map N.of_nat (seq 1 n))) (map N.of_nat (seq 0 n)).
Example test_part_f_eq_part_q_grid_20 : grid_mismatches 20 = [].
Proof. vm_compute. reflexivity. Qed.

Print Assumptions part_f_close.
Print Assumptions part_f_near_part_q.
Print Assumptions part_f_eq_part_q_partial.
Print Assumptions part_f_mono_partial.
Print Assumptions rate_f_close.
Print Assumptions rate_close.
