(* Property theorems about the process structure of the v1 simplified discipline (C16, also used by C07 and C19). *)
From Coq Require Import List Bool. From Cqos Require Import Simple1. Import ListNotations.
Theorem C16_simple_stop_returned_all_exited :
  forall (fixed : bool) (h : nat) (s : sst),
         reachable fixed (init h) s -> main s = MExited \/ main s = MCompleteBreaker -> all_exited s = true.
Proof. exact @simple1_stop_returned_all_exited. Qed.
Print Assumptions C16_simple_stop_returned_all_exited.

Theorem C16_simple_no_take_after_close :
  forall (s : sst) (i : nat), before_close_output (main s) = false -> env_step s (EHTake i) = None.
Proof. exact @simple1_no_take_after_close. Qed.
Print Assumptions C16_simple_no_take_after_close.

Theorem C16_simple_stop_not_deaf :
  forall (fixed : bool) (s : sst),
         fixed = true ->
         stop_req s = true ->
         main_step fixed s = None ->
         main s = MInnerStop /\ inner_done s = false \/
         main s = MWgWait /\ all_exited s = false \/ main s = MExited.
Proof. exact @simple1_stop_not_deaf. Qed.
Print Assumptions C16_simple_stop_not_deaf.

Theorem C16_simple_stop_deaf_old :
  reachable false (init 2) deaf_s3 /\
         stop_req deaf_s3 = true /\ main deaf_s3 = MGraceful /\ main_step false deaf_s3 = None.
Proof. exact @simple1_stop_deaf_old. Qed.
Print Assumptions C16_simple_stop_deaf_old.

Theorem C16_simple_stop_heard_new :
  main_step true deaf_s3 = Some (set_main deaf_s3 MInnerStop).
Proof. exact @simple1_stop_heard_new. Qed.
Print Assumptions C16_simple_stop_heard_new.

