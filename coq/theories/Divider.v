(* Models of the dividers: v2/priority/divider/divider.go (Fair, Rate) and priority/divider.go
   (FairDivider, RateDivider), plus common.SumPriorities / IsDistributionFilled.
   A distribution (Go map[uint]uint) is an association list with unique keys; absent key = 0.
   `distribution[p] += x` is `add d p x`.  uint wrap-around is not modelled (sums stay far below 2^64 in
   every use; the discipline checks totals with safe.SumInt). *)
From Coq Require Import List NArith Bool.
From Cqos Require Import Base.
Import ListNotations.
Open Scope N_scope.

Definition add (d : dist) (k v : N) : dist := set d k (get d k + v).

Fixpoint sum_list (l : list N) : N := match l with [] => 0 | x :: r => x + sum_list r end.

(* ---- Fair *)
Fixpoint fair_loop (ps : list N) (base rem : N) (d : dist) : dist :=
  match ps with
  | [] => d
  | p :: r =>
      let d1 := add d p base in
      if rem =? 0 then fair_loop r base 0 d1 else fair_loop r base (rem - 1) (add d1 p 1)
  end.

Definition fair (ps : list N) (dividend : N) (d : dist) : dist :=
  match ps with
  | [] => d
  | _ => let n := N.of_nat (length ps) in
         let base := dividend / n in
         fair_loop ps base (dividend - base * n) d
  end.

(* ---- Rate, parametric in the rounded proportional part  part(dividend, sum, priority) *)
Section Rate.
Variable part : N -> N -> N -> N.

(* returns the distribution and Some leftover when the loop ran to the end, None after the early return *)
Fixpoint rate_loop (d0 S : N) (ps : list N) (rem : N) (d : dist) : dist * option N :=
  match ps with
  | [] => (d, Some rem)
  | p :: r =>
      let pt := part d0 S p in
      if rem <? pt then (add d p rem, None) else rate_loop d0 S r (rem - pt) (add d p pt)
  end.

Definition rate (ps : list N) (dividend : N) (d : dist) : dist :=
  match ps with
  | [] => d
  | p0 :: _ =>
      match rate_loop dividend (sum_list ps) ps dividend d with
      | (d', Some rem) => add d' p0 rem
      | (d', None) => d'
      end
  end.
End Rate.

(* exact rational rounding: floor(d*p/S + 1/2) = (2*d*p + S) / (2*S) *)
Definition part_q (d S p : N) : N := (2 * d * p + S) / (2 * S).

(* ---- API wrappers with Go's nil handling.  A nil map is None. *)
Definition Divider := list N -> N -> dist -> dist.

(* v2: `if len(priorities)==0 return; if distribution==nil return` -- updates in place *)
Definition v2_call (dv : Divider) (ps : list N) (dividend : N) (d : option dist) : option dist :=
  match d with None => None | Some m => Some (dv ps dividend m) end.

(* v1: returns nil for no priorities, allocates on nil *)
Definition v1_call (dv : Divider) (ps : list N) (dividend : N) (d : option dist) : option dist :=
  match ps with
  | [] => None
  | _ => Some (dv ps dividend (match d with None => [] | Some m => m end))
  end.

(* common.IsDistributionFilled: only the entries present in the map are inspected *)
Definition is_filled (d : dist) : bool := forallb (fun kv => negb (snd kv =? 0)) d.
(* "every listed priority has a non-zero entry" -- what the property wants *)
Definition is_filled_for (ps : list N) (d : dist) : bool := forallb (fun p => negb (get d p =? 0)) ps.

(* ---- executable interface for the correspondence check (family 2) *)
Definition flatten_dist (d : dist) : list N := flat_map (fun kv => [fst kv; snd kv]) d.
Fixpoint unflatten_dist (l : list N) : dist :=
  match l with k :: v :: r => set (unflatten_dist r) k v | _ => [] end.
