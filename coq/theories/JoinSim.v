(* Deterministic environment for the correspondence check of the join / unite models: one producer goroutine
   (sleep, put, ..., sleep, close), one consumer goroutine (receive, hold, release, pause), the input and output
   channels with their capacities, the ticker grid, and (v1) one Stop() call.  The discipline itself is the
   step function Join.jstep -- the same one the theorems are about.  Nothing here is used in a theorem. *)
From Coq Require Import List ZArith Bool Lia.
From RecordUpdate Require Import RecordSet.
From Cqos Require Import Join.
Import ListNotations RecordSetNotations.
Open Scope Z_scope.

Record jsim := mkJsim {
  now : Z;
  d : jst;
  ibuf : list (list Z);            (* input channel buffer *)
  icap : nat;
  iclosed : bool;
  prod : list (Z * list Z);        (* remaining script: (delay before the put, item) *)
  prod_at : Z;                     (* end of the producer's current sleep *)
  close_after : Z;                 (* delay between the last put and close(input) *)
  prod_done : bool;
  obuf : list (list elem * bool);  (* output channel buffer *)
  ocap : nat;
  cons_at : Z;                     (* end of the consumer's current pause *)
  cons_n : nat;                    (* slices received so far *)
  cons_script : list (Z * Z);      (* per received slice: (hold before release, pause after) *)
  holding : option (Z * Z);        (* Some (until, pause): the consumer holds a slice *)
  cons_done : bool;
  first_own : option nat;          (* index of the first emission that is the accumulation buffer (no-copy) *)
  next_tick : Z;
  stop_at : Z;                     (* v1: time of the Stop() call; -1: none *)
  stop_called : bool;
  stop_ret : Z;                    (* time Stop() returned; -1 *)
  oracle : list bool;              (* resolution of the v1 selects with several ready cases *)
  outlog : list (Z * Z * list Z);  (* reversed: (receive time, alias class, values) *)
  putlog : list Z;                 (* reversed: completion time of each put *)
  tclose : Z;                      (* time the consumer saw the output closed; -1 *)
  ambiguous : bool                 (* a tick and an input were ready at the same instant in Loop *)
}.
#[export] Instance etaJsim : Settable _ := settable! mkJsim
  <now; d; ibuf; icap; iclosed; prod; prod_at; close_after; prod_done; obuf; ocap; cons_at; cons_n; cons_script;
   holding; cons_done; first_own; next_tick; stop_at; stop_called; stop_ret; oracle; outlog; putlog; tclose; ambiguous>.

Definition with_acc (t : Z) (xs : list Z) : list elem := map (fun v => (v, t)) xs.

(* apply a discipline event; None if the model does not enable it *)
Definition fire (c : jcfg) (s : jsim) (e : jev) : option jsim :=
  match jstep c (d s) e with
  | Some (x, _) => Some (s <| d := x |>)
  | None => None
  end.

Definition pop_oracle (s : jsim) : bool * list bool :=
  match oracle s with [] => (false, []) | b :: r => (b, r) end.

Definition producer_offers (s : jsim) : bool :=
  negb (prod_done s) && (prod_at s <=? now s) && match prod s with [] => false | _ => true end.

Definition next_prod_at (s : jsim) (rest : list (Z * list Z)) : Z :=
  match rest with [] => now s + close_after s | (dl, _) :: _ => now s + dl end.

Definition orelse {A} (x : option A) (y : unit -> option A) : option A :=
  match x with Some v => Some v | None => y tt end.

(* A. v1: the Stop() call, and its return once the discipline is closed (the caller then drains the output) *)
Definition step_stop (c : jcfg) (s : jsim) : option jsim :=
  let t := now s in
  if negb (stop_called s) && (0 <=? stop_at s) && (stop_at s <=? t) then
    option_map (fun s1 => s1 <| stop_called := true |>) (fire c s (StopCall t))
  else if stop_called s && (stop_ret s <? 0) && match pc (d s) with Closed => true | _ => false end then
    let drained := map (fun p => (t, -1, map fst (fst p))) (obuf s) in
    if cons_done s then Some (s <| stop_ret := t |>) else
    Some (s <| obuf := [] |> <| holding := None |> <| cons_done := true |> <| stop_ret := t |>
            <| outlog := rev drained ++ outlog s |> <| tclose := t |>
            <| ambiguous := ambiguous s || (match obuf s with [] => false | _ => true end &&
                                            ((cons_at s =? t) || match holding s with Some (u, _) => u =? t | None => false end)) |>)
  else None.

(* B. the consumer *)
Definition step_consumer (c : jcfg) (s : jsim) : option jsim :=
  let t := now s in
  if cons_done s then None else
  match holding s with
  | Some (until, pause) =>
      if until <=? t then
        if nocopy c then
          match pc (d s) with
          | AwaitRel _ => option_map (fun s1 => s1 <| holding := None |> <| cons_at := t + pause |>) (fire c s (Rel t))
          | _ => None (* v1 after Stop: nobody receives the release signal any more *)
          end
        else Some (s <| holding := None |> <| cons_at := t + pause |>)
      else None
  | None =>
      if cons_at s <=? t then
        match obuf s with
        | (sl, own) :: rest =>
            let '(hold, pause, script') := match cons_script s with [] => (0, 0, []) | (h, p) :: r => (h, p, r) end in
            let fo := if own && nocopy c then match first_own s with Some i => Some i | None => Some (cons_n s) end else first_own s in
            let alias : Z :=
              if nocopy c then
                if own then match fo with Some i => Z.of_nat i | None => 0 end
                else - (match sl with [] => 0 | (v, _) :: _ => v end)
              else Z.of_nat (cons_n s) in
            Some (s <| obuf := rest |> <| cons_n := S (cons_n s) |> <| cons_script := script' |>
                    <| holding := Some (t + hold, pause) |> <| first_own := fo |>
                    <| outlog := (t, alias, map fst sl) :: outlog s |>)
        | [] =>
            match pc (d s) with
            | Closed => Some (s <| cons_done := true |> <| tclose := t |>)
            | _ => None
            end
        end
      else None
  end.

(* C. the discipline *)
Definition step_disc (c : jcfg) (s : jsim) : option jsim :=
  let t := now s in
  let stopped_v1 := is_v1 c && stopped (d s) in
  let '(ob, orest) := pop_oracle s in
  match pc (d s) with
  | Sending b own _ k =>
      let room := (length (obuf s) <? ocap s)%nat in
      if stopped_v1 && (negb room || ob) then
        option_map (fun s1 => s1 <| oracle := if room then orest else oracle s |>) (fire c s (Abort t))
      else if room then
        option_map (fun s1 => s1 <| obuf := obuf s ++ [(b, own)] |> <| oracle := if stopped_v1 then orest else oracle s |>)
                   (fire c s (Out t))
      else None
  | AwaitRel k => if stopped_v1 then fire c s (Abort t) else None
  | Loop =>
      let tick_due := (0 <? interval c) && (next_tick s =? t) in
      let buffered := match ibuf s with [] => false | _ => true end in
      let direct := (icap s =? 0)%nat && negb buffered && producer_offers s in
      let closed_now := iclosed s && negb buffered in
      let other := tick_due || buffered || direct || closed_now in
      if stopped_v1 && (ob || negb other) then
        option_map (fun s1 => s1 <| oracle := if other then orest else oracle s |>) (fire c s (TakeStop t))
      else if tick_due then
        option_map (fun s1 => s1 <| next_tick := t + interval c |> <| oracle := if stopped_v1 then orest else oracle s |>
                                 <| ambiguous := ambiguous s || buffered || direct || closed_now |>)
                   (fire c s (Tick t))
      else
        match ibuf s with
        | item :: rest =>
            option_map (fun s1 => s1 <| ibuf := rest |> <| oracle := if stopped_v1 then orest else oracle s |>)
                       (fire c s (In t (with_acc t item)))
        | [] =>
            if direct then
              match prod s with
              | (_, item) :: rest =>
                  option_map (fun s1 => s1 <| prod := rest |> <| prod_at := next_prod_at s rest |> <| putlog := t :: putlog s |>
                                           <| oracle := if stopped_v1 then orest else oracle s |>)
                             (fire c s (In t (with_acc t item)))
              | [] => None
              end
            else if closed_now then
              option_map (fun s1 => s1 <| oracle := if stopped_v1 then orest else oracle s |>) (fire c s (CloseIn t))
            else None
        end
  | Closed => None
  end.

(* D. the producer: a put into a buffered channel with room, or close *)
Definition step_producer (s : jsim) : option jsim :=
  let t := now s in
  if negb (prod_done s) && (prod_at s <=? t) then
    match prod s with
    | (_, item) :: rest =>
        if (length (ibuf s) <? icap s)%nat then
          Some (s <| ibuf := ibuf s ++ [item] |> <| prod := rest |> <| prod_at := next_prod_at s rest |> <| putlog := t :: putlog s |>)
        else None
    | [] => Some (s <| iclosed := true |> <| prod_done := true |>)
    end
  else None.

(* E. nothing is enabled at this instant: advance the clock to the next instant at which something may be *)
Definition zmin_opt (a : option Z) (b : option Z) : option Z :=
  match a, b with Some x, Some y => Some (Z.min x y) | Some x, None => Some x | None, y => y end.
Definition later (s : jsim) (t : Z) (enabled : bool) : option Z := if enabled && (now s <? t) then Some t else None.

Definition advance (c : jcfg) (s : jsim) : option jsim :=
  let cand :=
    zmin_opt (later s (prod_at s) (negb (prod_done s)))
    (zmin_opt (later s (cons_at s) (negb (cons_done s)))
    (zmin_opt (match holding s with Some (u, _) => later s u (negb (cons_done s)) | None => None end)
    (zmin_opt (later s (stop_at s) (negb (stop_called s) && (0 <=? stop_at s)))
              (if (0 <? interval c) && match pc (d s) with Loop => true | _ => false end
               then Some (let k := (now s - 0) / interval c + 1 in k * interval c) else None)))) in
  match cand with
  | Some t => Some (s <| now := t |> <| next_tick := if (0 <? interval c) then (if t mod interval c =? 0 then t else (t / interval c + 1) * interval c) else 0 |>)
  | None => None
  end.

Definition sim_step (c : jcfg) (s : jsim) : option jsim :=
  orelse (step_stop c s) (fun _ => orelse (step_consumer c s) (fun _ => orelse (step_disc c s) (fun _ =>
  orelse (step_producer s) (fun _ => advance c s)))).

Fixpoint sim_run (c : jcfg) (fuel : nat) (s : jsim) : jsim * bool :=
  match fuel with
  | O => (s, false)
  | S f => match sim_step c s with Some s' => sim_run c f s' | None => (s, true) end
  end.
