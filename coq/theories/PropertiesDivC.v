(* Property theorems for C14: closeness of Rate to the proportional share, for the exact rational rounding and for float64. *)
From Coq Require Import List NArith ZArith Bool. From Cqos Require Import Base Divider DividerP DividerC Float64. Import ListNotations. Open Scope N_scope.
Theorem C14_rate_close :
  forall (part : N -> N -> N -> N) (ps : list N) (d : N),
         ps <> [] ->
         0 < sum_list ps ->
         (forall p : N, In p ps -> 2 * absdiff (part d (sum_list ps) p * sum_list ps) (d * p) <= sum_list ps) ->
         forall i : nat,
         (i < length ps)%nat ->
         2 * absdiff (nth i (rate_incs part ps d) 0 * sum_list ps) (d * nth i ps 0) <=
         N.of_nat (length ps) * sum_list ps.
Proof. exact @rate_close. Qed.
Print Assumptions C14_rate_close.

Theorem C14_part_q_close :
  forall d S p : N, 0 < S -> 2 * absdiff (part_q d S p * S) (d * p) <= S.
Proof. exact @part_q_close. Qed.
Print Assumptions C14_part_q_close.

Theorem C14_rate_q_close :
  forall (ps : list N) (d : N),
         ps <> [] ->
         0 < sum_list ps ->
         forall i : nat,
         (i < length ps)%nat ->
         2 * absdiff (nth i (rate_incs part_q ps d) 0 * sum_list ps) (d * nth i ps 0) <=
         N.of_nat (length ps) * sum_list ps.
Proof. exact @rate_q_close. Qed.
Print Assumptions C14_rate_q_close.

Theorem C14_part_f_close :
  forall d S p : N, f_dom d S p -> 2 * absdiff (part_f d S p * S) (d * p) <= S.
Proof. exact @part_f_close. Qed.
Print Assumptions C14_part_f_close.

Theorem C14_rate_f_close :
  forall (ps : list N) (d : N),
         ps <> [] ->
         0 < sum_list ps ->
         sum_list ps < 2 ^ 53 ->
         d * sum_list ps <= 2 ^ 50 ->
         forall i : nat,
         (i < length ps)%nat ->
         2 * absdiff (nth i (rate_incs part_f ps d) 0 * sum_list ps) (d * nth i ps 0) <=
         N.of_nat (length ps) * sum_list ps.
Proof. exact @rate_f_close. Qed.
Print Assumptions C14_rate_f_close.

Theorem C14_part_f_near_part_q :
  forall d S p : N,
         f_dom d S p ->
         part_f d S p = part_q d S p \/ (2 * d * p) mod (2 * S) = S /\ part_f d S p + 1 = part_q d S p.
Proof. exact @part_f_near_part_q. Qed.
Print Assumptions C14_part_f_near_part_q.

Theorem C14_part_f_eq_part_q_partial :
  forall d S p : N,
         0 < S ->
         p <= S -> S < 2 ^ 53 -> d * S <= 2 ^ 50 -> (2 * d * p) mod (2 * S) <> S -> part_f d S p = part_q d S p.
Proof. exact @part_f_eq_part_q_partial. Qed.
Print Assumptions C14_part_f_eq_part_q_partial.

Theorem C14_part_f_neq_part_q_at_half :
  part_f 1 98 49 = 0 /\ part_q 1 98 49 = 1.
Proof. exact @part_f_neq_part_q. Qed.
Print Assumptions C14_part_f_neq_part_q_at_half.

Theorem C14_part_f_mono_partial :
  forall d S p q : N,
         0 < S -> d < 2 ^ 53 -> S < 2 ^ 53 -> p < 2 ^ 53 -> q <= p -> part_f d S q <= part_f d S p.
Proof. exact @part_f_mono_partial. Qed.
Print Assumptions C14_part_f_mono_partial.

