(* Property theorems for C16, v1 join: the stop alternative is enabled at every blocking point and leads to Closed. *)
From Coq Require Import List ZArith Bool. From Cqos Require Import Join JoinStop. Import ListNotations. Open Scope Z_scope.
Theorem C16_join_stop_alternative_enabled :
  forall (c : jcfg) (s : jst) (t : Z),
         is_v1 c = true ->
         stopped s = true ->
         pc s <> Closed ->
         exists (s' : jst) (o : list emission),
           jstep c s (stop_event s t) = Some (s', o) /\ o = [] /\ stopped s' = true.
Proof. exact @stop_alternative_enabled. Qed.
Print Assumptions C16_join_stop_alternative_enabled.

Theorem C16_join_stop_terminates :
  forall (c : jcfg) (s : jst) (t : Z),
         is_v1 c = true ->
         stopped s = true -> exists s' : jst, stop_run c 6 s t = Some (s', []) /\ pc s' = Closed.
Proof. exact @join_stop_terminates. Qed.
Print Assumptions C16_join_stop_terminates.

