(* The blocking points of the generated program of the v1 join goroutine (GenConcJoinV1.v, run by GoConc.v): every blocking
   statement with what it offers to the environment, for any state and any continuation -- every select contains the two
   stop alternatives (the breaker's IsBreaked() channel and Ctx.Done()) -- and the list of all blocking statements. *)
From Coq Require Import List NArith ZArith Bool.
From Cqos Require Import GoSem GoConc GenJoinV1 GenConcJoinV1.
Import ListNotations.

Definition stmtT := stmt cstate payload chan_id fname.
Definition wbody (s : stmtT) : list stmtT := match s with While _ b => b | _ => [] end.
Definition if_then (s : stmtT) : list stmtT := match s with If _ t _ => t | _ => [] end.
Definition at_ (n : nat) (l : list stmtT) : stmtT := nth n l Return.

Definition stopAlts : list (chan_id * option payload) := [(CBreakerIsBreaked, None); (CCtxDone, None)].
Definition loopW := at_ 3 body_loop.
Definition luW := at_ 1 body_loopUntimeouted.

(* loop(): stop, the ticker, the input *)
Theorem blocked_loop v k :
  step1 table (v, KSeq (wbody loopW) :: k) = Block (RqSelect (stopAlts ++ [(CTick, None); (CInput, None)]) false).
Proof. reflexivity. Qed.
(* loopUntimeouted(): stop or the input *)
Theorem blocked_loop_untimeouted v k :
  step1 table (v, KSeq (wbody luW) :: k) = Block (RqSelect (stopAlts ++ [(CInput, None)]) false).
Proof. reflexivity. Qed.
(* send(): stop or the write of the slice to the output *)
Theorem blocked_send v k :
  step1 table (v, KSeq (skipn 1 body_send) :: k) = Block (RqSelect (stopAlts ++ [(COutput, Some (PList (send_item v)))]) false).
Proof. reflexivity. Qed.
(* send() with opts.Released: stop or the release signal *)
Theorem blocked_released v k :
  step1 table (v, KSeq (if_then (at_ 2 body_send)) :: k) = Block (RqSelect (stopAlts ++ [(CReleased, None)]) false).
Proof. reflexivity. Qed.
(* the clock (resetPassAt, isTimeouted) and the creation of the ticker (loop) are requests that never block *)
Theorem blocked_resetPassAt v k : step1 table (v, KSeq body_resetPassAt :: k) = Block RqNow.        Proof. reflexivity. Qed.
Theorem blocked_isTimeouted v k : step1 table (v, KSeq body_isTimeouted :: k) = Block RqNow.        Proof. reflexivity. Qed.
Theorem blocked_newTicker v k :
  step1 table (v, KSeq (skipn 1 body_loop) :: k) = Block (RqNewTicker (Discipline_interruptInterval (st_dsc v))).
Proof. reflexivity. Qed.

(* all statements of the bodies that are requests other than close / Ticker.Stop, counted per function *)
Fixpoint nblock (s : stmtT) : nat :=
  let gs := fix gs (b : list stmtT) : nat := match b with [] => 0%nat | x :: y => (nblock x + gs y)%nat end in
  match s with
  | Recv _ _ | GoConc.Send _ _ | Sleep _ | Now _ | NewTicker _ => 1%nat
  | Select alts d =>
      (1 + (fix go (l : list (comm cstate payload chan_id * list stmtT)) : nat :=
              match l with [] => 0 | a :: r => gs (snd a) + go r end) alts
         + match d with Some b => gs b | None => 0 end)%nat
  | If _ t e => (gs t + gs e)%nat
  | While _ b => gs b
  | Defer b => gs b
  | _ => 0%nat
  end.
Definition nblocks (l : list stmtT) : nat := fold_right (fun x n => (nblock x + n)%nat) 0%nat l.
Definition all_fnames : list fname :=
  [F_resetPassAt; F_send; F_pass; F_process; F_loopUntimeouted; F_isTimeouted; F_loop; F_main].
(* resetPassAt 1 (clock), send 2 (the two selects), loopUntimeouted 1, isTimeouted 1 (clock), loop 2 (NewTicker, the select);
   pass, process, main none: the seven statements above are all *)
Theorem blocking_statements : map (fun f => nblocks (table f)) all_fnames = [1; 2; 0; 0; 1; 1; 2; 0]%nat.
Proof. reflexivity. Qed.
(* in particular the only selects are the four above, and each of them offers both stop alternatives *)

Print Assumptions blocked_loop.
Print Assumptions blocked_released.
Print Assumptions blocking_statements.
